#!/usr/bin/env python3
"""Regenerates MANIFEST.json from bin/manifest_data.py (claimed properties) - keeps it valid at all times."""
import json, os, sys
ROOT = os.path.dirname(os.path.dirname(os.path.abspath(__file__)))
sys.path.insert(0, os.path.join(ROOT, 'bin'))
import manifest_data as M
ids = [json.loads(l)['id'] for l in open(os.path.join(ROOT, 'properties.jsonl'))]
checks = []
for pid in ids:
    if pid in M.CLAIMED:
        c = M.CLAIMED[pid]
        checks.append({
            'property_id': pid,
            'quick_cmd': f'bin/check {pid} --tier quick',
            'thorough_cmd': f'bin/check {pid} --tier thorough',
            'evidence_file': f'evidence/{pid}.json',
            'replay_cmd_template': f'bin/check {pid} --replay {{path}}',
            'engine': 'coq-proof+correspondence',
            'level_claimed': {'category': 'proof', 'text': c['text'], 'design_ref': f'DESIGN.md section 5, {pid}'},
            'level_note': c['note'],
            'technique': c['technique'],
        })
na = [{'property_id': pid, 'reason': M.NOT_CLAIMED.get(pid, 'check not built yet in this session (work in progress; the technique applies, see DESIGN.md section 5)')}
      for pid in ids if pid not in M.CLAIMED]
man = {
    'version': 1,
    'setup_cmd': 'bin/setup',
    'hooks': {
        'guard': 'cargo feature verif-hooks (trippy-core, trippy-tui, trippy-dns)',
        'enable': 'harness crates depend on /repo crates by path with features = ["verif-hooks"]',
        'baseline_off_cmd': 'cd /repo && cargo test --workspace --no-fail-fast --offline',
        'source_commits': M.HOOK_COMMITS,
        'add_only': True,
    },
    'engines': [{
        'name': 'coq-proof+correspondence', 'path': 'bin/check',
        'serves_properties': sorted(M.CLAIMED.keys()),
        'kind_free_text': 'Coq 8.16 theorems about hand-written Gallina models (coq/theories), tied to /repo on every run by differential execution of the extracted OCaml model against the real Rust code (harness/), plus model-free oracles for the search',
    }],
    'checks': checks,
    'notes': M.NOTES,
    'not_applicable': na,
}
json.dump(man, open(os.path.join(ROOT, 'MANIFEST.json'), 'w'), indent=1)
print('claimed', len(checks), 'unclaimed', len(na))
