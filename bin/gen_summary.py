#!/usr/bin/env python3
"""Regenerates the per-property summary table of DESIGN.md (between the markers) from bin/props.py, Props/Cxx.v and known_findings.json."""
import os, re, sys, json
root = os.path.join(os.path.dirname(os.path.abspath(__file__)), '..')
sys.path.insert(0, os.path.join(root, 'bin'))
import props
kf = json.load(open(os.path.join(root, 'known_findings.json')))
def ids(kind, p):
    out = []
    for e in kf.get('findings', []):
        if e.get('status') == kind and e.get('property') == p and e.get('id') not in out:
            out.append(e.get('id'))
    return ', '.join(out) or '-'
rows = ['  | property | theorems in Props/Cxx.v | models imported by the statements | proof files used | harness modes (crate:mode) | defects repaired | known findings |', '  |---|---|---|---|---|---|---|']
for i in range(1, 21):
    p = 'C%02d' % i
    src = open(os.path.join(root, 'coq/theories/Props', p + '.v')).read()
    nthm = len(re.findall(r'^Theorem ', src, re.M))
    imps = set()
    for m in re.finditer(r'From TV Require (?:Import |Export )?(.*?)\.\s*$', src, re.M | re.S):
        for w in m.group(1).split():
            w = w.replace('TV.', '')
            if re.match(r'^(Base|Packet|Core|Net|Conc|Tui|Proofs)\.', w):
                imps.add(w)
    models = sorted(w for w in imps if not w.startswith('Proofs.') and not w.startswith('Base.'))
    proofs = sorted(w[7:] for w in imps if w.startswith('Proofs.'))
    modes = ', '.join('%s:%s' % m for m in props.PROPS[p]['modes'])
    rows.append('  | %s | %d | %s | %s | %s | %s | %s |' % (p, nthm, ', '.join(models), ', '.join(proofs) or '-', modes, ids('fixed', p), ids('known', p)))
table = '\n'.join(rows)
d = open(os.path.join(root, 'DESIGN.md')).read()
a, b = '<!-- summary-table-begin -->', '<!-- summary-table-end -->'
if a in d:
    d = d[:d.index(a) + len(a)] + '\n' + table + '\n  ' + d[d.index(b):]
    open(os.path.join(root, 'DESIGN.md'), 'w').write(d)
print(table)
