HOOK_COMMITS = ['261214f', '7473a7b', 'b193b9c', '236d7ec', 'e2efb1f', '03a69db', 'cfb1ec0', '69ed101', '377fa64']
FIX_COMMITS = ['6ab1b61', 'aa5da3f', '23893cd', 'b2f43bf', '6457cb8', '9d7243e', '99e9484', '2173ac6', '62af4cc', '26a6dc2', '11fc74a', '0f6d027', 'e5a31d6', '90ab653', 'c33be62', '33896dd', '86f9aa3', '5aea712', '7455c3e', '08de576', '70dc05f', 'a801988', '4988600', 'bf937de']
NOTES = ('Every check: proof gate (full coq build, forbidden-construct scan, Print Assumptions allow-list = empty) '
         '+ correspondence (extracted model vs real code on corpus + generated cases) + model-free oracle; '
         'known findings in known_findings.json. See DESIGN.md.')
NOT_CLAIMED = {}
CLAIMED = {
    'C13': dict(
        text='Coq theorems: the six codec checksums equal the RFC 1071 checksum (checksum word taken as zero) and verify to 0xFFFF for every '
             'byte string up to 65535 octets and every address pair; the u32 accumulator cannot overflow; the fold loop terminates within 3 steps; '
             'the Paris swap leaves checksum field = sequence and the datagram still verifies, for all 2^16 sequences, ports and addresses. '
             'Model tied to the code by differential execution (all lengths 0..1024, real Channel over simulated socket for Paris).',
        note='trusted: Coq kernel, hand-written model (Packet/Checksum.v) + correspondence harness; no axioms. Not proved: the Rust code itself.',
        technique='Coq proof (algebraic law over Z, lia) + differential testing of extracted model vs implementation'),
}

STRAT_NOTE = ('trusted: Coq kernel; hand-written model of strategy.rs (Core/TracerState.v, Core/Strategy.v) tied to the code by replaying '
              'recorded interaction traces of the real Strategy::run (scripted Network, virtual clock) through the extracted model; no axioms. '
              'The OS socket layer and real time are outside the model (theorems are stated at the Network interface).')
CLAIMED['C07'] = dict(
    text='Coq theorems over every reachable state of the send/receive/update loop, every accepted configuration, unboundedly many rounds: '
         'round window invariant (initial <= round_sequence <= sequence <= round_sequence+512, sequence < 65535, buffer 512), consecutive sequences, '
         'between-round move-or-restart, separation of consecutive rounds for ICMP/UDP, no fault on capacity exhaustion, Dublin/IPv6 payload fits 976. '
         'Correspondence: recorded traces of the real Strategy incl. wrap-boundary initial sequences.',
    note=STRAT_NOTE + ' Separation is proved for ICMP/UDP; for TCP with hundreds of port collisions in two consecutive rounds it does not hold (recorded finding).',
    technique='Coq proof (state invariant by induction over loop iterations) + trace replay of extracted model vs implementation')
CLAIMED['C06'] = dict(
    text='Coq theorems for all histories: every send happens with target not found, first_ttl <= ttl <= max_ttl, ttl <= known target distance or within max_inflight of the farthest answering hop; '
         're-issues keep the TTL; the next TTL moves by exactly one per send and resets exactly on publish; a round-start state always sends the first_ttl probe. '
         'Correspondence + send-log oracle on simulated traces.',
    note=STRAT_NOTE, technique='Coq proof (one-step discipline lemmas over the invariant) + trace replay + send-log oracle')
CLAIMED['C08'] = dict(
    text='Coq theorems: a round is published in an iteration iff the timing policy holds on the clock reading (duration > max, or duration > min and target answered and grace exceeded since the last accepted response); '
         'the reason is TargetFound iff the target answered; the next round starts at the advance reading; a reading more than max beyond the start always publishes. For arbitrary clock readings.',
    note=STRAT_NOTE + ' "max plus one read timeout" is an environment assumption (consecutive update readings at most one send + one read timeout apart).',
    technique='Coq proof (decision procedure = policy, by case analysis + lia) + trace replay under a virtual clock + policy oracle on ground truth')
CLAIMED['C09'] = dict(
    text='Coq theorems for all input histories: the loop never faults; published rounds carry ids 0,1,2.. in order, never more than n, exactly n when the run finishes; '
         'a fatal receive error ends the run with that error; a transient send failure marks exactly that slot Failed; TCP address-in-use marks the slot Skipped and re-issues the next sequence with the same TTL.',
    note=STRAT_NOTE + ' Error visibility in snapshots (Tracer::handle_error) is checked by the harness oracle, not proved.',
    technique='Coq proof (induction over the input history) + trace replay with fault injection')
CLAIMED['C03'] = dict(
    text='Coq theorems: a delivery either leaves the entire tracer state unchanged or is accepted (validate, trace id, sequence issued in the round in progress, slot still Awaited) and then completes exactly that slot; '
         'duplicates, never-sent sequences, previous-round sequences (ICMP/UDP, via C07 separation) and foreign non-zero trace ids are no-ops. '
         'Oracle: replaying the recorded trace with all non-genuine deliveries replaced by timeouts through the real code must give the same sends and rounds.',
    note=STRAT_NOTE + ' Multi-tracer isolation is proved as trace-id rejection; UDP/TCP tracers (trace id 0) rely on distinct ports, which is an OS-level guarantee outside the model.',
    technique='Coq proof (case analysis of recv_response over the invariant) + trace replay + with/without differential oracle')

STATE_NOTE = ('trusted: Coq kernel; hand-written model of state.rs / flows.rs (Core/State.v, Core/Flows.v; f64 statistics as exact rationals) tied to the code by applying '
              'generated round histories to the real State::update_from_round and comparing every public getter with the extracted model; no axioms. IEEE-754 rounding is not modelled.')
CLAIMED['C05'] = dict(
    text='Coq theorems for every sequence of aggregator updates of a hop: counts, total time, best/worst/last equal the direct recomputation from the list of round-trip times; '
         'recv+failed <= sent, address counts sum to recv, fwd+bwd loss <= unanswered, history <= sample limit, best*n <= total <= worst*n; running mean = arithmetic mean, '
         'Welford accumulator = sum of squared deviations, average jitter = mean of successive differences (exact rationals). Refinement (c05_recomputation): the hop record after ANY list of updates equals, field by field, a recomputation from that list - sent / failed / forward- / backward-lost counts, the bounded newest-first sample history (firstn max_samples of the reversed durations), jitter, max jitter, interarrival jitter, last-probe details, ICMP type / TOS / extensions of the last completed probe, NAT status, per-address counts (unique keys); derived figures (c05_derived): loss percentages within 0..100, best <= average <= worst, variance = sample variance. Oracle: independent two-pass recomputation in Rust.',
    note=STATE_NOTE + ' The forward/backward loss CLASSIFICATION of an unanswered probe (which flags update_for_probe passes) is compared by correspondence and oracle only; the derived figures are Coq definitions (Core/State.v) printed by the driver, the square root of stddev_ms is outside the model.',
    technique='Coq proof (invariant over hop updates; field/ring over Q for the running statistics) + differential testing + independent recomputation oracle')
CLAIMED['C10'] = dict(
    text='Coq theorems for every history of published rounds of the shape the strategy produces: applying rounds never faults, highest = max path length, lowest = least probed ttl, '
         'the hop list is the gap-free ascending window lowest..highest (empty when nothing was probed or nothing answered), probed hops carry their own ttl, the round marker is the latest path length, '
         'querying hops / target hop never faults; strategy side: the published path length is 0 or within first_ttl..254; LINK (c10_strategy_rounds_wf, c10_end_to_end): every round the strategy model publishes, for every accepted configuration and every environment behaviour incl. TCP re-issues, has that shape, so the chain strategy -> aggregator -> hop list never faults.',
    note=STATE_NOTE + ' That the target distance equals the true distance on a stable path is checked by the simulator oracle, not proved.',
    technique='Coq proof (window invariant by induction over rounds) + differential testing + simulator ground-truth oracle')
CLAIMED['C15'] = dict(
    text='Coq theorems: a matching check selects an entry that covers the round flow (after merge) and only extends it; ids are dense from 1 in registration order; at most one flow is added per round; '
         'the number of flows never exceeds max_flows; a round is attributed to a covering flow also when the registry is saturated and is left unattributed only when saturated and every entry conflicts.',
    note=STATE_NOTE + ' Per-flow statistics = statistics of exactly the attributed rounds is checked by the re-attribution oracle (same aggregator code per flow), not proved separately.',
    technique='Coq proof (list induction on the registry; state invariant) + differential testing + independent re-attribution oracle')
CLAIMED['C19'] = dict(
    text='Coq theorems: a responding hop is NAT-detected iff its quoted checksum differs from the previous responding hop (first hop: from the checksum sent); the carried checksum is the one just quoted; '
         'the per-round fold equals the declarative specification; only IPv4/UDP/Dublin responses carry checksums (all else stays not-applicable); no rewriting => never detected; one rewriting device => detected exactly at the first responding hop at or beyond it.',
    note=STATE_NOTE + ' The expected checksum recomputation from quoted ports/length/pattern (Ipv4::calc_udp_checksum) belongs to the receive-path model (C02/C04 slice).',
    technique='Coq proof (case analysis + list induction) + differential testing + per-round specification oracle')

CLAIMED['C20'] = dict(
    text='PARTIAL. Coq theorem for the lock discipline as modelled (handler = write lock around all sub-updates of a round; snapshot = clone under read lock; clear = store empty under write lock), '
         'any number of readers and clearers and EVERY schedule: every snapshot equals the whole consecutive rounds since the last completed clear. '
         'Tie to the code: controlled pre-emption of the real Tracer at every yield point inside update_from_round with a reader and a clearer (must stay blocked; snapshots must equal a sequentially recomputed whole-rounds state) + free-running stress.',
    note='trusted: Coq kernel; the interleaving model (Conc/Tracer.v) and its fidelity to parking_lot::RwLock and the Rust memory model (assumed); the yield hook; schedule exploration is testing, not proof.',
    technique='Coq proof (lock invariant over all schedules of an interleaving model) + controlled-schedule execution of the real code')

CLAIMED['C01'] = dict(
    text='Coq theorem for ICMP, UDP and TCP (incl. re-issued probes) over all input histories: every published round is exactly, slot by slot, the status list computed from the '
         'network-level history of that round - Failed iff the send reported a transient failure, Complete (with the fields of the probe as sent and of the response) iff a genuine response '
         '(validate, trace id, sequence issued in this round, probe still awaiting) was delivered before the round was published, the first one winning, Skipped iff the send reported address-in-use and the probe was re-issued, Awaited otherwise; none invented, dropped or duplicated; '
         'the ghost run publishes exactly the rounds of the real run. Snapshot totals: the aggregator model applied to the published rounds is compared with the real Tracer snapshot, and an independent '
         'recomputation oracle checks the per-hop sums. Ground-truth oracle from the simulator for all protocols incl. TCP.',
    note=STRAT_NOTE + ' Stated at the Network interface (what Channel hands to / receives from the strategy); the byte-level link (a response packet quoting probe p is genuine for p) belongs to C02.',
    technique='Coq proof (ghost-history invariant by induction over loop iterations) + trace replay of extracted model vs implementation + simulator ground-truth oracle')

CLAIMED['C11'] = dict(
    text='Coq theorems (Props/C11.v) over the output log of Channel::connect + send_probe, for every accepted configuration, packet size 28/48..1024, tos, pattern, '
         'ttl, sequence, identifier, ports and addresses: ICMP and UDP (classic, Paris, Dublin) over IPv4 put exactly one datagram on the raw socket that an independent '
         'RFC 791/792/768 bit-offset decoder reads as version 4 / IHL 5, configured tos, DF set, total length = byte count (= packet size for ICMP, classic, Dublin), '
         'ttl, protocol, source, target, echo request with trace id + sequence / UDP ports, consistent UDP length, RFC 1071-valid checksum, pattern payload; Paris: checksum '
         'field = sequence and still valid; Dublin/IPv4: identification = sequence; IPv6: set_unicast_hops_v6 = ttl precedes the send, ICMPv6 / UDP valid under the RFC 8200 '
         'pseudo-header, Dublin payload = "trippy" ++ pattern of length sequence - initial_sequence; unprivileged UDP and TCP: the exact bind / ttl / tos / send_to|connect list; '
         'out-of-range sizes give InvalidPacketSize and send nothing; no cell faults for ANY packet size and ANY injected socket error; ErrorMapper as written. '
         'Three defects repaired (zero UDP checksum over IPv6; panic on the 257th pending TCP probe; Paris/IPv6 with initial sequence 0 is now refused by the builder, and every issued sequence is proved >= 1 for that cell: c11_paris6_sequence_nonzero).',
    note='trusted: Coq kernel; hand-written model (Net/Wire.v, Sock.v, Dispatch4.v, Dispatch6.v, ChannelSend.v) tied to the code by differential execution of the real '
         'Channel over a recording Socket; no axioms. Ipv4ByteOrder::Host is proved but not tied to code (variant absent on Linux). The kernel-written IPv6 header and the OS '
         'socket layer are outside the model.',
    technique='Coq proof (closed forms of the builders by symbolic evaluation, RFC bit-slice decoder lemmas, C13 checksum theorems) + differential testing of the extracted model '
              '+ model-free RFC decoder oracle')

CLAIMED['C12'] = dict(
    text='Coq theorems: for every header-field accessor pair of trippy-packet (88 pairs, 17 packet types) the model getter equals the RFC '
         'big-endian bit slice (offset, width) and the model setter rewrites exactly that slice with its argument truncated to the field width, '
         'without fault, for every byte buffer of at least the minimum size and every value of the setter\'s Rust argument type; generic laws of '
         'the slice (round trip, frame bit-by-bit and field-by-field, length, byte order) for all buffers; new/new_view succeed iff length >= minimum '
         '(19 types). Ipv6Packet::set_flow_label is modelled as fixed (argument masked to 20 bits). '
         'Model tied to the code by differential execution; model-free RFC bit-slice oracle in the harness.',
    note='trusted: Coq kernel (incl. vm_compute for byte-local sweeps of at most 2^14 cases), hand-written model (Packet/Fields.v) + correspondence harness, '
         'the (offset, width) table read off the RFCs (kept twice, in Props/C12.v and in harness m_c12.rs); no axioms. Not proved: the Rust code itself. '
         'TCP reserved/flags are checked against the RFC 3540 split (3 + 9 bits) the code implements, not the RFC 9293 one (4 + 8); '
         'icmpv6 DestinationUnreachable next_hop_mtu has no RFC counterpart.',
    technique='Coq proof (bit-list specification, locality + arithmetic bridge, finite sweeps) + differential testing of extracted model vs implementation + RFC bit-slice oracle')

CLAIMED['C14'] = dict(
    text='Coq theorems: for every message built per RFC 4884 (compliant length attribute in 32-/64-bit words with zero padding to the word and to 128 octets, or the legacy 128-octet convention), '
         'ICMPv4 and ICMPv6, Time Exceeded and Destination Unreachable, any original datagram, any list of extension objects (any class/payload; MPLS stacks of any depth >= 1 with any label/EXP/S/TTL), '
         'payload() returns the (word-padded) original datagram unchanged, extension() the extension structure, Extensions::try_from exactly the encoded objects and label-stack entries in order, under both parse modes; '
         'for EVERY message and length octet payload and extension are disjoint in-order sub-ranges inside the message; both iterators return within len/4+1 steps without reading outside, for every buffer; no fault for any byte string. '
         'Correspondence + oracle: all 255 length attributes x paddings x families, corruption stream, pointer-range checks on the real code.',
    note='trusted: Coq kernel; hand-written model (Packet/IcmpExt.v) of the code AFTER the repairs C14_fix_1 (RFC 4884 length octet was multiplied in u8: quotations >= 256 octets wrapped / panicked) and C04_fix_2; '
         'spec = RFC builder Packet/Rfc4884.v, tied to the Rust oracle builder on every run. An MPLS object with no label-stack entry makes Extensions::try_from return Err (the response is then dropped by the caller) - stated, not claimed as a defect.',
    technique='Coq proof (induction over object / label lists, fuel-sufficiency lemmas, byte-local facts by 256-value vm_compute sweeps) + differential testing of extracted model vs implementation + builder-based oracle')

CLAIMED['C04'] = dict(
    text='PARTIAL until the receive-path slice is merged: Coq theorems for the trippy-packet half - for every packet view (19) and every buffer of at least the minimum size every non-mutating accessor / payload() / options / iterator returns without fault; '
         'for ANY buffer a view is either rejected with an error value or all accessors succeed; the extension splitter, object / MPLS iterators and Extensions::try_from never fault and terminate within len/4+1 steps, for any bytes; '
         'the strategy loop never faults for any response delivered at the Network interface (C09 c09_run_never_faults, incl. the Dublin/IPv6 payload-length sequence). '
         'Correspondence: every accessor x structure-aware / random buffers, exhaustive sweeps of IHL, TCP data offset, RFC 4884 length octet, object lengths against every buffer length.',
    note='trusted: Coq kernel; hand-written models Packet/Views.v, Packet/IcmpExt.v (after the repairs 62af4cc, 26a6dc2, 11fc74a) tied to the code by differential execution; no axioms. '
         'The byte-level receive path of trippy-core net/ipv4.rs / ipv6.rs (recv_icmp_probe, extract_*) is being modelled separately; until it is merged that part is covered by the C09/C03 interface-level theorems only.',
    technique='Coq proof (totality lemmas per accessor over checked slicing; fuel-sufficiency) + differential testing + panic oracle with exhaustive field-value x buffer-length sweeps')

CLAIMED['C16'] = dict(
    text='Coq theorems: for each of the 44 layered options the value build_config works with is the command-line entry, else the file entry '
         '(an absent section = no entry; the sections\' Default tables are proved to agree with the documented defaults), else the documented default, '
         'and it is a function of the two entries of that option alone (non-interference); every non-derived option is carried unchanged into TrippyConfig; '
         'the derived fields (protocol and address family with their shortcut flags, port direction, max_rounds, tui_max_addrs, effective max_flows) are '
         'given with their exact dependency sets; theme colours and key bindings are layered item by item; validators are proved against independent statements; '
         'a configuration accepted by the command-line layer passes every builder check except the initial-sequence bound (which the builder answers with BadConfig); '
         'whatever the (repaired) builder accepts runs every loop iteration without a fault, for every history. '
         'Correspondence: real clap/toml/build_config on rendered argv + TOML for every option x 4 states; the builder grid enumerated completely and executed.',
    note='trusted: Coq kernel; hand-written models Tui/{ConfigTypes,Validate,Layer}.v and Core/Builder.v tied to the code by differential execution; no axioms. '
         'Builder::build is modelled after docs/integration/C16_fix_1.patch (finding F9: first_ttl = 0, Tcp + FixedBoth, Udp/Classic + FixedBoth were accepted and panicked). '
         'clap/toml/humantime/chrono_tz are exercised, not modelled; the no-fault theorem covers the strategy loop, the aggregator only by execution on the grid.',
    technique='Coq proof (case analysis per option, list induction for item maps, inversion of the validation chain) + differential testing of the extracted model '
              'against the real parsers and build_config + exhaustive execution of the builder grid')

# bin/manifest_data.py : entry for C02, and the text to merge into CLAIMED['C04'] (receive half)
CLAIMED['C02'] = dict(
    text='Coq theorems (decode half): for every configuration cell - ICMP, UDP classic / Paris / Dublin x fixed source / destination / both ports, TCP; IPv4 and IPv6; extension parsing on or off - '
         'and every tracer state ts, the datagram carrying the fields probe_data chooses for sequence(ts) (written as an explicit byte string: IP header + ICMP echo / UDP / TCP header + payload), '
         'quoted by a standards-conforming peer in a Time Exceeded or Destination Unreachable (any quotation length >= IP header + 8 octets for IPv4, >= min(datagram, 1232) for IPv6 incl. truncation by the 1024-octet receive buffer, '
         'TTL / hop limit, header checksum and TOS / traffic class rewritten to ANY value, no extension / RFC 4884 compliant structure / legacy 128-octet form with any well-formed objects, outer IPv4 options) or answered by an Echo Reply, '
         'or by the outcome of the TCP handshake on the probe socket, is decoded by the receive path into a response that Strategy::validate accepts, whose trace id passes check_trace_id and whose recovered sequence is exactly sequence(ts); '
         'the quotation of a datagram with another protocol, (UDP/TCP) another destination address or fixed port, a missing Dublin marker, or (ICMP) another non-zero identifier is never accepted. '
         'Correspondence: real Channel<SimSocket>::recv_probe + real strategy functions (hooks) on responses built by an independent Rust encoder, every sequence 0..65534 of every cell in the thorough tier; the bytes the real dispatch emits are compared with the probe constructors.',
    note='trusted: Coq kernel; hand-written models Net/Recv4.v, Recv6.v, Recv.v, RecvCommon.v (after the repairs C04_fix_3, C04_fix_4 and 26a6dc2, 62af4cc) and model A (validate / strategy_resp / probe_data), tied to the code by differential execution; spec Net/RfcPeer.v is independent of the code; no axioms. '
         'Known finding F16 (not repaired): Builder::build accepts UDP + Paris/Dublin in unprivileged mode, where the sequence is not on the wire (shown through the real non-raw dispatch; c02_unprivileged_udp_carries_no_sequence_refuted). Known finding F15 (not repaired): for ICMP the quoted destination address is not checked - a quoted echo request to another host carrying this tracer\'s identifier is accepted (c02_icmp_other_destination_refuted). '
         'Not covered: IPv4 responses longer than the 1024-octet buffer (a conforming router sends at most 576 octets); the send side itself is C11 (here only the probe-shape lines). The remaining in_round test and slot completion are C03 / C07.',
    technique='Coq proof (layered symbolic evaluation of the receive path on header ++ arbitrary tail; arithmetic by lia; case analysis over probe_data) + differential testing of extracted model vs implementation + model-free oracle through the real strategy functions')

# CLAIMED['C04'] - replace the "PARTIAL until the receive-path slice is merged" sentence by:
C04_RECV_TEXT = ('receive path: for every configuration (protocol x privilege x extension mode x addresses x pattern) and EVERY byte string of any length, Ipv4::recv_icmp_probe / Ipv6::recv_icmp_probe and Network::recv_probe '
                 '(incl. recv_tcp_socket outcomes and socket errors) return a response, nothing or an error value - never a fault; the strategy step consuming the response does not fault; the extension iterators never exhaust their fuel. '
                 'Correspondence: 180 k (quick) / 2.4 M (thorough) datagrams through the real Channel<SimSocket>::recv_probe: structure-aware mutations, truncation at every position, random bytes, '
                 'sweeps of outer / nested IHL, UDP length, IPv6 payload length, RFC 4884 octet 0..255 and object lengths against every buffer length.')
C04_RECV_NOTE = ('receive-path model Net/Recv4.v, Recv6.v, Recv.v, RecvCommon.v after the repairs C04_fix_3 (u16 underflow of `udp length - 8`, IPv4 and IPv6) and C04_fix_4 (u16 underflow of `payload_len - 6` when the Dublin marker is present but the length field is short). '
                 'An error value returned by recv_probe ends the tracer (Strategy::run propagates it): a 20..27-octet datagram on the raw socket is enough; that is within the letter of C04 (an error value, no panic) and is reported, not repaired.')

CLAIMED['C04'] = dict(
    text='Coq theorems. Packet half: for every packet view (19) and every buffer of at least the minimum size every non-mutating accessor / payload() / options / iterator returns without fault; '
         'for ANY buffer a view is either rejected with an error value or all accessors succeed; the extension splitter, object / MPLS iterators and Extensions::try_from never fault and terminate within len/4+1 steps, for any bytes. '
         + C04_RECV_TEXT +
         ' The strategy loop never faults for any response delivered at the Network interface (C09 c09_run_never_faults). '
         'Correspondence (packet half): every accessor x structure-aware / random buffers, exhaustive sweeps of IHL, TCP data offset, RFC 4884 length octet, object lengths against every buffer length.',
    note='trusted: Coq kernel; hand-written models Packet/Views.v, Packet/IcmpExt.v (after the repairs 62af4cc, 26a6dc2, 11fc74a) and ' + C04_RECV_NOTE +
         ' All tied to the code by differential execution; no axioms. Not modelled: the socket layer itself (SimSocket stands in), IPv4 datagrams longer than the 1024-octet receive buffer are truncated by the harness as recv_from does.',
    technique='Coq proof (totality lemmas per accessor and per receive-path function over checked slicing; fuel-sufficiency) + differential testing + panic oracle with exhaustive field-value x buffer-length sweeps')

# ---- C17 / C18 (append to bin/manifest_data.py; then python3 bin/gen_manifest.py) --------------
TUI_NOTE = ('trusted: Coq kernel; hand-written models Tui/App.v (TuiApp methods, run_app prologue and key dispatch, State accessors by flow id, over the SHAPE of the '
            'trace data) and Tui/Privacy.v, of the code AFTER the repairs C17_fix_1..4; tied to the code by replaying recorded op lists through the extracted model '
            '(harness/htui: real TuiApp over never-running tracers fed with Tracer::verif_apply_round, ratatui TestBackend); no axioms. The key dispatch chain of run_app '
            'cannot be separated from the crossterm event loop: the harness carries a transcription of it (using the real KeyBinding::check and the real TuiApp methods).')
CLAIMED['C17'] = dict(
    text='PARTIAL (by nature). PROVED in Coq, for every interleaving of unboundedly many data-shape changes (new rounds, clear, new / vanished flows, growing / shrinking paths, '
         'hops losing addresses), TuiApp method calls, key events through the run_app dispatch and frames: no step is a fault (no missing State map key, no index out of bounds, '
         'no usize underflow, no unwrap on None, incl. every accessor the views evaluate) and after every step the selected trace, flow, hop, hop address, flow_counts entry, '
         'settings tab, settings item and column index refer to existing entries of the data on display (c17_selection_valid, c17_every_step). '
         'ONLY EXECUTED, not proved: that ratatui drawing (render::app::render as a whole: layout solver, widgets, chart, canvas, unicode width) neither panics nor hangs - '
         'every scenario is drawn on a TestBackend at 1x1..300x100 under catch_unwind and a watchdog; implementation and model agree on the selection state after every op.',
    note=TUI_NOTE + ' Environment assumption of the theorems (wf_shape: flow 0 and every registered flow in the map, registered ids non-zero and containing 1, at most max_flows, '
         'at most 254 hops) is checked on every observed State. Known finding, not repaired (dependency): the table layout solver (cassowary via ratatui 0.29) occasionally does not '
         'return when the shown columns need more width than the terminal has (hash-order dependent).',
    technique='Coq proof (selection invariant by induction over the op list) + op-list replay of the extracted model vs the real TuiApp + panic / stale-index / hang oracle on a TestBackend')
CLAIMED['C18'] = dict(
    text='PARTIAL (by nature). PROVED in Coq: with privacy n every view decision (Host cell with and without hop details, map pin filter, map info panel) yields the placeholder for every '
         'hop with ttl <= n and is independent of the hop\'s address / hostname / AS / GeoIP strings (the formatting function of the normal branch is arbitrary), takes the normal branch for ttl > n '
         'and when privacy is off; the source is hidden iff privacy is on; expand / contract move n by exactly one step along off,0,..,hop_count, never fault and never leave that range over any command sequence. '
         'ONLY EXECUTED, not proved: that no other code path writes hidden text to the frame - unique sentinel strings for IP, reverse-DNS, AS and GeoIP fields are searched in the TestBackend cells '
         'of every frame re-drawn across the view matrix (view x selected row x details x address mode x AS mode x GeoIP mode x max_addrs x size, 120960 combinations walked by a running counter).',
    note=TUI_NOTE + ' Known finding, not repaired (by design of the feature): the destination in the header line is never hidden, so the address of the target hop is on screen even when its ttl <= n '
         '(c18_destination_refuted; oracle tag C18:dest_in_header).',
    technique='Coq proof (case analysis of the Option<u8> comparison, parametric in the formatting function; walk invariant for expand/contract) + sentinel search in rendered frames + model prediction of privacy value and per-row H/N/V')

# ---- whole-run extensions (Proofs/RunLog*.v, RunSemantics.v, SeqWalk.v, RoundFold.v, RoundNat.v, PublishAscending.v,
#      SendErrorsProofs.v, IssuedProbes.v, ChecksumExtra.v)
CLAIMED['C06']['text'] += (' WHOLE RUNS (Proofs/RunLog.v): the observation log of a run (sends with outcomes, deliveries, clock readings, publications) is judged by a specification that '
    'never looks at the tracer state; for every accepted configuration and every environment behaviour: each probe sent carries the next ttl of the round, the send log of a round is '
    'first_ttl, first_ttl+1, ... without gap or repeat (re-issues keep the ttl), every round sends the first-ttl probe, nothing is sent after a genuine answer of the target in that round, '
    'and on a stable path nothing is ever sent above the established target distance in later rounds; the ghost of the log equals the fields the code holds (c06_state_is_ghost).')
CLAIMED['C08']['text'] += (' WHOLE RUNS: every round published in any run satisfies the policy at the reading update_round took measured from the round start, every reading that leaves the round '
    'open does not; the next round starts at the publish reading; under the environment assumption that consecutive update readings are at most D apart (one send + one read timeout) no round '
    'is held open longer than max-round-duration + D (c08_held_open_bound). The receive path is tied to the assumption: one recv_probe call = one wait, one datagram (recv2 lines, wait counters).')
CLAIMED['C07']['text'] += (' WHOLE RUNS (Proofs/SeqWalk.v): the sequence numbers handed to the network in any run follow the walk (consecutive inside a round, move-or-restart between rounds); '
    'for ICMP/UDP no number of the preceding round is reused; Dublin/IPv6 payload lengths fit for every probe of every run; the TCP capacity error arises exactly when the 512 budget of a round '
    'is used up by address-in-use re-issues (before the first send or after the last slot), never otherwise.')
CLAIMED['C09']['text'] += (' WHOLE RUNS (Proofs/RunSemantics.v): with a round limit n and no fatal outcome the run publishes exactly n rounds and finishes; a finished run is final; an error '
    'result is always exactly an error the environment injected, it ends the run in that iteration after the sends already made; transient send failures never end a run; the published rounds '
    'read on the event trace: Skipped only for address-in-use sends, Failed only for transient failures of that probe.')
CLAIMED['C05']['text'] += (' LOSS CLASSIFICATION now proved (Proofs/RoundFold.v, RoundNat.v, PublishAscending.v): is_forward_loss means "first awaited probe after which nothing answers"; at most one forward loss '
    'per round, never also a backward loss; Failed probes are never loss; for the ascending rounds the strategy publishes (proved for every run) the awaited probes inside the answered part are neither, '
    'the first of the trailing unanswered run is forward loss, the rest backward loss; after ANY list of published rounds every hop is hop_run of exactly the events those rounds hold for its ttl, '
    'also through State::update_from_round per flow.')
CLAIMED['C19']['text'] += (' Per-round NAT fold over whole histories of rounds (Proofs/RoundNat.v): the carried checksum restarts each round from the first responding hop; the expected checksum of an unrewritten probe equals the '
    'quoted one (Proofs/NatLink.v), so detection happens only at rewriting devices.')
CLAIMED['C11']['text'] += (' UNDER ERRORS (Proofs/SendErrorsProofs.v): for every cell and every list of injected socket errors the calls made are a prefix of the error-free list (nothing added, reordered or changed), '
    'the datagram handed to send_to is the error-free datagram, connect / send_to is always the last call after every option was set; ErrorMapper tables per family as written. '
    'GLUE (Proofs/IssuedProbes.v): every probe the strategy issues lies in the quantifier domain of the dispatch theorems, and its sequence / identifier / ports are the fields read back from the wire per cell.')
CLAIMED['C13']['text'] += (' Extra (Proofs/ChecksumExtra.v): the Paris datagram over IPv6 (RFC 8200 pseudo-header, payload octets chosen so that checksum = sequence) verifies and the choice is unique; '
    'the word skipped by the codecs is the checksum word for every data string; Paris over IPv4 stated with RFC 768 pseudo-header octets.')

# ---- second round of theorem growth (Proofs/SnapshotTotals.v, NonInterference.v, PrevRound.v, ExtCodecProofs.v, ExtModelsAgree.v,
#      ExtEndToEnd.v, RecvOutcomes.v, ViewsExtra.v, FlowHistory.v, HopWindow.v, TargetEnd.v, Conc/TracerRich.v + Tracer*.v)
CLAIMED['C01']['text'] += (' SNAPSHOT STEP (Proofs/SnapshotTotals.v): for every run the State fed with the published rounds exists and hop t of the default flow has total_sent = probes of ttl t handed to the '
    'network in published rounds and not abandoned as Skipped, total_failed = transient send failures at t, total_recv = genuine responses (first per probe) delivered before the publish, total_time = the sum of '
    'their non-negative round-trip times, address multiset = their hosts with multiplicities; sums over all hops: nothing invented, dropped or duplicated; per-flow versions through update_from_round; the round '
    'in progress is never visible. END TO END (mode e2e): the real Builder -> Tracer -> Strategy -> Channel chain over a simulated path, ground-truth oracle per hop.')
CLAIMED['C03']['text'] += (' WHOLE RUNS (Proofs/NonInterference.v): a non-genuine delivery returns literally the timeout result (no field differs); the four classes of non-genuine deliveries are complete; two histories '
    'that differ only in non-genuine deliveries have identical sends, published rounds, outcome, final tracer state and snapshot; scrubbing every non-genuine response to a timeout gives the same run (the harness '
    'oracle, now a theorem); responses with another tracer\'s non-zero identifier never change a run (composed with the identifier assignment of Tui/TraceId.v); for ICMP/UDP a response naming a sequence of the round '
    'published last is never genuine. Boundary shown by witness (c03_any_other_identifier_refuted): identifier 0 in a response is accepted by an ICMP tracer too - the property excludes it ("non-zero").')
CLAIMED['C14']['text'] += (' ENCODER AND ROUND TRIP (Packet/ExtEncode.v, Proofs/ExtCodecProofs.v, ExtEndToEnd.v): parse (encode s) = s for every well-formed structure (any objects, MPLS stacks, unknown classes, payloads), '
    'the encoder emits a valid RFC 1071 checksum; through whole ICMPv4 / ICMPv6 Time Exceeded / Destination Unreachable messages in compliant and legacy placement the quoted datagram comes back with less than one word of padding '
    'which belongs to neither piece; closed form of the splitter for every length octet; the object and label iterators as deterministic relations on strictly decreasing suffixes, at most (length-4)/4 objects, never outside the buffer; '
    'malformed input: wrong version -> no extensions, short header -> error value, a malformed object ends the iteration keeping what came before; the receive-path decoder (Net/RecvCommon.v) equals the packet codec on every octet string. '
    'Shown by witness: the checksum of the extension header is not verified; a plain message with length octet 0 quoting more than 131 octets has its tail read as a (version-checked) extension.')
CLAIMED['C04']['text'] += (' OUTCOMES (Proofs/RecvOutcomes.v, ViewsExtra.v): recv4 / recv6 / recv_probe return a value or one of the named error values for every datagram; oversized datagrams are handled as their first 1024 octets; '
    'hostile nested headers are total in both families; every accessor used on the receive path is in bounds given the new_view check before it (and that check is needed); the TCP socket array stays within 256 entries over '
    'any history of dispatch / settle / poll events without fault.')
CLAIMED['C10']['text'] += (' ENDS AT THE TARGET (Proofs/HopWindow.v, TargetEnd.v): never-probed ttls inside the window are present as default hops; hops() and target_hop() characterised by position; is_target / is_in_round characterised; '
    'the window never shrinks; over whole runs every published path length is a closed form of the log before it - the smallest ttl the target answered at in the round, else the carried distance - a silent network gives an empty table, '
    'rounds are contiguous from first_ttl and never report a length beyond the farthest ttl probed; end to end every hop of the table built from any run carries its own ttl from first_ttl to the greatest reported length and the target hop is the one tagged with the last length. '
    'Refuted with witnesses (observations, not violations of the statement): per-flow tables can designate a never-probed hop when a round cut short over a new path carries the old length; is_target for never-probed hops when the last length is 0 (not reachable through the tracer).')
CLAIMED['C15']['text'] += (' OVER ALL HISTORIES (Proofs/FlowHistory.v): the registry only grows, identifiers are never reassigned, renumbered or removed; the same flow always gets the same identifier; an entry stays consistent with every round attributed to it; '
    'different identifiers always hold conflicting entries; at most max_flows entries, the behaviour of a round at a full registry stated exactly; per-flow state = fold of exactly the attributed rounds, flow 0 = all rounds; refinement to an abstract first-fit registry; '
    'the attributed flow agrees position by position with the addresses of the round. Defect repaired (F20): a probe whose send failed had no position in the flow, later hops moved up by one and a round over a known path got a new identifier (c15_failed_probe_keeps_position).')
CLAIMED['C20']['text'] = CLAIMED['C20']['text'].replace('PARTIAL. Coq theorem', 'PARTIAL. Coq theorems (33)') + (' Added (Conc/TracerRich.v simulated by Conc/Tracer.v, Proofs/Tracer*.v): snapshots in clone order never go back; freshness after release; a clear hides every older round; '
    'all sub-updates of a round or none, flow 0 and the round\'s own flow both or neither; error hand-off: a snapshot cloned after handle_error shows the error with all rounds whole, and - after the repair F19 - keeps showing it across clears; '
    'deadlock freedom incl. readers deferring to parked writers (both parking_lot admission behaviours); two negative variants (lock released between sub-updates; clone-modify-store) admit torn snapshots. '
    'Harness: tracing spans of the publishing thread as extra scheduling points (no source change), steady multi-flow history with a clear at every point.')
CLAIMED['C09']['text'] += ' Defect repaired (F19): Tracer::clear wiped the error of an ended run; run / startup lines now clear after the failed run and require the error to stay visible.'
CLAIMED['C16']['text'] += (' The value in force in the frontend: every field of the TuiConfig built by the real make_tui_config (hook) is compared with the effective configuration on each case. '
    'END TO END (mode e2e): accepted configurations of every protocol / strategy / port direction / family run N rounds through the real Channel over a simulated path, incl. long silent runs that walk the sequence space.')
CLAIMED['C17']['text'] += ' Every second case runs with a generated, well-formed MaxMind DB behind the real reader and lookup cache (map, hop details, GeoIP columns).'
CLAIMED['C18']['text'] += ' GeoIP data is shared by groups of addresses (a hidden and a visible hop at one location); structural rule for the map info panel; every second case looks its GeoIP data up in a generated MaxMind DB through the real reader.'
CLAIMED['C19']['text'] += ' END TO END (mode e2e): unrewritten simulated paths never show NAT, incl. configurations whose UDP checksum computes to zero.'
CLAIMED['C11']['text'] += ' Probe SEQUENCES on one channel (c11seq): every probe of a sequence with equal / alternating / ascending ttls comes out as from a fresh channel (model send_many).'
CLAIMED['C13']['text'] += ' The checksums on the wire: the dispatched datagrams of mode c11 are verified by an independent RFC 1071 summation under this property too.'

CLAIMED['C17']['text'] += (' INTERLEAVING (Proofs/TuiInterleave.v, TuiShapeOfState.v, TuiFrameLemmas.v, TuiHostsProofs.v): every State the core model can reach has a well-formed shape (the former environment assumption is discharged); '
    'from TuiApp::new plus the first frame every finite list of Cmd / Data events (each Data followed by the loop prologue and draw) runs without fault and the selection invariant holds after every event; every index and subtraction of '
    'tui_app.rs / columns.rs is Ok under it; what a frame displays; the zoom factor stays in 1..16; max_addrs is never Some 0 along every history (defect F21 repaired: expand_hosts_max on hops without any address stored 0 and the next frame panicked in clamp(1, 0)). '
    'Observations shown by witness: frozen display + next_trace shows the new header over the old table.')
CLAIMED['C18']['text'] += (' FRAMES (Tui/Views.v - an executable model of what every view prints about a hop and how a frame is composed, its privacy decisions being the harness-checked functions of Tui/Privacy.v; not yet compared with real frames - '
    'Proofs/TuiViewsProofs.v, TuiPrivacyHistory.v): no frame in any view or mode contains address, host name, AS, GeoIP or map-location text of a hidden hop nor the source; rows beyond the limit are drawn exactly as without privacy; hidden rows do not depend '
    'on the hop\'s addresses in text or height; the level moves only by the two privacy operations, one step, within 0..hop count, and dialogs block the keys. Observations shown by witness: the map selection rectangle is drawn for a hidden selected hop that '
    'shares its location with a visible one (graphics, no text); with first-ttl k > 1 the last k-1 rows cannot be hidden from the keyboard (the level is bounded by the hop count, as the property says). The harness now varies the first ttl of the traces.')
CLAIMED['C03']['text'] += ' Byte level: the foreign quotations of mode recv (incl. a foreign payload quoted only up to a prefix of the marker) carry a C03 tag.'
CLAIMED['C08']['text'] += ' A run the harness has to end is judged: the open round must not have been open longer than the policy allows (hung rounds, e.g. configurations that can send nothing).'

CLAIMED['C16']['text'] += (' PRECEDENCE, complete (Proofs/ConfigRules.v): one statement over an option descriptor instantiated for all 114 layered settings (plain options, protocol and address-family shortcut flags, theme items, key bindings): '
    'command line, else file, else documented default; every derived field as a function of effective values only; build_config reports error e exactly when e is the first of the 23 documented rules, in code order, whose condition holds on the EFFECTIVE values; '
    'same effective view -> same verdict. CAN RUN (Proofs/AcceptedRuns.v): Accept of the strategy theorems is exactly builder_accepts plus the Rust type ranges; the builder-accepted configurations that can never send are proved to publish empty rounds by the timing policy and to finish after n; '
    'a configuration accepted by the command-line layer is never one of them; the builder refuses a command-line-accepted configuration exactly for initial_sequence > 64511 or Paris/IPv6 with sequence 0; the composed theorem c16_accepted_runs; the derived channel configuration passes the size guards. '
    'Defect repaired (F22): a source address of the other family than the target was accepted and panicked in Channel::connect; the builder refuses it now (c16_family_mismatch_refused, c16_source_family; e2efam lines through the real builder and Channel::connect).')

CLAIMED['C02']['text'] += (' END TO END for every cell (Proofs/WireShapes.v, WireE2E.v): the bytes the dispatch hands to send_to are exactly the conforming-peer constructors; for every probe the strategy can issue in an accepted configuration the dispatched datagram, '
    'quoted by any conforming router, is recognised as exactly that probe - ICMP v4/v6 incl. Echo Reply; raw UDP v4/v6 in all three strategies (Dublin via the IP identification, Paris over IPv6 with the computed-zero rule); unprivileged classic UDP and TCP via ICMP '
    'quotations (what is assumed of the kernel is a predicate, never an axiom); TCP socket outcomes; own probes are never foreign, so the rejection theorems only reject quotations that differ from every probe of this tracer; a response names exactly one probe.')
CLAIMED['C19']['text'] += (' END TO END (Proofs/NatDevice.v, NatE2E.v): for the Dublin/IPv4 probe as dispatched and quoted unrewritten the recomputed checksum equals the quoted one for all sizes / patterns / ports / addresses, computed zero included; the same probe behind a '
    'source-NAT device with the RFC 1624 incremental update (three updates = full recomputation); exact conditions for a mark; no hop is ever marked over whole histories of an unrewritten path, in every flow; one device over any history; a closed form for two devices; each per-flow updater pass starts from no carried checksum. '
    'KNOWN FINDING F23 (c19_port_only_rewrite_refuted, dublin4natport lines): the expected checksum is recomputed from the QUOTED ports, so a device that rewrites only the source port in front of the first responding hop is never shown. '
    'Observations by witness: a rewrite that preserves the one\'s-complement sum is invisible to any checksum comparison; the mark sits on the first RESPONDING hop, so loss at that hop in a later round marks a second hop.')

CLAIMED['C16']['text'] += ' The tracer app.rs start_tracer builds (hook: built, not spawned) is compared setting by setting (channel, strategy and state configuration) with the effective configuration on every case - the Builder chain of start_tracer is no longer transcribed in the harness.'

CLAIMED['C12']['text'] += (' PAYLOAD SETTERS (Packet/Payload.v, Proofs/PayloadProofs.v, 29 theorems): the 13 set_payload functions write exactly at the RFC payload offset (4*IHL for IPv4, 4*data offset for TCP, never below 20; 40 / 8 / 4 elsewhere), '
    'leave every header bit and everything behind the payload untouched (frame against all 88 header getters), commute with the header setters, fault iff the payload does not fit (the Rust code panics there), and are read back by payload() / payload_raw() '
    '(with the exact cut at the IPv6 payload length, the extension-object length and the RFC 4884 length); agreement with the setters used by the C11 dispatch model; c12pay lines through the real setters. '
    'Shown by witness: release-build Ipv6Packet::set_payload does not touch payload_length, so payload() of a fresh buffer returns nothing (the debug build asserts); not called by trippy-core.')

CLAIMED['C18']['text'] = CLAIMED['C18']['text'].replace('not yet compared with real frames - ', 'NOW TIED to the real frames, see below - ') + (' TEXT TIE (Tui/Frames.v, Proofs/TuiViewsText.v, 14 further theorems, 39 in all): the extracted Tui/Views.v prints, for every frame of mode c18, '
    'the text of the Host cell of every row (all lines, row height) in a pseudo-random cell of address mode x AS mode x GeoIP mode x max_addrs x details x selection, the map info panel, the number of pins and whether a selection box is drawn, and the target line - '
    'and the real reference frames (250 columns) must show exactly that; theorems: frame and cell text are independent of hidden strings for any renderer, hidden row / panel are exactly the placeholder, visible rows name their addresses, the whole table is a function of the visible hops\' data.')
CLAIMED['C09']['text'] += (' THE WAIT ITSELF (Net/Platform.v, c09_interrupted_wait_is_a_timeout, c09_select_error_is_fatal): an interrupted select is a wait that found nothing, any other errno is the fatal error; tied to the real SocketImpl by mode platform '
    '(loopback datagram sockets idle / under a stream of signals / with a datagram arriving; hook re-export 377fa64).')
CLAIMED['C04']['text'] += ' About a third of the datagrams of mode recv are received with every tracing call site enabled and every field formatted (logging at trace level).'

# ninth generation of seeded changes
CLAIMED['C01']['text'] += (' Mode run charges 250 us of virtual time for every refused (address in use) TCP attempt and requires every probe handed to the network to carry the '
    'clock reading of the hand-over: a re-issued probe stamped with the time of the first attempt is reported.')
CLAIMED['C02']['text'] += ' The strategy-loop mode run (real Strategy over a scripted network vs the extracted strategy model) is part of this check too.'
CLAIMED['C11']['text'] += ' The strategy-loop mode run is part of this check: the probes the real strategy hands to the network (re-issued TCP probes included) are compared field by field with the model.'
CLAIMED['C12']['text'] += (' OPTIONS WINDOW (Packet/OptionsMut.v, Proofs/OptionsMutProofs.v, 2 theorems + example, 58 obligations in all): Ipv4Packet::get_options_raw_mut, the one accessor that hands out a mutable window, '
    'covers exactly the octets 20 .. min(4*IHL, len) for every IHL and buffer, and a write through it keeps the length and every octet outside; c12optmut lines complement every octet of the real window.')
CLAIMED['C13']['text'] += ' All-zero contents (the only input on which the sum is +0, result 0xFFFF) are drawn for every checksum function.'
CLAIMED['C15']['text'] += ' Hop addresses of mode state are drawn from the special address classes too (link-local, loopback, unspecified, multicast, broadcast).'
CLAIMED['C17']['text'] += ' Every third case traces IPv6 targets; structured cases walk the selection through every settings tab beyond the last item and back.'
CLAIMED['C18']['text'] += ' ECMP variants of different length and structured cases with flows of 4 and 5 hops (privacy bound of the flow shown, not of the combined flow).'
CLAIMED['C09']['text'] += ' startuprace lines: clear() looping on a second thread while the run fails at start-up - the error must survive.'
CLAIMED['C08']['text'] += ' The clock-step knob also stamps responses in the future of the next clock reading.'

# tenth generation of seeded changes
CLAIMED['C02']['text'] += ' Very long runs (1060 rounds from initial sequence 64511 to a target one hop away, Paris and Dublin): the per-round flow port passes 65534 and starts over at 0 - responses must still be matched.'
CLAIMED['C07']['text'] += ' The long-run family also draws IPv4-mapped IPv6 targets for Dublin/UDP (an IPv6 target: the sequence starts over every 512).'
CLAIMED['C12']['text'] += (' STATELESS OBJECTS: after every setter case the object that was written through must describe itself (Debug text: every field, options, payload) exactly as a fresh '
    'read-only view over its bytes does - an accessor may depend on the buffer alone.')
CLAIMED['C13']['text'] += ' All-ones contents with a few small words (the carry corner of a 16-, 32- or 64-bit accumulator folded once too few) are drawn for every checksum function.'
CLAIMED['C14']['text'] += ' Built messages with 31..100 small objects and an MPLS stack as the last object (no limit on the number of objects), both modes and families.'
CLAIMED['C16']['text'] += (' WHICH FILE (Tui/FileChoice.v, Proofs/FileChoiceProofs.v, c16_named_file_wins, c16_first_default_location, c16_no_file_is_default, c16_chosen_source_index; 53 obligations in all): the file named '
    'with -c wins whatever lies in the default locations, otherwise the first default location in the documented order that holds a file, otherwise the built-in defaults; c16loc lines run the real '
    'TrippyConfig::from over real files in all 2^8 combinations of the eight default locations (HOME / XDG_CONFIG_HOME / current directory redirected to a scratch directory), with and without -c.')

# whole-run theorems added by the last proof pass (Proofs/RunTiming.v, RunWindow.v, SeqRuns.v, SeqRounds.v)
CLAIMED['C08']['text'] += (' WHOLE RUNS (Proofs/RunTiming.v, 19 further theorems, 28 in all), for any clock readings - set back, repeated, jumping forward: at EVERY reading update_round takes a round is published if and only if '
    'the policy holds on that reading, the start of the round in progress and its genuine answers (c08_run_exact; policy_b is shown to be the policy of the statement); never before min when min <= max, and refuted by witness without that order '
    '(the core Builder does not check it, only the command-line layer does - outside the quantifier of C08); a reading at or before the round start never publishes; the round ends at the FIRST reading that satisfies the policy; '
    'round counter = number of publications, on the wire and in the final state; round start = the reading taken at the publication (after the callback returned); bounded traces: the publication of round n-1 is the last observation and obeys the same policy; '
    'zero and equal durations. The published reason is TargetFound exactly when the target answered in the round (c08_run_reason_is_policy, c08_reason_arm); the stricter reading "the reason names the disjunct that fired" is refuted by witness '
    '(c08_target_found_without_grace_refuted: a round cut by the time limit while the target had answered less than the grace period ago is published as TargetFound) - recorded as an observation in DESIGN.md.')
CLAIMED['C06']['text'] += (' WHOLE RUNS (Proofs/RunWindow.v, 13 further theorems, 26 in all): the send rule evaluated on the log prefix alone (c06_rule_reads) is exactly what the code decides at every iteration boundary (c06_rule_is_can_send); '
    'EXACTNESS in both directions: every run log parses into complete iterations each of which sends exactly what the rule dictates (c06_run_iterations, c06_iteration_exact) - allowed means exactly one probe of the next ttl goes out, preceded only by refused TCP attempts '
    '(c06_window_liveness), forbidden means nothing is handed to the network (c06_window_silence); closed form over quiet stretches (c06_quiet_stretch); every round starts again at first_ttl; '
    'the ECMP rule stated exactly: after the target answered, a larger ttl goes out only if a non-target host answered a probe at or beyond the established distance (c06_beyond_distance_needs_reset, c06_known_distance_bounds).')
CLAIMED['C07']['text'] += (' WHOLE RUNS (Proofs/SeqRuns.v, SeqRounds.v, 20 further theorems, 33 in all): the limits as the code decides them (65023; initial + 512 for Dublin to a 16-octet target); every issued sequence in [initial, limit + 512) and at most 65534; '
    'no number twice within a round for every protocol; consecutive rounds disjoint IF AND ONLY IF no round that restarted at the initial sequence reaches the first number of the round before it - unconditional for ICMP / UDP, for TCP exactly when '
    'initial_sequence <= 63999 or no round uses more than k numbers with initial + 2k <= limit, both bounds tight by witness runs (the known finding F2 stays visible as the refutation); the wrap happens exactly when the next round would not fit; '
    'slot index below 512 at every send; the budget: a run that ends with the capacity error sent exactly round_sequence .. +511 and nothing beyond.')
