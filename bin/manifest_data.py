HOOK_COMMITS = ['261214f']
NOTES = ('Every check: proof gate (full coq build, forbidden-construct scan, Print Assumptions allow-list = empty) '
         '+ correspondence (extracted model vs real code on corpus + generated cases) + model-free oracle; '
         'known findings in known_findings.json. See DESIGN.md.')
NOT_CLAIMED = {}
CLAIMED = {
    'C13': dict(
        text='Coq theorems: the six codec checksums equal the RFC 1071 checksum (checksum word taken as zero) and verify to 0xFFFF for every '
             'byte string up to 65535 octets and every address pair; the u32 accumulator cannot overflow; the fold loop terminates within 3 steps; '
             'the Paris swap leaves checksum field = sequence and the datagram still verifies, for all 2^16 sequences, ports and addresses. '
             'Model tied to the code by differential execution (all lengths 0..1024, real Channel over simulated socket for Paris).',
        note='trusted: Coq kernel, hand-written model (Packet/Checksum.v) + correspondence harness; no axioms. Not proved: the Rust code itself.',
        technique='Coq proof (algebraic law over Z, lia) + differential testing of extracted model vs implementation'),
}
