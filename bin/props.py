"""Per-property tables for bin/check."""
import re

TRUSTED_BASE = [
    'Coq 8.16.1 kernel (coqc), incl. the vm_compute evaluator where a finite sweep is used; no native_compute',
    'axioms: none (Print Assumptions = Closed under the global context for every theorem of the property, re-checked each run)',
    'hand-written Gallina model of the anchored Rust functions (modelled, not verified); tied to /repo by differential execution on every run',
    'extraction: ExtrOcamlBasic only (Extract Inductive for bool, option, unit, prod, list, sumbool, sumor); Z/positive/nat stay inductive; no Extract Constant',
    'OCaml 4.13.1 ocamlfind ocamlopt and ocaml/driver.ml (line parser / printer)',
    'Rust harness harness/hcore (generators, simulated Socket/Network, virtual clock by clock_gettime interposition, oracles) and bin/check (diff)',
    'verif-hooks re-exports / wrappers in /repo (add-only)',
]
COMMON_ASSUMPTIONS = [
    'the theorem is about the model; the model is tied to the code only on the generated + corpus inputs of this run',
    'rustc, std, OS sockets, parking_lot and IEEE-754 rounding are outside the model',
]


def compare_exact(inp, impl_out, model_out):
    return impl_out == model_out


def toks(inp):
    return inp.split(' ')


def c13_nontrivial(inp, outp):
    t = toks(inp)
    if t[0] == 'paris':
        return True
    k = {'ipv4hdr': 5, 'icmp4': 1, 'icmp6': 1, 'udp4': 3, 'tcp4': 8, 'udp6': 3}[t[1]]
    n = 0 if t[2] == '-' else len(t[2]) // 2
    return n >= 2 * k + 2


def norm_fault(x):
    return re.sub(r'fault:\w+', 'fault', x)


def compare_run(inp, impl_out, model_out):
    """strategy runs: identical canonical output; when either side faults only the fact of the fault is compared"""
    a, b = norm_fault(impl_out), norm_fault(model_out)
    if a.startswith('res=fault') or b.startswith('res=fault'):
        return a.split(' ')[0] == b.split(' ')[0]
    ta, tb = a.split(' '), b.split(' ')
    if len(ta) != len(tb):
        return False
    for x, y in zip(ta, tb):
        if x.startswith('snap=') and y.startswith('snap='):
            if not compare_state('', x[5:].replace('!', ' '), y[5:].replace('!', ' ')):
                return False
        elif x != y:
            return False
    return True


def run_nontrivial(inp, outp):
    # a run that published at least one round with a completed probe
    return 'rounds=-' not in outp and 'C:' in outp


RUN_RULE = ('closed-loop simulated traces through the real Strategy::run (Tracer::verif_run_with_network) over a scripted Network under a virtual clock: '
            'random builder-accepted configuration (protocol x family x strategy x port direction x first/max ttl x max_inflight x initial sequence incl. wrap boundaries x timing), '
            'random topology (1..12 hops, silent / rate-limited / duplicating hops, ECMP alternate path, unreachable target), delays relative to read timeout / min / max / grace, '
            'adversarial injections (foreign trace ids / targets / ports, never-sent sequences around the window), transient and fatal send / receive faults; '
            'the recorded interaction trace is replayed through the extracted model; non-trivial = at least one published round with a completed probe; distinct = distinct recorded trace')


TSOPS_RULE = (' || operation sequences on the real TracerState through the TracerStateHandle hook: 3..150 (thorough ..700) rounds per history with initial sequences at the wrap boundaries '
              '{0, 1, 33434, 63999, 64000, 64257, 64258, 64400, 64510, 64511}, both maximum-sequence regimes (general, Dublin/IPv6), round sizes 1..254, TCP re-issue bursts up to the 512 capacity, transient failures, '
              'and responses naming sent, duplicate, stale-slot, previous-round, window-edge (510..513) and random sequences; state dumped after every round and compared with the model; '
              'oracle: consecutive sequences, < 65535, <= 512 per round, move-or-restart between rounds, Dublin/IPv6 payload fits, and any response naming a sequence not sent in this round leaves the state unchanged')


def strat_prop(tag, extra_modes=()):
    return dict(crates=['hcore'], modes=[('hcore', 'run')] + [('hcore', m) for m in extra_modes],
                nontrivial=run_nontrivial, rule=RUN_RULE, compare=compare_run, oracle_tag=tag,
                explanation='sampled traces; the theorems quantify over all histories')


def _approx(a, b):
    """impl float repr vs model rational (hex num/den)"""
    try:
        x = float(a)
        n, d = b.split('/')
        y = int(n, 16) / int(d, 16)
    except Exception:
        return a == b
    return abs(x - y) <= 1e-9 + 1e-7 * max(abs(x), abs(y))


def compare_state(inp, impl_out, model_out):
    a, b = norm_fault(impl_out), norm_fault(model_out)
    if a.startswith('fault') or b.startswith('fault'):
        return a.split(' ')[0][:5] == b.split(' ')[0][:5]
    ta = re.split(r'([,;| ])', a)
    tb = re.split(r'([,;| ])', b)
    if len(ta) != len(tb):
        return False
    for x, y in zip(ta, tb):
        if x == y:
            continue
        if x.startswith('~') and y.startswith('~'):
            if not _approx(x[1:], y[1:]):
                return False
        elif x.startswith('^') and y.startswith('^'):
            if x[1:] == '-' or y[1:] == '-' or abs(int(x[1:]) - int(y[1:])) > 2:
                return False
        else:
            return False
    return True


def state_nontrivial(inp, outp):
    return ';' in inp and 'C:' in inp


STATE_RULE = ('synthetic histories of published rounds (arbitrary mixes of Complete/Awaited/Failed/Skipped/NotSent, rtt 0 ns..2 s incl. received<sent, first ttl 1..250, '
              'hosts from a small pool with path variants, Dublin-style expected/actual checksums, sample limits 0..256, max_flows 0..64, 1..40 rounds; one quarter with out-of-range ttl 0/255 and arbitrary largest_ttl) '
              'applied to the real State::update_from_round; every public getter of every hop of every flow is dumped and compared with the extracted model '
              '(integers exactly, f64 statistics against exact rationals within 1e-7 relative, from_secs_f64 round trips within 2 ns); non-trivial = at least two rounds and one completed probe')


def compare_any(inp, impl_out, model_out):
    if inp.startswith('run '):
        return compare_run(inp, impl_out, model_out)
    if inp.startswith('state '):
        return compare_state(inp, impl_out, model_out)
    return norm_fault(impl_out) == norm_fault(model_out)


def any_nontrivial(inp, outp):
    if inp.startswith('tsops '):
        return ';' in outp and 'C:' in outp
    return run_nontrivial(inp, outp) if inp.startswith('run ') else state_nontrivial(inp, outp)


def compare_c20(inp, impl_out, model_out):
    """blocked flags equal; and for SOME completion order of the model every snapshot and the final state lie in
    the set of whole-rounds states the implementation's value equals"""
    if inp.startswith('c20stress'):
        return impl_out == model_out
    if inp.startswith('c20park'):
        # blocked flag and final state exact; the reader's value must be one of the classes the implementation's snapshot equals
        a = dict(t.split('=', 1) for t in impl_out.split(' '))
        b = dict(t.split('=', 1) for t in model_out.split(' '))
        return a.get('blocked') == b.get('blocked') and a.get('final') == b.get('final') and b.get('reader') in a.get('reader', '').split('|')
    a = dict(t.split('=', 1) for t in impl_out.split(' '))
    b = dict(t.split('=', 1) for t in model_out.split(' '))
    if a.get('blocked') != b.get('blocked'):
        return False
    ao = a.get('obs', '-')
    al = [] if ao == '-' else ao.split(';')
    fin = a.get('final', '').split('|')
    for alt in b.get('alts', '').split('!'):
        obs, _, f = alt.partition('~')
        bl = [] if obs in ('', '-') and not al else obs.split(';')
        if len(bl) != len(al):
            continue
        if all((y == '-' and x == '-') or (y in x.split('|')) for x, y in zip(al, bl)) and f in fin:
            return True
    return False


def state_prop(tag):
    return dict(crates=['hcore'], modes=[('hcore', 'state')], nontrivial=state_nontrivial, rule=STATE_RULE,
                compare=compare_state, oracle_tag=tag, explanation='sampled histories; the theorems quantify over all histories')


PROPS = {
    'C05': state_prop('C05'),
    'C10': dict(crates=['hcore'], modes=[('hcore', 'state'), ('hcore', 'run')], nontrivial=any_nontrivial,
                rule=STATE_RULE + ' || ' + RUN_RULE, compare=compare_any, oracle_tag='C10',
                explanation='sampled histories; the theorems quantify over all histories'),
    'C15': state_prop('C15'),
    'C19': state_prop('C19'),
    'C20': dict(crates=['hcore'], modes=[('hcore', 'c20')], compare=compare_c20, oracle_tag='C20',
                nontrivial=lambda inp, outp: inp.startswith('c20 ') and 'obs=-' not in outp and 'obs=' in outp,
                rule='controlled-schedule runs of the real Tracer: at every yield point inside State::update_from_round (the real handler holding the write lock mid-update) a reader thread (snapshot) '
                     'and a clearer thread (clear) are released and given a 25 ms window; single pre-emption at every placement plus random double pre-emptions over histories of <= 3 (quick) / 4 (thorough) rounds, '
                     'plus free-running stress with several readers and a clearer; the interleaving model replays the enforced schedule and must predict blocked/blocked and the same whole-rounds snapshot; '
                     'non-trivial = a controlled run in which a snapshot was taken; distinct = distinct (history, placement, completion order)',
                explanation='PARTIAL: the theorem covers every schedule of the lock-discipline model; its tie to the code is schedule exploration (testing) and parking_lot::RwLock is assumed correct. '
                            'A timeout can only make the harness miss a defect (a slow reader looks blocked), never invent one.'),
    'C01': strat_prop('C01'),
    'C03': dict(strat_prop('C03', ['tsops']), compare=compare_any, nontrivial=any_nontrivial, rule=RUN_RULE + TSOPS_RULE),
    'C06': strat_prop('C06'),
    'C07': dict(strat_prop('C07', ['tsops', 'faults']), compare=compare_any, nontrivial=any_nontrivial, rule=RUN_RULE + TSOPS_RULE + ' || fault scripts (mode faults) incl. the sequence-budget edge family: TCP, 0..2 probes sent, then 508..513 consecutive address-in-use outcomes, then further ttls in the same round (the budget of 512 is used up exactly / almost / beyond)'),
    'C08': strat_prop('C08'),
    'C09': dict(strat_prop('C09', ['faults']), rule=RUN_RULE + ' || bounded-exhaustive fault scripts: ICMP and TCP, 2 rounds, every combination of send outcome {sent, transient failure, address in use (TCP), fatal} and receive outcome {timeout, genuine response, target reply, fatal, duplicate} over the first 3 (thorough: 5) calls; plus the sequence-budget edge family (TCP, 0..2 probes sent, 508..513 consecutive address-in-use outcomes, further ttls in the same round)', exhaustive={'quick': False, 'thorough': False}),
    'C13': dict(
        crates=['hcore'], modes=[('hcore', 'c13')],
        nontrivial=c13_nontrivial,
        rule='every data length 0..1024 x 6 checksum functions x {all-0xFF, random, carry-maximising} contents and random address pairs; '
             'Paris: boundary + random (quick) or all 65536 (thorough) sequences x IPv4/IPv6 through the real Channel over a simulated socket. '
             'non-trivial = the checksum word lies inside the data (length >= 2k+2) or a Paris datagram; distinct = distinct input line',
        exhaustive={'quick': False, 'thorough': False},
        explanation='lengths 0..1024 are enumerated completely in both tiers; the Paris sequence domain (2^16) is enumerated completely in the thorough tier; contents and addresses are sampled',
    ),
}


def compare_c11(inp, impl_out, model_out):
    """identical op list and result; an implementation panic and a model fault compare as `fault`"""
    return norm_fault(impl_out) == norm_fault(model_out)


def c11_nontrivial(inp, outp):
    # a case in which something was put on the wire / handed to connect
    return 'sendto:' in outp or 'connect:' in outp or inp.startswith('c11fill')


PROPS['C11'] = dict(
    crates=['hcore'], modes=[('hcore', 'c11')],
    nontrivial=c11_nontrivial, compare=compare_c11,
    rule='real Channel<recording Socket> (Channel::connect + send_probe -> net/ipv4.rs / net/ipv6.rs -> trippy-packet): '
         '12 cells (ICMP, UDP classic / Paris / Dublin privileged, UDP unprivileged, TCP) x IPv4/IPv6; every packet size 0..1030 for ICMP/IPv4 '
         '(thorough: for 7 cells), boundary sizes {0, min-1, min, min+1, 60, 61, 84, 1023, 1024, 1025, 65535} elsewhere; complete tos / pattern / ttl '
         'domains 0..255; boundary + random sequences, identifiers, ports, addresses (all-ones / zero / loopback / random); Paris with carry-maximising '
         'addresses and ports (thorough: all 65536 sequences x 2 families); Dublin/IPv6 every payload length 0..972; every socket call kind x 12 error '
         'codes injected (raw EINPROGRESS / EHOSTUNREACH / ENETUNREACH and io::ErrorKinds); n consecutive TCP probes on one channel. '
         'Observable: rendered socket-operation list | result.  Oracle: RFC 791/792/768/4443/8200 bit-offset decoder in Rust (no trippy-packet). '
         'non-trivial = a send_to or connect happened; distinct = distinct input line',
    exhaustive={'quick': False, 'thorough': False},
    explanation='packet sizes, tos, pattern, ttl and Dublin/IPv6 payload lengths are enumerated completely (for the cells named in the rule); '
                'sequences / ports / addresses are sampled (Paris sequences completely in the thorough tier)',
    assumptions=['Ipv4ByteOrder::Host (non-Linux unixes) is modelled and proved (c11_host_byte_order, c11_adjust_length) but NOT tied to code: the variant does not exist in a Linux build',
                 'the IPv6 header itself is written by the kernel from the socket options; the model covers what the code hands to the socket (hop limit, upper-layer bytes, address)',
                 'Dublin/IPv6 theorems assume 0 <= sequence - initial_sequence and payload + 6 <= 976, which C07 proves for every probe the strategy issues'],
)


def c12_nontrivial(inp, outp):
    t = toks(inp)
    if t[0] in ('new', 'new_view'):
        return True
    if t[0] == 'c12pay':
        # set_payload of a non-empty payload into a buffer with pre-existing non-zero content (a write at a wrong
        # offset or over a header octet is visible there), or a refused call (the fitting boundary)
        return outp.startswith('fault') or (t[2].strip('0') != '' and t[3] != '-')
    # accessor on a buffer with pre-existing non-zero content: where a wrong mask / shift becomes visible
    return t[-1].strip('0') != ''


PROPS['C12'] = dict(
        crates=['hcore'], modes=[('hcore', 'c12')],
        nontrivial=c12_nontrivial,
        rule='every get_/set_ pair (88) of the 17 packet types with scalar fields x base buffers (all zeros, all 0xFF, random of minimum size, random '
             'longer than the minimum, every single-bit and single-hole pattern within one octet of the field) x argument values '
             '(quick: boundary values of the Rust argument type incl. 2^w, 2^w+1, excess-bits-only, every single bit + 120 random; '
             'thorough: all 2^8 values for u8 / enum arguments on every base, all 2^16 values for u16 arguments on one random base per field, '
             'boundary + 2000 random for u32 / address arguments); '
             'getters also on field contents planted into a random background (thorough: exhaustive for fields up to 12 bits wide; the 16-bit '
             'fields are read back on all 2^16 contents after the exhaustive set sweep); '
             'new / new_view of all 19 packet types for every length 0..min+8; '
             'set_payload of the 13 packet types that have one (c12pay lines): every IHL 0..15 (IPv4) / data offset 0..15 (TCP) planted into random, all-zero and all-0xFF buffers '
             'of lengths around the RFC offset, IPv6 payload-length / extension-object length fields that cover, cut and miss the payload, x payload lengths around the fitting boundary; '
             'for set_payload the oracle computes the RFC payload offset independently, requires the octets before it and behind the payload unchanged, the payload there, the read side '
             '(payload() / payload_raw()) returning it, and a panic iff the payload does not fit. '
             'Ipv4Packet::get_options_raw_mut (c12optmut lines): every IHL 0..15 x buffers that end before, inside, at and behind the options field; every octet of the '
             'window is complemented and the oracle requires exactly the octets 20 .. min(4*IHL, len) changed and the window as long as the read-only one. '
             'oracle: independent RFC (bit offset, width) table + bit-slice reader in the harness. '
             'non-trivial = accessor case on a buffer that is not all zeros, or a construction case; distinct = distinct input line',
        exhaustive={'quick': False, 'thorough': False},
        explanation='thorough enumerates the complete argument domain of every u8 / u16 / enum setter (and so every content of every field up to 16 bits), '
                    'but buffers and 32 / 128-bit values are sampled; the for-all-buffers statement is carried by the Coq theorems',
    )


# ---- C14 / C04 packet half (modes c14, c04pkt of harness/hcore) ----
def compare_pkt(inp, impl_out, model_out):
    """identical canonical output; an implementation panic (fault:panic) matches any model fault (fault:<Name>)"""
    return norm_fault(impl_out) == norm_fault(model_out)


def c14_nontrivial(inp, outp):
    t = toks(inp)
    if t[0] == 'c14':
        # a message from the RFC builder (expectation known), or any message in which an extension structure was found
        return t[5] != '?' or (' x=~' not in outp and ' x=err' not in outp)
    if t[0] == 'exts':
        return outp.startswith('+') and len(outp) > 1
    if t[0] == 'iter':
        return not outp.startswith('-') and outp != 'err'
    return t[0] == 'build'


def c04pkt_nontrivial(inp, outp):
    # the view was accepted (buffer >= minimum size), i.e. accessors actually ran
    return outp != 'err'


C14_RULE = ('RFC 4884/4950 messages from an independent Rust builder: every length attribute 1..255 x {aligned, 1 short, word-1 short} x ICMPv4/ICMPv6 x '
            'Time Exceeded/Destination Unreachable x 0..6 random objects (MPLS stacks of depth 1..8 with boundary labels, other classes with payloads 0..40 octets) x parse mode; '
            'legacy 128-octet messages; object count 0..6 x stack depth 0..8 x both conventions; corruption stream (every truncation, every value of the length attribute, '
            'version nibble, object length fields at boundary values, class octets, S bits); random messages with planted extension headers; the two iterators and '
            'Extensions::try_from on raw buffers of every length 0..72 (thorough 0..200); builder tie (Coq build_message = Rust builder). '
            'Compared: payload(), extension(), nested datagram + decoded Extensions (canonical encoding) under the parse mode. Oracle: equality with what the builder encoded, '
            'pointer-range check (inside / disjoint / in order), iteration bound len/4. non-trivial = built message, or an extension structure was found / items were yielded; '
            'distinct = distinct input line')
C04PKT_RULE = ('every non-mutating accessor + Debug of the 19 packet views (Ipv4, Ipv6, Udp, Tcp, Icmp/EchoRequest/EchoReply/TimeExceeded/DestinationUnreachable x v4/v6, '
               'Extensions, ExtensionHeader, ExtensionObject, MplsLabelStack, MplsLabelStackMember) over: buffers of every length 0..min+4 (random and all-0xFF), random buffers, '
               'structure-aware packets with one length-like field set to a boundary value or truncated; plus exhaustive sweeps, one line per buffer length from the minimum to 160 '
               '(thorough: 1024): IHL 0..15, TCP data offset 0..15, RFC 4884 length octet 0..255 (4 views), IPv6 payload length / extension object length at the boundary set around the buffer length. '
               'Oracle: did any accessor panic. non-trivial = the view accepted the buffer; distinct = distinct input line')


PROPS['C14'] = dict(
        crates=['hcore'], modes=[('hcore', 'c14')], nontrivial=c14_nontrivial, rule=C14_RULE, compare=compare_pkt, oracle_tag='C14',
        exhaustive={'quick': False, 'thorough': False},
        explanation='the length attribute (255 values x 3 paddings x 2 families) and every truncation point / length-octet value of the corruption bases are enumerated completely; '
                    'object lists, payload contents and random messages are sampled; the theorems quantify over all messages',
        timeout={'quick': 300, 'thorough': 1500})
PROPS['C04'] = dict(  # packet half only (mode c04pkt); the receive-path mode is added by the integrator
        crates=['hcore'], modes=[('hcore', 'c04pkt')], nontrivial=c04pkt_nontrivial, rule=C04PKT_RULE, compare=compare_pkt, oracle_tag='C04',
        exhaustive={'quick': False, 'thorough': False},
        explanation='field value x buffer length products are enumerated completely up to length 160 (quick) / 1024 (thorough); buffer contents are sampled',
        timeout={'quick': 300, 'thorough': 1500})



# ---- C16 ----
def compare_c16(inp, impl_out, model_out):
    """c16: identical canonical text (effective configuration or error site); c16grid: accept / reject only"""
    if inp.startswith('c16grid'):
        return impl_out.split(' ')[0].split(':')[0] == model_out
    return impl_out == model_out


def c16_nontrivial(inp, outp):
    t = toks(inp)
    if t[0] == 'c16grid':
        return outp.startswith('accept')
    if t[0] == 'c16loc':
        # at least one file exists, so there is a choice to get wrong
        return t[1] == '1' or '1' in t[2]
    # an accepted configuration in which at least one layer says something
    return outp.startswith('ok') and (t[4] not in ('-', 'D') or t[5] != '-')


PROPS['C16'] = dict(
    crates=['htui', 'hcore'], modes=[('htui', 'c16'), ('hcore', 'c16grid')],
    nontrivial=c16_nontrivial, compare=compare_c16, oracle_tag='C16',
    rule='c16: two abstract option maps (file, command line) rendered to real argv strings and TOML text and run through the real clap / toml parsers and '
         'TrippyConfig::build_config: every one of 121 subjects (44 options, 5 shortcut flags, 34 theme items, 38 key bindings) x the four states '
         'absent / file / CLI / both x 20 (quick) or 300 (thorough) random settings of all other options (densities 0..25%, boundary and rejected values, '
         'deprecated keys, empty sections, ConfigFile::default(), all privilege combinations, pids around 1024); observable = the effective TrippyConfig '
         '(every field, canonical text) or the rejecting validator, and the verdict of the real Builder::build() on the accepted configuration; '
         'oracle = the precedence rule evaluated directly on the two maps with the documented defaults. '
         'c16grid: protocol x strategy x port direction x privilege x family x first_ttl {0,1,2,254,255} x max_ttl {0,1,2,64,254,255} x initial_sequence '
         '{0,33434,64511,64512,65535} = 21600 cells, enumerated completely through the real Builder::build(); every accepted cell runs 3 rounds of the real '
         'strategy + state handler over the simulated network under catch_unwind; oracle: accepted => no panic and 3 rounds. '
         'non-trivial = accepted configuration with at least one entry / accepted cell; distinct = distinct input line',
    exhaustive={'quick': False, 'thorough': False},
    explanation='the builder grid (21600 cells) and the per-subject four states are enumerated completely in both tiers; the settings of the other options are sampled',
    timeout={'quick': 600, 'thorough': 3000},
    trusted_extra=['Rust harness harness/htui (renders option maps to argv / TOML, canonical text of TrippyConfig, replica of the Builder call of app.rs start_tracer)',
                   'chrono_tz name table: whether a timezone name parses is recorded by the harness and given to the model as an input'],
    assumptions=['clap and toml parsing, humantime, chrono_tz are glue: exercised on every case, not modelled',
                 'the theorems about running cover the strategy loop (model A); the aggregator (State::update_from_round) is covered for the accepted grid cells by execution only'],
)


# ---------------------------------------------------------------- receive path (C02 decode half, C04 receive half)
def compare_recv(inp, impl_out, model_out):
    """identical canonical output; a panic of the implementation corresponds to any Fault of the model"""
    return norm_fault(impl_out) == norm_fault(model_out)


def recv_decoded(inp, outp):
    return outp[:3] in ('te/', 'du/', 'er/', 'tr/', 'tf/')


def c02_nontrivial(inp, outp):
    # an own / foreign quotation that reached the strategy side, or a dispatched probe
    return ' acc=' in outp or (inp.startswith('probe ') and not outp.startswith('err'))


RECV_RULE = ('real Channel<SimSocket>::recv_probe on one datagram per case (harness mode recv): (i) structure-aware stream - for every configuration cell '
             '(ICMP, UDP classic/Paris/Dublin x fixed src/dest/both, TCP; IPv4 and IPv6; privileged/unprivileged; extension parsing on/off) a probe datagram and a '
             'standards-conforming Time Exceeded / Destination Unreachable / Echo Reply built by an independent Rust encoder (quotation length 28..full, TTL/TOS/checksum rewritten, '
             'no extension / RFC 4884 / legacy 128-octet extension with MPLS and unknown objects, outer IPv4 options), then one identity facet made foreign, one length / offset / protocol field mutated, '
             'truncation at every position; (ii) random byte strings; (iii) sweeps of outer IHL 0..15, nested IHL 0..15, UDP length, IPv6 payload length, extension object lengths against every buffer length '
             '0..160 (quick) / 0..1024 (thorough) and the RFC 4884 length octet 0..255; TCP socket outcomes; the bytes the real dispatch hands to send_to for every cell. '
             'Each line is replayed through the extracted model (recv4 / recv6 / recv_probe / accept_info / probe_sendto). ')

PROPS['C02'] = dict(
    crates=['hcore'], modes=[('hcore', 'recv')], nontrivial=c02_nontrivial, compare=compare_recv, oracle_tag='C02',
    rule=RECV_RULE + 'C02 oracle (model free): for an own quotation the real strategy-side functions (TracerStateHandle::response_sequence / accepts) must accept it and recover exactly '
         'the probe sequence; a foreign quotation must never be accepted; dispatched probes must carry identifier / sequence / ports / checksum / marker at the RFC offsets. '
         'non-trivial = a case that reached the strategy side or a dispatched probe; distinct = distinct input line',
    exhaustive={'quick': False, 'thorough': False},
    explanation='sampled: sequences, addresses, sizes, peer behaviours; the theorems of Props/C02.v quantify over all of them',
    timeout={'quick': 600, 'thorough': 3000},
)
# C04: the receive-path mode joins the packet-half mode of the existing entry
def is_recv_line(inp):
    return inp.split(' ', 1)[0] in ('recv', 'tcpsock', 'probe', 'sockerr', 'recvseq', 'tcpseq', 'recv2')


_c04_pkt = PROPS['C04']
PROPS['C04'] = dict(
    _c04_pkt, modes=_c04_pkt['modes'] + [('hcore', 'recv')],
    compare=lambda inp, a, b: compare_recv(inp, a, b) if is_recv_line(inp) else _c04_pkt['compare'](inp, a, b),
    nontrivial=lambda inp, o: recv_decoded(inp, o) if is_recv_line(inp) else _c04_pkt['nontrivial'](inp, o),
    rule=_c04_pkt['rule'] + ' || ' + RECV_RULE + 'C04 oracle for the receive path: the call panicked (arithmetic overflow checks on, as in the harness profile); non-trivial = a response was decoded',
    explanation=_c04_pkt.get('explanation', '') + '; receive path: field x buffer-length sweeps are complete for the listed value sets, contents are sampled, the theorems cover every byte string of every length',
    timeout={'quick': 600, 'thorough': 3000},
)


# ---- C09: which socket errors are transient (ProbeFailed), which re-issue (AddressInUse) and which are fatal is decided by the
# error mapping of the net layer: the injected-socket-error lines of mode c11 (real Channel::send_probe vs the model of
# Net/Dispatch*.v / ChannelSend.v) join the strategy-level runs, whose send outcomes are already classified.
def is_c11_line(inp):
    return inp.split(' ', 1)[0] in ('c11', 'c11fill', 'c11seq')


_c09 = PROPS['C09']
PROPS['C09'] = dict(
    _c09, modes=_c09['modes'] + [('hcore', 'c11')],
    compare=lambda inp, a, b: compare_c11(inp, a, b) if is_c11_line(inp) else _c09['compare'](inp, a, b),
    nontrivial=lambda inp, o: c11_nontrivial(inp, o) if is_c11_line(inp) else _c09['nontrivial'](inp, o),
    rule=_c09['rule'] + ' || the classification of socket errors into transient / address-in-use / fatal: mode c11 (every socket call kind x 12 injected error codes x every cell through the real Channel::send_probe, compared with the model of the send side)',
)


# ---- C17 / C18 (append to bin/props.py) -------------------------------------------------------
def compare_tui(inp, impl_out, model_out):
    """state after every op; `fault:<x>` compared as `fault`; a frame that the watchdog reported as a hang
    (`fault:hang`) or as a panic of its layout solver (`fault:layout_solver`) - behaviours of the drawing library that are outside the model - ends the comparison there"""
    a, b = norm_fault(impl_out).split(';'), norm_fault(model_out or '').split(';')
    if a and (impl_out.endswith('fault:hang') or impl_out.endswith('fault:layout_solver')):
        return a[:-1] == b[:len(a) - 1]
    return a == b


def tui_nontrivial(inp, outp):
    # a scenario with at least one answering hop on screen and at least one command or key
    return re.search(r'\d+c\d+', inp) is not None and (';K:' in inp or ';M:' in inp)


TUI_TRUSTED = ['Rust harness harness/htui (op generator, scripted rounds through Tracer::verif_apply_round, ratatui TestBackend, '
               'transcription of the run_app key dispatch chain, watchdog) in place of harness/hcore']

C17_RULE = ('scenarios = initial TUI configuration (1-3 traces, max_flows 1-8, 5 column sets, privacy, max_addrs) + op list: rounds built from '
            'evolving path sets (silent hops, ECMP variants, longer/shorter variants, up to 254 hops, first_ttl 1-5, irregular rounds with failed / '
            're-issued probes), Tracer::clear, error set/reset, every TuiApp method, every binding of the default key table through the dispatch chain, '
            'frames on a TestBackend at 13 boundary sizes 1x1..300x100 and random sizes; 11 directed scenarios (one per defect class found + settings / '
            'size / 254-hop walks). Implementation and extracted model are compared on the selection state after EVERY op. '
            'non-trivial = an answering hop exists and at least one command was issued; distinct = distinct scenario line')
C18_RULE = ('scenarios as for C17 but every address gets unique sentinel strings for IP, reverse-DNS name, AS number / name / prefix / registry / country and '
            'GeoIP city / region / country / continent / coordinates (seeded resolver cache and GeoIP lookup); after every frame the harness re-draws the same '
            'state in every view (table, hop details, chart, map, help, settings x 7 tabs) x address mode (ip, host, both) x AS mode (6) x GeoIP mode (4) x '
            'max_addrs x 4 sizes and searches the cells of each for the sentinels of hops with ttl <= n and for the source address; the model predicts the privacy '
            'value after every op and H/N/V per row at every frame. TEXT of the frames: after every frame the same state is also drawn on reference screens '
            '(250 columns, every row visible, columns #/Host/Loss%): the hop table as the application state has it, the hop table in a pseudo-random cell of address mode (3) x '
            'AS off / 6 AS modes x GeoIP mode (4) x max_addrs (none,1,2,3) x hop details x selected row, the map with a pseudo-random selection and the header; read off them: the text of the '
            'Host cell of EVERY row (all lines) with the row height, title and text of the map info panel, the number of map pins and whether a selection box is drawn, the target line; '
            'the extracted Tui/Views.v (through Tui/Frames.v, from the state of Tui/App.v plus the hop addresses / counts recorded in the frame op) must print the same text; resolver answers cover '
            'Resolved with / without AS info, empty ASN, NotFound with / without AS info, Failed, Pending; GeoIP located / without coordinates / absent. '
            'non-trivial = privacy in force with at least one answering hop hidden; distinct = distinct scenario line')


def c18_nontrivial(inp, outp):
    return re.search(r'(^|;)\d+:[NV]*H', outp) is not None


PROPS['C17'] = dict(
    crates=['htui'], modes=[('htui', 'c17')], nontrivial=tui_nontrivial, compare=compare_tui, oracle_tag='C17',
    rule=C17_RULE, timeout={'quick': 600, 'thorough': 3000}, trusted_extra=TUI_TRUSTED,
    explanation='PARTIAL by nature. PROVED in Coq for all histories (any interleaving of data-shape changes, method calls, key events and frames, unbounded): '
                'the selection state machine of TuiApp never faults (no missing flow key, no index out of bounds, no usize underflow, no unwrap on None) and after '
                'every step every selection index (trace, flow, hop, hop address, flow_counts entry, settings tab, settings item, column) refers to an existing entry. '
                'ONLY EXECUTED (sampled, not proved): that render::app::render as a whole (ratatui layout, widgets, chart, canvas, unicode width) neither panics nor hangs - '
                'cases = scenarios run on a TestBackend under catch_unwind and a watchdog; the number of frames drawn is in input_distribution.',
    assumptions=['environment assumption of the theorems (checked by the oracle on every observed State): the State map contains flow 0 and every registered flow, '
                 'registered ids are non-zero and include 1 when any, at most max_flows are registered, a flow has at most 254 hops',
                 'the key dispatch chain of run_app is transcribed in the harness (it cannot be separated from the crossterm event loop); the model has its own transcription'],
)
PROPS['C18'] = dict(
    crates=['htui'], modes=[('htui', 'c18')], nontrivial=c18_nontrivial, compare=compare_tui, oracle_tag='C18',
    rule=C18_RULE, timeout={'quick': 600, 'thorough': 3000}, trusted_extra=TUI_TRUSTED,
    explanation='PARTIAL by nature. PROVED in Coq: each privacy decision of the views (Host cell, Host cell with details, map pin filter, map info panel, source) '
                'chooses the placeholder for every hop with ttl <= n whatever the hop\'s strings are, takes the normal branch above n, hides the source iff privacy is on; '
                'expand / contract move n by exactly one step on off,0,1,..,hop_count and never outside. ONLY EXECUTED (sampled): that no other code path of the drawing '
                'code writes hidden text into the frame - sentinel search in the TestBackend cells over the view matrix listed in `rule`.',
    assumptions=['the destination (target) address in the header is not covered by the privacy setting (listed known finding when the target hop itself is within n)'],
)


# ---- C03: the trace identifiers of the tracers of one process (trippy-tui app.rs) join the strategy-level modes
_c03 = PROPS['C03']
PROPS['C03'] = dict(
    _c03, crates=['hcore', 'htui'], modes=_c03['modes'] + [('htui', 'c03ids')],
    compare=lambda inp, a, b: (a == b) if inp.startswith('tids ') else _c03['compare'](inp, a, b),
    nontrivial=lambda inp, o: (o != 'fault:panic') if inp.startswith('tids ') else _c03['nontrivial'](inp, o),
    rule=_c03['rule'] + ' || trace identifiers of a multi-target run: the real assignment of start_tracers (hook) for EVERY process id 0..65535 at target indices '
         '{0..7, 15, 16, 255, 256, 1000, 32767, 65533, 65534}; oracle: no panic, no identifier zero, pairwise distinct; compared with Tui/TraceId.v',
)


# ---- C14 observes ProbeComplete.extensions in published rounds too: the strategy-level runs (responses with random
# extension lists from routers and from the target) join the packet-level mode
_c14 = PROPS['C14']
PROPS['C14'] = dict(
    _c14, modes=_c14['modes'] + [('hcore', 'run')],
    compare=lambda inp, a, b: compare_run(inp, a, b) if inp.startswith('run ') else _c14['compare'](inp, a, b),
    nontrivial=lambda inp, o: run_nontrivial(inp, o) if inp.startswith('run ') else _c14['nontrivial'](inp, o),
    rule=_c14['rule'] + ' || published rounds: ' + RUN_RULE + ' Time Exceeded / Destination Unreachable responses carry random extension lists (MPLS stacks, unknown objects); oracle: the completed probe holds exactly the extensions of the genuine response',
)
# ---- C04: the strategy step that consumes a decoded response belongs to the receive path (sequence arithmetic on attacker-controlled values)
_c04 = PROPS['C04']
PROPS['C04'] = dict(
    _c04, modes=_c04['modes'] + [('hcore', 'run'), ('hcore', 'tsops')],
    compare=lambda inp, a, b: compare_any(inp, a, b) if inp.split(' ', 1)[0] in ('run', 'tsops') else _c04['compare'](inp, a, b),
    nontrivial=lambda inp, o: any_nontrivial(inp, o) if inp.split(' ', 1)[0] in ('run', 'tsops') else _c04['nontrivial'](inp, o),
    rule=_c04['rule'] + ' || the strategy step consuming the response (in_round / complete_probe arithmetic on the decoded sequence): ' + RUN_RULE + TSOPS_RULE + ' oracle: a panic anywhere in the loop',
)
# ---- C07: "the Dublin/IPv6 payload length derived from the sequence always fits the packet buffer" - the buffer is the one of
# net/ipv6.rs dispatch: the Dublin/IPv6 lines of mode c11 (every payload length the strategy can produce) join
_c07 = PROPS['C07']
PROPS['C07'] = dict(
    _c07, modes=_c07['modes'] + [('hcore', 'c11')],
    compare=lambda inp, a, b: compare_c11(inp, a, b) if is_c11_line(inp) else _c07['compare'](inp, a, b),
    nontrivial=lambda inp, o: c11_nontrivial(inp, o) if is_c11_line(inp) else _c07['nontrivial'](inp, o),
    rule=_c07['rule'] + ' || the packet buffer itself: mode c11 (real Channel::send_probe), Dublin/IPv6 with every payload length 0..972',
)


# ---- C09: a fatal error of the RECEIVE socket must end the run: the socket-outcome lines of mode recv (select error, read error,
# spurious wake-up, timeout through the real Channel::recv_probe) join
_c09b = PROPS['C09']
PROPS['C09'] = dict(
    _c09b, modes=_c09b['modes'] + [('hcore', 'recv')],
    compare=lambda inp, a, b: compare_recv(inp, a, b) if is_recv_line(inp) else _c09b['compare'](inp, a, b),
    nontrivial=lambda inp, o: (inp.startswith('sockerr ') or recv_decoded(inp, o)) if is_recv_line(inp) else _c09b['nontrivial'](inp, o),
    rule=_c09b['rule'] + ' || receive-socket outcomes through the real Channel::recv_probe for every cell: select error, read error, spurious wake-up, timeout (mode recv, sockerr lines); oracle: a socket error comes back as an error value',
)


# ---- C15: the bound on the number of flows must survive Tracer::clear(): the controlled runs of mode c20 (rounds applied through
# the real handler, clear, rounds again) carry a C15 oracle
_c15 = PROPS['C15']
PROPS['C15'] = dict(
    _c15, modes=_c15['modes'] + [('hcore', 'c20')],
    compare=lambda inp, a, b: compare_c20(inp, a, b) if inp.startswith('c20') else _c15['compare'](inp, a, b),
    nontrivial=lambda inp, o: PROPS['C20']['nontrivial'](inp, o) if inp.startswith('c20') else _c15['nontrivial'](inp, o),
    rule=_c15['rule'] + ' || after Tracer::clear(): mode c20 (real handler, clear at rest, the same rounds again): the number of flows stays within max_flows',
)


# ---- C19: the expected checksum is recomputed by the receive path (Ipv4::calc_udp_checksum): the multi-datagram sequences of mode
# recv (several rounds of unrewritten Dublin/IPv4 probes through ONE channel, real dispatch bytes) carry a C19 oracle
_c19 = PROPS['C19']
PROPS['C19'] = dict(
    _c19, modes=_c19['modes'] + [('hcore', 'recv')],
    compare=lambda inp, a, b: compare_recv(inp, a, b) if is_recv_line(inp) else _c19['compare'](inp, a, b),
    nontrivial=lambda inp, o: (inp.startswith('recvseq ') or recv_decoded(inp, o)) if is_recv_line(inp) else _c19['nontrivial'](inp, o),
    rule=_c19['rule'] + ' || byte level: mode recv, recvseq lines - four rounds of two probes each, built by the real dispatch, quoted by a conforming router and delivered to ONE Channel (the non-fixed port changes per round); oracle for Dublin/IPv4: expected checksum = quoted checksum when nothing rewrote the datagram',
)


# ---- builder settings reach the core configurations (tracer.rs make_*_config): mode cfgmap joins C16 (what the core executes with
# is what passed validation) and C11 ("as configured")
for _pid, _extra in (('C16', 'C16'), ('C11', 'C11')):
    _p = PROPS[_pid]
    PROPS[_pid] = dict(
        _p, crates=sorted(set(_p['crates']) | {'hcore'}), modes=_p['modes'] + [('hcore', 'cfgmap')],
        compare=(lambda q: (lambda inp, a, b: (a == b or a == 'rejected') if inp.startswith('cfgmap ') else q['compare'](inp, a, b)))(_p),
        nontrivial=(lambda q: (lambda inp, o: (o != 'rejected') if inp.startswith('cfgmap ') else q['nontrivial'](inp, o)))(_p),
        rule=_p['rule'] + ' || builder settings -> core configuration: 400 (thorough 5000) tracers built through the real Builder with random, pairwise distinct values for all 23 settings; channel / strategy / state configuration read back (hooks, snapshot before and after clear, getters); oracle: every field equals the setting',
    )


# ---- C01: the byte-level half of "what the network actually did": the own-response lines of mode recv carry a C01 oracle
_c01 = PROPS['C01']
PROPS['C01'] = dict(
    _c01, modes=_c01['modes'] + [('hcore', 'recv')],
    compare=lambda inp, a, b: compare_recv(inp, a, b) if is_recv_line(inp) else _c01['compare'](inp, a, b),
    nontrivial=lambda inp, o: (' acc=' in o) if is_recv_line(inp) else _c01['nontrivial'](inp, o),
    rule=_c01['rule'] + ' || byte level: the own-response lines of mode recv (a genuine response that is not decoded, rejected or matched to another sequence would leave the probe Awaited / complete the wrong one)',
)


# ---- C14: "ProbeComplete.extensions" at the byte level: the own-response lines of mode recv carry the extension list the peer
# encoded (decoded by the harness from its own encoding) as an expectation, incl. messages that reach the end of the receive buffer
_c14b = PROPS['C14']
PROPS['C14'] = dict(
    _c14b, modes=_c14b['modes'] + [('hcore', 'recv')],
    compare=lambda inp, a, b: compare_recv(inp, a, b) if is_recv_line(inp) else _c14b['compare'](inp, a, b),
    nontrivial=lambda inp, o: ('=x+' in inp) if is_recv_line(inp) else _c14b['nontrivial'](inp, o),
    rule=_c14b['rule'] + ' || receive path: own responses of mode recv with RFC 4884 / legacy extension structures (message sizes up to and beyond the 1024-octet receive buffer); oracle: the reported extension list is the one the router encoded',
)


# ---- C18 starts from the privacy level the user asked for: the option-layering lines of mode c16 carry a C18 oracle for that option
_c18 = PROPS['C18']
PROPS['C18'] = dict(
    _c18, modes=_c18['modes'] + [('htui', 'c16')],
    compare=lambda inp, a, b: compare_c16(inp, a, b) if inp.startswith('c16') else _c18['compare'](inp, a, b),
    nontrivial=lambda inp, o: c16_nontrivial(inp, o) if inp.startswith('c16') else _c18['nontrivial'](inp, o),
    rule=_c18['rule'] + ' || the requested level: mode c16 (command line / file / default layering through the real parsers), oracle on tui-privacy-max-ttl incl. the level 0',
)


# ---- C08: "max round duration plus ONE read timeout" rests on Network::recv_probe waiting once and reading one datagram per
# call: the recv / recv2 lines of mode recv count the waits and reads of the real Channel::recv_probe
_c08 = PROPS['C08']
PROPS['C08'] = dict(
    _c08, modes=_c08['modes'] + [('hcore', 'recv')],
    compare=lambda inp, a, b: compare_recv(inp, a, b) if is_recv_line(inp) else _c08['compare'](inp, a, b),
    nontrivial=lambda inp, o: (inp.startswith('recv2 ') or recv_decoded(inp, o)) if is_recv_line(inp) else _c08['nontrivial'](inp, o),
    rule=_c08['rule'] + ' || one receive call = one wait: mode recv counts is_readable / recv_from calls of the real Channel::recv_probe per call, incl. an unrelated ICMP datagram queued in front of a genuine response (recv2 lines)',
)


# ---- C13: the checksums the tracer actually puts on the wire: the dispatched datagrams of mode c11 (ICMP / UDP over both families, every
# packet size and payload pattern, Paris) are verified by an independent RFC 1071 summation (oracle tag C13) and compared with the model
_c13 = PROPS['C13']
PROPS['C13'] = dict(
    _c13, modes=_c13['modes'] + [('hcore', 'c11')],
    compare=lambda inp, a, b: compare_c11(inp, a, b) if is_c11_line(inp) else _c13.get('compare', compare_exact)(inp, a, b),
    nontrivial=lambda inp, o: c11_nontrivial(inp, o) if is_c11_line(inp) else _c13['nontrivial'](inp, o),
    rule=_c13['rule'] + ' || the checksums on the wire: mode c11 (real Channel::send_probe for every cell, packet size 0..1030, every payload pattern and tos): ICMP / ICMPv6 / UDP checksums of the dispatched datagram verify under an independent RFC 1071 summation with the RFC 768 / 8200 pseudo-header',
)


# ---- end to end at the byte level (mode e2e): the real Tracer / Strategy over the real Channel on a simulated socket layer with a simulated
# path behind it (conforming routers and target built by the independent encoder).  The model's part is the builder verdict; the rest is the
# ground-truth oracle of the simulation, tagged per property.
def is_e2e_line(inp):
    return inp.startswith('e2e ') or inp.startswith('e2efam ')


def compare_e2e(inp, impl_out, model_out):
    return impl_out.split(' ')[0].split(':')[0] == model_out


E2E_RULE = (' || end to end (mode e2e): for ICMP, UDP classic / Paris / Dublin x port directions and TCP over both families the real Builder -> Tracer -> Strategy -> '
            'Channel<SimSocket> chain runs N rounds against a simulated path (L-1 conforming routers + target, optional silent router, first_ttl > 1, target beyond max_ttl, '
            'initial sequences near the end of the sequence space, windows 1..100, long silent runs that walk the sequence space); oracle from the ground truth of the simulation: '
            'N rounds without panic or error, every probed hop shows N sent / N answered from exactly its router, the hop table is first_ttl..min(L, max_ttl)')
for _p in ('C16', 'C01', 'C02', 'C10', 'C09', 'C19'):
    _old = PROPS[_p]
    PROPS[_p] = dict(
        _old, modes=_old['modes'] + [('hcore', 'e2e')],
        crates=sorted(set(_old.get('crates', ['hcore']) + ['hcore'])),
        compare=(lambda o: lambda inp, a, b: compare_e2e(inp, a, b) if is_e2e_line(inp) else o['compare'](inp, a, b))(_old),
        nontrivial=(lambda o: lambda inp, out: ('hops=-' not in out and out.startswith('accept')) if is_e2e_line(inp) else o['nontrivial'](inp, out))(_old),
        rule=_old['rule'] + E2E_RULE,
    )


# ---- C05 after a clear: the controlled-schedule runs of mode c20 end with clear() + the same rounds again; the statistics must be those of the
# rounds since the clear under the configured limits (oracle tag C05); the lines are compared with the interleaving model as for C20
_c05 = PROPS['C05']
_c20p = PROPS['C20']
PROPS['C05'] = dict(
    _c05, modes=_c05['modes'] + [('hcore', 'c20')],
    compare=lambda inp, a, b: _c20p['compare'](inp, a, b) if inp.startswith('c20') else _c05['compare'](inp, a, b),
    nontrivial=lambda inp, o: _c20p['nontrivial'](inp, o) if inp.startswith('c20') else _c05['nontrivial'](inp, o),
    rule=_c05['rule'] + ' || after Tracer::clear(): mode c20 re-applies the rounds after a clear and compares every getter with the recomputation over the rounds since (sample limit as configured)',
)


# ---- C16 "accepted configurations can run": the strategy-level runs (mode run: random accepted configurations incl. those that can send nothing)
# and the fault scripts (mode faults: the sequence budget of a round used up exactly / almost / beyond) carry a C16 tag on every panic
_c16b = PROPS['C16']
PROPS['C16'] = dict(
    _c16b, modes=_c16b['modes'] + [('hcore', 'run'), ('hcore', 'faults')],
    compare=lambda inp, a, b: compare_run(inp, a, b) if inp.startswith('run ') else _c16b['compare'](inp, a, b),
    nontrivial=lambda inp, o: run_nontrivial(inp, o) if inp.startswith('run ') else _c16b['nontrivial'](inp, o),
    rule=_c16b['rule'] + ' || no panic once tracing has started: mode run (random builder-accepted configurations, incl. first_ttl > max_ttl and a window of zero probes, over simulated networks) and mode faults '
                         '(bounded-exhaustive fault scripts, the 512-sequence budget of a TCP round used up exactly / almost / beyond)',
)


# ---- C03 at the byte level: the foreign quotations of mode recv (one identity facet of the quoted datagram differs; a foreign payload cut
# inside the marker) must not pass the acceptance test of the strategy side (oracle tag C03)
_c03b = PROPS['C03']
PROPS['C03'] = dict(
    _c03b, modes=_c03b['modes'] + [('hcore', 'recv')],
    compare=lambda inp, a, b: compare_recv(inp, a, b) if is_recv_line(inp) else _c03b['compare'](inp, a, b),
    nontrivial=lambda inp, o: recv_decoded(inp, o) if is_recv_line(inp) else _c03b['nontrivial'](inp, o),
    rule=_c03b['rule'] + ' || foreign quotations through the real receive path (mode recv): another destination / protocol / port / trace identifier / payload marker, and a foreign payload quoted only up to a prefix of the marker, must fail the acceptance test',
)


# ---- the wait itself: the real platform socket (net/platform/unix.rs SocketImpl through the hook re-export) on loopback datagram sockets,
# idle / under a stream of signals / with a datagram arriving (mode platform); the model is Net/Platform.v (select result -> is_readable)
_c09p = PROPS['C09']
PROPS['C09'] = dict(
    _c09p, modes=_c09p['modes'] + [('hcore', 'platform')],
    compare=lambda inp, a, b: (a == b) if inp.startswith('platform ') else _c09p['compare'](inp, a, b),
    nontrivial=lambda inp, o: True if inp.startswith('platform ') else _c09p['nontrivial'](inp, o),
    rule=_c09p['rule'] + ' || the real SocketImpl::is_readable on loopback sockets (mode platform): idle waits, waits interrupted by a stream of signals (handler without SA_RESTART: select returns EINTR), a datagram arriving; an interrupted wait must read "nothing", never an error',
)


# ---- the probe as the strategy hands it to the network (ports, sequence, identifier, ttl of first attempts AND re-issued probes) and the
# acceptance of its answer are part of "as the strategy prescribes" (C11) and of "recognised as the response to exactly that probe" (C02):
# the strategy-level runs of mode run (recorded trace replayed through the model) join both
for _p in ('C11', 'C02'):
    _old = PROPS[_p]
    PROPS[_p] = dict(
        _old, modes=_old['modes'] + [('hcore', 'run')],
        compare=(lambda o: lambda inp, a, b: compare_run(inp, a, b) if inp.startswith('run ') else o['compare'](inp, a, b))(_old),
        nontrivial=(lambda o: lambda inp, out: run_nontrivial(inp, out) if inp.startswith('run ') else o['nontrivial'](inp, out))(_old),
        rule=_old['rule'] + ' || ' + RUN_RULE,
    )
