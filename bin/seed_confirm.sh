#!/bin/bash
# usage: seed_confirm.sh <worktree> <dir with patch.diff demo.diff> [cargo test filter crate]
# Confirms in the scratch worktree: (1) with the change the existing suite passes, (2) the demonstration fails with
# the change and passes without it.
set -u
WT=$1; D=$2; CRATES=${3:-"-p trippy-core -p trippy-packet"}
cd "$WT" || exit 2
git checkout -q -- . ; git clean -fdq -e target -e OUT
git apply "$D/patch.diff" || { echo "PATCH-DOES-NOT-APPLY"; exit 2; }
if cargo test $CRATES --offline > /tmp/seed_suite.log 2>&1; then echo "suite-with-change: PASS"; else echo "suite-with-change: FAIL"; tail -5 /tmp/seed_suite.log; fi
git apply "$D/demo.diff" || { echo "DEMO-DOES-NOT-APPLY"; }
if cargo test $CRATES --offline > /tmp/seed_demo1.log 2>&1; then echo "demo-with-change: PASS (unexpected)"; else echo "demo-with-change: FAIL (expected)"; grep -E "^test .* FAILED|panicked" /tmp/seed_demo1.log | head -3; fi
git checkout -q -- . ; git clean -fdq -e target -e OUT
git apply "$D/demo.diff"
if cargo test $CRATES --offline > /tmp/seed_demo2.log 2>&1; then echo "demo-without-change: PASS (expected)"; else echo "demo-without-change: FAIL (unexpected)"; tail -5 /tmp/seed_demo2.log; fi
git checkout -q -- . ; git clean -fdq -e target -e OUT
