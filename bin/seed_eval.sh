#!/bin/bash
# usage: seed_eval.sh <name under /tmp/wt> "<cargo crates>" <prop> [<prop>...] : confirm in the agent's worktree, then run the checks on /repo
N=$1; CR=$2; shift 2
echo "=== $N"
/verif/bin/seed_confirm.sh /tmp/wt/$N /tmp/wt/keep/$N "$CR" 2>&1 | grep -E "suite-with|demo-with" 
/verif/bin/seed_run.sh /tmp/wt/keep/$N/patch.diff quick "$@"
git -C /repo status --short | head -3
