#!/bin/bash
# usage: seed_run.sh <patch> <tier> <prop> [<prop>...]  : apply a seeded change to /repo, run checks, undo
P=$(realpath "$1"); T=$2; shift 2
git -C /repo apply "$P" || { echo "patch does not apply to /repo"; exit 2; }
for c in "$@"; do
  out=$(/verif/bin/check $c --tier $T 2>&1 | tail -4)
  if echo "$out" | grep -q "^VIOLATION"; then echo "$c $T: CAUGHT  $(echo "$out" | grep '^VIOLATION' | head -1)"; else echo "$c $T: MISSED  $(echo "$out" | tail -1)"; fi
done
git -C /repo checkout -- .
