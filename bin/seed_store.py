#!/usr/bin/env python3
"""usage: seed_store.py <src dir with patch.diff demo.diff README.md> <Sxx-Cyy-slug> <property> <what> <needs> <checks_run> <result>"""
import sys, os, shutil, json, subprocess
src, sid, prop, what, needs, checks, result = sys.argv[1:8]
dst = os.path.join(os.path.dirname(os.path.abspath(__file__)), '..', 'seeded', sid)
os.makedirs(dst, exist_ok=True)
for f in ('patch.diff', 'demo.diff', 'README.md'):
    shutil.copy(os.path.join(src, f), os.path.join(dst, f))
head = subprocess.run(['git', '-C', '/repo', 'rev-parse', '--short', 'HEAD'], capture_output=True, text=True).stdout.strip()
json.dump({
    'id': sid, 'property': prop, 'what': what, 'needs_to_manifest': needs,
    'origin': f'independent sub-agent given only the property text and a scratch worktree of /repo ({head} or an earlier hook/fix commit)',
    'confirmed': 'bin/seed_confirm.sh in the scratch worktree: existing suite passes with the change; demo.diff test fails with the change and passes without it',
    'checks_run': checks, 'result': result}, open(os.path.join(dst, 'meta.json'), 'w'), indent=1)
print('stored', dst)
