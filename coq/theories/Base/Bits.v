(* Base/Bits.v - the RFC bit-slice specification used by C12 (and the generic laws about it).

   A buffer is a [list Z] of bytes.  Bit 0 is the most significant bit of byte 0 (the way every RFC
   header diagram numbers bits), bit 8*i+j is bit j (from the top) of byte i.

     rfc_get off w buf   = the unsigned big-endian integer formed by the w bits off .. off+w-1
     rfc_set off w v buf = buf with exactly those w bits replaced by the binary digits of v mod 2^w

   Both are defined on the list of bits of the buffer (no arithmetic, no byte boundaries), so that the
   definition can be checked against an RFC diagram by eye.  This file is independent of the code:
   nothing in it mentions a packet type.  It proves, once and for all buffers:
     - rfc_get_set      : rfc_get off w (rfc_set off w v buf) = v mod 2^w
     - rfc_set_frame    : every disjoint bit slice is unchanged   (rfc_set_frame_bit: every other bit)
     - rfc_set_length, rfc_set_bytes, rfc_get_range, rfc_set_get_id, rfc_set_mod
   and the bridge to byte arithmetic that the per-field proofs use:
     - rfc_get_field / rfc_set_field : a slice that lies inside bytes k .. k+n-1 only depends on / only
       rewrites those n bytes, and is given there by div / mod on their big-endian value. *)
From TV Require Import Base.Result Base.Bytes.

(* ------------------------------------------------------------------------------------------ *)
(* bit lists, most significant bit first                                                       *)

Fixpoint bval (l : list bool) : Z :=
  match l with
  | [] => 0
  | b :: t => Z.b2z b * 2 ^ Z.of_nat (length t) + bval t
  end.

(* the w low-order binary digits of v, most significant first *)
Fixpoint zbits (w : nat) (v : Z) : list bool :=
  match w with
  | O => []
  | S w' => zbits w' (v / 2) ++ [Z.odd v]
  end.

Definition bits_of_bytes (l : list Z) : list bool := flat_map (zbits 8) l.

Fixpoint bytes_of_bits (l : list bool) : list Z :=
  match l with
  | a :: b :: c :: d :: e :: f :: g :: h :: t => bval [a; b; c; d; e; f; g; h] :: bytes_of_bits t
  | _ => []
  end.

(* ------------------------------------------------------------------------------------------ *)
(* the specification                                                                           *)

Definition rfc_get (off w : nat) (buf : list Z) : Z :=
  bval (firstn w (skipn off (bits_of_bytes buf))).

Definition rfc_set (off w : nat) (v : Z) (buf : list Z) : list Z :=
  let bs := bits_of_bytes buf in
  bytes_of_bits (firstn off bs ++ zbits w v ++ skipn (off + w) bs).

(* two slices do not overlap *)
Definition disjoint (off w off' w' : nat) : Prop := (off' + w' <= off)%nat \/ (off + w <= off')%nat.

(* big-endian value of a byte string / the n-byte big-endian representation (from_be_bytes / to_be_bytes) *)
Fixpoint be_val (l : list Z) : Z :=
  match l with
  | [] => 0
  | b :: t => b * 2 ^ Z.of_nat (8 * length t) + be_val t
  end.

Fixpoint be_bytes (n : nat) (v : Z) : list Z :=
  match n with
  | O => []
  | S n' => be_bytes n' (v / 256) ++ [v mod 256]
  end.

(* ------------------------------------------------------------------------------------------ *)
(* list helpers                                                                                *)

Lemma firstn_app_le {A} n (l1 l2 : list A) : (n <= length l1)%nat -> firstn n (l1 ++ l2) = firstn n l1.
Proof.
  intros H. rewrite firstn_app. replace (n - length l1)%nat with O by lia.
  cbn. apply app_nil_r.
Qed.

Lemma skipn_app_le {A} n (l1 l2 : list A) : (n <= length l1)%nat -> skipn n (l1 ++ l2) = skipn n l1 ++ l2.
Proof. intros H. rewrite skipn_app. replace (n - length l1)%nat with O by lia. reflexivity. Qed.

Lemma skipn_app_ge {A} n (l1 l2 : list A) : skipn (length l1 + n) (l1 ++ l2) = skipn n l2.
Proof.
  rewrite skipn_app. rewrite skipn_all2 by lia.
  replace (length l1 + n - length l1)%nat with n by lia. reflexivity.
Qed.

Lemma skipn_skipn' {A} a b (l : list A) : skipn a (skipn b l) = skipn (b + a) l.
Proof.
  revert l. induction b as [|b IH]; intros l; [reflexivity|].
  destruct l; [rewrite !skipn_nil; reflexivity|]. cbn [skipn Nat.add]. apply IH.
Qed.

Lemma split3 {A} k n (l : list A) :
  l = firstn k l ++ firstn n (skipn k l) ++ skipn (k + n) l.
Proof. rewrite <- skipn_skipn'. rewrite firstn_skipn. rewrite firstn_skipn. reflexivity. Qed.

Lemma nth_firstn_skipn {A} (d : A) w off (l : list A) j : (j < w)%nat ->
  nth j (firstn w (skipn off l)) d = nth (off + j) l d.
Proof.
  revert l. induction off as [|off IH]; intros l Hj.
  - cbn [skipn Nat.add]. revert l j Hj. induction w as [|w IHw]; intros l j Hj; [lia|].
    destruct l; [destruct j; reflexivity|]. destruct j; cbn; [reflexivity|]. apply IHw. lia.
  - destruct l.
    + cbn [skipn]. rewrite firstn_nil. destruct j; reflexivity.
    + cbn [skipn Nat.add nth]. apply IH. assumption.
Qed.

Lemma firstn_skipn_ext {A} (d : A) off w (x y : list A) : length x = length y ->
  (forall i, (off <= i < off + w)%nat -> nth i x d = nth i y d) ->
  firstn w (skipn off x) = firstn w (skipn off y).
Proof.
  intros Hl H. apply (nth_ext _ _ d d).
  - rewrite !firstn_length, !skipn_length. lia.
  - intros j Hj. rewrite firstn_length in Hj.
    rewrite !nth_firstn_skipn by lia. apply H. lia.
Qed.

Lemma list8 {A} (l : list A) : length l = 8%nat ->
  exists a b c d e f g h, l = [a; b; c; d; e; f; g; h].
Proof.
  intros H. do 8 (destruct l as [|? l]; [discriminate|]). destruct l; [|discriminate].
  repeat eexists.
Qed.

(* ------------------------------------------------------------------------------------------ *)
(* bval / zbits                                                                                *)

Lemma pow2_pos n : 0 < 2 ^ Z.of_nat n.
Proof. apply Z.pow_pos_nonneg; lia. Qed.

Lemma pow2_add a b : 2 ^ Z.of_nat (a + b) = 2 ^ Z.of_nat a * 2 ^ Z.of_nat b.
Proof. rewrite Nat2Z.inj_add. apply Z.pow_add_r; lia. Qed.

Lemma pow2_S a : 2 ^ Z.of_nat (S a) = 2 * 2 ^ Z.of_nat a.
Proof. rewrite Nat2Z.inj_succ. apply Z.pow_succ_r. lia. Qed.

Lemma bval_app a b : bval (a ++ b) = bval a * 2 ^ Z.of_nat (length b) + bval b.
Proof.
  induction a as [|x a IH]; cbn [app bval]; [lia|].
  rewrite IH, app_length, pow2_add. ring.
Qed.

Lemma bval_range l : 0 <= bval l < 2 ^ Z.of_nat (length l).
Proof.
  induction l as [|x l IH]; cbn [bval length]; [cbn; lia|].
  rewrite pow2_S. destruct x; cbn [Z.b2z]; lia.
Qed.

Lemma length_zbits w v : length (zbits w v) = w.
Proof. revert v. induction w as [|w IH]; intros v; cbn [zbits]; [reflexivity|]. rewrite app_length, IH. cbn. lia. Qed.

Lemma bval_zbits w v : bval (zbits w v) = v mod 2 ^ Z.of_nat w.
Proof.
  revert v. induction w as [|w IH]; intros v; cbn [zbits].
  - cbn. symmetry. apply Z.mod_1_r.
  - rewrite bval_app, IH. cbn [length bval]. rewrite (pow2_S w).
    change (2 ^ Z.of_nat 1) with 2. change (2 ^ Z.of_nat 0) with 1.
    pose proof (pow2_pos w).
    rewrite (Z.rem_mul_r v 2 (2 ^ Z.of_nat w)) by lia.
    rewrite (Zmod_odd v). destruct (Z.odd v); cbn [Z.b2z]; lia.
Qed.

Lemma zbits_mod w v : zbits w (v mod 2 ^ Z.of_nat w) = zbits w v.
Proof.
  revert v. induction w as [|w IH]; intros v; cbn [zbits]; [reflexivity|].
  pose proof (pow2_pos w).
  rewrite pow2_S. f_equal.
  - rewrite <- (IH (v / 2)). rewrite <- (IH (v mod (2 * 2 ^ Z.of_nat w) / 2)). f_equal.
    rewrite (Z.rem_mul_r v 2 (2 ^ Z.of_nat w)) by lia.
    rewrite (Z.mul_comm 2 ((v / 2) mod 2 ^ Z.of_nat w)), Z.div_add by lia.
    rewrite (Z.div_small (v mod 2) 2) by (apply Z.mod_pos_bound; lia).
    rewrite Z.add_0_l. apply Z.mod_mod. lia.
  - f_equal. rewrite (Z.rem_mul_r v 2 (2 ^ Z.of_nat w)) by lia.
    rewrite Z.odd_add_mul_2. rewrite Zmod_odd. destruct (Z.odd v); reflexivity.
Qed.

Lemma zbits_bval l : zbits (length l) (bval l) = l.
Proof.
  induction l as [|x l IH] using rev_ind; [reflexivity|].
  rewrite app_length, Nat.add_1_r, bval_app. cbn [length bval zbits].
  replace (2 ^ Z.of_nat 1) with 2 by reflexivity. replace (2 ^ Z.of_nat 0) with 1 by reflexivity.
  f_equal.
  - transitivity (zbits (length l) (bval l)); [|exact IH]. f_equal. rewrite Z.div_add_l by lia.
    destruct x; cbn [Z.b2z]; [change ((1 * 1 + 0) / 2) with 0 | change ((0 * 1 + 0) / 2) with 0]; lia.
  - f_equal. rewrite Z.add_comm, (Z.mul_comm (bval l) 2), Z.odd_add_mul_2. destruct x; reflexivity.
Qed.

(* ------------------------------------------------------------------------------------------ *)
(* bytes <-> bits                                                                              *)

Lemma length_bits l : length (bits_of_bytes l) = (8 * length l)%nat.
Proof.
  unfold bits_of_bytes. induction l as [|b l IH]; [reflexivity|].
  cbn [flat_map length]. rewrite app_length, length_zbits, IH. lia.
Qed.

Lemma bits_app a b : bits_of_bytes (a ++ b) = bits_of_bytes a ++ bits_of_bytes b.
Proof. apply flat_map_app. Qed.

Lemma bits_cons b l : bits_of_bytes (b :: l) = zbits 8 b ++ bits_of_bytes l.
Proof. reflexivity. Qed.

Lemma bytes_of_bits_app8 l t : length l = 8%nat -> bytes_of_bits (l ++ t) = bval l :: bytes_of_bits t.
Proof. intros H. destruct (list8 l H) as (a & b & c & d & e & f & g & h & ->). reflexivity. Qed.

Lemma bytes_of_bits_8 l : length l = 8%nat -> bytes_of_bits l = [bval l].
Proof. intros H. rewrite <- (app_nil_r l) at 1. rewrite bytes_of_bits_app8 by assumption. reflexivity. Qed.

Lemma bytes_of_bits_app n a b : length a = (8 * n)%nat ->
  bytes_of_bits (a ++ b) = bytes_of_bits a ++ bytes_of_bits b.
Proof.
  revert a. induction n as [|n IH]; intros a H.
  - destruct a; [reflexivity|discriminate].
  - rewrite <- (firstn_skipn 8 a). rewrite <- app_assoc.
    assert (H8 : length (firstn 8 a) = 8%nat) by (rewrite firstn_length; lia).
    rewrite (bytes_of_bits_app8 (firstn 8 a) (skipn 8 a ++ b)) by assumption.
    rewrite (bytes_of_bits_app8 (firstn 8 a) (skipn 8 a)) by assumption. cbn [app]. f_equal.
    apply IH. rewrite skipn_length. lia.
Qed.

Lemma length_bytes_of_bits n l : length l = (8 * n)%nat -> length (bytes_of_bits l) = n.
Proof.
  revert l. induction n as [|n IH]; intros l H.
  - destruct l; [reflexivity|discriminate].
  - rewrite <- (firstn_skipn 8 l).
    rewrite bytes_of_bits_app8 by (rewrite firstn_length; lia).
    cbn [length]. f_equal. apply IH. rewrite skipn_length. lia.
Qed.

Lemma bytes_bytes_of_bits l : bytes (bytes_of_bits l).
Proof.
  assert (H : forall n (l : list bool), (length l <= n)%nat -> bytes (bytes_of_bits l)).
  { induction n as [|n IH]; intros l0 Hl.
    - destruct l0; [constructor|cbn in Hl; lia].
    - destruct l0 as [|a [|b [|c [|d [|e [|f [|g [|h t]]]]]]]]; try constructor.
      + pose proof (bval_range [a; b; c; d; e; f; g; h]) as R. cbn [length] in R.
        change (2 ^ Z.of_nat 8) with 256 in R. exact R.
      + apply IH. cbn [length] in Hl. lia. }
  apply (H (length l)). lia.
Qed.

Lemma bytes_of_bits_bits l t : bytes l -> bytes_of_bits (bits_of_bytes l ++ t) = l ++ bytes_of_bits t.
Proof.
  induction l as [|b l IH]; intros Hb; [reflexivity|].
  apply bytes_cons in Hb. destruct Hb as [Hb Hl].
  rewrite bits_cons, <- app_assoc, bytes_of_bits_app8 by apply length_zbits.
  rewrite bval_zbits. change (2 ^ Z.of_nat 8) with 256. rewrite Z.mod_small by lia.
  cbn [app]. f_equal. apply IH. assumption.
Qed.

Lemma bytes_of_bits_bits' l : bytes l -> bytes_of_bits (bits_of_bytes l) = l.
Proof.
  intros H. rewrite <- (app_nil_r (bits_of_bytes l)). rewrite bytes_of_bits_bits by assumption.
  cbn. apply app_nil_r.
Qed.

Lemma bits_bytes_of_bits n l : length l = (8 * n)%nat -> bits_of_bytes (bytes_of_bits l) = l.
Proof.
  revert l. induction n as [|n IH]; intros l H.
  - destruct l; [reflexivity|discriminate].
  - rewrite <- (firstn_skipn 8 l) at 1.
    assert (H8 : length (firstn 8 l) = 8%nat) by (rewrite firstn_length; lia).
    rewrite bytes_of_bits_app8 by assumption. rewrite bits_cons.
    rewrite IH by (rewrite skipn_length; lia).
    rewrite <- H8 at 1. rewrite zbits_bval. apply firstn_skipn.
Qed.

(* ------------------------------------------------------------------------------------------ *)
(* the generic laws                                                                            *)

Lemma length_splice off w v (bs : list bool) : (off + w <= length bs)%nat ->
  length (firstn off bs ++ zbits w v ++ skipn (off + w) bs) = length bs.
Proof. intros H. rewrite !app_length, firstn_length, length_zbits, skipn_length. lia. Qed.

Lemma bits_rfc_set off w v buf : (off + w <= 8 * length buf)%nat ->
  bits_of_bytes (rfc_set off w v buf) =
  firstn off (bits_of_bytes buf) ++ zbits w v ++ skipn (off + w) (bits_of_bytes buf).
Proof.
  intros H. unfold rfc_set. apply (bits_bytes_of_bits (length buf)).
  rewrite length_splice; rewrite length_bits; lia.
Qed.

(* length preserved *)
Lemma rfc_set_length off w v buf : (off + w <= 8 * length buf)%nat ->
  length (rfc_set off w v buf) = length buf.
Proof.
  intros H. unfold rfc_set. apply length_bytes_of_bits.
  rewrite length_splice; rewrite length_bits; lia.
Qed.

(* the result is a byte string *)
Lemma rfc_set_bytes off w v buf : bytes (rfc_set off w v buf).
Proof. apply bytes_bytes_of_bits. Qed.

Lemma rfc_get_range off w buf : 0 <= rfc_get off w buf < 2 ^ Z.of_nat w.
Proof.
  unfold rfc_get. pose proof (bval_range (firstn w (skipn off (bits_of_bytes buf)))) as R.
  assert (L : (length (firstn w (skipn off (bits_of_bytes buf))) <= w)%nat) by (rewrite firstn_length; lia).
  assert (2 ^ Z.of_nat (length (firstn w (skipn off (bits_of_bytes buf)))) <= 2 ^ Z.of_nat w)
    by (apply Z.pow_le_mono_r; lia).
  lia.
Qed.

(* (a) round trip *)
Lemma rfc_get_set off w v buf : (off + w <= 8 * length buf)%nat ->
  rfc_get off w (rfc_set off w v buf) = v mod 2 ^ Z.of_nat w.
Proof.
  intros H. unfold rfc_get. rewrite bits_rfc_set by assumption.
  set (bs := bits_of_bytes buf).
  assert (Hbs : length bs = (8 * length buf)%nat) by apply length_bits.
  assert (Hf : length (firstn off bs) = off) by (rewrite firstn_length; lia).
  rewrite <- Hf at 1. rewrite <- (Nat.add_0_r (length (firstn off bs))).
  rewrite skipn_app_ge. cbn [skipn].
  rewrite <- (length_zbits w v) at 1. rewrite <- (Nat.add_0_r (length (zbits w v))).
  rewrite firstn_app_2. cbn [firstn]. rewrite app_nil_r. apply bval_zbits.
Qed.

(* (b) frame, bit by bit: every bit outside [off, off+w) is unchanged *)
Lemma rfc_set_frame_bit off w v buf i : (off + w <= 8 * length buf)%nat ->
  (i < off \/ off + w <= i)%nat ->
  nth i (bits_of_bytes (rfc_set off w v buf)) false = nth i (bits_of_bytes buf) false.
Proof.
  intros H Hi. rewrite bits_rfc_set by assumption.
  set (bs := bits_of_bytes buf).
  assert (Hbs : length bs = (8 * length buf)%nat) by apply length_bits.
  assert (Hf : length (firstn off bs) = off) by (rewrite firstn_length; lia).
  destruct Hi as [Hi|Hi].
  - rewrite app_nth1 by lia. rewrite <- (Nat.add_0_l i).
    rewrite <- (nth_firstn_skipn false off 0 bs i) by lia. reflexivity.
  - rewrite app_nth2 by lia. rewrite app_nth2 by (rewrite length_zbits; lia).
    rewrite Hf, length_zbits.
    rewrite <- (firstn_skipn (off + w) bs) at 2.
    rewrite app_nth2 by (rewrite firstn_length; lia).
    rewrite firstn_length. f_equal. lia.
Qed.

(* (b) frame, field by field: every disjoint slice reads the same before and after *)
Lemma rfc_set_frame off w v buf off' w' : (off + w <= 8 * length buf)%nat ->
  disjoint off w off' w' ->
  rfc_get off' w' (rfc_set off w v buf) = rfc_get off' w' buf.
Proof.
  intros H D. unfold rfc_get. f_equal. apply (firstn_skipn_ext false).
  - rewrite !length_bits. rewrite rfc_set_length by assumption. reflexivity.
  - intros i Hi. apply rfc_set_frame_bit; [assumption|]. unfold disjoint in D. lia.
Qed.

(* writing only v mod 2^w: the excess bits of the argument are ignored *)
Lemma rfc_set_mod off w v buf : rfc_set off w (v mod 2 ^ Z.of_nat w) buf = rfc_set off w v buf.
Proof. unfold rfc_set. rewrite zbits_mod. reflexivity. Qed.

(* writing back what is there changes nothing *)
Lemma rfc_set_get_id off w buf : bytes buf -> (off + w <= 8 * length buf)%nat ->
  rfc_set off w (rfc_get off w buf) buf = buf.
Proof.
  intros Hb H. unfold rfc_set, rfc_get.
  set (bs := bits_of_bytes buf).
  assert (Hbs : length bs = (8 * length buf)%nat) by apply length_bits.
  assert (Hm : length (firstn w (skipn off bs)) = w) by (rewrite firstn_length, skipn_length; lia).
  rewrite <- Hm at 1. rewrite zbits_bval.
  rewrite <- skipn_skipn'. rewrite firstn_skipn. rewrite firstn_skipn.
  apply bytes_of_bits_bits'. assumption.
Qed.

(* ------------------------------------------------------------------------------------------ *)
(* big-endian byte arithmetic                                                                  *)

Lemma pow2_8 n : 2 ^ Z.of_nat (8 * S n) = 256 * 2 ^ Z.of_nat (8 * n).
Proof. replace (8 * S n)%nat with (8 + 8 * n)%nat by lia. rewrite pow2_add. reflexivity. Qed.

Lemma bval_bits l : bytes l -> bval (bits_of_bytes l) = be_val l.
Proof.
  induction l as [|b l IH]; intros Hb; [reflexivity|].
  apply bytes_cons in Hb. destruct Hb as [Hb Hl].
  rewrite bits_cons, bval_app, bval_zbits, length_bits, IH by assumption.
  change (2 ^ Z.of_nat 8) with 256. rewrite Z.mod_small by lia. reflexivity.
Qed.

Lemma be_val_range l : bytes l -> 0 <= be_val l < 2 ^ Z.of_nat (8 * length l).
Proof.
  intros Hb. rewrite <- bval_bits by assumption. rewrite <- length_bits. apply bval_range.
Qed.

Lemma be_val_app a b : be_val (a ++ b) = be_val a * 2 ^ Z.of_nat (8 * length b) + be_val b.
Proof.
  induction a as [|x a IH]; cbn [app be_val]; [lia|].
  rewrite IH, app_length. replace (8 * (length a + length b))%nat with (8 * length a + 8 * length b)%nat by lia.
  rewrite pow2_add. ring.
Qed.

Lemma length_be_bytes n v : length (be_bytes n v) = n.
Proof. revert v. induction n as [|n IH]; intros v; cbn [be_bytes]; [reflexivity|]. rewrite app_length, IH. cbn. lia. Qed.

Lemma bytes_be_bytes n v : bytes (be_bytes n v).
Proof.
  revert v. induction n as [|n IH]; intros v; cbn [be_bytes]; [constructor|].
  apply bytes_app. split; [apply IH|]. apply bytes_cons. split; [|constructor].
  apply Z.mod_pos_bound. lia.
Qed.

Lemma bytes_of_bits_bval n l : length l = (8 * n)%nat -> bytes_of_bits l = be_bytes n (bval l).
Proof.
  revert l. induction n as [|n IH]; intros l H.
  - destruct l; [reflexivity|discriminate].
  - rewrite <- (firstn_skipn (8 * n) l).
    assert (H1 : length (firstn (8 * n) l) = (8 * n)%nat) by (rewrite firstn_length; lia).
    assert (H2 : length (skipn (8 * n) l) = 8%nat) by (rewrite skipn_length; lia).
    rewrite (bytes_of_bits_app n) by assumption.
    rewrite (bytes_of_bits_8 (skipn (8 * n) l)) by assumption.
    rewrite bval_app, H2. change (2 ^ Z.of_nat 8) with 256.
    pose proof (bval_range (skipn (8 * n) l)) as R. rewrite H2 in R. change (2 ^ Z.of_nat 8) with 256 in R.
    cbn [be_bytes]. rewrite Z.div_add_l by lia. rewrite Z.div_small by lia. rewrite Z.add_0_r.
    rewrite Z.add_comm, Z.mod_add by lia. rewrite Z.mod_small by lia.
    rewrite (IH _ H1). reflexivity.
Qed.

(* to_be_bytes after from_be_bytes *)
Lemma be_bytes_be_val l : bytes l -> be_bytes (length l) (be_val l) = l.
Proof.
  intros Hb. rewrite <- bval_bits by assumption.
  rewrite <- (bytes_of_bits_bval (length l)) by apply length_bits.
  apply bytes_of_bits_bits'. assumption.
Qed.

(* from_be_bytes after to_be_bytes *)
Lemma be_val_be_bytes n v : be_val (be_bytes n v) = v mod 2 ^ Z.of_nat (8 * n).
Proof.
  revert v. induction n as [|n IH]; intros v; cbn [be_bytes].
  - cbn. symmetry. apply Z.mod_1_r.
  - rewrite be_val_app, IH. cbn [length be_val]. change (2 ^ Z.of_nat (8 * 1)) with 256.
    change (2 ^ Z.of_nat (8 * 0)) with 1.
    rewrite pow2_8. pose proof (pow2_pos (8 * n)).
    rewrite (Z.rem_mul_r v 256 (2 ^ Z.of_nat (8 * n))) by lia. lia.
Qed.

Lemma be_bytes_mod n v : be_bytes n (v mod 2 ^ Z.of_nat (8 * n)) = be_bytes n v.
Proof.
  rewrite <- (be_val_be_bytes n v).
  rewrite <- (length_be_bytes n v) at 1. apply be_bytes_be_val. apply bytes_be_bytes.
Qed.

(* ------------------------------------------------------------------------------------------ *)
(* arithmetic reading of a slice                                                               *)

(* the slice as a quotient and remainder of the big-endian value of the whole string *)
Lemma rfc_get_arith off w m : bytes m -> (off + w <= 8 * length m)%nat ->
  rfc_get off w m = (be_val m / 2 ^ Z.of_nat (8 * length m - off - w)) mod 2 ^ Z.of_nat w.
Proof.
  intros Hb H. rewrite <- bval_bits by assumption. unfold rfc_get.
  set (bs := bits_of_bytes m).
  assert (Hbs : length bs = (8 * length m)%nat) by apply length_bits.
  rewrite <- (firstn_skipn off bs) at 2.
  rewrite <- (firstn_skipn w (skipn off bs)) at 2.
  rewrite !bval_app.
  assert (L1 : length (firstn w (skipn off bs)) = w) by (rewrite firstn_length, skipn_length; lia).
  assert (L2 : length (skipn w (skipn off bs)) = (8 * length m - off - w)%nat) by (rewrite !skipn_length; lia).
  rewrite app_length, L1, L2.
  pose proof (bval_range (firstn w (skipn off bs))) as R1. rewrite L1 in R1.
  pose proof (bval_range (skipn w (skipn off bs))) as R2. rewrite L2 in R2.
  set (A := bval (firstn off bs)) in *. set (M := bval (firstn w (skipn off bs))) in *.
  set (R := bval (skipn w (skipn off bs))) in *.
  set (s := (8 * length m - off - w)%nat) in *.
  rewrite pow2_add.
  pose proof (pow2_pos s). pose proof (pow2_pos w).
  replace (A * (2 ^ Z.of_nat w * 2 ^ Z.of_nat s) + (M * 2 ^ Z.of_nat s + R))
    with ((A * 2 ^ Z.of_nat w + M) * 2 ^ Z.of_nat s + R) by ring.
  rewrite Z.div_add_l by lia. rewrite (Z.div_small R) by lia. rewrite Z.add_0_r.
  rewrite Z.add_comm, Z.mod_add by lia. symmetry. apply Z.mod_small. lia.
Qed.

(* the rewritten string: the old slice value is subtracted, the new one added, at the slice's weight *)
Lemma rfc_set_arith off w v m : bytes m -> (off + w <= 8 * length m)%nat ->
  rfc_set off w v m =
  be_bytes (length m)
    (be_val m - rfc_get off w m * 2 ^ Z.of_nat (8 * length m - off - w)
              + (v mod 2 ^ Z.of_nat w) * 2 ^ Z.of_nat (8 * length m - off - w)).
Proof.
  intros Hb H. rewrite <- bval_bits by assumption. unfold rfc_set, rfc_get.
  set (bs := bits_of_bytes m).
  assert (Hbs : length bs = (8 * length m)%nat) by apply length_bits.
  rewrite (bytes_of_bits_bval (length m)) by (rewrite length_splice; lia).
  f_equal.
  assert (L1 : length (firstn w (skipn off bs)) = w) by (rewrite firstn_length, skipn_length; lia).
  assert (L2 : length (skipn (off + w) bs) = (8 * length m - off - w)%nat) by (rewrite !skipn_length; lia).
  assert (E : bval bs = bval (firstn off bs ++ firstn w (skipn off bs) ++ skipn (off + w) bs))
    by (f_equal; apply split3).
  rewrite E.
  rewrite !bval_app, bval_zbits, !app_length, length_zbits.
  rewrite L1, L2. ring.
Qed.

(* ------------------------------------------------------------------------------------------ *)
(* locality: a slice inside bytes k .. k+n-1                                                   *)

Lemma rfc_get_local k n o w buf : (k + n <= length buf)%nat -> (o + w <= 8 * n)%nat ->
  rfc_get (8 * k + o) w buf = rfc_get o w (firstn n (skipn k buf)).
Proof.
  intros Hk Ho. unfold rfc_get.
  rewrite (split3 k n buf) at 1. rewrite !bits_app.
  set (a := bits_of_bytes (firstn k buf)). set (m := bits_of_bytes (firstn n (skipn k buf))).
  set (c := bits_of_bytes (skipn (k + n) buf)).
  assert (La : length a = (8 * k)%nat) by (unfold a; rewrite length_bits, firstn_length; lia).
  assert (Lm : length m = (8 * n)%nat) by (unfold m; rewrite length_bits, firstn_length, skipn_length; lia).
  rewrite <- La. rewrite skipn_app_ge.
  rewrite skipn_app_le by lia.
  rewrite firstn_app_le by (rewrite skipn_length; lia). reflexivity.
Qed.

Lemma rfc_set_app3 k a m c o w v : length a = k -> bytes a -> bytes c -> (o + w <= 8 * length m)%nat ->
  rfc_set (8 * k + o) w v (a ++ m ++ c) = a ++ rfc_set o w v m ++ c.
Proof.
  intros Lk Ha Hc Ho. unfold rfc_set. cbv zeta. rewrite !bits_app.
  set (ba := bits_of_bytes a). set (bm := bits_of_bytes m). set (bc := bits_of_bytes c).
  assert (La : length ba = (8 * k)%nat) by (unfold ba; rewrite length_bits; lia).
  assert (Lm : length bm = (8 * length m)%nat) by (unfold bm; apply length_bits).
  rewrite <- La. rewrite firstn_app_2. rewrite <- Nat.add_assoc. rewrite skipn_app_ge.
  rewrite firstn_app_le by lia. rewrite skipn_app_le by lia.
  rewrite <- !app_assoc.
  unfold ba. rewrite bytes_of_bits_bits by assumption. f_equal.
  replace (firstn o bm ++ zbits w v ++ skipn (o + w) bm ++ bc)
    with ((firstn o bm ++ zbits w v ++ skipn (o + w) bm) ++ bc) by (rewrite <- !app_assoc; reflexivity).
  rewrite (bytes_of_bits_app (length m)) by (rewrite length_splice; lia). f_equal.
  unfold bc. apply bytes_of_bits_bits'. assumption.
Qed.

Lemma rfc_set_local k n o w v buf : bytes buf -> (k + n <= length buf)%nat -> (o + w <= 8 * n)%nat ->
  rfc_set (8 * k + o) w v buf =
  firstn k buf ++ rfc_set o w v (firstn n (skipn k buf)) ++ skipn (k + n) buf.
Proof.
  intros Hb Hk Ho.
  transitivity (rfc_set (8 * k + o) w v (firstn k buf ++ firstn n (skipn k buf) ++ skipn (k + n) buf)).
  { f_equal. apply split3. }
  apply rfc_set_app3.
  - rewrite firstn_length. lia.
  - apply bytes_firstn. assumption.
  - apply bytes_skipn. assumption.
  - rewrite firstn_length, skipn_length. lia.
Qed.

(* the two combined: what the per-field proofs use *)
Lemma rfc_get_field k n o w buf : bytes buf -> (k + n <= length buf)%nat -> (o + w <= 8 * n)%nat ->
  let m := firstn n (skipn k buf) in
  rfc_get (8 * k + o) w buf = (be_val m / 2 ^ Z.of_nat (8 * n - o - w)) mod 2 ^ Z.of_nat w.
Proof.
  intros Hb Hk Ho m. rewrite (rfc_get_local k n) by assumption. fold m.
  assert (Lm : length m = n) by (unfold m; rewrite firstn_length, skipn_length; lia).
  rewrite rfc_get_arith; rewrite ?Lm; try assumption; [reflexivity|].
  unfold m. apply bytes_firstn, bytes_skipn. assumption.
Qed.

Lemma rfc_set_field k n o w v buf : bytes buf -> (k + n <= length buf)%nat -> (o + w <= 8 * n)%nat ->
  let m := firstn n (skipn k buf) in
  let s := 2 ^ Z.of_nat (8 * n - o - w) in
  rfc_set (8 * k + o) w v buf =
  firstn k buf
  ++ be_bytes n (be_val m - ((be_val m / s) mod 2 ^ Z.of_nat w) * s + (v mod 2 ^ Z.of_nat w) * s)
  ++ skipn (k + n) buf.
Proof.
  intros Hb Hk Ho m s. rewrite (rfc_set_local k n) by assumption. fold m.
  assert (Lm : length m = n) by (unfold m; rewrite firstn_length, skipn_length; lia).
  assert (Bm : bytes m) by (unfold m; apply bytes_firstn, bytes_skipn; assumption).
  rewrite rfc_set_arith; rewrite ?Lm; try assumption.
  rewrite rfc_get_arith; rewrite ?Lm; try assumption. reflexivity.
Qed.

(* ------------------------------------------------------------------------------------------ *)
(* what it means for a getter / setter pair to implement the slice (off, w)                    *)

(* [A] is the Rust type of the field value, [valid] its range (every value of the setter's argument
   type), [enc] / [dec] its reading as an unsigned integer (identity for u8/u16/u32, `id()` / `From<u8>`
   for an enum, the big-endian value of the octets for an address).  [min] is the minimum packet size
   that `new` / `new_view` enforce.  The getter returns exactly the slice, without fault; the setter
   rewrites exactly the slice with its argument truncated to w bits, without fault. *)
Definition field_ok {A : Type} (min off w : nat) (valid : A -> Prop) (enc : A -> Z) (dec : Z -> A)
    (get : list Z -> result A) (set : A -> list Z -> result (list Z)) : Prop :=
  (off + w <= 8 * min)%nat /\
  forall buf, bytes buf -> (min <= length buf)%nat ->
    (get buf = Ok (dec (rfc_get off w buf)) /\
     valid (dec (rfc_get off w buf)) /\
     enc (dec (rfc_get off w buf)) = rfc_get off w buf) /\
    (forall a, valid a -> set a buf = Ok (rfc_set off w (enc a) buf)).

(* unsigned integer fields: the value is the integer itself, every value below [lim] = 2^(bits of the
   Rust argument type) is a legal argument *)
Definition uint_field_ok (lim : Z) (min off w : nat)
    (get : list Z -> result Z) (set : Z -> list Z -> result (list Z)) : Prop :=
  field_ok min off w (fun v => 0 <= v < lim) (fun v => v) (fun v => v) get set.

(* address fields: the value is the list of n octets *)
Definition addr_field_ok (n : nat) (min off w : nat)
    (get : list Z -> result (list Z)) (set : list Z -> list Z -> result (list Z)) : Prop :=
  field_ok min off w (fun o => bytes o /\ length o = n) be_val (be_bytes n) get set.
