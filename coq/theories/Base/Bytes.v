(* List / byte-string helper lemmas. *)
From TV Require Import Base.Result.

Lemma list_ind2 {A} (P : list A -> Prop) :
  P [] -> (forall a, P [a]) -> (forall a b t, P t -> P (a :: b :: t)) -> forall l, P l.
Proof.
  intros H0 H1 H2.
  assert (H : forall l, P l /\ forall a, P (a :: l)).
  { induction l as [|x l [IH1 IH2]]; split; auto. }
  intro l; apply H.
Qed.

Lemma bytes_cons a l : bytes (a :: l) <-> 0 <= a < 256 /\ bytes l.
Proof. unfold bytes; split; [intro H; inversion H; auto | intros [? ?]; constructor; auto]. Qed.

Lemma bytes_app a b : bytes (a ++ b) <-> bytes a /\ bytes b.
Proof. unfold bytes. apply Forall_app. Qed.

Lemma bytes_firstn n l : bytes l -> bytes (firstn n l).
Proof.
  unfold bytes. revert l. induction n as [|n IH]; intros l H; [constructor|].
  destruct l; [constructor|]. inversion H; subst. cbn. constructor; auto.
Qed.

Lemma bytes_skipn n l : bytes l -> bytes (skipn n l).
Proof.
  unfold bytes. revert l. induction n as [|n IH]; intros l H; [assumption|].
  destruct l; [constructor|]. inversion H; subst. cbn. auto.
Qed.

Lemma bytes_repeat b n : 0 <= b < 256 -> bytes (repeat b n).
Proof. intros; unfold bytes; apply Forall_forall; intros x Hx; apply repeat_spec in Hx; subst; auto. Qed.

Lemma bytes_nth l i : bytes l -> 0 <= nth i l 0 < 256.
Proof.
  intros Hb. destruct (Nat.lt_ge_cases i (length l)) as [H|H].
  - unfold bytes in Hb. rewrite Forall_forall in Hb. apply Hb. apply nth_In; assumption.
  - rewrite nth_overflow by assumption. lia.
Qed.
