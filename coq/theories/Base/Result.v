(* Fault monad: Rust panics / overflows / out-of-bounds are values. *)
From Coq Require Export List ZArith Bool Lia.
Export ListNotations.
Open Scope Z_scope.

Inductive fault :=
| OutOfBounds | Overflow | Underflow | Unimplemented | Unreachable
| CapacityExceeded | MissingKey | OutOfFuel.

(* error values the Rust code returns (small enum, as compared by the correspondence) *)
Inductive error :=
| EInsufficientCapacity
| EInvalidPacketSize
| EPacket          (* trippy_packet::error::Error (insufficient buffer) *)
| EIo (k : Z)      (* IoError of kind k *)
| EProbeFailed
| EAddressInUse
| EMissingAddr
| EBadConfig
| EOther.

Inductive result (A : Type) :=
| Ok (a : A) | Err (e : error) | Fault (f : fault).
Arguments Ok {A} a.
Arguments Err {A} e.
Arguments Fault {A} f.

Definition bind {A B} (r : result A) (f : A -> result B) : result B :=
  match r with Ok a => f a | Err e => Err e | Fault x => Fault x end.
Notation "'let*' x ':=' r 'in' k" := (bind r (fun x => k))
  (at level 200, x pattern, r at level 100, k at level 200).

Definition is_fault {A} (r : result A) : bool :=
  match r with Fault _ => true | _ => false end.

(* fixed-width arithmetic with overflow as a fault *)
Definition add_w (w a b : Z) : result Z := if a + b <? w then Ok (a + b) else Fault Overflow.
Definition sub_w (a b : Z) : result Z := if b <=? a then Ok (a - b) else Fault Underflow.
Definition mul_w (w a b : Z) : result Z := if a * b <? w then Ok (a * b) else Fault Overflow.
Definition add8 := add_w 256.
Definition add16 := add_w 65536.
Definition mul8 := mul_w 256.
Definition sub16 := sub_w.

(* checked slicing: &l[a..b] *)
Definition slice {A} (a b : nat) (l : list A) : result (list A) :=
  if (a <=? b)%nat && (b <=? length l)%nat then Ok (firstn (b - a) (skipn a l)) else Fault OutOfBounds.
(* &l[a..] *)
Definition slice_from {A} (a : nat) (l : list A) : result (list A) :=
  if (a <=? length l)%nat then Ok (skipn a l) else Fault OutOfBounds.
(* l[i] *)
Definition index {A} (i : nat) (l : list A) : result A :=
  match nth_error l i with Some x => Ok x | None => Fault OutOfBounds end.

Definition bytes (l : list Z) : Prop := Forall (fun b => 0 <= b < 256) l.
