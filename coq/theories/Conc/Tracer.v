(* C20: interleaving model of Tracer {handler, snapshot, clear} around RwLock<State> (tracer.rs).
   The cell is abstracted to the list of atomic sub-updates applied since it was last empty:
   (r, k) = sub-update k of round r  (update_from_round cut at the hook's yield points). *)
From Coq Require Import List Arith Lia Bool.
Import ListNotations.

Definition atom := (nat * nat)%type.

Inductive lock := Free | Readers (n : nat) | Writer.

Inductive hstate := HIdle (r : nat) | HHold (r k : nat).      (* handler: next round / holding W with k sub-updates done *)
Inductive rstate := RIdle | RHold | RGot.                       (* snapshot(): acquire R; clone; release *)
Inductive cstate := CIdle | CHold | CDone.                      (* clear(): acquire W; store empty; release *)

Record sys := {
  lk : lock; cell : list atom;
  hd : hstate; rds : list rstate; cls : list cstate;
  base : nat;                          (* ghost: handler round index at the last completed clear *)
  obs : list (list atom * nat * nat);  (* snapshots taken: (value, base at that moment, handler round index) *)
}.

Inductive tid := TH | TR (i : nat) | TC (i : nat).

Definition hround (h : hstate) : nat := match h with HIdle r => r | HHold r _ => r end.

Fixpoint set_nth {A} (i : nat) (v : A) (l : list A) : list A :=
  match l, i with [], _ => [] | _ :: t, O => v :: t | x :: t, S i' => x :: set_nth i' v t end.

Section Model.
  (* number of rounds the tracer publishes, and number of sub-updates of each round *)
  Context (nrounds : nat) (m : nat -> nat).

  Definition tstep (s : sys) (t : tid) : sys :=
    match t with
    | TH =>
      match hd s with
      | HIdle r =>
        if (r <? nrounds) then
          match lk s with
          | Free => {| lk := Writer; cell := cell s; hd := HHold r 0; rds := rds s; cls := cls s; base := base s; obs := obs s |}
          | _ => s                              (* blocked *)
          end
        else s
      | HHold r k =>
        if (k <? m r) then
          {| lk := lk s; cell := cell s ++ [(r, k)]; hd := HHold r (S k); rds := rds s; cls := cls s; base := base s; obs := obs s |}
        else
          {| lk := Free; cell := cell s; hd := HIdle (S r); rds := rds s; cls := cls s; base := base s; obs := obs s |}
      end
    | TR i =>
      match nth_error (rds s) i with
      | Some RIdle =>
        match lk s with
        | Free => {| lk := Readers 1; cell := cell s; hd := hd s; rds := set_nth i RHold (rds s); cls := cls s; base := base s; obs := obs s |}
        | Readers n => {| lk := Readers (S n); cell := cell s; hd := hd s; rds := set_nth i RHold (rds s); cls := cls s; base := base s; obs := obs s |}
        | Writer => s
        end
      | Some RHold =>
        {| lk := lk s; cell := cell s; hd := hd s; rds := set_nth i RGot (rds s); cls := cls s; base := base s;
           obs := obs s ++ [(cell s, base s, hround (hd s))] |}
      | Some RGot =>
        {| lk := match lk s with Readers (S (S n)) => Readers (S n) | _ => Free end;
           cell := cell s; hd := hd s; rds := set_nth i RIdle (rds s); cls := cls s; base := base s; obs := obs s |}
      | None => s
      end
    | TC i =>
      match nth_error (cls s) i with
      | Some CIdle =>
        match lk s with
        | Free => {| lk := Writer; cell := cell s; hd := hd s; rds := rds s; cls := set_nth i CHold (cls s); base := base s; obs := obs s |}
        | _ => s
        end
      | Some CHold =>
        {| lk := lk s; cell := []; hd := hd s; rds := rds s; cls := set_nth i CDone (cls s); base := hround (hd s); obs := obs s |}
      | Some CDone =>
        {| lk := Free; cell := cell s; hd := hd s; rds := rds s; cls := set_nth i CIdle (cls s); base := base s; obs := obs s |}
      | None => s
      end
    end.

  Definition tinit (nr nc : nat) : sys :=
    {| lk := Free; cell := []; hd := HIdle 0; rds := repeat RIdle nr; cls := repeat CIdle nc; base := 0; obs := [] |}.

  Definition texec (nr nc : nat) (sched : list tid) : sys := fold_left tstep sched (tinit nr nc).

  (* ---- specification: the cell after applying the whole rounds i..j-1 to an empty state ---- *)
  Fixpoint subs (r k : nat) : list atom :=      (* sub-updates 0..k-1 of round r *)
    match k with O => [] | S k' => subs r k' ++ [(r, k')] end.
  Fixpoint whole (i n : nat) : list atom :=     (* rounds i .. i+n-1, each with all its sub-updates *)
    match n with O => [] | S n' => subs i (m i) ++ whole (S i) n' end.
  Definition rounds_state (i j : nat) : list atom := whole i (j - i).
End Model.
