(* C20, richer interleaving model around Conc/Tracer.v (which it contains unchanged as the component [co]):
   every lock-related move is a [tstep] of Conc/Tracer.v, so an execution here projects step by step onto an
   execution there (Proofs/TracerRichProofs.v, rexec_simulates).  Added on top:

   * a history [log] of events with the identity of the thread (snapshot() called / snapshot() returned a value /
     the handler released the lock after round r / handle_error released the lock / clear() returned);
   * the error hand-off of Tracer::run: when the run ends with an error ([fails] = true) the tracer thread executes one
     more critical section after the last round, `self.state.write().set_error(Some(..))` (tracer.rs handle_error).
     To the lock of Conc/Tracer.v it is the section number nrounds with no round sub-update; the error itself is the
     component [err] of the state here, set inside that section.  A snapshot returns the pair (round atoms, error),
     both read under the same read lock;
   * Tracer::clear as repaired (commit 70dc05f): ONE write-locked section which replaces the round data by an empty
     State and keeps the error: the clear store empties the cell of Conc/Tracer.v and leaves [err] alone;
   * the writer-waiting bit of parking_lot::RwLock: a writer (tracer thread, clearer) that finds the lock taken parks;
     a reader acquisition comes in two flavours chosen by the SCHEDULE: [XR i true] defers to a parked writer (the
     fair / writer-preferring behaviour: new readers queue behind a waiting writer), [XR i false] does not (readers
     admitted while the lock is read-held although a writer waits).  Schedules may mix both freely;
   * finite call budgets of readers and clearers (so that "all threads are done" makes sense);
   * a view of the cell per flow ([flow_view]) for the per-flow sub-updates of State::update_from_round;
   * two NEGATIVE variants of the handler ([torn_step], [cms_step]).

   Nothing here is extracted; Conc/Tracer.v stays the executable model compared with the real code. *)
From Coq Require Import List Arith Bool.
Import ListNotations.
From TV Require Import Conc.Tracer.

Inductive event :=
| EStart (i : nat)                              (* reader i called snapshot() *)
| ESnap (i : nat) (v : list atom) (e : bool)    (* the clone of reader i returned round data v and error flag e *)
| EPub (r : nat)                                (* the handler released the write lock after round r *)
| EErr                                          (* handle_error released the write lock *)
| EClr (j : nat).                               (* clear() of clearer j released the write lock (it returns) *)

Record rsys := {
  co : sys;                          (* lock, round data, program counters: exactly Conc/Tracer.v *)
  err : bool;                        (* State::error is Some(..) *)
  hpark : bool;                      (* the tracer thread is parked on the lock (writer-waiting bit) *)
  rx : list (bool * nat);            (* reader i: inside snapshot() before the acquisition? / calls left *)
  cx : list (bool * nat);            (* clearer j: parked on the lock? / calls left *)
  log : list event;
}.

(* thread labels of a schedule; the flag of a reader: does its acquisition defer to a parked writer *)
Inductive rtid := XH | XR (i : nat) (polite : bool) | XC (j : nat).

Definition ptid (t : rtid) : tid := match t with XH => TH | XR i _ => TR i | XC j => TC j end.

Definition is_free (l : lock) : bool := match l with Free => true | _ => false end.
Definition is_writer (l : lock) : bool := match l with Writer => true | _ => false end.

Section Rich.
  Context (nrounds : nat) (m : nat -> nat) (fails : bool).

  (* critical sections of the tracer thread: the rounds, then the error store if the run fails *)
  Definition nsec : nat := if fails then S nrounds else nrounds.
  Definition msec (r : nat) : nat := if r =? nrounds then 0 else m r.

  Definition cstep (c : sys) (t : tid) : sys := tstep nsec msec c t.

  Definition writer_parked (s : rsys) : bool := hpark s || existsb fst (cx s).

  Definition rstep (s : rsys) (t : rtid) : rsys :=
    match t with
    | XH =>
      match hd (co s) with
      | HIdle r =>
        if r <? nsec then
          if is_free (lk (co s))
          then {| co := cstep (co s) TH; err := err s; hpark := false; rx := rx s; cx := cx s; log := log s |}
          else {| co := co s; err := err s; hpark := true; rx := rx s; cx := cx s; log := log s |}          (* parks *)
        else s                                                                                               (* finished *)
      | HHold r k =>
        if (r =? nrounds) && negb (err s)
        then {| co := co s; err := true; hpark := hpark s; rx := rx s; cx := cx s; log := log s |}          (* set_error *)
        else {| co := cstep (co s) TH; err := err s; hpark := hpark s; rx := rx s; cx := cx s;
                log := if k <? msec r then log s else log s ++ [if r =? nrounds then EErr else EPub r] |}
      end
    | XR i polite =>
      match nth_error (rds (co s)) i with
      | Some RIdle =>
        let '(incall, bud) := nth i (rx s) (false, 0) in
        if incall then
          if (polite && writer_parked s) || is_writer (lk (co s)) then s                                    (* blocked *)
          else {| co := cstep (co s) (TR i); err := err s; hpark := hpark s; rx := set_nth i (false, bud) (rx s); cx := cx s; log := log s |}
        else
          match bud with
          | O => s                                                                                           (* finished *)
          | S b => {| co := co s; err := err s; hpark := hpark s; rx := set_nth i (true, b) (rx s); cx := cx s; log := log s ++ [EStart i] |}
          end
      | Some RHold =>
        {| co := cstep (co s) (TR i); err := err s; hpark := hpark s; rx := rx s; cx := cx s;
           log := log s ++ [ESnap i (cell (co s)) (err s)] |}
      | Some RGot =>
        {| co := cstep (co s) (TR i); err := err s; hpark := hpark s; rx := rx s; cx := cx s; log := log s |}
      | None => s
      end
    | XC j =>
      match nth_error (cls (co s)) j with
      | Some CIdle =>
        let '(_, bud) := nth j (cx s) (false, 0) in
        match bud with
        | O => s                                                                                             (* finished *)
        | S b =>
          if is_free (lk (co s))
          then {| co := cstep (co s) (TC j); err := err s; hpark := hpark s; rx := rx s; cx := set_nth j (false, b) (cx s); log := log s |}
          else {| co := co s; err := err s; hpark := hpark s; rx := rx s; cx := set_nth j (true, S b) (cx s); log := log s |}   (* parks *)
        end
      | Some CHold =>
        (* the store of clear(): the round data become empty, the error is kept *)
        {| co := cstep (co s) (TC j); err := err s; hpark := hpark s; rx := rx s; cx := cx s; log := log s |}
      | Some CDone =>
        {| co := cstep (co s) (TC j); err := err s; hpark := hpark s; rx := rx s; cx := cx s; log := log s ++ [EClr j] |}
      | None => s
      end
    end.

  (* rb / cb: the number of snapshot() / clear() calls each reader / clearer thread makes *)
  Definition rinit (rb cb : list nat) : rsys :=
    {| co := tinit (length rb) (length cb); err := false; hpark := false;
       rx := map (fun b => (false, b)) rb; cx := map (fun b => (false, b)) cb; log := [] |}.

  Definition rexec (rb cb : list nat) (sched : list rtid) : rsys := fold_left rstep sched (rinit rb cb).

  (* ---- progress: the next action of thread t is not a blocked acquisition, and t is not finished ---- *)
  Definition renabled (s : rsys) (t : rtid) : bool :=
    match t with
    | XH => match hd (co s) with HIdle r => (r <? nsec) && is_free (lk (co s)) | HHold _ _ => true end
    | XR i polite =>
      match nth_error (rds (co s)) i with
      | Some RIdle =>
        let '(incall, bud) := nth i (rx s) (false, 0) in
        if incall then negb ((polite && writer_parked s) || is_writer (lk (co s))) else negb (bud =? 0)
      | Some _ => true
      | None => false
      end
    | XC j =>
      match nth_error (cls (co s)) j with
      | Some CIdle => let '(_, bud) := nth j (cx s) (false, 0) in negb (bud =? 0) && is_free (lk (co s))
      | Some _ => true
      | None => false
      end
    end.

  Definition hdone (s : rsys) : bool := match hd (co s) with HIdle r => nsec <=? r | HHold _ _ => false end.
  Definition rdone (s : rsys) (i : nat) : bool :=
    match nth_error (rds (co s)) i with
    | Some RIdle => let '(incall, bud) := nth i (rx s) (false, 0) in negb incall && (bud =? 0)
    | Some _ => false
    | None => true
    end.
  Definition cdone (s : rsys) (j : nat) : bool :=
    match nth_error (cls (co s)) j with
    | Some CIdle => let '(_, bud) := nth j (cx s) (false, 0) in bud =? 0
    | Some _ => false
    | None => true
    end.
  Definition all_done (s : rsys) : bool :=
    hdone s && forallb (rdone s) (seq 0 (length (rds (co s)))) && forallb (cdone s) (seq 0 (length (cls (co s)))).

  (* remaining work: strictly decreases with every enabled step (Proofs/TracerLive.v).  A section costs its
     acquisition, its sub-updates and its release; the error section has the set_error store in addition *)
  Definition estore (r : nat) (e : bool) : nat := if (r =? nrounds) && negb e then 1 else 0.
  Fixpoint hwork (e : bool) (r n : nat) : nat :=
    match n with O => 0 | S n' => msec r + 2 + estore r e + hwork e (S r) n' end.
  Definition hrest (s : rsys) : nat :=
    match hd (co s) with
    | HIdle r => hwork (err s) r (nsec - r)
    | HHold r k => (msec r - k) + 1 + estore r (err s) + hwork (err s) (S r) (nsec - S r)
    end.
  Definition rrest (s : rsys) (i : nat) : nat :=
    let '(incall, bud) := nth i (rx s) (false, 0) in
    4 * bud + match nth_error (rds (co s)) i with
              | Some RIdle => if incall then 3 else 0
              | Some RHold => 2 | Some RGot => 1 | None => 0 end.
  Definition crest (s : rsys) (j : nat) : nat :=
    let '(_, bud) := nth j (cx s) (false, 0) in
    3 * bud + match nth_error (cls (co s)) j with
              | Some CHold => 2 | Some CDone => 1 | _ => 0 end.
  Fixpoint sumf (f : nat -> nat) (n : nat) : nat := match n with O => 0 | S n' => sumf f n' + f n' end.
  Definition work (s : rsys) : nat :=
    hrest s + sumf (rrest s) (length (rds (co s))) + sumf (crest s) (length (cls (co s))).

  (* ---- sequential specification: replay of the history on (round data, error) ---- *)
  Definition apply_ev (ce : list atom * bool) (ev : event) : list atom * bool :=
    let '(c, e) := ce in
    match ev with
    | EPub r => (c ++ subs r (m r), e)     (* a whole round *)
    | EErr => (c, true)                    (* the error *)
    | EClr _ => ([], e)                    (* a clear: the round data go, the error stays *)
    | _ => (c, e)
    end.
  Definition replay_from (ce : list atom * bool) (l : list event) : list atom * bool := fold_left apply_ev l ce.
  Definition replay (l : list event) : list atom * bool := replay_from ([], false) l.

  Definition is_clr (e : event) : bool := match e with EClr _ => true | _ => false end.
  Definition is_err (e : event) : bool := match e with EErr => true | _ => false end.
  Definition no_clear (l : list event) : Prop := forall j, ~ In (EClr j) l.
End Rich.

(* ---- per-flow view: tgt r k = the flow whose entry sub-update k of round r writes (None: bookkeeping such as
   the flow registry / round_flow_id / counters).  For trippy: tgt r 0 = Some 0 (update_trace_flow(default_flow_id)),
   the last sub-update writes the round's own flow. ---- *)
Definition flow_view (tgt : nat -> nat -> option nat) (f : nat) (v : list atom) : list nat :=
  map fst (filter (fun a => match tgt (fst a) (snd a) with Some g => g =? f | None => false end) v).

(* ---- NEGATIVE variant: a handler that takes the write lock per sub-update (per-flow locking): state = the
   Conc/Tracer.v state plus the number of sub-updates of the current round already applied while the handler does
   not hold the lock; readers and clearers are unchanged ---- *)
Section Torn.
  Context (nrounds : nat) (m : nat -> nat).

  Definition torn_step (sk : sys * nat) (t : tid) : sys * nat :=
    let '(s, k0) := sk in
    match t with
    | TH =>
      match hd s with
      | HIdle r =>
        if (r <? nrounds) then
          match lk s with
          | Free => ({| lk := Writer; cell := cell s; hd := HHold r k0; rds := rds s; cls := cls s; base := base s; obs := obs s |}, k0)
          | _ => sk
          end
        else sk
      | HHold r k =>
        (* one sub-update, then the lock is released *)
        if (k <? m r) then
          if (S k <? m r)
          then ({| lk := Free; cell := cell s ++ [(r, k)]; hd := HIdle r; rds := rds s; cls := cls s; base := base s; obs := obs s |}, S k)
          else ({| lk := Free; cell := cell s ++ [(r, k)]; hd := HIdle (S r); rds := rds s; cls := cls s; base := base s; obs := obs s |}, 0)
        else ({| lk := Free; cell := cell s; hd := HIdle (S r); rds := rds s; cls := cls s; base := base s; obs := obs s |}, 0)
      end
    | _ => (tstep nrounds m s t, k0)
    end.

  Definition torn_exec (nr nc : nat) (sched : list tid) : sys * nat := fold_left torn_step sched (tinit nr nc, 0).
End Torn.

(* ---- second NEGATIVE variant: a clone-modify-store handler: it clones the state under the READ lock, applies the
   round to its private copy without any lock, then stores the copy under the write lock.  State = the Conc/Tracer.v
   state plus (phase, private copy); phase 0 idle, 1 holds the read lock, 2 copy updated and read lock released,
   3 holds the write lock. ---- *)
Section Cms.
  Context (nrounds : nat) (m : nat -> nat).

  Definition cms_step (sx : sys * (nat * list atom)) (t : tid) : sys * (nat * list atom) :=
    let '(s, (ph, copy)) := sx in
    match t with
    | TH =>
      match hd s with
      | HIdle r =>
        if (r <? nrounds) then
          match ph with
          | 0 => match lk s with
                 | Free => ({| lk := Readers 1; cell := cell s; hd := hd s; rds := rds s; cls := cls s; base := base s; obs := obs s |}, (1, copy))
                 | Readers n => ({| lk := Readers (S n); cell := cell s; hd := hd s; rds := rds s; cls := cls s; base := base s; obs := obs s |}, (1, copy))
                 | Writer => sx
                 end
          | 1 => ({| lk := match lk s with Readers (S (S n)) => Readers (S n) | _ => Free end;
                     cell := cell s; hd := hd s; rds := rds s; cls := cls s; base := base s; obs := obs s |},
                  (2, cell s ++ subs r (m r)))
          | 2 => match lk s with
                 | Free => ({| lk := Writer; cell := cell s; hd := hd s; rds := rds s; cls := cls s; base := base s; obs := obs s |}, (3, copy))
                 | _ => sx
                 end
          | _ => ({| lk := Free; cell := copy; hd := HIdle (S r); rds := rds s; cls := cls s; base := base s; obs := obs s |}, (0, []))
          end
        else sx
      | HHold _ _ => sx
      end
    | _ => (tstep nrounds m s t, (ph, copy))
    end.

  Definition cms_exec (nr nc : nat) (sched : list tid) : sys * (nat * list atom) :=
    fold_left cms_step sched (tinit nr nc, (0, [])).
End Cms.
