(* Builder::build validation (builder.rs), as a boolean; plus the ranges of the Rust types. *)
From TV Require Import Base.Result Core.Types Core.TracerState.

Definition portdir_ok (c : scfg) : bool :=
  match proto c, port_direction c with
  | Udp, PdNone | Tcp, PdNone => false
  | Tcp, FixedBoth _ _ => false                                   (* rejected since the fix for C16 *)
  | Udp, FixedBoth _ _ => match multipath c with Classic => false | _ => true end   (* idem *)
  | _, _ => true
  end.

(* rejected since the fix for F14: Paris over IPv6 puts the sequence into the UDP checksum field, which must not be zero *)
Definition paris6_zero (c : scfg) : bool :=
  match proto c, multipath c with
  | Udp, Paris => is_v6 (target_addr c) && (initial_sequence c =? 0)
  | _, _ => false
  end.

Definition builder_accepts (c : scfg) : bool :=
  portdir_ok c &&
  (1 <=? first_ttl c) && (first_ttl c <=? MAX_TTL) && (max_ttl c <=? MAX_TTL) &&
  (initial_sequence c <=? MAX_INITIAL_SEQUENCE) &&
  negb (paris6_zero c).

(* Builder::build with a source address: its family must be the family of the target (F22, repaired: before, such a
   configuration was accepted and Channel::connect reached unreachable!() once tracing had started) *)
Definition source_family_ok (c : scfg) (src : option addr) : bool :=
  match src with
  | None => true
  | Some s => Bool.eqb (is_v6 s) (is_v6 (target_addr c))
  end.
Definition builder_accepts_src (c : scfg) (src : option addr) : bool :=
  builder_accepts c && source_family_ok c src.

(* every field lies in the range of its Rust type *)
Definition u8 (x : Z) : Prop := 0 <= x < 256.
Definition u16 (x : Z) : Prop := 0 <= x < 65536.
Definition portdir_wf (pd : portdir) : Prop :=
  match pd with
  | PdNone => True | FixedSrc p | FixedDest p => u16 p | FixedBoth a b => u16 a /\ u16 b
  end.
Definition cfg_wf (c : scfg) : Prop :=
  u16 (trace_identifier c) /\ u8 (first_ttl c) /\ u8 (max_ttl c) /\ u8 (max_inflight c) /\
  u16 (initial_sequence c) /\ portdir_wf (port_direction c) /\
  0 <= grace_duration c /\ 0 <= min_round_duration c /\ 0 <= max_round_duration c /\
  match max_rounds c with Some n => 1 <= n | None => True end.
