(* Model of trippy-core/src/flows.rs *)
From TV Require Import Base.Result Core.Types.

Inductive flow_entry := FUnknown | FKnown (a : addr).
Definition flow := list flow_entry.

Definition from_hops (hops : list (option addr)) : flow :=
  map (fun h => match h with Some a => FKnown a | None => FUnknown end) hops.

Inductive check_status := Match | NoMatch | MatchMerge.

(* Flow::check: zip, NoMatch on two different known addresses, count Unknown -> Known additions *)
Fixpoint check_zip (old new : flow) (additions : Z) : option Z :=
  match old, new with
  | o :: old', n :: new' =>
    match o, n with
    | FKnown a, FKnown b => if addr_eqb a b then check_zip old' new' additions else None
    | FUnknown, FKnown _ => check_zip old' new' (additions + 1)
    | _, _ => check_zip old' new' additions
    end
  | _, _ => Some additions
  end.

Definition check (self f : flow) : check_status :=
  match check_zip self f 0 with
  | None => NoMatch
  | Some additions =>
    if (length self <? length f)%nat || (0 <? additions) then MatchMerge else Match
  end.

(* Flow::merge: zip_longest *)
Fixpoint merge (self f : flow) : flow :=
  match self, f with
  | l :: self', r :: f' =>
    (match l, r with FUnknown, FKnown _ => r | _, _ => l end) :: merge self' f'
  | [], f' => f'
  | self', [] => self'
  end.

Record registry := { next_flow_id : Z; reg_flows : list (flow * Z) }.
Definition registry_new : registry := {| next_flow_id := 1; reg_flows := [] |}.

(* the loop of FlowRegistry::register over existing entries: first match wins, merge in place *)
Fixpoint find_merge (fl : list (flow * Z)) (f : flow) : option (list (flow * Z) * Z) :=
  match fl with
  | [] => None
  | (e, id) :: rest =>
    match check e f with
    | Match => Some ((e, id) :: rest, id)
    | MatchMerge => Some ((merge e f, id) :: rest, id)
    | NoMatch =>
      match find_merge rest f with
      | Some (rest', id') => Some ((e, id) :: rest', id')
      | None => None
      end
    end
  end.

Definition register (r : registry) (f : flow) : registry * Z :=
  match find_merge (reg_flows r) f with
  | Some (fl, id) => ({| next_flow_id := next_flow_id r; reg_flows := fl |}, id)
  | None => ({| next_flow_id := next_flow_id r + 1; reg_flows := reg_flows r ++ [(f, next_flow_id r)] |}, next_flow_id r)
  end.

(* look up (and merge into) an existing flow without creating a new one *)
Definition register_existing (r : registry) (f : flow) : registry * option Z :=
  match find_merge (reg_flows r) f with
  | Some (fl, id) => ({| next_flow_id := next_flow_id r; reg_flows := fl |}, Some id)
  | None => (r, None)
  end.
