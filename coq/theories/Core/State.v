(* Model of trippy-core/src/state.rs: State, FlowState, Hop, StateUpdater, is_forward_loss, nat_status.
   The f64 fields (javg, jinta, mean, m2) are exact rationals (DESIGN 3.4). *)
From Coq Require Import QArith.
From TV Require Import Base.Result Core.Types Core.Flows.
Open Scope Z_scope.

Inductive nat_status := NatNotApplicable | NatNotDetected | NatDetected.

Record hop := {
  h_ttl : Z;
  h_addrs : list (addr * Z);          (* IndexMap: insertion ordered *)
  h_sent : Z; h_recv : Z; h_failed : Z; h_fwd_lost : Z; h_bwd_lost : Z;
  h_total_time : Z;                   (* ns *)
  h_last : option Z; h_best : option Z; h_worst : option Z;
  h_jitter : option Z; h_javg : Q; h_jmax : option Z; h_jinta : Q;
  h_last_src_port : Z; h_last_dest_port : Z; h_last_sequence : Z;
  h_last_icmp : option icmp_ptype; h_last_nat : nat_status;
  h_samples : list Z; h_tos : option Z; h_exts : option exts;
  h_mean : Q; h_m2 : Q;
}.

Definition hop_default : hop := {|
  h_ttl := 0; h_addrs := []; h_sent := 0; h_recv := 0; h_failed := 0; h_fwd_lost := 0; h_bwd_lost := 0;
  h_total_time := 0; h_last := None; h_best := None; h_worst := None; h_jitter := None; h_javg := 0%Q;
  h_jmax := None; h_jinta := 0%Q; h_last_src_port := 0; h_last_dest_port := 0; h_last_sequence := 0;
  h_last_icmp := None; h_last_nat := NatNotApplicable; h_samples := []; h_tos := None; h_exts := None;
  h_mean := 0%Q; h_m2 := 0%Q |}.

Record flow_state := {
  fs_max_samples : Z; fs_lowest_ttl : Z; fs_highest_ttl : Z; fs_highest_ttl_for_round : Z;
  fs_round : option Z; fs_round_count : Z; fs_hops : list hop;
}.

Definition MAX_TTL_N : nat := 254.
Definition flow_state_new (max_samples : Z) : flow_state := {|
  fs_max_samples := max_samples; fs_lowest_ttl := 0; fs_highest_ttl := 0; fs_highest_ttl_for_round := 0;
  fs_round := None; fs_round_count := 0; fs_hops := repeat hop_default MAX_TTL_N |}.

(* FlowState::hops(): &self.hops[lowest-1 .. highest] *)
Definition fs_hops_view (f : flow_state) : result (list hop) :=
  if (fs_lowest_ttl f =? 0) || (fs_highest_ttl f =? 0) then Ok []
  else slice (Z.to_nat (fs_lowest_ttl f - 1)) (Z.to_nat (fs_highest_ttl f)) (fs_hops f).

Definition fs_is_target (f : flow_state) (h : hop) : bool := fs_highest_ttl_for_round f =? h_ttl h.
Definition fs_is_in_round (f : flow_state) (h : hop) : bool := h_ttl h <=? fs_highest_ttl_for_round f.
Definition fs_target_hop (f : flow_state) : result hop :=
  if 0 <? fs_highest_ttl_for_round f then index (Z.to_nat (fs_highest_ttl_for_round f - 1)) (fs_hops f)
  else index 0 (fs_hops f).

Definition update_round_id (f : option Z) (r : Z) : option Z :=
  match f with None => Some r | Some x => Some (Z.max x r) end.
Definition update_lowest (lowest t : Z) : Z := if lowest =? 0 then t else Z.min lowest t.

(* ---- state_updater ---- *)
Definition status_ttl (st : pstatus) : option Z :=
  match st with
  | Awaited p | Failed p => Some (p_ttl p)
  | Complete c => Some (p_ttl (c_probe c))
  | _ => None
  end.

(* is_forward_loss: skip_while (ttl <= awaited_ttl, or NotSent/Skipped); non-empty and all Awaited|Skipped *)
Fixpoint skip_le (ps : list pstatus) (t : Z) : list pstatus :=
  match ps with
  | [] => []
  | st :: rest =>
    match status_ttl st with
    | Some x => if x <=? t then skip_le rest t else ps
    | None => skip_le rest t
    end
  end.
Definition is_awaited_or_skipped (st : pstatus) : bool :=
  match st with Awaited _ | Skipped => true | _ => false end.
Definition is_forward_loss (ps : list pstatus) (awaited_ttl : Z) : bool :=
  match skip_le ps awaited_ttl with
  | [] => false
  | rem => forallb is_awaited_or_skipped rem
  end.

Definition nat_status_of (expected actual : Z) (prev : option Z) : nat_status * Z :=
  match prev with
  | Some p => if p =? actual then (NatNotDetected, p) else (NatDetected, actual)
  | None => if expected =? actual then (NatNotDetected, actual) else (NatDetected, actual)
  end.

Definition opt_min (o : option Z) (d : Z) : option Z := match o with None => Some d | Some x => Some (Z.min x d) end.
Definition opt_max (o : option Z) (d : Z) : option Z := match o with None => Some d | Some x => Some (Z.max x d) end.

(* samples.insert(0, d); if len > max { pop() } *)
Definition push_sample (max_samples : Z) (samples : list Z) (d : Z) : list Z :=
  let s := d :: samples in
  if max_samples <? Z.of_nat (length s) then removelast s else s.

Fixpoint addr_incr (l : list (addr * Z)) (a : addr) : list (addr * Z) :=
  match l with
  | [] => [(a, 1)]
  | (b, n) :: rest => if addr_eqb a b then (b, n + 1) :: rest else (b, n) :: addr_incr rest a
  end.

Definition ms (ns : Z) : Q := Qred (Qmake ns 1000000).
Definition Qabs' (q : Q) : Q := if Qle_bool 0 q then q else Qopp q.
Definition Qmax' (a b : Q) : Q := if Qle_bool a b then b else a.

(* derived figures (Hop::loss_pct, forward_loss_pct, backward_loss_pct, avg_ms, stddev_ms squared) *)
Definition pct_of (x sent : Z) : Q := if 0 <? sent then Qred (inject_Z x / inject_Z sent * 100) else 0%Q.
Definition hop_loss_pct (h : hop) : Q := pct_of (h_sent h - h_recv h) (h_sent h).
Definition hop_fwd_loss_pct (h : hop) : Q := pct_of (h_fwd_lost h) (h_sent h).
Definition hop_bwd_loss_pct (h : hop) : Q := pct_of (h_bwd_lost h) (h_sent h).
Definition hop_avg_ms (h : hop) : Q := if 0 <? h_recv h then Qred (ms (h_total_time h) / inject_Z (h_recv h)) else 0%Q.
(* stddev_ms = sqrt of this; the square root itself is outside the model *)
Definition hop_variance (h : hop) : Q := if 1 <? h_recv h then Qred (h_m2 h / inject_Z (h_recv h - 1)) else 0%Q.

(* hops[ttl - 1] with usize::from(ttl) - 1: ttl 0 or > 254 is a panic *)
Definition hop_index (t : Z) : result nat :=
  if (1 <=? t) && (t <=? 254) then Ok (Z.to_nat (t - 1)) else Fault OutOfBounds.

Fixpoint upd_hop (i : nat) (f : hop -> hop) (l : list hop) : list hop :=
  match l, i with
  | [], _ => []
  | h :: t, O => f h :: t
  | h :: t, S i' => h :: upd_hop i' f t
  end.

Definition hop_complete (max_samples : Z) (c : pcomplete) (h : hop) : hop :=
  let p := c_probe c in
  let recv := h_recv h + 1 in
  let dur := Z.max 0 (c_received c - p_sent p) in
  let dur_ms := ms dur in
  let last_ms := match h_last h with Some l => ms l | None => 0%Q end in
  let jitter_ms := Qabs' (dur_ms - last_ms) in
  let jitter_dur := Z.abs (dur - match h_last h with Some l => l | None => 0 end) in
  let javg := Qred (h_javg h + (jitter_ms - h_javg h) / (inject_Z recv)) in
  let jinta := Qred (h_jinta h + (Qmax' jitter_ms (1 # 2) - (h_jinta h + 8) / 16)) in
  let mean := Qred (h_mean h + (dur_ms - h_mean h) / (inject_Z recv)) in
  (* Welford: m2 += (x - mean_old) * (x - mean_new)  (repaired; the pinned code used mean_new twice) *)
  let m2 := Qred (h_m2 h + (dur_ms - h_mean h) * (dur_ms - mean)) in
  {| h_ttl := p_ttl p; h_addrs := addr_incr (h_addrs h) (c_host c);
     h_sent := h_sent h + 1; h_recv := recv; h_failed := h_failed h;
     h_fwd_lost := h_fwd_lost h; h_bwd_lost := h_bwd_lost h;
     h_total_time := h_total_time h + dur;
     h_last := Some dur; h_best := opt_min (h_best h) dur; h_worst := opt_max (h_worst h) dur;
     h_jitter := match h_last h with Some _ => Some jitter_dur | None => None end;
     h_javg := javg; h_jmax := opt_max (h_jmax h) jitter_dur; h_jinta := jinta;
     h_last_src_port := p_src_port p; h_last_dest_port := p_dest_port p; h_last_sequence := p_sequence p;
     h_last_icmp := Some (c_icmp c); h_last_nat := h_last_nat h;
     h_samples := push_sample max_samples (h_samples h) dur; h_tos := c_tos c; h_exts := c_exts c;
     h_mean := mean; h_m2 := m2 |}.

Definition hop_set_nat (n : nat_status) (h : hop) : hop :=
  {| h_ttl := h_ttl h; h_addrs := h_addrs h; h_sent := h_sent h; h_recv := h_recv h; h_failed := h_failed h;
     h_fwd_lost := h_fwd_lost h; h_bwd_lost := h_bwd_lost h; h_total_time := h_total_time h;
     h_last := h_last h; h_best := h_best h; h_worst := h_worst h; h_jitter := h_jitter h; h_javg := h_javg h;
     h_jmax := h_jmax h; h_jinta := h_jinta h; h_last_src_port := h_last_src_port h;
     h_last_dest_port := h_last_dest_port h; h_last_sequence := h_last_sequence h; h_last_icmp := h_last_icmp h;
     h_last_nat := n; h_samples := h_samples h; h_tos := h_tos h; h_exts := h_exts h; h_mean := h_mean h; h_m2 := h_m2 h |}.

(* Awaited / Failed: sent + 1, a zero sample, last probe details; loss counters / failed counter *)
Definition hop_unanswered (max_samples : Z) (p : probe) (failed : bool) (fwd bwd : bool) (h : hop) : hop :=
  {| h_ttl := p_ttl p; h_addrs := h_addrs h; h_sent := h_sent h + 1; h_recv := h_recv h;
     h_failed := if failed then h_failed h + 1 else h_failed h;
     h_fwd_lost := if fwd then h_fwd_lost h + 1 else h_fwd_lost h;
     h_bwd_lost := if bwd then h_bwd_lost h + 1 else h_bwd_lost h;
     h_total_time := h_total_time h; h_last := h_last h; h_best := h_best h; h_worst := h_worst h;
     h_jitter := h_jitter h; h_javg := h_javg h; h_jmax := h_jmax h; h_jinta := h_jinta h;
     h_last_src_port := p_src_port p; h_last_dest_port := p_dest_port p; h_last_sequence := p_sequence p;
     h_last_icmp := h_last_icmp h; h_last_nat := h_last_nat h;
     h_samples := push_sample max_samples (h_samples h) 0; h_tos := h_tos h; h_exts := h_exts h;
     h_mean := h_mean h; h_m2 := h_m2 h |}.

Record updater := { u_fs : flow_state; u_prev_cksum : option Z; u_fwd_loss : bool }.

Definition fs_touch (f : flow_state) (t r : Z) (hops : list hop) : flow_state :=
  {| fs_max_samples := fs_max_samples f; fs_lowest_ttl := update_lowest (fs_lowest_ttl f) t;
     fs_highest_ttl := fs_highest_ttl f; fs_highest_ttl_for_round := fs_highest_ttl_for_round f;
     fs_round := update_round_id (fs_round f) r; fs_round_count := fs_round_count f; fs_hops := hops |}.

Definition update_for_probe (all : list pstatus) (u : updater) (st : pstatus) : result updater :=
  let f := u_fs u in
  match st with
  | Complete c =>
    let p := c_probe c in
    let* i := hop_index (p_ttl p) in
    let hops1 := upd_hop i (hop_complete (fs_max_samples f) c) (fs_hops f) in
    match c_expected c, c_actual c with
    | Some e, Some a =>
      let '(ns, ck) := nat_status_of e a (u_prev_cksum u) in
      Ok {| u_fs := fs_touch f (p_ttl p) (p_round p) (upd_hop i (hop_set_nat ns) hops1);
            u_prev_cksum := Some ck; u_fwd_loss := u_fwd_loss u |}
    | _, _ =>
      Ok {| u_fs := fs_touch f (p_ttl p) (p_round p) hops1; u_prev_cksum := u_prev_cksum u; u_fwd_loss := u_fwd_loss u |}
    end
  | Awaited p =>
    let* i := hop_index (p_ttl p) in
    let bwd := u_fwd_loss u in
    let fwd := negb bwd && is_forward_loss all (p_ttl p) in
    Ok {| u_fs := fs_touch f (p_ttl p) (p_round p) (upd_hop i (hop_unanswered (fs_max_samples f) p false fwd bwd) (fs_hops f));
          u_prev_cksum := u_prev_cksum u; u_fwd_loss := u_fwd_loss u || fwd |}
  | Failed p =>
    let* i := hop_index (p_ttl p) in
    Ok {| u_fs := fs_touch f (p_ttl p) (p_round p) (upd_hop i (hop_unanswered (fs_max_samples f) p true false false) (fs_hops f));
          u_prev_cksum := u_prev_cksum u; u_fwd_loss := u_fwd_loss u |}
  | NotSent | Skipped => Ok u
  end.

Fixpoint fold_probes (all : list pstatus) (u : updater) (ps : list pstatus) : result updater :=
  match ps with
  | [] => Ok u
  | st :: rest => let* u' := update_for_probe all u st in fold_probes all u' rest
  end.

(* StateUpdater::apply *)
Definition fs_apply (f : flow_state) (r : round_rec) : result flow_state :=
  let f1 := {| fs_max_samples := fs_max_samples f; fs_lowest_ttl := fs_lowest_ttl f;
               fs_highest_ttl := Z.max (fs_highest_ttl f) (rr_largest_ttl r);
               fs_highest_ttl_for_round := rr_largest_ttl r; fs_round := fs_round f;
               fs_round_count := fs_round_count f + 1; fs_hops := fs_hops f |} in
  let* u := fold_probes (rr_probes r) {| u_fs := f1; u_prev_cksum := None; u_fwd_loss := false |} (rr_probes r) in
  Ok (u_fs u).

(* ---- State ---- *)
Record state := {
  st_max_samples : Z; st_max_flows : Z;
  st_round_flow_id : Z;
  st_flows : list (Z * flow_state);      (* HashMap<FlowId, FlowState>, kept in creation order *)
  st_registry : registry;
  st_error : option Z;
}.

Definition state_new (max_samples max_flows : Z) : state := {|
  st_max_samples := max_samples; st_max_flows := max_flows; st_round_flow_id := 0;
  st_flows := [(0, flow_state_new max_samples)]; st_registry := registry_new; st_error := None |}.

Fixpoint flows_get (l : list (Z * flow_state)) (id : Z) : option flow_state :=
  match l with [] => None | (k, v) :: rest => if k =? id then Some v else flows_get rest id end.
Fixpoint flows_set (l : list (Z * flow_state)) (id : Z) (v : flow_state) : list (Z * flow_state) :=
  match l with
  | [] => [(id, v)]
  | (k, x) :: rest => if k =? id then (k, v) :: rest else (k, x) :: flows_set rest id v
  end.

(* self.state[&flow_id]: a missing key panics *)
Definition state_flow (s : state) (id : Z) : result flow_state :=
  match flows_get (st_flows s) id with Some f => Ok f | None => Fault MissingKey end.

Definition update_trace_flow (s : state) (id : Z) (r : round_rec) : result state :=
  let f := match flows_get (st_flows s) id with Some f => f | None => flow_state_new (st_max_samples s) end in
  let* f' := fs_apply f r in
  Ok {| st_max_samples := st_max_samples s; st_max_flows := st_max_flows s; st_round_flow_id := st_round_flow_id s;
        st_flows := flows_set (st_flows s) id f'; st_registry := st_registry s; st_error := st_error s |}.

(* the flow of a round: filter_map (Awaited | Failed -> None, Complete -> host), take(largest_ttl)
   (a probe whose send failed keeps its position as an unknown hop: repaired, F20) *)
Definition round_flow (r : round_rec) : flow :=
  from_hops (firstn (Z.to_nat (rr_largest_ttl r))
    (flat_map (fun st => match st with
                         | Awaited _ | Failed _ => [None]
                         | Complete c => [Some (c_host c)]
                         | _ => [] end) (rr_probes r))).

Definition with_registry (s : state) (reg : registry) (fid : Z) : state :=
  {| st_max_samples := st_max_samples s; st_max_flows := st_max_flows s; st_round_flow_id := fid;
     st_flows := st_flows s; st_registry := reg; st_error := st_error s |}.

(* update_from_round (with the repaired saturation behaviour: at max_flows an existing matching flow is
   still found, merged and attributed; no new flow is created) *)
Definition update_from_round (s : state) (r : round_rec) : result state :=
  let fl := round_flow r in
  let* s1 := update_trace_flow s 0 r in
  if Z.of_nat (length (reg_flows (st_registry s1))) <? st_max_flows s1 then
    let '(reg, id) := register (st_registry s1) fl in
    update_trace_flow (with_registry s1 reg id) id r
  else
    match register_existing (st_registry s1) fl with
    | (reg, Some id) => update_trace_flow (with_registry s1 reg id) id r
    | (_, None) => Ok s1
    end.
