(* Model of strategy.rs: Strategy::{run, send_request, do_send, recv_response, update_round,
   publish_trace, check_trace_id, validate}, StrategyResponse::from, ProtocolStrategyResponse::from. *)
From TV Require Import Base.Result Core.Types Core.TracerState.

Inductive send_outcome := Sent | ProbeFailedO | AddressInUseO | FatalS (e : error).
Inductive recv_outcome := Timeout | Resp (r : response) | FatalR (e : error).

(* what the environment decides during one iteration of the `while !finished` loop *)
Record iter_in := {
  i_clock : list Z;              (* SystemTime::now() readings of send_request (first send, then one per re-issue) *)
  i_sends : list send_outcome;   (* results of the successive network.send_probe calls *)
  i_recv : recv_outcome;         (* result of network.recv_probe *)
  i_update : Z;                  (* SystemTime::now() in update_round *)
  i_advance : Z;                 (* SystemTime::now() in advance_round (only read when a round is published) *)
}.

Inductive event :=
| ESend (p : probe) (o : send_outcome)
| EPublish (r : round_rec).

(* ---- validate ---- *)
Definition validate_ports (pd : portdir) (sp dp : Z) : bool :=
  match pd with
  | FixedSrc s => s =? sp
  | FixedDest d => d =? dp
  | FixedBoth s d => (s =? sp) && (d =? dp)
  | PdNone => false
  end.

Definition validate (c : scfg) (d : resp_data) : bool :=
  match r_proto d with
  | PIcmp _ _ _ => true
  | PUdp _ da sp dp _ _ _ _ magic =>
    let check_magic := match multipath c, is_v6 (target_addr c) with Dublin, true => magic | _, _ => true end in
    addr_eqb (target_addr c) da && validate_ports (port_direction c) sp dp && check_magic
  | PTcp da sp dp _ =>
    addr_eqb (target_addr c) da && validate_ports (port_direction c) sp dp
  end.

(* ---- ProtocolStrategyResponse::from : (trace_id, sequence, tos, expected, actual) ---- *)
Definition proto_sresp (c : scfg) (p : proto_resp) : result (Z * Z * option Z * option Z * option Z) :=
  match p with
  | PIcmp id q tos => Ok (id, q, tos, None, None)
  | PUdp id _ sp dp tos ex ac plen _ =>
    let* q :=
      match multipath c, port_direction c, is_v6 (target_addr c) with
      | Classic, FixedDest _, _ => Ok sp
      | Classic, _, _ => Ok dp
      | Paris, _, _ => Ok ac
      | Dublin, _, false => Ok id
      | Dublin, _, true => Ok ((initial_sequence c + plen) mod 65536)   (* wrapping_add: fix for C04 *)
      end in
    let '(e, a) := match multipath c, is_v6 (target_addr c) with
                   | Dublin, false => (Some ex, Some ac)
                   | _, _ => (None, None)
                   end in
    Ok (0, q, tos, e, a)
  | PTcp _ sp dp tos =>
    let q := match port_direction c with FixedSrc _ => dp | _ => sp end in
    Ok (0, q, tos, None, None)
  end.

(* ---- StrategyResponse::from ---- *)
Definition strategy_resp (c : scfg) (r : response) : result sresp :=
  let mk d icmp is_target e :=
    let* (tid, q, tos, ex, ac) := proto_sresp c (r_proto d) in
    Ok {| sr_icmp := icmp; sr_trace_id := tid; sr_sequence := q; sr_tos := tos; sr_expected := ex;
          sr_actual := ac; sr_received := r_recv d; sr_addr := r_addr d; sr_is_target := is_target;
          sr_exts := e |} in
  match r with
  | RTimeExceeded d code e => mk d (ITimeExceeded code) (addr_eqb (r_addr d) (target_addr c)) e
  | RDestUnreach d code e => mk d (IUnreachable code) (addr_eqb (r_addr d) (target_addr c)) e
  | REchoReply d code => mk d (IEchoReply code) true None
  | RTcpReply d | RTcpRefused d => mk d INotApplicable true None
  end.

Definition check_trace_id (c : scfg) (tid : Z) : bool := (trace_identifier c =? tid) || (tid =? 0).

(* ---- send_request ---- *)
Definition hd_clock (l : list Z) (dflt : Z) : Z := match l with x :: _ => x | [] => dflt end.

(* unwrap_or(first_ttl - 1) baseline (fix for first_ttl >= max_inflight) *)
Definition inflight_base (c : scfg) (s : tstate) : Z :=
  match max_received_ttl s with Some m => m | None => Z.max 0 (first_ttl c - 1) end.

Definition can_send (c : scfg) (s : tstate) : result bool :=
  let* can_ttl :=
    match target_ttl s with
    | Some t => Ok (ttl s <=? t)
    | None => let* d := sub_w (ttl s) (inflight_base c s) in Ok (d <=? max_inflight c)
    end in
  Ok (negb (target_found s) && (ttl s <=? max_ttl c) && can_ttl).

(* do_send: returns the new state, whether the caller must re-issue (AddressInUse), or a fatal error *)
Inductive send_res := SDone (s : tstate) | SInUse (s : tstate) | SErr (e : error).
Definition do_send (s : tstate) (o : send_outcome) : result send_res :=
  match o with
  | Sent => Ok (SDone s)
  | ProbeFailedO => let* s' := fail_probe s in Ok (SDone s')
  | AddressInUseO => Ok (SInUse s)
  | FatalS e => Ok (SErr e)
  end.

Definition hd_send (l : list send_outcome) : send_outcome := match l with o :: _ => o | [] => Sent end.

(* the TCP `while let Err(err) = do_send(..)` loop; structural on the list of send outcomes *)
Fixpoint tcp_reissue_loop (c : scfg) (s : tstate) (p : probe) (sends : list send_outcome) (clk : list Z) (last : Z)
  : result (tstate * list event * option error) :=
  match sends with
  | [] => Ok (s, [ESend p Sent], None)
  | o :: rest =>
    let* r := do_send s o in
    match r with
    | SDone s' => Ok (s', [ESend p o], None)
    | SErr e => Ok (s, [ESend p o], Some e)
    | SInUse s' =>
      let* cap := round_has_capacity s' in
      if cap then
        let now := hd_clock clk last in
        let* (p', s'') := reissue_probe c s' now in
        let* (s3, ev, err) := tcp_reissue_loop c s'' p' rest (tl clk) now in
        Ok (s3, ESend p o :: ev, err)
      else Ok (s', [ESend p o], Some EInsufficientCapacity)
    end
  end.

Definition send_request (c : scfg) (s : tstate) (i : iter_in) : result (tstate * list event * option error) :=
  let* ok := can_send c s in
  if negb ok then Ok (s, [], None) else
  let sent := hd_clock (i_clock i) (round_start s) in
  match proto c with
  | Icmp | Udp =>
    let* (p, s1) := next_probe c s sent in
    let o := hd_send (i_sends i) in
    let* r := do_send s1 o in
    match r with
    | SDone s2 => Ok (s2, [ESend p o], None)
    | SInUse s2 => Ok (s2, [ESend p o], Some EAddressInUse)
    | SErr e => Ok (s1, [ESend p o], Some e)
    end
  | Tcp =>
    let* cap := round_has_capacity s in
    if negb cap then Ok (s, [], Some EInsufficientCapacity) else
    let* (p, s1) := next_probe c s sent in
    match i_sends i with
    | [] => Ok (s1, [ESend p Sent], None)
    | sends => tcp_reissue_loop c s1 p sends (tl (i_clock i)) sent
    end
  end.

(* ---- recv_response ---- *)
Definition recv_response (c : scfg) (s : tstate) (i : iter_in) : result (tstate * option error) :=
  match i_recv i with
  | FatalR e => Ok (s, Some e)
  | Timeout => Ok (s, None)
  | Resp r =>
    if validate c (resp_data_of r) then
      let* sr := strategy_resp c r in
      if check_trace_id c (sr_trace_id sr) && in_round s (sr_sequence sr) then
        let* s' := complete_probe s sr in Ok (s', None)
      else Ok (s, None)
    else Ok (s, None)
  end.

(* ---- update_round / publish_trace ---- *)
Definition dur_since (later earlier : Z) : Z := Z.max 0 (later - earlier).   (* duration_since().unwrap_or_default() *)
Definition exceeds (start : option Z) (e d : Z) : bool :=
  match start with Some st => d <? dur_since e st | None => false end.

Definition publish_trace (s : tstate) : result round_rec :=
  let* largest :=
    match target_ttl s with
    | Some t => Ok t
    | None =>
      match max_received_ttl s with
      | None => Ok 0
      | Some m =>
        let* max_sent := sub_w (ttl s) 1 in
        let* m1 := add8 m 1 in
        Ok (Z.min max_sent m1)
      end
    end in
  let* ps := probes s in
  Ok {| rr_probes := ps; rr_largest_ttl := largest;
        rr_reason := if target_found s then TargetFound else RoundTimeLimitExceeded |}.

Definition should_publish (c : scfg) (s : tstate) (now : Z) : bool :=
  let d := dur_since now (round_start s) in
  let round_min := min_round_duration c <? d in
  let grace := exceeds (received_time s) now (grace_duration c) in
  let round_max := max_round_duration c <? d in
  (round_min && grace && target_found s) || round_max.

Definition update_round (c : scfg) (s : tstate) (i : iter_in) : result (tstate * list event) :=
  if should_publish c s (i_update i) then
    let* r := publish_trace s in
    let* s' := advance_round c s (first_ttl c) (i_advance i) in
    Ok (s', [EPublish r])
  else Ok (s, []).

(* ---- one loop iteration; run ---- *)
Inductive outcome := Running | Finished | Failed_with (e : error) | Faulted (f : fault).

Definition step (c : scfg) (s : tstate) (i : iter_in) : result (tstate * list event * option error) :=
  let* (s1, ev1, e1) := send_request c s i in
  match e1 with
  | Some e => Ok (s1, ev1, Some e)
  | None =>
    let* (s2, e2) := recv_response c s1 i in
    match e2 with
    | Some e => Ok (s2, ev1, Some e)
    | None =>
      let* (s3, ev3) := update_round c s2 i in
      Ok (s3, ev1 ++ ev3, None)
    end
  end.

Fixpoint run_from (c : scfg) (s : tstate) (is : list iter_in) : list event * outcome * tstate :=
  if finished s (max_rounds c) then ([], Finished, s) else
  match is with
  | [] => ([], Running, s)
  | i :: rest =>
    match step c s i with
    | Fault f => ([], Faulted f, s)
    | Err e => ([], Failed_with e, s)
    | Ok (s', ev, Some e) => (ev, Failed_with e, s')
    | Ok (s', ev, None) =>
      let '(evs, o, sf) := run_from c s' rest in (ev ++ evs, o, sf)
    end
  end.

Definition run (c : scfg) (t0 : Z) (is : list iter_in) : list event * outcome * tstate :=
  run_from c (ts_new c t0) is.
