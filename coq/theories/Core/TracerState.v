(* Model of strategy.rs `mod state` (TracerState), one definition per Rust method.
   The 512-slot buffer is NOT cleared between rounds, exactly as in the code. *)
From TV Require Import Base.Result Core.Types.

Definition BUFFER_SIZE := 512.
Definition MAX_SEQUENCE := 65535 - BUFFER_SIZE.       (* u16::MAX - BUFFER_SIZE *)
Definition MAX_INITIAL_SEQUENCE := 65535 - 2 * BUFFER_SIZE.
Definition MAX_TTL := 254.

Record tstate := {
  buffer : list pstatus;
  sequence : Z;
  round_sequence : Z;
  ttl : Z;
  round : Z;
  round_start : Z;
  target_found : bool;
  max_received_ttl : option Z;
  target_ttl : option Z;
  received_time : option Z;
}.

Definition ts_new (c : scfg) (now : Z) : tstate := {|
  buffer := repeat NotSent (Z.to_nat BUFFER_SIZE);
  sequence := initial_sequence c;
  round_sequence := initial_sequence c;
  ttl := first_ttl c;
  round := 0;
  round_start := now;
  target_found := false;
  max_received_ttl := None;
  target_ttl := None;
  received_time := None;
|}.

(* list update: buffer[i] = v *)
Fixpoint upd {A} (i : nat) (v : A) (l : list A) : list A :=
  match l, i with
  | [], _ => []
  | _ :: t, O => v :: t
  | x :: t, S i' => x :: upd i' v t
  end.

(* self.buffer[i] = v, out of bounds is a panic *)
Definition buf_set (s : tstate) (i : Z) (v : pstatus) : result (list pstatus) :=
  if (0 <=? i) && (i <? Z.of_nat (length (buffer s))) then Ok (upd (Z.to_nat i) v (buffer s))
  else Fault OutOfBounds.
Definition buf_get (s : tstate) (i : Z) : result pstatus :=
  if (0 <=? i) then
    match nth_error (buffer s) (Z.to_nat i) with Some x => Ok x | None => Fault OutOfBounds end
  else Fault OutOfBounds.

Definition with_buffer (s : tstate) (b : list pstatus) : tstate := {|
  buffer := b; sequence := sequence s; round_sequence := round_sequence s; ttl := ttl s;
  round := round s; round_start := round_start s; target_found := target_found s;
  max_received_ttl := max_received_ttl s; target_ttl := target_ttl s; received_time := received_time s |}.

(* probes(): &buffer[..sequence - round_sequence]  (u16 subtraction, then slice) *)
Definition probes (s : tstate) : result (list pstatus) :=
  let* n := sub16 (sequence s) (round_sequence s) in
  slice 0 (Z.to_nat n) (buffer s).

Definition probe_at (s : tstate) (q : Z) : result pstatus :=
  let* i := sub16 q (round_sequence s) in buf_get s i.

Definition in_round (s : tstate) (q : Z) : bool :=
  (round_sequence s <=? q) && (q - round_sequence s <? BUFFER_SIZE).

Definition round_has_capacity (s : tstate) : result bool :=
  let* n := sub16 (sequence s) (round_sequence s) in Ok (n <? BUFFER_SIZE).

Definition finished (s : tstate) (mr : option Z) : bool :=
  match mr with None => false | Some n => n - 1 <? round s end.

(* round_port = ((initial_sequence as usize + round) % usize::from(u16::MAX)) as u16 *)
Definition round_port (c : scfg) (s : tstate) : Z := (initial_sequence c + round s) mod 65535.

(* probe_data: (src_port, dest_port, identifier, flags) *)
Definition probe_data (c : scfg) (s : tstate) : result (Z * Z * Z * Z) :=
  match proto c with
  | Icmp => Ok (0, 0, trace_identifier c, FLAG_NONE)
  | Udp =>
    match multipath c with
    | Classic =>
      match port_direction c with
      | FixedSrc sp => Ok (sp, sequence s, 0, FLAG_NONE)
      | FixedDest dp => Ok (sequence s, dp, 0, FLAG_NONE)
      | FixedBoth _ _ | PdNone => Fault Unimplemented
      end
    | Paris =>
      match port_direction c with
      | FixedSrc sp => Ok (sp, round_port c s, 0, FLAG_PARIS)
      | FixedDest dp => Ok (round_port c s, dp, 0, FLAG_PARIS)
      | FixedBoth sp dp => Ok (sp, dp, 0, FLAG_PARIS)
      | PdNone => Fault Unimplemented
      end
    | Dublin =>
      match port_direction c with
      | FixedSrc sp => Ok (sp, round_port c s, sequence s, FLAG_DUBLIN)
      | FixedDest dp => Ok (round_port c s, dp, sequence s, FLAG_DUBLIN)
      | FixedBoth sp dp => Ok (sp, dp, sequence s, FLAG_DUBLIN)
      | PdNone => Fault Unimplemented
      end
    end
  | Tcp =>
    match port_direction c with
    | FixedSrc sp => Ok (sp, sequence s, 0, FLAG_NONE)
    | FixedDest dp => Ok (sequence s, dp, 0, FLAG_NONE)
    | FixedBoth _ _ | PdNone => Fault Unimplemented
    end
  end.

Definition mk_probe (s : tstate) (d : Z * Z * Z * Z) (t sent : Z) : probe :=
  let '(sp, dp, id, fl) := d in
  {| p_sequence := sequence s; p_identifier := id; p_src_port := sp; p_dest_port := dp;
     p_ttl := t; p_round := round s; p_sent := sent; p_flags := fl |}.

Definition next_probe (c : scfg) (s : tstate) (sent : Z) : result (probe * tstate) :=
  let* d := probe_data c s in
  let p := mk_probe s d (ttl s) sent in
  let* i := sub16 (sequence s) (round_sequence s) in
  let* b := buf_set s i (Awaited p) in
  let* t' := add8 (ttl s) 1 in
  let* q' := add16 (sequence s) 1 in
  Ok (p, {| buffer := b; sequence := q'; round_sequence := round_sequence s; ttl := t';
            round := round s; round_start := round_start s; target_found := target_found s;
            max_received_ttl := max_received_ttl s; target_ttl := target_ttl s;
            received_time := received_time s |}).

Definition reissue_probe (c : scfg) (s : tstate) (sent : Z) : result (probe * tstate) :=
  let* i := sub16 (sequence s) (round_sequence s) in
  let* i1 := sub_w i 1 in                       (* usize probe_index - 1 *)
  let* b1 := buf_set s i1 Skipped in
  let s1 := with_buffer s b1 in
  let* d := probe_data c s1 in
  let* t1 := sub_w (ttl s) 1 in                 (* self.ttl - TimeToLive(1), u8 *)
  let p := mk_probe s1 d t1 sent in
  let* b2 := buf_set s1 i (Awaited p) in
  let* q' := add16 (sequence s) 1 in
  Ok (p, {| buffer := b2; sequence := q'; round_sequence := round_sequence s; ttl := ttl s;
            round := round s; round_start := round_start s; target_found := target_found s;
            max_received_ttl := max_received_ttl s; target_ttl := target_ttl s;
            received_time := received_time s |}).

Definition fail_probe (s : tstate) : result tstate :=
  let* i := sub16 (sequence s) (round_sequence s) in
  let* i1 := sub_w i 1 in
  let* st := buf_get s i1 in
  match st with
  | Awaited p => let* b := buf_set s i1 (Failed p) in Ok (with_buffer s b)
  | _ => Fault Unreachable
  end.

(* StrategyResponse (strategy.rs) *)
Record sresp := {
  sr_icmp : icmp_ptype; sr_trace_id : Z; sr_sequence : Z; sr_tos : option Z;
  sr_expected : option Z; sr_actual : option Z; sr_received : Z; sr_addr : addr;
  sr_is_target : bool; sr_exts : option exts;
}.

Definition complete (p : probe) (r : sresp) : pcomplete :=
  {| c_probe := p; c_host := sr_addr r; c_received := sr_received r; c_icmp := sr_icmp r;
     c_tos := sr_tos r; c_expected := sr_expected r; c_actual := sr_actual r; c_exts := sr_exts r |}.

Definition complete_probe (s : tstate) (r : sresp) : result tstate :=
  (* guard: a sequence that has not been sent in this round cannot be genuine (fix for stale slots) *)
  if sequence s <=? sr_sequence r then Ok s else
  let* st := probe_at s (sr_sequence r) in
  match st with
  | Awaited p =>
    let c := complete p r in
    let t := p_ttl p in
    let* i := sub16 (sr_sequence r) (round_sequence s) in
    let* b := buf_set s i (Complete c) in
    let tt :=
      if sr_is_target r then
        match target_ttl s with
        | None => Some t
        | Some x => if t <? x then Some t else Some x
        end
      else
        match target_ttl s with
        | Some x => if x <=? t then None else Some x
        | None => None
        end in
    let mr := match max_received_ttl s with None => Some t | Some m => Some (Z.max m t) end in
    Ok {| buffer := b; sequence := sequence s; round_sequence := round_sequence s; ttl := ttl s;
          round := round s; round_start := round_start s;
          target_found := target_found s || sr_is_target r;
          max_received_ttl := mr; target_ttl := tt; received_time := Some (sr_received r) |}
  | _ => Ok s         (* Complete: return; others: debug_assert (off in release), return *)
  end.

Definition max_sequence (c : scfg) : result Z :=
  match multipath c, is_v6 (target_addr c) with
  | Dublin, true => add16 (initial_sequence c) BUFFER_SIZE
  | _, _ => Ok MAX_SEQUENCE
  end.

Definition advance_round (c : scfg) (s : tstate) (ft now : Z) : result tstate :=
  let* m := max_sequence c in
  let q := if m <=? sequence s then initial_sequence c else sequence s in
  Ok {| buffer := buffer s; sequence := q; round_sequence := q; ttl := ft;
        round := round s + 1; round_start := now; target_found := false;
        max_received_ttl := None; target_ttl := target_ttl s; received_time := None |}.
