(* Core types: transcription of trippy-core config.rs / probe.rs / types.rs (the parts the strategy uses). *)
From TV Require Import Base.Result.

Inductive protocol := Icmp | Udp | Tcp.
Inductive mstrategy := Classic | Paris | Dublin.
Inductive portdir := PdNone | FixedSrc (p : Z) | FixedDest (p : Z) | FixedBoth (s d : Z).

Definition addr := list Z.   (* 4 octets = IPv4, 16 octets = IPv6 *)
Definition is_v6 (a : addr) : bool := (length a =? 16)%nat.

Fixpoint list_eqb (a b : list Z) : bool :=
  match a, b with
  | [], [] => true
  | x :: a', y :: b' => (x =? y) && list_eqb a' b'
  | _, _ => false
  end.
Definition addr_eqb := list_eqb.

Record scfg := {
  target_addr : addr;
  proto : protocol;
  trace_identifier : Z;
  max_rounds : option Z;          (* Some n, n >= 1 (NonZeroUsize) *)
  first_ttl : Z;
  max_ttl : Z;
  grace_duration : Z;             (* ns *)
  max_inflight : Z;
  initial_sequence : Z;
  multipath : mstrategy;
  port_direction : portdir;
  min_round_duration : Z;
  max_round_duration : Z;
}.

Definition FLAG_NONE := 0.
Definition FLAG_PARIS := 1.
Definition FLAG_DUBLIN := 2.

Record probe := {
  p_sequence : Z; p_identifier : Z; p_src_port : Z; p_dest_port : Z;
  p_ttl : Z; p_round : Z; p_sent : Z; p_flags : Z;
}.

Inductive icmp_ptype := ITimeExceeded (code : Z) | IEchoReply (code : Z) | IUnreachable (code : Z) | INotApplicable.

(* ICMP extensions are opaque to the strategy; the byte-level model supplies a canonical encoding *)
Definition exts := list Z.

Record pcomplete := {
  c_probe : probe;               (* sequence, identifier, ports, ttl, round, sent are copied *)
  c_host : addr; c_received : Z; c_icmp : icmp_ptype; c_tos : option Z;
  c_expected : option Z; c_actual : option Z; c_exts : option exts;
}.

Inductive pstatus :=
| NotSent | Skipped | Failed (p : probe) | Awaited (p : probe) | Complete (c : pcomplete).

(* responses at the Network interface (probe.rs) *)
Inductive proto_resp :=
| PIcmp (identifier sequence : Z) (tos : option Z)
| PUdp (identifier : Z) (dest_addr : addr) (src_port dest_port : Z) (tos : option Z)
       (expected actual payload_len : Z) (has_magic : bool)
| PTcp (dest_addr : addr) (src_port dest_port : Z) (tos : option Z).

Record resp_data := { r_recv : Z; r_addr : addr; r_proto : proto_resp }.

Inductive response :=
| RTimeExceeded (d : resp_data) (code : Z) (e : option exts)
| RDestUnreach (d : resp_data) (code : Z) (e : option exts)
| REchoReply (d : resp_data) (code : Z)
| RTcpReply (d : resp_data)
| RTcpRefused (d : resp_data).

Definition resp_data_of (r : response) : resp_data :=
  match r with
  | RTimeExceeded d _ _ | RDestUnreach d _ _ | REchoReply d _ | RTcpReply d | RTcpRefused d => d
  end.

Inductive reason := TargetFound | RoundTimeLimitExceeded.

Record round_rec := {
  rr_probes : list pstatus;
  rr_largest_ttl : Z;
  rr_reason : reason;
}.
