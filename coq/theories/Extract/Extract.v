(* Extraction of the executable models for the correspondence check.
   ExtrOcamlBasic only (bool, option, unit, prod, list, sumbool, sumor); Z/positive/nat/Q stay inductive. *)
From Coq Require Import Extraction ExtrOcamlBasic.
From TV Require Import Base.Result Packet.Checksum Core.Types Core.TracerState Core.Strategy Core.Flows Core.State.
From Coq Require Import QArith.
From TV Require Import Conc.Tracer.
Extraction Language OCaml.
Extraction "model.ml" fault error result
  checksum ip_checksum ipv4_header_checksum icmp_ipv4_checksum icmp_ipv6_checksum
  udp_ipv4_checksum tcp_ipv4_checksum udp_ipv6_checksum paris_udp
  run ts_new next_probe reissue_probe fail_probe complete_probe advance_round in_round round_has_capacity probes strategy_resp
  state_new update_from_round state_flow fs_hops_view fs_target_hop fs_is_target fs_is_in_round Qred Qdiv inject_Z
  tstep tinit texec obs rds cls base hd cell.
