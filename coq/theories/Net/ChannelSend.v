(* Model of crates/trippy-core/src/net/channel.rs, send side: `Channel::connect` (size guard, socket
   construction, family configuration) and `Network::send_probe` (dispatch by protocol and family,
   the bounded array of pending TCP probes).  No proofs in this file. *)
From TV Require Import Base.Result Core.Types Net.Wire Net.Sock Net.Dispatch4 Net.Dispatch6.

(* trippy_core::config::ChannelConfig (icmp_extension_parse_mode, read_timeout and
   tcp_connect_timeout do not influence the send path) *)
Record chan_cfg := {
  cc_privilege : privilege; cc_protocol : protocol;
  cc_source : addr; cc_target : addr;
  cc_packet_size : Z; cc_payload_pattern : Z; cc_initial_sequence : Z; cc_tos : Z;
}.

Inductive family_config := V4 (c : ipv4) | V6 (c : ipv6).

Definition MAX_TCP_PROBES := 256.

Record channel := {
  ch_protocol : protocol;
  ch_has_send_socket : bool;
  ch_family : family_config;
  ch_tcp_probes : Z;            (* tcp_probes.len() *)
}.

Definition make_icmp_send_socket (a : addr) (raw : bool) : M unit :=
  if is_v6 a then sock_new SkIcmp6 raw else sock_new SkIcmp4 raw.
Definition make_udp_send_socket (a : addr) (raw : bool) : M unit :=
  if is_v6 a then sock_new SkUdp6 raw else sock_new SkUdp4 raw.
Definition make_recv_socket (a : addr) (raw : bool) : M unit :=
  if is_v6 a then sock_new SkRecv6 raw else sock_new SkRecv4 raw.

(* `bo` = the result of platform::Ipv4ByteOrder::for_address; platform::startup() is a no-op on unix *)
Definition connect (bo : byte_order) (cfg : chan_cfg) : M channel :=
  if cc_packet_size cfg >? MAX_PACKET_SIZE then lift (Err EInvalidPacketSize)
  else
    let raw := match cc_privilege cfg with Privileged => true | Unprivileged => false end in
    let^ has_send := match cc_protocol cfg with
      | Icmp => let^ _ := make_icmp_send_socket (cc_source cfg) raw in mret true
      | Udp => let^ _ := make_udp_send_socket (cc_source cfg) raw in mret true
      | Tcp => mret false
      end in
    let^ _ := make_recv_socket (cc_source cfg) raw in
    let^ fam := lift (match is_v6 (cc_source cfg), is_v6 (cc_target cfg) with
      | false, false => Ok (V4 {| v4_src := cc_source cfg; v4_dest := cc_target cfg; v4_byte_order := bo;
                                 v4_packet_size := cc_packet_size cfg; v4_payload_pattern := cc_payload_pattern cfg;
                                 v4_privilege := cc_privilege cfg; v4_tos := cc_tos cfg; v4_protocol := cc_protocol cfg |})
      | true, true => Ok (V6 {| v6_src := cc_source cfg; v6_dest := cc_target cfg;
                                v6_packet_size := cc_packet_size cfg; v6_payload_pattern := cc_payload_pattern cfg;
                                v6_privilege := cc_privilege cfg; v6_protocol := cc_protocol cfg;
                                v6_initial_sequence := cc_initial_sequence cfg |})
      | _, _ => Fault Unreachable
      end) in
    mret {| ch_protocol := cc_protocol cfg; ch_has_send_socket := has_send; ch_family := fam; ch_tcp_probes := 0 |}.

Definition with_tcp_probes (ch : channel) (n : Z) : channel :=
  {| ch_protocol := ch_protocol ch; ch_has_send_socket := ch_has_send_socket ch;
     ch_family := ch_family ch; ch_tcp_probes := n |}.

Definition channel_dispatch_icmp_probe (ch : channel) (p : probe) : M unit :=
  match ch_family ch, ch_has_send_socket ch with
  | V4 c, true => dispatch_icmp_probe4 c p
  | V6 c, true => dispatch_icmp_probe6 c p
  | _, _ => lift (Fault Unreachable)
  end.

Definition channel_dispatch_udp_probe (ch : channel) (p : probe) : M unit :=
  match ch_family ch, ch_has_send_socket ch with
  | V4 c, true => dispatch_udp_probe4 c p
  | V6 c, true => dispatch_udp_probe6 c p
  | _, _ => lift (Fault Unreachable)
  end.

(* repaired code (docs/integration/C11_fix_2.patch): a full array of pending TCP probes is an error
   value before any socket is created; ArrayVec::push (which panics when full) is then never
   reached with a full array *)
Definition channel_dispatch_tcp_probe (ch : channel) (p : probe) : M channel :=
  if ch_tcp_probes ch >=? MAX_TCP_PROBES then lift (Err EInsufficientCapacity) else
  let^ _ := match ch_family ch with
            | V4 c => dispatch_tcp_probe4 c p
            | V6 c => dispatch_tcp_probe6 c p
            end in
  if ch_tcp_probes ch <? MAX_TCP_PROBES then mret (with_tcp_probes ch (ch_tcp_probes ch + 1))
  else lift (Fault CapacityExceeded).

Definition send_probe (ch : channel) (p : probe) : M channel :=
  match ch_protocol ch with
  | Icmp => let^ _ := channel_dispatch_icmp_probe ch p in mret ch
  | Udp => let^ _ := channel_dispatch_udp_probe ch p in mret ch
  | Tcp => channel_dispatch_tcp_probe ch p
  end.

(* ---- what the correspondence harness observes ---- *)
(* connect without injected errors, then one send_probe under the injected errors `inj` *)
Definition run_send (bo : byte_order) (cfg : chan_cfg) (inj : list (call * Z)) (p : probe)
    : list sockop * result unit :=
  let (w, r) := connect bo cfg {| w_ops := []; w_inject := [] |} in
  match r with
  | Ok ch =>
    let (w', r') := send_probe ch p {| w_ops := w_ops w; w_inject := inj |} in
    (w_ops w', match r' with Ok _ => Ok tt | Err e => Err e | Fault f => Fault f end)
  | Err e => (w_ops w, Err e)
  | Fault f => (w_ops w, Fault f)
  end.

(* n consecutive TCP probes on one channel without any receive in between: how many were accepted *)
Fixpoint send_many (ch : channel) (ps : list probe) (w : world) (sent : Z) : world * (Z * result unit) :=
  match ps with
  | [] => (w, (sent, Ok tt))
  | p :: t =>
    let (w', r) := send_probe ch p w in
    match r with
    | Ok ch' => send_many ch' t w' (sent + 1)
    | Err e => (w', (sent, Err e))
    | Fault f => (w', (sent, Fault f))
    end
  end.

Definition run_fill (bo : byte_order) (cfg : chan_cfg) (ps : list probe) : Z * result unit :=
  let (w, r) := connect bo cfg {| w_ops := []; w_inject := [] |} in
  match r with
  | Ok ch => snd (send_many ch ps w 0)
  | Err e => (0, Err e)
  | Fault f => (0, Fault f)
  end.
