(* Model of crates/trippy-core/src/net/ipv4.rs, send side: one definition per Rust function.
   No proofs in this file. *)
From TV Require Import Base.Result Core.Types Packet.Checksum Net.Wire Net.Sock.

Record ipv4 := {
  v4_src : addr; v4_dest : addr; v4_byte_order : byte_order;
  v4_packet_size : Z; v4_payload_pattern : Z; v4_privilege : privilege;
  v4_tos : Z; v4_protocol : protocol;
}.

(* buffer sizes, as nat (only ever used as lengths, never unfolded in proofs) *)
Definition MAX_PACKET_SIZE_N : nat := Z.to_nat MAX_PACKET_SIZE.
Definition MAX_UDP_PACKET_BUF4 : nat := Z.to_nat (MAX_PACKET_SIZE - 20).
Definition MAX_UDP_PAYLOAD_BUF4 : nat := Z.to_nat (MAX_PACKET_SIZE - 20 - 8).
Definition MAX_ICMP_PACKET_BUF4 : nat := Z.to_nat (MAX_PACKET_SIZE - 20).
Definition MAX_ICMP_PAYLOAD_BUF4 : nat := Z.to_nat (MAX_PACKET_SIZE - 20 - 8).
Definition MIN_PACKET_SIZE_ICMP4 := 28.
Definition MIN_PACKET_SIZE_UDP4 := 28.
Definition DONT_FRAGMENT := 16384.   (* 0x4000 *)

(* const fn icmp_payload_size / udp_payload_size: usize subtraction *)
Definition icmp_payload_size4 (packet_size : Z) : result Z :=
  let* a := sub_w packet_size 8 in sub_w a 20.
Definition udp_payload_size4 (packet_size : Z) : result Z :=
  let* a := sub_w packet_size 8 in sub_w a 20.

Definition make_echo_request_icmp_packet4 (c : ipv4) (icmp_buf : list Z)
    (identifier sequence : Z) (payload_size : nat) : result (list Z) :=
  let payload_buf := repeat (v4_payload_pattern c) MAX_ICMP_PAYLOAD_BUF4 in
  let packet_size := (ICMP_MIN + payload_size)%nat in
  let* b := slice 0 packet_size icmp_buf in
  let* b := echo_new b in
  let* b := echo_set_icmp_type ICMP4_ECHO_REQUEST b in
  let* b := echo_set_icmp_code 0 b in
  let* b := echo_set_identifier identifier b in
  let* pl := slice 0 payload_size payload_buf in
  let* b := echo_set_payload pl b in
  let* b := echo_set_sequence sequence b in
  echo_set_checksum (icmp_ipv4_checksum b) b.

Definition make_udp_packet4 (c : ipv4) (udp_buf : list Z) (src_port dest_port : Z)
    (payload : list Z) : result (list Z) :=
  let udp_packet_size := (UDP_MIN + length payload)%nat in
  let* b := slice 0 udp_packet_size udp_buf in
  let* b := wire_udp_new b in
  let* b := wire_udp_set_source src_port b in
  let* b := wire_udp_set_destination dest_port b in
  let* b := wire_udp_set_length (Z.of_nat udp_packet_size mod 65536) b in     (* as u16 *)
  let* b := udp_set_payload payload b in
  wire_udp_set_checksum (udp_ipv4_checksum b (v4_src c) (v4_dest c)) b.

Definition make_ipv4_packet (c : ipv4) (ipv4_buf : list Z) (protocol ttl identification : Z)
    (payload : list Z) : result (list Z) :=
  let ipv4_total_length := (Z.of_nat IPV4_MIN + Z.of_nat (length payload)) mod 65536 in   (* as u16 *)
  let ipv4_total_length_header := adjust_length (v4_byte_order c) ipv4_total_length in
  let ipv4_flags_and_fragment_offset_header := adjust_length (v4_byte_order c) DONT_FRAGMENT in
  let* b := slice 0 (Z.to_nat ipv4_total_length) ipv4_buf in
  let* b := wire_ipv4_new b in
  let* b := wire_ipv4_set_version 4 b in
  let* b := wire_ipv4_set_header_length 5 b in
  let* b := wire_ipv4_set_total_length ipv4_total_length_header b in
  let* b := wire_ipv4_set_ttl ttl b in
  let* b := wire_ipv4_set_protocol protocol b in
  let* b := wire_ipv4_set_source (v4_src c) b in
  let* b := wire_ipv4_set_destination (v4_dest c) b in
  let* b := wire_ipv4_set_tos (v4_tos c) b in
  let* b := ipv4_set_payload payload b in
  let* b := wire_ipv4_set_identification identification b in
  wire_ipv4_set_flags_and_fragment_offset ipv4_flags_and_fragment_offset_header b.

Definition dispatch_icmp_probe4 (c : ipv4) (p : probe) : M unit :=
  let ipv4_buf := repeat 0 MAX_PACKET_SIZE_N in
  let icmp_buf := repeat 0 MAX_ICMP_PACKET_BUF4 in
  let packet_size := v4_packet_size c in
  if negb ((MIN_PACKET_SIZE_ICMP4 <=? packet_size) && (packet_size <=? MAX_PACKET_SIZE))
  then lift (Err EInvalidPacketSize)
  else
    let^ ipv4 := lift (
      let* ps := icmp_payload_size4 packet_size in
      let* echo_request := make_echo_request_icmp_packet4 c icmp_buf (p_identifier p) (p_sequence p) (Z.to_nat ps) in
      make_ipv4_packet c ipv4_buf IPPROTO_ICMP (p_ttl p) 0 echo_request) in
    map_err (map_err (map_err (send_to ipv4 (v4_dest c) 0)
      (probe_failed K_HOST_UNREACHABLE)) (probe_failed K_NET_UNREACHABLE)) (probe_failed K_INVALID_INPUT).

Definition dispatch_udp_probe_raw4 (c : ipv4) (p : probe) (payload : list Z) : M unit :=
  let ipv4_buf := repeat 0 MAX_PACKET_SIZE_N in
  let udp_buf := repeat 0 MAX_UDP_PACKET_BUF4 in
  let payload_paris := to_be_bytes (p_sequence p) in
  let payload := if flag_paris p then payload_paris else payload in
  let^ ipv4 := lift (
    let* udp := make_udp_packet4 c udp_buf (p_src_port p) (p_dest_port p) payload in
    let* udp :=
      if flag_paris p then
        let* checksum := wire_udp_get_checksum udp in
        let* pl := udp_payload udp in
        let* p0 := index 0 pl in
        let* p1 := index 1 pl in
        let* udp := wire_udp_set_checksum (p0 * 256 + p1) udp in
        udp_set_payload (to_be_bytes checksum) udp
      else Ok udp in
    make_ipv4_packet c ipv4_buf IPPROTO_UDP (p_ttl p) (p_identifier p) udp) in
  map_err (map_err (send_to ipv4 (v4_dest c) (p_dest_port p))
    (probe_failed K_HOST_UNREACHABLE)) (probe_failed K_NET_UNREACHABLE).

Definition dispatch_udp_probe_non_raw4 (c : ipv4) (p : probe) (payload : list Z) : M unit :=
  let^ _ := sock_new SkUdp4 false in
  let^ _ := map_err (map_err (or_else (bind_sock (v4_src c) (p_src_port p)) in_progress) addr_in_use)
              (probe_failed K_ADDR_NOT_AVAILABLE) in
  let^ _ := set_ttl (p_ttl p) in
  let^ _ := set_tos (v4_tos c) in
  send_to payload (v4_dest c) (p_dest_port p).

Definition dispatch_udp_probe4 (c : ipv4) (p : probe) : M unit :=
  let packet_size := v4_packet_size c in
  if negb ((MIN_PACKET_SIZE_UDP4 <=? packet_size) && (packet_size <=? MAX_PACKET_SIZE))
  then lift (Err EInvalidPacketSize)
  else
    let^ payload := lift (
      let* payload_size := udp_payload_size4 packet_size in
      slice 0 (Z.to_nat payload_size) (repeat (v4_payload_pattern c) MAX_UDP_PAYLOAD_BUF4)) in
    match v4_privilege c with
    | Privileged => dispatch_udp_probe_raw4 c p payload
    | Unprivileged => dispatch_udp_probe_non_raw4 c p payload
    end.

(* returns the new stream socket in Rust; here the log is the socket *)
Definition dispatch_tcp_probe4 (c : ipv4) (p : probe) : M unit :=
  let^ _ := sock_new SkTcp4 false in
  let^ _ := map_err (map_err (or_else (bind_sock (v4_src c) (p_src_port p)) in_progress) addr_in_use)
              (probe_failed K_ADDR_NOT_AVAILABLE) in
  let^ _ := set_ttl (p_ttl p) in
  let^ _ := set_tos (v4_tos c) in
  map_err (map_err (or_else (connect_sock (v4_dest c) (p_dest_port p)) in_progress) addr_in_use)
    (probe_failed K_NET_UNREACHABLE).
