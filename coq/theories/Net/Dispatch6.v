(* Model of crates/trippy-core/src/net/ipv6.rs, send side: one definition per Rust function.
   No IPv6 header is built by the code: the kernel writes it, the hop limit is passed by
   `set_unicast_hops_v6`.  No proofs in this file. *)
From TV Require Import Base.Result Core.Types Packet.Checksum Net.Wire Net.Sock.

Record ipv6 := {
  v6_src : addr; v6_dest : addr;
  v6_packet_size : Z; v6_payload_pattern : Z; v6_privilege : privilege;
  v6_protocol : protocol; v6_initial_sequence : Z;
}.

Definition MAX_UDP_PACKET_BUF6 : nat := Z.to_nat (MAX_PACKET_SIZE - 40).
Definition MAX_UDP_PAYLOAD_BUF6 : nat := Z.to_nat (MAX_PACKET_SIZE - 40 - 8).
Definition MAX_ICMP_PACKET_BUF6 : nat := Z.to_nat (MAX_PACKET_SIZE - 40).
Definition MAX_ICMP_PAYLOAD_BUF6 : nat := Z.to_nat (MAX_PACKET_SIZE - 40 - 8).
Definition MIN_PACKET_SIZE_ICMP6 := 48.
Definition MIN_PACKET_SIZE_UDP6 := 48.
(* b"trippy" *)
Definition MAGIC : list Z := [116; 114; 105; 112; 112; 121].

Definition icmp_payload_size6 (packet_size : Z) : result Z :=
  let* a := sub_w packet_size 8 in sub_w a 40.
Definition udp_payload_size6 (packet_size : Z) : result Z :=
  let* a := sub_w packet_size 8 in sub_w a 40.

Definition make_udp_packet6 (c : ipv6) (udp_buf : list Z) (src_port dest_port : Z)
    (payload : list Z) : result (list Z) :=
  let udp_packet_size := (UDP_MIN + length payload)%nat in
  let* b := slice 0 udp_packet_size udp_buf in
  let* b := wire_udp_new b in
  let* b := wire_udp_set_source src_port b in
  let* b := wire_udp_set_destination dest_port b in
  let* b := wire_udp_set_length (Z.of_nat udp_packet_size mod 65536) b in
  let* b := udp_set_payload payload b in
  let checksum := udp_ipv6_checksum b (v6_src c) (v6_dest c) in
  (* repaired code (docs/integration/C11_fix_1.patch): a computed zero is transmitted as all ones *)
  wire_udp_set_checksum (if checksum =? 0 then 65535 else checksum) b.

Definition make_echo_request_icmp_packet6 (c : ipv6) (icmp_buf : list Z)
    (identifier sequence : Z) (payload_size : nat) : result (list Z) :=
  let payload_buf := repeat (v6_payload_pattern c) MAX_ICMP_PAYLOAD_BUF6 in
  let packet_size := (ICMP_MIN + payload_size)%nat in
  let* b := slice 0 packet_size icmp_buf in
  let* b := echo_new b in
  let* b := echo_set_icmp_type ICMP6_ECHO_REQUEST b in
  let* b := echo_set_icmp_code 0 b in
  let* b := echo_set_identifier identifier b in
  let* pl := slice 0 payload_size payload_buf in
  let* b := echo_set_payload pl b in
  let* b := echo_set_sequence sequence b in
  echo_set_checksum (icmp_ipv6_checksum b (v6_src c) (v6_dest c)) b.

Definition dispatch_icmp_probe6 (c : ipv6) (p : probe) : M unit :=
  let icmp_buf := repeat 0 MAX_ICMP_PACKET_BUF6 in
  let packet_size := v6_packet_size c in
  if negb ((MIN_PACKET_SIZE_ICMP6 <=? packet_size) && (packet_size <=? MAX_PACKET_SIZE))
  then lift (Err EInvalidPacketSize)
  else
    let^ echo_request := lift (
      let* ps := icmp_payload_size6 packet_size in
      make_echo_request_icmp_packet6 c icmp_buf (p_identifier p) (p_sequence p) (Z.to_nat ps)) in
    let^ _ := set_unicast_hops_v6 (p_ttl p) in
    send_to echo_request (v6_dest c) 0.

Definition dispatch_udp_probe_raw6 (c : ipv6) (p : probe) (payload : list Z) : M unit :=
  let udp_buf := repeat 0 MAX_UDP_PACKET_BUF6 in
  let dublin_payload := repeat (v6_payload_pattern c) MAX_UDP_PAYLOAD_BUF6 in
  let payload_paris := to_be_bytes (p_sequence p) in
  let^ udp := lift (
    let* payload :=
      if flag_paris p then Ok payload_paris
      else if flag_dublin p then
        let* payload_len := sub16 (p_sequence p) (v6_initial_sequence c) in
        let* dublin_payload := wire_set_bytes 0 MAGIC dublin_payload in
        slice 0 (Z.to_nat payload_len + length MAGIC) dublin_payload
      else Ok payload in
    let* udp := make_udp_packet6 c udp_buf (p_src_port p) (p_dest_port p) payload in
    if flag_paris p then
      let* checksum := wire_udp_get_checksum udp in
      let* pl := udp_payload udp in
      let* p0 := index 0 pl in
      let* p1 := index 1 pl in
      let* udp := wire_udp_set_checksum (p0 * 256 + p1) udp in
      udp_set_payload (to_be_bytes checksum) udp
    else Ok udp) in
  let^ _ := set_unicast_hops_v6 (p_ttl p) in
  send_to udp (v6_dest c) 0.

Definition dispatch_udp_probe_non_raw6 (c : ipv6) (p : probe) (payload : list Z) : M unit :=
  let^ _ := sock_new SkUdp6 false in
  let^ _ := map_err (or_else (bind_sock (v6_src c) (p_src_port p)) in_progress) addr_in_use in
  let^ _ := set_unicast_hops_v6 (p_ttl p) in
  send_to payload (v6_dest c) (p_dest_port p).

Definition dispatch_udp_probe6 (c : ipv6) (p : probe) : M unit :=
  let packet_size := v6_packet_size c in
  if negb ((MIN_PACKET_SIZE_UDP6 <=? packet_size) && (packet_size <=? MAX_PACKET_SIZE))
  then lift (Err EInvalidPacketSize)
  else
    let^ payload := lift (
      let* payload_size := udp_payload_size6 packet_size in
      slice 0 (Z.to_nat payload_size) (repeat (v6_payload_pattern c) MAX_UDP_PAYLOAD_BUF6)) in
    match v6_privilege c with
    | Privileged => dispatch_udp_probe_raw6 c p payload
    | Unprivileged => dispatch_udp_probe_non_raw6 c p payload
    end.

Definition dispatch_tcp_probe6 (c : ipv6) (p : probe) : M unit :=
  let^ _ := sock_new SkTcp6 false in
  let^ _ := map_err (or_else (bind_sock (v6_src c) (p_src_port p)) in_progress) addr_in_use in
  let^ _ := set_unicast_hops_v6 (p_ttl p) in
  map_err (or_else (connect_sock (v6_dest c) (p_dest_port p)) in_progress) addr_in_use.
