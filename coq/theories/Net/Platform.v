(* The part of net/platform/unix.rs that is logic: how SocketImpl::is_readable / is_writable turn the result of select(2) into
   what the channel sees.  (The system calls themselves are outside every model; the harness mode `platform` runs the real
   SocketImpl on loopback sockets and under a stream of signals, and compares what it returns with these functions.)
   No proofs in this file. *)
From TV Require Import Base.Result Core.Types.

(* what select(2) returned: the number of ready descriptors, or an errno *)
Inductive select_ret := SelCount (n : Z) | SelErrno (e : Z).

Definition EINTR : Z := 4.

(* is_readable: Ok(readable == 1) | Err(EINTR) => Ok(false) | Err(e) => Err(IoError::Other(e, Select)) *)
Definition is_readable_of (r : select_ret) : result bool :=
  match r with
  | SelCount n => Ok (n =? 1)
  | SelErrno e => if e =? EINTR then Ok false else Err (EIo e)
  end.

(* is_writable: the same mapping with a zero timeout *)
Definition is_writable_of (r : select_ret) : result bool := is_readable_of r.

(* a wait that is interrupted k times and then times out / becomes ready, as the loop of the strategy sees it: one result per call *)
Definition waits (rs : list select_ret) : list (result bool) := map is_readable_of rs.
