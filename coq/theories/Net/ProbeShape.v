(* What net/ipv4.rs dispatch_icmp_probe / dispatch_udp_probe(_raw|_non_raw) and net/ipv6.rs
   dispatch_icmp_probe / dispatch_udp_probe(_raw|_non_raw) hand to `send_to`, written with the datagram
   constructors of Net/RfcPeer.v.  This is the minimum needed to tie the probe shapes used by the C02
   theorems to the code (correspondence lines `probe ...`); the full model of the send side (socket
   options, error mapping, TCP) belongs to C11.  No proofs in this file. *)
From TV Require Import Base.Result Core.Types Packet.Checksum Net.RecvCommon Net.RfcPeer.

Definition has_flag (flags f : Z) : bool := Z.odd (flags / f).     (* f = 1: PARIS_CHECKSUM, f = 2: DUBLIN_IPV6_PAYLOAD_LENGTH *)
Definition pattern_payload (c : rcfg) (n : Z) : list Z := repeat (rc_pattern c) (Z.to_nat n).
Definition drop (n : Z) (l : list Z) : list Z := skipn (Z.to_nat n) l.

(* the UDP datagram built by dispatch_udp_probe_raw (family given by the addresses) *)
Definition udp_wire (c : rcfg) (sp dp seq : Z) (paris : bool) (payload : list Z) : list Z :=
  if paris then
    let u := paris_udp sp dp seq (rc_src c) (rc_dest c) in
    (* ipv6.rs make_udp_packet sends a computed zero as 0xFFFF before the Paris swap moves it into the payload *)
    if is_v6 (rc_dest c) && (get_word 4 u =? 0) then put_word 4 65535 u else u
  else
    let u0 := udp_dgram sp dp 0 payload in
    let ck := ip_checksum u0 3 (rc_src c) (rc_dest c) 17 in
    (* ipv6.rs make_udp_packet: a computed checksum of zero is sent as 0xFFFF (RFC 8200 section 8.1) *)
    udp_dgram sp dp (if is_v6 (rc_dest c) && (ck =? 0) then 65535 else ck) payload.

Definition probe_sendto (c : rcfg) (size tos initseq seq tid sp dp ttl flags : Z) : result (list Z) :=
  let v6 := is_v6 (rc_dest c) in
  let iph := if v6 then 40 else 20 in
  if (size <? iph + 8) || (1024 <? size) then Err EInvalidPacketSize else
  let payload := pattern_payload c (size - iph - 8) in
  match rc_proto c with
  | Icmp =>
    if v6 then
      let e0 := icmp_echo 128 0 tid seq payload in
      Ok (icmp_echo 128 (icmp_ipv6_checksum e0 (rc_src c) (rc_dest c)) tid seq payload)
    else
      let e0 := icmp_echo 8 0 tid seq payload in
      Ok (icmp4_probe (rc_src c) (rc_dest c) tos ttl 0 tid seq (icmp_ipv4_checksum e0) payload)
  | Udp =>
    if negb (rc_privileged c) then Ok payload else
    if v6 then
      if has_flag flags 1 then Ok (udp_wire c sp dp seq true [])
      else if has_flag flags 2 then
        let* n := sub16 seq initseq in
        if 976 <? n + 6 then Fault OutOfBounds else
        Ok (udp_wire c sp dp seq false (dublin6_payload (rc_pattern c) n))
      else Ok (udp_wire c sp dp seq false payload)
    else
      let u := udp_wire c sp dp seq (has_flag flags 1) payload in
      Ok (ipv4_hdr tos (20 + zlen u) tid DONT_FRAGMENT ttl 17 0 (rc_src c) (rc_dest c) [] ++ u)
  | Tcp => Err EOther
  end.
