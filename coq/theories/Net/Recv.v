(* Receive path of net/channel.rs: Channel::recv_probe, recv_icmp_probe, recv_tcp_sockets.
   No proofs in this file. *)
From TV Require Import Base.Result Core.Types Core.TracerState Core.Strategy Net.RecvCommon Net.Recv4 Net.Recv6.

(* Channel::recv_icmp_probe: is_readable(read_timeout)?, then the family's recv_icmp_probe *)
Definition recv_icmp_probe (c : rcfg) (now : Z) (rd : readable) : result (option response) :=
  match rd with
  | SelectError k => Err (EIo k)
  | NotReadable => Ok None
  | Readable r => if is_v6 (rc_dest c) then recv_icmp_probe6 c now r else recv_icmp_probe4 c now r
  end.

(* Channel::recv_tcp_sockets: [found] is the first probe socket that is writable after the expired ones
   were dropped (retain + find_map), with the ports recorded at dispatch *)
Definition recv_tcp_sockets (c : rcfg) (now : Z) (found : option (tcp_outcome * Z * Z)) : result (option response) :=
  match found with
  | None => Ok None
  | Some (o, sp, dp) => recv_tcp_socket c now o sp dp
  end.

(* Network::recv_probe *)
Definition recv_probe (c : rcfg) (now : Z) (found : option (tcp_outcome * Z * Z)) (rd : readable)
  : result (option response) :=
  match rc_proto c with
  | Icmp | Udp => recv_icmp_probe c now rd
  | Tcp =>
    let* r := recv_tcp_sockets c now found in
    match r with
    | None => recv_icmp_probe c now rd
    | Some x => Ok (Some x)
    end
  end.

(* the strategy side of one delivery, as far as it depends on the response alone (Strategy::recv_response
   without the in_round test): (validate && check_trace_id, sequence, trace id) *)
Definition accept_info (sc : scfg) (r : response) : result (bool * Z * Z) :=
  let* sr := strategy_resp sc r in
  Ok (validate sc (resp_data_of r) && check_trace_id sc (sr_trace_id sr), sr_sequence sr, sr_trace_id sr).

(* "the tracer recognises [r] as the response to the probe with sequence [q]" - the gate of
   Strategy::recv_response that depends on the response alone (the remaining test, in_round, and the
   completion of exactly that probe's slot are the subject of C03 / C07) *)
Definition recognised (sc : scfg) (r : response) (q : Z) : Prop :=
  validate sc (resp_data_of r) = true /\
  exists sr, strategy_resp sc r = Ok sr /\ check_trace_id sc (sr_trace_id sr) = true /\ sr_sequence sr = q.

(* "never accepted": the gate is closed whatever the sequence *)
Definition rejected (sc : scfg) (r : response) : Prop :=
  validate sc (resp_data_of r) = false \/
  exists sr, strategy_resp sc r = Ok sr /\ check_trace_id sc (sr_trace_id sr) = false.
