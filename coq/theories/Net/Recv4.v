(* Receive path, IPv4.  Transcription of trippy-core/src/net/ipv4.rs
     recv_icmp_probe, extract_probe_resp, extract_probe_proto_resp, extract_echo_request,
     extract_udp_packet, extract_tcp_packet, calc_udp_checksum, make_udp_packet
   and of the trippy-packet views they call (ipv4.rs Ipv4Packet, icmpv4.rs IcmpPacket /
   TimeExceededPacket / DestinationUnreachablePacket / EchoReplyPacket / EchoRequestPacket).
   REPAIRED behaviour is modelled at three places (docs/integration/C04.md):
     Ipv4Packet::payload()            empty slice when IHL*4 >= buffer length   (was: slice panic)
     split_payload_extension          usize::from(get_length()) * 4             (was: u8 multiplication)
     extract_udp_packet               get_length().saturating_sub(8)            (was: u16 subtraction)
   No proofs in this file. *)
From TV Require Import Base.Result Core.Types Packet.Checksum Net.RecvCommon.

(* ---- trippy-packet ipv4.rs *)
Definition ipv4_get_header_length (b : list Z) : result Z := let* x := read 0 b in Ok (x mod 16).
(* ipv4_options_length: (ihl * 4).saturating_sub(20) *)
Definition ipv4_options_length (b : list Z) : result Z :=
  let* ihl := ipv4_get_header_length b in Ok (Z.max 0 (ihl * 4 - 20)).
(* Ipv4Packet::payload (repaired) *)
Definition ipv4_payload (b : list Z) : result (list Z) :=
  let* ol := ipv4_options_length b in
  let start := 20 + ol in
  if zlen b <=? start then Ok [] else zslice_from start b.
(* get_tos = (get_dscp() << 2) | get_ecn() *)
Definition ipv4_get_tos (b : list Z) : result Z :=
  let* x := read 1 b in Ok ((x / 4) * 4 + x mod 4).
Definition ipv4_get_protocol (b : list Z) : result Z := read 9 b.
Definition ipv4_get_identification (b : list Z) : result Z := get_u16 4 b.
Definition ipv4_get_source (b : list Z) : result addr := zslice 12 16 b.
Definition ipv4_get_destination (b : list Z) : result addr := zslice 16 20 b.

(* ---- trippy-packet icmpv4.rs TimeExceededPacket / DestinationUnreachablePacket (LENGTH_OFFSET = 5) *)
Definition split_payload_extension4 (pk : list Z) : result (list Z * option (list Z)) :=
  let* l := read 5 pk in
  let len := l * 4 in                            (* repaired: widened before multiplying *)
  let* ip := zslice_from 8 pk in
  split len ip.
Definition err_payload4 (pk : list Z) : result (list Z) :=
  let* pe := split_payload_extension4 pk in Ok (fst pe).
Definition err_extension4 (pk : list Z) : result (option (list Z)) :=
  let* pe := split_payload_extension4 pk in Ok (snd pe).
Definition err_payload_raw (pk : list Z) : result (list Z) := zslice_from 8 pk.

(* ---- net/ipv4.rs *)
Definition extract_echo_request4 (ipv4 : list Z) : result (list Z) :=
  let* p := ipv4_payload ipv4 in new_view 8 p.

(* (src_port, dest_port, checksum, identification, payload_length) *)
Definition extract_udp_packet4 (ipv4 : list Z) : result (Z * Z * Z * Z * Z) :=
  let* p := ipv4_payload ipv4 in
  let* n := new_view 8 p in
  let* sp := get_u16 0 n in
  let* dp := get_u16 2 n in
  let* ck := get_u16 6 n in
  let* id := ipv4_get_identification ipv4 in
  let* len := get_u16 4 n in
  Ok (sp, dp, ck, id, Z.max 0 (len - 8)).        (* repaired: saturating_sub *)

Definition extract_tcp_packet4 (ipv4 : list Z) : result (Z * Z) :=
  let* p := ipv4_payload ipv4 in
  let buf := if zlen p <? 20 then p ++ repeat 0 (Z.to_nat (20 - zlen p)) else p in
  let* t := new_view 20 buf in
  let* sp := get_u16 0 t in
  let* dp := get_u16 2 t in
  Ok (sp, dp).

(* make_udp_packet: &mut udp_buf[..8 + payload.len()] with udp_buf of MAX_UDP_PACKET_BUF = 1004 octets *)
Definition make_udp_packet4 (c : rcfg) (sp dp : Z) (payload : list Z) : result (list Z) :=
  let size := 8 + zlen payload in
  if 1004 <? size then Fault OutOfBounds else
  let u0 := be_bytes sp ++ be_bytes dp ++ be_bytes (size mod 65536) ++ [0; 0] ++ payload in
  Ok (put_word 3 (udp_ipv4_checksum u0 (rc_src c) (rc_dest c)) u0).

(* calc_udp_checksum: MAX_UDP_PAYLOAD_BUF = 996 *)
Definition calc_udp_checksum4 (c : rcfg) (sp dp payload_size : Z) : result Z :=
  let size := Z.min payload_size 996 in
  let payload := repeat (rc_pattern c) (Z.to_nat size) in
  let* u := make_udp_packet4 c sp dp payload in
  get_u16 6 u.

Definition extract_probe_proto_resp4 (c : rcfg) (ipv4 : list Z) : result (option proto_resp) :=
  let* pn := ipv4_get_protocol ipv4 in
  match rc_proto c with
  | Icmp =>
    if pn =? 1 then
      let* e := extract_echo_request4 ipv4 in
      let* id := get_u16 4 e in
      let* sq := get_u16 6 e in
      let* tos := ipv4_get_tos ipv4 in
      Ok (Some (PIcmp id sq (Some tos)))
    else Ok None
  | Udp =>
    if pn =? 17 then
      let* (sp, dp, ck, id, plen) := extract_udp_packet4 ipv4 in
      let* ex := calc_udp_checksum4 c sp dp plen in
      let* da := ipv4_get_destination ipv4 in
      let* tos := ipv4_get_tos ipv4 in
      Ok (Some (PUdp id da sp dp (Some tos) ex ck plen false))
    else Ok None
  | Tcp =>
    if pn =? 6 then
      let* (sp, dp) := extract_tcp_packet4 ipv4 in
      let* da := ipv4_get_destination ipv4 in
      let* tos := ipv4_get_tos ipv4 in
      Ok (Some (PTcp da sp dp (Some tos)))
    else Ok None
  end.

Definition extract_probe_resp4 (c : rcfg) (now : Z) (ipv4 : list Z) : result (option response) :=
  let* src := ipv4_get_source ipv4 in
  let* pl := ipv4_payload ipv4 in
  let* icmp := new_view 8 pl in                  (* IcmpPacket::new_view *)
  let* ty := read 0 icmp in
  let* code := read 1 icmp in
  if ty =? 11 then                               (* TimeExceeded *)
    if code =? 0 then                            (* TtlExpired *)
      let* pk := new_view 8 icmp in
      let* ne :=
        if rc_ext c then
          let* p := err_payload4 pk in
          let* n := new_view 20 p in
          let* e0 := err_extension4 pk in
          let* e := ext_of e0 in
          Ok (n, e)
        else
          let* p := err_payload_raw pk in
          let* n := new_view 20 p in
          Ok (n, None) in
      let* pr := extract_probe_proto_resp4 c (fst ne) in
      Ok (option_map (fun p => RTimeExceeded (mk_resp_data now src p) code (snd ne)) pr)
    else Ok None
  else if ty =? 3 then                           (* DestinationUnreachable *)
    let* pk := new_view 8 icmp in
    let* p := err_payload4 pk in
    let* n := new_view 20 p in
    let* e := if rc_ext c then (let* e0 := err_extension4 pk in ext_of e0) else Ok None in
    let* pr := extract_probe_proto_resp4 c n in
    Ok (option_map (fun p => RDestUnreach (mk_resp_data now src p) code e) pr)
  else if ty =? 0 then                           (* EchoReply *)
    match rc_proto c with
    | Icmp =>
      let* pk := new_view 8 icmp in
      let* id := get_u16 4 pk in
      let* sq := get_u16 6 pk in
      Ok (Some (REchoReply (mk_resp_data now src (PIcmp id sq None)) code))
    | _ => Ok None
    end
  else Ok None.

(* Ipv4::recv_icmp_probe: recv_socket.read(&mut buf) with buf of MAX_PACKET_SIZE octets *)
Definition recv_icmp_probe4 (c : rcfg) (now : Z) (r : sock_read) : result (option response) :=
  match r with
  | SrData bytes _ =>
    let buf := ztake MAX_PACKET_SIZE bytes in
    let* ipv4 := new_view 20 buf in
    extract_probe_resp4 c now ipv4
  | SrWouldBlock => Ok None
  | SrError k => Err (EIo k)
  end.

(* the entry point used by the theorems and the correspondence: one datagram on the raw socket *)
Definition recv4 (c : rcfg) (now : Z) (bytes : list Z) : result (option response) :=
  recv_icmp_probe4 c now (SrData bytes None).
