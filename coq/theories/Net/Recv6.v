(* Receive path, IPv6.  Transcription of trippy-core/src/net/ipv6.rs
     recv_icmp_probe, extract_probe_resp, extract_probe_proto_resp, extract_echo_request,
     extract_udp_packet, extract_tcp_packet, udp_payload_has_magic_prefix
   and of the trippy-packet views they call (ipv6.rs Ipv6Packet, icmpv6.rs, udp.rs, tcp.rs).
   REPAIRED behaviour is modelled at three places (docs/integration/C04.md):
     split_payload_extension          usize::from(get_length()) * 8                  (was: u8 multiplication)
     extract_udp_packet               get_length().saturating_sub(8)                 (was: u16 subtraction)
     extract_probe_proto_resp         has_magic only if payload_len.checked_sub(6)   (was: u16 subtraction)
   No proofs in this file. *)
From TV Require Import Base.Result Core.Types Packet.Checksum Net.RecvCommon.

(* MAGIC = b"trippy" *)
Definition MAGIC : list Z := [116; 114; 105; 112; 112; 121].

(* ---- trippy-packet ipv6.rs *)
Definition ipv6_get_payload_length (b : list Z) : result Z := get_u16 4 b.
Definition ipv6_get_next_header (b : list Z) : result Z := read 6 b.
(* ((b0 & 0xf) << 4) | ((b1 & 0xf0) >> 4) *)
Definition ipv6_get_traffic_class (b : list Z) : result Z :=
  let* b0 := read 0 b in let* b1 := read 1 b in Ok ((b0 mod 16) * 16 + (b1 / 16) mod 16).
Definition ipv6_get_destination_address (b : list Z) : result addr := zslice 24 40 b.
(* Ipv6Packet::payload: &buf[40 .. min(40 + payload_length, len)], empty when len <= 40 *)
Definition ipv6_payload (b : list Z) : result (list Z) :=
  let* pl := ipv6_get_payload_length b in
  let e := Z.min (40 + pl) (zlen b) in
  if zlen b <=? 40 then Ok [] else zslice 40 e b.

(* ---- trippy-packet icmpv6.rs TimeExceededPacket / DestinationUnreachablePacket (LENGTH_OFFSET = 4) *)
Definition split_payload_extension6 (pk : list Z) : result (list Z * option (list Z)) :=
  let* l := read 4 pk in
  let len := l * 8 in                            (* repaired: widened before multiplying *)
  let* ip := zslice_from 8 pk in
  split len ip.
Definition err_payload6 (pk : list Z) : result (list Z) :=
  let* pe := split_payload_extension6 pk in Ok (fst pe).
Definition err_extension6 (pk : list Z) : result (option (list Z)) :=
  let* pe := split_payload_extension6 pk in Ok (snd pe).
Definition err_payload_raw6 (pk : list Z) : result (list Z) := zslice_from 8 pk.

(* ---- net/ipv6.rs *)
(* (identifier, sequence) *)
Definition extract_echo_request6 (ipv6 : list Z) : result (Z * Z) :=
  let* p := ipv6_payload ipv6 in
  let* e := new_view 8 p in
  let* id := get_u16 4 e in
  let* sq := get_u16 6 e in
  Ok (id, sq).

(* (src_port, dest_port, checksum, udp payload length) *)
Definition extract_udp_packet6 (ipv6 : list Z) : result (Z * Z * Z * Z) :=
  let* p := ipv6_payload ipv6 in
  let* u := new_view 8 p in
  let* sp := get_u16 0 u in
  let* dp := get_u16 2 u in
  let* ck := get_u16 6 u in
  let* len := get_u16 4 u in
  Ok (sp, dp, ck, Z.max 0 (len - 8)).            (* repaired: saturating_sub *)

Definition extract_tcp_packet6 (ipv6 : list Z) : result (Z * Z) :=
  let* p := ipv6_payload ipv6 in
  let* t := new_view 20 p in
  let* sp := get_u16 0 t in
  let* dp := get_u16 2 t in
  Ok (sp, dp).

(* slice::starts_with *)
Fixpoint starts_with (l p : list Z) : bool :=
  match p, l with
  | [], _ => true
  | x :: p', y :: l' => (x =? y) && starts_with l' p'
  | _ :: _, [] => false
  end.

Definition udp_payload_has_magic_prefix (ipv6 : list Z) : result bool :=
  let* p := ipv6_payload ipv6 in
  let* u := new_view 8 p in
  let* pl := zslice_from 8 u in                  (* UdpPacket::payload *)
  Ok (starts_with pl MAGIC).

Definition extract_probe_proto_resp6 (c : rcfg) (ipv6 : list Z) : result (option proto_resp) :=
  let* nh := ipv6_get_next_header ipv6 in
  match rc_proto c with
  | Icmp =>
    if nh =? 58 then
      let* (id, sq) := extract_echo_request6 ipv6 in
      let* tc := ipv6_get_traffic_class ipv6 in
      Ok (Some (PIcmp id sq (Some tc)))
    else Ok None
  | Udp =>
    if nh =? 17 then
      let* (sp, dp, ck, ulen) := extract_udp_packet6 ipv6 in
      let* prefix := udp_payload_has_magic_prefix ipv6 in
      (* repaired: match ulen.checked_sub(6) { Some(len) if prefix => (len, true), _ => (ulen, false) } *)
      let '(plen, magic) := if (6 <=? ulen) && prefix then (ulen - 6, true) else (ulen, false) in
      let* da := ipv6_get_destination_address ipv6 in
      let* tc := ipv6_get_traffic_class ipv6 in
      Ok (Some (PUdp 0 da sp dp (Some tc) ck ck plen magic))
    else Ok None
  | Tcp =>
    if nh =? 6 then
      let* (sp, dp) := extract_tcp_packet6 ipv6 in
      let* da := ipv6_get_destination_address ipv6 in
      let* tc := ipv6_get_traffic_class ipv6 in
      Ok (Some (PTcp da sp dp (Some tc)))
    else Ok None
  end.

Definition extract_probe_resp6 (c : rcfg) (now : Z) (icmp : list Z) (src : addr) : result (option response) :=
  let* ty := read 0 icmp in
  let* code := read 1 icmp in
  if ty =? 3 then                                (* TimeExceeded *)
    if code =? 0 then                            (* TtlExpired *)
      let* pk := new_view 8 icmp in
      let* ne :=
        if rc_ext c then
          let* p := err_payload6 pk in
          let* n := new_view 40 p in
          let* e0 := err_extension6 pk in
          let* e := ext_of e0 in
          Ok (n, e)
        else
          let* p := err_payload_raw6 pk in
          let* n := new_view 40 p in
          Ok (n, None) in
      let* pr := extract_probe_proto_resp6 c (fst ne) in
      Ok (option_map (fun p => RTimeExceeded (mk_resp_data now src p) code (snd ne)) pr)
    else Ok None
  else if ty =? 1 then                           (* DestinationUnreachable *)
    let* pk := new_view 8 icmp in
    let* p := err_payload6 pk in
    let* n := new_view 40 p in
    let* e := if rc_ext c then (let* e0 := err_extension6 pk in ext_of e0) else Ok None in
    let* pr := extract_probe_proto_resp6 c n in
    Ok (option_map (fun p => RDestUnreach (mk_resp_data now src p) code e) pr)
  else if ty =? 129 then                         (* EchoReply *)
    match rc_proto c with
    | Icmp =>
      let* pk := new_view 8 icmp in
      let* id := get_u16 4 pk in
      let* sq := get_u16 6 pk in
      Ok (Some (REchoReply (mk_resp_data now src (PIcmp id sq None)) code))
    | _ => Ok None
    end
  else Ok None.

(* Ipv6::recv_icmp_probe: recv_socket.recv_from(&mut buf); a sender address of the other family is `panic!()` *)
Definition recv_icmp_probe6 (c : rcfg) (now : Z) (r : sock_read) : result (option response) :=
  match r with
  | SrData bytes from =>
    let buf := ztake MAX_PACKET_SIZE bytes in
    let* icmp := new_view 8 buf in
    match from with
    | None => Err EMissingAddr
    | Some a => if is_v6 a then extract_probe_resp6 c now icmp a else Fault Unreachable
    end
  | SrWouldBlock => Ok None
  | SrError k => Err (EIo k)
  end.

Definition recv6 (c : rcfg) (now : Z) (from : option addr) (bytes : list Z) : result (option response) :=
  recv_icmp_probe6 c now (SrData bytes from).
