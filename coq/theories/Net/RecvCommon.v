(* Receive path, family-independent part.  Transcription of
     trippy-packet  buffer.rs (read / get_bytes), the `new_view` constructors, icmp_extension.rs
                    (extension_splitter::split, ExtensionObjectIter, ExtensionObjectPacket, MplsLabelStackIter,
                    MplsLabelStackMemberPacket), udp.rs / tcp.rs accessors used on the receive path,
     trippy-core    net/extension.rs (Extensions::try_from and the From conversions).
   Buffers are lists of Z; every Rust slice / index expression is a checked [zslice] / [zindex] that returns
   [Fault OutOfBounds] where the Rust code would panic.  No proofs in this file.
   The extension list is produced directly in the canonical opaque encoding [Types.exts]
   (the encoding of harness/hcore/src/strat.rs `enc_exts`). *)
From TV Require Import Base.Result Core.Types Packet.Checksum.

(* ---- configuration of the network layer (net/ipv4.rs `Ipv4`, net/ipv6.rs `Ipv6`, as far as the receive path reads it) *)
Record rcfg := {
  rc_src : addr;              (* src_addr *)
  rc_dest : addr;             (* dest_addr *)
  rc_proto : protocol;        (* protocol *)
  rc_privileged : bool;       (* privilege_mode = Privileged (not read on the receive path) *)
  rc_ext : bool;              (* icmp_extension_mode = Enabled *)
  rc_pattern : Z;             (* payload_pattern *)
}.

(* ---- Z-indexed checked slicing *)
Definition zlen {A} (l : list A) : Z := Z.of_nat (length l).
(* l[i] *)
Definition zindex (i : Z) (l : list Z) : result Z :=
  if (0 <=? i) && (i <? zlen l) then Ok (nth (Z.to_nat i) l 0) else Fault OutOfBounds.
(* &l[a..] *)
Definition zslice_from (a : Z) (l : list Z) : result (list Z) :=
  if (0 <=? a) && (a <=? zlen l) then Ok (skipn (Z.to_nat a) l) else Fault OutOfBounds.
(* &l[a..b] *)
Definition zslice (a b : Z) (l : list Z) : result (list Z) :=
  if (0 <=? a) && (a <=? b) && (b <=? zlen l) then Ok (firstn (Z.to_nat (b - a)) (skipn (Z.to_nat a) l))
  else Fault OutOfBounds.
Definition ztake (n : Z) (l : list Z) : list Z := firstn (Z.to_nat n) l.

(* Buffer::read, u16::from_be_bytes(Buffer::get_bytes(off)) *)
Definition read (off : Z) (b : list Z) : result Z := zindex off b.
Definition get_u16 (off : Z) (b : list Z) : result Z :=
  let* h := read off b in let* l := read (off + 1) b in Ok (h * 256 + l).

(* XPacket::new_view: Err(InsufficientPacketBuffer) below the minimum size *)
Definition new_view (min : Z) (b : list Z) : result (list Z) :=
  if min <=? zlen b then Ok b else Err EPacket.

(* ---- icmp_extension::extension_splitter::split (ICMP_ORIG_DATAGRAM_MIN_LENGTH = 128, MIN_HEADER = 4) *)
Definition split (len : Z) (p : list Z) : result (list Z * option (list Z)) :=
  if zlen p <? len then Ok (p, None) else
  if 128 <? zlen p then
    if 128 <? len then
      (* icmp_payload.split_at(length) *)
      let* a := zslice 0 len p in
      let* e := zslice_from len p in
      if 4 <=? zlen e then Ok (a, Some e) else Ok (p, None)
    else if 0 <? len then
      let* a := zslice 0 128 p in
      let* e := zslice_from 128 p in
      if 4 <=? zlen e then (let* a' := zslice 0 len a in Ok (a', Some e)) else Ok (p, None)
    else
      let* a := zslice 0 128 p in
      let* e := zslice_from 128 p in
      if 4 <=? zlen e then Ok (a, Some e) else Ok (p, None)
  else Ok (p, None).

(* ---- extension_structure::ExtensionObjectIter::next, iterated; yields the object byte strings
   (each is the remainder of the buffer from the object's offset, as in the code) *)
Fixpoint objects (fuel : nat) (b : list Z) (offset : Z) : result (list (list Z)) :=
  match fuel with
  | O => Fault OutOfFuel
  | S f =>
    if zlen b <? offset then Ok [] else
    let* ob := zslice_from offset b in
    if zlen ob <? 4 then Ok [] else            (* ExtensionObjectPacket::new_view fails *)
    let* len := get_u16 0 ob in
    if (len <? 4) || (zlen ob <? len) then Ok [] else
    let* rest := objects f b (offset + len) in
    Ok (ob :: rest)
  end.

(* MplsLabelStackMember::from(MplsLabelStackMemberPacket): label, exp, bos, ttl in the canonical encoding *)
Definition member_enc (m : list Z) : result (list Z) :=
  let* b0 := read 0 m in
  let* b1 := read 1 m in
  let* b2 := read 2 m in
  let* b3 := read 3 m in
  let label := (b0 * 65536 + b1 * 256 + b2) / 16 in
  Ok [label / 65536; (label / 256) mod 256; label mod 256; (b2 mod 16) / 2; b2 mod 2; b3].

(* mpls_label_stack::MplsLabelStackIter::next, iterated, composed with new_view + From *)
Fixpoint mpls_members (fuel : nat) (b : list Z) (offset bos : Z) : result (list (list Z)) :=
  match fuel with
  | O => Fault OutOfFuel
  | S f =>
    if (0 <? bos) || (zlen b <=? offset) then Ok [] else
    let* mb := zslice_from offset b in
    if zlen mb <? 4 then Ok [] else             (* MplsLabelStackMemberPacket::new_view fails *)
    let* b2 := read 2 mb in
    let* m := member_enc mb in
    let* rest := mpls_members f b (offset + 4) (b2 mod 2) in
    Ok (m :: rest)
  end.

(* one extension object -> Extension::Mpls / Extension::Unknown, canonical encoding *)
Definition object_enc (ob : list Z) : result (list Z) :=
  let* len := get_u16 0 ob in
  let* cls := read 2 ob in
  let* sub := read 3 ob in
  let* payload := zslice 4 len ob in            (* ExtensionObjectPacket::payload() *)
  if cls =? 1 then
    let* st := new_view 4 payload in            (* MplsLabelStackPacket::new_view *)
    let* ms := mpls_members (S (length st)) st 0 0 in
    let n := zlen ms in
    Ok ([1; n / 256; n mod 256] ++ concat ms)
  else
    let n := zlen payload in
    Ok ([0; cls; sub; n / 256; n mod 256] ++ payload).

Fixpoint objects_enc (obs : list (list Z)) : result (list Z) :=
  match obs with
  | [] => Ok []
  | o :: t => let* e := object_enc o in let* r := objects_enc t in Ok (e ++ r)
  end.

(* Extensions::try_from(&[u8]) *)
Definition extensions_try_from (v : list Z) : result exts :=
  let* pk := new_view 4 v in                    (* ExtensionsPacket::new_view *)
  let* hdr := zslice 0 4 pk in                  (* header() *)
  let* h := new_view 4 hdr in                   (* ExtensionHeaderPacket::new_view *)
  let* b0 := read 0 h in
  if negb (b0 / 16 =? 2) then Ok [] else        (* version != 2 => Extensions::default() *)
  let* obs := objects (S (length pk)) pk 4 in
  objects_enc obs.

(* packet.extension().map(Extensions::try_from).transpose()? *)
Definition ext_of (e : option (list Z)) : result (option exts) :=
  match e with
  | None => Ok None
  | Some x => let* r := extensions_try_from x in Ok (Some r)
  end.

(* ---- the socket as seen by the receive path *)
Inductive sock_read :=
| SrData (bytes : list Z) (from : option addr)   (* read / recv_from succeeded *)
| SrWouldBlock
| SrError (k : Z).
Inductive readable := NotReadable | Readable (r : sock_read) | SelectError (k : Z).

(* a TCP probe socket that became writable: what take_error / peer_addr / icmp_error_info say *)
Inductive tcp_outcome :=
| TcpConnected (peer : option addr)
| TcpConnRefused
| TcpHostUnreach (info : option addr)            (* None: icmp_error_info failed *)
| TcpOtherError
| TcpIoError (k : Z).                            (* take_error itself failed *)

Definition mk_resp_data (now : Z) (a : addr) (p : proto_resp) : resp_data :=
  {| r_recv := now; r_addr := a; r_proto := p |}.

(* ipv4.rs / ipv6.rs recv_tcp_socket (identical up to the address family of dest_addr) *)
Definition recv_tcp_socket (c : rcfg) (now : Z) (o : tcp_outcome) (src_port dest_port : Z)
  : result (option response) :=
  let pr := PTcp (rc_dest c) src_port dest_port None in
  match o with
  | TcpIoError k => Err (EIo k)
  | TcpConnected None => Err EMissingAddr
  | TcpConnected (Some a) => Ok (Some (RTcpReply (mk_resp_data now a pr)))
  | TcpConnRefused => Ok (Some (RTcpRefused (mk_resp_data now (rc_dest c) pr)))
  | TcpHostUnreach None => Err (EIo 0)
  | TcpHostUnreach (Some a) => Ok (Some (RTimeExceeded (mk_resp_data now a pr) 1 None))
  | TcpOtherError => Ok None
  end.

(* MAX_PACKET_SIZE: the receive buffer *)
Definition MAX_PACKET_SIZE := 1024.
