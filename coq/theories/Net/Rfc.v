(* SPECIFICATION side of C11: an RFC decoder that knows nothing about the model's builders.

   Every field is read with [rfc_get off w]: the [w] bits that start [off] bits into the octet
   string, most significant bit first - the convention of the header diagrams of RFC 791
   (IPv4), RFC 792 (ICMP), RFC 768 (UDP), RFC 4443 (ICMPv6); the pseudo-headers are those of
   RFC 768 and RFC 8200 section 8.1; "the checksum is valid" is the receiver's test of RFC 1071
   (the one's-complement sum over pseudo-header and message, checksum included, is 0xFFFF).
   The only definitions shared with the model are the RFC 1071 vocabulary of Packet/Checksum.v
   ([words], [zsum], [oc_norm]), which is itself specification.  No proofs in this file. *)
From TV Require Import Base.Result Packet.Checksum.

(* big-endian value of an octet string *)
Definition be_value (l : list Z) : Z := fold_left (fun acc b => acc * 256 + b) l 0.

Definition rfc_get (off w : Z) (l : list Z) : Z :=
  let first := Z.to_nat (off / 8) in
  let r := off mod 8 in
  let n := Z.to_nat ((r + w + 7) / 8) in
  (be_value (firstn n (skipn first l)) / 2 ^ (8 * Z.of_nat n - r - w)) mod 2 ^ w.

(* an octet-string field: n octets starting at octet off *)
Definition rfc_octets (off n : nat) (l : list Z) : list Z := firstn n (skipn off l).

(* RFC 1071 receiver test over pseudo-header ++ message *)
Definition rfc1071_valid (pseudo msg : list Z) : Prop :=
  oc_norm (zsum (words (pseudo ++ msg))) = 65535.

(* RFC 768: source address, destination address, zero, protocol, UDP length *)
Definition pseudo_header_v4 (src dst : list Z) (proto len : Z) : list Z :=
  src ++ dst ++ [0; proto] ++ [len / 256; len mod 256].
(* RFC 8200 8.1: source, destination, upper-layer packet length (32 bits), 24 zero bits, next header *)
Definition pseudo_header_v6 (src dst : list Z) (next len : Z) : list Z :=
  src ++ dst ++ [0; 0; len / 256; len mod 256] ++ [0; 0; 0; next].

(* ---- RFC 791 ---- *)
Record ipv4_fields := {
  ip_version : Z; ip_ihl : Z; ip_tos : Z; ip_total_length : Z; ip_identification : Z;
  ip_flag_reserved : Z; ip_flag_df : Z; ip_flag_mf : Z; ip_fragment_offset : Z;
  ip_ttl : Z; ip_protocol : Z; ip_header_checksum : Z;
  ip_source : list Z; ip_destination : list Z;
  ip_payload : list Z;
}.

Definition rfc791_decode (b : list Z) : ipv4_fields := {|
  ip_version := rfc_get 0 4 b;
  ip_ihl := rfc_get 4 4 b;
  ip_tos := rfc_get 8 8 b;
  ip_total_length := rfc_get 16 16 b;
  ip_identification := rfc_get 32 16 b;
  ip_flag_reserved := rfc_get 48 1 b;
  ip_flag_df := rfc_get 49 1 b;
  ip_flag_mf := rfc_get 50 1 b;
  ip_fragment_offset := rfc_get 51 13 b;
  ip_ttl := rfc_get 64 8 b;
  ip_protocol := rfc_get 72 8 b;
  ip_header_checksum := rfc_get 80 16 b;
  ip_source := rfc_octets 12 4 b;
  ip_destination := rfc_octets 16 4 b;
  (* the data follow the header of IHL 32-bit words *)
  ip_payload := skipn (Z.to_nat (4 * rfc_get 4 4 b)) b;
|}.

(* the IPv4 clauses of the property for a datagram [b] sent for a probe with time-to-live [ttl] *)
Definition ipv4_wellformed (src dst : list Z) (tos ttl proto : Z) (b : list Z) : Prop :=
  let h := rfc791_decode b in
  ip_version h = 4 /\ ip_ihl h = 5 /\
  ip_tos h = tos /\
  ip_total_length h = Z.of_nat (length b) /\
  ip_flag_reserved h = 0 /\ ip_flag_df h = 1 /\ ip_flag_mf h = 0 /\ ip_fragment_offset h = 0 /\
  ip_ttl h = ttl /\ ip_protocol h = proto /\
  ip_source h = src /\ ip_destination h = dst.

(* ---- RFC 792 / RFC 4443: echo request ---- *)
Record echo_fields := {
  ic_type : Z; ic_code : Z; ic_checksum : Z; ic_identifier : Z; ic_sequence : Z; ic_data : list Z;
}.
Definition rfc_echo_decode (m : list Z) : echo_fields := {|
  ic_type := rfc_get 0 8 m;
  ic_code := rfc_get 8 8 m;
  ic_checksum := rfc_get 16 16 m;
  ic_identifier := rfc_get 32 16 m;
  ic_sequence := rfc_get 48 16 m;
  ic_data := skipn 8 m;
|}.

(* [pseudo]: [] for ICMPv4 (RFC 792: the checksum covers the ICMP message only),
   the RFC 8200 pseudo-header for ICMPv6 *)
Definition echo_wellformed (type id seq pattern : Z) (data_len : nat) (pseudo m : list Z) : Prop :=
  let e := rfc_echo_decode m in
  ic_type e = type /\ ic_code e = 0 /\
  ic_identifier e = id /\ ic_sequence e = seq /\
  ic_data e = repeat pattern data_len /\
  rfc1071_valid pseudo m.

(* ---- RFC 768 ---- *)
Record udp_fields := {
  ud_source_port : Z; ud_destination_port : Z; ud_length : Z; ud_checksum : Z; ud_data : list Z;
}.
Definition rfc768_decode (u : list Z) : udp_fields := {|
  ud_source_port := rfc_get 0 16 u;
  ud_destination_port := rfc_get 16 16 u;
  ud_length := rfc_get 32 16 u;
  ud_checksum := rfc_get 48 16 u;
  ud_data := skipn 8 u;
|}.

Definition udp_wellformed (sp dp : Z) (pseudo u : list Z) : Prop :=
  let d := rfc768_decode u in
  ud_source_port d = sp /\ ud_destination_port d = dp /\
  ud_length d = Z.of_nat (length u) /\
  rfc1071_valid pseudo u.
