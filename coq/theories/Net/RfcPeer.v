(* Specification of the other end of the wire (independent of the receive code):
     - the datagrams this tracer puts on the wire, as explicit byte strings (RFC 791 / 792 / 768 / 793 / 8200 / 4443),
     - what routers do to a datagram in transit (TTL / hop limit, header checksum, TOS / traffic class),
     - how a standards-conforming router or target turns it into an ICMP Time Exceeded / Destination
       Unreachable (RFC 792, 1812, 4443) with or without an RFC 4884 extension structure, or an Echo Reply.
   Nothing here mentions the functions of Net/Recv*.v.  No proofs in this file. *)
From TV Require Import Base.Result Core.Types Packet.Checksum Net.RecvCommon.

(* ---- headers *)
(* IPv4 header with [opts] (a multiple of 4 octets); version 4, IHL = 5 + |opts|/4 *)
Definition ipv4_hdr (tos total_len ident flags ttl proto cksum : Z) (src dst opts : list Z) : list Z :=
  [64 + 5 + zlen opts / 4; tos] ++ be_bytes total_len ++ be_bytes ident ++ be_bytes flags ++ [ttl; proto]
  ++ be_bytes cksum ++ src ++ dst ++ opts.
(* IPv6 fixed header: version 6, traffic class, flow label, payload length, next header, hop limit *)
Definition ipv6_hdr (tc flow plen nh hop : Z) (src dst : list Z) : list Z :=
  [96 + tc / 16; (tc mod 16) * 16 + flow / 65536; (flow / 256) mod 256; flow mod 256]
  ++ be_bytes plen ++ [nh; hop] ++ src ++ dst.
(* ICMP / ICMPv6 echo request or reply: type, code 0, checksum, identifier, sequence, data *)
Definition icmp_echo (ty cksum id seq : Z) (payload : list Z) : list Z :=
  [ty; 0] ++ be_bytes cksum ++ be_bytes id ++ be_bytes seq ++ payload.
(* UDP: source port, destination port, length, checksum, data *)
Definition udp_dgram (sp dp cksum : Z) (payload : list Z) : list Z :=
  be_bytes sp ++ be_bytes dp ++ be_bytes (8 + zlen payload) ++ be_bytes cksum ++ payload.
(* TCP segment: ports, then the remaining >= 16 octets of the header (sequence number, ..., options) *)
Definition tcp_segment (sp dp : Z) (rest : list Z) : list Z := be_bytes sp ++ be_bytes dp ++ rest.

Definition DONT_FRAGMENT := 16384.

(* ---- the probe datagrams (IHL = 5: the tracer never sends IPv4 options) *)
Definition icmp4_probe (src dst : addr) (tos ttl hck id seq ick : Z) (payload : list Z) : list Z :=
  ipv4_hdr tos (28 + zlen payload) 0 DONT_FRAGMENT ttl 1 hck src dst [] ++ icmp_echo 8 ick id seq payload.
Definition udp4_probe (src dst : addr) (tos ttl hck ipid sp dp uck : Z) (payload : list Z) : list Z :=
  ipv4_hdr tos (28 + zlen payload) ipid DONT_FRAGMENT ttl 17 hck src dst [] ++ udp_dgram sp dp uck payload.
Definition tcp4_probe (src dst : addr) (tos ttl hck ipid flags sp dp : Z) (rest : list Z) : list Z :=
  ipv4_hdr tos (24 + zlen rest) ipid flags ttl 6 hck src dst [] ++ tcp_segment sp dp rest.
Definition icmp6_probe (src dst : addr) (tc flow hop id seq ick : Z) (payload : list Z) : list Z :=
  ipv6_hdr tc flow (8 + zlen payload) 58 hop src dst ++ icmp_echo 128 ick id seq payload.
Definition udp6_probe (src dst : addr) (tc flow hop sp dp uck : Z) (payload : list Z) : list Z :=
  ipv6_hdr tc flow (8 + zlen payload) 17 hop src dst ++ udp_dgram sp dp uck payload.
Definition tcp6_probe (src dst : addr) (tc flow hop sp dp : Z) (rest : list Z) : list Z :=
  ipv6_hdr tc flow (4 + zlen rest) 6 hop src dst ++ tcp_segment sp dp rest.

(* the Dublin / IPv6 payload: the marker followed by (sequence - initial_sequence) pattern octets *)
Definition MAGIC_MARKER : list Z := [116; 114; 105; 112; 112; 121].   (* "trippy" *)
Definition dublin6_payload (pattern n : Z) : list Z := MAGIC_MARKER ++ repeat pattern (Z.to_nat n).

(* ---- in transit *)
Record transit := { t_ttl : Z; t_tos : Z; t_ck : Z }.    (* the values found in the datagram when it is quoted *)
Definition set_nth (i : nat) (v : Z) (l : list Z) : list Z :=
  match skipn i l with [] => l | _ :: t => firstn i l ++ v :: t end.
(* IPv4: TOS (octet 1), TTL (octet 8), header checksum (octets 10, 11) *)
Definition transit4 (t : transit) (d : list Z) : list Z :=
  set_nth 1 (t_tos t) (set_nth 8 (t_ttl t) (set_nth 10 (t_ck t / 256) (set_nth 11 (t_ck t mod 256) d))).
(* IPv6: traffic class (low nibble of octet 0, high nibble of octet 1), hop limit (octet 7) *)
Definition transit6 (t : transit) (d : list Z) : list Z :=
  set_nth 0 (96 + t_tos t / 16) (set_nth 1 ((t_tos t mod 16) * 16 + nth 1 d 0 mod 16) (set_nth 7 (t_ttl t) d)).

(* ---- the ICMP error *)
Inductive ext_form :=
| XNone                      (* no extension structure, length octet 0 *)
| XRfc4884 (e : list Z)      (* compliant: original datagram zero padded to >= 128 octets and a whole number of
                                32-bit (ICMPv4) / 64-bit (ICMPv6) words, length octet set, extension structure appended *)
| XLegacy (e : list Z).      (* non-compliant (RFC 4884 section 5.5): length octet 0, exactly 128 octets, structure appended *)

Definition pad_to (n : Z) (l : list Z) : list Z := l ++ repeat 0 (Z.to_nat (n - zlen l)).
(* the "original datagram" field and the length octet, [unit] = 4 (ICMPv4) or 8 (ICMPv6) *)
Definition orig_field (unit : Z) (x : ext_form) (q : list Z) : list Z * Z :=
  match x with
  | XNone => (q, 0)
  | XRfc4884 _ => let n := Z.max 128 (unit * ((zlen q + unit - 1) / unit)) in (pad_to n q, n / unit)
  | XLegacy _ => (pad_to 128 (ztake 128 q), 0)
  end.
Definition ext_bytes (x : ext_form) : list Z := match x with XNone => [] | XRfc4884 e | XLegacy e => e end.

Record peer := {
  q_router : addr;           (* source address of the ICMP message *)
  q_unreach : option Z;      (* None: Time Exceeded, code 0 (TTL expired); Some c: Destination Unreachable, code c *)
  q_n : Z;                   (* number of octets of the offending datagram that are quoted *)
  q_transit : transit;
  q_ext : ext_form;
  q_icmp_ck : Z;             (* ICMP checksum field *)
  q_u1 : Z; q_u2 : Z; q_u3 : Z;   (* the three header octets beside the RFC 4884 length octet (unused / next-hop MTU) *)
  (* outer IPv4 header of the ICMP message (absent on an ICMPv6 socket) *)
  q_o_tos : Z; q_o_id : Z; q_o_flags : Z; q_o_ttl : Z; q_o_ck : Z; q_o_opts : list Z;
}.

Definition icmp_error (te du unit : Z) (len_first : bool) (transit : list Z -> list Z) (p : peer) (d : list Z) : list Z :=
  let q := ztake (q_n p) (transit d) in
  let ol := orig_field unit (q_ext p) q in
  [match q_unreach p with None => te | Some _ => du end; match q_unreach p with None => 0 | Some c => c end]
  ++ be_bytes (q_icmp_ck p)
  ++ (if len_first then [snd ol; q_u1 p] else [q_u1 p; snd ol]) ++ [q_u2 p; q_u3 p]
  ++ fst ol ++ ext_bytes (q_ext p).

(* ICMPv4: types 11 / 3, length octet at offset 5, counted in 32-bit words; what the raw socket delivers
   includes the outer IPv4 header, addressed to [me] *)
Definition quote4 (me : addr) (p : peer) (d : list Z) : list Z :=
  let body := icmp_error 11 3 4 false (transit4 (q_transit p)) p d in
  ipv4_hdr (q_o_tos p) (20 + zlen (q_o_opts p) + zlen body) (q_o_id p) (q_o_flags p) (q_o_ttl p) 1 (q_o_ck p)
           (q_router p) me (q_o_opts p) ++ body.
(* ICMPv6: types 3 / 1, length octet at offset 4, counted in 64-bit words; the ICMPv6 socket delivers the
   ICMPv6 message only, the sender address comes from recv_from *)
Definition quote6 (p : peer) (d : list Z) : list Z :=
  icmp_error 3 1 8 true (transit6 (q_transit p)) p d.

(* Echo Reply: identifier, sequence and data echoed (RFC 792 / RFC 4443 section 4.2) *)
Definition echo_reply4 (me target : addr) (o_tos o_id o_flags o_ttl o_ck : Z) (o_opts : list Z) (ck id seq : Z) (payload : list Z) : list Z :=
  let body := icmp_echo 0 ck id seq payload in
  ipv4_hdr o_tos (20 + zlen o_opts + zlen body) o_id o_flags o_ttl 1 o_ck target me o_opts ++ body.
Definition echo_reply6 (ck id seq : Z) (payload : list Z) : list Z := icmp_echo 129 ck id seq payload.

(* ---- a well-formed extension structure (RFC 4884 section 7, RFC 4950), given structurally *)
Inductive ext_object :=
| OMpls (subtype : Z) (entries : list (Z * Z * Z * Z))    (* class 1: label (20 bit), exp (3 bit), bottom-of-stack (1 bit), ttl *)
| OOther (class subtype : Z) (payload : list Z).          (* any other class *)
Definition mpls_entry_bytes (e : Z * Z * Z * Z) : list Z :=
  let '(label, exp, bos, ttl) := e in
  [label / 4096; (label / 16) mod 256; (label mod 16) * 16 + exp * 2 + bos; ttl].
Definition object_bytes (o : ext_object) : list Z :=
  match o with
  | OMpls st es => let pl := concat (map mpls_entry_bytes es) in be_bytes (4 + zlen pl) ++ [1; st] ++ pl
  | OOther c st pl => be_bytes (4 + zlen pl) ++ [c; st] ++ pl
  end.
(* version 2, 12 reserved bits, checksum, objects *)
Definition ext_structure (reserved_lo reserved ck : Z) (objs : list ext_object) : list Z :=
  [32 + reserved_lo; reserved] ++ be_bytes ck ++ concat (map object_bytes objs).
