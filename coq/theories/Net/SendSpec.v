(* Vocabulary of the C11 statements: the quantifier domain (which configurations and probes) and the
   sockets `Channel::connect` creates.  No proofs in this file. *)
From TV Require Import Base.Result Core.Types Net.Sock Net.ChannelSend.

Definition u8 (x : Z) : Prop := 0 <= x < 256.
Definition u16 (x : Z) : Prop := 0 <= x < 65536.

(* source and target are IPv4 / IPv6 addresses, type of service and payload pattern are octets *)
Definition cfg_v4 (cfg : chan_cfg) : Prop :=
  length (cc_source cfg) = 4%nat /\ length (cc_target cfg) = 4%nat /\
  bytes (cc_source cfg) /\ bytes (cc_target cfg) /\ u8 (cc_tos cfg) /\ u8 (cc_payload_pattern cfg).
Definition cfg_v6 (cfg : chan_cfg) : Prop :=
  length (cc_source cfg) = 16%nat /\ length (cc_target cfg) = 16%nat /\
  bytes (cc_source cfg) /\ bytes (cc_target cfg) /\ u8 (cc_tos cfg) /\ u8 (cc_payload_pattern cfg) /\
  u16 (cc_initial_sequence cfg).

(* a probe as the strategy issues it: ttl 1..254 (MAX_TTL), every other field within its Rust type *)
Definition probe_wf (p : probe) : Prop :=
  1 <= p_ttl p <= 254 /\ u16 (p_sequence p) /\ u16 (p_identifier p) /\ u16 (p_src_port p) /\ u16 (p_dest_port p).

Definition raw_of (cfg : chan_cfg) : bool :=
  match cc_privilege cfg with Privileged => true | Unprivileged => false end.

(* the sockets `connect` creates, in order: the send socket (none for TCP), the receive socket *)
Definition connect_ops (v6 : bool) (cfg : chan_cfg) : list sockop :=
  match cc_protocol cfg with
  | Icmp => [NewSocket (if v6 then SkIcmp6 else SkIcmp4) (raw_of cfg)]
  | Udp => [NewSocket (if v6 then SkUdp6 else SkUdp4) (raw_of cfg)]
  | Tcp => []
  end ++ [NewSocket (if v6 then SkRecv6 else SkRecv4) (raw_of cfg)].

(* the Dublin/IPv6 precondition the strategy guarantees (Props/C07.v c07_dublin_payload_fits) *)
Definition dublin_v6_fits (cfg : chan_cfg) (p : probe) : Prop :=
  0 <= p_sequence p - cc_initial_sequence cfg /\ p_sequence p - cc_initial_sequence cfg + 6 <= 976.
