(* The send side of the `Socket` trait (net/socket.rs) as an output log, the error kinds of
   error.rs and the `ErrorMapper` of net/common.rs.  No proofs in this file.

   A socket call appends one `sockop` to the log and fails iff the environment injects an error
   for that kind of call (the input list `w_inject`; an entry is consumed by the first call of its
   kind).  `NewSocket` is logged only when the constructor succeeds, exactly like the simulated
   socket of the harness. *)
From TV Require Import Base.Result Core.Types.

Inductive sock_kind := SkIcmp4 | SkIcmp6 | SkUdp4 | SkUdp6 | SkRecv4 | SkRecv6 | SkTcp4 | SkTcp6.

Inductive sockop :=
| NewSocket (k : sock_kind) (raw : bool)
| Bind (a : addr) (port : Z)
| SetTtl (n : Z)
| SetTos (n : Z)
| SetUnicastHopsV6 (n : Z)
| Connect (a : addr) (port : Z)
| SendTo (bytes : list Z) (a : addr) (port : Z).

Inductive call := CNew | CBind | CConnect | CSendTo | CSetTtl | CSetTos | CHops.

Definition call_eqb (a b : call) : bool :=
  match a, b with
  | CNew, CNew | CBind, CBind | CConnect, CConnect | CSendTo, CSendTo
  | CSetTtl, CSetTtl | CSetTos, CSetTos | CHops, CHops => true
  | _, _ => false
  end.

(* error.rs `ErrorKind` (as computed by `From<&io::Error>` in platform/unix.rs), coded as integers:
   the three kinds recognised by their raw OS error number, then `Std(io::ErrorKind)` *)
Definition K_IN_PROGRESS := 1.          (* ErrorKind::InProgress      (EINPROGRESS) *)
Definition K_HOST_UNREACHABLE := 2.     (* ErrorKind::HostUnreachable (EHOSTUNREACH) *)
Definition K_NET_UNREACHABLE := 3.      (* ErrorKind::NetUnreachable  (ENETUNREACH) *)
Definition K_ADDR_IN_USE := 10.         (* Std(io::ErrorKind::AddrInUse) *)
Definition K_ADDR_NOT_AVAILABLE := 11.  (* Std(io::ErrorKind::AddrNotAvailable) *)
Definition K_INVALID_INPUT := 12.       (* Std(io::ErrorKind::InvalidInput) *)
(* 13.. : any other Std(kind); never inspected by the code *)

Record world := { w_ops : list sockop; w_inject : list (call * Z) }.

Fixpoint take_injected (c : call) (inj : list (call * Z)) : option Z * list (call * Z) :=
  match inj with
  | [] => (None, [])
  | (c', k) :: t =>
    if call_eqb c c' then (Some k, t)
    else let (r, t') := take_injected c t in (r, (c', k) :: t')
  end.

(* state + result *)
Definition M (A : Type) := world -> world * result A.
Definition mret {A} (a : A) : M A := fun w => (w, Ok a).
Definition lift {A} (r : result A) : M A := fun w => (w, r).
Definition mbind {A B} (m : M A) (f : A -> M B) : M B :=
  fun w => let (w1, r) := m w in
           match r with Ok a => f a w1 | Err e => (w1, Err e) | Fault x => (w1, Fault x) end.
Notation "'let^' x ':=' m 'in' k" := (mbind m (fun x => k))
  (at level 200, x pattern, m at level 100, k at level 200).

(* Result::map_err / Result::or_else *)
Definition map_err {A} (m : M A) (f : error -> error) : M A :=
  fun w => let (w1, r) := m w in (w1, match r with Err e => Err (f e) | x => x end).
Definition or_else (m : M unit) (f : error -> result unit) : M unit :=
  fun w => let (w1, r) := m w in (w1, match r with Err e => f e | x => x end).

(* any `&mut self` method of the trait that the send path uses; the `IoError` converts to
   `Error::IoError` either by `.map_err(Error::IoError)` or by `?` (`#[from]`) *)
Definition sock_call (c : call) (op : sockop) : M unit :=
  fun w => let (r, rest) := take_injected c (w_inject w) in
           ({| w_ops := w_ops w ++ [op]; w_inject := rest |},
            match r with Some k => Err (EIo k) | None => Ok tt end).

(* the associated constructor functions `S::new_*` *)
Definition sock_new (k : sock_kind) (raw : bool) : M unit :=
  fun w => let (r, rest) := take_injected CNew (w_inject w) in
           match r with
           | Some e => ({| w_ops := w_ops w; w_inject := rest |}, Err (EIo e))
           | None => ({| w_ops := w_ops w ++ [NewSocket k raw]; w_inject := rest |}, Ok tt)
           end.

Definition bind_sock (a : addr) (port : Z) := sock_call CBind (Bind a port).
Definition set_ttl (n : Z) := sock_call CSetTtl (SetTtl n).
Definition set_tos (n : Z) := sock_call CSetTos (SetTos n).
Definition set_unicast_hops_v6 (n : Z) := sock_call CHops (SetUnicastHopsV6 n).
Definition connect_sock (a : addr) (port : Z) := sock_call CConnect (Connect a port).
Definition send_to (bytes : list Z) (a : addr) (port : Z) := sock_call CSendTo (SendTo bytes a port).

(* ---- net/common.rs  ErrorMapper ---- *)
Definition in_progress (e : error) : result unit :=
  match e with
  | EIo k => if k =? K_IN_PROGRESS then Ok tt else Err (EIo k)
  | e => Err e
  end.

Definition addr_in_use (e : error) : error :=
  match e with
  | EIo k => if k =? K_ADDR_IN_USE then EAddressInUse else EIo k
  | e => e
  end.

Definition probe_failed (kind : Z) (e : error) : error :=
  match e with
  | EIo k => if k =? kind then EProbeFailed else e
  | _ => e
  end.

(* net/channel.rs *)
Definition MAX_PACKET_SIZE := 1024.

Inductive privilege := Privileged | Unprivileged.
(* net/platform/byte_order.rs: on Linux only `Network` exists *)
Inductive byte_order := BoNetwork | BoHost.
Definition adjust_length (bo : byte_order) (v : Z) : Z :=
  match bo with BoHost => (v mod 256) * 256 + v / 256 | BoNetwork => v end.

(* Flags::contains *)
Definition flag_paris (p : probe) : bool := Z.testbit (p_flags p) 0.
Definition flag_dublin (p : probe) : bool := Z.testbit (p_flags p) 1.
