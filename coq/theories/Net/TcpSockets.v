(* net/channel.rs: the array of pending TCP probe sockets (Channel::tcp_probes), dispatch_tcp_probe's push and
   recv_tcp_sockets' retain / find first writable / remove.  No proofs in this file. *)
From TV Require Import Base.Result Core.Types Core.TracerState Core.Strategy Net.RecvCommon Net.Recv4 Net.Recv6 Net.Recv.

(* what is known about one probe socket: still connecting, or writable with an outcome *)
Inductive sock_state := SockPending | SockReady (o : tcp_outcome).
Record tcp_entry := { te_state : sock_state; te_sp : Z; te_dp : Z; te_start : Z }.

Definition MAX_TCP_PROBES : nat := 256.

(* dispatch_tcp_probe (after a successful bind / connect): refuse when the array is full *)
Definition tcp_push (l : list tcp_entry) (e : tcp_entry) : result (list tcp_entry) :=
  if (MAX_TCP_PROBES <=? length l)%nat then Err EInsufficientCapacity else Ok (l ++ [e]).

(* probe.start.elapsed().unwrap_or_default() < tcp_connect_timeout: a clock that went backwards counts as 0 *)
Definition tcp_alive (now timeout : Z) (e : tcp_entry) : bool := Z.max 0 (now - te_start e) <? timeout.
Definition is_ready (e : tcp_entry) : bool := match te_state e with SockReady _ => true | SockPending => false end.

(* first writable entry: its position, the entry, the list without it *)
Fixpoint take_first_ready (l : list tcp_entry) : option (tcp_entry * list tcp_entry) :=
  match l with
  | [] => None
  | e :: t =>
    if is_ready e then Some (e, t)
    else match take_first_ready t with Some (x, t') => Some (x, e :: t') | None => None end
  end.

(* Channel::recv_tcp_sockets over the array *)
Definition recv_tcp_sockets_list (c : rcfg) (now timeout : Z) (l : list tcp_entry)
  : list tcp_entry * result (option response) :=
  let l1 := filter (tcp_alive now timeout) l in
  match take_first_ready l1 with
  | Some (e, rest) =>
    (rest, match te_state e with
           | SockReady o => recv_tcp_socket c now o (te_sp e) (te_dp e)
           | SockPending => Ok None
           end)
  | None => (l1, Ok None)
  end.
