(* Byte-level transcription of the parts of trippy-packet used by the send path:
   buffer.rs (read / write / wire_set_bytes / get_bytes), ipv4.rs, udp.rs, icmpv4.rs and icmpv6.rs
   (echo_request) setters.  Buffers are `list Z` (one element per octet); every slice / index
   that can panic in Rust is a `Fault OutOfBounds` value here.  No proofs in this file. *)
From TV Require Import Base.Result Packet.Checksum.

(* ---- buffer.rs ---- *)
(* Buffer::read(offset) *)
Definition buf_read (off : nat) (buf : list Z) : result Z := index off buf.

(* *Buffer::write(offset) = v *)
Definition buf_write (off : nat) (v : Z) (buf : list Z) : result (list Z) :=
  if (off <? length buf)%nat then Ok (firstn off buf ++ [v] ++ skipn (S off) buf) else Fault OutOfBounds.

(* Buffer::wire_set_bytes(offset, bytes) and every  buf[off..off+len].copy_from_slice(vals) *)
Definition wire_set_bytes (off : nat) (bs : list Z) (buf : list Z) : result (list Z) :=
  if (off + length bs <=? length buf)%nat
  then Ok (firstn off buf ++ bs ++ skipn (off + length bs) buf)
  else Fault OutOfBounds.

(* Buffer::get_bytes::<2>(offset) followed by u16::from_be_bytes *)
Definition get_u16 (off : nat) (buf : list Z) : result Z :=
  let* a := buf_read off buf in
  let* b := buf_read (S off) buf in
  Ok (a * 256 + b).

(* u16::to_be_bytes *)
Definition to_be_bytes (v : Z) : list Z := [v / 256; v mod 256].

(* u16::swap_bytes *)
Definition swap_bytes (v : Z) : Z := (v mod 256) * 256 + v / 256.

(* u8 arithmetic used by the sub-byte setters: `&`, `|`, `<<` (bits shifted out are dropped), `>>` *)
Definition u8_and (a b : Z) : Z := Z.land a b.
Definition u8_or (a b : Z) : Z := Z.lor a b.
Definition u8_shl (a n : Z) : Z := (Z.shiftl a n) mod 256.
Definition u8_shr (a n : Z) : Z := Z.shiftr a n.

(* XPacket::new(&mut buf): the minimum-size check (Error::InsufficientPacketBuffer) *)
Definition packet_new (min : nat) (buf : list Z) : result (list Z) :=
  if (min <=? length buf)%nat then Ok buf else Err EPacket.

(* ---- ipv4.rs ---- *)
Definition IPV4_MIN : nat := 20.
Definition wire_ipv4_new := packet_new IPV4_MIN.

Definition wire_ipv4_set_version (val : Z) (b : list Z) : result (list Z) :=
  let* x := buf_read 0 b in
  buf_write 0 (u8_or (u8_and x 15) (u8_shl (u8_and val 15) 4)) b.

Definition wire_ipv4_set_header_length (val : Z) (b : list Z) : result (list Z) :=
  let* x := buf_read 0 b in
  buf_write 0 (u8_or (u8_and x 240) (u8_and val 15)) b.

Definition wire_ipv4_get_header_length (b : list Z) : result Z :=
  let* x := buf_read 0 b in Ok (u8_and x 15).

Definition wire_ipv4_set_dscp (val : Z) (b : list Z) : result (list Z) :=
  let* x := buf_read 1 b in
  buf_write 1 (u8_or (u8_and x 3) (u8_shl (u8_and val 63) 2)) b.

Definition wire_ipv4_set_ecn (val : Z) (b : list Z) : result (list Z) :=
  let* x := buf_read 1 b in
  buf_write 1 (u8_or (u8_and x 252) (u8_and val 3)) b.

Definition wire_ipv4_set_tos (val : Z) (b : list Z) : result (list Z) :=
  let* b := wire_ipv4_set_dscp (u8_shr (u8_and val 252) 2) b in
  wire_ipv4_set_ecn (u8_and val 3) b.

Definition wire_ipv4_set_total_length (val : Z) := wire_set_bytes 2 (to_be_bytes val).
Definition wire_ipv4_set_identification (val : Z) := wire_set_bytes 4 (to_be_bytes val).
Definition wire_ipv4_set_flags_and_fragment_offset (val : Z) := wire_set_bytes 6 (to_be_bytes val).
Definition wire_ipv4_set_ttl (val : Z) := buf_write 8 val.
Definition wire_ipv4_set_protocol (val : Z) := buf_write 9 val.     (* IpProtocol::id() *)
Definition wire_ipv4_set_source (a : list Z) := wire_set_bytes 12 a.
Definition wire_ipv4_set_destination (a : list Z) := wire_set_bytes 16 a.

(* ipv4_options_length: (ihl as usize * 4).saturating_sub(20) *)
Definition ipv4_options_length (b : list Z) : result nat :=
  let* ihl := wire_ipv4_get_header_length b in
  Ok (Z.to_nat (ihl * 4) - IPV4_MIN)%nat.

Definition ipv4_set_payload (vals : list Z) (b : list Z) : result (list Z) :=
  let* ol := ipv4_options_length b in
  wire_set_bytes (IPV4_MIN + ol) vals b.

(* IpProtocol::id() *)
Definition IPPROTO_ICMP := 1.
Definition IPPROTO_UDP := 17.
Definition IPPROTO_ICMPV6 := 58.

(* ---- udp.rs ---- *)
Definition UDP_MIN : nat := 8.
Definition wire_udp_new := packet_new UDP_MIN.
Definition wire_udp_set_source (v : Z) := wire_set_bytes 0 (to_be_bytes v).
Definition wire_udp_set_destination (v : Z) := wire_set_bytes 2 (to_be_bytes v).
Definition wire_udp_set_length (v : Z) := wire_set_bytes 4 (to_be_bytes v).
Definition wire_udp_set_checksum (v : Z) := wire_set_bytes 6 (to_be_bytes v).
Definition wire_udp_get_checksum := get_u16 6.
Definition udp_set_payload (vals : list Z) := wire_set_bytes UDP_MIN vals.
Definition udp_payload (b : list Z) : result (list Z) := slice_from UDP_MIN b.

(* ---- icmpv4.rs / icmpv6.rs  echo_request (identical layout, different type numbers) ---- *)
Definition ICMP_MIN : nat := 8.
Definition echo_new := packet_new ICMP_MIN.
Definition ICMP4_ECHO_REQUEST := 8.       (* icmpv4::IcmpType::EchoRequest.id() *)
Definition ICMP6_ECHO_REQUEST := 128.     (* icmpv6::IcmpType::EchoRequest.id() *)
Definition echo_set_icmp_type (v : Z) := buf_write 0 v.
Definition echo_set_icmp_code (v : Z) := buf_write 1 v.
Definition echo_set_checksum (v : Z) := wire_set_bytes 2 (to_be_bytes v).
Definition echo_set_identifier (v : Z) := wire_set_bytes 4 (to_be_bytes v).
Definition echo_set_sequence (v : Z) := wire_set_bytes 6 (to_be_bytes v).
Definition echo_set_payload (vals : list Z) := wire_set_bytes ICMP_MIN vals.
