(* Byte-level helpers shared by the packet-view models: transcription of
   crates/trippy-packet/src/buffer.rs (Buffer::read / get_bytes / as_slice) and of the
   u8 / u16 / u32 expressions the accessors are written with.  No proofs here. *)
From TV Require Import Base.Result.

(* Buffer::read(offset) = packet[offset] : a checked index *)
Definition pv_buf_read (offset : nat) (buf : list Z) : result Z := index offset buf.

(* Buffer::get_bytes::<N>(offset) = from_fn(|i| read(offset + i)) : N checked indexes *)
Fixpoint buf_get_bytes (n offset : nat) (buf : list Z) : result (list Z) :=
  match n with
  | O => Ok []
  | S n' => let* b := pv_buf_read offset buf in
            let* t := buf_get_bytes n' (S offset) buf in Ok (b :: t)
  end.

(* u16::from_be_bytes / u32::from_be_bytes *)
Definition from_be_bytes (l : list Z) : Z := fold_left (fun acc b => acc * 256 + b) l 0.
Definition buf_get_u16 (offset : nat) (buf : list Z) : result Z :=
  let* bs := buf_get_bytes 2 offset buf in Ok (from_be_bytes bs).
Definition buf_get_u32 (offset : nat) (buf : list Z) : result Z :=
  let* bs := buf_get_bytes 4 offset buf in Ok (from_be_bytes bs).

(* u8 operators.  `&`, `|`, `>>` cannot leave the type; `<<` on u8 discards the high bits
   (only a shift *amount* >= 8 panics, and every amount in the code is a literal < 8). *)
Definition pv_u8_and (a m : Z) : Z := Z.land a m.
Definition pv_u8_or (a b : Z) : Z := Z.lor a b.
Definition pv_u8_shr (a n : Z) : Z := Z.shiftr a n.
Definition pv_u8_shl (a n : Z) : Z := (Z.shiftl a n) mod 256.

(* XxxPacket::new_view(packet): Err(InsufficientPacketBuffer) below the minimum size *)
Definition new_view (min : nat) (packet : list Z) : result (list Z) :=
  if (min <=? length packet)%nat then Ok packet else Err EPacket.

(* slice.split_at(n): panics when n > len *)
Definition split_at {A} (n : nat) (l : list A) : result (list A * list A) :=
  if (n <=? length l)%nat then Ok (firstn n l, skipn n l) else Fault OutOfBounds.
