(* Model of crates/trippy-packet/src/checksum.rs *)
From TV Require Import Base.Result.

(* sum_be_words: big-endian 16-bit words, word [ign] skipped, odd tail = byte << 8
   (the tail is skipped too when its word index equals [ign]). *)
Fixpoint sum_words (d : list Z) (i ign : Z) : Z :=
  match d with
  | a :: b :: t => (if i =? ign then 0 else a * 256 + b) + sum_words t (i + 1) ign
  | [a] => if i =? ign then 0 else a * 256
  | [] => 0
  end.

Definition sum_be_words (d : list Z) (ign : Z) : Z := sum_words d 0 ign.

(* while sum >> 16 != 0 { sum = (sum >> 16) + (sum & 0xFFFF) } ; fuel-bounded *)
Definition fold1 (s : Z) : Z := s / 65536 + s mod 65536.
Fixpoint fold_loop (fuel : nat) (s : Z) : Z :=
  match fuel with
  | O => s
  | S f => if s / 65536 =? 0 then s else fold_loop f (fold1 s)
  end.
(* !sum as u16, for a u32 sum *)
Definition finalize_checksum (s : Z) : Z := 65535 - (fold_loop 3 (s mod 4294967296)) mod 65536.

Definition checksum (d : list Z) (ign : Z) : Z :=
  match d with [] => 0 | _ => finalize_checksum (sum_be_words d ign) end.

Definition word_sum (l : list Z) : Z := sum_words l 0 (-1).

(* src, dst: address octets (4 or 16) *)
Definition ip_checksum (d : list Z) (ign : Z) (src dst : list Z) (proto : Z) : Z :=
  finalize_checksum (word_sum src + word_sum dst + proto + Z.of_nat (length d) + sum_be_words d ign).

Definition ipv4_header_checksum d := checksum d 5.
Definition icmp_ipv4_checksum d := checksum d 1.
Definition icmp_ipv6_checksum d src dst := ip_checksum d 1 src dst 58.
Definition udp_ipv4_checksum d src dst := ip_checksum d 3 src dst 17.
Definition tcp_ipv4_checksum d src dst := ip_checksum d 8 src dst 6.
Definition udp_ipv6_checksum d src dst := ip_checksum d 3 src dst 17.

(* ---- RFC 1071 specification ---- *)
(* the one's-complement sum of a multiset of 16-bit words whose plain sum is s>0 is the
   representative of s modulo 65535 in 1..65535; of an all-zero sum it is 0 *)
Definition oc_norm (s : Z) : Z := if s =? 0 then 0 else (s - 1) mod 65535 + 1.
(* 16-bit big-endian words of a byte string, zero padded *)
Fixpoint words (d : list Z) : list Z :=
  match d with
  | a :: b :: t => (a * 256 + b) :: words t
  | [a] => [a * 256]
  | [] => []
  end.
Definition zsum (l : list Z) : Z := fold_right Z.add 0 l.
(* replace 16-bit word k (bytes 2k, 2k+1) by value v *)
Fixpoint put_word (k : nat) (v : Z) (d : list Z) : list Z :=
  match k, d with
  | O, _ :: _ :: t => (v / 256) :: (v mod 256) :: t
  | S k', a :: b :: t => a :: b :: put_word k' v t
  | _, _ => d
  end.
Definition rfc1071 (pseudo : Z) (d : list Z) (k : nat) : Z :=
  65535 - oc_norm (pseudo + zsum (words (put_word k 0 d))).

(* ---- Paris: dispatch_udp_probe_raw with PARIS_CHECKSUM (ipv4.rs / ipv6.rs) ---- *)
Definition get_word (k : nat) (d : list Z) : Z := nth (2 * k) d 0 * 256 + nth (2 * k + 1) d 0.
Definition be_bytes (v : Z) : list Z := [v / 256; v mod 256].
(* make_udp_packet with the 2-byte payload [seq]; udp_buf starts zeroed *)
Definition paris_udp_initial (sp dp seq : Z) : list Z :=
  be_bytes sp ++ be_bytes dp ++ be_bytes 10 ++ [0; 0] ++ be_bytes seq.
Definition paris_udp (sp dp seq : Z) (src dst : list Z) : list Z :=
  let u0 := paris_udp_initial sp dp seq in
  let u1 := put_word 3 (ip_checksum u0 3 src dst 17) u0 in
  let c := get_word 3 u1 in          (* udp.get_checksum() *)
  let p := get_word 4 u1 in          (* the payload read as u16 *)
  put_word 4 c (put_word 3 p u1).
