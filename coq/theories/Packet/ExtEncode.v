(* SPECIFICATION side of C14, second part.  Executable definitions only - no proofs in this file, nothing here is
   used by a model (Packet/IcmpExt.v, Net/Recv*.v stay as they are), nothing here is extracted.

   1. An ENCODER for the structure the tracer REPORTS (trippy-core probe.rs `Extensions`, modelled as
      [list Extension] in Packet/IcmpExt.v): RFC 4884 s.7 extension header (version 2, reserved 0, RFC 1071
      checksum), s.7.1 object headers (length including the 4-octet header, class-num, c-type), RFC 4950 s.3
      label stack entries (label 20 bits, EXP 3 bits, S 1 bit, TTL 8 bits).  It is the composition of the builder
      of Packet/Rfc4884.v with the obvious embedding of the reported structure into the builder's input, so that
      "parse (encode s) = s" can be stated literally.
   2. Closed forms ("what exactly is returned") for extension_splitter::split. *)
From TV Require Import Base.Result Packet.ByteOps Packet.Checksum Packet.IcmpExt Packet.Rfc4884.

(* ---- 1. encoder ---- *)
Definition member_lse (m : MplsLabelStackMember) : lse :=
  {| lse_label := mpls_label m; lse_exp := mpls_exp m; lse_s := mpls_bos m; lse_ttl := mpls_ttl m |}.

(* RFC 4950 s.3: class-num 1, c-type 1 (incoming stack).  The c-type of an MPLS object is not part of what the
   tracer reports (Extension::Mpls carries the members only), so the encoder fixes it. *)
Definition MPLS_CTYPE : Z := 1.

Definition ext_object_of (e : Extension) : ext_object :=
  match e with
  | ExtMpls ms => ObjMpls MPLS_CTYPE (map member_lse ms)
  | ExtUnknown c s b => ObjOther c s b
  end.

(* the extension structure (header + objects) *)
Definition encode_extensions (es : list Extension) : list Z := ext_structure (map ext_object_of es).

(* the whole ICMP message: 8-octet ICMP header ([fixed] = its seven octets other than the length attribute),
   original datagram field, extension structure *)
Definition encode_message (fam : family) (fixed orig : list Z) (es : list Extension) (mode : build_mode) : list Z :=
  build_message fam fixed orig (map ext_object_of es) mode.

(* field widths of a reported structure *)
Definition member_wf (m : MplsLabelStackMember) : Prop :=
  0 <= mpls_label m < 1048576 /\ 0 <= mpls_exp m < 8 /\ 0 <= mpls_bos m < 2 /\ 0 <= mpls_ttl m < 256.

(* An MPLS stack is reported up to and including its first entry with S = 1 (MplsLabelStackIter stops there), so a
   REPORTED stack has S = 1 at most on its last entry; it is never empty (an MPLS object without a complete entry
   is an error, see c14_short_mpls_object_is_an_error).  Class 1 is never reported as Unknown. *)
Definition ext_wf (e : Extension) : Prop :=
  match e with
  | ExtMpls ms => ms <> [] /\ Forall member_wf ms /\ Forall (fun m => mpls_bos m = 0) (removelast ms) /\
                  4 + 4 * Z.of_nat (length ms) <= 65535
  | ExtUnknown c s b => 0 <= c < 256 /\ c <> 1 /\ 0 <= s < 256 /\ 4 + Z.of_nat (length b) <= 65535
  end.

(* ---- 2. extension_splitter::split in closed form ----
   [len] = the RFC 4884 length attribute in octets, [l] = the ICMP payload (everything after the 8-octet header).
   [cut] is where the extension structure is looked for; it is accepted only when at least the 4-octet extension
   header follows. *)
Definition split_cut (len : nat) : nat := if (128 <? len)%nat then len else 128%nat.
Definition split_keep (len : nat) : nat := if (0 <? len)%nat then len else 128%nat.

Definition split_spec (len : nat) (l : list Z) : list Z * option (list Z) :=
  if (length l <? len)%nat || (length l <=? 128)%nat || (length l <? split_cut len + 4)%nat
  then (l, None)
  else (firstn (split_keep len) l, Some (skipn (split_cut len) l)).

(* ---- 3. the object iterator and the label stack iterator without their state ----
   the length field of the object that starts at [rest] *)
Definition declared_length (rest : list Z) : nat := Z.to_nat (nth 0 rest 0 * 256 + nth 1 rest 0).
(* ExtensionObjectIter::next returns None: fewer than 4 octets left, or a length field below the header size, or
   beyond what is left *)
Definition object_stops (rest : list Z) : bool :=
  (length rest <? 4)%nat || (declared_length rest <? 4)%nat || (length rest <? declared_length rest)%nat.
(* the S bit of the label stack entry that starts at [rest] *)
Definition entry_bottom (rest : list Z) : bool := Z.odd (nth 2 rest 0).
