(* Packet/Fields.v - MODEL of the header-field accessors of crates/trippy-packet
   (ipv4.rs, ipv6.rs, udp.rs, tcp.rs, icmpv4.rs, icmpv6.rs, icmp_extension.rs, buffer.rs).

   One definition per Rust get_*/set_* method, written with the code's own byte offsets, masks and
   shifts.  Bytes, u8/u16/u32 values are Z; the buffer is a [list Z]; a Rust index panic is
   [Fault OutOfBounds] (Buffer::read / write / get_bytes / set_bytes are bounds checked).
   u8 `<<` loses the bits shifted out (it does not panic): [shl8].  `&` `|` `>>` are Z.land Z.lor Z.shiftr.
   `uN::from_be_bytes` / `to_be_bytes` are [be_val] / [be_bytes N].
   Ipv4Addr / Ipv6Addr values are their octet lists (Ipv4Addr::from([u8;4]) / .octets()).
   Enum-typed fields (IpProtocol, IcmpType, ClassNum) are modelled with the enum, its `id()` and `From<u8>`;
   the newtypes IcmpCode(u8) / ClassSubType(u8) are the u8 itself.

   NOT modelled here (out of scope of C12): payload / set_payload / payload_raw / extension /
   get_options_raw(_mut) / the object and label-stack iterators / Debug impls.

   DEVIATION FROM THE PINNED CODE, on purpose: Ipv6Packet::set_flow_label is modelled as FIXED, i.e. the
   u32 argument is masked with 0x000F_FFFF before its bytes are used.  The pinned code ORs bytes[1] of the
   unmasked argument into byte 1 and so overwrites the low nibble of the traffic class when bits 20..23 of
   the argument are set (finding F5); the harness oracle reports those cases as C12 violations until
   /repo is fixed.

   Field table (bit offset and width as in the RFC header diagrams; bit 0 = MSB of byte 0):

   type (minimum size)                   field                      off  w    setter arg  reference
   ------------------------------------- -------------------------- ---- ---- ----------- ------------------------
   Ipv4Packet (20)                       version                      0    4  u8          RFC 791 3.1
                                         header_length                4    4  u8          RFC 791 3.1 (IHL)
                                         dscp                         8    6  u8          RFC 2474 3 (RFC 791 TOS octet)
                                         ecn                         14    2  u8          RFC 3168 5
                                         tos                          8    8  u8          RFC 791 3.1
                                         total_length                16   16  u16         RFC 791 3.1
                                         identification              32   16  u16         RFC 791 3.1
                                         flags_and_fragment_offset   48   16  u16         RFC 791 3.1 (3 + 13 bits)
                                         ttl                         64    8  u8          RFC 791 3.1
                                         protocol                    72    8  IpProtocol  RFC 791 3.1
                                         checksum                    80   16  u16         RFC 791 3.1
                                         source                      96   32  Ipv4Addr    RFC 791 3.1
                                         destination                128   32  Ipv4Addr    RFC 791 3.1
   Ipv6Packet (40)                       version                      0    4  u8          RFC 8200 3
                                         traffic_class                4    8  u8          RFC 8200 3
                                         flow_label                  12   20  u32         RFC 8200 3
                                         payload_length              32   16  u16         RFC 8200 3
                                         next_header                 48    8  IpProtocol  RFC 8200 3
                                         hop_limit                   56    8  u8          RFC 8200 3
                                         source_address              64  128  Ipv6Addr    RFC 8200 3
                                         destination_address        192  128  Ipv6Addr    RFC 8200 3
   UdpPacket (8)                         source                       0   16  u16         RFC 768
                                         destination                 16   16  u16         RFC 768
                                         length                      32   16  u16         RFC 768
                                         checksum                    48   16  u16         RFC 768
   TcpPacket (20)                        source                       0   16  u16         RFC 9293 3.1
                                         destination                 16   16  u16         RFC 9293 3.1
                                         sequence                    32   32  u32         RFC 9293 3.1
                                         acknowledgement             64   32  u32         RFC 9293 3.1
                                         data_offset                 96    4  u8          RFC 9293 3.1
                                         reserved                   100    3  u8          RFC 3540 (RFC 9293: Rsrvd is 4 bits, 100..103)
                                         flags                      103    9  u16         RFC 3540 NS + RFC 9293 CWR..FIN (RFC 9293: 8 bits, 104..111)
                                         window_size                112   16  u16         RFC 9293 3.1
                                         checksum                   128   16  u16         RFC 9293 3.1
                                         urgent_pointer             144   16  u16         RFC 9293 3.1
   icmpv4::IcmpPacket (8)                icmp_type                    0    8  IcmpType    RFC 792
                                         icmp_code                    8    8  IcmpCode    RFC 792
                                         checksum                    16   16  u16         RFC 792
   icmpv4 EchoRequest / EchoReply (8)    icmp_type, icmp_code, checksum as above
                                         identifier                  32   16  u16         RFC 792
                                         sequence                    48   16  u16         RFC 792
   icmpv4 TimeExceededPacket (8)         icmp_type, icmp_code, checksum as above
                                         length                      40    8  u8          RFC 4884 4.1 (second octet of the unused word)
   icmpv4 DestinationUnreachable (8)     icmp_type, icmp_code, checksum as above
                                         length                      40    8  u8          RFC 4884 4.2
                                         next_hop_mtu                48   16  u16         RFC 1191 4 / RFC 4884 4.2
   icmpv6::IcmpPacket (8)                icmp_type                    0    8  IcmpType    RFC 4443 2.1
                                         icmp_code                    8    8  IcmpCode    RFC 4443 2.1
                                         checksum                    16   16  u16         RFC 4443 2.1
   icmpv6 EchoRequest / EchoReply (8)    + identifier                32   16  u16         RFC 4443 4.1 / 4.2
                                         + sequence                  48   16  u16         RFC 4443 4.1 / 4.2
   icmpv6 TimeExceededPacket (8)         + length                    32    8  u8          RFC 4884 4.4 (first octet of the unused word)
   icmpv6 DestinationUnreachable (8)     + length                    32    8  u8          RFC 4884 4.3
                                         + next_hop_mtu              48   16  u16         none: RFC 4443 3.1 / RFC 4884 4.3 leave octets 5..7
                                                                                          unused (the MTU of ICMPv6 lives in Packet Too Big, 32..63)
   ExtensionHeaderPacket (4)             version                      0    4  u8          RFC 4884 7
                                         checksum                    16   16  u16         RFC 4884 7
   ExtensionObjectPacket (4)             length                       0   16  u16         RFC 4884 7.1
                                         class_num                   16    8  ClassNum    RFC 4884 7.1
                                         class_subtype               24    8  ClassSubType RFC 4884 7.1 (C-Type)
   MplsLabelStackMemberPacket (4)        label                        0   20  u32         RFC 4950 3 / RFC 3032 2.1
                                         exp                         20    3  u8          RFC 4950 3 (EXP / TC)
                                         bos                         23    1  u8          RFC 4950 3 (S)
                                         ttl                         24    8  u8          RFC 4950 3
   ExtensionsPacket (4), MplsLabelStackPacket (4): no scalar fields, only new / new_view.            *)
From TV Require Import Base.Result Base.Bits.

(* ---------------------------------------------------------------------------------------------- *)
(* buffer.rs                                                                                       *)

(* Buffer::read(offset) *)
Definition rd (i : nat) (buf : list Z) : result Z := index i buf.
(* *Buffer::write(offset) = x *)
Definition wr (i : nat) (x : Z) (buf : list Z) : result (list Z) :=
  if (i <? length buf)%nat then Ok (firstn i buf ++ x :: skipn (S i) buf) else Fault OutOfBounds.
(* Buffer::get_bytes::<N>(offset) *)
Definition get_bytes (off n : nat) (buf : list Z) : result (list Z) := slice off (off + n) buf.
(* Buffer::set_bytes::<N>(offset, bytes) : as_slice_mut()[offset..offset + N].copy_from_slice(&bytes) *)
Definition set_bytes (off : nat) (bs : list Z) (buf : list Z) : result (list Z) :=
  if (off + length bs <=? length buf)%nat
  then Ok (firstn off buf ++ bs ++ skipn (off + length bs) buf)
  else Fault OutOfBounds.

(* u8 << n and u32 << n: the bits shifted out are dropped *)
Definition shl8 (x : Z) (n : Z) : Z := Z.land (Z.shiftl x n) 0xff.
Definition shl32 (x : Z) (n : Z) : Z := Z.land (Z.shiftl x n) 0xffffffff.

(* Xxx::new / Xxx::new_view: the same size check; the buffer itself is the packet *)
Definition pkt_new (min : nat) (buf : list Z) : result (list Z) :=
  if (min <=? length buf)%nat then Ok buf else Err EPacket.

(* ---------------------------------------------------------------------------------------------- *)
(* accessor shapes that occur verbatim in several packet types                                      *)

(* self.buf.read(OFF) *)
Definition get_u8_at (i : nat) (buf : list Z) : result Z := rd i buf.
(* *self.buf.write(OFF) = val *)
Definition set_u8_at (i : nat) (v : Z) (buf : list Z) : result (list Z) := wr i v buf.
(* u16::from_be_bytes(self.buf.get_bytes(OFF)) *)
Definition get_u16_at (i : nat) (buf : list Z) : result Z := let* bs := get_bytes i 2 buf in Ok (be_val bs).
(* self.buf.set_bytes(OFF, val.to_be_bytes()) *)
Definition set_u16_at (i : nat) (v : Z) (buf : list Z) : result (list Z) := set_bytes i (be_bytes 2 v) buf.
Definition get_u32_at (i : nat) (buf : list Z) : result Z := let* bs := get_bytes i 4 buf in Ok (be_val bs).
Definition set_u32_at (i : nat) (v : Z) (buf : list Z) : result (list Z) := set_bytes i (be_bytes 4 v) buf.
(* IpvNAddr::from(self.buf.get_bytes(OFF)) / self.buf.set_bytes(OFF, val.octets()) *)
Definition get_addr_at (i n : nat) (buf : list Z) : result (list Z) := get_bytes i n buf.
Definition set_addr_at (i : nat) (octets : list Z) (buf : list Z) : result (list Z) := set_bytes i octets buf.
(* (self.buf.read(OFF) & 0xf0) >> 4 *)
Definition get_hi_nibble (i : nat) (buf : list Z) : result Z :=
  let* b := rd i buf in Ok (Z.shiftr (Z.land b 0xf0) 4).
(* *self.buf.write(OFF) = (self.buf.read(OFF) & 0xf) | ((val & 0xf) << 4) *)
Definition set_hi_nibble (i : nat) (v : Z) (buf : list Z) : result (list Z) :=
  let* b := rd i buf in wr i (Z.lor (Z.land b 0xf) (shl8 (Z.land v 0xf) 4)) buf.

(* ---------------------------------------------------------------------------------------------- *)
(* lib.rs: IpProtocol                                                                              *)

Inductive ip_protocol := IpIcmp | IpIcmpV6 | IpUdp | IpTcp | IpOther (id : Z).
Definition ip_protocol_id (p : ip_protocol) : Z :=
  match p with IpIcmp => 1 | IpIcmpV6 => 58 | IpUdp => 17 | IpTcp => 6 | IpOther id => id end.
Definition ip_protocol_from (b : Z) : ip_protocol :=
  if b =? 1 then IpIcmp else if b =? 58 then IpIcmpV6 else if b =? 17 then IpUdp else if b =? 6 then IpTcp
  else IpOther b.

(* ---------------------------------------------------------------------------------------------- *)
(* ipv4.rs                                                                                         *)

Definition ipv4_minimum_packet_size : nat := 20.
Definition ipv4_new := pkt_new ipv4_minimum_packet_size.
Definition ipv4_new_view := pkt_new ipv4_minimum_packet_size.

Definition ipv4_get_version := get_hi_nibble 0.
Definition ipv4_get_header_length (buf : list Z) : result Z := let* b := rd 0 buf in Ok (Z.land b 0xf).
Definition ipv4_get_dscp (buf : list Z) : result Z := let* b := rd 1 buf in Ok (Z.shiftr (Z.land b 0xfc) 2).
Definition ipv4_get_ecn (buf : list Z) : result Z := let* b := rd 1 buf in Ok (Z.land b 0x3).
(* (self.get_dscp() << 2) | self.get_ecn() *)
Definition ipv4_get_tos (buf : list Z) : result Z :=
  let* d := ipv4_get_dscp buf in let* e := ipv4_get_ecn buf in Ok (Z.lor (shl8 d 2) e).
Definition ipv4_get_total_length := get_u16_at 2.
Definition ipv4_get_identification := get_u16_at 4.
Definition ipv4_get_flags_and_fragment_offset := get_u16_at 6.
Definition ipv4_get_ttl := get_u8_at 8.
Definition ipv4_get_protocol (buf : list Z) : result ip_protocol := let* b := rd 9 buf in Ok (ip_protocol_from b).
Definition ipv4_get_checksum := get_u16_at 10.
Definition ipv4_get_source := get_addr_at 12 4.
Definition ipv4_get_destination := get_addr_at 16 4.

Definition ipv4_set_version := set_hi_nibble 0.
Definition ipv4_set_header_length (v : Z) (buf : list Z) : result (list Z) :=
  let* b := rd 0 buf in wr 0 (Z.lor (Z.land b 0xf0) (Z.land v 0xf)) buf.
Definition ipv4_set_dscp (v : Z) (buf : list Z) : result (list Z) :=
  let* b := rd 1 buf in wr 1 (Z.lor (Z.land b 0x3) (shl8 (Z.land v 0x3f) 2)) buf.
Definition ipv4_set_ecn (v : Z) (buf : list Z) : result (list Z) :=
  let* b := rd 1 buf in wr 1 (Z.lor (Z.land b 0xfc) (Z.land v 0x3)) buf.
(* self.set_dscp((val & 0xfc) >> 2); self.set_ecn(val & 0x3) *)
Definition ipv4_set_tos (v : Z) (buf : list Z) : result (list Z) :=
  let* buf1 := ipv4_set_dscp (Z.shiftr (Z.land v 0xfc) 2) buf in ipv4_set_ecn (Z.land v 0x3) buf1.
Definition ipv4_set_total_length := set_u16_at 2.
Definition ipv4_set_identification := set_u16_at 4.
Definition ipv4_set_flags_and_fragment_offset := set_u16_at 6.
Definition ipv4_set_ttl := set_u8_at 8.
Definition ipv4_set_protocol (p : ip_protocol) (buf : list Z) : result (list Z) := wr 9 (ip_protocol_id p) buf.
Definition ipv4_set_checksum := set_u16_at 10.
Definition ipv4_set_source := set_addr_at 12.
Definition ipv4_set_destination := set_addr_at 16.

(* ---------------------------------------------------------------------------------------------- *)
(* ipv6.rs                                                                                         *)

Definition ipv6_minimum_packet_size : nat := 40.
Definition ipv6_new := pkt_new ipv6_minimum_packet_size.
Definition ipv6_new_view := pkt_new ipv6_minimum_packet_size.

Definition ipv6_get_version := get_hi_nibble 0.
Definition ipv6_get_traffic_class (buf : list Z) : result Z :=
  let* a := rd 0 buf in
  let* b := rd 1 buf in
  Ok (Z.lor (shl8 (Z.land a 0xf) 4) (Z.shiftr (Z.land b 0xf0) 4)).
Definition ipv6_get_flow_label (buf : list Z) : result Z :=
  let* b1 := rd 1 buf in
  let* b2 := rd 2 buf in
  let* b3 := rd 3 buf in
  Ok (be_val [0; Z.land b1 0xf; b2; b3]).
Definition ipv6_get_payload_length := get_u16_at 4.
Definition ipv6_get_next_header (buf : list Z) : result ip_protocol := let* b := rd 6 buf in Ok (ip_protocol_from b).
Definition ipv6_get_hop_limit := get_u8_at 7.
Definition ipv6_get_source_address := get_addr_at 8 16.
Definition ipv6_get_destination_address := get_addr_at 24 16.

Definition ipv6_set_version := set_hi_nibble 0.
Definition ipv6_set_traffic_class (v : Z) (buf : list Z) : result (list Z) :=
  let* a := rd 0 buf in
  let* buf1 := wr 0 (Z.lor (Z.land a 0xf0) (Z.shiftr (Z.land v 0xf0) 4)) buf in
  let* b := rd 1 buf1 in
  wr 1 (Z.lor (Z.land b 0xf) (shl8 (Z.land v 0xf) 4)) buf1.
(* FIXED behaviour (see the header): let bytes = (val & 0x000F_FFFF).to_be_bytes(); *)
Definition ipv6_set_flow_label (v : Z) (buf : list Z) : result (list Z) :=
  let bytes := be_bytes 4 (Z.land v 0x000fffff) in
  let* b := rd 1 buf in
  let* buf1 := wr 1 (Z.lor (Z.land b 0xf0) (nth 1 bytes 0)) buf in
  let* buf2 := wr 2 (nth 2 bytes 0) buf1 in
  wr 3 (nth 3 bytes 0) buf2.
Definition ipv6_set_payload_length := set_u16_at 4.
Definition ipv6_set_next_header (p : ip_protocol) (buf : list Z) : result (list Z) := wr 6 (ip_protocol_id p) buf.
Definition ipv6_set_hop_limit := set_u8_at 7.
Definition ipv6_set_source_address := set_addr_at 8.
Definition ipv6_set_destination_address := set_addr_at 24.

(* ---------------------------------------------------------------------------------------------- *)
(* udp.rs                                                                                          *)

Definition udp_minimum_packet_size : nat := 8.
Definition udp_new := pkt_new udp_minimum_packet_size.
Definition udp_new_view := pkt_new udp_minimum_packet_size.
Definition udp_get_source := get_u16_at 0.
Definition udp_get_destination := get_u16_at 2.
Definition udp_get_length := get_u16_at 4.
Definition udp_get_checksum := get_u16_at 6.
Definition udp_set_source := set_u16_at 0.
Definition udp_set_destination := set_u16_at 2.
Definition udp_set_length := set_u16_at 4.
Definition udp_set_checksum := set_u16_at 6.

(* ---------------------------------------------------------------------------------------------- *)
(* tcp.rs                                                                                          *)

Definition tcp_minimum_packet_size : nat := 20.
Definition tcp_new := pkt_new tcp_minimum_packet_size.
Definition tcp_new_view := pkt_new tcp_minimum_packet_size.
Definition tcp_get_source := get_u16_at 0.
Definition tcp_get_destination := get_u16_at 2.
Definition tcp_get_sequence := get_u32_at 4.
Definition tcp_get_acknowledgement := get_u32_at 8.
Definition tcp_get_data_offset := get_hi_nibble 12.
Definition tcp_get_reserved (buf : list Z) : result Z := let* b := rd 12 buf in Ok (Z.shiftr (Z.land b 0xe) 1).
Definition tcp_get_flags (buf : list Z) : result Z :=
  let* a := rd 12 buf in
  let* b := rd 13 buf in
  Ok (be_val [Z.land a 0x1; b]).
Definition tcp_get_window_size := get_u16_at 14.
Definition tcp_get_checksum := get_u16_at 16.
Definition tcp_get_urgent_pointer := get_u16_at 18.
Definition tcp_set_source := set_u16_at 0.
Definition tcp_set_destination := set_u16_at 2.
Definition tcp_set_sequence := set_u32_at 4.
Definition tcp_set_acknowledgement := set_u32_at 8.
Definition tcp_set_data_offset := set_hi_nibble 12.
Definition tcp_set_reserved (v : Z) (buf : list Z) : result (list Z) :=
  let* b := rd 12 buf in wr 12 (Z.lor (Z.land b 0xf1) (shl8 (Z.land v 0x7) 1)) buf.
Definition tcp_set_flags (v : Z) (buf : list Z) : result (list Z) :=
  let bytes := be_bytes 2 v in
  let* a := rd 12 buf in
  let* buf1 := wr 12 (Z.lor (Z.land a 0xfe) (Z.land (nth 0 bytes 0) 0x1)) buf in
  wr 13 (nth 1 bytes 0) buf1.
Definition tcp_set_window_size := set_u16_at 14.
Definition tcp_set_checksum := set_u16_at 16.
Definition tcp_set_urgent_pointer := set_u16_at 18.

(* ---------------------------------------------------------------------------------------------- *)
(* icmpv4.rs                                                                                       *)

Inductive icmp4_type := I4EchoRequest | I4EchoReply | I4DestinationUnreachable | I4TimeExceeded | I4Other (id : Z).
Definition icmp4_type_id (t : icmp4_type) : Z :=
  match t with I4EchoRequest => 8 | I4EchoReply => 0 | I4DestinationUnreachable => 3 | I4TimeExceeded => 11
  | I4Other id => id end.
Definition icmp4_type_from (b : Z) : icmp4_type :=
  if b =? 8 then I4EchoRequest else if b =? 0 then I4EchoReply else if b =? 3 then I4DestinationUnreachable
  else if b =? 11 then I4TimeExceeded else I4Other b.

(* the three accessors every ICMPv4 packet type repeats: type at 0, code at 1, checksum at 2 *)
Definition icmp4_get_type_at0 (buf : list Z) : result icmp4_type := let* b := rd 0 buf in Ok (icmp4_type_from b).
Definition icmp4_set_type_at0 (t : icmp4_type) (buf : list Z) : result (list Z) := wr 0 (icmp4_type_id t) buf.

Definition icmp4_minimum_packet_size : nat := 8.
Definition icmp4_new := pkt_new icmp4_minimum_packet_size.
Definition icmp4_new_view := pkt_new icmp4_minimum_packet_size.
Definition icmp4_get_icmp_type := icmp4_get_type_at0.
Definition icmp4_get_icmp_code := get_u8_at 1.
Definition icmp4_get_checksum := get_u16_at 2.
Definition icmp4_set_icmp_type := icmp4_set_type_at0.
Definition icmp4_set_icmp_code := set_u8_at 1.
Definition icmp4_set_checksum := set_u16_at 2.

Definition icmp4_echo_request_minimum_packet_size : nat := 8.
Definition icmp4_echo_request_new := pkt_new icmp4_echo_request_minimum_packet_size.
Definition icmp4_echo_request_new_view := pkt_new icmp4_echo_request_minimum_packet_size.
Definition icmp4_echo_request_get_icmp_type := icmp4_get_type_at0.
Definition icmp4_echo_request_get_icmp_code := get_u8_at 1.
Definition icmp4_echo_request_get_checksum := get_u16_at 2.
Definition icmp4_echo_request_get_identifier := get_u16_at 4.
Definition icmp4_echo_request_get_sequence := get_u16_at 6.
Definition icmp4_echo_request_set_icmp_type := icmp4_set_type_at0.
Definition icmp4_echo_request_set_icmp_code := set_u8_at 1.
Definition icmp4_echo_request_set_checksum := set_u16_at 2.
Definition icmp4_echo_request_set_identifier := set_u16_at 4.
Definition icmp4_echo_request_set_sequence := set_u16_at 6.

Definition icmp4_echo_reply_minimum_packet_size : nat := 8.
Definition icmp4_echo_reply_new := pkt_new icmp4_echo_reply_minimum_packet_size.
Definition icmp4_echo_reply_new_view := pkt_new icmp4_echo_reply_minimum_packet_size.
Definition icmp4_echo_reply_get_icmp_type := icmp4_get_type_at0.
Definition icmp4_echo_reply_get_icmp_code := get_u8_at 1.
Definition icmp4_echo_reply_get_checksum := get_u16_at 2.
Definition icmp4_echo_reply_get_identifier := get_u16_at 4.
Definition icmp4_echo_reply_get_sequence := get_u16_at 6.
Definition icmp4_echo_reply_set_icmp_type := icmp4_set_type_at0.
Definition icmp4_echo_reply_set_icmp_code := set_u8_at 1.
Definition icmp4_echo_reply_set_checksum := set_u16_at 2.
Definition icmp4_echo_reply_set_identifier := set_u16_at 4.
Definition icmp4_echo_reply_set_sequence := set_u16_at 6.

Definition icmp4_time_exceeded_minimum_packet_size : nat := 8.
Definition icmp4_time_exceeded_new := pkt_new icmp4_time_exceeded_minimum_packet_size.
Definition icmp4_time_exceeded_new_view := pkt_new icmp4_time_exceeded_minimum_packet_size.
Definition icmp4_time_exceeded_get_icmp_type := icmp4_get_type_at0.
Definition icmp4_time_exceeded_get_icmp_code := get_u8_at 1.
Definition icmp4_time_exceeded_get_checksum := get_u16_at 2.
Definition icmp4_time_exceeded_get_length := get_u8_at 5.
Definition icmp4_time_exceeded_set_icmp_type := icmp4_set_type_at0.
Definition icmp4_time_exceeded_set_icmp_code := set_u8_at 1.
Definition icmp4_time_exceeded_set_checksum := set_u16_at 2.
Definition icmp4_time_exceeded_set_length := set_u8_at 5.

Definition icmp4_dest_unreachable_minimum_packet_size : nat := 8.
Definition icmp4_dest_unreachable_new := pkt_new icmp4_dest_unreachable_minimum_packet_size.
Definition icmp4_dest_unreachable_new_view := pkt_new icmp4_dest_unreachable_minimum_packet_size.
Definition icmp4_dest_unreachable_get_icmp_type := icmp4_get_type_at0.
Definition icmp4_dest_unreachable_get_icmp_code := get_u8_at 1.
Definition icmp4_dest_unreachable_get_checksum := get_u16_at 2.
Definition icmp4_dest_unreachable_get_length := get_u8_at 5.
Definition icmp4_dest_unreachable_get_next_hop_mtu := get_u16_at 6.
Definition icmp4_dest_unreachable_set_icmp_type := icmp4_set_type_at0.
Definition icmp4_dest_unreachable_set_icmp_code := set_u8_at 1.
Definition icmp4_dest_unreachable_set_checksum := set_u16_at 2.
Definition icmp4_dest_unreachable_set_length := set_u8_at 5.
Definition icmp4_dest_unreachable_set_next_hop_mtu := set_u16_at 6.

(* ---------------------------------------------------------------------------------------------- *)
(* icmpv6.rs                                                                                       *)

Inductive icmp6_type := I6EchoRequest | I6EchoReply | I6DestinationUnreachable | I6TimeExceeded | I6Other (id : Z).
Definition icmp6_type_id (t : icmp6_type) : Z :=
  match t with I6EchoRequest => 128 | I6EchoReply => 129 | I6DestinationUnreachable => 1 | I6TimeExceeded => 3
  | I6Other id => id end.
Definition icmp6_type_from (b : Z) : icmp6_type :=
  if b =? 128 then I6EchoRequest else if b =? 129 then I6EchoReply else if b =? 1 then I6DestinationUnreachable
  else if b =? 3 then I6TimeExceeded else I6Other b.

Definition icmp6_get_type_at0 (buf : list Z) : result icmp6_type := let* b := rd 0 buf in Ok (icmp6_type_from b).
Definition icmp6_set_type_at0 (t : icmp6_type) (buf : list Z) : result (list Z) := wr 0 (icmp6_type_id t) buf.

Definition icmp6_minimum_packet_size : nat := 8.
Definition icmp6_new := pkt_new icmp6_minimum_packet_size.
Definition icmp6_new_view := pkt_new icmp6_minimum_packet_size.
Definition icmp6_get_icmp_type := icmp6_get_type_at0.
Definition icmp6_get_icmp_code := get_u8_at 1.
Definition icmp6_get_checksum := get_u16_at 2.
Definition icmp6_set_icmp_type := icmp6_set_type_at0.
Definition icmp6_set_icmp_code := set_u8_at 1.
Definition icmp6_set_checksum := set_u16_at 2.

Definition icmp6_echo_request_minimum_packet_size : nat := 8.
Definition icmp6_echo_request_new := pkt_new icmp6_echo_request_minimum_packet_size.
Definition icmp6_echo_request_new_view := pkt_new icmp6_echo_request_minimum_packet_size.
Definition icmp6_echo_request_get_icmp_type := icmp6_get_type_at0.
Definition icmp6_echo_request_get_icmp_code := get_u8_at 1.
Definition icmp6_echo_request_get_checksum := get_u16_at 2.
Definition icmp6_echo_request_get_identifier := get_u16_at 4.
Definition icmp6_echo_request_get_sequence := get_u16_at 6.
Definition icmp6_echo_request_set_icmp_type := icmp6_set_type_at0.
Definition icmp6_echo_request_set_icmp_code := set_u8_at 1.
Definition icmp6_echo_request_set_checksum := set_u16_at 2.
Definition icmp6_echo_request_set_identifier := set_u16_at 4.
Definition icmp6_echo_request_set_sequence := set_u16_at 6.

Definition icmp6_echo_reply_minimum_packet_size : nat := 8.
Definition icmp6_echo_reply_new := pkt_new icmp6_echo_reply_minimum_packet_size.
Definition icmp6_echo_reply_new_view := pkt_new icmp6_echo_reply_minimum_packet_size.
Definition icmp6_echo_reply_get_icmp_type := icmp6_get_type_at0.
Definition icmp6_echo_reply_get_icmp_code := get_u8_at 1.
Definition icmp6_echo_reply_get_checksum := get_u16_at 2.
Definition icmp6_echo_reply_get_identifier := get_u16_at 4.
Definition icmp6_echo_reply_get_sequence := get_u16_at 6.
Definition icmp6_echo_reply_set_icmp_type := icmp6_set_type_at0.
Definition icmp6_echo_reply_set_icmp_code := set_u8_at 1.
Definition icmp6_echo_reply_set_checksum := set_u16_at 2.
Definition icmp6_echo_reply_set_identifier := set_u16_at 4.
Definition icmp6_echo_reply_set_sequence := set_u16_at 6.

Definition icmp6_time_exceeded_minimum_packet_size : nat := 8.
Definition icmp6_time_exceeded_new := pkt_new icmp6_time_exceeded_minimum_packet_size.
Definition icmp6_time_exceeded_new_view := pkt_new icmp6_time_exceeded_minimum_packet_size.
Definition icmp6_time_exceeded_get_icmp_type := icmp6_get_type_at0.
Definition icmp6_time_exceeded_get_icmp_code := get_u8_at 1.
Definition icmp6_time_exceeded_get_checksum := get_u16_at 2.
Definition icmp6_time_exceeded_get_length := get_u8_at 4.
Definition icmp6_time_exceeded_set_icmp_type := icmp6_set_type_at0.
Definition icmp6_time_exceeded_set_icmp_code := set_u8_at 1.
Definition icmp6_time_exceeded_set_checksum := set_u16_at 2.
Definition icmp6_time_exceeded_set_length := set_u8_at 4.

Definition icmp6_dest_unreachable_minimum_packet_size : nat := 8.
Definition icmp6_dest_unreachable_new := pkt_new icmp6_dest_unreachable_minimum_packet_size.
Definition icmp6_dest_unreachable_new_view := pkt_new icmp6_dest_unreachable_minimum_packet_size.
Definition icmp6_dest_unreachable_get_icmp_type := icmp6_get_type_at0.
Definition icmp6_dest_unreachable_get_icmp_code := get_u8_at 1.
Definition icmp6_dest_unreachable_get_checksum := get_u16_at 2.
Definition icmp6_dest_unreachable_get_length := get_u8_at 4.
Definition icmp6_dest_unreachable_get_next_hop_mtu := get_u16_at 6.
Definition icmp6_dest_unreachable_set_icmp_type := icmp6_set_type_at0.
Definition icmp6_dest_unreachable_set_icmp_code := set_u8_at 1.
Definition icmp6_dest_unreachable_set_checksum := set_u16_at 2.
Definition icmp6_dest_unreachable_set_length := set_u8_at 4.
Definition icmp6_dest_unreachable_set_next_hop_mtu := set_u16_at 6.

(* ---------------------------------------------------------------------------------------------- *)
(* icmp_extension.rs                                                                               *)

Definition extensions_minimum_packet_size : nat := 4.
Definition extensions_new := pkt_new extensions_minimum_packet_size.
Definition extensions_new_view := pkt_new extensions_minimum_packet_size.

Definition ext_header_minimum_packet_size : nat := 4.
Definition ext_header_new := pkt_new ext_header_minimum_packet_size.
Definition ext_header_new_view := pkt_new ext_header_minimum_packet_size.
Definition ext_header_get_version := get_hi_nibble 0.
Definition ext_header_get_checksum := get_u16_at 2.
Definition ext_header_set_version := set_hi_nibble 0.
Definition ext_header_set_checksum := set_u16_at 2.

Inductive class_num := CnMpls | CnInterfaceInformation | CnInterfaceIdentification | CnExtendedInformation
| CnOther (id : Z).
Definition class_num_id (c : class_num) : Z :=
  match c with CnMpls => 1 | CnInterfaceInformation => 2 | CnInterfaceIdentification => 3
  | CnExtendedInformation => 4 | CnOther id => id end.
Definition class_num_from (b : Z) : class_num :=
  if b =? 1 then CnMpls else if b =? 2 then CnInterfaceInformation else if b =? 3 then CnInterfaceIdentification
  else if b =? 4 then CnExtendedInformation else CnOther b.

Definition ext_object_minimum_packet_size : nat := 4.
Definition ext_object_new := pkt_new ext_object_minimum_packet_size.
Definition ext_object_new_view := pkt_new ext_object_minimum_packet_size.
Definition ext_object_get_length := get_u16_at 0.
Definition ext_object_get_class_num (buf : list Z) : result class_num := let* b := rd 2 buf in Ok (class_num_from b).
Definition ext_object_get_class_subtype := get_u8_at 3.
Definition ext_object_set_length := set_u16_at 0.
Definition ext_object_set_class_num (c : class_num) (buf : list Z) : result (list Z) := wr 2 (class_num_id c) buf.
Definition ext_object_set_class_subtype := set_u8_at 3.

Definition mpls_stack_minimum_packet_size : nat := 4.
Definition mpls_stack_new := pkt_new mpls_stack_minimum_packet_size.
Definition mpls_stack_new_view := pkt_new mpls_stack_minimum_packet_size.

Definition mpls_member_minimum_packet_size : nat := 4.
Definition mpls_member_new := pkt_new mpls_member_minimum_packet_size.
Definition mpls_member_new_view := pkt_new mpls_member_minimum_packet_size.
(* u32::from_be_bytes([0, read(0), read(1), read(2)]) >> 4 *)
Definition mpls_member_get_label (buf : list Z) : result Z :=
  let* a := rd 0 buf in
  let* b := rd 1 buf in
  let* c := rd 2 buf in
  Ok (Z.shiftr (be_val [0; a; b; c]) 4).
Definition mpls_member_get_exp (buf : list Z) : result Z := let* b := rd 2 buf in Ok (Z.shiftr (Z.land b 0x0e) 1).
Definition mpls_member_get_bos (buf : list Z) : result Z := let* b := rd 2 buf in Ok (Z.land b 0x01).
Definition mpls_member_get_ttl := get_u8_at 3.
(* let bytes = (val << 4).to_be_bytes(); write(0) = bytes[1]; write(1) = bytes[2];
   write(2) = (read(2) & 0x0f) | (bytes[3] & 0xf0) *)
Definition mpls_member_set_label (v : Z) (buf : list Z) : result (list Z) :=
  let bytes := be_bytes 4 (shl32 v 4) in
  let* buf1 := wr 0 (nth 1 bytes 0) buf in
  let* buf2 := wr 1 (nth 2 bytes 0) buf1 in
  let* c := rd 2 buf2 in
  wr 2 (Z.lor (Z.land c 0x0f) (Z.land (nth 3 bytes 0) 0xf0)) buf2.
Definition mpls_member_set_exp (v : Z) (buf : list Z) : result (list Z) :=
  let* b := rd 2 buf in wr 2 (Z.lor (Z.land b 0xf1) (Z.land (shl8 v 1) 0x0e)) buf.
Definition mpls_member_set_bos (v : Z) (buf : list Z) : result (list Z) :=
  let* b := rd 2 buf in wr 2 (Z.lor (Z.land b 0xfe) (Z.land v 0x01)) buf.
Definition mpls_member_set_ttl := set_u8_at 3.
