(* Model of the ICMP multi-part extension codec (C14, packet half of C04):
     crates/trippy-packet/src/icmp_extension.rs   extension_splitter::split, ExtensionsPacket, ExtensionHeaderPacket,
                                                  ExtensionObjectPacket, ExtensionObjectIter::next,
                                                  MplsLabelStackPacket, MplsLabelStackMemberPacket, MplsLabelStackIter::next
     crates/trippy-packet/src/icmpv4.rs, icmpv6.rs  TimeExceededPacket / DestinationUnreachablePacket
                                                  get_length, payload, payload_raw, extension, split_payload_extension
     crates/trippy-core/src/net/extension.rs      Extensions::try_from, MplsLabelStack::from, MplsLabelStackMember::from,
                                                  UnknownExtension::from
   A packet view is the byte list it was built over (new_view only checks the minimum size).
   Every slice / index of the Rust code is a checked slice / index here (Fault OutOfBounds).
   The model is that of the code AFTER the repairs docs/integration/C14_fix_1.patch (RFC 4884 length byte widened
   before the multiplication) and C04_fix_2.patch (ExtensionObjectPacket::payload clamps the length field);
   the pinned behaviour is kept below as [pinned_*] for the record only.  No proofs in this file. *)
From TV Require Import Base.Result Packet.ByteOps.

Inductive family := FamV4 | FamV6.

(* ------------------------------------------------------------------------------------------
   extension_splitter::split
   ------------------------------------------------------------------------------------------ *)
Definition MIN_HEADER : nat := 4.
Definition ICMP_ORIG_DATAGRAM_MIN_LENGTH : nat := 128.

Definition extension_splitter_split (len : nat) (icmp_payload : list Z) : result (list Z * option (list Z)) :=
  if (length icmp_payload <? len)%nat then Ok (icmp_payload, None)
  else if (ICMP_ORIG_DATAGRAM_MIN_LENGTH <? length icmp_payload)%nat then
    if (ICMP_ORIG_DATAGRAM_MIN_LENGTH <? len)%nat then
      (* a 'compliant' ICMP extension longer than 128 octets *)
      let* pe := split_at len icmp_payload in
      if (MIN_HEADER <=? length (snd pe))%nat then Ok (fst pe, Some (snd pe)) else Ok (icmp_payload, None)
    else if (0 <? len)%nat then
      (* a 'compliant' ICMP extension padded to at least 128 octets: trim to the rfc4884 length *)
      let* pe := split_at ICMP_ORIG_DATAGRAM_MIN_LENGTH icmp_payload in
      if (MIN_HEADER <=? length (snd pe))%nat
      then let* p := slice 0 len (fst pe) in Ok (p, Some (snd pe))
      else Ok (icmp_payload, None)
    else
      (* a 'non-compliant' ICMP extension padded to 128 octets *)
      let* pe := split_at ICMP_ORIG_DATAGRAM_MIN_LENGTH icmp_payload in
      if (MIN_HEADER <=? length (snd pe))%nat then Ok (fst pe, Some (snd pe)) else Ok (icmp_payload, None)
  else Ok (icmp_payload, None).

(* ------------------------------------------------------------------------------------------
   TimeExceededPacket / DestinationUnreachablePacket (icmpv4.rs, icmpv6.rs)
   The two packet types of one family have literally the same code; the families differ in the
   offset of the length byte (5 / 4) and in the word size (4 / 8).
   ------------------------------------------------------------------------------------------ *)
Definition icmp_error_min : nat := 8.
Definition LENGTH_OFFSET (fam : family) : nat := match fam with FamV4 => 5%nat | FamV6 => 4%nat end.
Definition length_unit (fam : family) : Z := match fam with FamV4 => 4 | FamV6 => 8 end.

Definition icmp_error_get_length (fam : family) (buf : list Z) : result Z := pv_buf_read (LENGTH_OFFSET fam) buf.

Definition icmp_error_payload_raw (buf : list Z) : result (list Z) := slice_from icmp_error_min buf.

(* repaired: usize::from(self.get_length()) * 4 (resp. * 8): at most 2040, cannot overflow usize *)
Definition split_payload_extension (fam : family) (buf : list Z) : result (list Z * option (list Z)) :=
  let* l := icmp_error_get_length fam buf in
  let len := Z.to_nat (l * length_unit fam) in
  let* icmp_payload := slice_from icmp_error_min buf in
  extension_splitter_split len icmp_payload.

Definition icmp_error_payload (fam : family) (buf : list Z) : result (list Z) :=
  let* pe := split_payload_extension fam buf in Ok (fst pe).
Definition icmp_error_extension (fam : family) (buf : list Z) : result (option (list Z)) :=
  let* pe := split_payload_extension fam buf in Ok (snd pe).

(* the four functions of the Rust code, by name *)
Definition icmpv4_time_exceeded_split_payload_extension := split_payload_extension FamV4.
Definition icmpv4_destination_unreachable_split_payload_extension := split_payload_extension FamV4.
Definition icmpv6_time_exceeded_split_payload_extension := split_payload_extension FamV6.
Definition icmpv6_destination_unreachable_split_payload_extension := split_payload_extension FamV6.

(* pinned (pre-repair) code: `usize::from(self.get_length() * 4)` - the product is formed in u8 *)
Definition pinned_split_payload_extension (fam : family) (buf : list Z) : result (list Z * option (list Z)) :=
  let* l := icmp_error_get_length fam buf in
  let* l8 := mul8 l (length_unit fam) in
  let* icmp_payload := slice_from icmp_error_min buf in
  extension_splitter_split (Z.to_nat l8) icmp_payload.

(* ------------------------------------------------------------------------------------------
   ExtensionHeaderPacket, ExtensionsPacket, ExtensionObjectPacket
   ------------------------------------------------------------------------------------------ *)
Definition extension_header_get_version (buf : list Z) : result Z :=
  let* b := pv_buf_read 0 buf in Ok (pv_u8_shr (pv_u8_and b 240) 4).
Definition extension_header_get_checksum (buf : list Z) : result Z := buf_get_u16 2 buf.

Definition extensions_header (buf : list Z) : result (list Z) := slice 0 4 buf.

Definition extension_object_get_length (buf : list Z) : result Z := buf_get_u16 0 buf.
Definition extension_object_get_class_num (buf : list Z) : result Z := pv_buf_read 2 buf.
Definition extension_object_get_class_subtype (buf : list Z) : result Z := pv_buf_read 3 buf.
(* repaired: the end of the payload is the length field clamped to [4, buffer length] *)
Definition extension_object_payload (buf : list Z) : result (list Z) :=
  let* l := extension_object_get_length buf in
  let e := Nat.min (Nat.max (Z.to_nat l) 4) (length buf) in
  slice 4 e buf.
(* pinned: &buf[4..usize::from(get_length())] *)
Definition pinned_extension_object_payload (buf : list Z) : result (list Z) :=
  let* l := extension_object_get_length buf in slice 4 (Z.to_nat l) buf.

(* ExtensionObjectIter::next.  Iterator state = offset; returns the item (the bytes from the
   object start to the END of the buffer, as in the code) and the new offset.
   `self.offset += length`: offset <= buffer length and length <= 65535, no usize overflow. *)
Definition extension_object_iter_next (buf : list Z) (offset : nat) : result (option (list Z * nat)) :=
  if (length buf <? offset)%nat then Ok None
  else
    let* object_bytes := slice_from offset buf in
    match new_view 4 object_bytes with
    | Ok object =>
      let* l := extension_object_get_length object in
      let len := Z.to_nat l in
      if (len <? 4)%nat || (length object_bytes <? len)%nat then Ok None
      else Ok (Some (object_bytes, (offset + len)%nat))
    | Err _ => Ok None
    | Fault f => Fault f
    end.

(* `for x in objects()`: fuelled loop, OutOfFuel is excluded by IcmpExtProofs.objects_fuel_enough *)
Fixpoint extension_object_iter_collect (fuel : nat) (buf : list Z) (offset : nat) : result (list (list Z)) :=
  match fuel with
  | O => Fault OutOfFuel
  | S f =>
    let* r := extension_object_iter_next buf offset in
    match r with
    | None => Ok []
    | Some (item, offset') =>
      let* rest := extension_object_iter_collect f buf offset' in Ok (item :: rest)
    end
  end.
Definition iter_fuel (buf : list Z) : nat := (length buf / 4 + 1)%nat.
Definition extensions_objects (buf : list Z) : result (list (list Z)) :=
  extension_object_iter_collect (iter_fuel buf) buf 4.

(* ------------------------------------------------------------------------------------------
   MplsLabelStackMemberPacket, MplsLabelStackIter
   ------------------------------------------------------------------------------------------ *)
Definition pv_mpls_member_get_label (buf : list Z) : result Z :=
  let* a := pv_buf_read 0 buf in let* b := pv_buf_read 1 buf in let* c := pv_buf_read 2 buf in
  Ok (Z.shiftr (from_be_bytes [0; a; b; c]) 4).
Definition pv_mpls_member_get_exp (buf : list Z) : result Z :=
  let* b := pv_buf_read 2 buf in Ok (pv_u8_shr (pv_u8_and b 14) 1).
Definition pv_mpls_member_get_bos (buf : list Z) : result Z :=
  let* b := pv_buf_read 2 buf in Ok (pv_u8_and b 1).
Definition pv_mpls_member_get_ttl (buf : list Z) : result Z := pv_buf_read 3 buf.

(* iterator state = (offset, bos) *)
Definition mpls_label_stack_iter_next (buf : list Z) (offset : nat) (bos : Z)
  : result (option (list Z * nat * Z)) :=
  if (0 <? bos) || (length buf <=? offset)%nat then Ok None
  else
    let* member_bytes := slice_from offset buf in
    match new_view 4 member_bytes with
    | Ok member =>
      let* b := pv_mpls_member_get_bos member in
      Ok (Some (member_bytes, (offset + 4)%nat, b))
    | Err _ => Ok None
    | Fault f => Fault f
    end.

Fixpoint mpls_label_stack_iter_collect (fuel : nat) (buf : list Z) (offset : nat) (bos : Z) : result (list (list Z)) :=
  match fuel with
  | O => Fault OutOfFuel
  | S f =>
    let* r := mpls_label_stack_iter_next buf offset bos in
    match r with
    | None => Ok []
    | Some (item, offset', bos') =>
      let* rest := mpls_label_stack_iter_collect f buf offset' bos' in Ok (item :: rest)
    end
  end.
Definition mpls_label_stack_members (buf : list Z) : result (list (list Z)) :=
  mpls_label_stack_iter_collect (iter_fuel buf) buf 0 0.

(* ------------------------------------------------------------------------------------------
   trippy-core/src/net/extension.rs
   ------------------------------------------------------------------------------------------ *)
Record MplsLabelStackMember := { mpls_label : Z; mpls_exp : Z; mpls_bos : Z; mpls_ttl : Z }.
Inductive Extension :=
| ExtUnknown (class_num class_subtype : Z) (bytes : list Z)
| ExtMpls (members : list MplsLabelStackMember).

Definition mpls_member_from (buf : list Z) : result MplsLabelStackMember :=
  let* l := pv_mpls_member_get_label buf in
  let* e := pv_mpls_member_get_exp buf in
  let* b := pv_mpls_member_get_bos buf in
  let* t := pv_mpls_member_get_ttl buf in
  Ok {| mpls_label := l; mpls_exp := e; mpls_bos := b; mpls_ttl := t |}.

(* .flat_map(XxxPacket::new_view): an item for which new_view is Err is dropped *)
Fixpoint flat_map_new_view (min : nat) (items : list (list Z)) : list (list Z) :=
  match items with
  | [] => []
  | x :: t => match new_view min x with Ok v => v :: flat_map_new_view min t | _ => flat_map_new_view min t end
  end.

Fixpoint map_members (items : list (list Z)) : result (list MplsLabelStackMember) :=
  match items with
  | [] => Ok []
  | x :: t => let* m := mpls_member_from x in let* r := map_members t in Ok (m :: r)
  end.

Definition mpls_label_stack_from (buf : list Z) : result (list MplsLabelStackMember) :=
  let* items := mpls_label_stack_members buf in
  map_members (flat_map_new_view 4 items).

Definition unknown_extension_from (obj : list Z) : result Extension :=
  let* c := extension_object_get_class_num obj in
  let* s := extension_object_get_class_subtype obj in
  let* p := extension_object_payload obj in
  Ok (ExtUnknown c s p).

Definition extension_from_object (obj : list Z) : result Extension :=
  let* c := extension_object_get_class_num obj in
  if c =? 1 then
    let* p := extension_object_payload obj in
    let* mpls := new_view 4 p in
    let* ms := mpls_label_stack_from mpls in
    Ok (ExtMpls ms)
  else unknown_extension_from obj.

(* .map(..).collect::<Result<_, _>>()? : the first Err aborts *)
Fixpoint collect_extensions (objs : list (list Z)) : result (list Extension) :=
  match objs with
  | [] => Ok []
  | o :: t => let* e := extension_from_object o in let* r := collect_extensions t in Ok (e :: r)
  end.

Definition ICMP_EXTENSION_VERSION : Z := 2.

(* impl TryFrom<&[u8]> for Extensions, composed with TryFrom<ExtensionsPacket> *)
Definition extensions_try_from (value : list Z) : result (list Extension) :=
  let* pkt := new_view 4 value in
  let* h := extensions_header pkt in
  let* header := new_view 4 h in
  let* v := extension_header_get_version header in
  if negb (v =? ICMP_EXTENSION_VERSION) then Ok []
  else
    let* items := extensions_objects pkt in
    collect_extensions (flat_map_new_view 4 items).

(* canonical opaque encoding of `Extensions`: exactly enc_exts of harness/hcore/src/strat.rs *)
Definition enc_member (m : MplsLabelStackMember) : list Z :=
  [mpls_label m / 65536 mod 256; mpls_label m / 256 mod 256; mpls_label m mod 256; mpls_exp m; mpls_bos m; mpls_ttl m].
Definition enc_ext (e : Extension) : list Z :=
  match e with
  | ExtUnknown c s b => [0; c; s; Z.of_nat (length b) / 256 mod 256; Z.of_nat (length b) mod 256] ++ b
  | ExtMpls ms => [1; Z.of_nat (length ms) / 256 mod 256; Z.of_nat (length ms) mod 256] ++ flat_map enc_member ms
  end.
Definition enc_exts (es : list Extension) : list Z := flat_map enc_ext es.

(* ------------------------------------------------------------------------------------------
   How the caller applies IcmpExtensionParseMode (trippy-core/src/net/ipv4.rs:295-330, ipv6.rs:271-306);
   only this projection is modelled here, the rest of the receive path is Net/Recv*.v.
     Time Exceeded,  Enabled : (payload(),     extension().map(try_from).transpose()?)
     Time Exceeded,  Disabled: (payload_raw(), None)
     Dest. Unreach., Enabled : (payload(),     extension().map(try_from).transpose()?)
     Dest. Unreach., Disabled: (payload(),     None)
   ------------------------------------------------------------------------------------------ *)
Inductive IcmpExtensionParseMode := ExtEnabled | ExtDisabled.
Inductive icmp_error_kind := KTimeExceeded | KDestinationUnreachable.

Definition extension_map_try_from (ext : option (list Z)) : result (option (list Extension)) :=
  match ext with
  | None => Ok None
  | Some e => let* x := extensions_try_from e in Ok (Some x)
  end.

Definition nested_and_extensions (pm : IcmpExtensionParseMode) (kind : icmp_error_kind) (fam : family) (buf : list Z)
  : result (list Z * option (list Extension)) :=
  let* packet := new_view icmp_error_min buf in
  match pm, kind with
  | ExtEnabled, _ =>
    let* p := icmp_error_payload fam packet in
    let* e := icmp_error_extension fam packet in
    let* x := extension_map_try_from e in
    Ok (p, x)
  | ExtDisabled, KTimeExceeded =>
    let* p := icmp_error_payload_raw packet in Ok (p, None)
  | ExtDisabled, KDestinationUnreachable =>
    let* p := icmp_error_payload fam packet in Ok (p, None)
  end.
