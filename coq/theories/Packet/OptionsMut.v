(* Packet/OptionsMut.v - model of Ipv4Packet::get_options_raw_mut (crates/trippy-packet/src/ipv4.rs), the only
   accessor of the crate that hands out a mutable window into the packet:

       let current_offset = Self::minimum_packet_size();
       let end = min(current_offset + ipv4_options_length(self), self.buf.as_slice().len());
       &mut self.buf.as_slice_mut()[current_offset..end]

   The window is modelled by its bounds; a caller can do one thing with it, overwrite octets inside it, which is
   [ipv4_options_mut_map g]: every octet of the window replaced by its image under g, all else as it was. *)
From TV Require Import Base.Result Packet.Fields Packet.Payload.

Definition ipv4_options_mut_bounds (buf : list Z) : result (nat * nat) :=
  let* ol := sp_ipv4_options_length buf in
  let current_offset := ipv4_minimum_packet_size in
  let e := Nat.min (current_offset + ol) (length buf) in
  (* buf[current_offset..e] panics when current_offset > e *)
  if (current_offset <=? e)%nat then Ok (current_offset, e) else Fault OutOfBounds.

Definition map_window (g : Z -> Z) (s e : nat) (buf : list Z) : list Z :=
  firstn s buf ++ map g (firstn (e - s) (skipn s buf)) ++ skipn e buf.

Definition ipv4_options_mut_map (g : Z -> Z) (buf : list Z) : result (list Z) :=
  let* se := ipv4_options_mut_bounds buf in Ok (map_window g (fst se) (snd se) buf).
