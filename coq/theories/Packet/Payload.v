(* Packet/Payload.v - MODEL of the thirteen `set_payload` methods of crates/trippy-packet
   (ipv4.rs, ipv6.rs, udp.rs, tcp.rs, icmpv4.rs, icmpv6.rs, icmp_extension.rs); the payload half of C12
   that Packet/Fields.v leaves out.  Executable, no proofs; extracted and run against the real code by the
   `c12pay` lines of harness mode c12.

   Every one of the thirteen methods has the same body

       let current_offset = <offset expression>;
       self.buf.as_slice_mut()[current_offset..current_offset + vals.len()].copy_from_slice(vals);

   The range index `[a..b]` of a slice panics when b > len (a <= b always holds here, and
   `current_offset + vals.len()` cannot overflow usize: offset <= 60, and a slice is at most isize::MAX long);
   `copy_from_slice` itself cannot panic then, the two lengths being equal by construction.  So the body is
   [set_bytes current_offset vals buf] of Packet/Fields.v (= Buffer::set_bytes without the const length):
   [Fault OutOfBounds] when the payload does not fit, otherwise the buffer with exactly those octets replaced.
   A read-only buffer (`new_view`) panics in `as_slice_mut`; the model, like Packet/Fields.v, describes the
   mutable packet (`new`).

   The offset expressions, as written in the code:

     Ipv4Packet                  minimum_packet_size() + ipv4_options_length(self)      [20 + sat(IHL*4 - 20)]
        ipv4_options_length  =   (get_header_length() as usize * 4).saturating_sub(20)
                                 so an IHL below 5 (illegal by RFC 791) gives 0 options octets, offset 20
     TcpPacket                   minimum_packet_size() + self.tcp_options_length()      [20 + (doff*4 - 20 if doff > 5)]
        tcp_options_length   =   if data_offset > 5 { data_offset as usize * 4 - 20 } else { 0 }
                                 so a data offset below 5 (illegal by RFC 9293) gives offset 20; the
                                 subtraction is guarded and cannot underflow (it is [sub_w] here and proved so)
     Ipv6Packet                  minimum_packet_size() = 40    (the fixed header; extension headers are payload)
     UdpPacket                   8
     icmpv4 / icmpv6 EchoRequestPacket, EchoReplyPacket, TimeExceededPacket, DestinationUnreachablePacket    8
     ExtensionObjectPacket       4

   RELEASE BEHAVIOUR of Ipv6Packet::set_payload.  The code has

       debug_assert!(vals.len() <= self.get_payload_length() as usize, "vals.len() <= len");

   between the offset and the copy.  In a build with debug assertions this is a panic when the payload is
   longer than the payload-length field says; in a release build (the harness is built with
   `debug-assertions = false`, as is the shipped binary) the statement does not exist.  [ipv6_set_payload]
   is the RELEASE behaviour; [ipv6_set_payload_debug] transcribes the debug build for the record (it is not
   run against the code). *)
From TV Require Import Base.Result Packet.Fields.

(* self.buf.as_slice_mut()[off..off + vals.len()].copy_from_slice(vals) *)
Definition copy_into (off : nat) (vals buf : list Z) : result (list Z) := set_bytes off vals buf.

(* ---------------------------------------------------------------------------------------------- *)
(* ipv4.rs                                                                                         *)

(* (ipv4.get_header_length() as usize * 4).saturating_sub(Ipv4Packet::minimum_packet_size()) *)
Definition sp_ipv4_options_length (buf : list Z) : result nat :=
  let* ihl := ipv4_get_header_length buf in
  Ok (Z.to_nat (ihl * 4) - ipv4_minimum_packet_size)%nat.

Definition ipv4_set_payload (buf payload : list Z) : result (list Z) :=
  let* ol := sp_ipv4_options_length buf in
  let current_offset := (ipv4_minimum_packet_size + ol)%nat in
  copy_into current_offset payload buf.

(* ---------------------------------------------------------------------------------------------- *)
(* ipv6.rs                                                                                         *)

(* release build: the debug_assert is compiled out *)
Definition ipv6_set_payload (buf payload : list Z) : result (list Z) :=
  let current_offset := ipv6_minimum_packet_size in
  copy_into current_offset payload buf.

(* debug build: debug_assert!(vals.len() <= self.get_payload_length() as usize) *)
Definition ipv6_set_payload_debug (buf payload : list Z) : result (list Z) :=
  let current_offset := ipv6_minimum_packet_size in
  let* pl := ipv6_get_payload_length buf in
  if (length payload <=? Z.to_nat pl)%nat then copy_into current_offset payload buf else Fault Unreachable.

(* ---------------------------------------------------------------------------------------------- *)
(* udp.rs                                                                                          *)

Definition udp_set_payload (buf payload : list Z) : result (list Z) :=
  let current_offset := udp_minimum_packet_size in
  copy_into current_offset payload buf.

(* ---------------------------------------------------------------------------------------------- *)
(* tcp.rs                                                                                          *)

(* let data_offset = self.get_data_offset(); if data_offset > 5 { data_offset as usize * 4 - 20 } else { 0 } *)
Definition sp_tcp_options_length (buf : list Z) : result nat :=
  let* data_offset := tcp_get_data_offset buf in
  if 5 <? data_offset
  then let* n := sub_w (data_offset * 4) 20 in Ok (Z.to_nat n)
  else Ok 0%nat.

Definition tcp_set_payload (buf payload : list Z) : result (list Z) :=
  let* ol := sp_tcp_options_length buf in
  let current_offset := (tcp_minimum_packet_size + ol)%nat in
  copy_into current_offset payload buf.

(* ---------------------------------------------------------------------------------------------- *)
(* icmpv4.rs                                                                                       *)

Definition icmp4_echo_request_set_payload (buf payload : list Z) : result (list Z) :=
  copy_into icmp4_echo_request_minimum_packet_size payload buf.
Definition icmp4_echo_reply_set_payload (buf payload : list Z) : result (list Z) :=
  copy_into icmp4_echo_reply_minimum_packet_size payload buf.
Definition icmp4_time_exceeded_set_payload (buf payload : list Z) : result (list Z) :=
  copy_into icmp4_time_exceeded_minimum_packet_size payload buf.
Definition icmp4_dest_unreachable_set_payload (buf payload : list Z) : result (list Z) :=
  copy_into icmp4_dest_unreachable_minimum_packet_size payload buf.

(* ---------------------------------------------------------------------------------------------- *)
(* icmpv6.rs                                                                                       *)

Definition icmp6_echo_request_set_payload (buf payload : list Z) : result (list Z) :=
  copy_into icmp6_echo_request_minimum_packet_size payload buf.
Definition icmp6_echo_reply_set_payload (buf payload : list Z) : result (list Z) :=
  copy_into icmp6_echo_reply_minimum_packet_size payload buf.
Definition icmp6_time_exceeded_set_payload (buf payload : list Z) : result (list Z) :=
  copy_into icmp6_time_exceeded_minimum_packet_size payload buf.
Definition icmp6_dest_unreachable_set_payload (buf payload : list Z) : result (list Z) :=
  copy_into icmp6_dest_unreachable_minimum_packet_size payload buf.

(* ---------------------------------------------------------------------------------------------- *)
(* icmp_extension.rs: extension_object::ExtensionObjectPacket                                      *)

Definition ext_object_set_payload (buf payload : list Z) : result (list Z) :=
  copy_into ext_object_minimum_packet_size payload buf.

(* ---------------------------------------------------------------------------------------------- *)
(* the thirteen setters by packet type: the entry point of the correspondence driver (ocaml/d_c12.ml).
   Net/Wire.v (C11) has definitions called ipv4_set_payload / udp_set_payload of its own, so the
   extraction renames some of the names above; these names are unique. *)

Inductive payload_type :=
| PtIpv4 | PtIpv6 | PtUdp | PtTcp
| PtIcmp4EchoRequest | PtIcmp4EchoReply | PtIcmp4TimeExceeded | PtIcmp4DestUnreachable
| PtIcmp6EchoRequest | PtIcmp6EchoReply | PtIcmp6TimeExceeded | PtIcmp6DestUnreachable
| PtExtObject.

Definition set_payload_of (t : payload_type) : list Z -> list Z -> result (list Z) :=
  match t with
  | PtIpv4 => ipv4_set_payload
  | PtIpv6 => ipv6_set_payload
  | PtUdp => udp_set_payload
  | PtTcp => tcp_set_payload
  | PtIcmp4EchoRequest => icmp4_echo_request_set_payload
  | PtIcmp4EchoReply => icmp4_echo_reply_set_payload
  | PtIcmp4TimeExceeded => icmp4_time_exceeded_set_payload
  | PtIcmp4DestUnreachable => icmp4_dest_unreachable_set_payload
  | PtIcmp6EchoRequest => icmp6_echo_request_set_payload
  | PtIcmp6EchoReply => icmp6_echo_reply_set_payload
  | PtIcmp6TimeExceeded => icmp6_time_exceeded_set_payload
  | PtIcmp6DestUnreachable => icmp6_dest_unreachable_set_payload
  | PtExtObject => ext_object_set_payload
  end.
