(* SPECIFICATION side of C14: how a router BUILDS an ICMP Time Exceeded / Destination Unreachable message
   carrying a multi-part extension structure.  Written from the RFCs, not from the parser:
     RFC 4884 s.4.1-4.6 (length attribute: ICMPv4 octet 5 in 32-bit words, ICMPv6 octet 4 in 64-bit words;
                       original datagram zero padded to the word boundary and to at least 128 octets),
     RFC 4884 s.5.5   (non-compliant / legacy senders: length attribute 0, original datagram exactly 128 octets),
     RFC 4884 s.7     (extension header: version 2, reserved 0, checksum; object header: length incl. header,
                       class-num, c-type),
     RFC 4950 s.3 / RFC 3032 s.2.1 (class-num 1; label stack entry = 20-bit label, 3-bit EXP, S, 8-bit TTL).
   No proofs in this file. *)
From TV Require Import Base.Result Packet.Checksum Packet.IcmpExt.

Inductive build_mode := BmCompliant | BmLegacy.

(* a label stack entry *)
Record lse := { lse_label : Z; lse_exp : Z; lse_s : Z; lse_ttl : Z }.

Inductive ext_object :=
| ObjMpls (ctype : Z) (stack : list lse)                 (* class-num 1 *)
| ObjOther (class_num ctype : Z) (payload : list Z).     (* any other class *)

Definition enc_lse (e : lse) : list Z :=
  [lse_label e / 4096; lse_label e / 16 mod 256; (lse_label e mod 16) * 16 + lse_exp e * 2 + lse_s e; lse_ttl e].

Definition obj_class (o : ext_object) : Z := match o with ObjMpls _ _ => 1 | ObjOther c _ _ => c end.
Definition obj_ctype (o : ext_object) : Z := match o with ObjMpls t _ => t | ObjOther _ t _ => t end.
Definition obj_payload (o : ext_object) : list Z :=
  match o with ObjMpls _ st => flat_map enc_lse st | ObjOther _ _ p => p end.

Definition enc_object (o : ext_object) : list Z :=
  let n := 4 + Z.of_nat (length (obj_payload o)) in
  [n / 256; n mod 256; obj_class o; obj_ctype o] ++ obj_payload o.

Definition ext_body (objs : list ext_object) : list Z := flat_map enc_object objs.

(* version 2 in the high nibble, 12 reserved bits zero, RFC 1071 checksum over the whole structure *)
Definition ext_structure (objs : list ext_object) : list Z :=
  let c := checksum ([32; 0; 0; 0] ++ ext_body objs) 1 in
  [32; 0; c / 256; c mod 256] ++ ext_body objs.

Definition word (fam : family) : nat := match fam with FamV4 => 4%nat | FamV6 => 8%nat end.

Definition pad_to (n : nat) (l : list Z) : list Z := l ++ repeat 0 (n - length l).
Definition pad_word (w : nat) (l : list Z) : list Z := pad_to (((length l + w - 1) / w) * w) l.

(* the "original datagram" field as it appears on the wire *)
Definition quoted (fam : family) (mode : build_mode) (orig : list Z) : list Z :=
  match mode with
  | BmCompliant => pad_to 128 (pad_word (word fam) orig)
  | BmLegacy => pad_to 128 (firstn 128 orig)
  end.

Definition length_attribute (fam : family) (mode : build_mode) (orig : list Z) : Z :=
  match mode with
  | BmCompliant => Z.of_nat (length (pad_word (word fam) orig) / word fam)
  | BmLegacy => 0
  end.

(* octet of the 8-octet ICMP header that holds the length attribute *)
Definition rfc4884_length_octet (fam : family) : nat := match fam with FamV4 => 5%nat | FamV6 => 4%nat end.

(* [fixed] = the seven other octets of the ICMP header (type, code, checksum, unused / next-hop MTU), arbitrary *)
Definition icmp_head (fam : family) (fixed : list Z) (l : Z) : list Z :=
  firstn (rfc4884_length_octet fam) fixed ++ [l] ++ skipn (rfc4884_length_octet fam) fixed.

Definition build_message (fam : family) (fixed : list Z) (orig : list Z) (objs : list ext_object) (mode : build_mode) : list Z :=
  icmp_head fam fixed (length_attribute fam mode orig) ++ quoted fam mode orig ++ ext_structure objs.

(* ---- what a faithful parser must report ---- *)
(* the original datagram as far as the message carries it: padded to the word (compliant), or the 128 octets (legacy) *)
Definition expected_datagram (fam : family) (mode : build_mode) (orig : list Z) : list Z :=
  match mode with
  | BmCompliant => pad_word (word fam) orig
  | BmLegacy => pad_to 128 (firstn 128 orig)
  end.

Definition expected_member (e : lse) : MplsLabelStackMember :=
  {| mpls_label := lse_label e; mpls_exp := lse_exp e; mpls_bos := lse_s e; mpls_ttl := lse_ttl e |}.

(* RFC 3032: the entry with S = 1 is the bottom of the stack; nothing after it belongs to the stack *)
Fixpoint upto_bos (st : list lse) : list lse :=
  match st with
  | [] => []
  | e :: t => if 0 <? lse_s e then [e] else e :: upto_bos t
  end.

Definition expected_extension (o : ext_object) : Extension :=
  match o with
  | ObjMpls _ st => ExtMpls (map expected_member (upto_bos st))
  | ObjOther c t p => ExtUnknown c t p
  end.

(* ---- side conditions of the builder (field widths) ---- *)
Definition lse_wf (e : lse) : Prop :=
  0 <= lse_label e < 1048576 /\ 0 <= lse_exp e < 8 /\ 0 <= lse_s e < 2 /\ 0 <= lse_ttl e < 256.

Definition obj_wf (o : ext_object) : Prop :=
  match o with
  | ObjMpls t st => 0 <= t < 256 /\ st <> [] /\ Forall lse_wf st /\ 4 + 4 * Z.of_nat (length st) <= 65535
  | ObjOther c t p => 0 <= c < 256 /\ c <> 1 /\ 0 <= t < 256 /\ 4 + Z.of_nat (length p) <= 65535
  end.

(* a stack in which only the last entry may carry S = 1 (every RFC 3032 stack, and every truncated one) *)
Definition bottom_only_last (st : list lse) : Prop := Forall (fun e => lse_s e = 0) (removelast st).

(* with such stacks nothing is cut: the report is every entry, verbatim *)
Definition verbatim_extension (o : ext_object) : Extension :=
  match o with
  | ObjMpls _ st => ExtMpls (map expected_member st)
  | ObjOther c t p => ExtUnknown c t p
  end.
Definition stacks_bottom_only_last (o : ext_object) : Prop :=
  match o with ObjMpls _ st => bottom_only_last st | ObjOther _ _ _ => True end.

(* the length attribute must fit its octet; a compliant message quotes a non-empty datagram
   (with an empty one the attribute would be 0, i.e. the message IS a legacy message) *)
Definition build_wf (fam : family) (mode : build_mode) (orig : list Z) : Prop :=
  match mode with
  | BmCompliant => orig <> [] /\ Z.of_nat (length (pad_word (word fam) orig) / word fam) <= 255
  | BmLegacy => True
  end.
