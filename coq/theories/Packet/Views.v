(* Model of the non-mutating accessors of the trippy-packet views that are not part of the extension codec
   (packet half of C04):
     crates/trippy-packet/src/ipv4.rs   Ipv4Packet      (payload() after docs/integration/C04_fix_1.patch)
     crates/trippy-packet/src/ipv6.rs   Ipv6Packet
     crates/trippy-packet/src/udp.rs    UdpPacket
     crates/trippy-packet/src/tcp.rs    TcpPacket
     crates/trippy-packet/src/icmpv4.rs, icmpv6.rs   IcmpPacket, EchoRequestPacket, EchoReplyPacket,
                                                     TimeExceededPacket, DestinationUnreachablePacket
   (the extension views are in Packet/IcmpExt.v).  A view = the byte list; every slice / index is checked.
   [view_accessors v buf] lists the results of ALL non-mutating accessors of view [v] in a fixed order; this is
   what the `c04pkt` harness mode prints for the real code.  No proofs in this file. *)
From TV Require Import Base.Result Packet.ByteOps Packet.IcmpExt.

(* ---------------- Ipv4Packet ---------------- *)
Definition ipv4_min : nat := 20.
Definition pv_ipv4_get_version (buf : list Z) : result Z := let* b := pv_buf_read 0 buf in Ok (pv_u8_shr (pv_u8_and b 240) 4).
Definition pv_ipv4_get_header_length (buf : list Z) : result Z := let* b := pv_buf_read 0 buf in Ok (pv_u8_and b 15).
Definition pv_ipv4_get_dscp (buf : list Z) : result Z := let* b := pv_buf_read 1 buf in Ok (pv_u8_shr (pv_u8_and b 252) 2).
Definition pv_ipv4_get_ecn (buf : list Z) : result Z := let* b := pv_buf_read 1 buf in Ok (pv_u8_and b 3).
Definition pv_ipv4_get_tos (buf : list Z) : result Z :=
  let* d := pv_ipv4_get_dscp buf in let* e := pv_ipv4_get_ecn buf in Ok (pv_u8_or (pv_u8_shl d 2) e).
Definition pv_ipv4_get_total_length (buf : list Z) : result Z := buf_get_u16 2 buf.
Definition pv_ipv4_get_identification (buf : list Z) : result Z := buf_get_u16 4 buf.
Definition pv_ipv4_get_flags_and_fragment_offset (buf : list Z) : result Z := buf_get_u16 6 buf.
Definition pv_ipv4_get_ttl (buf : list Z) : result Z := pv_buf_read 8 buf.
Definition pv_ipv4_get_protocol (buf : list Z) : result Z := pv_buf_read 9 buf.
Definition pv_ipv4_get_checksum (buf : list Z) : result Z := buf_get_u16 10 buf.
Definition pv_ipv4_get_source (buf : list Z) : result (list Z) := buf_get_bytes 4 12 buf.
Definition pv_ipv4_get_destination (buf : list Z) : result (list Z) := buf_get_bytes 4 16 buf.
(* (ihl as usize * 4).saturating_sub(20) *)
Definition pv_ipv4_options_length (buf : list Z) : result nat :=
  let* ihl := pv_ipv4_get_header_length buf in Ok (Z.to_nat (ihl * 4) - 20)%nat.
Definition ipv4_get_options_raw (buf : list Z) : result (list Z) :=
  let* ol := pv_ipv4_options_length buf in
  slice 20 (Nat.min (20 + ol) (length buf)) buf.
(* repaired: an IHL that points at or beyond the end of the buffer yields an empty payload *)
Definition ipv4_payload (buf : list Z) : result (list Z) :=
  let* ol := pv_ipv4_options_length buf in
  let start := (20 + ol)%nat in
  if (length buf <=? start)%nat then Ok [] else slice_from start buf.
(* pinned: &buf[start..] *)
Definition pinned_ipv4_payload (buf : list Z) : result (list Z) :=
  let* ol := pv_ipv4_options_length buf in slice_from (20 + ol) buf.

(* ---------------- Ipv6Packet ---------------- *)
Definition ipv6_min : nat := 40.
Definition pv_ipv6_get_version (buf : list Z) : result Z := let* b := pv_buf_read 0 buf in Ok (pv_u8_shr (pv_u8_and b 240) 4).
Definition pv_ipv6_get_traffic_class (buf : list Z) : result Z :=
  let* a := pv_buf_read 0 buf in let* b := pv_buf_read 1 buf in
  Ok (pv_u8_or (pv_u8_shl (pv_u8_and a 15) 4) (pv_u8_shr (pv_u8_and b 240) 4)).
Definition pv_ipv6_get_flow_label (buf : list Z) : result Z :=
  let* a := pv_buf_read 1 buf in let* b := pv_buf_read 2 buf in let* c := pv_buf_read 3 buf in
  Ok (from_be_bytes [0; pv_u8_and a 15; b; c]).
Definition pv_ipv6_get_payload_length (buf : list Z) : result Z := buf_get_u16 4 buf.
Definition pv_ipv6_get_next_header (buf : list Z) : result Z := pv_buf_read 6 buf.
Definition pv_ipv6_get_hop_limit (buf : list Z) : result Z := pv_buf_read 7 buf.
Definition pv_ipv6_get_source_address (buf : list Z) : result (list Z) := buf_get_bytes 16 8 buf.
Definition pv_ipv6_get_destination_address (buf : list Z) : result (list Z) := buf_get_bytes 16 24 buf.
Definition ipv6_payload (buf : list Z) : result (list Z) :=
  let* pl := pv_ipv6_get_payload_length buf in
  let e := Nat.min (40 + Z.to_nat pl) (length buf) in
  if (length buf <=? 40)%nat then Ok [] else slice 40 e buf.

(* ---------------- UdpPacket ---------------- *)
Definition udp_min : nat := 8.
Definition pv_udp_get_source (buf : list Z) : result Z := buf_get_u16 0 buf.
Definition pv_udp_get_destination (buf : list Z) : result Z := buf_get_u16 2 buf.
Definition pv_udp_get_length (buf : list Z) : result Z := buf_get_u16 4 buf.
Definition pv_udp_get_checksum (buf : list Z) : result Z := buf_get_u16 6 buf.
Definition pv_udp_payload (buf : list Z) : result (list Z) := slice_from 8 buf.

(* ---------------- TcpPacket ---------------- *)
Definition tcp_min : nat := 20.
Definition pv_tcp_get_source (buf : list Z) : result Z := buf_get_u16 0 buf.
Definition pv_tcp_get_destination (buf : list Z) : result Z := buf_get_u16 2 buf.
Definition pv_tcp_get_sequence (buf : list Z) : result Z := buf_get_u32 4 buf.
Definition pv_tcp_get_acknowledgement (buf : list Z) : result Z := buf_get_u32 8 buf.
Definition pv_tcp_get_data_offset (buf : list Z) : result Z := let* b := pv_buf_read 12 buf in Ok (pv_u8_shr (pv_u8_and b 240) 4).
Definition pv_tcp_get_reserved (buf : list Z) : result Z := let* b := pv_buf_read 12 buf in Ok (pv_u8_shr (pv_u8_and b 14) 1).
Definition pv_tcp_get_flags (buf : list Z) : result Z :=
  let* a := pv_buf_read 12 buf in let* b := pv_buf_read 13 buf in Ok (from_be_bytes [pv_u8_and a 1; b]).
Definition pv_tcp_get_window_size (buf : list Z) : result Z := buf_get_u16 14 buf.
Definition pv_tcp_get_checksum (buf : list Z) : result Z := buf_get_u16 16 buf.
Definition pv_tcp_get_urgent_pointer (buf : list Z) : result Z := buf_get_u16 18 buf.
(* if data_offset > 5 { data_offset as usize * 4 - 20 } else { 0 } *)
Definition tcp_options_length (buf : list Z) : result nat :=
  let* d := pv_tcp_get_data_offset buf in
  if 5 <? d then let* n := sub_w (d * 4) 20 in Ok (Z.to_nat n) else Ok 0%nat.
Definition tcp_get_options_raw (buf : list Z) : result (list Z) :=
  let* ol := tcp_options_length buf in
  slice 20 (Nat.min (20 + ol) (length buf)) buf.
Definition tcp_payload (buf : list Z) : result (list Z) :=
  let* ol := tcp_options_length buf in
  let start := (20 + ol)%nat in
  if (length buf <=? start)%nat then Ok [] else slice_from start buf.

(* ---------------- IcmpPacket / EchoRequestPacket / EchoReplyPacket (both families: same code) ---------------- *)
Definition icmp_min : nat := 8.
Definition icmp_get_icmp_type (buf : list Z) : result Z := pv_buf_read 0 buf.
Definition icmp_get_icmp_code (buf : list Z) : result Z := pv_buf_read 1 buf.
Definition icmp_get_checksum (buf : list Z) : result Z := buf_get_u16 2 buf.
Definition echo_get_identifier (buf : list Z) : result Z := buf_get_u16 4 buf.
Definition echo_get_sequence (buf : list Z) : result Z := buf_get_u16 6 buf.
Definition echo_payload (buf : list Z) : result (list Z) := slice_from 8 buf.
Definition destination_unreachable_get_next_hop_mtu (buf : list Z) : result Z := buf_get_u16 6 buf.

(* ---------------- the accessor table ---------------- *)
Inductive aval :=
| AInt (z : Z) | ABytes (l : list Z) | AOptBytes (o : option (list Z)) | AItems (l : list (list Z)).

Definition aint (r : result Z) : result aval := let* z := r in Ok (AInt z).
Definition abytes (r : result (list Z)) : result aval := let* l := r in Ok (ABytes l).
Definition aopt (r : result (option (list Z))) : result aval := let* o := r in Ok (AOptBytes o).
Definition aitems (r : result (list (list Z))) : result aval := let* l := r in Ok (AItems l).

Inductive view :=
| VIpv4 | VIpv6 | VUdp | VTcp
| VIcmp | VEchoRequest | VEchoReply
| VTimeExceeded (fam : family) | VDestinationUnreachable (fam : family)
| VExtensions | VExtensionHeader | VExtensionObject | VMplsLabelStack | VMplsLabelStackMember.

Definition view_min (v : view) : nat :=
  match v with
  | VIpv4 => ipv4_min | VIpv6 => ipv6_min | VUdp => udp_min | VTcp => tcp_min
  | VIcmp | VEchoRequest | VEchoReply | VTimeExceeded _ | VDestinationUnreachable _ => icmp_min
  | VExtensions | VExtensionHeader | VExtensionObject | VMplsLabelStack | VMplsLabelStackMember => 4%nat
  end.

Definition icmp_common (buf : list Z) : list (result aval) :=
  [aint (icmp_get_icmp_type buf); aint (icmp_get_icmp_code buf); aint (icmp_get_checksum buf)].

Definition view_accessors (v : view) (buf : list Z) : list (result aval) :=
  match v with
  | VIpv4 =>
    [aint (pv_ipv4_get_version buf); aint (pv_ipv4_get_header_length buf); aint (pv_ipv4_get_dscp buf); aint (pv_ipv4_get_ecn buf);
     aint (pv_ipv4_get_tos buf); aint (pv_ipv4_get_total_length buf); aint (pv_ipv4_get_identification buf);
     aint (pv_ipv4_get_flags_and_fragment_offset buf); aint (pv_ipv4_get_ttl buf); aint (pv_ipv4_get_protocol buf);
     aint (pv_ipv4_get_checksum buf); abytes (pv_ipv4_get_source buf); abytes (pv_ipv4_get_destination buf);
     abytes (ipv4_get_options_raw buf); abytes (ipv4_payload buf)]
  | VIpv6 =>
    [aint (pv_ipv6_get_version buf); aint (pv_ipv6_get_traffic_class buf); aint (pv_ipv6_get_flow_label buf);
     aint (pv_ipv6_get_payload_length buf); aint (pv_ipv6_get_next_header buf); aint (pv_ipv6_get_hop_limit buf);
     abytes (pv_ipv6_get_source_address buf); abytes (pv_ipv6_get_destination_address buf); abytes (ipv6_payload buf)]
  | VUdp =>
    [aint (pv_udp_get_source buf); aint (pv_udp_get_destination buf); aint (pv_udp_get_length buf); aint (pv_udp_get_checksum buf);
     abytes (pv_udp_payload buf)]
  | VTcp =>
    [aint (pv_tcp_get_source buf); aint (pv_tcp_get_destination buf); aint (pv_tcp_get_sequence buf);
     aint (pv_tcp_get_acknowledgement buf); aint (pv_tcp_get_data_offset buf); aint (pv_tcp_get_reserved buf);
     aint (pv_tcp_get_flags buf); aint (pv_tcp_get_window_size buf); aint (pv_tcp_get_checksum buf);
     aint (pv_tcp_get_urgent_pointer buf); abytes (tcp_get_options_raw buf); abytes (tcp_payload buf)]
  | VIcmp => icmp_common buf
  | VEchoRequest | VEchoReply =>
    icmp_common buf ++ [aint (echo_get_identifier buf); aint (echo_get_sequence buf); abytes (echo_payload buf)]
  | VTimeExceeded fam =>
    icmp_common buf ++ [aint (icmp_error_get_length fam buf); abytes (icmp_error_payload fam buf);
                        abytes (icmp_error_payload_raw buf); aopt (icmp_error_extension fam buf)]
  | VDestinationUnreachable fam =>
    icmp_common buf ++ [aint (icmp_error_get_length fam buf); aint (destination_unreachable_get_next_hop_mtu buf);
                        abytes (icmp_error_payload fam buf); abytes (icmp_error_payload_raw buf);
                        aopt (icmp_error_extension fam buf)]
  | VExtensions => [abytes (extensions_header buf); aitems (extensions_objects buf)]
  | VExtensionHeader => [aint (extension_header_get_version buf); aint (extension_header_get_checksum buf)]
  | VExtensionObject =>
    [aint (extension_object_get_length buf); aint (extension_object_get_class_num buf);
     aint (extension_object_get_class_subtype buf); abytes (extension_object_payload buf)]
  | VMplsLabelStack => [aitems (mpls_label_stack_members buf)]
  | VMplsLabelStackMember =>
    [aint (pv_mpls_member_get_label buf); aint (pv_mpls_member_get_exp buf); aint (pv_mpls_member_get_bos buf);
     aint (pv_mpls_member_get_ttl buf)]
  end.

(* XxxPacket::new_view(buf) followed by every accessor *)
Definition view_all (v : view) (buf : list Z) : result (list (result aval)) :=
  let* p := new_view (view_min v) buf in Ok (view_accessors v p).
