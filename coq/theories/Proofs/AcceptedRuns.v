(* C16, "accepted configurations can run": the chain
     command line / file --build_config--> TrippyConfig --start_tracer--> Builder::build --> strategy loop / Channel::connect.
   - `Accept` (Proofs/StrategyInv.v) is nothing more than `builder_accepts` plus the ranges of the Rust types; in particular it
     does not ask for first_ttl <= max_ttl or max_inflight >= 1.  The builder-accepted configurations that can never send
     (max_ttl < first_ttl, max_ttl = 0, max_inflight = 0) are treated here: every round is empty, is published by the timing
     policy, and a run with a round limit finishes after n rounds.
   - which configurations accepted by the command-line layer the builder refuses, exactly;
   - the composed statement for the command line;
   - the channel configuration of an accepted TrippyConfig against the size checks of Channel::connect and of the dispatchers. *)
From TV Require Import Base.Result Core.Types Core.TracerState Core.Strategy Core.Builder
  Tui.ConfigTypes Tui.Validate Tui.Layer Tui.LayerSpec
  Proofs.ListLemmas Proofs.StrategyInv Proofs.StrategyProps Proofs.RoundHistory Proofs.RunSemantics Proofs.LayerProofs.
From TV Require Net.Sock Net.ChannelSend Net.Dispatch4 Net.Dispatch6.
From Coq Require Import ZifyBool.

(* ================================================================== configurations that can never send *)
Definition idle_cfg (c : scfg) : Prop := max_ttl c < first_ttl c \/ max_inflight c <= 0.

(* a round record without probes, closed by the timing policy *)
Definition empty_round (r : round_rec) : Prop :=
  rr_probes r = [] /\ rr_largest_ttl r = 0 /\ rr_reason r = RoundTimeLimitExceeded.

Record IdleSt (c : scfg) (s : tstate) : Prop := {
  idle_seq : sequence s = round_sequence s;
  idle_ttl : ttl s = first_ttl c;
  idle_mr : max_received_ttl s = None;
  idle_tt : target_ttl s = None;
  idle_tf : target_found s = false;
}.

Lemma idle_new c t0 : IdleSt c (ts_new c t0).
Proof. constructor; reflexivity. Qed.

Lemma idle_can_send c s : Accept c -> idle_cfg c -> Inv c s -> IdleSt c s -> can_send c s = Ok false.
Proof.
  intros HA Hidle HI HS. destruct (can_send_ok c s HA HI) as (b & Hb & Himp). rewrite Hb.
  destruct b; [|reflexivity]. exfalso.
  destruct (Himp eq_refl) as (_ & Hmax & Htt). destruct HS as [_ Httl Hmr Ht _].
  rewrite Ht in Htt. unfold inflight_base in Htt. rewrite Hmr in Htt.
  pose proof (accept_facts c HA) as F. destruct Hidle as [Hi|Hi]; lia.
Qed.

Lemma idle_send c s i : Accept c -> idle_cfg c -> Inv c s -> IdleSt c s -> send_request c s i = Ok (s, [], None).
Proof. intros HA Hidle HI HS. unfold send_request. rewrite (idle_can_send c s HA Hidle HI HS). reflexivity. Qed.

Lemma idle_recv c s i : Accept c -> Inv c s -> IdleSt c s ->
  recv_response c s i = Ok (s, match i_recv i with FatalR x => Some x | _ => None end).
Proof.
  intros HA HI HS. destruct (recv_response_ok c s i HA HI) as (s' & e & Hr & _ & _ & _ & _ & _ & _ & He & Hcase).
  rewrite Hr, He. destruct Hcase as [->|(r & sr & p & _ & Hacc & _)]; [reflexivity|].
  exfalso. destruct Hacc as (_ & _ & _ & Hrange & _). destruct HS as [Hseq _ _ _ _]. lia.
Qed.

Lemma idle_update c s i : Accept c -> Inv c s -> IdleSt c s ->
  exists s' ev, update_round c s i = Ok (s', ev) /\ Inv c s' /\ IdleSt c s' /\ ev_probes ev = [] /\
    Forall empty_round (pubs ev).
Proof.
  intros HA HI HS. destruct (update_round_ok c s i HA HI) as (s' & ev & Hu & HI' & Hcase).
  exists s', ev. split; [assumption|]. split; [assumption|].
  destruct Hcase as [(_ & -> & ->)|(_ & r & Hr & -> & Ha & _)].
  - split; [assumption|]. split; [reflexivity|constructor].
  - destruct (advance_round_spec c s (i_advance i) HA HI) as (s2 & Ha2 & _ & _ & _ & Httl & Hseq & Htf & Hmr & _ & Htt & _).
    rewrite Ha in Ha2. inversion Ha2; subst s2. clear Ha2.
    destruct (publish_trace_ok c s HA HI) as (r' & Hr' & Hprobes & Hreason & _ & Hlargest).
    rewrite Hr in Hr'. inversion Hr'; subst r'. clear Hr'.
    destruct HS as [Hs0 Ht0 Hm0 Htt0 Htf0].
    split; [constructor; try assumption; congruence|]. split; [reflexivity|].
    cbn [pubs]. constructor; [|constructor]. unfold empty_round.
    rewrite Hprobes, Hreason, Hlargest, Hs0, Z.sub_diag, Htt0, Hm0, Htf0. repeat split; reflexivity.
Qed.

(* one iteration of a configuration that cannot send: no probe, at most one empty round, an error only if the receive
   outcome is fatal - and the send outcomes offered by the environment are never looked at *)
Lemma idle_step c s i : Accept c -> idle_cfg c -> Inv c s -> IdleSt c s ->
  exists s' ev, step c s i = Ok (s', ev, match i_recv i with FatalR x => Some x | _ => None end) /\
    Inv c s' /\ IdleSt c s' /\ ev_probes ev = [] /\ Forall empty_round (pubs ev).
Proof.
  intros HA Hidle HI HS. unfold step. rewrite (idle_send c s i HA Hidle HI HS). cbn [bind].
  rewrite (idle_recv c s i HA HI HS). cbn [bind].
  destruct (i_recv i) as [|r|x].
  - destruct (idle_update c s i HA HI HS) as (s' & ev & Hu & HI' & HS' & Hp & Hr). rewrite Hu. cbn [bind app].
    exists s', ev. split; [reflexivity|]. split; [assumption|]. split; [assumption|]. split; assumption.
  - destruct (idle_update c s i HA HI HS) as (s' & ev & Hu & HI' & HS' & Hp & Hr). rewrite Hu. cbn [bind app].
    exists s', ev. split; [reflexivity|]. split; [assumption|]. split; [assumption|]. split; assumption.
  - exists s, []. split; [reflexivity|]. split; [assumption|]. split; [assumption|]. split; [reflexivity|constructor].
Qed.

Lemma ev_probes_app a b : ev_probes (a ++ b) = ev_probes a ++ ev_probes b.
Proof. induction a as [|[p o|r] a IH]; cbn; congruence. Qed.

(* the whole run *)
Lemma idle_run_from c : Accept c -> idle_cfg c -> forall is s, Inv c s -> IdleSt c s ->
  let '(ev, o, sf) := run_from c s is in
  ev_probes ev = [] /\ Forall empty_round (pubs ev) /\ (forall x, o <> Faulted x) /\
  (forall e, o = Failed_with e -> exists i, In i is /\ i_recv i = FatalR e).
Proof.
  intros HA Hidle. induction is as [|i rest IH]; intros s HI HS; cbn [run_from].
  - destruct (finished s (max_rounds c)); (split; [reflexivity|]; split; [constructor|]; split; intros; discriminate).
  - destruct (finished s (max_rounds c)); [split; [reflexivity|]; split; [constructor|]; split; intros; discriminate|].
    destruct (idle_step c s i HA Hidle HI HS) as (s' & ev & Hs & HI' & HS' & Hp & Hr). rewrite Hs.
    destruct (i_recv i) as [|r|x] eqn:Ei.
    1,2: (specialize (IH s' HI' HS'); destruct (run_from c s' rest) as [[evs o] sf];
          destruct IH as (I1 & I2 & I3 & I4);
          split; [rewrite ev_probes_app, Hp, I1; reflexivity|];
          split; [rewrite pubs_app; apply Forall_app; split; assumption|];
          split; [assumption|];
          intros e He; destruct (I4 e He) as (j & Hj & Hrj); exists j; split; [right; assumption|assumption]).
    split; [assumption|]. split; [assumption|]. split; [intros; discriminate|].
    intros e He. inversion He; subst e. exists i. split; [left; reflexivity|assumption].
Qed.

Lemma idle_terminates_from c n : Accept c -> idle_cfg c -> max_rounds c = Some n -> forall is s hi, Inv c s -> IdleSt c s ->
  round s <= n -> round_start s <= hi -> n - round s <= Z.of_nat (count_expired c hi is) ->
  Forall (fun i => forall e, i_recv i <> FatalR e) is ->
  let '(ev, o, sf) := run_from c s is in o = Finished.
Proof.
  intros HA Hidle Hn. induction is as [|i rest IH]; intros s hi HI HS Hle Hhi Hcnt Hnf; cbn [run_from].
  - cbn [count_expired] in Hcnt. unfold finished. rewrite Hn.
    destruct (n - 1 <? round s) eqn:E; [reflexivity|lia].
  - destruct (finished s (max_rounds c)) eqn:Ef; [reflexivity|].
    inversion Hnf as [|? ? Hi Hrest]; subst.
    destruct (idle_step c s i HA Hidle HI HS) as (s' & ev & Hs & HI' & HS' & _).
    assert (He : match i_recv i with FatalR x => Some x | _ => None end = None)
      by (destruct (i_recv i) as [| |x]; try reflexivity; exfalso; exact (Hi x eq_refl)).
    rewrite He in Hs. rewrite Hs.
    assert (Hrd : round s <= n - 1) by (unfold finished in Ef; rewrite Hn in Ef; lia).
    destruct (step_clock c s i s' ev HA HI Hs) as [Hcase Hexp].
    cbn [count_expired] in Hcnt.
    destruct (max_round_duration c <? i_update i - hi) eqn:Ex.
    + destruct (Hexp ltac:(lia)) as [r0 Hr0].
      destruct Hcase as [(Hp & _)|(r' & _ & Hrd' & Hst)]; [rewrite Hr0 in Hp; discriminate|].
      specialize (IH s' (i_advance i) HI' HS' ltac:(lia) ltac:(lia) ltac:(lia) Hrest).
      destruct (run_from c s' rest) as [[evs o] sf]. exact IH.
    + assert (Hgoal : round s' <= n /\ round_start s' <= Z.max hi (i_advance i) /\ n - round s' <= n - round s)
        by (destruct Hcase as [(_ & Hrd' & Hst)|(r' & _ & Hrd' & Hst)]; lia).
      destruct Hgoal as (G1 & G2 & G3).
      specialize (IH s' (Z.max hi (i_advance i)) HI' HS' G1 G2 ltac:(lia) Hrest).
      destruct (run_from c s' rest) as [[evs o] sf]. exact IH.
Qed.

(* Builder-accepted configurations that cannot send a probe (max_ttl < first_ttl, in particular max_ttl = 0; max_inflight = 0)
   run like every other accepted configuration: no fault, no probe, every published round is empty and closed by the
   timing policy, the run ends with an error only when the environment injects a fatal receive error, and with a
   round limit n and a clock that lets n rounds expire it publishes exactly n (empty) rounds and returns success. *)
Theorem idle_runs c t0 is : Accept c -> idle_cfg c ->
  let '(ev, o, sf) := run c t0 is in
  ev_probes ev = [] /\ Forall empty_round (pubs ev) /\ (forall x, o <> Faulted x) /\
  (forall e, o = Failed_with e -> exists i, In i is /\ i_recv i = FatalR e) /\
  (forall n, max_rounds c = Some n -> Forall (fun i => forall e, i_recv i <> FatalR e) is ->
     n <= Z.of_nat (count_expired c t0 is) -> o = Finished /\ Z.of_nat (length (pubs ev)) = n).
Proof.
  intros HA Hidle. unfold run.
  pose proof (idle_run_from c HA Hidle is (ts_new c t0) (inv_new c t0 HA) (idle_new c t0)) as H1.
  pose proof (run_rounds_lemma c HA is (ts_new c t0) (inv_new c t0 HA)) as HR.
  assert (HT : forall n, max_rounds c = Some n -> Forall (fun i => forall e, i_recv i <> FatalR e) is ->
            n <= Z.of_nat (count_expired c t0 is) -> let '(ev, o, sf) := run_from c (ts_new c t0) is in o = Finished).
  { intros n Hn Hnf Hcnt.
    assert (Hn1 : 1 <= n).
    { destruct HA as [_ Hw]. unfold cfg_wf in Hw. destruct Hw as (_ & _ & _ & _ & _ & _ & _ & _ & _ & Hmr). rewrite Hn in Hmr. exact Hmr. }
    apply (idle_terminates_from c n HA Hidle Hn is (ts_new c t0) t0 (inv_new c t0 HA) (idle_new c t0));
      cbn [ts_new round round_start]; try lia; assumption. }
  destruct (run_from c (ts_new c t0) is) as [[ev o] sf].
  destruct H1 as (A1 & A2 & A3 & A4). repeat (split; [assumption|]).
  intros n Hn Hnf Hcnt. specialize (HT n Hn Hnf Hcnt). split; [assumption|].
  assert (Hn1 : 1 <= n).
  { destruct HA as [_ Hw]. unfold cfg_wf in Hw. destruct Hw as (_ & _ & _ & _ & _ & _ & _ & _ & _ & Hmr). rewrite Hn in Hmr. exact Hmr. }
  destruct HR as (H0 & _ & H3 & _). cbn [ts_new round] in H0, H3.
  destruct (H3 n Hn ltac:(lia)) as [_ Hb]. specialize (Hb HT). lia.
Qed.

(* ================================================================== command-line acceptance versus the builder *)
(* the builder's answer for a configuration accepted by the command-line layer: only the two checks on the
   initial sequence can fail (no assumption on value ranges is needed for this) *)
Lemma cli_builder_verdict tz a f p pid c tgt tid : build_config tz a f p pid = COk c ->
  builder_accepts (start_tracer_cfg c tgt tid) =
  (tc_initial_sequence c <=? MAX_INITIAL_SEQUENCE) && negb (paris6_zero (start_tracer_cfg c tgt tid)).
Proof.
  intros H. pose proof (build_config_accepted _ _ _ _ _ _ H) as A.
  remember (layer_cfg a f) as L eqn:HL.
  destruct A as [_ _ Hports _ _ _ _ _ _ Httl _ _ _ _ _ _ _ _ _ _ _ _ Hf].
  apply derive_port_direction_spec in Hports. apply validate_ttl_spec in Httl.
  pose proof (port_rule_portdir_ok _ _ _ _ _ _ (start_tracer_cfg c tgt tid) Hports) as Hpo.
  assert (tc_multipath_strategy c = derive_multipath_strategy (l_multipath_strategy L)) as Hms by (rewrite Hf; reflexivity).
  specialize (Hpo eq_refl Hms eq_refl).
  unfold builder_accepts. rewrite Hpo. cbn [start_tracer_cfg first_ttl max_ttl initial_sequence]. unfold MAX_TTL.
  replace (1 <=? tc_first_ttl c) with true by (symmetry; apply Z.leb_le; lia).
  replace (tc_first_ttl c <=? 254) with true by (symmetry; apply Z.leb_le; lia).
  replace (tc_max_ttl c <=? 254) with true by (symmetry; apply Z.leb_le; lia). reflexivity.
Qed.

(* exactly which configurations accepted by the command-line layer the builder refuses *)
Lemma cli_builder_refuses_iff tz a f p pid c tgt tid : build_config tz a f p pid = COk c ->
  (builder_accepts (start_tracer_cfg c tgt tid) = false <->
   64511 < tc_initial_sequence c \/
   (tc_protocol c = Udp /\ tc_multipath_strategy c = Paris /\ is_v6 tgt = true /\ tc_initial_sequence c = 0)).
Proof.
  intros H. rewrite (cli_builder_verdict _ _ _ _ _ _ tgt tid H).
  unfold paris6_zero, MAX_INITIAL_SEQUENCE, BUFFER_SIZE. cbn [start_tracer_cfg proto multipath target_addr initial_sequence].
  destruct (tc_protocol c) eqn:Ep, (tc_multipath_strategy c) eqn:Em, (is_v6 tgt) eqn:Ev; cbn [negb andb];
    rewrite ?Bool.andb_true_r; split; intros X;
    try (left; lia);
    try (destruct X as [X|(X1 & X2 & X3 & X4)]; try discriminate; lia).
  destruct (tc_initial_sequence c =? 0) eqn:E0; [right; repeat split; lia|left; lia].
Qed.

(* a configuration accepted by the command-line layer is never one of the degenerate builder-accepted ones *)
Lemma cli_not_idle tz a f p pid c tgt tid : build_config tz a f p pid = COk c -> args_in_range a -> file_in_range f ->
  u16 pid -> u16 tid ->
  1 <= tc_first_ttl c <= tc_max_ttl c /\ tc_max_ttl c <= 254 /\ 1 <= tc_max_inflight c <= 255 /\
  ~ idle_cfg (start_tracer_cfg c tgt tid).
Proof.
  intros H Ha Hf Hp Ht. destruct (cli_accept_builder _ _ _ _ _ _ tgt tid H Ha Hf Hp Ht) as [_ Hw].
  destruct (build_config_accepted _ _ _ _ _ _ H) as [_ _ _ _ _ _ _ _ _ Httl Hinf _ _ _ _ _ _ _ _ _ _ _ _].
  apply validate_ttl_spec in Httl. apply validate_max_inflight_spec in Hinf.
  destruct Hw as (_ & _ & _ & Hmi & _). cbn [start_tracer_cfg max_inflight] in Hmi. unfold u8 in Hmi.
  repeat split; try lia. unfold idle_cfg. cbn [start_tracer_cfg first_ttl max_ttl max_inflight]. lia.
Qed.

(* ================================================================== the composed statement *)
(* what a run of configuration sc says for a round limit taken from TrippyConfig c *)
Definition runs_well (sc : scfg) (mr : option Z) : Prop :=
  forall t0 is, let '(ev, o, sf) := run sc t0 is in
    (forall x, o <> Faulted x) /\
    (forall n, mr = Some n ->
       Z.of_nat (length (pubs ev)) <= n /\
       (o = Finished -> Z.of_nat (length (pubs ev)) = n) /\
       (Forall (no_fatal sc) is -> n <= Z.of_nat (count_expired sc t0 is) ->
          (o = Finished /\ Z.of_nat (length (pubs ev)) = n) \/ (proto sc = Tcp /\ o = Failed_with EInsufficientCapacity))) /\
    (mr = None -> o <> Finished).

Lemma accept_runs_well sc : Accept sc -> runs_well sc (max_rounds sc).
Proof.
  intros HA t0 is.
  pose proof (run_from_inv sc HA is (ts_new sc t0) (inv_new sc t0 HA)) as H1.
  pose proof (run_rounds_lemma sc HA is (ts_new sc t0) (inv_new sc t0 HA)) as HR.
  assert (HX : forall n, max_rounds sc = Some n -> Forall (no_fatal sc) is -> n <= Z.of_nat (count_expired sc t0 is) ->
            let '(ev, o, sf) := run sc t0 is in
            (o = Finished /\ Z.of_nat (length (pubs ev)) = n) \/ (proto sc = Tcp /\ o = Failed_with EInsufficientCapacity)).
  { intros n Hn Hnf Hc. pose proof (run_exactly_n sc t0 is n HA Hn Hnf Hc) as X.
    destruct (run sc t0 is) as [[ev o] sf]. destruct X as [(X1 & X2 & _)|X]; [left; split; assumption|right; assumption]. }
  unfold run in *. destruct (run_from sc (ts_new sc t0) is) as [[ev o] sf].
  destruct HR as (H0 & _ & H3 & H4). cbn [ts_new round] in H0, H3.
  split; [exact (proj2 H1)|]. split; [|assumption].
  intros n Hn.
  assert (Hn1 : 1 <= n).
  { destruct HA as [_ Hw]. unfold cfg_wf in Hw. destruct Hw as (_ & _ & _ & _ & _ & _ & _ & _ & _ & Hmr). rewrite Hn in Hmr. exact Hmr. }
  destruct (H3 n Hn ltac:(lia)) as [Ha Hb].
  split; [lia|]. split; [intros Ho; specialize (Hb Ho); lia|]. intros Hnf Hc. exact (HX n Hn Hnf Hc).
Qed.

(* The chain for the command line.  A TrippyConfig accepted by build_config, handed to the builder as start_tracer does:
   either the builder refuses it - with a configuration error, before tracing starts, and exactly for an initial sequence
   above 64511 or for sequence 0 with udp/paris towards an IPv6 target - or the strategy configuration it produces can
   always send (first_ttl <= max_ttl, max_inflight >= 1) and runs well for every environment: no fault; with a round
   limit n never more than n rounds, exactly n when the run returns success, and it does return success after
   exactly n rounds whenever the environment injects nothing fatal and lets n rounds expire (TCP: or the capacity error);
   without a round limit the run never returns success by itself. *)
Theorem accepted_runs tz a f p pid c tgt tid :
  build_config tz a f p pid = COk c -> args_in_range a -> file_in_range f -> u16 pid -> u16 tid ->
  (builder_accepts (start_tracer_cfg c tgt tid) = false /\
   (64511 < tc_initial_sequence c \/
    (tc_protocol c = Udp /\ tc_multipath_strategy c = Paris /\ is_v6 tgt = true /\ tc_initial_sequence c = 0))) \/
  (builder_accepts (start_tracer_cfg c tgt tid) = true /\ ~ idle_cfg (start_tracer_cfg c tgt tid) /\
   runs_well (start_tracer_cfg c tgt tid) (tc_max_rounds c)).
Proof.
  intros H Ha Hf Hp Ht.
  destruct (builder_accepts (start_tracer_cfg c tgt tid)) eqn:Eb.
  - right. split; [reflexivity|].
    destruct (cli_not_idle _ _ _ _ _ _ tgt tid H Ha Hf Hp Ht) as (_ & _ & _ & Hni). split; [assumption|].
    destruct (cli_accept_builder _ _ _ _ _ _ tgt tid H Ha Hf Hp Ht) as [_ Hw].
    exact (accept_runs_well (start_tracer_cfg c tgt tid) (conj Eb Hw)).
  - left. split; [reflexivity|]. apply (cli_builder_refuses_iff _ _ _ _ _ _ tgt tid H). assumption.
Qed.

(* the same, read as "build_config accepts and the builder accepts -> the run ..." *)
Corollary accepted_runs_builder tz a f p pid c tgt tid :
  build_config tz a f p pid = COk c -> args_in_range a -> file_in_range f -> u16 pid -> u16 tid ->
  tc_initial_sequence c <= 64511 ->
  ~ (tc_protocol c = Udp /\ tc_multipath_strategy c = Paris /\ is_v6 tgt = true /\ tc_initial_sequence c = 0) ->
  builder_accepts (start_tracer_cfg c tgt tid) = true /\ runs_well (start_tracer_cfg c tgt tid) (tc_max_rounds c).
Proof.
  intros H Ha Hf Hp Ht Hs Hz.
  destruct (accepted_runs _ _ _ _ _ _ tgt tid H Ha Hf Hp Ht) as [(_ & [X|X])|(Hb & _ & Hr)]; [lia|contradiction|].
  split; assumption.
Qed.

(* library users: the builder alone.  Every configuration the builder accepts (fields in the ranges of their Rust types)
   runs well, including the ones that can never send. *)
Theorem builder_runs_well c : builder_accepts c = true -> cfg_wf c -> runs_well c (max_rounds c).
Proof. intros Hb Hw. exact (accept_runs_well c (conj Hb Hw)). Qed.

(* ================================================================== the channel configuration *)
Import Net.Sock Net.ChannelSend.

(* Tracer::make_channel_config with the parameters start_tracer passes to the builder; the source address is the
   configured one when there is one (SourceAddr::validate returns it unchanged), else the discovered one *)
Definition start_tracer_chan (c : TrippyConfig) (discovered tgt : addr) : chan_cfg := {|
  cc_privilege := match tc_privilege_mode c with PmPrivileged => Privileged | PmUnprivileged => Unprivileged end;
  cc_protocol := tc_protocol c;
  cc_source := match tc_source_addr c with Some s => s | None => discovered end;
  cc_target := tgt;
  cc_packet_size := tc_packet_size c;
  cc_payload_pattern := tc_payload_pattern c;
  cc_initial_sequence := tc_initial_sequence c;
  cc_tos := tc_tos c;
|}.

(* the packet size of an accepted configuration against every size check downstream: the guard of Channel::connect,
   and the minimum sizes of the IPv4 dispatchers; those of the IPv6 dispatchers unless the family is ipv4-only *)
Lemma cli_channel_sizes tz a f p pid c src tgt : build_config tz a f p pid = COk c ->
  (cc_packet_size (start_tracer_chan c src tgt) >? Sock.MAX_PACKET_SIZE) = false /\
  Dispatch4.MIN_PACKET_SIZE_ICMP4 <= cc_packet_size (start_tracer_chan c src tgt) /\
  Dispatch4.MIN_PACKET_SIZE_UDP4 <= cc_packet_size (start_tracer_chan c src tgt) /\
  (tc_addr_family c <> Ipv4Only ->
   Dispatch6.MIN_PACKET_SIZE_ICMP6 <= cc_packet_size (start_tracer_chan c src tgt) /\
   Dispatch6.MIN_PACKET_SIZE_UDP6 <= cc_packet_size (start_tracer_chan c src tgt)).
Proof.
  intros H. destruct (build_config_accepted _ _ _ _ _ _ H) as [_ _ _ _ _ _ _ _ _ _ _ _ _ _ Hps _ _ _ _ _ _ _ _].
  apply validate_packet_size_spec in Hps. cbn [start_tracer_chan cc_packet_size].
  unfold Sock.MAX_PACKET_SIZE, Dispatch4.MIN_PACKET_SIZE_ICMP4, Dispatch4.MIN_PACKET_SIZE_UDP4,
    Dispatch6.MIN_PACKET_SIZE_ICMP6, Dispatch6.MIN_PACKET_SIZE_UDP6.
  destruct (tc_addr_family c); repeat split; try lia; intros X; congruence.
Qed.

(* Channel::connect on a world without injected socket errors *)
Lemma connect_no_inject bo cfg ops : cc_packet_size cfg <= 1024 ->
  snd (connect bo cfg {| w_ops := ops; w_inject := [] |}) =
  if Bool.eqb (is_v6 (cc_source cfg)) (is_v6 (cc_target cfg)) then
    Ok {| ch_protocol := cc_protocol cfg;
          ch_has_send_socket := match cc_protocol cfg with Tcp => false | _ => true end;
          ch_family := if is_v6 (cc_source cfg) then V6 (
                         {| Dispatch6.v6_src := cc_source cfg; Dispatch6.v6_dest := cc_target cfg;
                            Dispatch6.v6_packet_size := cc_packet_size cfg; Dispatch6.v6_payload_pattern := cc_payload_pattern cfg;
                            Dispatch6.v6_privilege := cc_privilege cfg; Dispatch6.v6_protocol := cc_protocol cfg;
                            Dispatch6.v6_initial_sequence := cc_initial_sequence cfg |})
                       else V4 (
                         {| Dispatch4.v4_src := cc_source cfg; Dispatch4.v4_dest := cc_target cfg; Dispatch4.v4_byte_order := bo;
                            Dispatch4.v4_packet_size := cc_packet_size cfg; Dispatch4.v4_payload_pattern := cc_payload_pattern cfg;
                            Dispatch4.v4_privilege := cc_privilege cfg; Dispatch4.v4_tos := cc_tos cfg;
                            Dispatch4.v4_protocol := cc_protocol cfg |});
          ch_tcp_probes := 0 |}
  else Fault Unreachable.
Proof.
  intros Hs. unfold connect, Sock.MAX_PACKET_SIZE.
  replace (cc_packet_size cfg >? 1024) with false by lia.
  unfold make_icmp_send_socket, make_udp_send_socket, make_recv_socket.
  destruct (cc_protocol cfg), (is_v6 (cc_source cfg)), (is_v6 (cc_target cfg)); reflexivity.
Qed.

(* For a configuration accepted by the command-line layer Channel::connect never answers "invalid packet size"; when the
   source and the target address are of the same family (and no socket call fails) it returns the channel; when they
   are of different families it reaches unreachable!(). *)
Lemma cli_channel_connect tz a f p pid c src tgt bo ops : build_config tz a f p pid = COk c ->
  let cfg := start_tracer_chan c src tgt in
  (is_v6 (cc_source cfg) = is_v6 tgt ->
     exists ch, snd (connect bo cfg {| w_ops := ops; w_inject := [] |}) = Ok ch /\ ch_protocol ch = tc_protocol c) /\
  (is_v6 (cc_source cfg) <> is_v6 tgt ->
     snd (connect bo cfg {| w_ops := ops; w_inject := [] |}) = Fault Unreachable).
Proof.
  intros H cfg. destruct (cli_channel_sizes _ _ _ _ _ _ src tgt H) as (Hsz & _). fold cfg in Hsz.
  assert (Hle : cc_packet_size cfg <= 1024) by (unfold Sock.MAX_PACKET_SIZE in Hsz; lia).
  rewrite (connect_no_inject bo cfg ops Hle). replace (cc_target cfg) with tgt by reflexivity.
  split; intros Hfam.
  - rewrite Hfam, Bool.eqb_reflx. eexists. split; reflexivity.
  - destruct (is_v6 (cc_source cfg)), (is_v6 tgt); try congruence; reflexivity.
Qed.
