(* Lemmas about Net/ChannelSend.v: what `connect` followed by `send_probe` reduces to. *)
From TV Require Import Base.Result Base.Bytes Core.Types Packet.Checksum Proofs.ChecksumProofs
  Net.Wire Net.Rfc Net.Sock Net.Dispatch4 Net.Dispatch6 Net.ChannelSend Net.SendSpec
  Proofs.WireProofs Proofs.Dispatch4Proofs Proofs.Dispatch6Proofs.
From Coq Require Import ZifyBool.
Ltac Zify.zify_post_hook ::= Z.div_mod_to_equations.

(* the family configuration `connect` builds *)
Definition ipv4_of (bo : byte_order) (cfg : chan_cfg) : ipv4 :=
  {| v4_src := cc_source cfg; v4_dest := cc_target cfg; v4_byte_order := bo;
     v4_packet_size := cc_packet_size cfg; v4_payload_pattern := cc_payload_pattern cfg;
     v4_privilege := cc_privilege cfg; v4_tos := cc_tos cfg; v4_protocol := cc_protocol cfg |}.
Definition ipv6_of (cfg : chan_cfg) : ipv6 :=
  {| v6_src := cc_source cfg; v6_dest := cc_target cfg;
     v6_packet_size := cc_packet_size cfg; v6_payload_pattern := cc_payload_pattern cfg;
     v6_privilege := cc_privilege cfg; v6_protocol := cc_protocol cfg;
     v6_initial_sequence := cc_initial_sequence cfg |}.

Definition ops_res {A} (x : world * result A) : list sockop * result unit :=
  (w_ops (fst x), match snd x with Ok _ => Ok tt | Err e => Err e | Fault f => Fault f end).

Lemma ops_res_unit (x : world * result unit) : ops_res x = (w_ops (fst x), snd x).
Proof. unfold ops_res. destruct x as [w [[]|e|f]]; reflexivity. Qed.

Lemma is_v6_4 a : length a = 4%nat -> is_v6 a = false.
Proof. intro H. unfold is_v6. rewrite H. reflexivity. Qed.
Lemma is_v6_16 a : length a = 16%nat -> is_v6 a = true.
Proof. intro H. unfold is_v6. rewrite H. reflexivity. Qed.

Lemma run_send_oversize bo cfg inj p : cc_packet_size cfg > 1024 ->
  run_send bo cfg inj p = ([], Err EInvalidPacketSize).
Proof.
  intro H. unfold run_send, connect, MAX_PACKET_SIZE.
  replace (cc_packet_size cfg >? 1024) with true by lia. reflexivity.
Qed.

Lemma run_send_v4 bo cfg inj p :
  length (cc_source cfg) = 4%nat -> length (cc_target cfg) = 4%nat -> cc_packet_size cfg <= 1024 ->
  run_send bo cfg inj p =
  let w0 := {| w_ops := connect_ops false cfg; w_inject := inj |} in
  match cc_protocol cfg with
  | Icmp => ops_res (dispatch_icmp_probe4 (ipv4_of bo cfg) p w0)
  | Udp => ops_res (dispatch_udp_probe4 (ipv4_of bo cfg) p w0)
  | Tcp => ops_res (dispatch_tcp_probe4 (ipv4_of bo cfg) p w0)
  end.
Proof.
  intros Hs Hd Hp. unfold run_send, connect, MAX_PACKET_SIZE.
  replace (cc_packet_size cfg >? 1024) with false by lia.
  unfold make_icmp_send_socket, make_udp_send_socket, make_recv_socket.
  rewrite (is_v6_4 _ Hs), (is_v6_4 _ Hd). fold (ipv4_of bo cfg).
  unfold connect_ops, raw_of, ops_res.
  destruct (cc_protocol cfg) eqn:Ep; cbn -[dispatch_icmp_probe4 dispatch_udp_probe4 dispatch_tcp_probe4];
    rewrite ?Ep; cbn -[dispatch_icmp_probe4 dispatch_udp_probe4 dispatch_tcp_probe4];
    unfold mbind, mret, lift; cbn -[dispatch_icmp_probe4 dispatch_udp_probe4 dispatch_tcp_probe4].
  - destruct (dispatch_icmp_probe4 _ _ _) as [w' [[]|e|f]]; reflexivity.
  - destruct (dispatch_udp_probe4 _ _ _) as [w' [[]|e|f]]; reflexivity.
  - destruct (dispatch_tcp_probe4 _ _ _) as [w' [[]|e|f]]; reflexivity.
Qed.

Lemma run_send_v6 bo cfg inj p :
  length (cc_source cfg) = 16%nat -> length (cc_target cfg) = 16%nat -> cc_packet_size cfg <= 1024 ->
  run_send bo cfg inj p =
  let w0 := {| w_ops := connect_ops true cfg; w_inject := inj |} in
  match cc_protocol cfg with
  | Icmp => ops_res (dispatch_icmp_probe6 (ipv6_of cfg) p w0)
  | Udp => ops_res (dispatch_udp_probe6 (ipv6_of cfg) p w0)
  | Tcp => ops_res (dispatch_tcp_probe6 (ipv6_of cfg) p w0)
  end.
Proof.
  intros Hs Hd Hp. unfold run_send, connect, MAX_PACKET_SIZE.
  replace (cc_packet_size cfg >? 1024) with false by lia.
  unfold make_icmp_send_socket, make_udp_send_socket, make_recv_socket.
  rewrite (is_v6_16 _ Hs), (is_v6_16 _ Hd). fold (ipv6_of cfg).
  unfold connect_ops, raw_of, ops_res.
  destruct (cc_protocol cfg) eqn:Ep; cbn -[dispatch_icmp_probe6 dispatch_udp_probe6 dispatch_tcp_probe6];
    rewrite ?Ep; cbn -[dispatch_icmp_probe6 dispatch_udp_probe6 dispatch_tcp_probe6];
    unfold mbind, mret, lift; cbn -[dispatch_icmp_probe6 dispatch_udp_probe6 dispatch_tcp_probe6].
  - destruct (dispatch_icmp_probe6 _ _ _) as [w' [[]|e|f]]; reflexivity.
  - destruct (dispatch_udp_probe6 _ _ _) as [w' [[]|e|f]]; reflexivity.
  - destruct (dispatch_tcp_probe6 _ _ _) as [w' [[]|e|f]]; reflexivity.
Qed.

Lemma flags_0 p : p_flags p = 0 -> flag_paris p = false /\ flag_dublin p = false.
Proof. intro H. unfold flag_paris, flag_dublin. rewrite H. split; reflexivity. Qed.
Lemma flags_1 p : p_flags p = 1 -> flag_paris p = true.
Proof. intro H. unfold flag_paris. rewrite H. reflexivity. Qed.
Lemma flags_2 p : p_flags p = 2 -> flag_paris p = false /\ flag_dublin p = true.
Proof. intro H. unfold flag_paris, flag_dublin. rewrite H. split; reflexivity. Qed.

Lemma app_push_1 ops inj op :
  w_ops (push op {| w_ops := ops; w_inject := inj |}) = ops ++ [op].
Proof. reflexivity. Qed.

(* ---------------- ICMP / IPv4 ---------------- *)
Lemma c11_icmp_ipv4_lemma cfg p :
  cfg_v4 cfg -> cc_protocol cfg = Icmp -> 28 <= cc_packet_size cfg <= 1024 -> probe_wf p ->
  exists b,
    run_send BoNetwork cfg [] p = (connect_ops false cfg ++ [SendTo b (cc_target cfg) 0], Ok tt) /\
    ipv4_wellformed (cc_source cfg) (cc_target cfg) (cc_tos cfg) (p_ttl p) 1 b /\
    Z.of_nat (length b) = cc_packet_size cfg /\
    echo_wellformed 8 (p_identifier p) (p_sequence p) (cc_payload_pattern cfg)
      (Z.to_nat (cc_packet_size cfg - 28)) [] (ip_payload (rfc791_decode b)).
Proof.
  intros (Hs & Hd & Hbs & Hbd & Ht & Hpat) Hproto Hsz (Httl & Hseq & Hid & Hsp & Hdp).
  unfold u8, u16 in *.
  exists (icmp4_datagram (ipv4_of BoNetwork cfg) p). split.
  - rewrite run_send_v4 by (try assumption; lia). rewrite Hproto. cbv zeta.
    rewrite dispatch_icmp4_ok by (try assumption; reflexivity). reflexivity.
  - apply (icmp4_datagram_wellformed (ipv4_of BoNetwork cfg) p); try assumption; try reflexivity; lia.
Qed.

(* ---------------- UDP / IPv4, raw socket, no Paris flag (classic and Dublin) ---------------- *)
Lemma c11_udp_ipv4_raw_lemma cfg p :
  cfg_v4 cfg -> cc_protocol cfg = Udp -> cc_privilege cfg = Privileged ->
  28 <= cc_packet_size cfg <= 1024 -> probe_wf p -> flag_paris p = false ->
  exists b,
    run_send BoNetwork cfg [] p = (connect_ops false cfg ++ [SendTo b (cc_target cfg) (p_dest_port p)], Ok tt) /\
    ipv4_wellformed (cc_source cfg) (cc_target cfg) (cc_tos cfg) (p_ttl p) 17 b /\
    ip_identification (rfc791_decode b) = p_identifier p /\
    Z.of_nat (length b) = cc_packet_size cfg /\
    let u := ip_payload (rfc791_decode b) in
    udp_wellformed (p_src_port p) (p_dest_port p)
      (pseudo_header_v4 (cc_source cfg) (cc_target cfg) 17 (Z.of_nat (length u))) u /\
    ud_data (rfc768_decode u) = repeat (cc_payload_pattern cfg) (Z.to_nat (cc_packet_size cfg - 28)).
Proof.
  intros (Hs & Hd & Hbs & Hbd & Ht & Hpat) Hproto Hpriv Hsz (Httl & Hseq & Hid & Hsp & Hdp) Hf.
  unfold u8, u16 in *.
  set (c := ipv4_of BoNetwork cfg).
  exists (udp4_datagram c p (repeat (v4_payload_pattern c) (Z.to_nat (v4_packet_size c - 28)))). split.
  - rewrite run_send_v4 by (try assumption; lia). rewrite Hproto. cbv zeta. fold c.
    rewrite dispatch_udp4_eq by assumption.
    replace (v4_privilege c) with Privileged by (symmetry; exact Hpriv).
    rewrite dispatch_udp_raw4_classic_eq; try assumption.
    2:{ rewrite repeat_length. change (v4_packet_size c) with (cc_packet_size cfg). lia. }
    unfold map_err, send_to. rewrite sock_call_clean by reflexivity. reflexivity.
  - apply (udp4_datagram_wellformed c p); try assumption; try reflexivity; lia.
Qed.

(* ---------------- UDP / IPv4 Paris ---------------- *)
Lemma c11_udp_ipv4_paris_lemma cfg p :
  cfg_v4 cfg -> cc_protocol cfg = Udp -> cc_privilege cfg = Privileged ->
  28 <= cc_packet_size cfg <= 1024 -> probe_wf p -> flag_paris p = true ->
  exists b,
    run_send BoNetwork cfg [] p = (connect_ops false cfg ++ [SendTo b (cc_target cfg) (p_dest_port p)], Ok tt) /\
    ipv4_wellformed (cc_source cfg) (cc_target cfg) (cc_tos cfg) (p_ttl p) 17 b /\
    ip_identification (rfc791_decode b) = p_identifier p /\
    let u := ip_payload (rfc791_decode b) in
    udp_wellformed (p_src_port p) (p_dest_port p)
      (pseudo_header_v4 (cc_source cfg) (cc_target cfg) 17 (Z.of_nat (length u))) u /\
    ud_checksum (rfc768_decode u) = p_sequence p /\
    length b = 30%nat.
Proof.
  intros (Hs & Hd & Hbs & Hbd & Ht & Hpat) Hproto Hpriv Hsz (Httl & Hseq & Hid & Hsp & Hdp) Hf.
  unfold u8, u16 in *.
  set (c := ipv4_of BoNetwork cfg).
  exists (paris4_datagram c p). split.
  - rewrite run_send_v4 by (try assumption; lia). rewrite Hproto. cbv zeta. fold c.
    rewrite dispatch_udp4_eq by assumption.
    replace (v4_privilege c) with Privileged by (symmetry; exact Hpriv).
    rewrite dispatch_udp_raw4_paris_eq by assumption.
    unfold map_err, send_to. rewrite sock_call_clean by reflexivity. reflexivity.
  - apply (paris4_datagram_wellformed c p); try assumption; try reflexivity; lia.
Qed.

(* ---------------- ICMP / IPv6 ---------------- *)
Lemma c11_icmp_ipv6_lemma cfg p :
  cfg_v6 cfg -> cc_protocol cfg = Icmp -> 48 <= cc_packet_size cfg <= 1024 -> probe_wf p ->
  exists m,
    run_send BoNetwork cfg [] p =
      (connect_ops true cfg ++ [SetUnicastHopsV6 (p_ttl p); SendTo m (cc_target cfg) 0], Ok tt) /\
    Z.of_nat (length m) + 40 = cc_packet_size cfg /\
    echo_wellformed 128 (p_identifier p) (p_sequence p) (cc_payload_pattern cfg)
      (Z.to_nat (cc_packet_size cfg - 48))
      (pseudo_header_v6 (cc_source cfg) (cc_target cfg) 58 (Z.of_nat (length m))) m.
Proof.
  intros (Hs & Hd & Hbs & Hbd & Ht & Hpat & Hinit) Hproto Hsz (Httl & Hseq & Hid & Hsp & Hdp).
  unfold u8, u16 in *.
  exists (icmp6_message (ipv6_of cfg) p). split.
  - rewrite run_send_v6 by (try assumption; lia). rewrite Hproto. cbv zeta.
    rewrite dispatch_icmp6_ok by (try assumption; reflexivity).
    unfold ops_res, push. cbn [fst snd w_ops]. rewrite <- app_assoc. reflexivity.
  - apply (icmp6_message_wellformed (ipv6_of cfg) p); assumption.
Qed.

(* ---------------- UDP / IPv6, raw socket ---------------- *)
Lemma run_send_udp6_raw cfg p b :
  cfg_v6 cfg -> cc_protocol cfg = Udp -> cc_privilege cfg = Privileged -> 48 <= cc_packet_size cfg <= 1024 ->
  (forall w, dispatch_udp_probe_raw6 (ipv6_of cfg) p
               (repeat (cc_payload_pattern cfg) (Z.to_nat (cc_packet_size cfg - 48))) w
             = hops_then_send (ipv6_of cfg) p b w) ->
  run_send BoNetwork cfg [] p =
    (connect_ops true cfg ++ [SetUnicastHopsV6 (p_ttl p); SendTo b (cc_target cfg) 0], Ok tt).
Proof.
  intros (Hs & Hd & _) Hproto Hpriv Hsz Heq.
  rewrite run_send_v6 by (try assumption; lia). rewrite Hproto. cbv zeta.
  rewrite dispatch_udp6_eq by assumption.
  replace (v6_privilege (ipv6_of cfg)) with Privileged by (symmetry; exact Hpriv).
  change (v6_payload_pattern (ipv6_of cfg)) with (cc_payload_pattern cfg).
  change (v6_packet_size (ipv6_of cfg)) with (cc_packet_size cfg).
  rewrite Heq. rewrite hops_then_send_ok by reflexivity.
  unfold ops_res, push. cbn [fst snd w_ops]. rewrite <- app_assoc. reflexivity.
Qed.

Lemma c11_udp_ipv6_classic_lemma cfg p :
  cfg_v6 cfg -> cc_protocol cfg = Udp -> cc_privilege cfg = Privileged ->
  48 <= cc_packet_size cfg <= 1024 -> probe_wf p -> p_flags p = 0 ->
  exists u,
    run_send BoNetwork cfg [] p =
      (connect_ops true cfg ++ [SetUnicastHopsV6 (p_ttl p); SendTo u (cc_target cfg) 0], Ok tt) /\
    udp_wellformed (p_src_port p) (p_dest_port p)
      (pseudo_header_v6 (cc_source cfg) (cc_target cfg) 17 (Z.of_nat (length u))) u /\
    ud_data (rfc768_decode u) = repeat (cc_payload_pattern cfg) (Z.to_nat (cc_packet_size cfg - 48)) /\
    ud_checksum (rfc768_decode u) <> 0 /\
    Z.of_nat (length u) + 40 = cc_packet_size cfg.
Proof.
  intros Hcfg Hproto Hpriv Hsz Hp Hfl.
  pose proof Hcfg as (Hs & Hd & Hbs & Hbd & Ht & Hpat & Hinit).
  pose proof Hp as (Httl & Hseq & Hid & Hsp & Hdp). unfold u8, u16 in *.
  destruct (flags_0 p Hfl) as [Hf Hdu].
  set (payload := repeat (cc_payload_pattern cfg) (Z.to_nat (cc_packet_size cfg - 48))).
  assert (Hlp : Z.of_nat (length payload) = cc_packet_size cfg - 48) by (unfold payload; rewrite repeat_length; lia).
  exists (udp6_message (ipv6_of cfg) p payload). split.
  - apply run_send_udp6_raw; try assumption. intro w.
    apply dispatch_udp_raw6_classic_eq; try assumption. fold payload. lia.
  - destruct (udp6_message_wellformed (ipv6_of cfg) p payload Hs Hd Hbs Hbd) as (H1 & H2 & H3 & H4);
      try assumption; try lia.
    { apply bytes_repeat. assumption. }
    split; [exact H1|]. split; [exact H2|]. split; [exact H3|]. rewrite H4. lia.
Qed.

Lemma c11_udp_ipv6_dublin_lemma cfg p :
  cfg_v6 cfg -> cc_protocol cfg = Udp -> cc_privilege cfg = Privileged ->
  48 <= cc_packet_size cfg <= 1024 -> probe_wf p -> p_flags p = 2 -> dublin_v6_fits cfg p ->
  exists u,
    run_send BoNetwork cfg [] p =
      (connect_ops true cfg ++ [SetUnicastHopsV6 (p_ttl p); SendTo u (cc_target cfg) 0], Ok tt) /\
    udp_wellformed (p_src_port p) (p_dest_port p)
      (pseudo_header_v6 (cc_source cfg) (cc_target cfg) 17 (Z.of_nat (length u))) u /\
    ud_data (rfc768_decode u) =
      MAGIC ++ repeat (cc_payload_pattern cfg) (Z.to_nat (p_sequence p - cc_initial_sequence cfg)) /\
    ud_checksum (rfc768_decode u) <> 0 /\
    (* the sequence is the payload length: UDP length = 8 + 6 + (sequence - initial_sequence) *)
    Z.of_nat (length u) = 8 + 6 + (p_sequence p - cc_initial_sequence cfg).
Proof.
  intros Hcfg Hproto Hpriv Hsz Hp Hfl [Hfit1 Hfit2].
  pose proof Hcfg as (Hs & Hd & Hbs & Hbd & Ht & Hpat & Hinit).
  pose proof Hp as (Httl & Hseq & Hid & Hsp & Hdp). unfold u8, u16 in *.
  destruct (flags_2 p Hfl) as [Hf Hdu].
  set (payload := dublin_payload (ipv6_of cfg) p).
  assert (Hlp : Z.of_nat (length payload) = 6 + (p_sequence p - cc_initial_sequence cfg)).
  { unfold payload, dublin_payload. rewrite app_length, repeat_length. cbn [MAGIC length v6_initial_sequence ipv6_of]. lia. }
  exists (udp6_message (ipv6_of cfg) p payload). split.
  - apply run_send_udp6_raw; try assumption. intro w.
    apply dispatch_udp_raw6_dublin_eq; try assumption. cbn [v6_initial_sequence ipv6_of]. lia.
  - destruct (udp6_message_wellformed (ipv6_of cfg) p payload Hs Hd Hbs Hbd) as (H1 & H2 & H3 & H4);
      try assumption; try lia.
    { unfold payload, dublin_payload. apply bytes_app. split; [repeat constructor; lia|apply bytes_repeat; assumption]. }
    split; [exact H1|]. split; [exact H2|]. split; [exact H3|]. rewrite H4. lia.
Qed.

Lemma c11_udp_ipv6_paris_lemma cfg p :
  cfg_v6 cfg -> cc_protocol cfg = Udp -> cc_privilege cfg = Privileged ->
  48 <= cc_packet_size cfg <= 1024 -> probe_wf p -> flag_paris p = true ->
  exists u,
    run_send BoNetwork cfg [] p =
      (connect_ops true cfg ++ [SetUnicastHopsV6 (p_ttl p); SendTo u (cc_target cfg) 0], Ok tt) /\
    udp_wellformed (p_src_port p) (p_dest_port p)
      (pseudo_header_v6 (cc_source cfg) (cc_target cfg) 17 (Z.of_nat (length u))) u /\
    ud_checksum (rfc768_decode u) = p_sequence p /\
    length u = 10%nat.
Proof.
  intros Hcfg Hproto Hpriv Hsz Hp Hf.
  pose proof Hcfg as (Hs & Hd & Hbs & Hbd & Ht & Hpat & Hinit).
  pose proof Hp as (Httl & Hseq & Hid & Hsp & Hdp). unfold u8, u16 in *.
  exists (paris6_message (ipv6_of cfg) p). split.
  - apply run_send_udp6_raw; try assumption. intro w. apply dispatch_udp_raw6_paris_eq; assumption.
  - apply (paris6_message_wellformed (ipv6_of cfg) p); assumption.
Qed.

(* ---------------- unprivileged UDP, TCP: operation lists ---------------- *)
Lemma c11_udp_ipv4_unprivileged_lemma cfg p :
  cfg_v4 cfg -> cc_protocol cfg = Udp -> cc_privilege cfg = Unprivileged -> 28 <= cc_packet_size cfg <= 1024 ->
  run_send BoNetwork cfg [] p =
    (connect_ops false cfg ++
       [NewSocket SkUdp4 false; Bind (cc_source cfg) (p_src_port p); SetTtl (p_ttl p); SetTos (cc_tos cfg);
        SendTo (repeat (cc_payload_pattern cfg) (Z.to_nat (cc_packet_size cfg - 28))) (cc_target cfg) (p_dest_port p)],
     Ok tt).
Proof.
  intros (Hs & Hd & _) Hproto Hpriv Hsz.
  rewrite run_send_v4 by (try assumption; lia). rewrite Hproto. cbv zeta.
  rewrite dispatch_udp4_eq by assumption.
  replace (v4_privilege (ipv4_of BoNetwork cfg)) with Unprivileged by (symmetry; exact Hpriv).
  rewrite dispatch_udp_non_raw4_ok by reflexivity.
  unfold ops_res, push. cbn [fst snd w_ops]. rewrite <- !app_assoc. reflexivity.
Qed.

Lemma c11_udp_ipv6_unprivileged_lemma cfg p :
  cfg_v6 cfg -> cc_protocol cfg = Udp -> cc_privilege cfg = Unprivileged -> 48 <= cc_packet_size cfg <= 1024 ->
  run_send BoNetwork cfg [] p =
    (connect_ops true cfg ++
       [NewSocket SkUdp6 false; Bind (cc_source cfg) (p_src_port p); SetUnicastHopsV6 (p_ttl p);
        SendTo (repeat (cc_payload_pattern cfg) (Z.to_nat (cc_packet_size cfg - 48))) (cc_target cfg) (p_dest_port p)],
     Ok tt).
Proof.
  intros (Hs & Hd & _) Hproto Hpriv Hsz.
  rewrite run_send_v6 by (try assumption; lia). rewrite Hproto. cbv zeta.
  rewrite dispatch_udp6_eq by assumption.
  replace (v6_privilege (ipv6_of cfg)) with Unprivileged by (symmetry; exact Hpriv).
  rewrite dispatch_udp_non_raw6_ok by reflexivity.
  unfold ops_res, push. cbn [fst snd w_ops]. rewrite <- !app_assoc. reflexivity.
Qed.

Lemma c11_tcp_ipv4_lemma cfg p :
  cfg_v4 cfg -> cc_protocol cfg = Tcp -> cc_packet_size cfg <= 1024 ->
  run_send BoNetwork cfg [] p =
    (connect_ops false cfg ++
       [NewSocket SkTcp4 false; Bind (cc_source cfg) (p_src_port p); SetTtl (p_ttl p); SetTos (cc_tos cfg);
        Connect (cc_target cfg) (p_dest_port p)],
     Ok tt).
Proof.
  intros (Hs & Hd & _) Hproto Hsz.
  rewrite run_send_v4 by assumption. rewrite Hproto. cbv zeta.
  rewrite dispatch_tcp4_ok by reflexivity.
  unfold ops_res, push. cbn [fst snd w_ops]. rewrite <- !app_assoc. reflexivity.
Qed.

Lemma c11_tcp_ipv6_lemma cfg p :
  cfg_v6 cfg -> cc_protocol cfg = Tcp -> cc_packet_size cfg <= 1024 ->
  run_send BoNetwork cfg [] p =
    (connect_ops true cfg ++
       [NewSocket SkTcp6 false; Bind (cc_source cfg) (p_src_port p); SetUnicastHopsV6 (p_ttl p);
        Connect (cc_target cfg) (p_dest_port p)],
     Ok tt).
Proof.
  intros (Hs & Hd & _) Hproto Hsz.
  rewrite run_send_v6 by assumption. rewrite Hproto. cbv zeta.
  rewrite dispatch_tcp6_ok by reflexivity.
  unfold ops_res, push. cbn [fst snd w_ops]. rewrite <- !app_assoc. reflexivity.
Qed.

(* ---------------- out-of-range packet sizes ---------------- *)
Lemma connect_ops_no_send v6 cfg b a port : ~ In (SendTo b a port) (connect_ops v6 cfg).
Proof.
  unfold connect_ops. destruct (cc_protocol cfg); cbn; intros H; repeat (destruct H as [H|H]; [discriminate|]); exact H.
Qed.

Lemma c11_invalid_packet_size_lemma cfg inj p :
  cfg_v4 cfg \/ cfg_v6 cfg -> cc_protocol cfg <> Tcp ->
  ~ ((if is_v6 (cc_source cfg) then 48 else 28) <= cc_packet_size cfg <= 1024) ->
  snd (run_send BoNetwork cfg inj p) = Err EInvalidPacketSize /\
  forall b a port, ~ In (SendTo b a port) (fst (run_send BoNetwork cfg inj p)).
Proof.
  intros Hfam Hproto Hsz.
  destruct (Z_le_dec (cc_packet_size cfg) 1024) as [Hle|Hgt].
  2:{ rewrite run_send_oversize by lia. split; [reflexivity|]. intros b a port []. }
  destruct Hfam as [(Hs & Hd & _)|(Hs & Hd & _)].
  - rewrite (is_v6_4 _ Hs) in Hsz. rewrite run_send_v4 by assumption. cbv zeta.
    destruct (cc_protocol cfg) eqn:Ep; try congruence.
    + rewrite dispatch_icmp4_invalid_size by (cbn [v4_packet_size ipv4_of]; lia).
      split; [reflexivity|]. intros b a port. apply connect_ops_no_send.
    + rewrite dispatch_udp4_invalid_size by (cbn [v4_packet_size ipv4_of]; lia).
      split; [reflexivity|]. intros b a port. apply connect_ops_no_send.
  - rewrite (is_v6_16 _ Hs) in Hsz. rewrite run_send_v6 by assumption. cbv zeta.
    destruct (cc_protocol cfg) eqn:Ep; try congruence.
    + rewrite dispatch_icmp6_invalid_size by (cbn [v6_packet_size ipv6_of]; lia).
      split; [reflexivity|]. intros b a port. apply connect_ops_no_send.
    + rewrite dispatch_udp6_invalid_size by (cbn [v6_packet_size ipv6_of]; lia).
      split; [reflexivity|]. intros b a port. apply connect_ops_no_send.
Qed.

(* ---------------- no fault, for every packet size and every injected socket error ---------------- *)
Lemma is_fault_ops_res {A} (x : world * result A) : is_fault (snd (ops_res x)) = is_fault (snd x).
Proof. destruct x as [w [a|e|f]]; reflexivity. Qed.

Lemma c11_no_fault_lemma cfg inj p :
  cfg_v4 cfg \/ cfg_v6 cfg -> probe_wf p ->
  (cfg_v6 cfg -> cc_protocol cfg = Udp -> cc_privilege cfg = Privileged ->
   flag_paris p = false -> flag_dublin p = true -> dublin_v6_fits cfg p) ->
  is_fault (snd (run_send BoNetwork cfg inj p)) = false.
Proof.
  intros Hfam (Httl & Hseq & Hid & Hsp & Hdp) Hdub. unfold u16 in *.
  destruct (Z_le_dec (cc_packet_size cfg) 1024) as [Hle|Hgt].
  2:{ rewrite run_send_oversize by lia. reflexivity. }
  destruct Hfam as [Hcfg|Hcfg].
  - destruct Hcfg as (Hs & Hd & _ & _ & Ht & _). unfold u8 in Ht.
    rewrite run_send_v4 by assumption. cbv zeta.
    destruct (cc_protocol cfg); rewrite is_fault_ops_res.
    + apply nofault_dispatch_icmp4; assumption.
    + apply nofault_dispatch_udp4; assumption.
    + apply nofault_dispatch_tcp4.
  - pose proof Hcfg as (Hs & Hd & _).
    rewrite run_send_v6 by assumption. cbv zeta.
    destruct (cc_protocol cfg) eqn:Ep; rewrite is_fault_ops_res.
    + apply nofault_dispatch_icmp6.
    + apply nofault_dispatch_udp6; [assumption|].
      intros Hf Hdu Hpriv. apply (Hdub Hcfg eq_refl Hpriv Hf Hdu).
    + apply nofault_dispatch_tcp6.
Qed.

(* ---------------- the bounded array of pending TCP probes (repaired code) ---------------- *)
Lemma c11_tcp_array_full_lemma ch p w :
  ch_protocol ch = Tcp -> MAX_TCP_PROBES <= ch_tcp_probes ch ->
  send_probe ch p w = (w, Err EInsufficientCapacity).
Proof.
  intros Hp Hn. unfold send_probe, channel_dispatch_tcp_probe. rewrite Hp.
  replace (ch_tcp_probes ch >=? MAX_TCP_PROBES) with true by lia. reflexivity.
Qed.

Lemma c11_tcp_never_faults_lemma ch p w :
  ch_protocol ch = Tcp -> is_fault (snd (send_probe ch p w)) = false.
Proof.
  intros Hp. unfold send_probe, channel_dispatch_tcp_probe. rewrite Hp.
  destruct (ch_tcp_probes ch >=? MAX_TCP_PROBES) eqn:E; [reflexivity|].
  replace (ch_tcp_probes ch <? MAX_TCP_PROBES) with true by lia.
  revert w. change (nofault (let^ _ := match ch_family ch with
                                        | V4 c => dispatch_tcp_probe4 c p
                                        | V6 c => dispatch_tcp_probe6 c p
                                        end in mret (with_tcp_probes ch (ch_tcp_probes ch + 1)))).
  apply nofault_mbind; [|intro; apply nofault_mret].
  destruct (ch_family ch); [apply nofault_dispatch_tcp4 | apply nofault_dispatch_tcp6].
Qed.

Lemma c11_tcp_count_lemma ch p w w' ch' :
  ch_protocol ch = Tcp -> send_probe ch p w = (w', Ok ch') ->
  ch_tcp_probes ch < MAX_TCP_PROBES /\ ch_tcp_probes ch' = ch_tcp_probes ch + 1.
Proof.
  intros Hp. unfold send_probe, channel_dispatch_tcp_probe. rewrite Hp.
  destruct (ch_tcp_probes ch >=? MAX_TCP_PROBES) eqn:E; [discriminate|].
  replace (ch_tcp_probes ch <? MAX_TCP_PROBES) with true by lia.
  unfold mbind, mret.
  destruct (match ch_family ch with V4 c => dispatch_tcp_probe4 c p | V6 c => dispatch_tcp_probe6 c p end w) as [w1 [[]|e|f]];
    intro H; inversion H; subst. cbn [ch_tcp_probes with_tcp_probes]. lia.
Qed.

(* ---------------- Ipv4ByteOrder::Host ---------------- *)
Lemma c11_host_byte_order_lemma c proto ttl id payload :
  v4_byte_order c = BoHost ->
  length (v4_src c) = 4%nat -> length (v4_dest c) = 4%nat -> 0 <= v4_tos c < 256 ->
  Z.of_nat (length payload) <= 1004 ->
  let len := 20 + Z.of_nat (length payload) in
  make_ipv4_packet c (repeat 0 MAX_PACKET_SIZE_N) proto ttl id payload =
  Ok ([69; v4_tos c; len mod 256; len / 256; id / 256; id mod 256; 0; 64; ttl; proto; 0; 0]
      ++ v4_src c ++ v4_dest c ++ payload).
Proof.
  intros Hbo Hs Hd Ht Hn len. rewrite make_ipv4_packet_closed by assumption.
  rewrite ipv4_header_host by (try assumption; lia). fold len. rewrite <- !app_assoc. reflexivity.
Qed.

Lemma c11_adjust_length_lemma v : 0 <= v < 65536 ->
  adjust_length BoNetwork v = v /\
  adjust_length BoHost v = swap_bytes v /\
  to_be_bytes (adjust_length BoHost v) = [v mod 256; v / 256] /\
  adjust_length BoHost (adjust_length BoHost v) = v.
Proof.
  intro H. unfold adjust_length, swap_bytes, to_be_bytes. repeat split; try reflexivity.
  - f_equal; [lia|]. f_equal. lia.
  - lia.
Qed.

(* ---------------- Paris over IPv6 with sequence 0: the checksum field is zero ---------------- *)
Lemma c11_paris6_zero_lemma :
  let cfg := {| cc_privilege := Privileged; cc_protocol := Udp;
                cc_source := [32;1;13;184;0;0;0;0;0;0;0;0;0;0;0;1];
                cc_target := [32;1;13;184;0;0;0;0;0;0;0;0;0;0;0;2];
                cc_packet_size := 84; cc_payload_pattern := 0; cc_initial_sequence := 0; cc_tos := 0 |} in
  let p := {| p_sequence := 0; p_identifier := 0; p_src_port := 5000; p_dest_port := 33434;
              p_ttl := 1; p_round := 0; p_sent := 0; p_flags := 1 |} in
  cfg_v6 cfg /\ probe_wf p /\
  exists u, run_send BoNetwork cfg [] p =
              (connect_ops true cfg ++ [SetUnicastHopsV6 1; SendTo u (cc_target cfg) 0], Ok tt) /\
            ud_checksum (rfc768_decode u) = 0.
Proof.
  intros cfg p.
  assert (Hcfg : cfg_v6 cfg).
  { unfold cfg_v6, cfg, u8, u16. cbn [cc_source cc_target cc_tos cc_payload_pattern cc_initial_sequence length].
    repeat split; try lia; repeat constructor; lia. }
  assert (Hp : probe_wf p) by (unfold probe_wf, p, u16; cbn; lia).
  split; [exact Hcfg|]. split; [exact Hp|].
  destruct (c11_udp_ipv6_paris_lemma cfg p Hcfg eq_refl eq_refl ltac:(cbn; lia) Hp eq_refl) as (u & H1 & _ & H3 & _).
  exists u. split; [exact H1|exact H3].
Qed.

(* ---------------- error mapping of the IPv6 raw paths: no mapping at all ---------------- *)
Lemma dispatch_icmp6_send_error c p w k :
  48 <= v6_packet_size c <= 1024 -> w_inject w = [(CSendTo, k)] ->
  snd (dispatch_icmp_probe6 c p w) = Err (EIo k).
Proof.
  intros Hp Hw. rewrite dispatch_icmp6_eq by assumption.
  unfold mbind, set_unicast_hops_v6, send_to, sock_call. rewrite Hw. reflexivity.
Qed.

(* ---------------- the two flag values that take the non-Paris raw IPv4 path ---------------- *)
Lemma c11_udp_ipv4_classic_lemma cfg p :
  cfg_v4 cfg -> cc_protocol cfg = Udp -> cc_privilege cfg = Privileged ->
  28 <= cc_packet_size cfg <= 1024 -> probe_wf p -> p_flags p = 0 ->
  exists b,
    run_send BoNetwork cfg [] p = (connect_ops false cfg ++ [SendTo b (cc_target cfg) (p_dest_port p)], Ok tt) /\
    ipv4_wellformed (cc_source cfg) (cc_target cfg) (cc_tos cfg) (p_ttl p) 17 b /\
    ip_identification (rfc791_decode b) = p_identifier p /\
    Z.of_nat (length b) = cc_packet_size cfg /\
    let u := ip_payload (rfc791_decode b) in
    udp_wellformed (p_src_port p) (p_dest_port p)
      (pseudo_header_v4 (cc_source cfg) (cc_target cfg) 17 (Z.of_nat (length u))) u /\
    ud_data (rfc768_decode u) = repeat (cc_payload_pattern cfg) (Z.to_nat (cc_packet_size cfg - 28)).
Proof.
  intros H1 H2 H3 H4 H5 Hf. apply c11_udp_ipv4_raw_lemma; try assumption. apply (flags_0 p Hf).
Qed.

Lemma c11_udp_ipv4_dublin_lemma cfg p :
  cfg_v4 cfg -> cc_protocol cfg = Udp -> cc_privilege cfg = Privileged ->
  28 <= cc_packet_size cfg <= 1024 -> probe_wf p -> p_flags p = 2 -> p_identifier p = p_sequence p ->
  exists b,
    run_send BoNetwork cfg [] p = (connect_ops false cfg ++ [SendTo b (cc_target cfg) (p_dest_port p)], Ok tt) /\
    ipv4_wellformed (cc_source cfg) (cc_target cfg) (cc_tos cfg) (p_ttl p) 17 b /\
    ip_identification (rfc791_decode b) = p_sequence p /\
    Z.of_nat (length b) = cc_packet_size cfg /\
    let u := ip_payload (rfc791_decode b) in
    udp_wellformed (p_src_port p) (p_dest_port p)
      (pseudo_header_v4 (cc_source cfg) (cc_target cfg) 17 (Z.of_nat (length u))) u /\
    ud_data (rfc768_decode u) = repeat (cc_payload_pattern cfg) (Z.to_nat (cc_packet_size cfg - 28)).
Proof.
  intros H1 H2 H3 H4 H5 Hf Hid.
  destruct (c11_udp_ipv4_raw_lemma cfg p H1 H2 H3 H4 H5 (proj1 (flags_2 p Hf))) as (b & Hb).
  exists b. rewrite <- Hid. exact Hb.
Qed.

Lemma c11_udp_ipv4_paris_flag_lemma cfg p :
  cfg_v4 cfg -> cc_protocol cfg = Udp -> cc_privilege cfg = Privileged ->
  28 <= cc_packet_size cfg <= 1024 -> probe_wf p -> p_flags p = 1 ->
  exists b,
    run_send BoNetwork cfg [] p = (connect_ops false cfg ++ [SendTo b (cc_target cfg) (p_dest_port p)], Ok tt) /\
    ipv4_wellformed (cc_source cfg) (cc_target cfg) (cc_tos cfg) (p_ttl p) 17 b /\
    ip_identification (rfc791_decode b) = p_identifier p /\
    let u := ip_payload (rfc791_decode b) in
    udp_wellformed (p_src_port p) (p_dest_port p)
      (pseudo_header_v4 (cc_source cfg) (cc_target cfg) 17 (Z.of_nat (length u))) u /\
    ud_checksum (rfc768_decode u) = p_sequence p /\
    length b = 30%nat.
Proof. intros H1 H2 H3 H4 H5 Hf. apply c11_udp_ipv4_paris_lemma; try assumption. apply (flags_1 p Hf). Qed.

Lemma c11_udp_ipv6_paris_flag_lemma cfg p :
  cfg_v6 cfg -> cc_protocol cfg = Udp -> cc_privilege cfg = Privileged ->
  48 <= cc_packet_size cfg <= 1024 -> probe_wf p -> p_flags p = 1 ->
  exists u,
    run_send BoNetwork cfg [] p =
      (connect_ops true cfg ++ [SetUnicastHopsV6 (p_ttl p); SendTo u (cc_target cfg) 0], Ok tt) /\
    udp_wellformed (p_src_port p) (p_dest_port p)
      (pseudo_header_v6 (cc_source cfg) (cc_target cfg) 17 (Z.of_nat (length u))) u /\
    ud_checksum (rfc768_decode u) = p_sequence p /\
    length u = 10%nat.
Proof. intros H1 H2 H3 H4 H5 Hf. apply c11_udp_ipv6_paris_lemma; try assumption. apply (flags_1 p Hf). Qed.

(* the UDP part of a Paris/IPv4 probe is the `paris_udp` of Packet/Checksum.v, the object of C13's c13_paris *)
Lemma c11_udp_ipv4_paris_c13_lemma cfg p :
  cfg_v4 cfg -> cc_protocol cfg = Udp -> cc_privilege cfg = Privileged ->
  28 <= cc_packet_size cfg <= 1024 -> probe_wf p -> p_flags p = 1 ->
  exists b,
    run_send BoNetwork cfg [] p = (connect_ops false cfg ++ [SendTo b (cc_target cfg) (p_dest_port p)], Ok tt) /\
    ip_payload (rfc791_decode b) =
      paris_udp (p_src_port p) (p_dest_port p) (p_sequence p) (cc_source cfg) (cc_target cfg).
Proof.
  intros (Hs & Hd & Hbs & Hbd & Ht & Hpat) Hproto Hpriv Hsz (Httl & Hseq & Hid & Hsp & Hdp) Hfl.
  unfold u8, u16 in *. pose proof (flags_1 p Hfl) as Hf.
  set (c := ipv4_of BoNetwork cfg).
  exists (paris4_datagram c p). split.
  - rewrite run_send_v4 by (try assumption; lia). rewrite Hproto. cbv zeta. fold c.
    rewrite dispatch_udp4_eq by assumption.
    replace (v4_privilege c) with Privileged by (symmetry; exact Hpriv).
    rewrite dispatch_udp_raw4_paris_eq by assumption.
    unfold map_err, send_to. rewrite sock_call_clean by reflexivity. reflexivity.
  - rewrite paris4_datagram_c13 by assumption.
    set (m := paris_udp (p_src_port p) (p_dest_port p) (p_sequence p) (v4_src c) (v4_dest c)).
    assert (Hlm : length m = 10%nat).
    { apply (paris_spec (p_src_port p) (p_dest_port p) (p_sequence p) (v4_src c) (v4_dest c)); try assumption;
        change (v4_src c) with (cc_source cfg); change (v4_dest c) with (cc_target cfg); lia. }
    destruct (ipv4_header_decode c 17 (p_ttl p) (p_identifier p) m eq_refl Hs Hd Ht ltac:(lia) ltac:(lia) Hid ltac:(rewrite Hlm; cbn; lia))
      as (_ & _ & Hpl & _).
    rewrite Hlm in Hpl. exact Hpl.
Qed.
