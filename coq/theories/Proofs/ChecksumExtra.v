(* C13, further statements about Packet/Checksum.v:
   - the receiver's test of RFC 1071 over the pseudo-header OCTETS of RFC 768 / RFC 8200 8.1 (Net/Rfc.v) instead of
     the arithmetic shortcut [pseudo_sum];
   - the checksum does not depend on what the checksum field currently holds ("taken as zero");
   - every position of the skipped word, also the ones no packet type reaches (odd tail, beyond the data);
   - Paris over IPv6 with the computed-zero rule of ipv6.rs make_udp_packet: a specification by properties
     ([paris_v6_spec]) that determines the ten octets uniquely, met by the closed form [paris_udp_v6], by the
     byte-level model of Net/Dispatch6.v and by the probe shape of Net/ProbeShape.v. *)
From TV Require Import Base.Result Base.Bytes Core.Types Packet.Checksum Proofs.ChecksumProofs
  Net.Wire Net.Rfc Net.Sock Net.Dispatch6 Net.ChannelSend Net.SendSpec Net.RecvCommon Net.RfcPeer Net.ProbeShape
  Proofs.WireProofs Proofs.Dispatch4Proofs Proofs.Dispatch6Proofs Proofs.ChannelSendProofs.
From Coq Require Import ZifyBool.
Ltac Zify.zify_post_hook ::= Z.div_mod_to_equations.

(* ================= specification vocabulary ================= *)

(* Paris over IPv6, closed form: the Paris swap of Packet/Checksum.v, and a computed checksum of zero
   (which the swap moves into the payload) replaced by 0xFFFF as ipv6.rs make_udp_packet does *)
Definition paris_udp_v6 (sp dp seq : Z) (src dst : list Z) : list Z :=
  let u := paris_udp sp dp seq src dst in
  if get_word 4 u =? 0 then put_word 4 65535 u else u.

(* Paris over IPv6 by properties: a 10-octet UDP datagram with the given ports and length field, the sequence in
   the checksum field, a 2-octet payload that is not zero, valid under the RFC 8200 pseudo-header *)
Definition paris_v6_spec (sp dp seq : Z) (src dst : list Z) (u : list Z) : Prop :=
  bytes u /\ length u = 10%nat /\
  get_word 0 u = sp /\ get_word 1 u = dp /\ get_word 2 u = 10 /\ get_word 3 u = seq /\
  get_word 4 u <> 0 /\
  rfc1071_valid (pseudo_header_v6 src dst 17 10) u.

(* ================= pseudo-header octets ================= *)
Lemma keyed_valid_v4 d k src dst proto : bytes d -> bytes src -> bytes dst ->
  length src = 4%nat -> length dst = 4%nat -> 0 <= proto <= 255 ->
  (2 * k + 2 <= length d)%nat /\ Z.of_nat (length d) <= 65535 ->
  rfc1071_valid (pseudo_header_v4 src dst proto (Z.of_nat (length d)))
                (put_word k (ip_checksum d (Z.of_nat k) src dst proto) d).
Proof.
  intros Hd Hs Hds Hls Hld Hp Hl. unfold rfc1071_valid.
  rewrite <- (put_word_length k d (ip_checksum d (Z.of_nat k) src dst proto)).
  rewrite pseudo_v4_sum by (try assumption; rewrite put_word_length; lia).
  rewrite pseudo_put_word. apply keyed_verifies; try assumption; lia.
Qed.

Lemma keyed_valid_v6 d k src dst proto : bytes d -> bytes src -> bytes dst ->
  length src = 16%nat -> length dst = 16%nat -> 0 <= proto <= 255 ->
  (2 * k + 2 <= length d)%nat /\ Z.of_nat (length d) <= 65535 ->
  rfc1071_valid (pseudo_header_v6 src dst proto (Z.of_nat (length d)))
                (put_word k (ip_checksum d (Z.of_nat k) src dst proto) d).
Proof.
  intros Hd Hs Hds Hls Hld Hp Hl. unfold rfc1071_valid.
  rewrite <- (put_word_length k d (ip_checksum d (Z.of_nat k) src dst proto)).
  rewrite pseudo_v6_sum by (try assumption; rewrite put_word_length; lia).
  rewrite pseudo_put_word. apply keyed_verifies; try assumption; lia.
Qed.

Lemma unkeyed_valid d k : bytes d -> (2 * k + 2 <= length d)%nat /\ Z.of_nat (length d) <= 65535 ->
  rfc1071_valid [] (put_word k (checksum d (Z.of_nat k)) d).
Proof. intros Hd Hl. unfold rfc1071_valid. cbn [app]. apply unkeyed_verifies; assumption. Qed.

(* ================= the checksum field is taken as zero ================= *)
Lemma put_word_zero_idem k d v : put_word k 0 (put_word k v d) = put_word k 0 d.
Proof. apply put_word_put_word. Qed.

Lemma ip_checksum_field_independent d k v src dst proto : bytes d -> bytes src -> bytes dst ->
  (length src <= 16)%nat -> (length dst <= 16)%nat -> 0 <= proto <= 255 ->
  (2 * k + 2 <= length d)%nat /\ Z.of_nat (length d) <= 65535 -> 0 <= v < 65536 ->
  ip_checksum (put_word k v d) (Z.of_nat k) src dst proto = ip_checksum d (Z.of_nat k) src dst proto.
Proof.
  intros Hd Hs Hds Hls Hld Hp Hl Hv.
  rewrite !ip_checksum_value; try assumption.
  - unfold rfc1071. rewrite put_word_put_word, pseudo_put_word. reflexivity.
  - apply put_word_bytes; assumption.
  - rewrite put_word_length. exact Hl.
Qed.

Lemma checksum_field_independent d k v : bytes d ->
  (2 * k + 2 <= length d)%nat /\ Z.of_nat (length d) <= 65535 -> 0 <= v < 65536 ->
  checksum (put_word k v d) (Z.of_nat k) = checksum d (Z.of_nat k).
Proof.
  intros Hd Hl Hv. rewrite !checksum_value; try assumption.
  - unfold rfc1071. rewrite put_word_put_word. reflexivity.
  - apply put_word_bytes; assumption.
  - rewrite put_word_length. exact Hl.
Qed.

(* ================= every result is a u16 ================= *)
Lemma checksum_range d k : 0 <= checksum d k < 65536.
Proof. unfold checksum. destruct d; [lia|]. unfold finalize_checksum. lia. Qed.

(* ================= the other positions of the skipped word ================= *)
(* the skipped word is the odd tail: the tail octet does not count *)
Lemma sum_words_tail_skipped k : forall d i, length d = (2 * k + 1)%nat ->
  sum_words d i (i + Z.of_nat k) = zsum (words (firstn (2 * k) d)).
Proof.
  induction k as [|k IH]; intros d i Hl.
  - destruct d as [|a [|b t]]; cbn [length] in Hl; try lia.
    cbn [sum_words]. replace (i =? i + Z.of_nat 0) with true by lia. reflexivity.
  - destruct d as [|a [|b t]]; cbn [length] in Hl; try lia.
    cbn [sum_words]. replace (i =? i + Z.of_nat (S k)) with false by lia.
    replace (i + Z.of_nat (S k)) with ((i + 1) + Z.of_nat k) by lia.
    rewrite IH by lia. replace (2 * S k)%nat with (S (S (2 * k))) by lia. cbn [firstn words]. rewrite zsum_cons. reflexivity.
Qed.

(* the skipped word lies beyond the data: nothing is skipped *)
Lemma sum_words_beyond k : forall d i, (length d <= 2 * k)%nat ->
  sum_words d i (i + Z.of_nat k) = zsum (words d).
Proof.
  induction k as [|k IH]; intros d i Hl.
  - destruct d; cbn [length] in Hl; [reflexivity|lia].
  - destruct d as [|a [|b t]]; cbn [length] in Hl.
    + reflexivity.
    + cbn [sum_words words]. replace (i =? i + Z.of_nat (S k)) with false by lia. unfold zsum. cbn [fold_right]. lia.
    + cbn [sum_words words]. replace (i =? i + Z.of_nat (S k)) with false by lia.
      replace (i + Z.of_nat (S k)) with ((i + 1) + Z.of_nat k) by lia.
      rewrite IH by lia. rewrite zsum_cons. reflexivity.
Qed.

Lemma ip_checksum_tail_skipped d k src dst proto : bytes d -> bytes src -> bytes dst ->
  (length src <= 16)%nat -> (length dst <= 16)%nat -> 0 <= proto <= 255 ->
  length d = (2 * k + 1)%nat -> Z.of_nat (length d) <= 65535 ->
  ip_checksum d (Z.of_nat k) src dst proto =
  65535 - oc_norm (pseudo_sum src dst proto d + zsum (words (firstn (2 * k) d))).
Proof.
  intros Hd Hs Hds Hls Hld Hp Hl Hlen.
  pose proof (sum_no_overflow (pseudo_sum src dst proto d) d (Z.of_nat k) Hd Hlen
                (pseudo_bound src dst proto d Hs Hds Hls Hld Hp Hlen)) as Hno.
  unfold no_u32_overflow in Hno. unfold ip_checksum. fold (pseudo_sum src dst proto d).
  rewrite finalize_spec by lia. unfold sum_be_words.
  replace (Z.of_nat k) with (0 + Z.of_nat k) by lia. rewrite sum_words_tail_skipped by exact Hl. reflexivity.
Qed.

Lemma ip_checksum_beyond d k src dst proto : bytes d -> bytes src -> bytes dst ->
  (length src <= 16)%nat -> (length dst <= 16)%nat -> 0 <= proto <= 255 ->
  (length d <= 2 * k)%nat -> Z.of_nat (length d) <= 65535 ->
  ip_checksum d (Z.of_nat k) src dst proto = 65535 - oc_norm (pseudo_sum src dst proto d + zsum (words d)).
Proof.
  intros Hd Hs Hds Hls Hld Hp Hl Hlen.
  pose proof (sum_no_overflow (pseudo_sum src dst proto d) d (Z.of_nat k) Hd Hlen
                (pseudo_bound src dst proto d Hs Hds Hls Hld Hp Hlen)) as Hno.
  unfold no_u32_overflow in Hno. unfold ip_checksum. fold (pseudo_sum src dst proto d).
  rewrite finalize_spec by lia. unfold sum_be_words.
  replace (Z.of_nat k) with (0 + Z.of_nat k) by lia. rewrite sum_words_beyond by exact Hl. reflexivity.
Qed.

Lemma checksum_tail_skipped d k : bytes d -> length d = (2 * k + 1)%nat -> Z.of_nat (length d) <= 65535 ->
  checksum d (Z.of_nat k) = 65535 - oc_norm (zsum (words (firstn (2 * k) d))).
Proof.
  intros Hd Hl Hlen.
  pose proof (sum_no_overflow 0 d (Z.of_nat k) Hd Hlen ltac:(lia)) as Hno. unfold no_u32_overflow in Hno.
  unfold checksum. destruct d as [|a t] eqn:E; [cbn [length] in Hl; lia|]. rewrite <- E in *.
  rewrite finalize_spec by lia. unfold sum_be_words.
  replace (Z.of_nat k) with (0 + Z.of_nat k) by lia. rewrite sum_words_tail_skipped by exact Hl. reflexivity.
Qed.

Lemma checksum_beyond d k : bytes d -> d <> [] -> (length d <= 2 * k)%nat -> Z.of_nat (length d) <= 65535 ->
  checksum d (Z.of_nat k) = 65535 - oc_norm (zsum (words d)).
Proof.
  intros Hd Hne Hl Hlen.
  pose proof (sum_no_overflow 0 d (Z.of_nat k) Hd Hlen ltac:(lia)) as Hno. unfold no_u32_overflow in Hno.
  unfold checksum. destruct d as [|a t] eqn:E; [congruence|]. rewrite <- E in *.
  rewrite finalize_spec by lia. unfold sum_be_words.
  replace (Z.of_nat k) with (0 + Z.of_nat k) by lia. rewrite sum_words_beyond by exact Hl. reflexivity.
Qed.

(* ================= Paris over IPv6 ================= *)
Lemma get_word4_paris_wire sp dp seq ck : 0 <= ck < 65536 -> get_word 4 (paris_wire sp dp seq ck) = ck.
Proof. intro H. unfold get_word, paris_wire. cbn [nth Nat.mul Nat.add]. lia. Qed.

(* the closed form is the datagram of Proofs/Dispatch6Proofs.v: the swap applied to the non-zero checksum *)
Lemma paris_udp_v6_wire sp dp seq src dst : 0 <= seq < 65536 ->
  paris_udp_v6 sp dp seq src dst =
  paris_wire sp dp seq (nz (udp_ipv6_checksum (udp_body sp dp (to_be_bytes seq)) src dst)).
Proof.
  intro Hseq. unfold paris_udp_v6. rewrite <- (paris_wire_is_paris_udp sp dp seq src dst Hseq).
  unfold udp_ipv6_checksum, udp_ipv4_checksum.
  set (ck := ip_checksum (udp_body sp dp (to_be_bytes seq)) 3 src dst 17).
  assert (Hck : 0 <= ck < 65536) by apply ip_checksum_range.
  rewrite get_word4_paris_wire by exact Hck. unfold nz.
  destruct (ck =? 0); reflexivity.
Qed.

Lemma paris_udp_v6_meets_spec sp dp seq src dst :
  0 <= sp < 65536 -> 0 <= dp < 65536 -> 0 <= seq < 65536 ->
  bytes src -> bytes dst -> length src = 16%nat -> length dst = 16%nat ->
  paris_v6_spec sp dp seq src dst (paris_udp_v6 sp dp seq src dst).
Proof.
  intros Hsp Hdp Hseq Hbs Hbd Hls Hld.
  set (c := {| v6_src := src; v6_dest := dst; v6_packet_size := 48; v6_payload_pattern := 0;
               v6_privilege := Privileged; v6_protocol := Udp; v6_initial_sequence := 0 |}).
  set (p := {| p_sequence := seq; p_identifier := 0; p_src_port := sp; p_dest_port := dp;
               p_ttl := 1; p_round := 0; p_sent := 0; p_flags := 1 |}).
  destruct (paris6_message_wellformed c p Hls Hld Hbs Hbd Hsp Hdp Hseq) as ((_ & _ & _ & Hv) & _ & Hl).
  rewrite Hl in Hv. change (Z.of_nat 10) with 10 in Hv.
  rewrite paris_udp_v6_wire by exact Hseq.
  change (paris6_message c p) with
    (paris_wire sp dp seq (nz (udp_ipv6_checksum (udp_body sp dp (to_be_bytes seq)) src dst))) in Hv.
  set (ck := nz (udp_ipv6_checksum (udp_body sp dp (to_be_bytes seq)) src dst)) in *.
  assert (Hck : 1 <= ck < 65536) by (apply nz_range, ip_checksum_range).
  unfold paris_v6_spec. split.
  { unfold paris_wire. repeat constructor; lia. }
  split; [reflexivity|].
  unfold get_word, paris_wire. cbn [nth Nat.mul Nat.add].
  repeat split; try lia. exact Hv.
Qed.

Lemma bytes_cons_inv a l : bytes (a :: l) -> 0 <= a < 256 /\ bytes l.
Proof. intro H. inversion H; subst. split; assumption. Qed.

(* the specification leaves no freedom: the ten octets are determined *)
Lemma paris_v6_spec_unique sp dp seq src dst u u' :
  length src = 16%nat -> length dst = 16%nat ->
  paris_v6_spec sp dp seq src dst u -> paris_v6_spec sp dp seq src dst u' -> u = u'.
Proof.
  intros Hls Hld (Hb & Hl & H0 & H1 & H2 & H3 & H4 & Hv) (Hb' & Hl' & H0' & H1' & H2' & H3' & H4' & Hv').
  unfold rfc1071_valid, pseudo_header_v6 in Hv, Hv'. rewrite <- !app_assoc in Hv, Hv'.
  rewrite (even_length_words_sum src) in Hv, Hv' by (rewrite Hls; reflexivity).
  rewrite (even_length_words_sum dst) in Hv, Hv' by (rewrite Hld; reflexivity).
  destruct u as [|a0 [|a1 [|a2 [|a3 [|a4 [|a5 [|a6 [|a7 [|a8 [|a9 [|x t]]]]]]]]]]]; try discriminate Hl.
  destruct u' as [|b0 [|b1 [|b2 [|b3 [|b4 [|b5 [|b6 [|b7 [|b8 [|b9 [|x' t']]]]]]]]]]]; try discriminate Hl'.
  repeat match goal with H : bytes (_ :: _) |- _ => apply bytes_cons_inv in H; destruct H as [? H] end.
  unfold get_word in *. cbn [nth Nat.mul Nat.add] in *.
  cbn [app words] in Hv, Hv'. rewrite !zsum_cons in Hv, Hv'.
  change (zsum []) with 0 in Hv, Hv'.
  set (A := zsum (words src) + (zsum (words dst))) in *. clearbody A.
  unfold oc_norm in Hv, Hv'.
  destruct (_ =? 0) eqn:E in Hv; [lia|]. destruct (_ =? 0) eqn:E' in Hv'; [lia|].
  assert (a8 * 256 + a9 = b8 * 256 + b9) by lia.
  repeat (f_equal; try lia).
Qed.

(* the probe shape used by the receive-side (C02) theorems is the same datagram *)
Lemma udp_wire_paris_v6 c sp dp seq payload : is_v6 (rc_dest c) = true ->
  udp_wire c sp dp seq true payload = paris_udp_v6 sp dp seq (rc_src c) (rc_dest c).
Proof. intro H. unfold udp_wire, paris_udp_v6. rewrite H. reflexivity. Qed.

Lemma udp_wire_paris_v4 c sp dp seq payload : is_v6 (rc_dest c) = false ->
  udp_wire c sp dp seq true payload = paris_udp sp dp seq (rc_src c) (rc_dest c).
Proof. intro H. unfold udp_wire. rewrite H. reflexivity. Qed.

(* what Channel::connect + send_probe hand to send_to for a Paris probe over IPv6 (Net/Dispatch6.v, byte level) *)
Lemma c11_udp_ipv6_paris_c13_lemma cfg p :
  cfg_v6 cfg -> cc_protocol cfg = Udp -> cc_privilege cfg = Privileged ->
  48 <= cc_packet_size cfg <= 1024 -> probe_wf p -> p_flags p = 1 ->
  run_send BoNetwork cfg [] p =
    (connect_ops true cfg ++
       [SetUnicastHopsV6 (p_ttl p);
        SendTo (paris_udp_v6 (p_src_port p) (p_dest_port p) (p_sequence p) (cc_source cfg) (cc_target cfg))
               (cc_target cfg) 0], Ok tt).
Proof.
  intros Hcfg Hproto Hpriv Hsz (Httl & Hseq & Hid & Hsp & Hdp) Hfl. unfold SendSpec.u16 in *.
  apply run_send_udp6_raw; try assumption. intro w.
  rewrite dispatch_udp_raw6_paris_eq by (try assumption; apply (flags_1 p Hfl)).
  rewrite paris_udp_v6_wire by exact Hseq. reflexivity.
Qed.

(* the rule is not vacuous: a computed zero exists (2001:db8::1 -> 2001:db8::2, ports 5000 -> 33434, sequence 3651) *)
Lemma paris_v6_computed_zero_example :
  let src := [32;1;13;184;0;0;0;0;0;0;0;0;0;0;0;1] in
  let dst := [32;1;13;184;0;0;0;0;0;0;0;0;0;0;0;2] in
  get_word 4 (paris_udp 5000 33434 3651 src dst) = 0 /\
  paris_udp_v6 5000 33434 3651 src dst = [19; 136; 130; 154; 0; 10; 14; 67; 255; 255].
Proof. vm_compute. split; reflexivity. Qed.

(* Paris over IPv4 under the pseudo-header octets of RFC 768 *)
Lemma paris_udp_valid_v4 sp dp seq src dst :
  0 <= sp < 65536 -> 0 <= dp < 65536 -> 0 <= seq < 65536 ->
  bytes src -> bytes dst -> length src = 4%nat -> length dst = 4%nat ->
  rfc1071_valid (pseudo_header_v4 src dst 17 10) (paris_udp sp dp seq src dst).
Proof.
  intros Hsp Hdp Hseq Hbs Hbd Hls Hld.
  destruct (paris_spec sp dp seq src dst Hsp Hdp Hseq Hbs Hbd ltac:(lia) ltac:(lia)) as (Hl & _ & _ & _ & _ & Hv).
  unfold rfc1071_valid. change 10 with (Z.of_nat 10). rewrite <- Hl.
  rewrite pseudo_v4_sum by (try assumption; rewrite Hl; cbn; lia). exact Hv.
Qed.
