From TV Require Import Base.Result Base.Bytes Packet.Checksum.
From Coq Require Import ZifyBool.
Ltac Zify.zify_post_hook ::= Z.div_mod_to_equations.

Lemma fold_loop_spec s : 0 <= s < 4294967296 -> fold_loop 3 s = oc_norm s.
Proof.
  intros Hs. unfold fold_loop, fold1, oc_norm.
  destruct (s / 65536 =? 0) eqn:E1.
  { destruct (s =? 0) eqn:E0; lia. }
  destruct ((s / 65536 + s mod 65536) / 65536 =? 0) eqn:E2.
  { destruct (s =? 0) eqn:E0; lia. }
  set (x := s / 65536 + s mod 65536) in *.
  assert (Hx : 65536 <= x <= 131070) by (unfold x; lia).
  assert (Hx2 : x / 65536 + x mod 65536 = x - 65535) by lia.
  rewrite Hx2.
  destruct ((x - 65535) / 65536 =? 0) eqn:E3; [|lia].
  destruct (s =? 0) eqn:E0; [lia|].
  unfold x. lia.
Qed.

Lemma oc_norm_range s : 0 <= s -> 0 <= oc_norm s <= 65535.
Proof. intros; unfold oc_norm; destruct (s =? 0) eqn:E; lia. Qed.

Lemma oc_norm_pos s : 0 < s -> 1 <= oc_norm s <= 65535.
Proof. intros; unfold oc_norm; destruct (s =? 0) eqn:E; lia. Qed.

Lemma finalize_spec s : 0 <= s < 4294967296 -> finalize_checksum s = 65535 - oc_norm s.
Proof.
  intros Hs. unfold finalize_checksum.
  rewrite (Z.mod_small s 4294967296) by lia. rewrite fold_loop_spec by lia.
  pose proof (oc_norm_range s). rewrite (Z.mod_small (oc_norm s)); lia.
Qed.

(* the heart of "verifies": adding the complement of the folded sum gives negative zero *)
Lemma oc_verifies s : 0 <= s -> oc_norm (s + (65535 - oc_norm s)) = 65535.
Proof.
  intros Hs. unfold oc_norm at 2.
  destruct (s =? 0) eqn:E0.
  - assert (s = 0) by lia. subst. reflexivity.
  - unfold oc_norm. destruct (s + (65535 - ((s - 1) mod 65535 + 1)) =? 0) eqn:E1; lia.
Qed.

(* ---- byte-list lemmas ---- *)
Lemma sum_words_nonneg d : bytes d -> forall i ign, 0 <= sum_words d i ign.
Proof.
  induction d as [|a|a b t IH] using list_ind2; intros Hb i ign; cbn [sum_words].
  - lia.
  - apply bytes_cons in Hb. destruct (i =? ign); lia.
  - apply bytes_cons in Hb. destruct Hb as [Ha Hb]. apply bytes_cons in Hb. destruct Hb as [Hb Ht].
    specialize (IH Ht (i + 1) ign). destruct (i =? ign); lia.
Qed.

Lemma sum_words_bound d : bytes d -> forall i ign,
  2 * sum_words d i ign <= 65535 * (Z.of_nat (length d) + 1).
Proof.
  induction d as [|a|a b t IH] using list_ind2; intros Hb i ign; cbn [sum_words length].
  - lia.
  - apply bytes_cons in Hb. destruct (i =? ign); lia.
  - apply bytes_cons in Hb. destruct Hb as [Ha Hb]. apply bytes_cons in Hb. destruct Hb as [Hb Ht].
    specialize (IH Ht (i + 1) ign). destruct (i =? ign); lia.
Qed.

Lemma sum_words_noskip d : forall i ign, ign < i -> sum_words d i ign = zsum (words d).
Proof.
  induction d as [|a|a b t IH] using list_ind2; intros i ign Hi; cbn [sum_words words zsum fold_right].
  - reflexivity.
  - destruct (i =? ign) eqn:E; lia.
  - rewrite (IH (i + 1) ign ltac:(lia)). destruct (i =? ign) eqn:E; [lia|]. reflexivity.
Qed.

Lemma word_sum_words d : word_sum d = zsum (words d).
Proof. apply sum_words_noskip. lia. Qed.

Lemma sum_words_skip k : forall d i, (2 * k + 2 <= length d)%nat ->
  sum_words d i (i + Z.of_nat k) = zsum (words (put_word k 0 d)).
Proof.
  induction k as [|k IH]; intros d i Hl; destruct d as [|a [|b t]]; cbn [length] in Hl; try lia.
  - cbn [sum_words put_word words zsum fold_right].
    replace (i + Z.of_nat 0) with i by lia. rewrite Z.eqb_refl. cbv iota.
    rewrite sum_words_noskip by lia. unfold zsum. change (0 / 256) with 0. change (0 mod 256) with 0. lia.
  - cbn [sum_words put_word words zsum fold_right].
    destruct (i =? i + Z.of_nat (S k)) eqn:E; [lia|].
    replace (i + Z.of_nat (S k)) with ((i + 1) + Z.of_nat k) by lia.
    rewrite IH by lia. reflexivity.
Qed.

Lemma zsum_cons x l : zsum (x :: l) = x + zsum l.
Proof. reflexivity. Qed.

Lemma put_word_sum k : forall d v, (2 * k + 2 <= length d)%nat -> 0 <= v < 65536 ->
  zsum (words (put_word k v d)) = zsum (words (put_word k 0 d)) + v.
Proof.
  induction k as [|k IH]; intros d v Hl Hv; destruct d as [|a [|b t]]; cbn [length] in Hl; try lia.
  - cbn [put_word words]. rewrite !zsum_cons. change (0 / 256) with 0. change (0 mod 256) with 0. lia.
  - cbn [put_word words]. rewrite !zsum_cons. rewrite IH by lia. lia.
Qed.

Lemma put_word_length k : forall d v, length (put_word k v d) = length d.
Proof.
  induction k as [|k IH]; intros d v; destruct d as [|a [|b t]]; cbn [put_word length]; try reflexivity.
  rewrite IH. reflexivity.
Qed.

Lemma put_word_bytes k : forall d v, bytes d -> 0 <= v < 65536 -> bytes (put_word k v d).
Proof.
  induction k as [|k IH]; intros d v Hb Hv; destruct d as [|a [|b t]]; cbn [put_word]; try assumption.
  - inversion Hb as [|? ? ? Hb']; inversion Hb'; subst. repeat constructor; try lia; assumption.
  - inversion Hb as [|? ? ? Hb']; inversion Hb'; subst. repeat constructor; try lia. apply IH; assumption.
Qed.

Lemma put_word_put_word k : forall d v w, put_word k v (put_word k w d) = put_word k v d.
Proof.
  induction k as [|k IH]; intros d v w; destruct d as [|a [|b t]]; cbn [put_word]; try reflexivity.
  rewrite IH. reflexivity.
Qed.

Lemma words_nonneg d : bytes d -> 0 <= zsum (words d).
Proof. intros. rewrite <- word_sum_words. apply sum_words_nonneg; assumption. Qed.

(* ---- the generic statement for keyed (pseudo-header) and un-keyed checksums ---- *)
Definition no_u32_overflow (pseudo : Z) (d : list Z) (k : Z) : Prop :=
  0 <= pseudo + sum_be_words d k < 4294967296 - 65536.

Lemma sum_no_overflow pseudo d k : bytes d -> Z.of_nat (length d) <= 65535 ->
  0 <= pseudo <= 2200000 -> no_u32_overflow pseudo d k.
Proof.
  intros Hb Hl Hp. unfold no_u32_overflow, sum_be_words.
  pose proof (sum_words_nonneg d Hb 0 k). pose proof (sum_words_bound d Hb 0 k). lia.
Qed.

Lemma generic_value pseudo d k : bytes d -> (2 * k + 2 <= length d)%nat ->
  no_u32_overflow pseudo d (Z.of_nat k) ->
  finalize_checksum (pseudo + sum_be_words d (Z.of_nat k)) = rfc1071 pseudo d k.
Proof.
  intros Hb Hk Ho. unfold no_u32_overflow in Ho. rewrite finalize_spec by lia.
  unfold rfc1071, sum_be_words. rewrite <- (sum_words_skip k d 0 Hk). reflexivity.
Qed.

Lemma generic_verifies pseudo d k : bytes d -> (2 * k + 2 <= length d)%nat -> 0 <= pseudo ->
  oc_norm (pseudo + zsum (words (put_word k (rfc1071 pseudo d k) d))) = 65535.
Proof.
  intros Hb Hk Hp. unfold rfc1071.
  set (S0 := pseudo + zsum (words (put_word k 0 d))).
  assert (HS0 : 0 <= S0).
  { unfold S0. pose proof (words_nonneg (put_word k 0 d) (put_word_bytes k d 0 Hb ltac:(lia))). lia. }
  pose proof (oc_norm_range S0 HS0).
  rewrite put_word_sum by (try assumption; lia).
  replace (pseudo + (zsum (words (put_word k 0 d)) + (65535 - oc_norm S0))) with (S0 + (65535 - oc_norm S0)) by (unfold S0; lia).
  apply oc_verifies. assumption.
Qed.

Lemma rfc1071_range pseudo d k : bytes d -> 0 <= pseudo -> 0 <= rfc1071 pseudo d k < 65536.
Proof.
  intros Hb Hp. unfold rfc1071.
  pose proof (words_nonneg (put_word k 0 d) (put_word_bytes k d 0 Hb ltac:(lia))).
  pose proof (oc_norm_range (pseudo + zsum (words (put_word k 0 d))) ltac:(lia)). lia.
Qed.

(* address word sums are bounded *)
Lemma word_sum_bound a : bytes a -> (length a <= 16)%nat -> 0 <= word_sum a <= 557048.
Proof.
  intros Hb Hl. pose proof (sum_words_nonneg a Hb 0 (-1)). pose proof (sum_words_bound a Hb 0 (-1)).
  unfold word_sum. lia.
Qed.

Definition pseudo_sum (src dst : list Z) (proto : Z) (d : list Z) : Z :=
  word_sum src + word_sum dst + proto + Z.of_nat (length d).

Lemma pseudo_bound src dst proto d : bytes src -> bytes dst -> (length src <= 16)%nat -> (length dst <= 16)%nat ->
  0 <= proto <= 255 -> Z.of_nat (length d) <= 65535 -> 0 <= pseudo_sum src dst proto d <= 2200000.
Proof.
  intros. unfold pseudo_sum. pose proof (word_sum_bound src). pose proof (word_sum_bound dst). lia.
Qed.

Lemma ip_checksum_value d k src dst proto : bytes d -> bytes src -> bytes dst ->
  (length src <= 16)%nat -> (length dst <= 16)%nat -> 0 <= proto <= 255 ->
  (2 * k + 2 <= length d)%nat /\ Z.of_nat (length d) <= 65535 ->
  ip_checksum d (Z.of_nat k) src dst proto = rfc1071 (pseudo_sum src dst proto d) d k.
Proof.
  intros Hd Hs Hds Hls Hld Hp Hl. unfold ip_checksum.
  pose proof (pseudo_bound src dst proto d Hs Hds Hls Hld Hp ltac:(lia)) as Hps.
  fold (pseudo_sum src dst proto d).
  apply generic_value; [assumption|lia|]. apply sum_no_overflow; [assumption|lia|lia].
Qed.

Lemma checksum_value d k : bytes d -> (2 * k + 2 <= length d)%nat /\ Z.of_nat (length d) <= 65535 ->
  checksum d (Z.of_nat k) = rfc1071 0 d k.
Proof.
  intros Hd Hl. unfold checksum. destruct d as [|a t] eqn:E; [cbn in Hl; lia|]. rewrite <- E in *.
  replace (sum_be_words d (Z.of_nat k)) with (0 + sum_be_words d (Z.of_nat k)) by lia.
  apply generic_value; [assumption|lia|]. apply sum_no_overflow; [assumption|lia|lia].
Qed.

(* ---- Paris ---- *)
Lemma be_bytes_bytes v : 0 <= v < 65536 -> bytes (be_bytes v).
Proof. intros. unfold be_bytes. repeat constructor; lia. Qed.

Lemma paris_initial_bytes sp dp seq : 0 <= sp < 65536 -> 0 <= dp < 65536 -> 0 <= seq < 65536 ->
  bytes (paris_udp_initial sp dp seq).
Proof.
  intros. unfold paris_udp_initial, bytes. repeat (apply Forall_app; split); try apply be_bytes_bytes; try lia.
  repeat constructor; lia.
Qed.

Lemma paris_spec sp dp seq src dst :
  0 <= sp < 65536 -> 0 <= dp < 65536 -> 0 <= seq < 65536 ->
  bytes src -> bytes dst -> (length src <= 16)%nat -> (length dst <= 16)%nat ->
  let u := paris_udp sp dp seq src dst in
  length u = 10%nat /\ get_word 3 u = seq /\
  get_word 0 u = sp /\ get_word 1 u = dp /\ get_word 2 u = 10 /\
  oc_norm (pseudo_sum src dst 17 u + zsum (words u)) = 65535.
Proof.
  intros Hsp Hdp Hseq Hs Hd Hls Hld u.
  pose proof (paris_initial_bytes sp dp seq Hsp Hdp Hseq) as Hb0.
  set (u0 := paris_udp_initial sp dp seq) in *.
  assert (Hl0 : length u0 = 10%nat) by reflexivity.
  pose proof (ip_checksum_value u0 3 src dst 17 Hb0 Hs Hd Hls Hld ltac:(lia) ltac:(rewrite Hl0; cbn; lia)) as Hc.
  change (Z.of_nat 3) with 3 in Hc.
  pose proof (generic_verifies (pseudo_sum src dst 17 u0) u0 3 Hb0 ltac:(rewrite Hl0; cbn; lia)
                ltac:(pose proof (pseudo_bound src dst 17 u0 Hs Hd Hls Hld ltac:(lia) ltac:(rewrite Hl0; cbn; lia)); lia)) as Hv.
  pose proof (rfc1071_range (pseudo_sum src dst 17 u0) u0 3 Hb0
                ltac:(pose proof (pseudo_bound src dst 17 u0 Hs Hd Hls Hld ltac:(lia) ltac:(rewrite Hl0; cbn; lia)); lia)) as Hr.
  unfold u, paris_udp. fold u0. rewrite Hc.
  set (c := rfc1071 (pseudo_sum src dst 17 u0) u0 3) in *.
  (* everything is now a concrete 10-byte list up to the symbols sp dp seq c *)
  unfold u0, paris_udp_initial, be_bytes in *. cbn [app] in *.
  unfold get_word. cbn [put_word nth Nat.mul Nat.add] in *.
  assert (Hw : forall v, 0 <= v < 65536 -> v / 256 * 256 + v mod 256 = v) by (intros; lia).
  rewrite !Hw by lia.
  repeat split; try reflexivity; try lia.
  unfold pseudo_sum in *. cbn [length words] in *. rewrite !zsum_cons in *.
  rewrite !Hw in * by lia.
  rewrite <- Hv. f_equal. lia.
Qed.

(* ---- wrappers ---- *)
Lemma keyed_verifies d k src dst proto : bytes d -> bytes src -> bytes dst ->
  (length src <= 16)%nat -> (length dst <= 16)%nat -> 0 <= proto <= 255 ->
  (2 * k + 2 <= length d)%nat /\ Z.of_nat (length d) <= 65535 ->
  oc_norm (pseudo_sum src dst proto d + zsum (words (put_word k (ip_checksum d (Z.of_nat k) src dst proto) d))) = 65535.
Proof.
  intros Hd Hs Hds Hls Hld Hp Hl. rewrite ip_checksum_value by assumption.
  apply generic_verifies; [assumption|lia|].
  pose proof (pseudo_bound src dst proto d Hs Hds Hls Hld Hp ltac:(lia)). lia.
Qed.

Lemma unkeyed_verifies d k : bytes d -> (2 * k + 2 <= length d)%nat /\ Z.of_nat (length d) <= 65535 ->
  oc_norm (zsum (words (put_word k (checksum d (Z.of_nat k)) d))) = 65535.
Proof.
  intros Hd Hl. rewrite checksum_value by assumption.
  pose proof (generic_verifies 0 d k Hd ltac:(lia) ltac:(lia)) as H. exact H.
Qed.

Lemma pseudo_put_word src dst proto d k v : pseudo_sum src dst proto (put_word k v d) = pseudo_sum src dst proto d.
Proof. unfold pseudo_sum. rewrite put_word_length. reflexivity. Qed.
