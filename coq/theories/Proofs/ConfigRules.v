(* C16, precedence and validation over the EFFECTIVE values.
   - [eff o a f]: the effective value of option o (command line, else file, else documented default);
   - [xopt]: the complete inventory of layered settings an accepted TrippyConfig stores - the plain options, protocol and
     address family with their shortcut flags, every theme item, every key binding - with one uniform precedence theorem;
   - [view] / [rules]: what build_config's verdict may depend on, and the documented rejection conditions in the order in
     which the code checks them; the verdict of build_config is the first rule that fires, and it accepts iff none does. *)
From TV Require Import Base.Result Core.Types Core.TracerState Core.Builder
  Tui.ConfigTypes Tui.Validate Tui.Layer Tui.LayerSpec Proofs.LayerProofs.
From Coq Require Import ZifyBool.

(* ================================================================== effective values *)
Definition eff (o : opt) (a : Args) (f : ConfigFile) : val := first_of (cli_get o a) (file_get o f) (doc_default o).

Definition vint (v : val) : Z := match v with VInt z => z | _ => 0 end.
Definition voint (v : val) : option Z := match v with VInt z => Some z | _ => None end.
Definition vbool (v : val) : bool := match v with VBool b => b | _ => false end.
Definition vstr (v : val) : str := match v with VStr s => s | _ => [] end.
Definition vmode (v : val) : Mode := match v with VMode m => m | _ => MTui end.
Definition vstrategy (v : val) : MultipathStrategyConfig := match v with VStrategy s => s | _ => MsClassic end.
Definition vgeoip (v : val) : GeoIpMode := match v with VGeoip g => g | _ => GeoOff end.
Definition vdns (v : val) : DnsResolveMethodConfig := match v with VDns d => d | _ => DrSystem end.
Definition vprotocol (v : val) : protocol :=
  match v with VProtocol PcUdp => Udp | VProtocol PcTcp => Tcp | _ => Icmp end.
Definition vfamily (v : val) : IpAddrFamily := match v with VFamily x => family_of_cfg x | _ => Ipv4thenIpv6 end.

Lemma eff_layer o a f : o <> OTuiMaxAddrs -> lget o (layer_cfg a f) = eff o a f.
Proof. exact (layer_precedence_plain o a f). Qed.

(* the layered values build_config works with, read through the effective values *)
Lemma eff_fields a f :
  let L := layer_cfg a f in
  l_first_ttl L = vint (eff OFirstTtl a f) /\ l_max_ttl L = vint (eff OMaxTtl a f) /\
  l_max_inflight L = vint (eff OMaxInflight a f) /\ l_read_timeout L = vint (eff OReadTimeout a f) /\
  l_min_round_duration L = vint (eff OMinRoundDuration a f) /\ l_max_round_duration L = vint (eff OMaxRoundDuration a f) /\
  l_grace_duration L = vint (eff OGraceDuration a f) /\ l_packet_size L = vint (eff OPacketSize a f) /\
  l_tui_refresh_rate L = vint (eff OTuiRefreshRate a f) /\ l_report_cycles L = vint (eff OReportCycles a f) /\
  l_source_port L = voint (eff OSourcePort a f) /\ l_target_port L = voint (eff OTargetPort a f) /\
  l_mode L = vmode (eff OMode a f) /\ l_multipath_strategy L = vstrategy (eff OMultipathStrategy a f) /\
  l_unprivileged L = vbool (eff OUnprivileged a f) /\ l_dns_resolve_all L = vbool (eff ODnsResolveAll a f) /\
  l_dns_resolve_method L = vdns (eff ODnsResolveMethod a f) /\ l_dns_lookup_as_info L = vbool (eff ODnsLookupAsInfo a f) /\
  l_tui_geoip_mode L = vgeoip (eff OTuiGeoipMode a f) /\ ov VStr (l_geoip_mmdb_file L) = eff OGeoipMmdbFile a f /\
  l_tui_custom_columns L = vstr (eff OTuiCustomColumns a f) /\ ov VStr (l_tui_timezone L) = eff OTuiTimezone a f /\
  l_initial_sequence L = vint (eff OInitialSequence a f) /\ l_max_flows L = vint (eff OMaxFlows a f).
Proof.
  cbv zeta.
  repeat split;
    match goal with |- _ = ?g (eff ?o a f) => rewrite <- (eff_layer o a f) by discriminate | |- _ = eff ?o a f => rewrite <- (eff_layer o a f) by discriminate end;
    cbn [lget vint voint vbool vstr vmode vstrategy vgeoip vdns]; try reflexivity.
  - destruct (l_source_port (layer_cfg a f)); reflexivity.
  - destruct (l_target_port (layer_cfg a f)); reflexivity.
Qed.

(* ================================================================== the complete inventory of layered settings *)
Inductive xopt :=
| XPlain (o : opt)        (* a plain option, stored in a field of its own *)
| XProtocol               (* --protocol together with the shortcut flags --udp / --tcp / --icmp *)
| XFamily                 (* --addr-family together with the shortcut flags -4 / -6 *)
| XTheme (i : nat)        (* the colour of theme item i *)
| XBinding (i : nat).     (* the key of command i *)

Definition cfg_of_family (x : IpAddrFamily) : AddressFamilyConfig :=
  match x with
  | Ipv4Only => AfIpv4 | Ipv6Only => AfIpv6 | Ipv6thenIpv4 => AfIpv6ThenIpv4
  | Ipv4thenIpv6 => AfIpv4ThenIpv6 | FamSystem => AfSystem
  end.

(* "given on the command line" *)
Definition x_cli (x : xopt) (a : Args) : option val :=
  match x with
  | XPlain o => cli_get o a
  | XProtocol =>
    if a_udp a then Some (VProtocol PcUdp) else if a_tcp a then Some (VProtocol PcTcp)
    else if a_icmp a then Some (VProtocol PcIcmp) else cli_get OProtocol a
  | XFamily =>
    if a_ipv4 a then Some (VFamily AfIpv4) else if a_ipv6 a then Some (VFamily AfIpv6) else cli_get OAddrFamily a
  | XTheme i => om VInt (map_get (Z.of_nat i) (a_tui_theme_colors a))
  | XBinding i => om VInt (map_get (Z.of_nat i) (a_tui_key_bindings a))
  end.

(* "given in the file" *)
Definition x_file (x : xopt) (f : ConfigFile) : option val :=
  match x with
  | XPlain o => file_get o f
  | XProtocol => file_get OProtocol f
  | XFamily => file_get OAddrFamily f
  | XTheme i => sec (cf_theme_colors f) (fun m => om VInt (map_get (Z.of_nat i) m))
  | XBinding i => sec (cf_bindings f) (fun b => om VInt (map_get (Z.of_nat i) (cb_items b)))
  end.

(* the documented default (None: there is no such item) *)
Definition x_default (x : xopt) : option val :=
  match x with
  | XPlain o => Some (doc_default o)
  | XProtocol => Some (doc_default OProtocol)
  | XFamily => Some (doc_default OAddrFamily)
  | XTheme i => om VInt (nth_error TuiTheme_default i)
  | XBinding i => om VInt (nth_error TuiBindings_default i)
  end.

(* the setting as stored in the TrippyConfig (None: source-port / target-port, which are stored through port_direction only,
   and the two plain options superseded by XProtocol / XFamily) *)
Definition x_read (x : xopt) (c : TrippyConfig) : option val :=
  match x with
  | XPlain OTuiMaxAddrs => Some (ov VInt (tc_tui_max_addrs c))
  | XPlain o => cfg_get o c
  | XProtocol => Some (VProtocol (protocol_cfg_of (tc_protocol c)))
  | XFamily => Some (VFamily (cfg_of_family (tc_addr_family c)))
  | XTheme i => om VInt (nth_error (tc_tui_theme c) i)
  | XBinding i => om VInt (nth_error (tc_tui_bindings c) i)
  end.

Definition x_norm (x : xopt) (v : val) : val := match x with XPlain o => norm o v | _ => v end.

Definition all_xopts : list xopt :=
  map XPlain (filter (fun o => match o with OProtocol | OAddrFamily | OTargetPort | OSourcePort => false | _ => true end) all_opts)
  ++ [XProtocol; XFamily] ++ map XTheme (seq 0 N_THEME_ITEMS) ++ map XBinding (seq 0 N_BINDING_ITEMS).

Lemma item_rule_first_of cli file d i :
  VInt (item_rule cli file d i) =
  first_of (om VInt (map_get (Z.of_nat i) cli)) (sec file (fun m => om VInt (map_get (Z.of_nat i) m))) (VInt d).
Proof.
  unfold item_rule, first_of, sec, om, option_map.
  destruct (map_get (Z.of_nat i) cli); [reflexivity|]. destruct file as [m|]; [|reflexivity].
  destruct (map_get (Z.of_nat i) m); reflexivity.
Qed.

(* ONE precedence statement for every layered setting: the stored value is the command-line value if given, else the
   file value if given, else the documented default *)
Lemma x_precedence x tz a f p pid c d v : build_config tz a f p pid = COk c ->
  x_default x = Some d -> x_read x c = Some v ->
  v = x_norm x (first_of (x_cli x a) (x_file x f) d).
Proof.
  intros H Hd Hr. destruct x as [o| | |i|i]; cbn [x_default x_cli x_file x_norm] in *.
  - injection Hd as <-.
    assert (Ho : o = OTuiMaxAddrs \/ o <> OTuiMaxAddrs) by (destruct o; (left; reflexivity) || (right; discriminate)).
    destruct Ho as [->|Ho].
    + cbn [x_read] in Hr. injection Hr as <-. exact (config_tui_max_addrs _ _ _ _ _ _ H).
    + assert (Hr' : cfg_get o c = Some v) by (destruct o; try exact Hr; congruence).
      rewrite norm_id by assumption. exact (config_precedence o _ _ _ _ _ _ _ H Hr').
  - injection Hd as <-. cbn [x_read] in Hr. injection Hr as <-.
    rewrite (config_protocol _ _ _ _ _ _ H).
    unfold cli_protocol, file_protocol, first_of_, first_of, cli_get, file_get, sec, om, option_map, doc_default, protocol_cfg_of.
    destruct (a_udp a), (a_tcp a), (a_icmp a); try reflexivity.
    destruct (a_protocol a) as [[]|]; try reflexivity.
    destruct (cf_strategy f) as [s|]; [|reflexivity]. destruct (cs_protocol s) as [[]|]; reflexivity.
  - injection Hd as <-. cbn [x_read] in Hr. injection Hr as <-.
    rewrite (config_addr_family _ _ _ _ _ _ H).
    unfold cli_family, file_family, first_of_, first_of, cli_get, file_get, sec, om, option_map, doc_default, cfg_of_family, family_of_cfg.
    destruct (a_ipv4 a), (a_ipv6 a); try reflexivity.
    destruct (a_addr_family a) as [[]|]; try reflexivity.
    destruct (cf_strategy f) as [s|]; [|reflexivity]. destruct (cs_addr_family s) as [[]|]; reflexivity.
  - cbn [x_read] in Hr. unfold om, option_map in Hd, Hr.
    destruct (nth_error TuiTheme_default i) as [d0|] eqn:Ed; [|discriminate]. injection Hd as <-.
    rewrite (config_theme _ _ _ _ _ _ i d0 H Ed) in Hr. injection Hr as <-. apply item_rule_first_of.
  - cbn [x_read] in Hr. unfold om, option_map in Hd, Hr.
    destruct (nth_error TuiBindings_default i) as [d0|] eqn:Ed; [|discriminate]. injection Hd as <-.
    rewrite (config_bindings _ _ _ _ _ _ i d0 H Ed) in Hr. injection Hr as <-.
    rewrite item_rule_first_of. unfold sec, option_map. destruct (cf_bindings f); reflexivity.
Qed.

(* the inventory is complete and the statement above is never vacuous on it: every entry has a documented default and
   can be read back from every accepted configuration; there are 40 + 2 + 34 + 38 = 114 of them *)
Lemma x_inventory tz a f p pid c : build_config tz a f p pid = COk c ->
  length all_xopts = 114%nat /\
  Forall (fun x => (exists d, x_default x = Some d) /\ (exists v, x_read x c = Some v)) all_xopts.
Proof.
  intros H. split; [reflexivity|].
  assert (Hth : forall i, (i < N_THEME_ITEMS)%nat -> exists d, nth_error TuiTheme_default i = Some d).
  { intros i Hi. destruct (nth_error TuiTheme_default i) eqn:E; [eauto|]. apply nth_error_None in E. cbn in E. unfold N_THEME_ITEMS in Hi. lia. }
  assert (Hbd : forall i, (i < N_BINDING_ITEMS)%nat -> exists d, nth_error TuiBindings_default i = Some d).
  { intros i Hi. destruct (nth_error TuiBindings_default i) eqn:E; [eauto|]. apply nth_error_None in E. cbn in E. unfold N_BINDING_ITEMS in Hi. lia. }
  unfold all_xopts. repeat (apply Forall_app; split).
  - cbn [all_opts filter map]. repeat constructor; cbn [x_default x_read cfg_get]; eauto.
  - repeat constructor; cbn [x_default x_read]; eauto.
  - apply Forall_forall. intros x Hx. apply in_map_iff in Hx. destruct Hx as (i & <- & Hi). apply in_seq in Hi.
    destruct (Hth i ltac:(lia)) as [d Hd]. cbn [x_default x_read]. rewrite Hd, (config_theme _ _ _ _ _ _ i d H Hd). cbn. eauto.
  - apply Forall_forall. intros x Hx. apply in_map_iff in Hx. destruct Hx as (i & <- & Hi). apply in_seq in Hi.
    destruct (Hbd i ltac:(lia)) as [d Hd]. cbn [x_default x_read]. rewrite Hd, (config_bindings _ _ _ _ _ _ i d H Hd). cbn. eauto.
Qed.

(* the shortcut flags: a flag that is given decides, whatever --protocol / --addr-family and the file say; when no flag is
   given the field is the plain option *)
Lemma shortcut_flags tz a f p pid c : build_config tz a f p pid = COk c ->
  (a_udp a = true -> tc_protocol c = Udp) /\
  (a_udp a = false -> a_tcp a = true -> tc_protocol c = Tcp) /\
  (a_udp a = false -> a_tcp a = false -> a_icmp a = true -> tc_protocol c = Icmp) /\
  (a_udp a = false -> a_tcp a = false -> a_icmp a = false -> tc_protocol c = vprotocol (eff OProtocol a f)) /\
  (a_ipv4 a = true -> tc_addr_family c = Ipv4Only) /\
  (a_ipv4 a = false -> a_ipv6 a = true -> tc_addr_family c = Ipv6Only) /\
  (a_ipv4 a = false -> a_ipv6 a = false -> tc_addr_family c = vfamily (eff OAddrFamily a f)).
Proof.
  intros H. rewrite (config_protocol _ _ _ _ _ _ H), (config_addr_family _ _ _ _ _ _ H).
  unfold cli_protocol, file_protocol, cli_family, file_family, first_of_, eff, first_of, cli_get, file_get, sec, om, option_map,
    doc_default, vprotocol, vfamily.
  repeat split; intros; repeat match goal with E : _ = true |- _ => rewrite E | E : _ = false |- _ => rewrite E end; try reflexivity.
  - destruct (a_protocol a) as [[]|]; try reflexivity.
    destruct (cf_strategy f) as [s|]; [|reflexivity]. destruct (cs_protocol s) as [[]|]; reflexivity.
  - destruct (a_addr_family a) as [[]|]; try reflexivity.
    destruct (cf_strategy f) as [s|]; [|reflexivity]. destruct (cs_addr_family s) as [[]|]; reflexivity.
Qed.

(* clap's conflicts_with: at most one of --protocol / --udp / --tcp / --icmp, at most one of --addr-family / -4 / -6 *)
Lemma no_conflict_exclusive a : args_conflict a = false ->
  (a_udp a = true -> a_tcp a = false /\ a_icmp a = false /\ a_protocol a = None) /\
  (a_tcp a = true -> a_udp a = false /\ a_icmp a = false /\ a_protocol a = None) /\
  (a_icmp a = true -> a_udp a = false /\ a_tcp a = false /\ a_protocol a = None) /\
  (a_ipv4 a = true -> a_ipv6 a = false /\ a_addr_family a = None) /\
  (a_ipv6 a = true -> a_ipv4 a = false /\ a_addr_family a = None).
Proof.
  unfold args_conflict, count_true, is_some. intros H.
  destruct (a_udp a), (a_tcp a), (a_icmp a), (a_protocol a), (a_ipv4 a), (a_ipv6 a), (a_addr_family a);
    cbn in H; try discriminate; repeat split; intros; congruence.
Qed.

(* ================================================================== the verdict of build_config *)
(* effective key per command / colour per item: item_rule for every position of the default table *)
Fixpoint eff_items_from (i : nat) (cli : list (Z * Z)) (file : option (list (Z * Z))) (defaults : list Z) : list Z :=
  match defaults with
  | [] => []
  | d :: t => item_rule cli file d i :: eff_items_from (S i) cli file t
  end.

(* a deprecated key is present in the file: [tui] tui-max-samples, [tui] tui-max-flows, [bindings] toggle-privacy *)
Definition deprecated_present (f : ConfigFile) : bool :=
  match cf_tui f with
  | Some t => is_some (cu_deprecated_tui_max_samples t) || is_some (cu_deprecated_tui_max_flows t)
  | None => false
  end ||
  match cf_bindings f with Some b => is_some (cb_deprecated_toggle_privacy b) | None => false end.

(* everything the verdict of build_config may depend on: the effective values only - never "which layer said so" *)
Record view := {
  v_opt : opt -> val;          (* the effective value of every plain option *)
  v_protocol : protocol;       (* the effective protocol / family, shortcut flags included *)
  v_family : IpAddrFamily;
  v_deprecated : bool;
  v_targets : nat;             (* number of targets on the command line *)
  v_verbose : bool;            (* --verbose (command line only) *)
  v_bindings : list Z;         (* the effective key of every command *)
}.

Definition view_of (a : Args) (f : ConfigFile) : view := {|
  v_opt := fun o => eff o a f;
  v_protocol := first_of_ (cli_protocol a) (file_protocol f) Icmp;
  v_family := first_of_ (cli_family a) (file_family f) Ipv4thenIpv6;
  v_deprecated := deprecated_present f;
  v_targets := length (a_targets a);
  v_verbose := a_verbose a;
  v_bindings := eff_items_from 0 (a_tui_key_bindings a) (option_map cb_items (cf_bindings f)) TuiBindings_default;
|}.

(* The documented rejection conditions, in the order in which build_config checks them.  tz: the timezone table,
   p: the privileges of the platform. *)
Definition rules (tz : str -> bool) (p : PlatformPrivilege) (V : view) : list (cfg_error * Prop) :=
  let I o := vint (v_opt V o) in
  let mode := vmode (v_opt V OMode) in
  let strat := vstrategy (v_opt V OMultipathStrategy) in
  let unpriv := vbool (v_opt V OUnprivileged) in
  let src := voint (v_opt V OSourcePort) in
  let dst := voint (v_opt V OTargetPort) in
  let cols := vstr (v_opt V OTuiCustomColumns) in
  let many := (1 < v_targets V)%nat \/ vbool (v_opt V ODnsResolveAll) = true in
  [ (EDeprecated, v_deprecated V = true);
    (EColumnCode, exists ch, In ch cols /\ ~ In ch COLUMN_CODES);
    (ETimezone, exists z, v_opt V OTuiTimezone = VStr z /\ tz z = false);
    (ESourcePort, v_protocol V = Udp /\ exists s, src = Some s /\ s < 1024 /\ (dst = None \/ strat <> MsClassic));
    (EPorts, v_protocol V <> Icmp /\ src <> None /\ dst <> None /\ (v_protocol V = Tcp \/ strat = MsClassic));
    (EPrivilege, if unpriv then needs_privileges p = true else has_privileges p = false);
    (ELogging, mode = MTui /\ v_verbose V = true);
    (EStrategy, unpriv = true /\ strat <> MsClassic);
    (EProtocolStrategy, v_protocol V <> Udp /\ strat <> MsClassic);
    (EMulti, many /\ (In mode [MStream; MPretty; MMarkdown; MCsv; MJson] \/ v_protocol V <> Icmp));
    (EFlows, In mode [MFlows; MDot] /\ strat = MsClassic);
    (ETtl, ~ (1 <= I OFirstTtl <= I OMaxTtl /\ I OMaxTtl <= 254));
    (EMaxInflight, I OMaxInflight = 0);
    (EReadTimeout, ~ (10000000 <= I OReadTimeout <= 100000000));
    (ERoundDuration, I OMaxRoundDuration < I OMinRoundDuration);
    (EGraceDuration, ~ (10000000 <= I OGraceDuration <= 1000000000));
    (EPacketSize, ~ ((match v_family V with Ipv4Only => 28 | _ => 48 end) <= I OPacketSize <= 1024));
    (ERefreshRate, ~ (50000000 <= I OTuiRefreshRate <= 1000000000));
    (EReportCycles, I OReportCycles = 0);
    (EDns, vdns (v_opt V ODnsResolveMethod) = DrSystem /\ vbool (v_opt V ODnsLookupAsInfo) = true);
    (EGeoip, vgeoip (v_opt V OTuiGeoipMode) <> GeoOff /\ v_opt V OGeoipMmdbFile = VNone);
    (ECustomColumns, cols = [] \/ ~ NoDup cols);
    (EBindings, ~ NoDup (v_bindings V)) ].

(* the error reported is that of the first rule, in the listed order, whose condition holds *)
Fixpoint first_rule (rs : list (cfg_error * Prop)) (e : cfg_error) : Prop :=
  match rs with
  | [] => False
  | (e', P) :: t => (P /\ e = e') \/ (~ P /\ first_rule t e)
  end.
Fixpoint none_fires (rs : list (cfg_error * Prop)) : Prop :=
  match rs with [] => True | (_, P) :: t => ~ P /\ none_fires t end.

(* ---- the checks as the code makes them (true = passed), in order ---- *)
Definition is_err {A} (r : cres A) (e : cfg_error) : bool :=
  match r with
  | CErr e' => match e, e' with ESourcePort, ESourcePort | EPorts, EPorts => true | _, _ => false end
  | COk _ => false
  end.

Definition code_checks (tz : str -> bool) (a : Args) (f : ConfigFile) (p : PlatformPrivilege) (pid : Z)
    : list (cfg_error * bool) :=
  let L := layer_cfg a f in
  let proto := derive_protocol (a_udp a) (a_tcp a) (a_icmp a) (l_protocol L) in
  let strat := derive_multipath_strategy (l_multipath_strategy L) in
  let fam := derive_addr_family (a_ipv4 a) (a_ipv6 a) (l_addr_family L) in
  let pd := derive_port_direction proto (l_source_port L) (l_target_port L) (l_multipath_strategy L) pid in
  [ (EDeprecated, validate_deprecated (unwrap_or (cf_tui f) ConfigTui_default) (unwrap_or (cf_bindings f) ConfigBindings_default));
    (EColumnCode, is_some (TuiColumns_try_from (l_tui_custom_columns L)));
    (ETimezone, match l_tui_timezone L with None => true | Some z => tz z end);
    (ESourcePort, negb (is_err pd ESourcePort));
    (EPorts, negb (is_err pd EPorts));
    (EPrivilege, validate_privilege (if l_unprivileged L then PmUnprivileged else PmPrivileged)
                   (has_privileges p) (needs_privileges p));
    (ELogging, validate_logging (l_mode L) (a_verbose a));
    (EStrategy, validate_strategy strat (l_unprivileged L));
    (EProtocolStrategy, validate_protocol_strategy proto strat);
    (EMulti, validate_multi (l_mode L) proto (a_targets a) (l_dns_resolve_all L));
    (EFlows, validate_flows (l_mode L) strat);
    (ETtl, validate_ttl (l_first_ttl L) (l_max_ttl L));
    (EMaxInflight, validate_max_inflight (l_max_inflight L));
    (EReadTimeout, validate_read_timeout (l_read_timeout L));
    (ERoundDuration, validate_round_duration (l_min_round_duration L) (l_max_round_duration L));
    (EGraceDuration, validate_grace_duration (l_grace_duration L));
    (EPacketSize, validate_packet_size fam (l_packet_size L));
    (ERefreshRate, validate_tui_refresh_rate (l_tui_refresh_rate L));
    (EReportCycles, validate_report_cycles (l_report_cycles L));
    (EDns, validate_dns (derive_dns_resolve_method (l_dns_resolve_method L)) (l_dns_lookup_as_info L));
    (EGeoip, validate_geoip (l_tui_geoip_mode L) (l_geoip_mmdb_file L));
    (ECustomColumns, validate_tui_custom_columns (l_tui_custom_columns L));
    (EBindings, validate_bindings (TuiBindings_from (a_tui_key_bindings a) (unwrap_or (cf_bindings f) ConfigBindings_default))) ].

Fixpoint first_fail (l : list (cfg_error * bool)) : option cfg_error :=
  match l with [] => None | (e, b) :: t => if b then first_fail t else Some e end.

Lemma derive_port_direction_err proto s d m pid e :
  derive_port_direction proto s d m pid = CErr e -> e = ESourcePort \/ e = EPorts.
Proof.
  unfold derive_port_direction, check. destruct proto, s as [s|], d as [d|], m; cbn;
    try destruct (validate_source_port s); cbn; intros X; try discriminate; injection X as <-; auto.
Qed.

(* build_config answers with the first failing check, and with a configuration when none fails *)
Lemma build_config_code tz a f p pid :
  match first_fail (code_checks tz a f p pid) with
  | Some e => build_config tz a f p pid = CErr e
  | None => exists c, build_config tz a f p pid = COk c
  end.
Proof.
  unfold build_config, code_checks. cbv zeta. remember (layer_cfg a f) as L eqn:HL. clear HL.
  cbn [first_fail].
  destruct (validate_deprecated _ _); cbn [check cbind]; [|reflexivity].
  destruct (TuiColumns_try_from (l_tui_custom_columns L)) as [cols|] eqn:Ec; cbn [is_some cbind]; [|reflexivity].
  apply TuiColumns_try_from_spec in Ec. destruct Ec as [-> _].
  assert (Htz : match l_tui_timezone L with
                | Some z => if tz z then COk (Some z) else CErr ETimezone
                | None => COk None
                end = if match l_tui_timezone L with None => true | Some z => tz z end then COk (l_tui_timezone L) else CErr ETimezone)
    by (destruct (l_tui_timezone L) as [z|]; [destruct (tz z)|]; reflexivity).
  rewrite Htz. clear Htz.
  destruct (match l_tui_timezone L with None => true | Some z => tz z end); cbn [cbind]; [|reflexivity].
  destruct (derive_port_direction _ _ _ _ _) as [pd|e] eqn:Ep; cbn [is_err negb cbind].
  2:{ destruct (derive_port_direction_err _ _ _ _ _ _ Ep) as [->| ->]; reflexivity. }
  destruct (validate_privilege _ _ _); cbn [check cbind]; [|reflexivity].
  destruct (validate_logging _ _); cbn [check cbind]; [|reflexivity].
  destruct (validate_strategy _ _); cbn [check cbind]; [|reflexivity].
  destruct (validate_protocol_strategy _ _); cbn [check cbind]; [|reflexivity].
  destruct (validate_multi _ _ _ _); cbn [check cbind]; [|reflexivity].
  destruct (validate_flows _ _); cbn [check cbind]; [|reflexivity].
  destruct (validate_ttl _ _); cbn [check cbind]; [|reflexivity].
  destruct (validate_max_inflight _); cbn [check cbind]; [|reflexivity].
  destruct (validate_read_timeout _); cbn [check cbind]; [|reflexivity].
  destruct (validate_round_duration _ _); cbn [check cbind]; [|reflexivity].
  destruct (validate_grace_duration _); cbn [check cbind]; [|reflexivity].
  destruct (validate_packet_size _ _); cbn [check cbind]; [|reflexivity].
  destruct (validate_tui_refresh_rate _); cbn [check cbind]; [|reflexivity].
  destruct (validate_report_cycles _); cbn [check cbind]; [|reflexivity].
  destruct (validate_dns _ _); cbn [check cbind]; [|reflexivity].
  destruct (validate_geoip _ _); cbn [check cbind]; [|reflexivity].
  destruct (validate_tui_custom_columns _); cbn [check cbind]; [|reflexivity].
  destruct (validate_bindings _); cbn [check cbind]; [|reflexivity].
  eexists. reflexivity.
Qed.

(* ---- each check of the code against its documented condition: the check decides the condition ---- *)
Definition decides (b : bool) (P : Prop) : Prop := if b then ~ P else P.

Lemma decides_neg b Q : (b = true <-> Q) -> decides b (~ Q).
Proof. intros [A B]. destruct b; cbn; [intros X; exact (X (A eq_refl))|intros X; discriminate (B X)]. Qed.

Lemma r_deprecated f :
  decides (validate_deprecated (unwrap_or (cf_tui f) ConfigTui_default) (unwrap_or (cf_bindings f) ConfigBindings_default))
          (deprecated_present f = true).
Proof.
  unfold validate_deprecated, deprecated_present.
  destruct (cf_tui f) as [t|], (cf_bindings f) as [b|]; cbn [unwrap_or ConfigTui_default ConfigBindings_default
    cu_deprecated_tui_max_samples cu_deprecated_tui_max_flows cb_deprecated_toggle_privacy is_some orb];
  repeat match goal with |- context [is_some ?x] => destruct x; cbn [is_some orb] end;
  cbn; first [reflexivity | discriminate].
Qed.

Lemma try_from_none s : TuiColumns_try_from s = None -> exists ch, In ch s /\ ~ In ch COLUMN_CODES.
Proof.
  induction s as [|c t IH]; cbn [TuiColumns_try_from]; [discriminate|].
  unfold TuiColumn_try_from. destruct (memZ c COLUMN_CODES) eqn:M.
  - destruct (TuiColumns_try_from t); [discriminate|]. intros _. destruct (IH eq_refl) as (ch & Hin & Hn).
    exists ch. split; [right; assumption|assumption].
  - intros _. exists c. split; [left; reflexivity|]. intros X. apply memZ_In in X. congruence.
Qed.

Lemma r_column_code s : decides (is_some (TuiColumns_try_from s)) (exists ch, In ch s /\ ~ In ch COLUMN_CODES).
Proof.
  destruct (TuiColumns_try_from s) as [cols|] eqn:E; cbn [is_some decides].
  - intros (ch & Hin & Hn). apply TuiColumns_try_from_spec in E. destruct E as [_ Hf].
    rewrite Forall_forall in Hf. exact (Hn (Hf ch Hin)).
  - apply try_from_none. assumption.
Qed.

Lemma r_timezone (tz : str -> bool) (t : option str) :
  decides (match t with None => true | Some z => tz z end) (exists z, ov VStr t = VStr z /\ tz z = false).
Proof.
  destruct t as [z|]; cbn [ov].
  - destruct (tz z) eqn:E; cbn [decides].
    + intros (z' & Ez & Hz). injection Ez as <-. congruence.
    + exists z. split; [reflexivity|assumption].
  - cbn. intros (z & E & _). discriminate.
Qed.

Lemma r_source_port proto s d m pid :
  decides (negb (is_err (derive_port_direction proto s d m pid) ESourcePort))
          (proto = Udp /\ exists x, s = Some x /\ x < 1024 /\ (d = None \/ m <> MsClassic)).
Proof.
  unfold derive_port_direction, check, validate_source_port.
  destruct proto, s as [x|], d as [y|], m; cbn [cbind is_err negb decides];
    try (destruct (x <? 1024) eqn:E; cbn [negb cbind is_err decides]);
    try (intros (Hp & x' & Hs & Hlt & Hd); try discriminate; try injection Hs as <-; try lia;
         destruct Hd as [Hd|Hd]; congruence);
    (split; [reflexivity|]); exists x; (split; [reflexivity|]); (split; [lia|]);
    ((left; reflexivity) || (right; discriminate)).
Qed.

Lemma r_ports proto s d m pid :
  decides (negb (is_err (derive_port_direction proto s d m pid) EPorts))
          (proto <> Icmp /\ s <> None /\ d <> None /\ (proto = Tcp \/ m = MsClassic)).
Proof.
  unfold derive_port_direction, check, validate_source_port.
  destruct proto, s as [x|], d as [y|], m; cbn [cbind is_err negb decides];
    try (destruct (x <? 1024) eqn:E; cbn [negb cbind is_err decides]);
    try (intros (Hp & Hs & Hd & Hm); try congruence; destruct Hm; congruence);
    repeat split; try discriminate; ((left; reflexivity) || (right; reflexivity)).
Qed.

Lemma r_privilege (u : bool) p :
  decides (validate_privilege (if u then PmUnprivileged else PmPrivileged) (has_privileges p) (needs_privileges p))
          (if u then needs_privileges p = true else has_privileges p = false).
Proof. destruct u, (has_privileges p), (needs_privileges p); cbn; first [reflexivity | discriminate]. Qed.

Lemma r_logging mode v : decides (validate_logging mode v) (mode = MTui /\ v = true).
Proof. destruct mode, v; cbn; try (intros [X Y]; discriminate); split; reflexivity. Qed.

Lemma r_strategy m u : decides (validate_strategy (derive_multipath_strategy m) u) (u = true /\ m <> MsClassic).
Proof. destruct m, u; cbn; try (intros [X Y]; congruence); (split; [reflexivity|discriminate]). Qed.

Lemma r_protocol_strategy proto m :
  decides (validate_protocol_strategy proto (derive_multipath_strategy m)) (proto <> Udp /\ m <> MsClassic).
Proof. destruct proto, m; cbn; try (intros [X Y]; congruence); split; discriminate. Qed.

Lemma r_multi mode proto (targets : list str) all :
  decides (validate_multi mode proto targets all)
    (((1 < length targets)%nat \/ all = true) /\ (In mode [MStream; MPretty; MMarkdown; MCsv; MJson] \/ proto <> Icmp)).
Proof.
  unfold validate_multi.
  assert (Hm : (1 <? Z.of_nat (length targets)) || all = true <-> ((1 < length targets)%nat \/ all = true)).
  { rewrite Bool.orb_true_iff, Z.ltb_lt. split; (intros [X|X]; [left; lia|right; assumption]). }
  destruct ((1 <? Z.of_nat (length targets)) || all) eqn:E.
  - assert (Hmany : (1 < length targets)%nat \/ all = true) by (apply Hm; reflexivity).
    destruct mode, proto; cbn [negb In decides];
      try (intros [_ [X|X]]; [intuition discriminate|congruence]);
      (split; [exact Hmany|]); first [right; discriminate | left; cbn; tauto].
  - assert (Hn : ~ ((1 < length targets)%nat \/ all = true)) by (intros X; apply Hm in X; discriminate).
    destruct mode, proto; cbn [negb decides]; intros [X _]; contradiction.
Qed.

Lemma r_flows mode m : decides (validate_flows mode (derive_multipath_strategy m)) (In mode [MFlows; MDot] /\ m = MsClassic).
Proof. destruct mode, m; cbn; try (intros [X Y]; intuition discriminate); (split; [tauto|reflexivity]). Qed.

Lemma r_dns m l : decides (validate_dns (derive_dns_resolve_method m) l) (m = DrSystem /\ l = true).
Proof. destruct m, l; cbn; try (intros [X Y]; congruence); split; reflexivity. Qed.

Lemma r_geoip g (file : option str) : decides (validate_geoip g file) (g <> GeoOff /\ ov VStr file = VNone).
Proof. destruct g, file; cbn; try (intros [X Y]; congruence); (split; [discriminate|reflexivity]). Qed.

Lemma r_custom_columns cols : decides (validate_tui_custom_columns cols) (cols = [] \/ ~ NoDup cols).
Proof.
  destruct (validate_tui_custom_columns cols) eqn:E; cbn [decides].
  - apply validate_tui_custom_columns_spec in E. destruct E as [A B]. intros [X|X]; contradiction.
  - destruct cols as [|c t]; [left; reflexivity|]. right. intros X.
    assert (Y : validate_tui_custom_columns (c :: t) = true) by (apply validate_tui_custom_columns_spec; split; [discriminate|assumption]).
    congruence.
Qed.

Lemma r_eq0 b x : (b = true <-> x <> 0) -> decides b (x = 0).
Proof. intros [A B]. destruct b; cbn; [exact (A eq_refl)|]. destruct (Z.eq_dec x 0) as [?|N]; [assumption|discriminate (B N)]. Qed.

(* the effective bindings *)
Lemma eff_items_from_nth j cli file defaults i d : nth_error defaults i = Some d ->
  nth_error (eff_items_from j cli file defaults) i = Some (item_rule cli file d (j + i)).
Proof.
  revert j i. induction defaults as [|x t IH]; intros j i H; [destruct i; discriminate|].
  cbn [eff_items_from]. destruct i as [|i']; cbn [nth_error] in *.
  - injection H as <-. rewrite Nat.add_0_r. reflexivity.
  - rewrite (IH (S j) i' H). f_equal. f_equal. lia.
Qed.
Lemma eff_items_from_length j cli file defaults : length (eff_items_from j cli file defaults) = length defaults.
Proof. revert j. induction defaults; intros j; cbn [eff_items_from length]; [reflexivity|]. rewrite IHdefaults. reflexivity. Qed.

Lemma nth_error_ext_eq {A} (l1 l2 : list A) : (forall i, nth_error l1 i = nth_error l2 i) -> l1 = l2.
Proof.
  revert l2. induction l1 as [|x t IH]; intros [|y u] H.
  - reflexivity.
  - specialize (H 0%nat). discriminate.
  - specialize (H 0%nat). discriminate.
  - pose proof (H 0%nat) as H0. cbn in H0. injection H0 as <-. f_equal. apply IH. intros i. exact (H (S i)).
Qed.

Lemma bindings_effective cli (file : option ConfigBindings) :
  TuiBindings_from cli (unwrap_or file ConfigBindings_default) =
  eff_items_from 0 cli (option_map cb_items file) TuiBindings_default.
Proof.
  apply nth_error_ext_eq. intros i. destruct (nth_error TuiBindings_default i) as [d|] eqn:Ed.
  - rewrite (bindings_item cli file i d Ed), (eff_items_from_nth 0 _ _ _ i d Ed). reflexivity.
  - apply nth_error_None in Ed.
    assert (A : nth_error (TuiBindings_from cli (unwrap_or file ConfigBindings_default)) i = None)
      by (apply nth_error_None; unfold TuiBindings_from; rewrite layer_items_from_length; exact Ed).
    assert (B : nth_error (eff_items_from 0 cli (option_map cb_items file) TuiBindings_default) i = None)
      by (apply nth_error_None; rewrite eff_items_from_length; exact Ed).
    congruence.
Qed.

Definition linked (cb : cfg_error * bool) (r : cfg_error * Prop) : Prop := fst cb = fst r /\ decides (snd cb) (snd r).

Lemma checks_rules tz a f p pid : Forall2 linked (code_checks tz a f p pid) (rules tz p (view_of a f)).
Proof.
  pose proof (eff_fields a f) as E. cbv zeta in E.
  destruct E as (E1 & E2 & E3 & E4 & E5 & E6 & E7 & E8 & E9 & E10 & E11 & E12 & E13 & E14 & E15 & E16 & E17 & E18 & E19 & E20 & E21 & E22 & _).
  unfold code_checks, rules, view_of. cbv zeta. cbn [v_opt v_protocol v_family v_deprecated v_targets v_verbose v_bindings].
  rewrite (derive_protocol_spec a f), (derive_addr_family_spec a f).
  rewrite <- E1, <- E2, <- E3, <- E4, <- E5, <- E6, <- E7, <- E8, <- E9, <- E10, <- E11, <- E12, <- E13, <- E14, <- E15, <- E16,
    <- E17, <- E18, <- E19, <- E20, <- E21, <- E22.
  repeat (apply Forall2_cons; [split; [reflexivity|cbn [snd]]|]); [..|apply Forall2_nil].
  - apply r_deprecated.
  - apply r_column_code.
  - apply r_timezone.
  - apply r_source_port.
  - apply r_ports.
  - apply r_privilege.
  - apply r_logging.
  - apply r_strategy.
  - apply r_protocol_strategy.
  - apply r_multi.
  - apply r_flows.
  - apply decides_neg. apply validate_ttl_spec.
  - apply r_eq0. apply validate_max_inflight_spec.
  - apply decides_neg. apply validate_read_timeout_spec.
  - unfold validate_round_duration. destruct (_ <? _) eqn:X; cbn [negb decides]; lia.
  - apply decides_neg. apply validate_grace_duration_spec.
  - apply decides_neg. apply validate_packet_size_spec.
  - apply decides_neg. apply validate_tui_refresh_rate_spec.
  - apply r_eq0. apply validate_report_cycles_spec.
  - apply r_dns.
  - apply r_geoip.
  - apply r_custom_columns.
  - rewrite bindings_effective. apply decides_neg. apply validate_bindings_spec.
Qed.

Lemma first_fail_rules cs rs : Forall2 linked cs rs ->
  (forall e, first_fail cs = Some e <-> first_rule rs e) /\ (first_fail cs = None <-> none_fires rs).
Proof.
  induction 1 as [|[e b] [e' P] cs rs [He Hb] _ [IH1 IH2]]; cbn [first_fail first_rule none_fires].
  - split; [intros e; split; [discriminate|tauto]|tauto].
  - cbn [fst snd] in He, Hb. subst e'. destruct b; cbn [decides] in Hb.
    + split.
      * intros e0. rewrite IH1. tauto.
      * rewrite IH2. tauto.
    + split.
      * intros e0. split.
        -- intros [= <-]. left. split; [assumption|reflexivity].
        -- intros [[_ ->]|[X _]]; [reflexivity|contradiction].
      * split; [discriminate|intros [X _]; contradiction].
Qed.

(* ---- the verdict ---- *)
(* build_config reports error e exactly when e is the error of the first documented rule, in the order of the code, whose
   condition holds of the effective values *)
Lemma build_config_error_iff tz a f p pid e :
  build_config tz a f p pid = CErr e <-> first_rule (rules tz p (view_of a f)) e.
Proof.
  destruct (first_fail_rules _ _ (checks_rules tz a f p pid)) as [H1 H2].
  pose proof (build_config_code tz a f p pid) as HC.
  destruct (first_fail (code_checks tz a f p pid)) as [e0|] eqn:E.
  - rewrite HC, <- H1. split; congruence.
  - destruct HC as [c Hc]. rewrite Hc, <- H1. split; discriminate.
Qed.

(* and it accepts exactly when no rule fires *)
Lemma build_config_accepts_iff tz a f p pid :
  (exists c, build_config tz a f p pid = COk c) <-> none_fires (rules tz p (view_of a f)).
Proof.
  destruct (first_fail_rules _ _ (checks_rules tz a f p pid)) as [H1 H2].
  pose proof (build_config_code tz a f p pid) as HC.
  destruct (first_fail (code_checks tz a f p pid)) as [e0|] eqn:E.
  - rewrite <- H2. split; [intros [c Hc]; congruence|discriminate].
  - rewrite <- H2. split; [reflexivity|intros _; exact HC].
Qed.

(* ---- consequences ---- *)
(* a deprecated key in the file is refused whatever else the command line and the file say, and before anything else *)
Lemma deprecated_rejected tz a f p pid : deprecated_present f = true -> build_config tz a f p pid = CErr EDeprecated.
Proof. intros H. apply build_config_error_iff. cbn [rules first_rule view_of v_deprecated]. left. split; [assumption|reflexivity]. Qed.

(* the verdict is a function of the effective values: two command-line / file pairs with the same effective values get
   the same verdict - it does not matter which layer a value comes from, nor whether a value equal to the default is
   written down or left out *)
Record same_view (V V' : view) : Prop := {
  sv_opt : forall o, v_opt V o = v_opt V' o;
  sv_protocol : v_protocol V = v_protocol V';
  sv_family : v_family V = v_family V';
  sv_deprecated : v_deprecated V = v_deprecated V';
  sv_targets : v_targets V = v_targets V';
  sv_verbose : v_verbose V = v_verbose V';
  sv_bindings : v_bindings V = v_bindings V';
}.

Lemma rules_same_view tz p V V' : same_view V V' -> rules tz p V = rules tz p V'.
Proof.
  intros [Ho Hp Hf Hd Ht Hv Hb]. unfold rules. cbv zeta. rewrite !Ho, Hp, Hf, Hd, Ht, Hv, Hb. reflexivity.
Qed.

Lemma verdict_same_view tz p a f pid a' f' pid' : same_view (view_of a f) (view_of a' f') ->
  (forall e, build_config tz a f p pid = CErr e <-> build_config tz a' f' p pid' = CErr e) /\
  ((exists c, build_config tz a f p pid = COk c) <-> (exists c, build_config tz a' f' p pid' = COk c)).
Proof.
  intros H. split; [intros e|]; rewrite ?build_config_error_iff, ?build_config_accepts_iff, (rules_same_view tz p _ _ H); reflexivity.
Qed.

(* the effective derived fields of an accepted configuration, all as functions of the effective values *)
Lemma derived_effective tz a f p pid c : build_config tz a f p pid = COk c ->
  tc_protocol c = v_protocol (view_of a f) /\
  tc_addr_family c = v_family (view_of a f) /\
  port_rule pid (v_protocol (view_of a f)) (voint (eff OSourcePort a f)) (voint (eff OTargetPort a f))
            (derive_multipath_strategy (vstrategy (eff OMultipathStrategy a f))) (tc_port_direction c) /\
  tc_max_rounds c = match vmode (eff OMode a f) with MTui | MStream => None | _ => Some (vint (eff OReportCycles a f)) end /\
  tc_tui_max_addrs c = match voint (eff OTuiMaxAddrs a f) with Some n => if 0 <? n then Some n else None | None => None end /\
  TrippyConfig_max_flows c = match vstrategy (eff OMultipathStrategy a f) with MsClassic => 1 | _ => vint (eff OMaxFlows a f) end /\
  tc_tui_bindings c = v_bindings (view_of a f).
Proof.
  intros H. pose proof (build_config_accepted _ _ _ _ _ _ H) as A.
  pose proof (eff_fields a f) as E. cbv zeta in E.
  destruct E as (_ & _ & _ & _ & _ & _ & _ & _ & _ & E10 & E11 & E12 & E13 & E14 & _ & _ & _ & _ & _ & _ & _ & _ & _ & E24).
  destruct A as [_ _ Hports _ _ _ _ _ _ _ _ _ _ _ _ _ _ _ _ _ _ _ Hf].
  split; [exact (config_protocol _ _ _ _ _ _ H)|]. split; [exact (config_addr_family _ _ _ _ _ _ H)|].
  split.
  { apply derive_port_direction_spec in Hports. rewrite E11, E12, E14 in Hports.
    rewrite (config_protocol _ _ _ _ _ _ H) in Hports. exact Hports. }
  split.
  { rewrite Hf. cbn [tc_max_rounds]. rewrite <- E13, <- E10. unfold derive_max_rounds. destruct (l_mode (layer_cfg a f)); reflexivity. }
  split.
  { pose proof (config_tui_max_addrs _ _ _ _ _ _ H) as X. fold (eff OTuiMaxAddrs a f) in X.
    destruct (eff OTuiMaxAddrs a f) as [| | z | | | | | | | |] eqn:Ev; cbn [norm voint] in *;
      try (destruct (tc_tui_max_addrs c); cbn [ov] in X; congruence).
    destruct (0 <? z); destruct (tc_tui_max_addrs c); cbn [ov] in X; congruence. }
  split.
  { unfold TrippyConfig_max_flows. rewrite Hf. cbn [tc_multipath_strategy tc_max_flows]. rewrite <- E14, <- E24.
    destruct (l_multipath_strategy (layer_cfg a f)); reflexivity. }
  rewrite Hf. cbn [tc_tui_bindings view_of v_bindings]. apply bindings_effective.
Qed.
