(* Lemmas about Net/Dispatch4.v: closed forms of the builders, what the RFC decoder reads from them, the socket-operation lists. *)
From TV Require Import Base.Result Base.Bytes Core.Types Packet.Checksum Proofs.ChecksumProofs Net.Wire Net.Rfc Net.Sock Net.Dispatch4 Proofs.WireProofs.
From Coq Require Import ZifyBool.
Ltac Zify.zify_post_hook ::= Z.div_mod_to_equations.

Definition ipv4_header (c : ipv4) (proto ttl id len : Z) : list Z :=
  let l := adjust_length (v4_byte_order c) len in
  let f := adjust_length (v4_byte_order c) DONT_FRAGMENT in
  [69; v4_tos c; l / 256; l mod 256; id / 256; id mod 256; f / 256; f mod 256; ttl; proto; 0; 0]
  ++ v4_src c ++ v4_dest c.

Lemma len4 (l : list Z) : length l = 4%nat -> exists a b c d, l = [a; b; c; d].
Proof. destruct l as [|a [|b [|c [|d [|e t]]]]]; cbn; intro H; try discriminate. eauto. Qed.

Lemma set_version_0 t : wire_ipv4_set_version 4 (0 :: t) = Ok (64 :: t).
Proof. reflexivity. Qed.
Lemma set_hl_64 t : wire_ipv4_set_header_length 5 (64 :: t) = Ok (69 :: t).
Proof. reflexivity. Qed.
Lemma options_len_69 t : ipv4_options_length (69 :: t) = Ok 0%nat.
Proof. reflexivity. Qed.

Lemma set_bytes_cons off bs x buf :
  wire_set_bytes (S off) bs (x :: buf) =
  match wire_set_bytes off bs buf with Ok r => Ok (x :: r) | Err e => Err e | Fault f => Fault f end.
Proof.
  unfold wire_set_bytes. cbn [length Nat.add Nat.leb].
  destruct (off + length bs <=? length buf)%nat; reflexivity.
Qed.
Lemma set_bytes_all bs z : length bs = length z -> wire_set_bytes 0 bs z = Ok bs.
Proof.
  intro H. unfold wire_set_bytes. cbn [Nat.add firstn app]. rewrite H, Nat.leb_refl, skipn_all, app_nil_r. reflexivity.
Qed.

Lemma make_ipv4_packet_closed c proto ttl id payload :
  length (v4_src c) = 4%nat -> length (v4_dest c) = 4%nat -> 0 <= v4_tos c < 256 ->
  Z.of_nat (length payload) <= 1004 ->
  make_ipv4_packet c (repeat 0 MAX_PACKET_SIZE_N) proto ttl id payload
  = Ok (ipv4_header c proto ttl id (20 + Z.of_nat (length payload)) ++ payload).
Proof.
  intros Hs Hd Ht Hn. unfold ipv4_header.
  destruct (len4 _ Hs) as (s0 & s1 & s2 & s3 & Es). destruct (len4 _ Hd) as (d0 & d1 & d2 & d3 & Ed).
  unfold make_ipv4_packet. rewrite Es, Ed.
  change (Z.of_nat IPV4_MIN) with 20.
  rewrite (Z.mod_small (20 + Z.of_nat (length payload))) by lia.
  replace (Z.to_nat (20 + Z.of_nat (length payload))) with (20 + length payload)%nat by lia.
  rewrite slice_repeat by (unfold MAX_PACKET_SIZE_N, MAX_PACKET_SIZE; lia).
  cbn [Nat.add repeat bind].
  set (z := repeat 0 (length payload)). assert (Hz : length z = length payload) by apply repeat_length.
  clearbody z.
  unfold wire_ipv4_new, packet_new. cbn [length Nat.leb IPV4_MIN bind].
  rewrite set_version_0. cbn [bind]. rewrite set_hl_64. cbn [bind].
  unfold wire_ipv4_set_total_length, wire_ipv4_set_ttl, wire_ipv4_set_protocol, wire_ipv4_set_source, wire_ipv4_set_destination, to_be_bytes.
  cbn [wire_set_bytes buf_write length Nat.add Nat.leb Nat.ltb firstn skipn app bind].
  rewrite ipv4_set_tos_exact by assumption. cbn [bind].
  unfold ipv4_set_payload. rewrite options_len_69. cbn [bind IPV4_MIN Nat.add].
  rewrite !set_bytes_cons, (set_bytes_all payload z) by (symmetry; exact Hz).
  unfold wire_ipv4_set_identification, wire_ipv4_set_flags_and_fragment_offset, to_be_bytes.
  cbn [wire_set_bytes length Nat.add Nat.leb firstn skipn app bind].
  reflexivity.
Qed.

Definition echo_body (ty id seq pat : Z) (n : nat) : list Z :=
  [ty; 0; 0; 0; id / 256; id mod 256; seq / 256; seq mod 256] ++ repeat pat n.

Lemma make_echo4_closed c id seq n : Z.of_nat n <= 996 ->
  make_echo_request_icmp_packet4 c (repeat 0 MAX_ICMP_PACKET_BUF4) id seq n
  = Ok (put_word 1 (icmp_ipv4_checksum (echo_body 8 id seq (v4_payload_pattern c) n))
                 (echo_body 8 id seq (v4_payload_pattern c) n)).
Proof.
  intros Hn. unfold make_echo_request_icmp_packet4, echo_body.
  rewrite slice_repeat by (unfold MAX_ICMP_PACKET_BUF4, MAX_PACKET_SIZE, ICMP_MIN; lia).
  cbn [ICMP_MIN Nat.add repeat bind].
  set (z := repeat 0 n). assert (Hz : length z = n) by apply repeat_length. clearbody z.
  unfold echo_new, packet_new. cbn [length Nat.leb ICMP_MIN bind].
  unfold echo_set_icmp_type, echo_set_icmp_code, echo_set_identifier, to_be_bytes.
  cbn [wire_set_bytes buf_write length Nat.add Nat.leb Nat.ltb firstn skipn app bind].
  rewrite slice_repeat by (unfold MAX_ICMP_PAYLOAD_BUF4, MAX_PACKET_SIZE; lia). cbn [bind].
  unfold echo_set_payload, ICMP_MIN, ICMP4_ECHO_REQUEST.
  rewrite !set_bytes_cons, (set_bytes_all (repeat (v4_payload_pattern c) n) z) by (rewrite repeat_length; symmetry; exact Hz).
  unfold echo_set_sequence, echo_set_checksum, to_be_bytes.
  cbn [wire_set_bytes length Nat.add Nat.leb firstn skipn app bind put_word].
  reflexivity.
Qed.

Definition udp_body (sp dp : Z) (payload : list Z) : list Z :=
  [sp / 256; sp mod 256; dp / 256; dp mod 256;
   (8 + Z.of_nat (length payload)) / 256; (8 + Z.of_nat (length payload)) mod 256; 0; 0] ++ payload.

Lemma make_udp4_closed c sp dp payload : Z.of_nat (length payload) <= 996 ->
  make_udp_packet4 c (repeat 0 MAX_UDP_PACKET_BUF4) sp dp payload
  = Ok (put_word 3 (udp_ipv4_checksum (udp_body sp dp payload) (v4_src c) (v4_dest c)) (udp_body sp dp payload)).
Proof.
  intros Hn. unfold make_udp_packet4, udp_body.
  rewrite slice_repeat by (unfold MAX_UDP_PACKET_BUF4, MAX_PACKET_SIZE, UDP_MIN; lia).
  replace (Z.of_nat (UDP_MIN + length payload) mod 65536) with (8 + Z.of_nat (length payload)) by (unfold UDP_MIN; lia).
  unfold UDP_MIN. cbn [Nat.add repeat bind].
  set (z := repeat 0 (length payload)). assert (Hz : length z = length payload) by apply repeat_length. clearbody z.
  unfold wire_udp_new, packet_new, UDP_MIN. cbn [length Nat.leb bind].
  unfold wire_udp_set_source, wire_udp_set_destination, wire_udp_set_length, to_be_bytes.
  cbn [wire_set_bytes length Nat.add Nat.leb firstn skipn app bind].
  unfold udp_set_payload, UDP_MIN.
  rewrite !set_bytes_cons, (set_bytes_all payload z) by (symmetry; exact Hz).
  unfold wire_udp_set_checksum, to_be_bytes.
  cbn [wire_set_bytes length Nat.add Nat.leb firstn skipn app bind put_word].
  reflexivity.
Qed.

(* ---- the world ---- *)
Definition push (op : sockop) (w : world) : world := {| w_ops := w_ops w ++ [op]; w_inject := w_inject w |}.

Lemma sock_call_clean c op w : w_inject w = [] -> sock_call c op w = (push op w, Ok tt).
Proof. intro H. unfold sock_call, push. rewrite H. reflexivity. Qed.

Lemma sock_new_clean k raw w : w_inject w = [] -> sock_new k raw w = (push (NewSocket k raw) w, Ok tt).
Proof. intro H. unfold sock_new, push. rewrite H. reflexivity. Qed.

Lemma push_inject op w : w_inject (push op w) = w_inject w.
Proof. reflexivity. Qed.

Definition icmp4_datagram (c : ipv4) (p : probe) : list Z :=
  let n := Z.to_nat (v4_packet_size c - 28) in
  let body := echo_body 8 (p_identifier p) (p_sequence p) (v4_payload_pattern c) n in
  ipv4_header c 1 (p_ttl p) 0 (v4_packet_size c) ++ put_word 1 (icmp_ipv4_checksum body) body.

Lemma echo_body_length ty id seq pat n : length (echo_body ty id seq pat n) = (8 + n)%nat.
Proof. unfold echo_body. rewrite app_length, repeat_length. reflexivity. Qed.

(* the pure part always succeeds for an in-range packet size: the dispatch is one send_to *)
Lemma dispatch_icmp4_eq c p w :
  length (v4_src c) = 4%nat -> length (v4_dest c) = 4%nat -> 0 <= v4_tos c < 256 ->
  28 <= v4_packet_size c <= 1024 ->
  dispatch_icmp_probe4 c p w =
  map_err (map_err (map_err (send_to (icmp4_datagram c p) (v4_dest c) 0)
    (probe_failed K_HOST_UNREACHABLE)) (probe_failed K_NET_UNREACHABLE)) (probe_failed K_INVALID_INPUT) w.
Proof.
  intros Hs Hd Ht Hp. unfold dispatch_icmp_probe4, MIN_PACKET_SIZE_ICMP4, MAX_PACKET_SIZE.
  replace ((28 <=? v4_packet_size c) && (v4_packet_size c <=? 1024)) with true by lia.
  cbn [negb]. unfold mbind, lift, icmp_payload_size4, sub_w.
  replace (8 <=? v4_packet_size c) with true by lia. cbn [bind].
  replace (20 <=? v4_packet_size c - 8) with true by lia. cbn [bind].
  replace (v4_packet_size c - 8 - 20) with (v4_packet_size c - 28) by lia.
  rewrite make_echo4_closed by lia. cbn [bind].
  rewrite make_ipv4_packet_closed; try assumption.
  2:{ rewrite put_word_length, echo_body_length. lia. }
  rewrite put_word_length, echo_body_length.
  replace (20 + Z.of_nat (8 + Z.to_nat (v4_packet_size c - 28))) with (v4_packet_size c) by lia.
  reflexivity.
Qed.

Lemma dispatch_icmp4_ok c p w :
  length (v4_src c) = 4%nat -> length (v4_dest c) = 4%nat -> 0 <= v4_tos c < 256 ->
  28 <= v4_packet_size c <= 1024 -> w_inject w = [] ->
  dispatch_icmp_probe4 c p w = (push (SendTo (icmp4_datagram c p) (v4_dest c) 0) w, Ok tt).
Proof.
  intros Hs Hd Ht Hp Hw. rewrite dispatch_icmp4_eq by assumption.
  unfold map_err, send_to. rewrite sock_call_clean by assumption. reflexivity.
Qed.

Lemma dispatch_icmp4_invalid_size c p w :
  ~ (28 <= v4_packet_size c <= 1024) -> dispatch_icmp_probe4 c p w = (w, Err EInvalidPacketSize).
Proof.
  intro H. unfold dispatch_icmp_probe4, MIN_PACKET_SIZE_ICMP4, MAX_PACKET_SIZE.
  replace ((28 <=? v4_packet_size c) && (v4_packet_size c <=? 1024)) with false by lia. reflexivity.
Qed.

(* ---- decoding what was built ---- *)
Ltac rfc_side := first [ reflexivity | cbn [length]; lia | cbn [nth]; lia ].

Lemma ipv4_header_decode c proto ttl id payload :
  v4_byte_order c = BoNetwork ->
  length (v4_src c) = 4%nat -> length (v4_dest c) = 4%nat -> 0 <= v4_tos c < 256 ->
  0 <= ttl < 256 -> 0 <= proto < 256 -> 0 <= id < 65536 -> Z.of_nat (length payload) <= 1004 ->
  let b := ipv4_header c proto ttl id (20 + Z.of_nat (length payload)) ++ payload in
  ipv4_wellformed (v4_src c) (v4_dest c) (v4_tos c) ttl proto b /\
  ip_identification (rfc791_decode b) = id /\
  ip_payload (rfc791_decode b) = payload /\
  Z.of_nat (length b) = 20 + Z.of_nat (length payload).
Proof.
  intros Hbo Hs Hd Ht Httl Hpr Hid Hn b.
  destruct (len4 _ Hs) as (s0 & s1 & s2 & s3 & Es). destruct (len4 _ Hd) as (d0 & d1 & d2 & d3 & Ed).
  assert (Hlen : Z.of_nat (length b) = 20 + Z.of_nat (length payload)).
  { unfold b, ipv4_header. rewrite Es, Ed. cbn [app length]. lia. }
  set (L := 20 + Z.of_nat (length payload)) in *.
  assert (HL : 0 <= L < 65536) by (unfold L; lia).
  assert (Eb : b = 69 :: v4_tos c :: L / 256 :: L mod 256 :: id / 256 :: id mod 256 :: 64 :: 0 :: ttl :: proto :: 0 :: 0
                    :: s0 :: s1 :: s2 :: s3 :: d0 :: d1 :: d2 :: d3 :: payload).
  { unfold b, ipv4_header. rewrite Hbo, Es, Ed. reflexivity. }
  unfold ipv4_wellformed, rfc791_decode.
  cbn [ip_version ip_ihl ip_tos ip_total_length ip_identification ip_flag_reserved ip_flag_df ip_flag_mf
       ip_fragment_offset ip_ttl ip_protocol ip_source ip_destination ip_payload].
  rewrite Hlen. rewrite Eb.
  rewrite (rfc_get_in_octet 0 4 0 0); [| rfc_side ..].
  rewrite (rfc_get_in_octet 4 4 0 4); [| rfc_side ..].
  rewrite (rfc_get_u8 8 1); [| rfc_side ..].
  rewrite (rfc_get_u16 16 2); [| rfc_side ..].
  rewrite (rfc_get_u16 32 4); [| rfc_side ..].
  rewrite (rfc_get_in_octet 48 1 6 0); [| rfc_side ..].
  rewrite (rfc_get_in_octet 49 1 6 1); [| rfc_side ..].
  rewrite (rfc_get_in_octet 50 1 6 2); [| rfc_side ..].
  rewrite (rfc_get_in_two_octets 51 13 6 3); [| rfc_side ..].
  rewrite (rfc_get_u8 64 8); [| rfc_side ..].
  rewrite (rfc_get_u8 72 9); [| rfc_side ..].
  cbn [nth rfc_octets skipn firstn].
  change (Z.to_nat (4 * (69 / 2 ^ (8 - 4 - 4) mod 2 ^ 4))) with 20%nat. cbn [skipn].
  repeat split; try reflexivity; try lia; symmetry; assumption.
Qed.

Lemma echo_decode ty id seq pat n ck :
  0 <= ty < 256 -> 0 <= id < 65536 -> 0 <= seq < 65536 -> 0 <= ck < 65536 ->
  let m := put_word 1 ck (echo_body ty id seq pat n) in
  let e := rfc_echo_decode m in
  ic_type e = ty /\ ic_code e = 0 /\ ic_checksum e = ck /\ ic_identifier e = id /\ ic_sequence e = seq /\
  ic_data e = repeat pat n.
Proof.
  intros Hty Hid Hseq Hck m e. unfold e, m, rfc_echo_decode, echo_body.
  cbn [app put_word ic_type ic_code ic_checksum ic_identifier ic_sequence ic_data].
  rewrite (rfc_get_u8 0 0); [| rfc_side ..].
  rewrite (rfc_get_u8 8 1); [| rfc_side ..].
  rewrite (rfc_get_u16 16 2); [| rfc_side ..].
  rewrite (rfc_get_u16 32 4); [| rfc_side ..].
  rewrite (rfc_get_u16 48 6); [| rfc_side ..].
  cbn [nth skipn]. repeat split; try reflexivity; lia.
Qed.

Lemma echo_body_bytes ty id seq pat n :
  0 <= ty < 256 -> 0 <= id < 65536 -> 0 <= seq < 65536 -> 0 <= pat < 256 -> bytes (echo_body ty id seq pat n).
Proof.
  intros. unfold echo_body. apply bytes_app. split; [|apply bytes_repeat; assumption].
  repeat constructor; lia.
Qed.

Lemma icmp4_checksum_range d : bytes d -> 0 <= icmp_ipv4_checksum d < 65536.
Proof.
  intro Hb. unfold icmp_ipv4_checksum, checksum. destruct d as [|a t]; [lia|].
  unfold finalize_checksum. lia.
Qed.

Lemma ip_checksum_range d k src dst proto : 0 <= ip_checksum d k src dst proto < 65536.
Proof. unfold ip_checksum, finalize_checksum. lia. Qed.

(* everything the property says about an ICMP/IPv4 probe *)
Lemma icmp4_datagram_wellformed c p :
  v4_byte_order c = BoNetwork ->
  length (v4_src c) = 4%nat -> length (v4_dest c) = 4%nat -> 0 <= v4_tos c < 256 ->
  28 <= v4_packet_size c <= 1024 -> 0 <= v4_payload_pattern c < 256 ->
  0 <= p_ttl p < 256 -> 0 <= p_sequence p < 65536 -> 0 <= p_identifier p < 65536 ->
  let b := icmp4_datagram c p in
  ipv4_wellformed (v4_src c) (v4_dest c) (v4_tos c) (p_ttl p) 1 b /\
  Z.of_nat (length b) = v4_packet_size c /\
  echo_wellformed 8 (p_identifier p) (p_sequence p) (v4_payload_pattern c)
    (Z.to_nat (v4_packet_size c - 28)) [] (ip_payload (rfc791_decode b)).
Proof.
  intros Hbo Hs Hd Ht Hp Hpat Httl Hseq Hid b.
  set (n := Z.to_nat (v4_packet_size c - 28)).
  set (body := echo_body 8 (p_identifier p) (p_sequence p) (v4_payload_pattern c) n).
  set (m := put_word 1 (icmp_ipv4_checksum body) body).
  assert (Hbb : bytes body) by (apply echo_body_bytes; lia).
  assert (Hlb : length body = (8 + n)%nat) by apply echo_body_length.
  assert (Hlm : Z.of_nat (length m) = v4_packet_size c - 20).
  { unfold m. rewrite put_word_length, Hlb. unfold n. lia. }
  assert (Eb : b = ipv4_header c 1 (p_ttl p) 0 (20 + Z.of_nat (length m)) ++ m).
  { unfold b, icmp4_datagram. fold n. fold body. fold m. rewrite Hlm. f_equal. f_equal. lia. }
  destruct (ipv4_header_decode c 1 (p_ttl p) 0 m Hbo Hs Hd Ht Httl ltac:(lia) ltac:(lia) ltac:(lia))
    as (Hwf & _ & Hpl & Hlen).
  rewrite <- Eb in Hwf, Hpl, Hlen.
  split; [exact Hwf|]. split; [lia|]. rewrite Hpl.
  pose proof (icmp4_checksum_range body Hbb) as Hck.
  destruct (echo_decode 8 (p_identifier p) (p_sequence p) (v4_payload_pattern c) n (icmp_ipv4_checksum body)
              ltac:(lia) Hid Hseq Hck) as (H1 & H2 & _ & H4 & H5 & H6).
  fold body in H1, H2, H4, H5, H6. fold m in H1, H2, H4, H5, H6.
  unfold echo_wellformed. repeat split; try assumption.
  unfold rfc1071_valid. cbn [app]. unfold m.
  apply (unkeyed_verifies body 1 Hbb). rewrite Hlb. split; lia.
Qed.

(* ---- UDP ---- *)
Lemma udp_body_length sp dp payload : length (udp_body sp dp payload) = (8 + length payload)%nat.
Proof. reflexivity. Qed.

Lemma udp_body_bytes sp dp payload : 0 <= sp < 65536 -> 0 <= dp < 65536 -> bytes payload ->
  Z.of_nat (length payload) <= 1000 -> bytes (udp_body sp dp payload).
Proof.
  intros. unfold udp_body. apply bytes_app. split; [|assumption]. repeat constructor; lia.
Qed.

Lemma udp_decode sp dp payload ck :
  0 <= sp < 65536 -> 0 <= dp < 65536 -> 0 <= ck < 65536 -> Z.of_nat (length payload) <= 1000 ->
  let u := put_word 3 ck (udp_body sp dp payload) in
  let d := rfc768_decode u in
  ud_source_port d = sp /\ ud_destination_port d = dp /\ ud_length d = Z.of_nat (length u) /\
  ud_checksum d = ck /\ ud_data d = payload.
Proof.
  intros Hsp Hdp Hck Hn u d. unfold d, u, rfc768_decode, udp_body.
  cbn [app put_word ud_source_port ud_destination_port ud_length ud_checksum ud_data length].
  rewrite (rfc_get_u16 0 0); [| rfc_side ..].
  rewrite (rfc_get_u16 16 2); [| rfc_side ..].
  rewrite (rfc_get_u16 32 4); [| rfc_side ..].
  rewrite (rfc_get_u16 48 6); [| rfc_side ..].
  cbn [nth skipn]. repeat split; try reflexivity; lia.
Qed.

(* the payload handed to the raw / non-raw dispatch *)
Lemma udp4_payload_ok c :
  28 <= v4_packet_size c <= 1024 ->
  (let* payload_size := udp_payload_size4 (v4_packet_size c) in
   slice 0 (Z.to_nat payload_size) (repeat (v4_payload_pattern c) MAX_UDP_PAYLOAD_BUF4))
  = Ok (repeat (v4_payload_pattern c) (Z.to_nat (v4_packet_size c - 28))).
Proof.
  intros Hp. unfold udp_payload_size4, sub_w.
  replace (8 <=? v4_packet_size c) with true by lia. cbn [bind].
  replace (20 <=? v4_packet_size c - 8) with true by lia. cbn [bind].
  replace (v4_packet_size c - 8 - 20) with (v4_packet_size c - 28) by lia.
  apply slice_repeat. unfold MAX_UDP_PAYLOAD_BUF4, MAX_PACKET_SIZE. lia.
Qed.

Definition udp4_datagram (c : ipv4) (p : probe) (payload : list Z) : list Z :=
  let body := udp_body (p_src_port p) (p_dest_port p) payload in
  ipv4_header c 17 (p_ttl p) (p_identifier p) (28 + Z.of_nat (length payload))
  ++ put_word 3 (udp_ipv4_checksum body (v4_src c) (v4_dest c)) body.

Lemma dispatch_udp_raw4_classic_eq c p payload w :
  length (v4_src c) = 4%nat -> length (v4_dest c) = 4%nat -> 0 <= v4_tos c < 256 ->
  flag_paris p = false -> Z.of_nat (length payload) <= 996 ->
  dispatch_udp_probe_raw4 c p payload w =
  map_err (map_err (send_to (udp4_datagram c p payload) (v4_dest c) (p_dest_port p))
    (probe_failed K_HOST_UNREACHABLE)) (probe_failed K_NET_UNREACHABLE) w.
Proof.
  intros Hs Hd Ht Hf Hn. unfold dispatch_udp_probe_raw4. rewrite Hf.
  unfold mbind, lift. rewrite make_udp4_closed by assumption. cbn [bind].
  rewrite make_ipv4_packet_closed; try assumption.
  2:{ rewrite put_word_length, udp_body_length. lia. }
  rewrite put_word_length, udp_body_length.
  replace (20 + Z.of_nat (8 + length payload)) with (28 + Z.of_nat (length payload)) by lia.
  reflexivity.
Qed.

(* Paris: the 10 octets after the swap *)
Definition paris_wire (sp dp seq ck : Z) : list Z :=
  [sp / 256; sp mod 256; dp / 256; dp mod 256; 0; 10; seq / 256; seq mod 256; ck / 256; ck mod 256].

Lemma paris_swap_closed sp dp seq ck : 0 <= seq < 65536 -> 0 <= ck < 65536 ->
  (let udp := put_word 3 ck (udp_body sp dp (to_be_bytes seq)) in
   let* checksum := wire_udp_get_checksum udp in
   let* pl := udp_payload udp in
   let* p0 := index 0 pl in
   let* p1 := index 1 pl in
   let* udp := wire_udp_set_checksum (p0 * 256 + p1) udp in
   udp_set_payload (to_be_bytes checksum) udp) = Ok (paris_wire sp dp seq ck).
Proof.
  intros Hseq Hck. unfold udp_body, to_be_bytes, wire_udp_get_checksum, get_u16, buf_read, udp_payload, slice_from, index, UDP_MIN.
  cbn [app put_word nth_error length Nat.leb skipn bind].
  unfold wire_udp_set_checksum, udp_set_payload, to_be_bytes, UDP_MIN.
  cbn [wire_set_bytes length Nat.add Nat.leb firstn skipn app bind].
  unfold paris_wire. rewrite !be_join by assumption. reflexivity.
Qed.

Definition paris4_datagram (c : ipv4) (p : probe) : list Z :=
  let u0 := udp_body (p_src_port p) (p_dest_port p) (to_be_bytes (p_sequence p)) in
  ipv4_header c 17 (p_ttl p) (p_identifier p) 30
  ++ paris_wire (p_src_port p) (p_dest_port p) (p_sequence p) (udp_ipv4_checksum u0 (v4_src c) (v4_dest c)).

Lemma dispatch_udp_raw4_paris_eq c p payload w :
  length (v4_src c) = 4%nat -> length (v4_dest c) = 4%nat -> 0 <= v4_tos c < 256 ->
  flag_paris p = true -> 0 <= p_sequence p < 65536 ->
  dispatch_udp_probe_raw4 c p payload w =
  map_err (map_err (send_to (paris4_datagram c p) (v4_dest c) (p_dest_port p))
    (probe_failed K_HOST_UNREACHABLE)) (probe_failed K_NET_UNREACHABLE) w.
Proof.
  intros Hs Hd Ht Hf Hseq. unfold dispatch_udp_probe_raw4. rewrite Hf.
  unfold mbind, lift. rewrite make_udp4_closed by (cbn; lia). cbn [bind].
  rewrite paris_swap_closed by (try assumption; apply ip_checksum_range). cbn [bind].
  rewrite make_ipv4_packet_closed; try assumption; [|cbn; lia].
  reflexivity.
Qed.

Lemma dispatch_udp4_eq c p w :
  28 <= v4_packet_size c <= 1024 ->
  dispatch_udp_probe4 c p w =
  match v4_privilege c with
  | Privileged => dispatch_udp_probe_raw4 c p (repeat (v4_payload_pattern c) (Z.to_nat (v4_packet_size c - 28))) w
  | Unprivileged => dispatch_udp_probe_non_raw4 c p (repeat (v4_payload_pattern c) (Z.to_nat (v4_packet_size c - 28))) w
  end.
Proof.
  intros Hp. unfold dispatch_udp_probe4, MIN_PACKET_SIZE_UDP4, MAX_PACKET_SIZE.
  replace ((28 <=? v4_packet_size c) && (v4_packet_size c <=? 1024)) with true by lia.
  cbn [negb]. unfold mbind at 1, lift. rewrite udp4_payload_ok by assumption.
  destruct (v4_privilege c); reflexivity.
Qed.

Lemma dispatch_udp4_invalid_size c p w :
  ~ (28 <= v4_packet_size c <= 1024) -> dispatch_udp_probe4 c p w = (w, Err EInvalidPacketSize).
Proof.
  intro H. unfold dispatch_udp_probe4, MIN_PACKET_SIZE_UDP4, MAX_PACKET_SIZE.
  replace ((28 <=? v4_packet_size c) && (v4_packet_size c <=? 1024)) with false by lia. reflexivity.
Qed.

(* everything the property says about a classic / Dublin UDP/IPv4 probe *)
Lemma udp4_datagram_wellformed c p :
  v4_byte_order c = BoNetwork ->
  length (v4_src c) = 4%nat -> length (v4_dest c) = 4%nat -> bytes (v4_src c) -> bytes (v4_dest c) ->
  0 <= v4_tos c < 256 -> 28 <= v4_packet_size c <= 1024 -> 0 <= v4_payload_pattern c < 256 ->
  0 <= p_ttl p < 256 -> 0 <= p_identifier p < 65536 -> 0 <= p_src_port p < 65536 -> 0 <= p_dest_port p < 65536 ->
  let payload := repeat (v4_payload_pattern c) (Z.to_nat (v4_packet_size c - 28)) in
  let b := udp4_datagram c p payload in
  let u := ip_payload (rfc791_decode b) in
  ipv4_wellformed (v4_src c) (v4_dest c) (v4_tos c) (p_ttl p) 17 b /\
  ip_identification (rfc791_decode b) = p_identifier p /\
  Z.of_nat (length b) = v4_packet_size c /\
  udp_wellformed (p_src_port p) (p_dest_port p)
    (pseudo_header_v4 (v4_src c) (v4_dest c) 17 (Z.of_nat (length u))) u /\
  ud_data (rfc768_decode u) = payload.
Proof.
  intros Hbo Hs Hd Hbs Hbd Ht Hp Hpat Httl Hid Hsp Hdp payload b u.
  assert (Hlp : Z.of_nat (length payload) = v4_packet_size c - 28) by (unfold payload; rewrite repeat_length; lia).
  set (body := udp_body (p_src_port p) (p_dest_port p) payload).
  set (ck := udp_ipv4_checksum body (v4_src c) (v4_dest c)).
  set (m := put_word 3 ck body).
  assert (Hbb : bytes body).
  { apply udp_body_bytes; try assumption; [|lia]. apply bytes_repeat. assumption. }
  assert (Hlb : length body = (8 + length payload)%nat) by reflexivity.
  assert (Hlm : Z.of_nat (length m) = v4_packet_size c - 20).
  { unfold m. rewrite put_word_length, Hlb. lia. }
  assert (Eb : b = ipv4_header c 17 (p_ttl p) (p_identifier p) (20 + Z.of_nat (length m)) ++ m).
  { unfold b, udp4_datagram. fold body. fold ck. fold m. f_equal. f_equal. lia. }
  destruct (ipv4_header_decode c 17 (p_ttl p) (p_identifier p) m Hbo Hs Hd Ht Httl ltac:(lia) Hid ltac:(lia))
    as (Hwf & Hident & Hpl & Hlen).
  rewrite <- Eb in Hwf, Hident, Hpl, Hlen.
  assert (Eu : u = m) by exact Hpl.
  split; [exact Hwf|]. split; [exact Hident|]. split; [lia|]. rewrite Eu.
  assert (Hck : 0 <= ck < 65536) by apply ip_checksum_range.
  destruct (udp_decode (p_src_port p) (p_dest_port p) payload ck Hsp Hdp Hck ltac:(lia)) as (H1 & H2 & H3 & _ & H5).
  fold body in H1, H2, H3, H5. fold m in H1, H2, H3, H5.
  split; [|exact H5].
  unfold udp_wellformed. repeat split; try assumption.
  unfold rfc1071_valid. rewrite pseudo_v4_sum by (try assumption; lia).
  unfold m. rewrite pseudo_put_word.
  apply (keyed_verifies body 3 (v4_src c) (v4_dest c) 17 Hbb Hbs Hbd); lia.
Qed.

(* ---- Paris ---- *)
Lemma paris_wire_as_udp sp dp seq ck :
  paris_wire sp dp seq ck = put_word 3 seq (udp_body sp dp (to_be_bytes ck)).
Proof. reflexivity. Qed.

(* swapping the checksum word and the payload word does not change the one's-complement sum *)
Lemma paris_swap_sum sp dp seq ck : 0 <= seq < 65536 -> 0 <= ck < 65536 ->
  zsum (words (paris_wire sp dp seq ck)) = zsum (words (put_word 3 ck (udp_body sp dp (to_be_bytes seq)))).
Proof.
  intros Hs Hc. unfold paris_wire, udp_body, to_be_bytes. cbn [app put_word words length].
  rewrite !zsum_cons. change (Z.of_nat 2) with 2. unfold zsum. cbn [fold_right]. lia.
Qed.

Lemma paris_wire_length sp dp seq ck : length (paris_wire sp dp seq ck) = 10%nat.
Proof. reflexivity. Qed.

(* what the decoder reads from a Paris datagram whose pre-swap checksum [ck] made the datagram valid *)
Lemma paris_wire_wellformed pseudo_of sp dp seq ck :
  0 <= sp < 65536 -> 0 <= dp < 65536 -> 0 <= seq < 65536 -> 0 <= ck < 65536 ->
  (forall u1 u2 : list Z, length u1 = length u2 -> zsum (words u1) = zsum (words u2) ->
     rfc1071_valid (pseudo_of (Z.of_nat (length u1))) u1 -> rfc1071_valid (pseudo_of (Z.of_nat (length u2))) u2) ->
  rfc1071_valid (pseudo_of 10) (put_word 3 ck (udp_body sp dp (to_be_bytes seq))) ->
  let u := paris_wire sp dp seq ck in
  udp_wellformed sp dp (pseudo_of (Z.of_nat (length u))) u /\
  ud_checksum (rfc768_decode u) = seq /\ length u = 10%nat.
Proof.
  intros Hsp Hdp Hseq Hck Hcompat Hvalid u.
  destruct (udp_decode sp dp (to_be_bytes ck) seq Hsp Hdp Hseq ltac:(cbn; lia)) as (H1 & H2 & H3 & H4 & _).
  rewrite <- paris_wire_as_udp in H1, H2, H3, H4. fold u in H1, H2, H3, H4.
  split; [|split; [exact H4 | reflexivity]].
  unfold udp_wellformed. repeat split; try assumption.
  apply (Hcompat (put_word 3 ck (udp_body sp dp (to_be_bytes seq))) u).
  - reflexivity.
  - symmetry. apply paris_swap_sum; assumption.
  - exact Hvalid.
Qed.

(* validity only depends on the length and the word sum of the message: IPv4 pseudo-header *)
Lemma valid_compat_v4 src dst proto : length src = 4%nat -> length dst = 4%nat ->
  forall u1 u2 : list Z, length u1 = length u2 -> zsum (words u1) = zsum (words u2) ->
  rfc1071_valid (pseudo_header_v4 src dst proto (Z.of_nat (length u1))) u1 ->
  rfc1071_valid (pseudo_header_v4 src dst proto (Z.of_nat (length u2))) u2.
Proof.
  intros Hs Hd u1 u2 Hl Hsum. unfold rfc1071_valid, pseudo_header_v4.
  rewrite <- !app_assoc.
  rewrite !(even_length_words_sum src) by (rewrite Hs; reflexivity).
  rewrite !(even_length_words_sum dst) by (rewrite Hd; reflexivity).
  cbn [app words]. rewrite !zsum_cons. rewrite Hl, Hsum. auto.
Qed.

Lemma paris4_datagram_wellformed c p :
  v4_byte_order c = BoNetwork ->
  length (v4_src c) = 4%nat -> length (v4_dest c) = 4%nat -> bytes (v4_src c) -> bytes (v4_dest c) ->
  0 <= v4_tos c < 256 ->
  0 <= p_ttl p < 256 -> 0 <= p_identifier p < 65536 -> 0 <= p_src_port p < 65536 -> 0 <= p_dest_port p < 65536 ->
  0 <= p_sequence p < 65536 ->
  let b := paris4_datagram c p in
  let u := ip_payload (rfc791_decode b) in
  ipv4_wellformed (v4_src c) (v4_dest c) (v4_tos c) (p_ttl p) 17 b /\
  ip_identification (rfc791_decode b) = p_identifier p /\
  udp_wellformed (p_src_port p) (p_dest_port p)
    (pseudo_header_v4 (v4_src c) (v4_dest c) 17 (Z.of_nat (length u))) u /\
  ud_checksum (rfc768_decode u) = p_sequence p /\
  length b = 30%nat.
Proof.
  intros Hbo Hs Hd Hbs Hbd Ht Httl Hid Hsp Hdp Hseq b u.
  set (u0 := udp_body (p_src_port p) (p_dest_port p) (to_be_bytes (p_sequence p))).
  set (ck := udp_ipv4_checksum u0 (v4_src c) (v4_dest c)).
  set (m := paris_wire (p_src_port p) (p_dest_port p) (p_sequence p) ck).
  assert (Eb : b = ipv4_header c 17 (p_ttl p) (p_identifier p) (20 + Z.of_nat (length m)) ++ m) by reflexivity.
  destruct (ipv4_header_decode c 17 (p_ttl p) (p_identifier p) m Hbo Hs Hd Ht Httl ltac:(lia) Hid ltac:(cbn; lia))
    as (Hwf & Hident & Hpl & Hlen).
  rewrite <- Eb in Hwf, Hident, Hpl, Hlen.
  assert (Eu : u = m) by exact Hpl.
  split; [exact Hwf|]. split; [exact Hident|]. rewrite Eu.
  assert (Hck : 0 <= ck < 65536) by apply ip_checksum_range.
  assert (Hb0 : bytes u0).
  { apply udp_body_bytes; try assumption; [apply bytes_to_be; assumption | cbn; lia]. }
  destruct (paris_wire_wellformed (pseudo_header_v4 (v4_src c) (v4_dest c) 17)
              (p_src_port p) (p_dest_port p) (p_sequence p) ck Hsp Hdp Hseq Hck
              (valid_compat_v4 _ _ 17 Hs Hd)) as (H1 & H2 & H3).
  { unfold rfc1071_valid.
    change 10 with (Z.of_nat (length (put_word 3 ck u0))).
    rewrite pseudo_v4_sum by (try assumption; cbn; lia).
    rewrite pseudo_put_word.
    apply (keyed_verifies u0 3 (v4_src c) (v4_dest c) 17 Hb0 Hbs Hbd); try lia. cbn; lia. }
  fold m in H1, H2, H3. split; [exact H1|]. split; [exact H2|].
  assert (Z.of_nat (length b) = 30) by (rewrite Hlen; cbn; lia). lia.
Qed.

(* ---- unprivileged UDP and TCP: the socket-operation lists ---- *)
Lemma dispatch_udp_non_raw4_ok c p payload w : w_inject w = [] ->
  dispatch_udp_probe_non_raw4 c p payload w =
  (push (SendTo payload (v4_dest c) (p_dest_port p))
     (push (SetTos (v4_tos c)) (push (SetTtl (p_ttl p))
        (push (Bind (v4_src c) (p_src_port p)) (push (NewSocket SkUdp4 false) w)))), Ok tt).
Proof.
  intro Hw. unfold dispatch_udp_probe_non_raw4, mbind, map_err, or_else, bind_sock, set_ttl, set_tos, send_to.
  rewrite sock_new_clean by assumption.
  rewrite !sock_call_clean by (rewrite ?push_inject; assumption). reflexivity.
Qed.

Lemma dispatch_tcp4_ok c p w : w_inject w = [] ->
  dispatch_tcp_probe4 c p w =
  (push (Connect (v4_dest c) (p_dest_port p))
     (push (SetTos (v4_tos c)) (push (SetTtl (p_ttl p))
        (push (Bind (v4_src c) (p_src_port p)) (push (NewSocket SkTcp4 false) w)))), Ok tt).
Proof.
  intro Hw. unfold dispatch_tcp_probe4, mbind, map_err, or_else, bind_sock, set_ttl, set_tos, connect_sock.
  rewrite sock_new_clean by assumption.
  rewrite !sock_call_clean by (rewrite ?push_inject; assumption). reflexivity.
Qed.

(* ---- no operation of the socket layer faults, whatever errors are injected ---- *)
Definition nofault {A} (m : M A) : Prop := forall w, is_fault (snd (m w)) = false.

Lemma nofault_sock_call c op : nofault (sock_call c op).
Proof. intro w. unfold sock_call. destruct (take_injected c (w_inject w)) as [[k|] rest]; reflexivity. Qed.

Lemma nofault_sock_new k raw : nofault (sock_new k raw).
Proof. intro w. unfold sock_new. destruct (take_injected CNew (w_inject w)) as [[e|] rest]; reflexivity. Qed.

Lemma nofault_mret {A} (a : A) : nofault (mret a).
Proof. intro w. reflexivity. Qed.

Lemma nofault_lift_err {A} e : nofault (@lift A (Err e)).
Proof. intro w. reflexivity. Qed.

Lemma nofault_mbind {A B} (m : M A) (f : A -> M B) : nofault m -> (forall a, nofault (f a)) -> nofault (mbind m f).
Proof.
  intros Hm Hf w. unfold mbind. specialize (Hm w). destruct (m w) as [w1 [a|e|x]]; cbn in *; try reflexivity; try discriminate.
  apply Hf.
Qed.

Lemma nofault_map_err {A} (m : M A) f : nofault m -> nofault (map_err m f).
Proof. intros Hm w. unfold map_err. specialize (Hm w). destruct (m w) as [w1 [a|e|x]]; cbn in *; auto. Qed.

Lemma nofault_or_else_in_progress (m : M unit) : nofault m -> nofault (or_else m in_progress).
Proof.
  intros Hm w. unfold or_else. specialize (Hm w). destruct (m w) as [w1 [a|e|x]]; cbn in *; auto.
  destruct e; cbn; try reflexivity. destruct (k =? K_IN_PROGRESS); reflexivity.
Qed.

Lemma nofault_ext {A} (m m' : M A) : (forall w, m w = m' w) -> nofault m' -> nofault m.
Proof. intros E H w. rewrite E. apply H. Qed.

Ltac nofault_tac :=
  repeat first
    [ apply nofault_mbind; [|intro]
    | apply nofault_map_err
    | apply nofault_or_else_in_progress
    | apply nofault_sock_call
    | apply nofault_sock_new
    | apply nofault_mret
    | apply nofault_lift_err ].

Lemma nofault_dispatch_tcp4 c p : nofault (dispatch_tcp_probe4 c p).
Proof. unfold dispatch_tcp_probe4, bind_sock, set_ttl, set_tos, connect_sock. nofault_tac. Qed.

Lemma nofault_dispatch_udp_non_raw4 c p payload : nofault (dispatch_udp_probe_non_raw4 c p payload).
Proof. unfold dispatch_udp_probe_non_raw4, bind_sock, set_ttl, set_tos, send_to. nofault_tac. Qed.

Lemma nofault_dispatch_icmp4 c p :
  length (v4_src c) = 4%nat -> length (v4_dest c) = 4%nat -> 0 <= v4_tos c < 256 ->
  nofault (dispatch_icmp_probe4 c p).
Proof.
  intros Hs Hd Ht.
  destruct (Z_le_dec 28 (v4_packet_size c)) as [H1|H1]; [destruct (Z_le_dec (v4_packet_size c) 1024) as [H2|H2]|].
  - eapply nofault_ext; [intro w; apply dispatch_icmp4_eq; try assumption; lia|]. unfold send_to. nofault_tac.
  - eapply nofault_ext; [intro w; apply dispatch_icmp4_invalid_size; lia|]. intro w. reflexivity.
  - eapply nofault_ext; [intro w; apply dispatch_icmp4_invalid_size; lia|]. intro w. reflexivity.
Qed.

Lemma nofault_dispatch_udp4 c p :
  length (v4_src c) = 4%nat -> length (v4_dest c) = 4%nat -> 0 <= v4_tos c < 256 ->
  0 <= p_sequence p < 65536 ->
  nofault (dispatch_udp_probe4 c p).
Proof.
  intros Hs Hd Ht Hseq.
  assert (Hbad : ~ (28 <= v4_packet_size c <= 1024) -> nofault (dispatch_udp_probe4 c p)).
  { intro H. eapply nofault_ext; [intro w; apply dispatch_udp4_invalid_size; exact H|]. intro w. reflexivity. }
  destruct (Z_le_dec 28 (v4_packet_size c)) as [H1|H1]; [destruct (Z_le_dec (v4_packet_size c) 1024) as [H2|H2]|];
    try (apply Hbad; lia).
  eapply nofault_ext; [intro w; apply dispatch_udp4_eq; lia|].
  destruct (v4_privilege c).
  - destruct (flag_paris p) eqn:Ef.
    + eapply nofault_ext; [intro w; apply dispatch_udp_raw4_paris_eq; assumption|]. unfold send_to. nofault_tac.
    + eapply nofault_ext; [intro w; apply dispatch_udp_raw4_classic_eq; try assumption; rewrite repeat_length; lia|].
      unfold send_to. nofault_tac.
  - apply nofault_dispatch_udp_non_raw4.
Qed.

(* ---- Ipv4ByteOrder::Host (not executable in this sandbox): the two adjusted words are byte-swapped ---- *)
Lemma ipv4_header_host c proto ttl id len : v4_byte_order c = BoHost -> 0 <= len < 65536 ->
  ipv4_header c proto ttl id len =
  [69; v4_tos c; len mod 256; len / 256; id / 256; id mod 256; 0; 64; ttl; proto; 0; 0] ++ v4_src c ++ v4_dest c.
Proof.
  intros Hbo Hl. unfold ipv4_header. rewrite Hbo. cbn [adjust_length].
  replace ((len mod 256 * 256 + len / 256) / 256) with (len mod 256) by lia.
  replace ((len mod 256 * 256 + len / 256) mod 256) with (len / 256) by lia.
  reflexivity.
Qed.

Lemma ipv4_header_network c proto ttl id len : v4_byte_order c = BoNetwork ->
  ipv4_header c proto ttl id len =
  [69; v4_tos c; len / 256; len mod 256; id / 256; id mod 256; 64; 0; ttl; proto; 0; 0] ++ v4_src c ++ v4_dest c.
Proof. intros Hbo. unfold ipv4_header. rewrite Hbo. reflexivity. Qed.

(* ---- error mapping of the raw send paths ---- *)
Lemma dispatch_icmp4_send_error c p w k rest :
  length (v4_src c) = 4%nat -> length (v4_dest c) = 4%nat -> 0 <= v4_tos c < 256 ->
  28 <= v4_packet_size c <= 1024 -> take_injected CSendTo (w_inject w) = (Some k, rest) ->
  dispatch_icmp_probe4 c p w =
  ({| w_ops := w_ops w ++ [SendTo (icmp4_datagram c p) (v4_dest c) 0]; w_inject := rest |},
   Err (if (k =? K_HOST_UNREACHABLE) || (k =? K_NET_UNREACHABLE) || (k =? K_INVALID_INPUT) then EProbeFailed else EIo k)).
Proof.
  intros Hs Hd Ht Hp Hk. rewrite dispatch_icmp4_eq by assumption.
  unfold map_err, send_to, sock_call. rewrite Hk. unfold probe_failed, K_HOST_UNREACHABLE, K_NET_UNREACHABLE, K_INVALID_INPUT.
  destruct (k =? 2) eqn:E2; [reflexivity|]. destruct (k =? 3) eqn:E3; [reflexivity|].
  destruct (k =? 12) eqn:E12; reflexivity.
Qed.

Lemma dispatch_udp_raw4_send_error c p w k rest :
  length (v4_src c) = 4%nat -> length (v4_dest c) = 4%nat -> 0 <= v4_tos c < 256 ->
  28 <= v4_packet_size c <= 1024 -> v4_privilege c = Privileged -> 0 <= p_sequence p < 65536 ->
  take_injected CSendTo (w_inject w) = (Some k, rest) ->
  snd (dispatch_udp_probe4 c p w) =
  Err (if (k =? K_HOST_UNREACHABLE) || (k =? K_NET_UNREACHABLE) then EProbeFailed else EIo k).
Proof.
  intros Hs Hd Ht Hp Hpriv Hseq Hk. rewrite dispatch_udp4_eq by assumption. rewrite Hpriv.
  destruct (flag_paris p) eqn:Ef.
  - rewrite dispatch_udp_raw4_paris_eq by assumption.
    unfold map_err, send_to, sock_call. rewrite Hk. unfold probe_failed, K_HOST_UNREACHABLE, K_NET_UNREACHABLE.
    destruct (k =? 2) eqn:E2; [reflexivity|]. destruct (k =? 3) eqn:E3; reflexivity.
  - rewrite dispatch_udp_raw4_classic_eq by (try assumption; rewrite repeat_length; lia).
    unfold map_err, send_to, sock_call. rewrite Hk. unfold probe_failed, K_HOST_UNREACHABLE, K_NET_UNREACHABLE.
    destruct (k =? 2) eqn:E2; [reflexivity|]. destruct (k =? 3) eqn:E3; reflexivity.
Qed.

(* bind of the unprivileged UDP / TCP paths: EINPROGRESS is success, AddrInUse and AddrNotAvailable are mapped *)
Lemma tcp4_bind_error c p w k rest :
  take_injected CNew (w_inject w) = (None, w_inject w) ->
  take_injected CBind (w_inject w) = (Some k, rest) -> k <> K_IN_PROGRESS ->
  snd (dispatch_tcp_probe4 c p w) =
  Err (if k =? K_ADDR_IN_USE then EAddressInUse else if k =? K_ADDR_NOT_AVAILABLE then EProbeFailed else EIo k).
Proof.
  intros Hn Hb Hk. unfold dispatch_tcp_probe4, mbind, sock_new. rewrite Hn.
  unfold map_err, or_else, bind_sock, sock_call. cbn [w_inject]. rewrite Hb.
  unfold in_progress. replace (k =? K_IN_PROGRESS) with false by lia.
  unfold addr_in_use, probe_failed, K_ADDR_IN_USE, K_ADDR_NOT_AVAILABLE.
  destruct (k =? 10) eqn:E1; [reflexivity|]. destruct (k =? 11) eqn:E2; reflexivity.
Qed.

(* the Paris datagram of this model is the `paris_udp` of Packet/Checksum.v (the object of the C13 theorems) *)
Lemma paris_wire_is_paris_udp sp dp seq src dst : 0 <= seq < 65536 ->
  paris_wire sp dp seq (udp_ipv4_checksum (udp_body sp dp (to_be_bytes seq)) src dst) = paris_udp sp dp seq src dst.
Proof.
  intros Hs. unfold paris_udp, paris_udp_initial, be_bytes, paris_wire, udp_body, to_be_bytes, udp_ipv4_checksum.
  cbn [app length]. change (Z.of_nat 2) with 2. change (8 + 2) with 10.
  set (ck := ip_checksum _ 3 src dst 17).
  assert (Hck : 0 <= ck < 65536) by apply ip_checksum_range.
  unfold get_word. cbn [put_word nth Nat.mul Nat.add].
  rewrite !be_join by assumption. reflexivity.
Qed.

Lemma paris4_datagram_c13 c p : 0 <= p_sequence p < 65536 ->
  paris4_datagram c p =
  ipv4_header c 17 (p_ttl p) (p_identifier p) 30 ++ paris_udp (p_src_port p) (p_dest_port p) (p_sequence p) (v4_src c) (v4_dest c).
Proof. intro H. unfold paris4_datagram. rewrite paris_wire_is_paris_udp by assumption. reflexivity. Qed.
