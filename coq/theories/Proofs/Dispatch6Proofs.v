(* Lemmas about Net/Dispatch6.v: closed forms of the builders, what the RFC decoder reads from them,
   the socket-operation lists. *)
From TV Require Import Base.Result Base.Bytes Core.Types Packet.Checksum Proofs.ChecksumProofs
  Net.Wire Net.Rfc Net.Sock Net.Dispatch6 Proofs.WireProofs Proofs.Dispatch4Proofs.
From Coq Require Import ZifyBool.
Ltac Zify.zify_post_hook ::= Z.div_mod_to_equations.

(* the zero-to-all-ones substitution of the repaired make_udp_packet *)
Definition nz (c : Z) : Z := if c =? 0 then 65535 else c.

Lemma nz_range c : 0 <= c < 65536 -> 1 <= nz c < 65536.
Proof. intros. unfold nz. destruct (c =? 0) eqn:E; lia. Qed.

(* ... and the datagram still verifies *)
Lemma keyed_verifies_nz d k src dst proto : bytes d -> bytes src -> bytes dst ->
  (length src <= 16)%nat -> (length dst <= 16)%nat -> 0 <= proto <= 255 ->
  (2 * k + 2 <= length d)%nat /\ Z.of_nat (length d) <= 65535 ->
  oc_norm (pseudo_sum src dst proto d + zsum (words (put_word k (nz (ip_checksum d (Z.of_nat k) src dst proto)) d))) = 65535.
Proof.
  intros Hd Hs Hds Hls Hld Hp Hl.
  pose proof (keyed_verifies d k src dst proto Hd Hs Hds Hls Hld Hp Hl) as Hv.
  unfold nz. destruct (ip_checksum d (Z.of_nat k) src dst proto =? 0) eqn:E; [|exact Hv].
  assert (E0 : ip_checksum d (Z.of_nat k) src dst proto = 0) by lia. rewrite E0 in Hv.
  rewrite put_word_sum in Hv by lia. rewrite put_word_sum by lia.
  pose proof (pseudo_bound src dst proto d Hs Hds Hls Hld Hp ltac:(lia)) as Hps.
  pose proof (words_nonneg (put_word k 0 d) (put_word_bytes k d 0 Hd ltac:(lia))) as Hw.
  set (S0 := pseudo_sum src dst proto d + zsum (words (put_word k 0 d))) in *.
  replace (pseudo_sum src dst proto d + (zsum (words (put_word k 0 d)) + 0)) with S0 in Hv by (unfold S0; lia).
  replace (pseudo_sum src dst proto d + (zsum (words (put_word k 0 d)) + 65535)) with (S0 + 65535) by (unfold S0; lia).
  assert (HS : 0 <= S0) by (unfold S0; lia).
  unfold oc_norm in *. destruct (S0 =? 0) eqn:E1; [lia|]. destruct (S0 + 65535 =? 0) eqn:E2; lia.
Qed.

Lemma valid_compat_v6 src dst next : length src = 16%nat -> length dst = 16%nat ->
  forall u1 u2 : list Z, length u1 = length u2 -> zsum (words u1) = zsum (words u2) ->
  rfc1071_valid (pseudo_header_v6 src dst next (Z.of_nat (length u1))) u1 ->
  rfc1071_valid (pseudo_header_v6 src dst next (Z.of_nat (length u2))) u2.
Proof.
  intros Hs Hd u1 u2 Hl Hsum. unfold rfc1071_valid, pseudo_header_v6.
  rewrite <- !app_assoc.
  rewrite !(even_length_words_sum src) by (rewrite Hs; reflexivity).
  rewrite !(even_length_words_sum dst) by (rewrite Hd; reflexivity).
  cbn [app words]. rewrite !zsum_cons. rewrite Hl, Hsum. auto.
Qed.

(* ---- builders ---- *)
Lemma make_echo6_closed c id seq n : Z.of_nat n <= 976 ->
  make_echo_request_icmp_packet6 c (repeat 0 MAX_ICMP_PACKET_BUF6) id seq n
  = Ok (put_word 1 (icmp_ipv6_checksum (echo_body 128 id seq (v6_payload_pattern c) n) (v6_src c) (v6_dest c))
                 (echo_body 128 id seq (v6_payload_pattern c) n)).
Proof.
  intros Hn. unfold make_echo_request_icmp_packet6, echo_body.
  rewrite slice_repeat by (unfold MAX_ICMP_PACKET_BUF6, MAX_PACKET_SIZE, ICMP_MIN; lia).
  cbn [ICMP_MIN Nat.add repeat bind].
  set (z := repeat 0 n). assert (Hz : length z = n) by apply repeat_length. clearbody z.
  unfold echo_new, packet_new. cbn [length Nat.leb ICMP_MIN bind].
  unfold echo_set_icmp_type, echo_set_icmp_code, echo_set_identifier, to_be_bytes.
  cbn [wire_set_bytes buf_write length Nat.add Nat.leb Nat.ltb firstn skipn app bind].
  rewrite slice_repeat by (unfold MAX_ICMP_PAYLOAD_BUF6, MAX_PACKET_SIZE; lia). cbn [bind].
  unfold echo_set_payload, ICMP_MIN, ICMP6_ECHO_REQUEST.
  rewrite !set_bytes_cons, (set_bytes_all (repeat (v6_payload_pattern c) n) z) by (rewrite repeat_length; symmetry; exact Hz).
  unfold echo_set_sequence, echo_set_checksum, to_be_bytes.
  cbn [wire_set_bytes length Nat.add Nat.leb firstn skipn app bind put_word].
  reflexivity.
Qed.

Lemma make_udp6_closed c sp dp payload : Z.of_nat (length payload) <= 976 ->
  make_udp_packet6 c (repeat 0 MAX_UDP_PACKET_BUF6) sp dp payload
  = Ok (put_word 3 (nz (udp_ipv6_checksum (udp_body sp dp payload) (v6_src c) (v6_dest c))) (udp_body sp dp payload)).
Proof.
  intros Hn. unfold make_udp_packet6, udp_body.
  rewrite slice_repeat by (unfold MAX_UDP_PACKET_BUF6, MAX_PACKET_SIZE, UDP_MIN; lia).
  replace (Z.of_nat (UDP_MIN + length payload) mod 65536) with (8 + Z.of_nat (length payload)) by (unfold UDP_MIN; lia).
  unfold UDP_MIN. cbn [Nat.add repeat bind].
  set (z := repeat 0 (length payload)). assert (Hz : length z = length payload) by apply repeat_length. clearbody z.
  unfold wire_udp_new, packet_new, UDP_MIN. cbn [length Nat.leb bind].
  unfold wire_udp_set_source, wire_udp_set_destination, wire_udp_set_length, to_be_bytes.
  cbn [wire_set_bytes length Nat.add Nat.leb firstn skipn app bind].
  unfold udp_set_payload, UDP_MIN.
  rewrite !set_bytes_cons, (set_bytes_all payload z) by (symmetry; exact Hz).
  unfold wire_udp_set_checksum, to_be_bytes, nz.
  cbn [wire_set_bytes length Nat.add Nat.leb firstn skipn app bind put_word].
  reflexivity.
Qed.

Lemma udp6_payload_ok c :
  48 <= v6_packet_size c <= 1024 ->
  (let* payload_size := udp_payload_size6 (v6_packet_size c) in
   slice 0 (Z.to_nat payload_size) (repeat (v6_payload_pattern c) MAX_UDP_PAYLOAD_BUF6))
  = Ok (repeat (v6_payload_pattern c) (Z.to_nat (v6_packet_size c - 48))).
Proof.
  intros Hp. unfold udp_payload_size6, sub_w.
  replace (8 <=? v6_packet_size c) with true by lia. cbn [bind].
  replace (40 <=? v6_packet_size c - 8) with true by lia. cbn [bind].
  replace (v6_packet_size c - 8 - 40) with (v6_packet_size c - 48) by lia.
  apply slice_repeat. unfold MAX_UDP_PAYLOAD_BUF6, MAX_PACKET_SIZE. lia.
Qed.

(* ---- ICMPv6 ---- *)
Definition icmp6_message (c : ipv6) (p : probe) : list Z :=
  let body := echo_body 128 (p_identifier p) (p_sequence p) (v6_payload_pattern c) (Z.to_nat (v6_packet_size c - 48)) in
  put_word 1 (icmp_ipv6_checksum body (v6_src c) (v6_dest c)) body.

Lemma dispatch_icmp6_eq c p w :
  48 <= v6_packet_size c <= 1024 ->
  dispatch_icmp_probe6 c p w =
  (let^ _ := set_unicast_hops_v6 (p_ttl p) in send_to (icmp6_message c p) (v6_dest c) 0) w.
Proof.
  intros Hp. unfold dispatch_icmp_probe6, MIN_PACKET_SIZE_ICMP6, MAX_PACKET_SIZE.
  replace ((48 <=? v6_packet_size c) && (v6_packet_size c <=? 1024)) with true by lia.
  cbn [negb]. unfold mbind at 1, lift, icmp_payload_size6, sub_w.
  replace (8 <=? v6_packet_size c) with true by lia. cbn [bind].
  replace (40 <=? v6_packet_size c - 8) with true by lia. cbn [bind].
  replace (v6_packet_size c - 8 - 40) with (v6_packet_size c - 48) by lia.
  rewrite make_echo6_closed by lia. reflexivity.
Qed.

Lemma dispatch_icmp6_ok c p w :
  48 <= v6_packet_size c <= 1024 -> w_inject w = [] ->
  dispatch_icmp_probe6 c p w =
  (push (SendTo (icmp6_message c p) (v6_dest c) 0) (push (SetUnicastHopsV6 (p_ttl p)) w), Ok tt).
Proof.
  intros Hp Hw. rewrite dispatch_icmp6_eq by assumption.
  unfold mbind, set_unicast_hops_v6, send_to.
  rewrite !sock_call_clean by (rewrite ?push_inject; assumption). reflexivity.
Qed.

Lemma dispatch_icmp6_invalid_size c p w :
  ~ (48 <= v6_packet_size c <= 1024) -> dispatch_icmp_probe6 c p w = (w, Err EInvalidPacketSize).
Proof.
  intro H. unfold dispatch_icmp_probe6, MIN_PACKET_SIZE_ICMP6, MAX_PACKET_SIZE.
  replace ((48 <=? v6_packet_size c) && (v6_packet_size c <=? 1024)) with false by lia. reflexivity.
Qed.

Lemma icmp6_message_wellformed c p :
  length (v6_src c) = 16%nat -> length (v6_dest c) = 16%nat -> bytes (v6_src c) -> bytes (v6_dest c) ->
  48 <= v6_packet_size c <= 1024 -> 0 <= v6_payload_pattern c < 256 ->
  0 <= p_sequence p < 65536 -> 0 <= p_identifier p < 65536 ->
  let m := icmp6_message c p in
  Z.of_nat (length m) + 40 = v6_packet_size c /\
  echo_wellformed 128 (p_identifier p) (p_sequence p) (v6_payload_pattern c)
    (Z.to_nat (v6_packet_size c - 48))
    (pseudo_header_v6 (v6_src c) (v6_dest c) 58 (Z.of_nat (length m))) m.
Proof.
  intros Hs Hd Hbs Hbd Hp Hpat Hseq Hid m.
  set (n := Z.to_nat (v6_packet_size c - 48)).
  set (body := echo_body 128 (p_identifier p) (p_sequence p) (v6_payload_pattern c) n).
  assert (Hbb : bytes body) by (apply echo_body_bytes; lia).
  assert (Hlb : length body = (8 + n)%nat) by apply echo_body_length.
  assert (Em : m = put_word 1 (icmp_ipv6_checksum body (v6_src c) (v6_dest c)) body) by reflexivity.
  assert (Hlm : Z.of_nat (length m) = v6_packet_size c - 40).
  { rewrite Em, put_word_length, Hlb. unfold n. lia. }
  split; [lia|].
  pose proof (ip_checksum_range body 1 (v6_src c) (v6_dest c) 58) as Hck.
  destruct (echo_decode 128 (p_identifier p) (p_sequence p) (v6_payload_pattern c) n
              (icmp_ipv6_checksum body (v6_src c) (v6_dest c)) ltac:(lia) Hid Hseq Hck) as (H1 & H2 & _ & H4 & H5 & H6).
  fold body in H1, H2, H4, H5, H6. rewrite <- Em in H1, H2, H4, H5, H6.
  unfold echo_wellformed. repeat split; try assumption.
  unfold rfc1071_valid. rewrite pseudo_v6_sum by (try assumption; lia).
  rewrite Em, pseudo_put_word.
  apply (keyed_verifies body 1 (v6_src c) (v6_dest c) 58 Hbb Hbs Hbd); lia.
Qed.

(* ---- UDP over IPv6 ---- *)
Definition udp6_message (c : ipv6) (p : probe) (payload : list Z) : list Z :=
  let body := udp_body (p_src_port p) (p_dest_port p) payload in
  put_word 3 (nz (udp_ipv6_checksum body (v6_src c) (v6_dest c))) body.

Definition hops_then_send (c : ipv6) (p : probe) (bytes : list Z) : M unit :=
  let^ _ := set_unicast_hops_v6 (p_ttl p) in send_to bytes (v6_dest c) 0.

Lemma hops_then_send_ok c p b w : w_inject w = [] ->
  hops_then_send c p b w = (push (SendTo b (v6_dest c) 0) (push (SetUnicastHopsV6 (p_ttl p)) w), Ok tt).
Proof.
  intro Hw. unfold hops_then_send, mbind, set_unicast_hops_v6, send_to.
  rewrite !sock_call_clean by (rewrite ?push_inject; assumption). reflexivity.
Qed.

Lemma dispatch_udp_raw6_classic_eq c p payload w :
  flag_paris p = false -> flag_dublin p = false -> Z.of_nat (length payload) <= 976 ->
  dispatch_udp_probe_raw6 c p payload w = hops_then_send c p (udp6_message c p payload) w.
Proof.
  intros Hf Hdu Hn. unfold dispatch_udp_probe_raw6. rewrite Hf, Hdu.
  unfold mbind at 1, lift. cbn [bind]. rewrite make_udp6_closed by assumption. reflexivity.
Qed.

(* Dublin: MAGIC ++ pattern, payload length = sequence - initial_sequence (+ 6) *)
Definition dublin_payload (c : ipv6) (p : probe) : list Z :=
  MAGIC ++ repeat (v6_payload_pattern c) (Z.to_nat (p_sequence p - v6_initial_sequence c)).

Lemma dublin_slice pat n : Z.of_nat n <= 970 ->
  (let* dp := wire_set_bytes 0 MAGIC (repeat pat MAX_UDP_PAYLOAD_BUF6) in slice 0 (n + length MAGIC) dp)
  = Ok (MAGIC ++ repeat pat n).
Proof.
  intros Hn. replace MAX_UDP_PAYLOAD_BUF6 with (6 + Z.to_nat 970)%nat by reflexivity.
  cbn [Nat.add repeat]. unfold MAGIC.
  cbn [wire_set_bytes length Nat.add Nat.leb firstn skipn app bind].
  unfold slice. cbn [length]. rewrite repeat_length.
  replace ((0 <=? n + 6)%nat && (n + 6 <=? S (S (S (S (S (S (Z.to_nat 970)))))))%nat) with true
    by (symmetry; apply andb_true_intro; split; apply Nat.leb_le; lia).
  rewrite Nat.sub_0_r. cbn [skipn]. replace (n + 6)%nat with (S (S (S (S (S (S n)))))) by lia.
  cbn [firstn]. rewrite firstn_repeat by lia. reflexivity.
Qed.

Lemma dispatch_udp_raw6_dublin_eq c p payload w :
  flag_paris p = false -> flag_dublin p = true ->
  0 <= p_sequence p - v6_initial_sequence c <= 970 ->
  dispatch_udp_probe_raw6 c p payload w = hops_then_send c p (udp6_message c p (dublin_payload c p)) w.
Proof.
  intros Hf Hdu Hn. unfold dispatch_udp_probe_raw6. rewrite Hf, Hdu.
  unfold mbind at 1, lift, sub16, sub_w.
  replace (v6_initial_sequence c <=? p_sequence p) with true by lia. cbn [bind].
  rewrite dublin_slice by lia. cbn [bind].
  rewrite make_udp6_closed.
  2:{ rewrite app_length, repeat_length. cbn [MAGIC length]. lia. }
  reflexivity.
Qed.

Definition paris6_message (c : ipv6) (p : probe) : list Z :=
  let u0 := udp_body (p_src_port p) (p_dest_port p) (to_be_bytes (p_sequence p)) in
  paris_wire (p_src_port p) (p_dest_port p) (p_sequence p) (nz (udp_ipv6_checksum u0 (v6_src c) (v6_dest c))).

Lemma dispatch_udp_raw6_paris_eq c p payload w :
  flag_paris p = true -> 0 <= p_sequence p < 65536 ->
  dispatch_udp_probe_raw6 c p payload w = hops_then_send c p (paris6_message c p) w.
Proof.
  intros Hf Hseq. unfold dispatch_udp_probe_raw6. rewrite Hf.
  unfold mbind at 1, lift. cbn [bind]. rewrite make_udp6_closed by (cbn; lia). cbn [bind].
  rewrite paris_swap_closed.
  2: assumption.
  2:{ pose proof (nz_range _ (ip_checksum_range (udp_body (p_src_port p) (p_dest_port p) (to_be_bytes (p_sequence p))) 3 (v6_src c) (v6_dest c) 17)). unfold udp_ipv6_checksum. lia. }
  reflexivity.
Qed.

Lemma dispatch_udp6_eq c p w :
  48 <= v6_packet_size c <= 1024 ->
  dispatch_udp_probe6 c p w =
  match v6_privilege c with
  | Privileged => dispatch_udp_probe_raw6 c p (repeat (v6_payload_pattern c) (Z.to_nat (v6_packet_size c - 48))) w
  | Unprivileged => dispatch_udp_probe_non_raw6 c p (repeat (v6_payload_pattern c) (Z.to_nat (v6_packet_size c - 48))) w
  end.
Proof.
  intros Hp. unfold dispatch_udp_probe6, MIN_PACKET_SIZE_UDP6, MAX_PACKET_SIZE.
  replace ((48 <=? v6_packet_size c) && (v6_packet_size c <=? 1024)) with true by lia.
  cbn [negb]. unfold mbind at 1, lift. rewrite udp6_payload_ok by assumption.
  destruct (v6_privilege c); reflexivity.
Qed.

Lemma dispatch_udp6_invalid_size c p w :
  ~ (48 <= v6_packet_size c <= 1024) -> dispatch_udp_probe6 c p w = (w, Err EInvalidPacketSize).
Proof.
  intro H. unfold dispatch_udp_probe6, MIN_PACKET_SIZE_UDP6, MAX_PACKET_SIZE.
  replace ((48 <=? v6_packet_size c) && (v6_packet_size c <=? 1024)) with false by lia. reflexivity.
Qed.

(* what the decoder reads from a (classic or Dublin) UDP message built by make_udp_packet6 *)
Lemma udp6_message_wellformed c p payload :
  length (v6_src c) = 16%nat -> length (v6_dest c) = 16%nat -> bytes (v6_src c) -> bytes (v6_dest c) ->
  bytes payload -> Z.of_nat (length payload) <= 976 ->
  0 <= p_src_port p < 65536 -> 0 <= p_dest_port p < 65536 ->
  let u := udp6_message c p payload in
  udp_wellformed (p_src_port p) (p_dest_port p)
    (pseudo_header_v6 (v6_src c) (v6_dest c) 17 (Z.of_nat (length u))) u /\
  ud_data (rfc768_decode u) = payload /\
  ud_checksum (rfc768_decode u) <> 0 /\
  length u = (8 + length payload)%nat.
Proof.
  intros Hs Hd Hbs Hbd Hbp Hn Hsp Hdp u.
  set (body := udp_body (p_src_port p) (p_dest_port p) payload).
  set (ck := nz (udp_ipv6_checksum body (v6_src c) (v6_dest c))).
  assert (Eu : u = put_word 3 ck body) by reflexivity.
  assert (Hbb : bytes body) by (apply udp_body_bytes; try assumption; lia).
  assert (Hlb : length body = (8 + length payload)%nat) by reflexivity.
  assert (Hck : 1 <= ck < 65536) by (apply nz_range, ip_checksum_range).
  destruct (udp_decode (p_src_port p) (p_dest_port p) payload ck Hsp Hdp ltac:(lia) ltac:(lia)) as (H1 & H2 & H3 & H4 & H5).
  fold body in H1, H2, H3, H4, H5. rewrite <- Eu in H1, H2, H3, H4, H5.
  split; [|split; [exact H5|split; [lia|rewrite Eu, put_word_length; exact Hlb]]].
  unfold udp_wellformed. repeat split; try assumption.
  unfold rfc1071_valid. rewrite pseudo_v6_sum by (try assumption; rewrite Eu, put_word_length, Hlb; lia).
  rewrite Eu, pseudo_put_word.
  apply (keyed_verifies_nz body 3 (v6_src c) (v6_dest c) 17 Hbb Hbs Hbd); lia.
Qed.

Lemma paris6_message_wellformed c p :
  length (v6_src c) = 16%nat -> length (v6_dest c) = 16%nat -> bytes (v6_src c) -> bytes (v6_dest c) ->
  0 <= p_src_port p < 65536 -> 0 <= p_dest_port p < 65536 -> 0 <= p_sequence p < 65536 ->
  let u := paris6_message c p in
  udp_wellformed (p_src_port p) (p_dest_port p)
    (pseudo_header_v6 (v6_src c) (v6_dest c) 17 (Z.of_nat (length u))) u /\
  ud_checksum (rfc768_decode u) = p_sequence p /\ length u = 10%nat.
Proof.
  intros Hs Hd Hbs Hbd Hsp Hdp Hseq u.
  set (u0 := udp_body (p_src_port p) (p_dest_port p) (to_be_bytes (p_sequence p))).
  set (ck := nz (udp_ipv6_checksum u0 (v6_src c) (v6_dest c))).
  assert (Hck : 1 <= ck < 65536) by (apply nz_range, ip_checksum_range).
  assert (Hb0 : bytes u0).
  { apply udp_body_bytes; try assumption; [apply bytes_to_be; assumption | cbn; lia]. }
  apply (paris_wire_wellformed (pseudo_header_v6 (v6_src c) (v6_dest c) 17)
           (p_src_port p) (p_dest_port p) (p_sequence p) ck Hsp Hdp Hseq ltac:(lia) (valid_compat_v6 _ _ 17 Hs Hd)).
  unfold rfc1071_valid.
  change 10 with (Z.of_nat (length (put_word 3 ck u0))).
  rewrite pseudo_v6_sum by (try assumption; cbn; lia).
  rewrite pseudo_put_word.
  apply (keyed_verifies_nz u0 3 (v6_src c) (v6_dest c) 17 Hb0 Hbs Hbd); try lia. cbn; lia.
Qed.

(* ---- unprivileged UDP and TCP ---- *)
Lemma dispatch_udp_non_raw6_ok c p payload w : w_inject w = [] ->
  dispatch_udp_probe_non_raw6 c p payload w =
  (push (SendTo payload (v6_dest c) (p_dest_port p))
     (push (SetUnicastHopsV6 (p_ttl p))
        (push (Bind (v6_src c) (p_src_port p)) (push (NewSocket SkUdp6 false) w))), Ok tt).
Proof.
  intro Hw. unfold dispatch_udp_probe_non_raw6, mbind, map_err, or_else, bind_sock, set_unicast_hops_v6, send_to.
  rewrite sock_new_clean by assumption.
  rewrite !sock_call_clean by (rewrite ?push_inject; assumption). reflexivity.
Qed.

Lemma dispatch_tcp6_ok c p w : w_inject w = [] ->
  dispatch_tcp_probe6 c p w =
  (push (Connect (v6_dest c) (p_dest_port p))
     (push (SetUnicastHopsV6 (p_ttl p))
        (push (Bind (v6_src c) (p_src_port p)) (push (NewSocket SkTcp6 false) w))), Ok tt).
Proof.
  intro Hw. unfold dispatch_tcp_probe6, mbind, map_err, or_else, bind_sock, set_unicast_hops_v6, connect_sock.
  rewrite sock_new_clean by assumption.
  rewrite !sock_call_clean by (rewrite ?push_inject; assumption). reflexivity.
Qed.

(* ---- no fault ---- *)
Lemma nofault_hops_then_send c p b : nofault (hops_then_send c p b).
Proof. unfold hops_then_send, set_unicast_hops_v6, send_to. nofault_tac. Qed.

Lemma nofault_dispatch_tcp6 c p : nofault (dispatch_tcp_probe6 c p).
Proof. unfold dispatch_tcp_probe6, bind_sock, set_unicast_hops_v6, connect_sock. nofault_tac. Qed.

Lemma nofault_dispatch_udp_non_raw6 c p payload : nofault (dispatch_udp_probe_non_raw6 c p payload).
Proof. unfold dispatch_udp_probe_non_raw6, bind_sock, set_unicast_hops_v6, send_to. nofault_tac. Qed.

Lemma nofault_dispatch_icmp6 c p : nofault (dispatch_icmp_probe6 c p).
Proof.
  destruct (Z_le_dec 48 (v6_packet_size c)) as [H1|H1]; [destruct (Z_le_dec (v6_packet_size c) 1024) as [H2|H2]|].
  - eapply nofault_ext; [intro w; apply dispatch_icmp6_eq; lia|]. apply (nofault_hops_then_send c p).
  - eapply nofault_ext; [intro w; apply dispatch_icmp6_invalid_size; lia|]. intro w. reflexivity.
  - eapply nofault_ext; [intro w; apply dispatch_icmp6_invalid_size; lia|]. intro w. reflexivity.
Qed.

(* the Dublin precondition is what the strategy guarantees (Props/C07.v c07_dublin_payload_fits) *)
Lemma nofault_dispatch_udp6 c p :
  0 <= p_sequence p < 65536 ->
  (flag_paris p = false -> flag_dublin p = true -> v6_privilege c = Privileged ->
     0 <= p_sequence p - v6_initial_sequence c /\ p_sequence p - v6_initial_sequence c + 6 <= 976) ->
  nofault (dispatch_udp_probe6 c p).
Proof.
  intros Hseq Hdub.
  assert (Hbad : ~ (48 <= v6_packet_size c <= 1024) -> nofault (dispatch_udp_probe6 c p)).
  { intro H. eapply nofault_ext; [intro w; apply dispatch_udp6_invalid_size; exact H|]. intro w. reflexivity. }
  destruct (Z_le_dec 48 (v6_packet_size c)) as [H1|H1]; [destruct (Z_le_dec (v6_packet_size c) 1024) as [H2|H2]|];
    try (apply Hbad; lia).
  eapply nofault_ext; [intro w; apply dispatch_udp6_eq; lia|].
  destruct (v6_privilege c) eqn:Epriv.
  - destruct (flag_paris p) eqn:Ef.
    + eapply nofault_ext; [intro w; apply dispatch_udp_raw6_paris_eq; assumption|]. apply nofault_hops_then_send.
    + destruct (flag_dublin p) eqn:Ed.
      * eapply nofault_ext; [intro w; apply dispatch_udp_raw6_dublin_eq; try assumption; specialize (Hdub eq_refl eq_refl eq_refl); lia|].
        apply nofault_hops_then_send.
      * eapply nofault_ext; [intro w; apply dispatch_udp_raw6_classic_eq; try assumption; rewrite repeat_length; lia|].
        apply nofault_hops_then_send.
  - apply nofault_dispatch_udp_non_raw6.
Qed.
