(* C14, second part: lemmas about the encoder of the REPORTED structure (Packet/ExtEncode.v), closed forms of the
   splitter and of the two iterators for EVERY byte string, and what happens to malformed structures. *)
From Coq Require Import ZifyBool Sorted.
From TV Require Import Base.Result Base.Bytes Packet.ByteOps Packet.Checksum Packet.IcmpExt Packet.Rfc4884 Packet.ExtEncode.
From TV Require Import Proofs.ChecksumProofs Proofs.IcmpExtProofs.
Ltac Zify.zify_post_hook ::= Z.div_mod_to_equations.

(* ------------------------------------------------------------------------------------------ *)
(* 1. parse (encode s) = s                                                                      *)
(* ------------------------------------------------------------------------------------------ *)
Lemma expected_member_lse m : expected_member (member_lse m) = m.
Proof. destruct m; reflexivity. Qed.

Lemma map_expected_member ms : map expected_member (map member_lse ms) = ms.
Proof. induction ms as [|m t IH]; [reflexivity|]. cbn [map]. rewrite expected_member_lse, IH. reflexivity. Qed.

Lemma removelast_map_lse ms : removelast (map member_lse ms) = map member_lse (removelast ms).
Proof.
  induction ms as [|m t IH]; [reflexivity|]. destruct t as [|m' t']; [reflexivity|].
  change (removelast (map member_lse (m :: m' :: t'))) with (member_lse m :: removelast (map member_lse (m' :: t'))).
  rewrite IH. reflexivity.
Qed.

Lemma bottom_only_last_of ms :
  Forall (fun m => mpls_bos m = 0) (removelast ms) -> bottom_only_last (map member_lse ms).
Proof.
  intro H. unfold bottom_only_last. rewrite removelast_map_lse.
  induction H as [|m t Hm _ IH]; [constructor|]. cbn [map]. constructor; [exact Hm|exact IH].
Qed.

Lemma lse_wf_of ms : Forall member_wf ms -> Forall lse_wf (map member_lse ms).
Proof. induction 1 as [|m t Hm _ IH]; [constructor|]. cbn [map]. constructor; [exact Hm|exact IH]. Qed.

Lemma obj_wf_of e : ext_wf e -> obj_wf (ext_object_of e).
Proof.
  destruct e as [c s b|ms]; cbn [ext_wf ext_object_of obj_wf].
  - intros (Hc & Hn & Hs & Hl). repeat split; lia.
  - intros (Hne & Hwf & _ & Hl). unfold MPLS_CTYPE. split; [lia|]. split; [|split].
    + destruct ms; [congruence|discriminate].
    + apply lse_wf_of, Hwf.
    + rewrite map_length. lia.
Qed.

Lemma expected_of e : ext_wf e -> expected_extension (ext_object_of e) = e.
Proof.
  destruct e as [c s b|ms]; cbn [ext_wf ext_object_of]; [reflexivity|].
  intros (_ & _ & Hb & _). rewrite expected_extension_wellformed by (apply bottom_only_last_of, Hb).
  rewrite map_expected_member. reflexivity.
Qed.

Lemma objs_wf_of es : Forall ext_wf es -> Forall obj_wf (map ext_object_of es).
Proof. induction 1 as [|e t He _ IH]; [constructor|]. cbn [map]. constructor; [apply obj_wf_of, He|exact IH]. Qed.

Lemma map_expected_of es : Forall ext_wf es -> map expected_extension (map ext_object_of es) = es.
Proof. induction 1 as [|e t He _ IH]; [reflexivity|]. cbn [map]. rewrite expected_of, IH by exact He. reflexivity. Qed.

(* the codec: for every well-formed reported structure *)
Lemma parse_encode_id es : Forall ext_wf es -> extensions_try_from (encode_extensions es) = Ok es.
Proof.
  intro H. unfold encode_extensions. rewrite extensions_try_from_built by (apply objs_wf_of, H).
  rewrite map_expected_of by exact H. reflexivity.
Qed.

Lemma encode_injective es1 es2 : Forall ext_wf es1 -> Forall ext_wf es2 ->
  encode_extensions es1 = encode_extensions es2 -> es1 = es2.
Proof.
  intros H1 H2 He. pose proof (parse_encode_id es1 H1) as P1. rewrite He, (parse_encode_id es2 H2) in P1.
  injection P1 as P1. symmetry. exact P1.
Qed.

(* the whole message, every family / message type / sender convention *)
Lemma message_parse_encode_id fam fixed orig es mode kind :
  length fixed = 7%nat -> build_wf fam mode orig -> Forall ext_wf es ->
  let msg := encode_message fam fixed orig es mode in
  split_payload_extension fam msg = Ok (expected_datagram fam mode orig, Some (encode_extensions es)) /\
  nested_and_extensions ExtEnabled kind fam msg = Ok (expected_datagram fam mode orig, Some es).
Proof.
  intros Hf Hwf He msg. subst msg. unfold encode_message, encode_extensions. split.
  - apply split_payload_extension_built; assumption.
  - rewrite roundtrip_enabled by (try assumption; apply objs_wf_of, He).
    rewrite map_expected_of by exact He. reflexivity.
Qed.

(* ------------------------------------------------------------------------------------------ *)
(* 2. the original datagram field: what exactly comes back, where the padding goes              *)
(* ------------------------------------------------------------------------------------------ *)
Lemma word_pos fam : (0 < word fam)%nat.
Proof. destruct fam; cbn; lia. Qed.

Lemma pad_word_shape fam orig :
  exists k, pad_word (word fam) orig = orig ++ repeat 0 k /\ (k < word fam)%nat /\
            ((length orig + k) mod word fam = 0)%nat /\ ((length orig mod word fam = 0)%nat -> k = 0%nat).
Proof.
  pose proof (word_pos fam) as Hw. destruct (pad_word_length fam orig) as [Hl Hge].
  unfold pad_word in *. unfold pad_to in *.
  set (q := ((length orig + word fam - 1) / word fam)%nat) in *.
  exists (q * word fam - length orig)%nat. split; [reflexivity|].
  pose proof (Nat.div_mod (length orig + word fam - 1) (word fam) ltac:(lia)) as Hd. fold q in Hd.
  pose proof (Nat.mod_upper_bound (length orig + word fam - 1) (word fam) ltac:(lia)) as Hm.
  assert (Hq : (length orig <= q * word fam)%nat) by nia.
  split; [nia|]. split.
  - replace (length orig + (q * word fam - length orig))%nat with (0 + q * word fam)%nat by lia.
    rewrite Nat.mod_add by lia. apply Nat.mod_0_l. lia.
  - intro H0. apply Nat.mod_divides in H0; [|lia]. destruct H0 as [c Hc].
    assert (q = c); [|nia].
    unfold q. rewrite Hc. replace (word fam * c + word fam - 1)%nat with (c * word fam + (word fam - 1))%nat by lia.
    rewrite Nat.div_add_l by lia. rewrite Nat.div_small by lia. lia.
Qed.

Lemma expected_datagram_shape fam mode orig :
  match mode with
  | BmCompliant =>
    exists k, expected_datagram fam mode orig = orig ++ repeat 0 k /\ (k < word fam)%nat /\
              ((length orig mod word fam = 0)%nat -> k = 0%nat)
  | BmLegacy =>
    expected_datagram fam mode orig = firstn 128 orig ++ repeat 0 (128 - length orig) /\
    length (expected_datagram fam mode orig) = 128%nat
  end.
Proof.
  destruct mode; cbn [expected_datagram].
  - destruct (pad_word_shape fam orig) as (k & H1 & H2 & _ & H4). exists k. auto.
  - split.
    + unfold pad_to. rewrite firstn_length. f_equal. f_equal. lia.
    + rewrite pad_to_length, firstn_length. lia.
Qed.

(* payload ++ zero padding up to octet 128 ++ extension = the ICMP payload: the padding is in neither part *)
Lemma quoted_is_expected_then_zeros fam mode orig :
  quoted fam mode orig
  = expected_datagram fam mode orig ++ repeat 0 (128 - length (expected_datagram fam mode orig)).
Proof.
  destruct mode; cbn [quoted expected_datagram]; [reflexivity|].
  rewrite pad_to_length, firstn_length.
  replace (128 - Nat.max 128 (Nat.min 128 (length orig)))%nat with 0%nat by lia. cbn [repeat]. rewrite app_nil_r. reflexivity.
Qed.

(* ------------------------------------------------------------------------------------------ *)
(* 3. the encoder emits octets, and the RFC 1071 receiver test of the structure succeeds        *)
(* ------------------------------------------------------------------------------------------ *)
Definition obj_octets (o : ext_object) : Prop :=
  match o with ObjMpls _ _ => True | ObjOther _ _ p => bytes p end.
Definition ext_octets (e : Extension) : Prop :=
  match e with ExtMpls _ => True | ExtUnknown _ _ b => bytes b end.

Lemma enc_lse_bytes e : lse_wf e -> bytes (enc_lse e).
Proof. intros (Hl & He & Hs & Ht). unfold bytes, enc_lse. repeat constructor; lia. Qed.

Lemma stack_bytes st : Forall lse_wf st -> bytes (flat_map enc_lse st).
Proof.
  induction 1 as [|e t He _ IH]; [constructor|]. cbn [flat_map]. apply bytes_app. split; [apply enc_lse_bytes, He|exact IH].
Qed.

Lemma obj_payload_bytes o : obj_wf o -> obj_octets o -> bytes (obj_payload o).
Proof.
  destruct o as [t st|c t p]; cbn [obj_wf obj_octets obj_payload].
  - intros (_ & _ & Hst & _) _. apply stack_bytes, Hst.
  - intros _ Hp. exact Hp.
Qed.

Lemma enc_object_bytes o : obj_wf o -> obj_octets o -> bytes (enc_object o).
Proof.
  intros Hwf Hoct. pose proof (obj_len_bound o Hwf) as Hb. pose proof (obj_payload_bytes o Hwf Hoct) as Hp.
  unfold enc_object. apply bytes_app. split; [|exact Hp].
  assert (Hc : 0 <= obj_class o < 256 /\ 0 <= obj_ctype o < 256).
  { destruct o as [t st|c t p]; cbn [obj_wf obj_class obj_ctype] in *; lia. }
  unfold bytes. repeat constructor; lia.
Qed.

Lemma ext_body_bytes objs : Forall obj_wf objs -> Forall obj_octets objs -> bytes (ext_body objs).
Proof.
  induction 1 as [|o t Ho _ IH]; intro Hoct; [constructor|]. inversion Hoct as [|? ? Ho' Ht']; subst.
  unfold ext_body. cbn [flat_map]. apply bytes_app. split; [apply enc_object_bytes; assumption|apply IH, Ht'].
Qed.

Lemma checksum_u16 d k : 0 <= checksum d k < 65536.
Proof. unfold checksum. destruct d; [lia|]. unfold finalize_checksum. lia. Qed.

Lemma ext_structure_bytes objs : Forall obj_wf objs -> Forall obj_octets objs -> bytes (ext_structure objs).
Proof.
  intros Hwf Hoct. unfold ext_structure.
  pose proof (checksum_u16 ([32; 0; 0; 0] ++ ext_body objs) 1) as Hc.
  apply bytes_app. split; [|apply ext_body_bytes; assumption].
  unfold bytes. repeat constructor; lia.
Qed.

Lemma ext_structure_put_word objs :
  ext_structure objs
  = put_word 1 (checksum ([32; 0; 0; 0] ++ ext_body objs) (Z.of_nat 1)) ([32; 0; 0; 0] ++ ext_body objs).
Proof. reflexivity. Qed.

Lemma ext_structure_checksum_valid objs : Forall obj_wf objs -> Forall obj_octets objs ->
  Z.of_nat (length (ext_structure objs)) <= 65535 ->
  oc_norm (zsum (words (ext_structure objs))) = 65535.
Proof.
  intros Hwf Hoct Hlen. rewrite ext_structure_put_word. apply unkeyed_verifies.
  - apply bytes_app. split; [unfold bytes; repeat constructor; lia|apply ext_body_bytes; assumption].
  - unfold ext_structure in Hlen. cbn [app length] in *. lia.
Qed.

Lemma objs_octets_of es : Forall ext_octets es -> Forall obj_octets (map ext_object_of es).
Proof.
  induction 1 as [|e t He _ IH]; [constructor|]. cbn [map]. constructor; [|exact IH].
  destruct e; cbn [ext_object_of obj_octets ext_octets] in *; [exact He|exact I].
Qed.

Lemma encode_extensions_wire es : Forall ext_wf es -> Forall ext_octets es ->
  bytes (encode_extensions es) /\ (4 <= length (encode_extensions es))%nat /\
  nth 0 (encode_extensions es) 0 = 32 /\ nth 1 (encode_extensions es) 0 = 0 /\
  (Z.of_nat (length (encode_extensions es)) <= 65535 -> oc_norm (zsum (words (encode_extensions es))) = 65535).
Proof.
  intros Hwf Hoct. unfold encode_extensions.
  pose proof (objs_wf_of es Hwf) as H1. pose proof (objs_octets_of es Hoct) as H2.
  split; [apply ext_structure_bytes; assumption|]. split; [apply ext_structure_length|].
  split; [reflexivity|]. split; [reflexivity|]. intro Hl. apply ext_structure_checksum_valid; assumption.
Qed.

(* ------------------------------------------------------------------------------------------ *)
(* 4. extension_splitter::split in closed form, for EVERY length attribute and payload          *)
(* ------------------------------------------------------------------------------------------ *)
Lemma split_exact len l : extension_splitter_split len l = Ok (split_spec len l).
Proof.
  unfold extension_splitter_split, split_spec, split_cut, split_keep, ICMP_ORIG_DATAGRAM_MIN_LENGTH, MIN_HEADER.
  destruct (Nat.ltb_spec (length l) len) as [H1|H1]; [reflexivity|]. cbn [orb].
  destruct (Nat.ltb_spec 128 (length l)) as [H2|H2].
  2:{ destruct (Nat.leb_spec (length l) 128); [reflexivity|lia]. }
  destruct (Nat.leb_spec (length l) 128) as [H3|H3]; [lia|]. cbn [orb].
  destruct (Nat.ltb_spec 128 len) as [H4|H4].
  - rewrite split_at_ok by lia. cbn [bind fst snd]. rewrite skipn_length.
    destruct (Nat.leb_spec 4 (length l - len)); destruct (Nat.ltb_spec (length l) (len + 4)); try lia; [|reflexivity].
    destruct (Nat.ltb_spec 0 len); [reflexivity|lia].
  - rewrite split_at_ok by lia. cbn [bind fst snd]. rewrite skipn_length.
    destruct (Nat.leb_spec 4 (length l - 128)); destruct (Nat.ltb_spec (length l) (128 + 4)); try lia.
    + destruct (Nat.ltb_spec 0 len); [|reflexivity].
      rewrite slice_ok by (rewrite ?firstn_length; lia). cbn [bind skipn].
      rewrite Nat.sub_0_r, firstn_firstn, Nat.min_l by lia. reflexivity.
    + destruct (Nat.ltb_spec 0 len); reflexivity.
Qed.

Lemma index_nth {A} (d : A) l i : (i < length l)%nat -> index i l = Ok (nth i l d).
Proof. intro H. unfold index. rewrite (nth_error_nth' l d H). reflexivity. Qed.

Lemma buf_read_nth buf i : (i < length buf)%nat -> pv_buf_read i buf = Ok (nth i buf 0).
Proof. apply index_nth. Qed.

(* the length attribute as the views compute it: octet 5 * 4 (ICMPv4), octet 4 * 8 (ICMPv6) *)
Definition length_attribute_octets (fam : family) (buf : list Z) : nat :=
  Z.to_nat (nth (LENGTH_OFFSET fam) buf 0 * length_unit fam).

Lemma split_payload_extension_exact fam buf : (8 <= length buf)%nat ->
  split_payload_extension fam buf = Ok (split_spec (length_attribute_octets fam buf) (skipn 8 buf)).
Proof.
  intro H. unfold split_payload_extension, icmp_error_get_length, icmp_error_min, length_attribute_octets.
  rewrite buf_read_nth by (destruct fam; cbn; lia). cbn [bind]. rewrite slice_from_ok by lia. cbn [bind].
  apply split_exact.
Qed.

(* no extension is reported in exactly three situations, and then the WHOLE payload is returned, untrimmed *)
Lemma split_spec_none len l :
  snd (split_spec len l) = None <->
  (length l < len)%nat \/ (length l <= 128)%nat \/ (length l < split_cut len + 4)%nat.
Proof.
  unfold split_spec.
  destruct (Nat.ltb_spec (length l) len); destruct (Nat.leb_spec (length l) 128);
    destruct (Nat.ltb_spec (length l) (split_cut len + 4)); cbn [orb snd]; split; intro Hx; try reflexivity; try lia; try discriminate.
Qed.

Lemma split_spec_none_whole len l : snd (split_spec len l) = None -> fst (split_spec len l) = l.
Proof. unfold split_spec. destruct (_ || _ || _); [reflexivity|discriminate]. Qed.

Lemma split_spec_some len l x : snd (split_spec len l) = Some x ->
  x = skipn (split_cut len) l /\ fst (split_spec len l) = firstn (split_keep len) l /\
  (split_keep len <= split_cut len)%nat /\ (split_cut len + 4 <= length l)%nat /\ (128 <= split_cut len)%nat.
Proof.
  unfold split_spec, split_cut, split_keep.
  destruct (Nat.ltb_spec (length l) len); [discriminate|]. destruct (Nat.leb_spec (length l) 128); [discriminate|].
  cbn [orb]. destruct (Nat.ltb_spec 128 len); destruct (Nat.ltb_spec 0 len);
    match goal with |- context [(length l <? ?c)%nat] => destruct (Nat.ltb_spec (length l) c) end;
    cbn [fst snd]; intro Hx; try discriminate; injection Hx as <-; repeat split; lia.
Qed.

(* ------------------------------------------------------------------------------------------ *)
(* 5. the two iterators without their state: a relational specification on suffixes             *)
(* ------------------------------------------------------------------------------------------ *)
Lemma get_length_nth ob : (2 <= length ob)%nat ->
  extension_object_get_length ob = Ok (nth 0 ob 0 * 256 + nth 1 ob 0).
Proof.
  intro H. unfold extension_object_get_length.
  destruct (buf_get_u16_ok ob 0) as (a & b & Ha & Hb & Hg); [lia|].
  rewrite buf_read_nth in Ha by lia. rewrite buf_read_nth in Hb by lia.
  injection Ha as <-. injection Hb as <-. exact Hg.
Qed.

(* ExtensionObjectIter::next, exactly, for every buffer and every offset *)
Lemma obj_next_exact buf offset : (offset <= length buf)%nat ->
  extension_object_iter_next buf offset =
  Ok (if object_stops (skipn offset buf) then None
      else Some (skipn offset buf, (offset + declared_length (skipn offset buf))%nat)).
Proof.
  intro H. unfold extension_object_iter_next, object_stops, declared_length.
  destruct (Nat.ltb_spec (length buf) offset); [lia|].
  rewrite slice_from_ok by lia. cbn [bind]. unfold new_view.
  destruct (Nat.leb_spec 4 (length (skipn offset buf))) as [H4|H4];
    destruct (Nat.ltb_spec (length (skipn offset buf)) 4); try lia; [|reflexivity].
  rewrite get_length_nth by lia. cbn [bind orb].
  match goal with |- context [if ?c then _ else _] => destruct c end; reflexivity.
Qed.

Lemma obj_next_beyond buf offset : (length buf < offset)%nat -> extension_object_iter_next buf offset = Ok None.
Proof. intro H. unfold extension_object_iter_next. destruct (Nat.ltb_spec (length buf) offset); [reflexivity|lia]. Qed.

(* [obj_run rest items]: starting at [rest], the iteration yields [items].  An object is yielded as the whole
   remainder (as the code does); the next one starts [declared_length] octets further; the first remainder that
   is too short, or whose length field is below 4 or beyond the remainder, ends the iteration. *)
Inductive obj_run : list Z -> list (list Z) -> Prop :=
| run_stop rest : object_stops rest = true -> obj_run rest []
| run_step rest items : object_stops rest = false ->
    obj_run (skipn (declared_length rest) rest) items -> obj_run rest (rest :: items).

Lemma obj_run_deterministic rest i1 : obj_run rest i1 -> forall i2, obj_run rest i2 -> i1 = i2.
Proof.
  induction 1 as [rest Hs|rest items Hs _ IH]; intros i2 H2; inversion H2; subst; try congruence.
  f_equal. apply IH. assumption.
Qed.

Lemma collect_is_run : forall fuel buf offset items,
  extension_object_iter_collect fuel buf offset = Ok items -> (offset <= length buf)%nat ->
  obj_run (skipn offset buf) items.
Proof.
  induction fuel as [|f IH]; intros buf offset items H Ho; [discriminate|].
  cbn [extension_object_iter_collect] in H. rewrite obj_next_exact in H by exact Ho. cbn [bind] in H.
  destruct (object_stops (skipn offset buf)) eqn:E.
  - injection H as <-. constructor. exact E.
  - destruct (extension_object_iter_collect f buf (offset + declared_length (skipn offset buf))) as [rest|e|x] eqn:Ec;
      cbn [bind] in H; try discriminate.
    injection H as <-. apply run_step; [exact E|]. rewrite skipn_skipn_add. apply IH; [exact Ec|].
    unfold object_stops in E. rewrite skipn_length in E.
    destruct (Nat.ltb_spec (length buf - offset) (declared_length (skipn offset buf))); [|lia].
    rewrite !orb_true_r in E. discriminate.
Qed.

Lemma objects_run buf : exists items, extensions_objects buf = Ok items /\ obj_run (skipn 4 buf) items.
Proof.
  destruct (objects_total buf) as (items & H & _). exists items. split; [exact H|].
  destruct (Nat.le_gt_cases 4 (length buf)) as [H4|H4].
  - eapply collect_is_run; [exact H|exact H4].
  - unfold extensions_objects, iter_fuel in H. rewrite Nat.add_1_r in H. cbn [extension_object_iter_collect] in H.
    rewrite obj_next_beyond in H by lia. cbn [bind] in H. injection H as <-.
    rewrite skipn_all2 by lia. constructor. reflexivity.
Qed.

Definition total_declared (items : list (list Z)) : nat :=
  fold_right (fun it acc => (declared_length it + acc)%nat) 0%nat items.

(* the objects are disjoint, consecutive and inside: their declared lengths add up to at most what there is,
   each is at least a header, hence at most length/4 of them *)
Lemma obj_run_measure rest items : obj_run rest items ->
  (total_declared items <= length rest)%nat /\ (4 * length items <= total_declared items)%nat.
Proof.
  induction 1 as [rest Hs|rest items Hs _ [IH1 IH2]]; [cbn; lia|].
  cbn [total_declared fold_right length]. fold (total_declared items).
  unfold object_stops in Hs. rewrite skipn_length in IH1.
  destruct (Nat.ltb_spec (length rest) 4); [discriminate|].
  destruct (Nat.ltb_spec (declared_length rest) 4); [discriminate|].
  destruct (Nat.ltb_spec (length rest) (declared_length rest)); [discriminate|]. lia.
Qed.

Lemma obj_run_inside rest items : obj_run rest items -> Forall (fun it => (length it <= length rest)%nat) items.
Proof.
  induction 1 as [rest Hs|rest items Hs _ IH]; [constructor|]. constructor; [lia|].
  eapply Forall_impl; [|exact IH]. intros it Hit. cbn beta in Hit. rewrite skipn_length in Hit. lia.
Qed.

(* strictly decreasing suffixes: every later item is at least 4 octets shorter than every earlier one *)
Lemma obj_run_decreasing rest items : obj_run rest items ->
  StronglySorted (fun a b => (length b + 4 <= length a)%nat) items.
Proof.
  induction 1 as [rest Hs|rest items Hs Hr IH]; [constructor|]. constructor; [exact IH|].
  pose proof (obj_run_inside _ _ Hr) as Hin. eapply Forall_impl; [|exact Hin].
  intros it Hit. cbn beta in Hit. rewrite skipn_length in Hit.
  unfold object_stops in Hs.
  destruct (Nat.ltb_spec (length rest) 4); [discriminate|].
  destruct (Nat.ltb_spec (declared_length rest) 4); [discriminate|].
  destruct (Nat.ltb_spec (length rest) (declared_length rest)); [discriminate|]. lia.
Qed.

Lemma div4_le a b : (4 * a <= b)%nat -> (a <= b / 4)%nat.
Proof. intro H. apply Nat.div_le_lower_bound; lia. Qed.

Lemma objects_structure buf :
  exists items, extensions_objects buf = Ok items /\ obj_run (skipn 4 buf) items /\
    (total_declared items <= length buf - 4)%nat /\ (length items <= (length buf - 4) / 4)%nat /\
    StronglySorted (fun a b => (length b + 4 <= length a)%nat) items.
Proof.
  destruct (objects_run buf) as (items & H & Hr). exists items. split; [exact H|]. split; [exact Hr|].
  destruct (obj_run_measure _ _ Hr) as [H1 H2]. rewrite skipn_length in H1.
  split; [exact H1|]. split; [apply div4_le; lia|]. apply obj_run_decreasing with (rest := skipn 4 buf). exact Hr.
Qed.

(* --- the label stack iterator --- *)
Lemma land1_odd x : (0 <? Z.land x 1) = Z.odd x.
Proof.
  change 1 with (Z.ones 1) at 1. rewrite Z.land_ones by lia. change (2 ^ 1) with 2. rewrite Zmod_odd.
  destruct (Z.odd x); reflexivity.
Qed.

Lemma mpls_next_exact buf offset bos : (offset <= length buf)%nat ->
  mpls_label_stack_iter_next buf offset bos =
  Ok (if (0 <? bos) || (length (skipn offset buf) <? 4)%nat then None
      else Some (skipn offset buf, (offset + 4)%nat, Z.land (nth 2 (skipn offset buf) 0) 1)).
Proof.
  intro H. unfold mpls_label_stack_iter_next. destruct (0 <? bos); [reflexivity|]. cbn [orb].
  rewrite skipn_length.
  destruct (Nat.leb_spec (length buf) offset).
  - destruct (Nat.ltb_spec (length buf - offset) 4); [reflexivity|lia].
  - rewrite slice_from_ok by lia. cbn [bind]. unfold new_view. rewrite skipn_length.
    destruct (Nat.leb_spec 4 (length buf - offset)); destruct (Nat.ltb_spec (length buf - offset) 4); try lia; [|reflexivity].
    unfold pv_mpls_member_get_bos. rewrite buf_read_nth by (rewrite skipn_length; lia). cbn [bind]. reflexivity.
Qed.

(* [mpls_run rest items]: starting at [rest] with the bottom of the stack not yet seen *)
Inductive mpls_run : list Z -> list (list Z) -> Prop :=
| mrun_short rest : (length rest < 4)%nat -> mpls_run rest []
| mrun_bottom rest : (4 <= length rest)%nat -> entry_bottom rest = true -> mpls_run rest [rest]
| mrun_step rest items : (4 <= length rest)%nat -> entry_bottom rest = false ->
    mpls_run (skipn 4 rest) items -> mpls_run rest (rest :: items).

Lemma mpls_run_deterministic rest i1 : mpls_run rest i1 -> forall i2, mpls_run rest i2 -> i1 = i2.
Proof.
  induction 1 as [rest Hs|rest H4 Hb|rest items H4 Hb _ IH]; intros i2 H2; inversion H2; subst;
    try reflexivity; try lia; try congruence.
  f_equal. apply IH. assumption.
Qed.

Lemma mpls_collect_is_run : forall fuel buf offset bos items,
  mpls_label_stack_iter_collect fuel buf offset bos = Ok items -> (offset <= length buf)%nat ->
  if 0 <? bos then items = [] else mpls_run (skipn offset buf) items.
Proof.
  induction fuel as [|f IH]; intros buf offset bos items H Ho; [discriminate|].
  cbn [mpls_label_stack_iter_collect] in H. rewrite mpls_next_exact in H by exact Ho. cbn [bind] in H.
  destruct (0 <? bos) eqn:Eb; cbn [orb] in H; [injection H as <-; reflexivity|].
  rewrite skipn_length in H.
  destruct (Nat.ltb_spec (length buf - offset) 4) as [H4|H4].
  - injection H as <-. apply mrun_short. rewrite skipn_length. exact H4.
  - destruct (mpls_label_stack_iter_collect f buf (offset + 4) (Z.land (nth 2 (skipn offset buf) 0) 1)) as [rest|e|x] eqn:Ec;
      cbn [bind] in H; try discriminate.
    injection H as <-. apply IH in Ec; [|lia]. rewrite land1_odd in Ec. fold (entry_bottom (skipn offset buf)) in Ec.
    destruct (entry_bottom (skipn offset buf)) eqn:Ebot.
    + subst rest. apply mrun_bottom; [rewrite skipn_length; lia|exact Ebot].
    + apply mrun_step; [rewrite skipn_length; lia|exact Ebot|]. rewrite skipn_skipn_add. exact Ec.
Qed.

Lemma mpls_run_count rest items : mpls_run rest items ->
  (4 * length items <= length rest)%nat /\
  StronglySorted (fun a b => (length b + 4 <= length a)%nat) items /\
  Forall (fun it => (length it <= length rest)%nat) items.
Proof.
  induction 1 as [rest Hs|rest H4 Hb|rest items H4 Hb _ (IH1 & IH2 & IH3)].
  - split; [cbn; lia|]. split; constructor.
  - split; [cbn [length]; lia|]. split; [repeat constructor|]. constructor; [lia|constructor].
  - rewrite skipn_length in IH1. split; [cbn [length]; lia|].
    assert (Hall : Forall (fun it => (length it + 4 <= length rest)%nat) items).
    { eapply Forall_impl; [|exact IH3]. intros it Hit. cbn beta in Hit. rewrite skipn_length in Hit. lia. }
    split; [constructor; [exact IH2|exact Hall]|].
    constructor; [lia|]. eapply Forall_impl; [|exact Hall]. intros it Hit. cbn beta in Hit. lia.
Qed.

Lemma members_structure buf :
  exists items, mpls_label_stack_members buf = Ok items /\ mpls_run buf items /\
    (length items <= length buf / 4)%nat /\
    StronglySorted (fun a b => (length b + 4 <= length a)%nat) items.
Proof.
  destruct (members_total buf) as (items & H & _). exists items. split; [exact H|].
  pose proof (mpls_collect_is_run _ _ _ _ _ H ltac:(lia)) as Hr. change (0 <? 0) with false in Hr. cbn [skipn] in Hr.
  split; [exact Hr|]. destruct (mpls_run_count _ _ Hr) as (H1 & H2 & _).
  split; [apply div4_le; exact H1|exact H2].
Qed.

(* ------------------------------------------------------------------------------------------ *)
(* 6. malformed structures: exactly what the code does                                          *)
(* ------------------------------------------------------------------------------------------ *)
Lemma version_bits b : 0 <= b < 256 -> pv_u8_shr (pv_u8_and b 240) 4 = b / 16.
Proof. intro H. apply Z.eqb_eq. revert b H. apply byte_sweep. vm_compute. reflexivity. Qed.

Lemma try_from_unfold b0 b1 b2 b3 rest :
  extensions_try_from (b0 :: b1 :: b2 :: b3 :: rest) =
  if negb (pv_u8_shr (pv_u8_and b0 240) 4 =? ICMP_EXTENSION_VERSION) then Ok []
  else let* items := extensions_objects (b0 :: b1 :: b2 :: b3 :: rest) in
       collect_extensions (flat_map_new_view 4 items).
Proof.
  unfold extensions_try_from, new_view at 1. cbn [length Nat.leb bind].
  unfold extensions_header, slice. cbn [Nat.leb length andb Nat.sub skipn firstn bind].
  unfold new_view at 1. cbn [length Nat.leb bind].
  unfold extension_header_get_version, pv_buf_read, index. cbn [nth_error bind]. reflexivity.
Qed.

(* fewer than the 4 header octets: an error value (the splitter never hands such a slice over, see split_spec_some) *)
Lemma try_from_truncated buf : (length buf < 4)%nat -> extensions_try_from buf = Err EPacket.
Proof. intro H. unfold extensions_try_from, new_view. destruct (Nat.leb_spec 4 (length buf)); [lia|reflexivity]. Qed.

(* a version other than 2: an EMPTY list of extensions (not an error, not "absent"), whatever follows *)
Lemma try_from_wrong_version b0 b1 b2 b3 rest : 0 <= b0 < 256 -> b0 / 16 <> 2 ->
  extensions_try_from (b0 :: b1 :: b2 :: b3 :: rest) = Ok [].
Proof.
  intros Hb Hv. rewrite try_from_unfold, version_bits by exact Hb. unfold ICMP_EXTENSION_VERSION.
  destruct (Z.eqb_spec (b0 / 16) 2); [contradiction|reflexivity].
Qed.

(* the reserved bits and the checksum are never looked at *)
Lemma obj_next_ext buf buf' offset : length buf = length buf' -> skipn offset buf = skipn offset buf' ->
  extension_object_iter_next buf offset = extension_object_iter_next buf' offset.
Proof.
  intros Hl Hs. destruct (Nat.le_gt_cases offset (length buf)).
  - rewrite !obj_next_exact by lia. rewrite Hs. reflexivity.
  - rewrite !obj_next_beyond by lia. reflexivity.
Qed.

Lemma collect_ext : forall fuel buf buf' offset, length buf = length buf' -> skipn offset buf = skipn offset buf' ->
  extension_object_iter_collect fuel buf offset = extension_object_iter_collect fuel buf' offset.
Proof.
  induction fuel as [|f IH]; intros buf buf' offset Hl Hs; [reflexivity|].
  cbn [extension_object_iter_collect]. rewrite (obj_next_ext buf buf' offset Hl Hs).
  destruct (Nat.le_gt_cases offset (length buf')).
  - rewrite obj_next_exact by lia. destruct (object_stops (skipn offset buf')); cbn [bind]; [reflexivity|].
    set (d := declared_length (skipn offset buf')).
    rewrite (IH buf buf' (offset + d)%nat); [reflexivity|exact Hl|].
    rewrite <- (skipn_skipn_add buf d offset), <- (skipn_skipn_add buf' d offset), Hs. reflexivity.
  - rewrite obj_next_beyond by lia. reflexivity.
Qed.

Lemma try_from_header_irrelevant b0 b1 b2 b3 c0 c1 c2 c3 rest :
  (pv_u8_shr (pv_u8_and b0 240) 4 =? 2) = (pv_u8_shr (pv_u8_and c0 240) 4 =? 2) ->
  extensions_try_from (b0 :: b1 :: b2 :: b3 :: rest) = extensions_try_from (c0 :: c1 :: c2 :: c3 :: rest).
Proof.
  intro Hv. rewrite !try_from_unfold. unfold ICMP_EXTENSION_VERSION. rewrite Hv.
  destruct (negb _); [reflexivity|].
  unfold extensions_objects, iter_fuel. cbn [length].
  rewrite (collect_ext _ (b0 :: b1 :: b2 :: b3 :: rest) (c0 :: c1 :: c2 :: c3 :: rest) 4); reflexivity.
Qed.

Lemma try_from_checksum_ignored b0 b1 b2 b3 c0 c1 c2 c3 rest :
  0 <= b0 < 256 -> 0 <= c0 < 256 -> b0 / 16 = c0 / 16 ->
  extensions_try_from (b0 :: b1 :: b2 :: b3 :: rest) = extensions_try_from (c0 :: c1 :: c2 :: c3 :: rest).
Proof.
  intros Hb Hc Hv. apply try_from_header_irrelevant. rewrite !version_bits by assumption. rewrite Hv. reflexivity.
Qed.

(* --- a well-formed run of objects followed by ANY octets --- *)
Lemma obj_continues_enc o rest : obj_wf o ->
  object_stops (enc_object o ++ rest) = false /\ declared_length (enc_object o ++ rest) = length (enc_object o).
Proof.
  intro H. pose proof (obj_len_bound o H) as Hb.
  assert (Hd : declared_length (enc_object o ++ rest) = length (enc_object o)).
  { rewrite enc_object_length. unfold declared_length, enc_object. cbn [app nth]. lia. }
  split; [|exact Hd]. unfold object_stops. rewrite Hd, app_length, enc_object_length.
  destruct (Nat.ltb_spec (4 + length (obj_payload o) + length rest) 4); [lia|].
  destruct (Nat.ltb_spec (4 + length (obj_payload o)) 4); [lia|].
  destruct (Nat.ltb_spec (4 + length (obj_payload o) + length rest) (4 + length (obj_payload o))); [lia|]. reflexivity.
Qed.

Lemma obj_run_app objs tail items_t : Forall obj_wf objs -> obj_run tail items_t ->
  obj_run (ext_body objs ++ tail) (map (fun s => s ++ tail) (obj_suffixes objs) ++ items_t).
Proof.
  induction 1 as [|o t Ho _ IH]; intro Ht; [exact Ht|].
  cbn [obj_suffixes map app].
  destruct (obj_continues_enc o (ext_body t ++ tail) Ho) as [Hs Hd].
  assert (He : ext_body (o :: t) ++ tail = enc_object o ++ ext_body t ++ tail).
  { unfold ext_body. cbn [flat_map]. rewrite <- app_assoc. reflexivity. }
  rewrite He. apply run_step; [exact Hs|]. rewrite Hd, skipn_app_len. apply IH, Ht.
Qed.

Lemma obj_run_total rest : exists items, obj_run rest items.
Proof. destruct (objects_run (0 :: 0 :: 0 :: 0 :: rest)) as (items & _ & Hr). exists items. exact Hr. Qed.

Lemma flat_map_new_view_app min a b :
  flat_map_new_view min (a ++ b) = flat_map_new_view min a ++ flat_map_new_view min b.
Proof.
  induction a as [|x t IH]; [reflexivity|]. cbn [app flat_map_new_view].
  destruct (new_view min x); rewrite IH; reflexivity.
Qed.

Lemma collect_extensions_app a b :
  collect_extensions (a ++ b) =
  let* x := collect_extensions a in let* y := collect_extensions b in Ok (x ++ y).
Proof.
  induction a as [|o t IH]; cbn [app collect_extensions bind].
  - destruct (collect_extensions b); reflexivity.
  - destruct (extension_from_object o); cbn [bind]; try reflexivity. rewrite IH.
    destruct (collect_extensions t); cbn [bind]; try reflexivity.
    destruct (collect_extensions b); reflexivity.
Qed.

Lemma collect_suffixes_tail objs tail : Forall obj_wf objs ->
  collect_extensions (flat_map_new_view 4 (map (fun s => s ++ tail) (obj_suffixes objs)))
  = Ok (map expected_extension objs).
Proof.
  induction 1 as [|o t Ho _ IH]; [reflexivity|].
  cbn [obj_suffixes map flat_map_new_view]. unfold new_view at 1.
  destruct (Nat.leb_spec 4 (length (ext_body (o :: t) ++ tail))) as [_|Hc].
  2:{ pose proof (ext_body_min_length (o :: t)). rewrite app_length in Hc. cbn [length] in *. lia. }
  cbn [collect_extensions]. unfold ext_body at 1. cbn [flat_map]. fold (ext_body t). rewrite <- app_assoc.
  rewrite (extension_from_object_enc o _ Ho). cbn [bind]. rewrite IH. reflexivity.
Qed.

(* everything the parser says about a structure that begins with well-formed objects *)
Lemma try_from_with_tail b0 b1 b2 b3 objs tail items_t :
  0 <= b0 < 256 -> b0 / 16 = 2 -> Forall obj_wf objs -> obj_run tail items_t ->
  extensions_try_from (b0 :: b1 :: b2 :: b3 :: ext_body objs ++ tail) =
  let* r := collect_extensions (flat_map_new_view 4 items_t) in Ok (map expected_extension objs ++ r).
Proof.
  intros Hb Hv Hwf Ht. rewrite try_from_unfold, version_bits, Hv by exact Hb.
  change (negb (2 =? ICMP_EXTENSION_VERSION)) with false. cbv iota.
  destruct (objects_run (b0 :: b1 :: b2 :: b3 :: ext_body objs ++ tail)) as (items & H & Hr). cbn [skipn] in Hr.
  rewrite (obj_run_deterministic _ _ Hr _ (obj_run_app objs tail items_t Hwf Ht)) in H.
  rewrite H. cbn [bind]. rewrite flat_map_new_view_app, collect_extensions_app, collect_suffixes_tail by exact Hwf.
  cbn [bind]. destruct (collect_extensions _); reflexivity.
Qed.

(* an object whose length field is below 4, or beyond what is left, or that has no room for its header, ends the
   iteration: everything before it is reported, it and everything after it is dropped silently *)
Lemma try_from_stops_at_malformed b0 b1 b2 b3 objs tail :
  0 <= b0 < 256 -> b0 / 16 = 2 -> Forall obj_wf objs -> object_stops tail = true ->
  extensions_try_from (b0 :: b1 :: b2 :: b3 :: ext_body objs ++ tail) = Ok (map expected_extension objs).
Proof.
  intros Hb Hv Hwf Hs. rewrite (try_from_with_tail b0 b1 b2 b3 objs tail []) by (try assumption; constructor; exact Hs).
  cbn [flat_map_new_view collect_extensions bind]. rewrite app_nil_r. reflexivity.
Qed.

(* an MPLS object (class-num 1) that the iterator accepts but whose payload has no room for one label stack entry *)
Lemma short_mpls_object_err obj : (4 <= length obj)%nat -> nth 2 obj 0 = 1 ->
  (Nat.min (Nat.max (declared_length obj) 4) (length obj) < 8)%nat ->
  extension_from_object obj = Err EPacket.
Proof.
  intros H4 Hc Hs. unfold extension_from_object, extension_object_get_class_num.
  rewrite buf_read_nth, Hc by lia. cbn [bind]. change (1 =? 1) with true. cbv iota.
  unfold extension_object_payload. rewrite get_length_nth by lia. cbn [bind]. fold (declared_length obj).
  rewrite slice_ok by lia. cbn [bind]. unfold new_view. rewrite firstn_length, skipn_length.
  destruct (Nat.leb_spec 4 (Nat.min (Nat.min (Nat.max (declared_length obj) 4) (length obj) - 4) (length obj - 4))); [lia|reflexivity].
Qed.

(* ... makes the WHOLE conversion an error value, whatever precedes and follows it *)
Lemma try_from_short_mpls b0 b1 b2 b3 objs t p tail :
  0 <= b0 < 256 -> b0 / 16 = 2 -> Forall obj_wf objs -> (length p < 4)%nat ->
  extensions_try_from (b0 :: b1 :: b2 :: b3 :: ext_body objs ++ ([0; Z.of_nat (4 + length p); 1; t] ++ p) ++ tail)
  = Err EPacket.
Proof.
  intros Hb Hv Hwf Hp.
  set (bad := ([0; Z.of_nat (4 + length p); 1; t] ++ p) ++ tail).
  assert (Hd : declared_length bad = (4 + length p)%nat).
  { unfold declared_length, bad. cbn [app nth]. lia. }
  assert (Hl : (4 + length p <= length bad)%nat).
  { unfold bad. rewrite !app_length. cbn [length]. lia. }
  assert (Hs : object_stops bad = false).
  { unfold object_stops. rewrite Hd.
    destruct (Nat.ltb_spec (length bad) 4); [lia|]. destruct (Nat.ltb_spec (4 + length p) 4); [lia|].
    destruct (Nat.ltb_spec (length bad) (4 + length p)); [lia|]. reflexivity. }
  destruct (obj_run_total (skipn (declared_length bad) bad)) as (items' & Hr').
  rewrite (try_from_with_tail b0 b1 b2 b3 objs bad (bad :: items')) by (try assumption; apply run_step; assumption).
  cbn [flat_map_new_view]. unfold new_view at 1. destruct (Nat.leb_spec 4 (length bad)); [|lia].
  cbn [collect_extensions]. rewrite short_mpls_object_err; [reflexivity|lia| |].
  - unfold bad. reflexivity.
  - rewrite Hd. lia.
Qed.

(* --- the message level: the original datagram comes back whatever the extension octets are --- *)
Lemma message_any_extension fam fixed orig mode kind X :
  length fixed = 7%nat -> build_wf fam mode orig -> (4 <= length X)%nat ->
  let msg := icmp_head fam fixed (length_attribute fam mode orig) ++ quoted fam mode orig ++ X in
  split_payload_extension fam msg = Ok (expected_datagram fam mode orig, Some X) /\
  nested_and_extensions ExtEnabled kind fam msg
    = (let* x := extensions_try_from X in Ok (expected_datagram fam mode orig, Some x)) /\
  nested_and_extensions ExtDisabled kind fam msg
    = Ok (match kind with
          | KTimeExceeded => quoted fam mode orig ++ X
          | KDestinationUnreachable => expected_datagram fam mode orig
          end, None).
Proof.
  intros Hf Hwf HX msg.
  destruct (built_header fam fixed (length_attribute fam mode orig) (quoted fam mode orig ++ X) Hf) as (H1 & H2 & H8).
  fold msg in H1, H2, H8.
  assert (Hsplit : split_payload_extension fam msg = Ok (expected_datagram fam mode orig, Some X)).
  { unfold split_payload_extension, icmp_error_get_length, icmp_error_min. rewrite H1. cbn [bind]. rewrite H2. cbn [bind].
    apply split_built; assumption. }
  split; [exact Hsplit|].
  unfold nested_and_extensions, new_view, icmp_error_min.
  destruct (Nat.leb_spec 8 (length msg)); [|lia]. cbn [bind].
  unfold icmp_error_payload, icmp_error_extension, icmp_error_payload_raw, icmp_error_min.
  rewrite Hsplit, H2. cbn [bind fst snd extension_map_try_from]. split.
  - destruct (extensions_try_from X); reflexivity.
  - destruct kind; reflexivity.
Qed.

(* ExtensionObjectIter::next for EVERY offset (beyond the end the remainder is empty, and an empty remainder stops) *)
Lemma obj_next_all buf offset :
  extension_object_iter_next buf offset =
  Ok (if object_stops (skipn offset buf) then None
      else Some (skipn offset buf, (offset + declared_length (skipn offset buf))%nat)).
Proof.
  destruct (Nat.le_gt_cases offset (length buf)) as [H|H]; [apply obj_next_exact, H|].
  rewrite obj_next_beyond by exact H. rewrite skipn_all2 by lia. reflexivity.
Qed.

Lemma mpls_next_all buf offset bos :
  mpls_label_stack_iter_next buf offset bos =
  Ok (if (0 <? bos) || (length (skipn offset buf) <? 4)%nat then None
      else Some (skipn offset buf, (offset + 4)%nat, Z.land (nth 2 (skipn offset buf) 0) 1)).
Proof.
  destruct (Nat.le_gt_cases offset (length buf)) as [H|H]; [apply mpls_next_exact, H|].
  unfold mpls_label_stack_iter_next. rewrite skipn_all2 by lia. cbn [length].
  destruct (0 <? bos); [reflexivity|]. cbn [orb].
  destruct (Nat.leb_spec (length buf) offset); [reflexivity|lia].
Qed.
