(* C14 end to end: what recv4 / recv6 (Net/Recv4.v, Net/Recv6.v - the receive path of the tracer) report for an
   ICMP error message built by the encoder of Packet/ExtEncode.v.  Uses the agreement of the two transcriptions of the
   extension decoding (Proofs/ExtModelsAgree.v) and the reduction of recv4 / recv6 on an ICMP error to "split, then
   decode the quoted datagram" (Proofs/RecvRoundtrip.v). *)
From Coq Require Import ZifyBool.
From TV Require Import Base.Result Base.Bytes Core.Types.
From TV Require Import Net.RecvCommon Net.Recv4 Net.Recv6 Proofs.RecvProofs Proofs.RecvRoundtrip.
From TV Require Import Packet.ByteOps Packet.IcmpExt Packet.Rfc4884 Packet.ExtEncode.
From TV Require Import Proofs.IcmpExtProofs Proofs.ExtCodecProofs Proofs.ExtModelsAgree.
Ltac Zify.zify_post_hook ::= Z.div_mod_to_equations.

(* the two transcriptions of extension_splitter::split agree for every length and payload *)
Lemma split_models_agree len p : split (Z.of_nat len) p = extension_splitter_split len p.
Proof.
  unfold split, extension_splitter_split, ICMP_ORIG_DATAGRAM_MIN_LENGTH, MIN_HEADER.
  destruct (Nat.ltb_spec (length p) len).
  { replace (zlen p <? Z.of_nat len) with true by (unfold zlen; lia). reflexivity. }
  replace (zlen p <? Z.of_nat len) with false by (unfold zlen; lia).
  destruct (Nat.ltb_spec 128 (length p)).
  2:{ replace (128 <? zlen p) with false by (unfold zlen; lia). reflexivity. }
  replace (128 <? zlen p) with true by (unfold zlen; lia).
  destruct (Nat.ltb_spec 128 len).
  - replace (128 <? Z.of_nat len) with true by lia.
    rewrite zslice_ok, zslice_from_ok by (unfold zlen; lia). cbn [bind].
    rewrite split_at_ok by lia. cbn [bind fst snd].
    change (Z.to_nat 0) with 0%nat. cbn [skipn]. rewrite Z.sub_0_r, Nat2Z.id.
    unfold zlen. rewrite skipn_length.
    destruct (Nat.leb_spec 4 (length p - len)).
    + replace (4 <=? Z.of_nat (length p - len)) with true by lia. reflexivity.
    + replace (4 <=? Z.of_nat (length p - len)) with false by lia. reflexivity.
  - replace (128 <? Z.of_nat len) with false by lia.
    destruct (Nat.ltb_spec 0 len).
    + replace (0 <? Z.of_nat len) with true by lia.
      rewrite zslice_ok, zslice_from_ok by (unfold zlen; lia). cbn [bind].
      rewrite split_at_ok by lia. cbn [bind fst snd].
      change (Z.to_nat 0) with 0%nat. change (skipn 0 p) with p. change (Z.to_nat (128 - 0)) with 128%nat. change (Z.to_nat 128) with 128%nat.
      replace (zlen (skipn 128 p)) with (Z.of_nat (length p - 128)) by (unfold zlen; rewrite skipn_length; reflexivity).
      rewrite skipn_length.
      destruct (Nat.leb_spec 4 (length p - 128)).
      * replace (4 <=? Z.of_nat (length p - 128)) with true by lia.
        rewrite zslice_ok by (unfold zlen; rewrite ?firstn_length; lia).
        rewrite slice_ok by (rewrite ?firstn_length; lia). cbn [bind].
        change (skipn 0 (firstn 128 p)) with (firstn 128 p). rewrite Z.sub_0_r, Nat2Z.id, Nat.sub_0_r. reflexivity.
      * replace (4 <=? Z.of_nat (length p - 128)) with false by lia. reflexivity.
    + replace (0 <? Z.of_nat len) with false by lia.
      rewrite zslice_ok, zslice_from_ok by (unfold zlen; lia). cbn [bind].
      rewrite split_at_ok by lia. cbn [bind fst snd].
      change (Z.to_nat 0) with 0%nat. change (skipn 0 p) with p. change (Z.to_nat (128 - 0)) with 128%nat. change (Z.to_nat 128) with 128%nat.
      replace (zlen (skipn 128 p)) with (Z.of_nat (length p - 128)) by (unfold zlen; rewrite skipn_length; reflexivity).
      rewrite skipn_length.
      destruct (Nat.leb_spec 4 (length p - 128)).
      * replace (4 <=? Z.of_nat (length p - 128)) with true by lia. reflexivity.
      * replace (4 <=? Z.of_nat (length p - 128)) with false by lia. reflexivity.
Qed.

Lemma length_attribute_nonneg fam mode orig : 0 <= length_attribute fam mode orig.
Proof. destruct mode; cbn [length_attribute]; lia. Qed.

(* the stage both families share: split, view of the quoted datagram, conversion of the extension *)
Lemma nested_of_encoded fam hmin c du orig es mode :
  rc_ext c = true -> build_wf fam mode orig -> Forall ext_wf es -> Forall ext_octets es ->
  hmin <= zlen (expected_datagram fam mode orig) ->
  nested_of (length_unit fam) hmin c du (length_attribute fam mode orig)
            (quoted fam mode orig ++ encode_extensions es)
  = Ok (expected_datagram fam mode orig, Some (enc_exts es)).
Proof.
  intros Hext Hwf Hes Hoct Hmin. unfold nested_of. rewrite Hext.
  pose proof (length_attribute_nonneg fam mode orig) as Hl.
  assert (Hu : 0 < length_unit fam) by (destruct fam; cbn; lia).
  replace (length_attribute fam mode orig * length_unit fam)
    with (Z.of_nat (Z.to_nat (length_attribute fam mode orig * length_unit fam))) by nia.
  destruct (encode_extensions_wire es Hes Hoct) as (Hb & H4 & _).
  rewrite split_models_agree, split_built by assumption. cbn [bind fst snd].
  destruct (new_view_cases hmin (expected_datagram fam mode orig)) as [[-> _]|[_ Hc]]; [|lia]. cbn [bind].
  rewrite ext_of_agrees by exact Hb. cbn [extension_map_try_from]. rewrite parse_encode_id by exact Hes. reflexivity.
Qed.

(* ICMPv4: any outer IPv4 header (any IHL), Time Exceeded or Destination Unreachable with any code *)
Lemma recv4_reports_encoded c now H src (du : bool) code c1 c2 b4 b6 b7 orig es mode :
  hdr4_ok H -> (forall x, ipv4_get_source (H ++ x) = Ok src) -> (du = false -> code = 0) ->
  rc_ext c = true -> build_wf FamV4 mode orig -> Forall ext_wf es -> Forall ext_octets es ->
  20 <= zlen (expected_datagram FamV4 mode orig) ->
  let msg := encode_message FamV4 [if du then 3 else 11; code; c1; c2; b4; b6; b7] orig es mode in
  zlen H + zlen msg <= 1024 ->
  recv4 c now (H ++ msg) = finish4 c now src du code (expected_datagram FamV4 mode orig) (Some (enc_exts es)).
Proof.
  intros Hh Hsrc Hcode Hext Hwf Hes Hoct Hmin msg Hlen. subst msg.
  unfold encode_message, build_message, icmp_head, rfc4884_length_octet in *. cbn [firstn skipn app] in *.
  fold (encode_extensions es) in *.
  rewrite zlen8 in Hlen.
  rewrite (recv4_icmp_error c now H src) by (try assumption; lia).
  change 4 with (length_unit FamV4) at 1.
  rewrite nested_of_encoded by assumption. reflexivity.
Qed.

(* ICMPv6: Time Exceeded (type 3) or Destination Unreachable (type 1); the message fits the receive buffer *)
Lemma recv6_reports_encoded c now from (du : bool) code c1 c2 b5 b6 b7 orig es mode :
  is_v6 from = true -> (du = false -> code = 0) ->
  rc_ext c = true -> build_wf FamV6 mode orig -> Forall ext_wf es -> Forall ext_octets es ->
  40 <= zlen (expected_datagram FamV6 mode orig) ->
  let msg := encode_message FamV6 [if du then 1 else 3; code; c1; c2; b5; b6; b7] orig es mode in
  zlen msg <= 1024 ->
  recv6 c now (Some from) msg = finish6 c now from du code (expected_datagram FamV6 mode orig) (Some (enc_exts es)).
Proof.
  intros Hv6 Hcode Hext Hwf Hes Hoct Hmin msg Hlen. subst msg.
  unfold encode_message, build_message, icmp_head, rfc4884_length_octet in *. cbn [firstn skipn app] in *.
  fold (encode_extensions es) in *.
  rewrite zlen8 in Hlen.
  rewrite recv6_icmp_error by assumption.
  rewrite ztake_all by lia.
  change 8 with (length_unit FamV6) at 1.
  rewrite nested_of_encoded by assumption. reflexivity.
Qed.
