(* The development has TWO transcriptions of the extension decoding: Packet/IcmpExt.v (structured result, subject of
   the C14 theorems) and Net/RecvCommon.v (canonical opaque encoding, the one the receive path Net/Recv4.v /
   Recv6.v calls and C04 / C02 are stated over).  This file proves that they compute the same thing on EVERY
   octet string: RecvCommon.extensions_try_from v = enc_exts (IcmpExt.extensions_try_from v), errors included.
   So every C14 statement about the codec is a statement about what recv4 / recv6 report. *)
From Coq Require Import ZifyBool.
From TV Require Import Base.Result Base.Bytes Core.Types Packet.ByteOps Packet.IcmpExt Packet.Rfc4884 Packet.ExtEncode.
From TV Require Import Net.RecvCommon Proofs.IcmpExtProofs Proofs.ExtCodecProofs Proofs.RecvProofs.
Ltac Zify.zify_post_hook ::= Z.div_mod_to_equations.

(* ---- the object iterator of Net/RecvCommon.v follows the same relational specification ---- *)
Lemma net_objects_run : forall f b off obs,
  objects f b (Z.of_nat off) = Ok obs -> (off <= length b)%nat -> obj_run (skipn off b) obs.
Proof.
  induction f as [|f IH]; intros b off obs H Ho; [discriminate|].
  cbn [objects] in H.
  destruct (zlen b <? Z.of_nat off) eqn:E1; [unfold zlen in E1; lia|].
  rewrite zslice_from_ok in H by (unfold zlen; lia). cbn [bind] in H. rewrite Nat2Z.id in H.
  pose proof (skipn_length off b) as Hsl.
  set (ob := skipn off b) in *.
  destruct (zlen ob <? 4) eqn:E2.
  - injection H as <-. constructor. unfold object_stops. unfold zlen in E2.
    destruct (Nat.ltb_spec (length ob) 4); [reflexivity|lia].
  - rewrite get_u16_ok in H by lia. cbn [bind] in H.
    change (Z.to_nat 0) with 0%nat in H. change (Z.to_nat (0 + 1)) with 1%nat in H.
    set (len := nth 0 ob 0 * 256 + nth 1 ob 0) in *.
    destruct ((len <? 4) || (zlen ob <? len)) eqn:E3.
    + injection H as <-. constructor. unfold object_stops, declared_length. fold len. unfold zlen in *.
      destruct (Nat.ltb_spec (length ob) 4); [reflexivity|]. cbn [orb].
      destruct (Nat.ltb_spec (Z.to_nat len) 4); [reflexivity|]. cbn [orb].
      destruct (Nat.ltb_spec (length ob) (Z.to_nat len)); [reflexivity|]. lia.
    + assert (Hlen : len = Z.of_nat (declared_length ob)) by (unfold declared_length; fold len; lia).
      replace (Z.of_nat off + len) with (Z.of_nat (off + declared_length ob)) in H by lia.
      destruct (objects f b (Z.of_nat (off + declared_length ob))) as [rest|e|x] eqn:Ec; cbn [bind] in H; try discriminate.
      injection H as <-. unfold zlen in *. apply run_step.
      * unfold object_stops.
        destruct (Nat.ltb_spec (length ob) 4); [lia|]. cbn [orb].
        destruct (Nat.ltb_spec (declared_length ob) 4); [lia|]. cbn [orb].
        destruct (Nat.ltb_spec (length ob) (declared_length ob)); [lia|]. reflexivity.
      * replace (skipn (declared_length ob) ob) with (skipn (off + declared_length ob) b)
          by (unfold ob; rewrite skipn_skipn_add; reflexivity).
        apply IH; [exact Ec|]. lia.
Qed.

Lemma obj_run_items rest items : obj_run rest items -> bytes rest ->
  Forall (fun it => object_stops it = false /\ bytes it) items.
Proof.
  induction 1 as [rest Hs|rest items Hs _ IH]; intro Hb; [constructor|].
  constructor; [split; assumption|]. apply IH. apply bytes_skipn. exact Hb.
Qed.

(* ---- label stack entries ---- *)
Lemma member_agrees it : (4 <= length it)%nat -> bytes it ->
  exists m, mpls_member_from it = Ok m /\ member_enc it = Ok (enc_member m).
Proof.
  intros H4 Hb.
  destruct it as [|a [|b [|c [|d t]]]]; cbn [length] in H4; try lia.
  apply bytes_cons in Hb. destruct Hb as [Ha Hb]. apply bytes_cons in Hb. destruct Hb as [Hb' Hb].
  apply bytes_cons in Hb. destruct Hb as [Hc Hb]. apply bytes_cons in Hb. destruct Hb as [Hd _].
  eexists. split.
  - unfold mpls_member_from, pv_mpls_member_get_label, pv_mpls_member_get_exp, pv_mpls_member_get_bos, pv_mpls_member_get_ttl,
      pv_buf_read, index. cbn [nth_error bind]. reflexivity.
  - unfold member_enc. rewrite !read_ok by (unfold zlen; cbn [length]; lia). cbn [bind].
    change (Z.to_nat 0) with 0%nat. change (Z.to_nat 1) with 1%nat. change (Z.to_nat 2) with 2%nat.
    change (Z.to_nat 3) with 3%nat. cbn [nth].
    unfold enc_member. cbn [mpls_label mpls_exp mpls_bos mpls_ttl].
    rewrite exp_bits, bos_bits by lia. unfold from_be_bytes. cbn [fold_left].
    rewrite Z.shiftr_div_pow2 by lia. change (2 ^ 4) with 16.
    replace ((((0 * 256 + 0) * 256 + a) * 256 + b) * 256 + c) with (a * 65536 + b * 256 + c) by lia.
    set (label := (a * 65536 + b * 256 + c) / 16).
    assert (Hl : 0 <= label < 1048576) by (unfold label; lia).
    assert (E1 : (label / 65536) mod 256 = label / 65536) by lia.
    assert (E2 : (c / 2) mod 8 = c mod 16 / 2) by lia.
    rewrite E1, E2. reflexivity.
Qed.

Lemma net_members_run : forall f st off bos ms,
  mpls_members f st (Z.of_nat off) bos = Ok ms -> (off <= length st)%nat ->
  if 0 <? bos then ms = []
  else exists items, mpls_run (skipn off st) items /\ Forall2 (fun it m => member_enc it = Ok m) items ms.
Proof.
  induction f as [|f IH]; intros st off bos ms H Ho; [discriminate|].
  cbn [mpls_members] in H.
  destruct (0 <? bos) eqn:Eb; cbn [orb] in H; [injection H as <-; reflexivity|].
  pose proof (skipn_length off st) as Hsl.
  destruct (zlen st <=? Z.of_nat off) eqn:E1.
  { injection H as <-. exists []. split; [|constructor]. apply mrun_short. unfold zlen in E1. lia. }
  rewrite zslice_from_ok in H by (unfold zlen in *; lia). cbn [bind] in H. rewrite Nat2Z.id in H.
  set (mb := skipn off st) in *.
  destruct (zlen mb <? 4) eqn:E2.
  { injection H as <-. exists []. split; [|constructor]. apply mrun_short. unfold zlen in E2. lia. }
  rewrite read_ok in H by lia. cbn [bind] in H. change (Z.to_nat 2) with 2%nat in H.
  destruct (member_enc mb) as [e| |] eqn:Ee; cbn [bind] in H; try discriminate.
  replace (Z.of_nat off + 4) with (Z.of_nat (off + 4)) in H by lia.
  destruct (mpls_members f st (Z.of_nat (off + 4)) (nth 2 mb 0 mod 2)) as [rest| |] eqn:Ec; cbn [bind] in H; try discriminate.
  injection H as <-. unfold zlen in *. apply IH in Ec; [|lia].
  assert (Hodd : (0 <? nth 2 mb 0 mod 2) = entry_bottom mb).
  { unfold entry_bottom. rewrite Zmod_odd. destruct (Z.odd (nth 2 mb 0)); reflexivity. }
  rewrite Hodd in Ec. destruct (entry_bottom mb) eqn:Ebot.
  - subst rest. exists [mb]. split; [apply mrun_bottom; [lia|exact Ebot]|]. constructor; [exact Ee|constructor].
  - destruct Ec as (items & Hr & Hf2). exists (mb :: items). split.
    + apply mrun_step; [lia|exact Ebot|].
      replace (skipn 4 mb) with (skipn (off + 4) st) by (unfold mb; rewrite skipn_skipn_add; reflexivity). exact Hr.
    + constructor; [exact Ee|exact Hf2].
Qed.

Lemma mpls_run_items rest items : mpls_run rest items -> bytes rest ->
  Forall (fun it => (4 <= length it)%nat /\ bytes it) items.
Proof.
  induction 1 as [rest Hs|rest H4 Hb|rest items H4 Hb _ IH]; intro Hby.
  - constructor.
  - constructor; [split; assumption|constructor].
  - constructor; [split; assumption|]. apply IH. apply bytes_skipn. exact Hby.
Qed.

Lemma members_agree items : Forall (fun it => (4 <= length it)%nat /\ bytes it) items ->
  forall ms, Forall2 (fun it m => member_enc it = Ok m) items ms ->
  exists ms', map_members (flat_map_new_view 4 items) = Ok ms' /\ ms = map enc_member ms'.
Proof.
  induction 1 as [|it t [H4 Hb] _ IH]; intros ms H2; inversion H2 as [|? m ? ms0 Hm Hrest]; subst.
  - exists []. split; reflexivity.
  - destruct (IH ms0 Hrest) as (ms' & Hmm & ->).
    destruct (member_agrees it H4 Hb) as (m' & Hm1 & Hm2). rewrite Hm2 in Hm. injection Hm as <-.
    exists (m' :: ms'). cbn [flat_map_new_view]. unfold ByteOps.new_view at 1.
    destruct (Nat.leb_spec 4 (length it)); [|lia]. cbn [map_members]. rewrite Hm1. cbn [bind]. rewrite Hmm. cbn [bind map].
    split; reflexivity.
Qed.

Lemma forall2_length {A B} (R : A -> B -> Prop) l1 l2 : Forall2 R l1 l2 -> length l1 = length l2.
Proof. induction 1 as [|x y t1 t2 _ _ IH]; [reflexivity|]. cbn [length]. rewrite IH. reflexivity. Qed.

Lemma stack_agrees st : bytes st ->
  exists ms', mpls_label_stack_from st = Ok ms' /\
              mpls_members (S (length st)) st 0 0 = Ok (map enc_member ms') /\ (4 * length ms' <= length st)%nat.
Proof.
  intro Hb.
  destruct (mpls_members_ok st (S (length st)) 0 0) as [ms Hms]; [lia|unfold zlen; lia|].
  pose proof (net_members_run (S (length st)) st 0 0 ms Hms ltac:(lia)) as Hr. change (0 <? 0) with false in Hr.
  cbn [skipn] in Hr. destruct Hr as (items & Hrun & Hf2).
  destruct (members_structure st) as (items' & Hm' & Hrun' & _).
  rewrite (mpls_run_deterministic _ _ Hrun' _ Hrun) in Hm'.
  destruct (members_agree items (mpls_run_items _ _ Hrun Hb) ms Hf2) as (ms' & Hmm & ->).
  exists ms'. unfold mpls_label_stack_from. rewrite Hm'. cbn [bind]. split; [exact Hmm|]. split; [exact Hms|].
  destruct (mpls_run_count _ _ Hrun) as (Hc & _ & _).
  assert (Hlen : length ms' = length items).
  { apply forall2_length in Hf2. rewrite map_length in Hf2. lia. }
  lia.
Qed.

(* ---- one object ---- *)
Lemma object_agrees ob : object_stops ob = false -> bytes ob ->
  object_enc ob = (let* e := extension_from_object ob in Ok (enc_ext e)).
Proof.
  intros Hs Hb.
  pose proof (bytes_nth ob 0 Hb) as Hb0. pose proof (bytes_nth ob 1 Hb) as Hb1.
  unfold object_stops in Hs.
  destruct (Nat.ltb_spec (length ob) 4) as [|H4]; [discriminate|].
  destruct (Nat.ltb_spec (declared_length ob) 4) as [|Hd4]; [discriminate|].
  destruct (Nat.ltb_spec (length ob) (declared_length ob)) as [|Hdl]; [discriminate|]. clear Hs.
  set (len := nth 0 ob 0 * 256 + nth 1 ob 0).
  assert (Hlen : len = Z.of_nat (declared_length ob)) by (unfold declared_length; fold len; lia).
  unfold object_enc. rewrite get_u16_ok by (unfold zlen; lia). cbn [bind].
  change (Z.to_nat 0) with 0%nat. change (Z.to_nat (0 + 1)) with 1%nat. fold len.
  rewrite !read_ok by (unfold zlen; lia). cbn [bind]. change (Z.to_nat 2) with 2%nat. change (Z.to_nat 3) with 3%nat.
  rewrite zslice_ok by (unfold zlen; lia). cbn [bind]. change (Z.to_nat 4) with 4%nat.
  unfold extension_from_object, unknown_extension_from, extension_object_get_class_num, extension_object_get_class_subtype.
  rewrite !buf_read_nth by lia. cbn [bind].
  unfold extension_object_payload. rewrite get_length_nth by lia. cbn [bind]. fold (declared_length ob).
  rewrite slice_ok by lia. cbn [bind].
  replace (Nat.min (Nat.max (declared_length ob) 4) (length ob) - 4)%nat with (declared_length ob - 4)%nat by lia.
  replace (Z.to_nat (len - 4)) with (declared_length ob - 4)%nat by lia.
  set (pl := firstn (declared_length ob - 4) (skipn 4 ob)).
  assert (Hplb : bytes pl) by (apply bytes_firstn, bytes_skipn, Hb).
  assert (Hlb : len <= 65535) by (unfold len; lia).
  assert (Hpll : Z.of_nat (length pl) <= 65531).
  { unfold pl. rewrite firstn_length. lia. }
  destruct (nth 2 ob 0 =? 1).
  - unfold RecvCommon.new_view, ByteOps.new_view, zlen.
    destruct (Nat.leb_spec 4 (length pl)); destruct (Z.leb_spec 4 (Z.of_nat (length pl))); try lia; [|reflexivity].
    cbn [bind]. destruct (stack_agrees pl Hplb) as (ms' & Hs1 & Hs2 & Hs3).
    rewrite Hs1, Hs2. cbn [bind enc_ext]. unfold zlen. rewrite map_length, flat_map_concat_map.
    replace ((Z.of_nat (length ms') / 256) mod 256) with (Z.of_nat (length ms') / 256) by lia. reflexivity.
  - cbn [bind enc_ext]. unfold zlen.
    replace ((Z.of_nat (length pl) / 256) mod 256) with (Z.of_nat (length pl) / 256) by lia. reflexivity.
Qed.

Lemma objects_agree items : Forall (fun it => object_stops it = false /\ bytes it) items ->
  objects_enc items = (let* es := collect_extensions (flat_map_new_view 4 items) in Ok (enc_exts es)).
Proof.
  induction 1 as [|it t [Hs Hb] _ IH]; [reflexivity|].
  cbn [objects_enc flat_map_new_view]. unfold ByteOps.new_view at 1.
  assert (H4 : (4 <= length it)%nat).
  { unfold object_stops in Hs. destruct (Nat.ltb_spec (length it) 4); [discriminate|lia]. }
  destruct (Nat.leb_spec 4 (length it)); [|lia]. cbn [collect_extensions].
  rewrite (object_agrees it Hs Hb), IH.
  destruct (extension_from_object it); cbn [bind]; try reflexivity.
  destruct (collect_extensions (flat_map_new_view 4 t)); cbn [bind]; reflexivity.
Qed.

(* ---- the whole conversion ---- *)
Lemma extensions_models_agree v : bytes v ->
  RecvCommon.extensions_try_from v = (let* es := IcmpExt.extensions_try_from v in Ok (enc_exts es)).
Proof.
  intro Hb.
  destruct (Nat.lt_ge_cases (length v) 4) as [Hs|H4].
  - rewrite try_from_truncated by exact Hs. unfold RecvCommon.extensions_try_from.
    destruct (new_view_cases 4 v) as [[_ Hc]|[-> _]]; [unfold zlen in Hc; lia|reflexivity].
  - destruct v as [|b0 [|b1 [|b2 [|b3 rest]]]]; cbn [length] in H4; try lia.
    pose proof Hb as Hb'. apply bytes_cons in Hb'. destruct Hb' as [Hb0 _].
    rewrite try_from_unfold, version_bits by exact Hb0.
    unfold RecvCommon.extensions_try_from.
    destruct (new_view_cases 4 (b0 :: b1 :: b2 :: b3 :: rest)) as [[-> _]|[_ Hc]];
      [|unfold zlen in Hc; cbn [length] in Hc; lia]. cbn [bind].
    rewrite zslice_ok by (unfold zlen; cbn [length]; lia). cbn [bind].
    change (Z.to_nat 0) with 0%nat. change (Z.to_nat (4 - 0)) with 4%nat. cbn [skipn firstn].
    unfold RecvCommon.new_view. change (4 <=? zlen [b0; b1; b2; b3]) with true. cbn [bind].
    unfold read, zindex. change (zlen [b0; b1; b2; b3]) with 4. cbn [Z.leb Z.ltb Z.compare andb bind Z.to_nat nth].
    unfold ICMP_EXTENSION_VERSION. destruct (negb (b0 / 16 =? 2)); [reflexivity|].
    set (buf := b0 :: b1 :: b2 :: b3 :: rest) in *.
    destruct (objects_spec buf (S (length buf)) 4) as [obs [Ho _]]; [lia|unfold zlen; lia|].
    rewrite Ho. cbn [bind].
    pose proof (net_objects_run (S (length buf)) buf 4 obs Ho ltac:(unfold buf; cbn [length]; lia)) as Hr.
    destruct (objects_run buf) as (items & Hi & Hr').
    rewrite (obj_run_deterministic _ _ Hr' _ Hr) in Hi. rewrite Hi. cbn [bind].
    apply objects_agree. eapply obj_run_items; [exact Hr|]. apply bytes_skipn. exact Hb.
Qed.

(* packet.extension().map(Extensions::try_from).transpose()? *)
Definition enc_opt_exts (o : option (list Extension)) : option exts :=
  match o with None => None | Some es => Some (enc_exts es) end.

Lemma ext_of_agrees e : match e with Some x => bytes x | None => True end ->
  ext_of e = (let* o := extension_map_try_from e in Ok (enc_opt_exts o)).
Proof.
  destruct e as [x|]; intro Hb; [|reflexivity]. cbn [ext_of extension_map_try_from].
  rewrite extensions_models_agree by exact Hb.
  destruct (IcmpExt.extensions_try_from x); reflexivity.
Qed.
