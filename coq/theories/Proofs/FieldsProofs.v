(* Proofs/FieldsProofs.v - every accessor of Packet/Fields.v equals the RFC bit slice of Base/Bits.v.
   Structure: (1) finite sweeps over bytes, (2) buffer operations and [splice], (3) the slice lemmas of
   Bits.v restated with literal offsets, (4) the accessor shapes shared by several packet types,
   (5) the byte-local facts about the code's masks and shifts (finite sweeps, at most 2^14 cases each),
   (6) the accessors that have their own mask / shift expression. *)
From TV Require Import Base.Result Base.Bytes Base.Bits Packet.Fields.
From Coq Require Import ZifyBool.
Ltac Zify.zify_post_hook ::= Z.div_mod_to_equations.

(* ---------------------------------------------------------------------------------------------- *)
(* (1) finite sweeps                                                                               *)

Definition byte (b : Z) : Prop := 0 <= b < 256.
Definition bytes256 : list Z := map Z.of_nat (seq 0 256).

Lemma in_bytes256 b : byte b -> In b bytes256.
Proof.
  intros H. unfold bytes256. rewrite <- (Z2Nat.id b) by (unfold byte in H; lia).
  apply in_map. apply in_seq. unfold byte in H. lia.
Qed.

Definition all1 (p : Z -> bool) : bool := forallb p bytes256.
Definition all2 (p : Z -> Z -> bool) : bool := forallb (fun a => forallb (p a) bytes256) bytes256.

Lemma sweep1_eq (f g : Z -> Z) : all1 (fun b => f b =? g b) = true -> forall b, byte b -> f b = g b.
Proof.
  unfold all1. intros H b Hb. rewrite forallb_forall in H.
  apply Z.eqb_eq. apply H. apply in_bytes256. assumption.
Qed.

Lemma sweep2_eq (f g : Z -> Z -> Z) : all2 (fun a b => f a b =? g a b) = true ->
  forall a b, byte a -> byte b -> f a b = g a b.
Proof.
  unfold all2. intros H a b Ha Hb. rewrite forallb_forall in H.
  specialize (H a (in_bytes256 a Ha)). rewrite forallb_forall in H.
  apply Z.eqb_eq. apply H. apply in_bytes256. assumption.
Qed.

Ltac sweep1 :=
  match goal with
  | |- forall b, byte b -> @?L b = @?R b => apply (sweep1_eq L R); vm_compute; reflexivity
  end.
Ltac sweep2 :=
  match goal with
  | |- forall a b, byte a -> byte b -> @?L a b = @?R a b => apply (sweep2_eq L R); vm_compute; reflexivity
  end.

Lemma byte_nth buf i : bytes buf -> byte (nth i buf 0).
Proof. apply bytes_nth. Qed.

(* ---------------------------------------------------------------------------------------------- *)
(* (2) buffer operations                                                                           *)

(* [splice k cs buf]: buf with the bytes k .. k+|cs|-1 replaced by cs *)
Definition splice (k : nat) (cs buf : list Z) : list Z := firstn k buf ++ cs ++ skipn (k + length cs) buf.

Lemma rd_ok i buf : (i < length buf)%nat -> rd i buf = Ok (nth i buf 0).
Proof. intros H. unfold rd, index. rewrite (nth_error_nth' buf 0 H). reflexivity. Qed.

Lemma wr_ok i x buf : (i < length buf)%nat -> wr i x buf = Ok (splice i [x] buf).
Proof.
  intros H. unfold wr, splice. rewrite (proj2 (Nat.ltb_lt _ _) H). cbn [length app].
  rewrite Nat.add_1_r. reflexivity.
Qed.

Lemma get_bytes_ok off n buf : (off + n <= length buf)%nat -> get_bytes off n buf = Ok (firstn n (skipn off buf)).
Proof.
  intros H. unfold get_bytes, slice.
  rewrite (proj2 (Nat.leb_le off (off + n))) by lia. rewrite (proj2 (Nat.leb_le _ _) H). cbn [andb].
  replace (off + n - off)%nat with n by lia. reflexivity.
Qed.

Lemma set_bytes_ok off bs buf : (off + length bs <= length buf)%nat -> set_bytes off bs buf = Ok (splice off bs buf).
Proof. intros H. unfold set_bytes, splice. rewrite (proj2 (Nat.leb_le _ _) H). reflexivity. Qed.

Lemma length_splice' k cs buf : (k + length cs <= length buf)%nat -> length (splice k cs buf) = length buf.
Proof. intros H. unfold splice. rewrite !app_length, firstn_length, skipn_length. lia. Qed.

Lemma bytes_splice k cs buf : bytes buf -> bytes cs -> bytes (splice k cs buf).
Proof.
  intros Hb Hc. unfold splice. apply bytes_app. split; [apply bytes_firstn; assumption|].
  apply bytes_app. split; [assumption|apply bytes_skipn; assumption].
Qed.

Lemma nth_splice_in k cs buf j : (k + length cs <= length buf)%nat -> (j < length cs)%nat ->
  nth (k + j) (splice k cs buf) 0 = nth j cs 0.
Proof.
  intros H Hj. unfold splice.
  assert (Lf : length (firstn k buf) = k) by (rewrite firstn_length; lia).
  rewrite app_nth2 by lia. rewrite Lf. replace (k + j - k)%nat with j by lia.
  apply app_nth1. assumption.
Qed.

Lemma nth_splice_out k cs buf j : (k + length cs <= length buf)%nat -> (j < k \/ k + length cs <= j)%nat ->
  nth j (splice k cs buf) 0 = nth j buf 0.
Proof.
  intros H Hj. unfold splice.
  assert (Lf : length (firstn k buf) = k) by (rewrite firstn_length; lia).
  destruct Hj as [Hj|Hj].
  - rewrite app_nth1 by lia. rewrite <- (firstn_skipn k buf) at 2. rewrite app_nth1 by lia. reflexivity.
  - rewrite app_nth2 by lia. rewrite app_nth2 by lia. rewrite Lf.
    rewrite <- (firstn_skipn (k + length cs) buf) at 2.
    rewrite app_nth2 by (rewrite firstn_length; lia). rewrite firstn_length. f_equal. lia.
Qed.

Lemma firstn_app_exact {A} (l1 l2 : list A) n : n = length l1 -> firstn n (l1 ++ l2) = l1.
Proof. intros ->. rewrite <- (Nat.add_0_r (length l1)). rewrite firstn_app_2. cbn [firstn]. apply app_nil_r. Qed.

Lemma skipn_app_exact {A} (l1 l2 : list A) n m : n = (length l1 + m)%nat -> skipn n (l1 ++ l2) = skipn m l2.
Proof. intros ->. apply skipn_app_ge. Qed.

(* two adjacent writes are one write *)
Lemma splice_adj k cs ds buf : (k + length cs + length ds <= length buf)%nat ->
  splice (k + length cs) ds (splice k cs buf) = splice k (cs ++ ds) buf.
Proof.
  intros H. unfold splice.
  assert (Lf : length (firstn k buf) = k) by (rewrite firstn_length; lia).
  set (F := firstn k buf) in *. set (R := skipn (k + length cs) buf).
  rewrite (app_assoc F cs R).
  rewrite (firstn_app_exact (F ++ cs) R) by (rewrite app_length; lia).
  rewrite (skipn_app_exact (F ++ cs) R _ (length ds)) by (rewrite app_length; lia).
  unfold R. rewrite skipn_skipn'. rewrite app_length, Nat.add_assoc, <- !app_assoc. reflexivity.
Qed.

(* a second write over the same bytes wins *)
Lemma splice_same k cs ds buf : length cs = length ds -> (k + length cs <= length buf)%nat ->
  splice k ds (splice k cs buf) = splice k ds buf.
Proof.
  intros Hl H. unfold splice.
  assert (Lf : length (firstn k buf) = k) by (rewrite firstn_length; lia).
  set (F := firstn k buf) in *. set (R := skipn (k + length cs) buf).
  rewrite (firstn_app_exact F (cs ++ R)) by lia.
  rewrite (app_assoc F cs R).
  rewrite (skipn_app_exact (F ++ cs) R _ 0) by (rewrite app_length; lia).
  cbn [skipn]. unfold R. rewrite Hl. reflexivity.
Qed.

Lemma skipn_cons_nth k (buf : list Z) : (k < length buf)%nat -> skipn k buf = nth k buf 0 :: skipn (S k) buf.
Proof.
  revert buf. induction k as [|k IH]; intros buf H.
  - destruct buf; [cbn in H; lia|reflexivity].
  - destruct buf; [cbn in H; lia|]. cbn [skipn nth]. apply IH. cbn in H. lia.
Qed.

Lemma firstn_skipn_seq k n (buf : list Z) : (k + n <= length buf)%nat ->
  firstn n (skipn k buf) = map (fun i => nth i buf 0) (seq k n).
Proof.
  revert k. induction n as [|n IH]; intros k H; [reflexivity|].
  rewrite skipn_cons_nth by lia. cbn [firstn seq map]. f_equal. apply IH. lia.
Qed.

(* ---------------------------------------------------------------------------------------------- *)
(* (3) the slice lemmas with literal offsets                                                       *)

Lemma rfc_get_at k n o w off buf : off = (8 * k + o)%nat -> bytes buf -> (k + n <= length buf)%nat ->
  (o + w <= 8 * n)%nat ->
  rfc_get off w buf =
  (be_val (map (fun i => nth i buf 0) (seq k n)) / 2 ^ Z.of_nat (8 * n - o - w)) mod 2 ^ Z.of_nat w.
Proof.
  intros -> Hb Hk Ho. rewrite (rfc_get_field k n o w buf Hb Hk Ho). cbv zeta.
  rewrite firstn_skipn_seq by assumption. reflexivity.
Qed.

Lemma rfc_set_at k n o w off v buf : off = (8 * k + o)%nat -> bytes buf -> (k + n <= length buf)%nat ->
  (o + w <= 8 * n)%nat ->
  rfc_set off w v buf =
  splice k (be_bytes n
    (let x := be_val (map (fun i => nth i buf 0) (seq k n)) in
     let s := 2 ^ Z.of_nat (8 * n - o - w) in
     x - ((x / s) mod 2 ^ Z.of_nat w) * s + (v mod 2 ^ Z.of_nat w) * s)) buf.
Proof.
  intros -> Hb Hk Ho. rewrite (rfc_set_field k n o w v buf Hb Hk Ho). cbv zeta.
  rewrite firstn_skipn_seq by assumption. unfold splice. rewrite length_be_bytes. reflexivity.
Qed.

(* a slice inside one byte *)
Definition sub_get (o w : nat) (b : Z) : Z := (b / 2 ^ Z.of_nat (8 - o - w)) mod 2 ^ Z.of_nat w.
Definition sub_set (o w : nat) (v b : Z) : Z :=
  (b - ((b / 2 ^ Z.of_nat (8 - o - w)) mod 2 ^ Z.of_nat w) * 2 ^ Z.of_nat (8 - o - w)
     + (v mod 2 ^ Z.of_nat w) * 2 ^ Z.of_nat (8 - o - w)) mod 256.

Lemma rfc_get_byte k o w off buf : off = (8 * k + o)%nat -> bytes buf -> (k < length buf)%nat -> (o + w <= 8)%nat ->
  rfc_get off w buf = sub_get o w (nth k buf 0).
Proof.
  intros E Hb Hk Ho. rewrite (rfc_get_at k 1 o w off buf E Hb) by lia.
  cbn [seq map be_val length]. change (2 ^ Z.of_nat (8 * 0)) with 1.
  rewrite Z.mul_1_r, Z.add_0_r. reflexivity.
Qed.

Lemma rfc_set_byte k o w off v buf : off = (8 * k + o)%nat -> bytes buf -> (k < length buf)%nat -> (o + w <= 8)%nat ->
  rfc_set off w v buf = splice k [sub_set o w v (nth k buf 0)] buf.
Proof.
  intros E Hb Hk Ho. rewrite (rfc_set_at k 1 o w off v buf E Hb) by lia. cbv zeta.
  cbn [seq map be_val length be_bytes app]. change (2 ^ Z.of_nat (8 * 0)) with 1.
  rewrite Z.mul_1_r, Z.add_0_r. reflexivity.
Qed.

(* a slice made of whole bytes *)
Lemma rfc_get_aligned k n off w buf : off = (8 * k)%nat -> w = (8 * n)%nat -> bytes buf -> (k + n <= length buf)%nat ->
  rfc_get off w buf = be_val (firstn n (skipn k buf)).
Proof.
  intros -> -> Hb Hk. rewrite <- (Nat.add_0_r (8 * k)).
  rewrite (rfc_get_field k n 0 (8 * n) buf Hb Hk) by lia. cbv zeta.
  set (m := firstn n (skipn k buf)).
  assert (Lm : length m = n) by (unfold m; rewrite firstn_length, skipn_length; lia).
  assert (Bm : bytes m) by (unfold m; apply bytes_firstn, bytes_skipn; assumption).
  pose proof (be_val_range m Bm) as R. rewrite Lm in R.
  replace (8 * n - 0 - 8 * n)%nat with O by lia. change (2 ^ Z.of_nat 0) with 1.
  rewrite Z.div_1_r. apply Z.mod_small. assumption.
Qed.

Lemma rfc_set_aligned k n off w v buf : off = (8 * k)%nat -> w = (8 * n)%nat -> bytes buf -> (k + n <= length buf)%nat ->
  rfc_set off w v buf = splice k (be_bytes n v) buf.
Proof.
  intros -> -> Hb Hk. rewrite <- (Nat.add_0_r (8 * k)).
  rewrite (rfc_set_field k n 0 (8 * n) v buf Hb Hk) by lia. cbv zeta.
  set (m := firstn n (skipn k buf)).
  assert (Lm : length m = n) by (unfold m; rewrite firstn_length, skipn_length; lia).
  assert (Bm : bytes m) by (unfold m; apply bytes_firstn, bytes_skipn; assumption).
  pose proof (be_val_range m Bm) as R. rewrite Lm in R.
  replace (8 * n - 0 - 8 * n)%nat with O by lia. change (2 ^ Z.of_nat 0) with 1.
  rewrite Z.div_1_r, (Z.mod_small (be_val m)) by assumption. rewrite !Z.mul_1_r.
  replace (be_val m - be_val m + v mod 2 ^ Z.of_nat (8 * n)) with (v mod 2 ^ Z.of_nat (8 * n)) by lia.
  rewrite be_bytes_mod. unfold splice. rewrite length_be_bytes. reflexivity.
Qed.

Lemma splice1_eq k x y buf : x = y -> splice k [x] buf = splice k [y] buf.
Proof. intros ->. reflexivity. Qed.

Lemma nth_splice1_same k x buf : (k < length buf)%nat -> nth k (splice k [x] buf) 0 = x.
Proof.
  intros H. rewrite <- (Nat.add_0_r k) at 1. rewrite nth_splice_in; [reflexivity|cbn [length]; lia|cbn [length]; lia].
Qed.

Lemma nth_splice1_other k j x buf : (k < length buf)%nat -> j <> k -> nth j (splice k [x] buf) 0 = nth j buf 0.
Proof. intros H Hj. apply nth_splice_out; cbn [length]; lia. Qed.

Lemma length_splice1 k x buf : (k < length buf)%nat -> length (splice k [x] buf) = length buf.
Proof. intros H. apply length_splice'. cbn [length]. lia. Qed.

Lemma splice1_adj k x ds buf : (k + 1 + length ds <= length buf)%nat ->
  splice (S k) ds (splice k [x] buf) = splice k (x :: ds) buf.
Proof. intros H. rewrite <- (Nat.add_1_r k). apply (splice_adj k [x] ds buf). cbn [length]. lia. Qed.

Lemma pkt_new_ok min buf : (pkt_new min buf = Ok buf <-> (min <= length buf)%nat) /\
                           (pkt_new min buf = Err EPacket <-> (length buf < min)%nat).
Proof.
  unfold pkt_new. destruct (min <=? length buf)%nat eqn:E.
  - apply Nat.leb_le in E. split; split; intros; try reflexivity; try assumption; try discriminate; lia.
  - apply Nat.leb_gt in E. split; split; intros; try reflexivity; try assumption; try discriminate; lia.
Qed.

(* ---------------------------------------------------------------------------------------------- *)
(* (4) the accessor shapes shared by several packet types                                          *)

Lemma uint_field_intro lim min off w get set :
  (off + w <= 8 * min)%nat -> 2 ^ Z.of_nat w <= lim ->
  (forall buf, bytes buf -> (min <= length buf)%nat -> get buf = Ok (rfc_get off w buf)) ->
  (forall buf v, bytes buf -> (min <= length buf)%nat -> 0 <= v < lim -> set v buf = Ok (rfc_set off w v buf)) ->
  uint_field_ok lim min off w get set.
Proof.
  intros Hin Hl Hg Hs. split; [assumption|]. intros buf Hb Hm. split.
  - split; [apply Hg; assumption|]. split; [|reflexivity].
    pose proof (rfc_get_range off w buf). lia.
  - intros v Hv. apply Hs; assumption.
Qed.

(* a field inside one byte, given the byte-local behaviour of its getter (gf) and setter (sf) *)
Lemma byte_field_ok k o w min off (gf : Z -> Z) (sf : Z -> Z -> Z) get set :
  off = (8 * k + o)%nat -> (k < min)%nat -> (o + w <= 8)%nat ->
  (forall b, byte b -> gf b = sub_get o w b) ->
  (forall b v, byte b -> byte v -> sf b v = sub_set o w v b) ->
  (forall buf, (k < length buf)%nat -> get buf = Ok (gf (nth k buf 0))) ->
  (forall v buf, (k < length buf)%nat -> set v buf = Ok (splice k [sf (nth k buf 0) v] buf)) ->
  uint_field_ok 256 min off w get set.
Proof.
  intros E Hk Ho Hgf Hsf Hg Hs. apply uint_field_intro.
  - lia.
  - assert (2 ^ Z.of_nat w <= 2 ^ Z.of_nat 8) by (apply Z.pow_le_mono_r; lia).
    change (2 ^ Z.of_nat 8) with 256 in *. assumption.
  - intros buf Hb Hm. rewrite Hg by lia. f_equal.
    rewrite (rfc_get_byte k o w off buf E Hb) by lia. apply Hgf. apply byte_nth. assumption.
  - intros buf v Hb Hm Hv. rewrite Hs by lia. f_equal.
    rewrite (rfc_set_byte k o w off v buf E Hb) by lia. apply splice1_eq. apply Hsf; [apply byte_nth|]; assumption.
Qed.

Lemma sub_get_whole b : byte b -> b = sub_get 0 8 b.
Proof.
  unfold byte, sub_get. change (2 ^ Z.of_nat (8 - 0 - 8)) with 1. change (2 ^ Z.of_nat 8) with 256. lia.
Qed.

Lemma sub_set_whole b v : byte b -> byte v -> v = sub_set 0 8 v b.
Proof.
  unfold byte, sub_set. change (2 ^ Z.of_nat (8 - 0 - 8)) with 1. change (2 ^ Z.of_nat 8) with 256. lia.
Qed.

Lemma u8_at_ok k min off : off = (8 * k)%nat -> (k < min)%nat ->
  uint_field_ok 256 min off 8 (get_u8_at k) (set_u8_at k).
Proof.
  intros E Hk. apply (byte_field_ok k 0 8 min off (fun b => b) (fun b v => v)); try lia.
  - intros b Hb. apply sub_get_whole. assumption.
  - intros b v Hb Hv. apply sub_set_whole; assumption.
  - intros buf H. unfold get_u8_at. apply rd_ok. assumption.
  - intros v buf H. unfold set_u8_at. apply wr_ok. assumption.
Qed.

Lemma u16_at_ok k min off : off = (8 * k)%nat -> (k + 2 <= min)%nat ->
  uint_field_ok 65536 min off 16 (get_u16_at k) (set_u16_at k).
Proof.
  intros E Hk. apply uint_field_intro.
  - lia.
  - change (2 ^ Z.of_nat 16) with 65536. lia.
  - intros buf Hb Hm. unfold get_u16_at. rewrite get_bytes_ok by lia. cbn [bind]. f_equal.
    symmetry. apply (rfc_get_aligned k 2); [assumption|reflexivity|assumption|lia].
  - intros buf v Hb Hm Hv. unfold set_u16_at. rewrite set_bytes_ok by (rewrite length_be_bytes; lia). f_equal.
    symmetry. apply (rfc_set_aligned k 2); [assumption|reflexivity|assumption|lia].
Qed.

Lemma u32_at_ok k min off : off = (8 * k)%nat -> (k + 4 <= min)%nat ->
  uint_field_ok 4294967296 min off 32 (get_u32_at k) (set_u32_at k).
Proof.
  intros E Hk. apply uint_field_intro.
  - lia.
  - change (2 ^ Z.of_nat 32) with 4294967296. lia.
  - intros buf Hb Hm. unfold get_u32_at. rewrite get_bytes_ok by lia. cbn [bind]. f_equal.
    symmetry. apply (rfc_get_aligned k 4); [assumption|reflexivity|assumption|lia].
  - intros buf v Hb Hm Hv. unfold set_u32_at. rewrite set_bytes_ok by (rewrite length_be_bytes; lia). f_equal.
    symmetry. apply (rfc_set_aligned k 4); [assumption|reflexivity|assumption|lia].
Qed.

Lemma addr_at_ok k n min off w : off = (8 * k)%nat -> w = (8 * n)%nat -> (k + n <= min)%nat ->
  addr_field_ok n min off w (get_addr_at k n) (set_addr_at k).
Proof.
  intros E Ew Hk. split; [lia|]. intros buf Hb Hm.
  assert (Hg : rfc_get off w buf = be_val (firstn n (skipn k buf)))
    by (apply (rfc_get_aligned k n); [assumption|assumption|assumption|lia]).
  set (m := firstn n (skipn k buf)) in *.
  assert (Lm : length m = n) by (unfold m; rewrite firstn_length, skipn_length; lia).
  assert (Bm : bytes m) by (unfold m; apply bytes_firstn, bytes_skipn; assumption).
  split; [split; [|split]|].
  - unfold get_addr_at. rewrite get_bytes_ok by lia. f_equal. fold m.
    rewrite Hg. rewrite <- Lm at 1. symmetry. apply be_bytes_be_val. assumption.
  - split; [apply bytes_be_bytes|apply length_be_bytes].
  - rewrite be_val_be_bytes. rewrite <- Ew. apply Z.mod_small. apply rfc_get_range.
  - intros o [Bo Lo]. unfold set_addr_at. rewrite set_bytes_ok by lia. f_equal.
    rewrite (rfc_set_aligned k n off w (be_val o) buf E Ew Hb) by lia.
    rewrite <- Lo. rewrite be_bytes_be_val by assumption. reflexivity.
Qed.

(* an enum-typed one-byte field: get = From<u8>(read(k)), set = write(k) = id() *)
Lemma enum_at_ok {A : Type} (id : A -> Z) (from : Z -> A) k min off
    (get : list Z -> result A) (set : A -> list Z -> result (list Z)) :
  off = (8 * k)%nat -> (k < min)%nat ->
  (forall b, byte b -> id (from b) = b) ->
  (forall buf, get buf = let* b := rd k buf in Ok (from b)) ->
  (forall a buf, set a buf = wr k (id a) buf) ->
  field_ok min off 8 (fun a => 0 <= id a < 256) id from get set.
Proof.
  intros E Hk Hid Hg Hs. split; [lia|]. intros buf Hb Hm.
  assert (Hr : rfc_get off 8 buf = nth k buf 0).
  { rewrite (rfc_get_byte k 0 8 off buf) by (lia || assumption).
    symmetry. apply sub_get_whole. apply byte_nth. assumption. }
  pose proof (byte_nth buf k Hb) as Bn.
  split; [split; [|split]|].
  - rewrite Hg, rd_ok by lia. cbn [bind]. rewrite Hr. reflexivity.
  - rewrite Hr, Hid by assumption. exact Bn.
  - rewrite Hr. apply Hid. assumption.
  - intros a Ha. rewrite Hs, wr_ok by lia. f_equal.
    rewrite (rfc_set_byte k 0 8 off (id a) buf) by (lia || assumption).
    apply splice1_eq. apply sub_set_whole; assumption.
Qed.

Lemma ip_protocol_id_from b : byte b -> ip_protocol_id (ip_protocol_from b) = b.
Proof. intros _. unfold ip_protocol_from. repeat match goal with |- context [if ?x =? ?y then _ else _] => destruct (x =? y) eqn:?; [cbn; lia|] end. reflexivity. Qed.
Lemma icmp4_type_id_from b : byte b -> icmp4_type_id (icmp4_type_from b) = b.
Proof. intros _. unfold icmp4_type_from. repeat match goal with |- context [if ?x =? ?y then _ else _] => destruct (x =? y) eqn:?; [cbn; lia|] end. reflexivity. Qed.
Lemma icmp6_type_id_from b : byte b -> icmp6_type_id (icmp6_type_from b) = b.
Proof. intros _. unfold icmp6_type_from. repeat match goal with |- context [if ?x =? ?y then _ else _] => destruct (x =? y) eqn:?; [cbn; lia|] end. reflexivity. Qed.
Lemma class_num_id_from b : byte b -> class_num_id (class_num_from b) = b.
Proof. intros _. unfold class_num_from. repeat match goal with |- context [if ?x =? ?y then _ else _] => destruct (x =? y) eqn:?; [cbn; lia|] end. reflexivity. Qed.

(* ---------------------------------------------------------------------------------------------- *)
(* (5) byte-local facts about the code's masks and shifts.
   Every setter has the shape  (read & KEEP) | PART(val) ; the facts are assembled from
     - one-variable sweeps (2^8 cases): KEEP side, PART side, getters;
     - one two-variable sweep per slice position (o, w) used inside a byte (2^8 * 2^w cases):
       the kept bits of a byte and a w-bit value shifted into place do not overlap, so `|` adds.      *)

Ltac pows :=
  repeat match goal with
  | |- context [2 ^ Z.of_nat ?n] =>
      let x := eval vm_compute in (2 ^ Z.of_nat n) in change (2 ^ Z.of_nat n) with x
  end.

Definition all2n (n : nat) (p : Z -> Z -> bool) : bool :=
  forallb (fun a => forallb (p a) (map Z.of_nat (seq 0 n))) bytes256.

Lemma sweep2n_eq n (f g : Z -> Z -> Z) : all2n n (fun a u => f a u =? g a u) = true ->
  forall a u, byte a -> 0 <= u < Z.of_nat n -> f a u = g a u.
Proof.
  unfold all2n. intros H a u Ha Hu. rewrite forallb_forall in H.
  specialize (H a (in_bytes256 a Ha)). rewrite forallb_forall in H.
  apply Z.eqb_eq. apply H. rewrite <- (Z2Nat.id u) by lia. apply in_map. apply in_seq. lia.
Qed.

(* the byte with the slice (o, w) cleared / a w-bit value moved to the slice (o, w) of a byte *)
Definition keep (o w : nat) (b : Z) : Z :=
  b - ((b / 2 ^ Z.of_nat (8 - o - w)) mod 2 ^ Z.of_nat w) * 2 ^ Z.of_nat (8 - o - w).
Definition put (o w : nat) (u : Z) : Z := u * 2 ^ Z.of_nat (8 - o - w).

Ltac sweep2n n :=
  match goal with
  | |- forall a u, byte a -> 0 <= u < _ -> @?L a u = @?R a u => apply (sweep2n_eq n L R); vm_compute; reflexivity
  end.

Lemma lor_kp_04 : forall b u, byte b -> 0 <= u < 16 -> Z.lor (keep 0 4 b) (put 0 4 u) = (keep 0 4 b + put 0 4 u) mod 256.
Proof. sweep2n 16%nat. Qed.
Lemma lor_kp_44 : forall b u, byte b -> 0 <= u < 16 -> Z.lor (keep 4 4 b) (put 4 4 u) = (keep 4 4 b + put 4 4 u) mod 256.
Proof. sweep2n 16%nat. Qed.
Lemma lor_kp_06 : forall b u, byte b -> 0 <= u < 64 -> Z.lor (keep 0 6 b) (put 0 6 u) = (keep 0 6 b + put 0 6 u) mod 256.
Proof. sweep2n 64%nat. Qed.
Lemma lor_kp_62 : forall b u, byte b -> 0 <= u < 4 -> Z.lor (keep 6 2 b) (put 6 2 u) = (keep 6 2 b + put 6 2 u) mod 256.
Proof. sweep2n 4%nat. Qed.
Lemma lor_kp_43 : forall b u, byte b -> 0 <= u < 8 -> Z.lor (keep 4 3 b) (put 4 3 u) = (keep 4 3 b + put 4 3 u) mod 256.
Proof. sweep2n 8%nat. Qed.
Lemma lor_kp_71 : forall b u, byte b -> 0 <= u < 2 -> Z.lor (keep 7 1 b) (put 7 1 u) = (keep 7 1 b + put 7 1 u) mod 256.
Proof. sweep2n 2%nat. Qed.

(* KEEP side of the setters: read & mask clears exactly the slice *)
Lemma k04 : forall b, byte b -> Z.land b 0xf = keep 0 4 b.   Proof. sweep1. Qed.
Lemma k44 : forall b, byte b -> Z.land b 0xf0 = keep 4 4 b.  Proof. sweep1. Qed.
Lemma k06 : forall b, byte b -> Z.land b 0x3 = keep 0 6 b.   Proof. sweep1. Qed.
Lemma k62 : forall b, byte b -> Z.land b 0xfc = keep 6 2 b.  Proof. sweep1. Qed.
Lemma k43 : forall b, byte b -> Z.land b 0xf1 = keep 4 3 b.  Proof. sweep1. Qed.
Lemma k71 : forall b, byte b -> Z.land b 0xfe = keep 7 1 b.  Proof. sweep1. Qed.
(* PART side: the argument is truncated to w bits and moved into place *)
Lemma p04 : forall v, byte v -> shl8 (Z.land v 0xf) 4 = put 0 4 (v mod 2 ^ Z.of_nat 4).         Proof. sweep1. Qed.
Lemma p44 : forall v, byte v -> Z.land v 0xf = put 4 4 (v mod 2 ^ Z.of_nat 4).                  Proof. sweep1. Qed.
Lemma p06 : forall v, byte v -> shl8 (Z.land v 0x3f) 2 = put 0 6 (v mod 2 ^ Z.of_nat 6).        Proof. sweep1. Qed.
Lemma p62 : forall v, byte v -> Z.land v 0x3 = put 6 2 (v mod 2 ^ Z.of_nat 2).                  Proof. sweep1. Qed.
Lemma p43_reserved : forall v, byte v -> shl8 (Z.land v 0x7) 1 = put 4 3 (v mod 2 ^ Z.of_nat 3). Proof. sweep1. Qed.
Lemma p43_exp : forall v, byte v -> Z.land (shl8 v 1) 0x0e = put 4 3 (v mod 2 ^ Z.of_nat 3).    Proof. sweep1. Qed.
Lemma p71 : forall v, byte v -> Z.land v 0x01 = put 7 1 (v mod 2 ^ Z.of_nat 1).                 Proof. sweep1. Qed.

Lemma set_fact o w (kf pf : Z -> Z) :
  (forall b, byte b -> kf b = keep o w b) ->
  (forall v, byte v -> pf v = put o w (v mod 2 ^ Z.of_nat w)) ->
  (forall b u, byte b -> 0 <= u < 2 ^ Z.of_nat w -> Z.lor (keep o w b) (put o w u) = (keep o w b + put o w u) mod 256) ->
  forall b v, byte b -> byte v -> Z.lor (kf b) (pf v) = sub_set o w v b.
Proof.
  intros Hk Hp Hl b v Hb Hv. rewrite Hk, Hp by assumption.
  rewrite Hl; [reflexivity|assumption|]. apply Z.mod_pos_bound. apply pow2_pos.
Qed.

(* (b & 0xf0) >> 4  and  (b & 0xf) | ((v & 0xf) << 4) : bits 0..3 of the byte *)
Lemma bf_hi_nibble_get : forall b, byte b -> Z.shiftr (Z.land b 0xf0) 4 = sub_get 0 4 b.
Proof. sweep1. Qed.
Lemma bf_hi_nibble_set : forall b v, byte b -> byte v ->
  Z.lor (Z.land b 0xf) (shl8 (Z.land v 0xf) 4) = sub_set 0 4 v b.
Proof. exact (set_fact 0 4 (fun b => Z.land b 0xf) (fun v => shl8 (Z.land v 0xf) 4) k04 p04 lor_kp_04). Qed.
(* b & 0xf  and  (b & 0xf0) | (v & 0xf) : bits 4..7 *)
Lemma bf_lo_nibble_get : forall b, byte b -> Z.land b 0xf = sub_get 4 4 b.
Proof. sweep1. Qed.
Lemma bf_lo_nibble_set : forall b v, byte b -> byte v -> Z.lor (Z.land b 0xf0) (Z.land v 0xf) = sub_set 4 4 v b.
Proof. exact (set_fact 4 4 (fun b => Z.land b 0xf0) (fun v => Z.land v 0xf) k44 p44 lor_kp_44). Qed.
(* dscp: bits 0..5 *)
Lemma bf_dscp_get : forall b, byte b -> Z.shiftr (Z.land b 0xfc) 2 = sub_get 0 6 b.
Proof. sweep1. Qed.
Lemma bf_dscp_set : forall b v, byte b -> byte v -> Z.lor (Z.land b 0x3) (shl8 (Z.land v 0x3f) 2) = sub_set 0 6 v b.
Proof. exact (set_fact 0 6 (fun b => Z.land b 0x3) (fun v => shl8 (Z.land v 0x3f) 2) k06 p06 lor_kp_06). Qed.
(* ecn: bits 6..7 *)
Lemma bf_ecn_get : forall b, byte b -> Z.land b 0x3 = sub_get 6 2 b.
Proof. sweep1. Qed.
Lemma bf_ecn_set : forall b v, byte b -> byte v -> Z.lor (Z.land b 0xfc) (Z.land v 0x3) = sub_set 6 2 v b.
Proof. exact (set_fact 6 2 (fun b => Z.land b 0xfc) (fun v => Z.land v 0x3) k62 p62 lor_kp_62). Qed.
(* tcp reserved / mpls exp: bits 4..6 *)
Lemma bf_bits456_get : forall b, byte b -> Z.shiftr (Z.land b 0xe) 1 = sub_get 4 3 b.
Proof. sweep1. Qed.
Lemma bf_reserved_set : forall b v, byte b -> byte v -> Z.lor (Z.land b 0xf1) (shl8 (Z.land v 0x7) 1) = sub_set 4 3 v b.
Proof. exact (set_fact 4 3 (fun b => Z.land b 0xf1) (fun v => shl8 (Z.land v 0x7) 1) k43 p43_reserved lor_kp_43). Qed.
Lemma bf_exp_set : forall b v, byte b -> byte v -> Z.lor (Z.land b 0xf1) (Z.land (shl8 v 1) 0x0e) = sub_set 4 3 v b.
Proof. exact (set_fact 4 3 (fun b => Z.land b 0xf1) (fun v => Z.land (shl8 v 1) 0x0e) k43 p43_exp lor_kp_43). Qed.
(* mpls bos: bit 7 *)
Lemma bf_bit7_get : forall b, byte b -> Z.land b 0x01 = sub_get 7 1 b.
Proof. sweep1. Qed.
Lemma bf_bit7_set : forall b v, byte b -> byte v -> Z.lor (Z.land b 0xfe) (Z.land v 0x01) = sub_set 7 1 v b.
Proof. exact (set_fact 7 1 (fun b => Z.land b 0xfe) (fun v => Z.land v 0x01) k71 p71 lor_kp_71). Qed.

Lemma byte_sub_set o w v b : byte (sub_set o w v b).
Proof. unfold byte, sub_set. apply Z.mod_pos_bound. lia. Qed.

(* tos = (dscp << 2) | ecn ; set_tos = set_dscp((v & 0xfc) >> 2) then set_ecn(v & 3) *)
Lemma bf_tos_get : forall b, byte b ->
  Z.lor (shl8 (Z.shiftr (Z.land b 0xfc) 2) 2) (Z.land b 0x3) = sub_get 0 8 b.
Proof. sweep1. Qed.
Lemma tos_dscp_arg : forall v, byte v -> Z.shiftr (Z.land v 0xfc) 2 = v / 4.
Proof. sweep1. Qed.
Lemma tos_ecn_arg : forall v, byte v -> Z.land v 0x3 = v mod 4.
Proof. sweep1. Qed.
Lemma bf_tos_set : forall b v, byte b -> byte v ->
  Z.lor (Z.land (Z.lor (Z.land b 0x3) (shl8 (Z.land (Z.shiftr (Z.land v 0xfc) 2) 0x3f) 2)) 0xfc)
        (Z.land (Z.land v 0x3) 0x3) = sub_set 0 8 v b.
Proof.
  intros b v Hb Hv. rewrite (tos_dscp_arg v Hv), (tos_ecn_arg v Hv).
  assert (B1 : byte (v / 4)) by (unfold byte in *; lia).
  assert (B2 : byte (v mod 4)) by (unfold byte in *; lia).
  rewrite (bf_dscp_set b (v / 4) Hb B1).
  rewrite (bf_ecn_set (sub_set 0 6 (v / 4) b) (v mod 4) (byte_sub_set _ _ _ _) B2).
  unfold sub_set, byte in *. pows. lia.
Qed.

(* pieces of the fields that straddle a byte boundary, turned into div / mod *)
Lemma shr_hi_nibble : forall b, byte b -> Z.shiftr (Z.land b 0xf0) 4 = b / 16.
Proof. sweep1. Qed.
Lemma bf_tc_get : forall a b, byte a -> byte b ->
  Z.lor (shl8 (Z.land a 0xf) 4) (Z.shiftr (Z.land b 0xf0) 4) = ((a * 256 + b) / 16) mod 256.
Proof.
  intros a b Ha Hb. rewrite (p04 a Ha), (shr_hi_nibble b Hb), Z.lor_comm.
  assert (Hy : b / 16 = keep 0 4 (b / 16)) by (unfold keep, byte in *; pows; lia).
  rewrite Hy. rewrite lor_kp_04; [|unfold byte in *; lia|pows; unfold byte in *; lia].
  unfold keep, put, byte in *. pows. lia.
Qed.
Lemma bf_tc_set0 : forall a v, byte a -> byte v ->
  Z.lor (Z.land a 0xf0) (Z.shiftr (Z.land v 0xf0) 4) = a / 16 * 16 + v / 16.
Proof.
  intros a v Ha Hv. rewrite (k44 a Ha), (shr_hi_nibble v Hv).
  assert (Hy : v / 16 = put 4 4 (v / 16)) by (unfold put; pows; lia).
  rewrite Hy. rewrite lor_kp_44; [|assumption|unfold byte in *; lia].
  unfold keep, put, byte in *. pows. lia.
Qed.
Lemma bf_tc_set1 : forall b v, byte b -> byte v ->
  Z.lor (Z.land b 0xf) (shl8 (Z.land v 0xf) 4) = b mod 16 + v mod 16 * 16.
Proof. intros b v Hb Hv. rewrite (bf_hi_nibble_set b v Hb Hv). unfold sub_set, byte in *. pows. lia. Qed.
Lemma bf_land_0f : forall b, byte b -> Z.land b 0xf = b mod 16.
Proof. sweep1. Qed.
Lemma bf_land_01 : forall b, byte b -> Z.land b 0x1 = b mod 2.
Proof. sweep1. Qed.
Lemma bf_fl_set : forall b h, byte b -> byte h -> Z.lor (Z.land b 0xf0) (h mod 16) = b / 16 * 16 + h mod 16.
Proof.
  intros b h Hb Hh. rewrite (k44 b Hb).
  assert (Hy : h mod 16 = put 4 4 (h mod 16)) by (unfold put; pows; lia).
  rewrite Hy. rewrite lor_kp_44; [|assumption|lia].
  unfold keep, put, byte in *. pows. lia.
Qed.
Lemma bf_flags_set : forall a h, byte a -> byte h -> Z.lor (Z.land a 0xfe) (Z.land h 0x1) = a / 2 * 2 + h mod 2.
Proof.
  intros a h Ha Hh. rewrite (k71 a Ha), (bf_land_01 h Hh).
  assert (Hy : h mod 2 = put 7 1 (h mod 2)) by (unfold put; pows; lia).
  rewrite Hy. rewrite lor_kp_71; [|assumption|lia].
  unfold keep, put, byte in *. pows. lia.
Qed.
Lemma land_f0 : forall l, byte l -> Z.land l 0xf0 = l / 16 * 16.
Proof. sweep1. Qed.
Lemma bf_label_set : forall c l, byte c -> byte l -> Z.lor (Z.land c 0x0f) (Z.land l 0xf0) = c mod 16 + l / 16 * 16.
Proof.
  intros c l Hc Hl. rewrite (k04 c Hc), (land_f0 l Hl).
  assert (Hy : l / 16 * 16 = put 0 4 (l / 16)) by (unfold put; pows; lia).
  rewrite Hy. rewrite lor_kp_04; [|assumption|unfold byte in *; lia].
  unfold keep, put, byte in *. pows. lia.
Qed.

(* ---------------------------------------------------------------------------------------------- *)
(* (6) accessors with their own mask / shift expressions                                           *)

Lemma splice2_eq k x y x' y' buf : x = x' -> y = y' -> splice k [x; y] buf = splice k [x'; y'] buf.
Proof. intros -> ->. reflexivity. Qed.
Lemma splice3_eq k x y z x' y' z' buf : x = x' -> y = y' -> z = z' ->
  splice k [x; y; z] buf = splice k [x'; y'; z'] buf.
Proof. intros -> -> ->. reflexivity. Qed.

(* (read(k) & 0xf0) >> 4 : Ipv4 / Ipv6 version, Tcp data_offset, ExtensionHeader version *)
Lemma hi_nibble_ok k min off : off = (8 * k)%nat -> (k < min)%nat ->
  uint_field_ok 256 min off 4 (get_hi_nibble k) (set_hi_nibble k).
Proof.
  intros E Hk.
  apply (byte_field_ok k 0 4 min off (fun b => Z.shiftr (Z.land b 0xf0) 4)
           (fun b v => Z.lor (Z.land b 0xf) (shl8 (Z.land v 0xf) 4))); try lia.
  - exact bf_hi_nibble_get.
  - exact bf_hi_nibble_set.
  - intros buf H. unfold get_hi_nibble. rewrite rd_ok by assumption. reflexivity.
  - intros v buf H. unfold set_hi_nibble. rewrite rd_ok by assumption. cbn [bind]. apply wr_ok. assumption.
Qed.

Lemma ipv4_header_length_ok : uint_field_ok 256 20 4 4 ipv4_get_header_length ipv4_set_header_length.
Proof.
  apply (byte_field_ok 0 4 4 20 4 (fun b => Z.land b 0xf) (fun b v => Z.lor (Z.land b 0xf0) (Z.land v 0xf))); try lia.
  - exact bf_lo_nibble_get.
  - exact bf_lo_nibble_set.
  - intros buf H. unfold ipv4_get_header_length. rewrite rd_ok by assumption. reflexivity.
  - intros v buf H. unfold ipv4_set_header_length. rewrite rd_ok by assumption. cbn [bind]. apply wr_ok. assumption.
Qed.

Lemma ipv4_dscp_ok : uint_field_ok 256 20 8 6 ipv4_get_dscp ipv4_set_dscp.
Proof.
  apply (byte_field_ok 1 0 6 20 8 (fun b => Z.shiftr (Z.land b 0xfc) 2)
           (fun b v => Z.lor (Z.land b 0x3) (shl8 (Z.land v 0x3f) 2))); try lia.
  - exact bf_dscp_get.
  - exact bf_dscp_set.
  - intros buf H. unfold ipv4_get_dscp. rewrite rd_ok by assumption. reflexivity.
  - intros v buf H. unfold ipv4_set_dscp. rewrite rd_ok by assumption. cbn [bind]. apply wr_ok. assumption.
Qed.

Lemma ipv4_ecn_ok : uint_field_ok 256 20 14 2 ipv4_get_ecn ipv4_set_ecn.
Proof.
  apply (byte_field_ok 1 6 2 20 14 (fun b => Z.land b 0x3) (fun b v => Z.lor (Z.land b 0xfc) (Z.land v 0x3))); try lia.
  - exact bf_ecn_get.
  - exact bf_ecn_set.
  - intros buf H. unfold ipv4_get_ecn. rewrite rd_ok by assumption. reflexivity.
  - intros v buf H. unfold ipv4_set_ecn. rewrite rd_ok by assumption. cbn [bind]. apply wr_ok. assumption.
Qed.

Lemma ipv4_tos_ok : uint_field_ok 256 20 8 8 ipv4_get_tos ipv4_set_tos.
Proof.
  apply (byte_field_ok 1 0 8 20 8
           (fun b => Z.lor (shl8 (Z.shiftr (Z.land b 0xfc) 2) 2) (Z.land b 0x3))
           (fun b v => Z.lor (Z.land (Z.lor (Z.land b 0x3) (shl8 (Z.land (Z.shiftr (Z.land v 0xfc) 2) 0x3f) 2)) 0xfc)
                             (Z.land (Z.land v 0x3) 0x3))); try lia.
  - exact bf_tos_get.
  - exact bf_tos_set.
  - intros buf H. unfold ipv4_get_tos, ipv4_get_dscp, ipv4_get_ecn. rewrite !rd_ok by assumption. reflexivity.
  - intros v buf H. unfold ipv4_set_tos, ipv4_set_dscp, ipv4_set_ecn.
    rewrite rd_ok by assumption. cbn [bind]. rewrite wr_ok by assumption. cbn [bind].
    rewrite rd_ok by (rewrite length_splice1; assumption). cbn [bind].
    rewrite nth_splice1_same by assumption.
    rewrite wr_ok by (rewrite length_splice1; assumption). f_equal.
    apply splice_same; cbn [length]; lia.
Qed.

Lemma tcp_reserved_ok : uint_field_ok 256 20 100 3 tcp_get_reserved tcp_set_reserved.
Proof.
  apply (byte_field_ok 12 4 3 20 100 (fun b => Z.shiftr (Z.land b 0xe) 1)
           (fun b v => Z.lor (Z.land b 0xf1) (shl8 (Z.land v 0x7) 1))); try lia.
  - exact bf_bits456_get.
  - exact bf_reserved_set.
  - intros buf H. unfold tcp_get_reserved. rewrite rd_ok by assumption. reflexivity.
  - intros v buf H. unfold tcp_set_reserved. rewrite rd_ok by assumption. cbn [bind]. apply wr_ok. assumption.
Qed.

Lemma mpls_member_exp_ok : uint_field_ok 256 4 20 3 mpls_member_get_exp mpls_member_set_exp.
Proof.
  apply (byte_field_ok 2 4 3 4 20 (fun b => Z.shiftr (Z.land b 0x0e) 1)
           (fun b v => Z.lor (Z.land b 0xf1) (Z.land (shl8 v 1) 0x0e))); try lia.
  - exact bf_bits456_get.
  - exact bf_exp_set.
  - intros buf H. unfold mpls_member_get_exp. rewrite rd_ok by assumption. reflexivity.
  - intros v buf H. unfold mpls_member_set_exp. rewrite rd_ok by assumption. cbn [bind]. apply wr_ok. assumption.
Qed.

Lemma mpls_member_bos_ok : uint_field_ok 256 4 23 1 mpls_member_get_bos mpls_member_set_bos.
Proof.
  apply (byte_field_ok 2 7 1 4 23 (fun b => Z.land b 0x01) (fun b v => Z.lor (Z.land b 0xfe) (Z.land v 0x01))); try lia.
  - exact bf_bit7_get.
  - exact bf_bit7_set.
  - intros buf H. unfold mpls_member_get_bos. rewrite rd_ok by assumption. reflexivity.
  - intros v buf H. unfold mpls_member_set_bos. rewrite rd_ok by assumption. cbn [bind]. apply wr_ok. assumption.
Qed.

(* fields that straddle a byte boundary *)

Lemma ipv6_traffic_class_ok : uint_field_ok 256 40 4 8 ipv6_get_traffic_class ipv6_set_traffic_class.
Proof.
  apply uint_field_intro; [lia|change (2 ^ Z.of_nat 8) with 256; lia| |].
  - intros buf Hb Hm. unfold ipv6_get_traffic_class. rewrite !rd_ok by lia. cbn [bind]. f_equal.
    rewrite (rfc_get_at 0 2 4 8 4 buf) by (reflexivity || assumption || lia).
    cbn [seq map be_val length]. pows.
    rewrite bf_tc_get by (apply byte_nth; assumption).
    f_equal. f_equal. lia.
  - intros buf v Hb Hm Hv. unfold ipv6_set_traffic_class.
    rewrite rd_ok by lia. cbn [bind]. rewrite wr_ok by lia. cbn [bind].
    rewrite rd_ok by (rewrite length_splice1; lia). cbn [bind].
    rewrite nth_splice1_other by lia.
    rewrite wr_ok by (rewrite length_splice1; lia). f_equal.
    rewrite splice1_adj by (cbn [length]; lia).
    rewrite (rfc_set_at 0 2 4 8 4 v buf) by (reflexivity || assumption || lia). cbv zeta.
    cbn [seq map be_val length be_bytes app]. pows.
    pose proof (byte_nth buf 0 Hb) as B0. pose proof (byte_nth buf 1 Hb) as B1.
    rewrite bf_tc_set0, bf_tc_set1 by assumption.
    set (a := nth 0 buf 0) in *. set (b := nth 1 buf 0) in *. unfold byte in *.
    apply splice2_eq; lia.
Qed.


Lemma land_fffff v : 0 <= v -> Z.land v 0x000fffff = v mod 1048576.
Proof. intros H. change 0x000fffff with (Z.ones 20). rewrite Z.land_ones by lia. reflexivity. Qed.

Lemma ipv6_flow_label_ok : uint_field_ok 4294967296 40 12 20 ipv6_get_flow_label ipv6_set_flow_label.
Proof.
  apply uint_field_intro; [lia|change (2 ^ Z.of_nat 20) with 1048576; lia| |].
  - intros buf Hb Hm. unfold ipv6_get_flow_label. rewrite !rd_ok by lia. cbn [bind]. f_equal.
    rewrite (rfc_get_at 1 3 4 20 12 buf) by (reflexivity || assumption || lia).
    cbn [seq map be_val length]. pows.
    pose proof (byte_nth buf 1 Hb) as B1. pose proof (byte_nth buf 2 Hb) as B2. pose proof (byte_nth buf 3 Hb) as B3.
    rewrite bf_land_0f by assumption.
    set (b1 := nth 1 buf 0) in *. set (b2 := nth 2 buf 0) in *. set (b3 := nth 3 buf 0) in *. unfold byte in *.
    lia.
  - intros buf v Hb Hm Hv. unfold ipv6_set_flow_label. cbv zeta.
    rewrite land_fffff by lia.
    cbn [be_bytes app nth].
    rewrite rd_ok by lia. cbn [bind]. rewrite wr_ok by lia. cbn [bind].
    rewrite wr_ok by (rewrite length_splice1; lia). cbn [bind].
    rewrite wr_ok by (rewrite !length_splice1; rewrite ?length_splice1; lia). f_equal.
    rewrite (splice1_adj 2) by (rewrite length_splice1; cbn [length]; lia).
    rewrite (splice1_adj 1) by (cbn [length]; lia).
    rewrite (rfc_set_at 1 3 4 20 12 v buf) by (reflexivity || assumption || lia). cbv zeta.
    cbn [seq map be_val length be_bytes app]. pows.
    pose proof (byte_nth buf 1 Hb) as B1. pose proof (byte_nth buf 2 Hb) as B2. pose proof (byte_nth buf 3 Hb) as B3.
    set (b1 := nth 1 buf 0) in *. set (b2 := nth 2 buf 0) in *. set (b3 := nth 3 buf 0) in *.
    set (h := (v mod 1048576 / 256 / 256) mod 256).
    assert (Hh : h = h mod 16) by (unfold h; lia).
    assert (Bh : byte h) by (unfold byte, h; lia).
    rewrite Hh at 1. rewrite bf_fl_set by assumption. unfold byte in *.
    apply splice3_eq; unfold h; lia.
Qed.


Lemma tcp_flags_ok : uint_field_ok 65536 20 103 9 tcp_get_flags tcp_set_flags.
Proof.
  apply uint_field_intro; [lia|change (2 ^ Z.of_nat 9) with 512; lia| |].
  - intros buf Hb Hm. unfold tcp_get_flags. rewrite !rd_ok by lia. cbn [bind]. f_equal.
    rewrite (rfc_get_at 12 2 7 9 103 buf) by (reflexivity || assumption || lia).
    cbn [seq map be_val length]. pows.
    pose proof (byte_nth buf 12 Hb) as B1. pose proof (byte_nth buf 13 Hb) as B2.
    rewrite bf_land_01 by assumption.
    set (b1 := nth 12 buf 0) in *. set (b2 := nth 13 buf 0) in *. unfold byte in *.
    lia.
  - intros buf v Hb Hm Hv. unfold tcp_set_flags. cbv zeta.
    cbn [be_bytes app nth].
    rewrite rd_ok by lia. cbn [bind]. rewrite wr_ok by lia. cbn [bind].
    rewrite wr_ok by (rewrite length_splice1; lia). f_equal.
    rewrite (splice1_adj 12) by (cbn [length]; lia).
    rewrite (rfc_set_at 12 2 7 9 103 v buf) by (reflexivity || assumption || lia). cbv zeta.
    cbn [seq map be_val length be_bytes app]. pows.
    pose proof (byte_nth buf 12 Hb) as B1. pose proof (byte_nth buf 13 Hb) as B2.
    set (b1 := nth 12 buf 0) in *. set (b2 := nth 13 buf 0) in *.
    set (h := (v / 256) mod 256).
    assert (Bh : byte h) by (unfold byte, h; lia).
    rewrite bf_flags_set by assumption. unfold byte in *.
    apply splice2_eq; unfold h; lia.
Qed.

Lemma shl32_4 v : 0 <= v -> shl32 v 4 = (v * 16) mod 4294967296.
Proof.
  intros H. unfold shl32. change 0xffffffff with (Z.ones 32). rewrite Z.land_ones by lia.
  rewrite Z.shiftl_mul_pow2 by lia. reflexivity.
Qed.

Lemma mpls_member_label_ok : uint_field_ok 4294967296 4 0 20 mpls_member_get_label mpls_member_set_label.
Proof.
  apply uint_field_intro; [lia|change (2 ^ Z.of_nat 20) with 1048576; lia| |].
  - intros buf Hb Hm. unfold mpls_member_get_label. rewrite !rd_ok by lia. cbn [bind]. f_equal.
    rewrite (rfc_get_at 0 3 0 20 0 buf) by (reflexivity || assumption || lia).
    rewrite Z.shiftr_div_pow2 by lia.
    cbn [seq map be_val length]. pows. change (2 ^ 4) with 16.
    pose proof (byte_nth buf 0 Hb) as B1. pose proof (byte_nth buf 1 Hb) as B2. pose proof (byte_nth buf 2 Hb) as B3.
    set (b1 := nth 0 buf 0) in *. set (b2 := nth 1 buf 0) in *. set (b3 := nth 2 buf 0) in *. unfold byte in *.
    lia.
  - intros buf v Hb Hm Hv. unfold mpls_member_set_label. cbv zeta.
    rewrite shl32_4 by lia.
    cbn [be_bytes app nth].
    rewrite wr_ok by lia. cbn [bind].
    rewrite wr_ok by (rewrite length_splice1; lia). cbn [bind].
    rewrite rd_ok by (rewrite !length_splice1; rewrite ?length_splice1; lia). cbn [bind].
    rewrite nth_splice1_other by (rewrite ?length_splice1; lia).
    rewrite nth_splice1_other by lia.
    rewrite wr_ok by (rewrite !length_splice1; rewrite ?length_splice1; lia). f_equal.
    rewrite (splice1_adj 1) by (rewrite length_splice1; cbn [length]; lia).
    rewrite (splice1_adj 0) by (cbn [length]; lia).
    rewrite (rfc_set_at 0 3 0 20 0 v buf) by (reflexivity || assumption || lia). cbv zeta.
    cbn [seq map be_val length be_bytes app]. pows.
    pose proof (byte_nth buf 0 Hb) as B1. pose proof (byte_nth buf 1 Hb) as B2. pose proof (byte_nth buf 2 Hb) as B3.
    set (b1 := nth 0 buf 0) in *. set (b2 := nth 1 buf 0) in *. set (b3 := nth 2 buf 0) in *.
    set (l := ((v * 16) mod 4294967296) mod 256).
    assert (Bl : byte l) by (unfold byte, l; lia).
    rewrite bf_label_set by assumption. unfold byte in *.
    apply splice3_eq; unfold l; lia.
Qed.

(* ---------------------------------------------------------------------------------------------- *)
(* (7) consequences at the level of the accessors themselves                                       *)

(* write then read gives the argument truncated to the field width; nothing else changes *)
Lemma field_roundtrip {A : Type} min off w (valid : A -> Prop) enc dec get set :
  field_ok min off w valid enc dec get set ->
  forall buf a, bytes buf -> (min <= length buf)%nat -> valid a ->
  exists buf', set a buf = Ok buf' /\ length buf' = length buf /\ bytes buf' /\
               get buf' = Ok (dec (enc a mod 2 ^ Z.of_nat w)) /\
               forall off' w', disjoint off w off' w' -> rfc_get off' w' buf' = rfc_get off' w' buf.
Proof.
  intros [Hin H] buf a Hb Hm Ha. destruct (H buf Hb Hm) as [_ Hs].
  exists (rfc_set off w (enc a) buf).
  assert (Hl : length (rfc_set off w (enc a) buf) = length buf) by (apply rfc_set_length; lia).
  split; [apply Hs; assumption|]. split; [assumption|]. split; [apply rfc_set_bytes|]. split.
  - destruct (H (rfc_set off w (enc a) buf) (rfc_set_bytes _ _ _ _)) as [[Hg _] _]; [lia|].
    rewrite Hg. rewrite rfc_get_set by lia. reflexivity.
  - intros off' w' D. apply rfc_set_frame; [lia|assumption].
Qed.

(* a setter does not disturb the getter of any field at a disjoint position of the same packet *)
Lemma field_independent {A B : Type} min off w (valid : A -> Prop) enc dec get set
    off' w' (valid' : B -> Prop) enc' dec' get' set' :
  field_ok min off w valid enc dec get set -> field_ok min off' w' valid' enc' dec' get' set' ->
  disjoint off w off' w' ->
  forall buf a buf', bytes buf -> (min <= length buf)%nat -> valid a -> set a buf = Ok buf' ->
  get' buf' = get' buf.
Proof.
  intros F G D buf a buf' Hb Hm Ha Hs.
  destruct (field_roundtrip _ _ _ _ _ _ _ _ F buf a Hb Hm Ha) as (b2 & Hs2 & Hl & Hb2 & _ & Hfr).
  rewrite Hs in Hs2. injection Hs2 as <-.
  destruct G as [_ G]. destruct (G buf Hb Hm) as [[Hg _] _].
  destruct (G buf' Hb2) as [[Hg' _] _]; [lia|].
  rewrite Hg, Hg'. rewrite Hfr by assumption. reflexivity.
Qed.

(* ---------------------------------------------------------------------------------------------- *)
(* (8) the tactic Props/C12.v uses to discharge one field of a per-type table                      *)

Ltac c12_conj := match goal with |- _ /\ _ => split; [|c12_conj] | _ => idtac end.
Ltac c12_enum id from lem :=
  match goal with
  | |- field_ok _ ?off _ _ _ _ _ _ =>
      let k := eval vm_compute in (Nat.div off 8) in
      apply (enum_at_ok id from k); [reflexivity|lia|exact lem|reflexivity|reflexivity]
  end.
Ltac c12_field :=
  first
  [ apply u8_at_ok; [reflexivity|lia]
  | apply u16_at_ok; [reflexivity|lia]
  | apply u32_at_ok; [reflexivity|lia]
  | apply hi_nibble_ok; [reflexivity|lia]
  | apply addr_at_ok; [reflexivity|reflexivity|lia]
  | c12_enum ip_protocol_id ip_protocol_from ip_protocol_id_from
  | c12_enum icmp4_type_id icmp4_type_from icmp4_type_id_from
  | c12_enum icmp6_type_id icmp6_type_from icmp6_type_id_from
  | c12_enum class_num_id class_num_from class_num_id_from
  | exact ipv4_header_length_ok | exact ipv4_dscp_ok | exact ipv4_ecn_ok | exact ipv4_tos_ok
  | exact ipv6_traffic_class_ok | exact ipv6_flow_label_ok
  | exact tcp_reserved_ok | exact tcp_flags_ok
  | exact mpls_member_label_ok | exact mpls_member_exp_ok | exact mpls_member_bos_ok ].
