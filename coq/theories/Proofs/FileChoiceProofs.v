(* Proofs/FileChoiceProofs.v - the file handed to build_config is the one named on the command line whenever one is named;
   otherwise the first default location that holds a file; otherwise the built-in default. *)
From Coq Require Import List Lia.
Import ListNotations.
From TV Require Import Tui.FileChoice.

Lemma named_file_wins {A} (dflt f : A) locations : choose_file dflt (Some f) locations = f.
Proof. reflexivity. Qed.

Lemma first_present_spec {A} (locations : list (option A)) :
  match first_present locations with
  | Some f => exists pre post, locations = pre ++ Some f :: post /\ Forall (fun l => l = None) pre
  | None => Forall (fun l => l = None) locations
  end.
Proof.
  induction locations as [|[g|] rest IH]; cbn [first_present].
  - constructor.
  - exists [], rest. split; [reflexivity|constructor].
  - destruct (first_present rest) as [f|].
    + destruct IH as (pre & post & E & F). exists (None :: pre), post. split; [rewrite E; reflexivity|].
      constructor; [reflexivity|exact F].
    + constructor; [reflexivity|exact IH].
Qed.

Lemma unnamed_takes_first_location {A} (dflt f : A) pre post :
  Forall (fun l => l = None) pre -> choose_file dflt None (pre ++ Some f :: post) = f.
Proof.
  intros F. unfold choose_file. induction F as [|x pre Hx F IH]; cbn [app first_present].
  - reflexivity.
  - rewrite Hx. exact IH.
Qed.

Lemma nothing_found_is_default {A} (dflt : A) locations :
  Forall (fun l => l = None) locations -> choose_file dflt None locations = dflt.
Proof.
  intros F. unfold choose_file. induction F as [|x l Hx F IH]; cbn [first_present]; [reflexivity|].
  rewrite Hx. exact IH.
Qed.

(* the index printed for the correspondence names the same choice *)
Lemma first_present_index_spec (locations : list bool) : forall i,
  let k := first_present_index locations i in
  (i <= k <= i + length locations) /\
  (forall j, j < k - i -> nth j locations false = false) /\
  (k < i + length locations -> nth (k - i) locations false = true).
Proof.
  induction locations as [|[|] rest IH]; intros i; cbn [first_present_index length].
  - split; [lia|]. split; [intros j Hj; lia|intros H; lia].
  - split; [lia|]. split; [intros j Hj; lia|]. intros _. replace (i - i) with 0 by lia. reflexivity.
  - destruct (IH (S i)) as (R & B & T). split; [lia|]. split.
    + intros j Hj. destruct j as [|j]; [reflexivity|]. cbn [nth]. apply B. lia.
    + intros H. replace (first_present_index rest (S i) - i) with (S (first_present_index rest (S i) - S i)) by lia.
      cbn [nth]. apply T. lia.
Qed.
