(* C15, last clause: the default flow aggregates every round, and each registered flow's state is the result of
   applying exactly the rounds attributed to it (in order) to a fresh flow state. *)
From TV Require Import Base.Result Core.Types Core.Flows Core.State Proofs.FlowsProofs Proofs.StateProofs.

(* the registered flow a round is attributed to, as a function of the state before the round *)
Definition attributed (s : state) (r : round_rec) : option Z :=
  if Z.of_nat (length (reg_flows (st_registry s))) <? st_max_flows s
  then Some (snd (register (st_registry s) (round_flow r)))
  else snd (register_existing (st_registry s) (round_flow r)).

Definition flow_or_new (s : state) (id : Z) : flow_state :=
  match flows_get (st_flows s) id with Some f => f | None => flow_state_new (st_max_samples s) end.

Definition selects (id : Z) (s : state) (r : round_rec) : bool :=
  (id =? 0) || match attributed s r with Some j => j =? id | None => false end.

(* the rounds of a history that go into flow [id] *)
Fixpoint flow_rounds (id : Z) (s : state) (rs : list round_rec) : list round_rec :=
  match rs with
  | [] => []
  | r :: t =>
    (if selects id s r then [r] else []) ++
    match update_from_round s r with Ok s' => flow_rounds id s' t | _ => [] end
  end.

Fixpoint st_run (s : state) (rs : list round_rec) : result state :=
  match rs with [] => Ok s | r :: t => let* s' := update_from_round s r in st_run s' t end.

Lemma flows_get_set_eq l id v : flows_get (flows_set l id v) id = Some v.
Proof.
  induction l as [|[k x] l IH]; cbn [flows_set flows_get].
  - rewrite Z.eqb_refl. reflexivity.
  - destruct (k =? id) eqn:E; cbn [flows_get]; rewrite E; [reflexivity|exact IH].
Qed.
Lemma flows_get_set_neq l id v j : j <> id -> flows_get (flows_set l id v) j = flows_get l j.
Proof.
  intros Hj. induction l as [|[k x] l IH]; cbn [flows_set flows_get].
  - destruct (id =? j) eqn:E; [apply Z.eqb_eq in E; congruence|reflexivity].
  - destruct (k =? id) eqn:E; cbn [flows_get].
    + apply Z.eqb_eq in E. subst k. destruct (id =? j) eqn:E2; [apply Z.eqb_eq in E2; congruence|reflexivity].
    + destruct (k =? j); [reflexivity|exact IH].
Qed.

Lemma in_zseq x : forall n a, In x (zseq a n) -> a <= x.
Proof. induction n as [|n IH]; intros a H; cbn [zseq] in H; [destruct H|]. destruct H as [<-|H]; [lia|]. specialize (IH _ H). lia. Qed.

Lemma dense_id_pos r e id : dense r -> In (e, id) (reg_flows r) -> 1 <= id.
Proof.
  intros [Hids _] Hin. apply (in_zseq id (length (reg_flows r)) 1). rewrite <- Hids.
  unfold ids. apply (in_map snd) in Hin. exact Hin.
Qed.

Lemma attributed_pos s r id : dense (st_registry s) -> attributed s r = Some id -> 1 <= id.
Proof.
  intros Hd. unfold attributed. destruct (_ <? _).
  - intros H. inversion H as [Hid]. destruct (register (st_registry s) (round_flow r)) as [r' i] eqn:E. cbn [snd] in *. subst i.
    destruct (register_spec _ _ _ _ Hd E) as (Hd' & (e' & Hin & _) & _). exact (dense_id_pos r' e' id Hd' Hin).
  - destruct (register_existing (st_registry s) (round_flow r)) as [r' o] eqn:E. cbn [snd]. intros ->.
    unfold register_existing in E. destruct (find_merge (reg_flows (st_registry s)) (round_flow r)) as [[fl i]|] eqn:F; [|discriminate].
    inversion E; subst. destruct (find_merge_spec _ _ _ _ F) as (_ & Hin & _).
    destruct Hd as [Hids _]. rewrite Hids in Hin. exact (in_zseq _ _ _ Hin).
Qed.

(* one round: flow 0 and the attributed flow get the round, every other flow is untouched *)
Lemma update_from_round_per_flow s r s' id : dense (st_registry s) -> update_from_round s r = Ok s' ->
  st_max_samples s' = st_max_samples s /\
  if selects id s r then fs_apply (flow_or_new s id) r = Ok (flow_or_new s' id)
  else flow_or_new s' id = flow_or_new s id.
Proof.
  intros Hd H. unfold update_from_round in H.
  unfold update_trace_flow at 1 in H. fold (flow_or_new s 0) in H.
  destruct (fs_apply (flow_or_new s 0) r) as [f0|?|?] eqn:E0; cbn [bind] in H; try discriminate.
  set (s1 := {| st_max_samples := st_max_samples s; st_max_flows := st_max_flows s; st_round_flow_id := st_round_flow_id s;
               st_flows := flows_set (st_flows s) 0 f0; st_registry := st_registry s; st_error := st_error s |}) in *.
  cbn [s1 st_registry st_max_flows] in H.
  assert (Hsel : forall j, attributed s r = Some j -> 1 <= j) by (intros j; apply attributed_pos; assumption).
  unfold selects, attributed in *.
  destruct (Z.of_nat (length (reg_flows (st_registry s))) <? st_max_flows s) eqn:Ecap.
  - destruct (register (st_registry s) (round_flow r)) as [reg i] eqn:Er. cbn [snd] in *.
    specialize (Hsel i eq_refl).
    unfold update_trace_flow, with_registry in H. cbn [st_flows st_max_samples st_max_flows st_registry st_round_flow_id st_error s1] in H.
    rewrite flows_get_set_neq in H by lia. fold (flow_or_new s i) in H.
    destruct (fs_apply (flow_or_new s i) r) as [fi|?|?] eqn:Ei; cbn [bind] in H; try discriminate.
    inversion H; subst s'. cbn [st_max_samples]. split; [reflexivity|].
    unfold flow_or_new at 2 3. cbn [st_flows st_max_samples].
    destruct (id =? 0) eqn:Eid0.
    + apply Z.eqb_eq in Eid0. subst id. cbn [orb]. rewrite flows_get_set_neq by lia. rewrite flows_get_set_eq. exact E0.
    + cbn [orb]. destruct (i =? id) eqn:Eii.
      * apply Z.eqb_eq in Eii. subst id. rewrite flows_get_set_eq. exact Ei.
      * apply Z.eqb_neq in Eii. apply Z.eqb_neq in Eid0.
        rewrite !flows_get_set_neq by congruence. reflexivity.
  - destruct (register_existing (st_registry s) (round_flow r)) as [reg o] eqn:Er. cbn [snd] in *.
    destruct o as [i|].
    + specialize (Hsel i eq_refl).
      unfold update_trace_flow, with_registry in H. cbn [st_flows st_max_samples st_max_flows st_registry st_round_flow_id st_error s1] in H.
      rewrite flows_get_set_neq in H by lia. fold (flow_or_new s i) in H.
      destruct (fs_apply (flow_or_new s i) r) as [fi|?|?] eqn:Ei; cbn [bind] in H; try discriminate.
      inversion H; subst s'. cbn [st_max_samples]. split; [reflexivity|].
      unfold flow_or_new at 2 3. cbn [st_flows st_max_samples].
      destruct (id =? 0) eqn:Eid0.
      * apply Z.eqb_eq in Eid0. subst id. cbn [orb]. rewrite flows_get_set_neq by lia. rewrite flows_get_set_eq. exact E0.
      * cbn [orb]. destruct (i =? id) eqn:Eii.
        -- apply Z.eqb_eq in Eii. subst id. rewrite flows_get_set_eq. exact Ei.
        -- apply Z.eqb_neq in Eii. apply Z.eqb_neq in Eid0.
           rewrite !flows_get_set_neq by congruence. reflexivity.
    + inversion H; subst s'. cbn [s1 st_max_samples]. split; [reflexivity|].
      unfold flow_or_new at 2 3. cbn [s1 st_flows st_max_samples].
      destruct (id =? 0) eqn:Eid0.
      * apply Z.eqb_eq in Eid0. subst id. cbn [orb]. rewrite flows_get_set_eq. exact E0.
      * cbn [orb]. apply Z.eqb_neq in Eid0. rewrite flows_get_set_neq by congruence. reflexivity.
Qed.

Lemma fs_run_cons f r t : fs_run f (r :: t) = (let* f' := fs_apply f r in fs_run f' t).
Proof. reflexivity. Qed.

(* a whole history *)
Theorem flows_are_their_rounds : forall rs s s' id, dense (st_registry s) ->
  Z.of_nat (length (reg_flows (st_registry s))) <= Z.max 0 (st_max_flows s) ->
  st_run s rs = Ok s' ->
  fs_run (flow_or_new s id) (flow_rounds id s rs) = Ok (flow_or_new s' id).
Proof.
  induction rs as [|r t IH]; intros s s' id Hd Hcap H; cbn [st_run flow_rounds] in *.
  - inversion H. reflexivity.
  - destruct (update_from_round s r) as [s1|?|?] eqn:Eu; cbn [bind] in H; try discriminate.
    destruct (update_from_round_flows s r s1 Hd Hcap Eu) as (Hd1 & _ & Hcap1 & _).
    destruct (update_from_round_per_flow s r s1 id Hd Eu) as [_ Hsel].
    destruct (selects id s r).
    + cbn [app]. rewrite fs_run_cons, Hsel. cbn [bind]. apply (IH s1 s' id Hd1 Hcap1 H).
    + cbn [app]. rewrite <- Hsel. apply (IH s1 s' id Hd1 Hcap1 H).
Qed.

(* the default flow takes every round *)
Lemma flow_rounds_default : forall rs s s', st_run s rs = Ok s' -> flow_rounds 0 s rs = rs.
Proof.
  induction rs as [|r t IH]; intros s s' H; cbn [st_run flow_rounds] in *; [reflexivity|].
  destruct (update_from_round s r) as [s1|?|?] eqn:Eu; cbn [bind] in H; try discriminate.
  unfold selects. cbn [Z.eqb orb app]. f_equal. exact (IH s1 s' H).
Qed.
