(* C15 over ALL histories of rounds: flow identifiers are STABLE (an identifier, once it has been given to a
   round's flow, is given to every later round with the same flow; identifiers are never reassigned, renumbered
   or removed; an entry only ever grows by filling unknown positions or getting longer), CONSISTENT (two different
   identifiers never hold compatible entries - not when the second is created and never afterwards) and BOUNDED
   (never more than max_flows entries; what happens to a round once the registry is full is stated exactly).

   Vocabulary that does not look at the implementation:
     known_at e i a   position i of flow e is the known address a
     conflict e f     some position is known in both and the two addresses differ
     first_fit fl f   the identifier of the first entry (registration order) that does not conflict with f
     owns fl k f      entry k covers f and every entry registered before k conflicts with f *)
From TV Require Import Base.Result Core.Types Core.Flows Core.State
  Proofs.FlowsProofs Proofs.StateProofs Proofs.FlowAttr.
From Coq Require Import ZifyBool.


(* ====================================================================== 1. the order on flows, pointwise *)
Definition known_at (e : flow) (i : nat) (a : addr) : Prop := nth_error e i = Some (FKnown a).

Lemma covers_pointwise : forall f e,
  covers e f <-> (length f <= length e)%nat /\ forall i a, known_at f i a -> known_at e i a.
Proof.
  unfold known_at. induction f as [|y f IH]; intros e.
  - split; [intros _|intros _; destruct e; exact I].
    split; [cbn [length]; lia|]. intros [|i] a H; discriminate.
  - destruct e as [|x e].
    + cbn [covers length]. destruct y; (split; [intros []|intros [H _]; lia]).
    + destruct y as [|b].
      * assert (E : covers (x :: e) (FUnknown :: f) = covers e f) by (destruct x; reflexivity).
        rewrite E, IH. cbn [length]. split.
        -- intros [Hl Hk]. split; [lia|]. intros [|i] a H; cbn [nth_error] in *; [discriminate|apply Hk; assumption].
        -- intros [Hl Hk]. split; [lia|]. intros i a H. apply (Hk (S i) a). assumption.
      * destruct x as [|a0].
        -- cbn [covers]. split; [intros []|]. intros [_ Hk]. specialize (Hk 0%nat b eq_refl). discriminate.
        -- cbn [covers length]. rewrite IH. split.
           ++ intros (-> & Hl & Hk). split; [lia|]. intros [|i] a H; cbn [nth_error] in *; [assumption|apply Hk; assumption].
           ++ intros [Hl Hk]. split; [|split; [lia|]].
              ** specialize (Hk 0%nat b eq_refl). cbn in Hk. congruence.
              ** intros i a H. apply (Hk (S i) a). assumption.
Qed.

(* the prefix / extension order: e' extends e iff it is at least as long and keeps every known position *)
Lemma extends_pointwise e e' :
  extends e e' <-> (length e <= length e')%nat /\ forall i a, known_at e i a -> known_at e' i a.
Proof. unfold extends. apply covers_pointwise. Qed.

Definition conflict (e f : flow) : Prop := exists i a b, known_at e i a /\ known_at f i b /\ a <> b.

Lemma conflict_sym e f : conflict e f -> conflict f e.
Proof. intros (i & a & b & H1 & H2 & H3). exists i, b, a. repeat split; auto. Qed.

Lemma conflict_cons x y e f : conflict e f -> conflict (x :: e) (y :: f).
Proof. intros (i & a & b & H1 & H2 & H3). exists (S i), a, b. repeat split; assumption. Qed.

Lemma conflict_cons_inv x y e f : conflict (x :: e) (y :: f) ->
  (exists a b, x = FKnown a /\ y = FKnown b /\ a <> b) \/ conflict e f.
Proof.
  unfold conflict, known_at. intros ([|i] & a & b & H1 & H2 & H3); cbn [nth_error] in *.
  - left. exists a, b. repeat split; congruence.
  - right. exists i, a, b. repeat split; assumption.
Qed.

Lemma conflict_nil_l f : ~ conflict [] f.
Proof. unfold conflict, known_at. intros ([|i] & a & b & H & _); discriminate. Qed.
Lemma conflict_nil_r e : ~ conflict e [].
Proof. unfold conflict, known_at. intros ([|i] & a & b & _ & H & _); discriminate. Qed.

Lemma addr_eqb_false a b : addr_eqb a b = false <-> a <> b.
Proof.
  split.
  - intros H E. subst b. assert (X : addr_eqb a a = true) by (apply list_eqb_eq; reflexivity). congruence.
  - intros H. destruct (addr_eqb a b) eqn:E; [|reflexivity]. apply list_eqb_eq in E. contradiction.
Qed.

(* Flow::check answers NoMatch exactly for conflicting flows *)
Lemma check_zip_none_iff : forall e f k, check_zip e f k = None <-> conflict e f.
Proof.
  induction e as [|x e IH]; intros f k.
  - cbn [check_zip]. split; [discriminate|]. intros H. exfalso. exact (conflict_nil_l f H).
  - destruct f as [|y f].
    + cbn [check_zip]. split; [discriminate|]. intros H. exfalso. exact (conflict_nil_r _ H).
    + cbn [check_zip]. destruct x as [|a], y as [|b].
      * rewrite IH. split; [apply conflict_cons|]. intros H. apply conflict_cons_inv in H.
        destruct H as [(a & b & Hx & _)|H]; [discriminate|assumption].
      * rewrite IH. split; [apply conflict_cons|]. intros H. apply conflict_cons_inv in H.
        destruct H as [(a & b0 & Hx & _)|H]; [discriminate|assumption].
      * rewrite IH. split; [apply conflict_cons|]. intros H. apply conflict_cons_inv in H.
        destruct H as [(a0 & b & _ & Hy & _)|H]; [discriminate|assumption].
      * destruct (addr_eqb a b) eqn:E.
        -- apply list_eqb_eq in E. subst b. rewrite IH. split; [apply conflict_cons|]. intros H.
           apply conflict_cons_inv in H. destruct H as [(a1 & b1 & Hx & Hy & Hn)|H]; [congruence|assumption].
        -- apply addr_eqb_false in E. split; [|reflexivity]. intros _.
           exists 0%nat, a, b. repeat split; assumption.
Qed.

Theorem check_nomatch_iff e f : check e f = NoMatch <-> conflict e f.
Proof.
  unfold check. destruct (check_zip e f 0) as [k|] eqn:E.
  - split.
    + destruct ((length e <? length f)%nat || (0 <? k)); discriminate.
    + intros H. apply (check_zip_none_iff e f 0) in H. congruence.
  - split; [intros _; apply (check_zip_none_iff e f 0); assumption|reflexivity].
Qed.

Lemma conflict_dec e f : conflict e f \/ ~ conflict e f.
Proof.
  destruct (check e f) eqn:E.
  - right. intros H. apply check_nomatch_iff in H. congruence.
  - left. apply check_nomatch_iff. assumption.
  - right. intros H. apply check_nomatch_iff in H. congruence.
Qed.

(* a conflict is never healed by extending either side *)
Lemma conflict_extends_l e e' f : conflict e f -> extends e e' -> conflict e' f.
Proof.
  intros (i & a & b & H1 & H2 & H3) Hx. apply extends_pointwise in Hx. destruct Hx as [_ Hk].
  exists i, a, b. repeat split; auto.
Qed.
Lemma conflict_extends_r e f f' : conflict e f -> extends f f' -> conflict e f'.
Proof. intros H Hx. apply conflict_sym. apply (conflict_extends_l f f' e); [apply conflict_sym; assumption|assumption]. Qed.

(* an entry that covers a flow answers Match (nothing to merge) *)
Lemma covers_check_zip : forall f e k, covers e f -> check_zip e f k = Some k.
Proof.
  induction f as [|y f IH]; intros e k H.
  - destruct e; reflexivity.
  - destruct e as [|x e]; [destruct y; contradiction|].
    destruct y as [|b], x as [|a]; cbn [covers check_zip] in *; try contradiction.
    + apply IH; assumption.
    + apply IH; assumption.
    + destruct H as [-> H]. assert (E : addr_eqb a a = true) by (apply list_eqb_eq; reflexivity).
      rewrite E. apply IH; assumption.
Qed.

Theorem covers_check_match e f : covers e f -> check e f = Match.
Proof.
  intros H. unfold check. rewrite (covers_check_zip f e 0 H).
  apply covers_pointwise in H. destruct H as [Hl _].
  destruct (length e <? length f)%nat eqn:E; [apply Nat.ltb_lt in E; lia|]. reflexivity.
Qed.

Theorem check_match_iff e f : check e f = Match <-> covers e f.
Proof.
  split; [|apply covers_check_match]. intros H. pose proof (check_covers e f) as C. rewrite H in C. exact C.
Qed.

Lemma covers_not_conflict e f : covers e f -> ~ conflict e f.
Proof. intros H C. apply check_nomatch_iff in C. rewrite (covers_check_match e f H) in C. discriminate. Qed.

(* Flow::merge, position by position: an unknown position is filled from the new flow, a known position is kept,
   and positions beyond the end of the entry are appended *)
Theorem merge_pointwise : forall e f i,
  nth_error (merge e f) i =
  match nth_error e i with
  | Some (FKnown a) => Some (FKnown a)
  | Some FUnknown => match nth_error f i with Some (FKnown b) => Some (FKnown b) | _ => Some FUnknown end
  | None => nth_error f i
  end.
Proof.
  induction e as [|x e IH]; intros f i.
  - cbn [merge]. destruct i; reflexivity.
  - destruct f as [|y f].
    + cbn [merge]. destruct i as [|i]; cbn [nth_error].
      * destruct x; reflexivity.
      * destruct (nth_error e i) as [[|a]|]; reflexivity.
    + cbn [merge]. destruct i as [|i]; cbn [nth_error].
      * destruct x, y; reflexivity.
      * apply IH.
Qed.

Lemma covers_merge_id : forall f e, covers e f -> merge e f = e.
Proof.
  induction f as [|y f IH]; intros e H.
  - destruct e; reflexivity.
  - destruct e as [|x e]; [destruct y; contradiction|].
    destruct y as [|b], x as [|a]; cbn [covers merge] in *; try contradiction; f_equal; try (apply IH; assumption).
    destruct H as [_ H]. apply IH; assumption.
Qed.

(* without a conflict the merge is an upper bound of both flows *)
Lemma merge_upper e f : ~ conflict e f -> covers (merge e f) f /\ extends e (merge e f).
Proof.
  intros H. destruct (check_zip e f 0) as [k|] eqn:E.
  - exact (merge_covers e f 0 k E).
  - exfalso. apply H. apply (check_zip_none_iff e f 0). assumption.
Qed.

(* ====================================================================== 2. the registry scan, as a first-fit search *)
Fixpoint first_fit (fl : list (flow * Z)) (f : flow) : option Z :=
  match fl with
  | [] => None
  | (e, id) :: rest => match check e f with NoMatch => first_fit rest f | _ => Some id end
  end.

(* entry k covers f and every entry registered before it conflicts with f *)
Definition owns (fl : list (flow * Z)) (k : Z) (f : flow) : Prop :=
  exists n e, nth_error fl n = Some (e, k) /\ covers e f /\
    forall i x, (i < n)%nat -> nth_error fl i = Some x -> conflict (fst x) f.

(* registries only ever grow: every position keeps its identifier and its entry is extended *)
Definition reg_le (fl fl' : list (flow * Z)) : Prop :=
  forall i e id, nth_error fl i = Some (e, id) -> exists e', nth_error fl' i = Some (e', id) /\ extends e e'.

Lemma reg_le_refl fl : reg_le fl fl.
Proof. intros i e id H. exists e. split; [assumption|apply covers_refl]. Qed.

Lemma reg_le_trans a b c : reg_le a b -> reg_le b c -> reg_le a c.
Proof.
  intros H1 H2 i e id H. destruct (H1 i e id H) as (e1 & G1 & X1). destruct (H2 i e1 id G1) as (e2 & G2 & X2).
  exists e2. split; [assumption|]. unfold extends in *. eapply covers_trans; eassumption.
Qed.

Lemma reg_le_length a b : reg_le a b -> (length a <= length b)%nat.
Proof.
  intros H. destruct (Nat.le_gt_cases (length a) (length b)) as [|Hlt]; [assumption|exfalso].
  destruct (nth_error a (length b)) as [[e id]|] eqn:E; [|apply nth_error_None in E; lia].
  destruct (H _ _ _ E) as (e' & G & _). assert (X : nth_error b (length b) = None) by (apply nth_error_None; lia). congruence.
Qed.

Lemma forall2_nth {A B} (R : A -> B -> Prop) l m : Forall2 R l m ->
  forall i x, nth_error l i = Some x -> exists y, nth_error m i = Some y /\ R x y.
Proof.
  induction 1 as [|x y l m Hxy _ IH]; intros [|i] z Hz; cbn [nth_error] in *; try discriminate.
  - inversion Hz; subst. exists y. split; [reflexivity|assumption].
  - apply IH; assumption.
Qed.

Lemma nth_error_firstn_some {A} (l : list A) : forall n i x, nth_error (firstn n l) i = Some x -> nth_error l i = Some x.
Proof.
  induction l as [|y l IH]; intros [|n] [|i] x H; cbn [firstn nth_error] in *; try discriminate; try assumption.
  eapply IH; eassumption.
Qed.

Lemma forall2_reg_le fl fl' :
  Forall2 (fun old new => snd old = snd new /\ extends (fst old) (fst new)) fl (firstn (length fl) fl') -> reg_le fl fl'.
Proof.
  intros H i e id Hi. destruct (forall2_nth _ _ _ H i (e, id) Hi) as ([e' id'] & Hn & Hid & Hx). cbn [fst snd] in *. subst id'.
  exists e'. split; [eapply nth_error_firstn_some; eassumption|assumption].
Qed.

(* find_merge = first fit; the registry changes at that one position only, by the merge *)
Lemma find_merge_none_iff fl f : find_merge fl f = None <-> Forall (fun x => conflict (fst x) f) fl.
Proof.
  induction fl as [|[e id] rest IH]; cbn [find_merge].
  - split; [constructor|reflexivity].
  - destruct (check e f) eqn:Ec.
    + split; [discriminate|]. intros H. apply Forall_inv in H. cbn [fst] in H. apply check_nomatch_iff in H. congruence.
    + destruct (find_merge rest f) as [[r' i']|] eqn:Er.
      * split; [discriminate|]. intros H. apply Forall_inv_tail in H. apply IH in H. discriminate.
      * split; [|reflexivity]. intros _. constructor; [apply check_nomatch_iff; assumption|apply IH; reflexivity].
    + split; [discriminate|]. intros H. apply Forall_inv in H. cbn [fst] in H. apply check_nomatch_iff in H. congruence.
Qed.

Lemma find_merge_some fl : forall f fl' k, find_merge fl f = Some (fl', k) ->
  exists pre e post, fl = pre ++ (e, k) :: post /\ fl' = pre ++ (merge e f, k) :: post /\
    Forall (fun x => conflict (fst x) f) pre /\ ~ conflict e f.
Proof.
  induction fl as [|[e id] rest IH]; intros f fl' k H; cbn [find_merge] in H; [discriminate|].
  destruct (check e f) eqn:Ec.
  - inversion H; subst. exists [], e, rest. cbn [app].
    assert (Hc : covers e f) by (apply check_match_iff; assumption).
    rewrite (covers_merge_id f e Hc). repeat split; try constructor. apply covers_not_conflict; assumption.
  - destruct (find_merge rest f) as [[r' i']|] eqn:Er; [|discriminate]. inversion H; subst.
    destruct (IH f r' k Er) as (pre & e0 & post & E1 & E2 & Hall & Hn).
    exists ((e, id) :: pre), e0, post. subst. cbn [app]. repeat split; try assumption.
    constructor; [apply check_nomatch_iff; assumption|assumption].
  - inversion H; subst. exists [], e, rest. cbn [app]. repeat split; try constructor.
    intros C. apply check_nomatch_iff in C. congruence.
Qed.

Lemma first_fit_find_merge fl f :
  first_fit fl f = match find_merge fl f with Some (_, k) => Some k | None => None end.
Proof.
  induction fl as [|[e id] rest IH]; cbn [first_fit find_merge]; [reflexivity|].
  destruct (check e f); try reflexivity. rewrite IH. destruct (find_merge rest f) as [[? ?]|]; reflexivity.
Qed.

(* first_fit, without reference to check: the first entry that does not conflict *)
Theorem first_fit_spec fl f :
  match first_fit fl f with
  | Some k => exists n e, nth_error fl n = Some (e, k) /\ ~ conflict e f /\
                forall i x, (i < n)%nat -> nth_error fl i = Some x -> conflict (fst x) f
  | None => Forall (fun x => conflict (fst x) f) fl
  end.
Proof.
  rewrite first_fit_find_merge. destruct (find_merge fl f) as [[fl' k]|] eqn:E.
  - destruct (find_merge_some fl f fl' k E) as (pre & e & post & -> & _ & Hall & Hn).
    exists (length pre), e. split; [rewrite nth_error_app2 by lia; rewrite Nat.sub_diag; reflexivity|].
    split; [assumption|]. intros i x Hi Hx. rewrite nth_error_app1 in Hx by assumption.
    rewrite Forall_forall in Hall. apply Hall. eapply nth_error_In; eassumption.
  - apply find_merge_none_iff. assumption.
Qed.

Lemma nth_error_mid {A} (pre : list A) x post : nth_error (pre ++ x :: post) (length pre) = Some x.
Proof. rewrite nth_error_app2 by lia. rewrite Nat.sub_diag. reflexivity. Qed.

Lemma nth_error_mid_other {A} (pre : list A) x y post i : i <> length pre ->
  nth_error (pre ++ x :: post) i = nth_error (pre ++ y :: post) i.
Proof.
  intros Hi. destruct (Nat.lt_ge_cases i (length pre)) as [Hl|Hg].
  - rewrite !nth_error_app1 by assumption. reflexivity.
  - rewrite !nth_error_app2 by assumption. destruct (i - length pre)%nat as [|j] eqn:E; [lia|reflexivity].
Qed.

(* after the scan: the registry only grew, and the returned identifier owns the flow *)
Lemma find_merge_owns fl f fl' k : find_merge fl f = Some (fl', k) -> reg_le fl fl' /\ owns fl' k f /\ length fl' = length fl.
Proof.
  intros H. destruct (find_merge_some fl f fl' k H) as (pre & e & post & -> & -> & Hall & Hn).
  destruct (merge_upper e f Hn) as [Hc Hx]. split; [|split].
  - intros i e0 id0 Hi. destruct (Nat.eq_dec i (length pre)) as [->|Hne].
    + rewrite nth_error_mid in Hi. inversion Hi; subst. exists (merge e0 f). split; [apply nth_error_mid|assumption].
    + exists e0. split; [rewrite <- Hi; apply nth_error_mid_other; assumption|apply covers_refl].
  - exists (length pre), (merge e f). split; [apply nth_error_mid|]. split; [assumption|].
    intros i x Hi Hx'. rewrite nth_error_app1 in Hx' by assumption.
    rewrite Forall_forall in Hall. apply Hall. eapply nth_error_In; eassumption.
  - rewrite !app_length. reflexivity.
Qed.

(* an owner is found again, and nothing changes *)
Lemma owns_find_merge : forall fl f k, owns fl k f -> find_merge fl f = Some (fl, k).
Proof.
  intros fl f k (n & e & Hn & Hc & Hpre). revert n Hn Hpre.
  induction fl as [|[e0 id0] rest IH]; intros n Hn Hpre; [destruct n; discriminate|].
  destruct n as [|n]; cbn [nth_error find_merge] in *.
  - inversion Hn; subst. rewrite (covers_check_match e f Hc). reflexivity.
  - assert (Hx : conflict e0 f) by (apply (Hpre 0%nat (e0, id0)); [lia|reflexivity]).
    apply check_nomatch_iff in Hx. rewrite Hx.
    rewrite (IH n Hn); [reflexivity|]. intros i x Hi Hxi. apply (Hpre (S i) x); [lia|assumption].
Qed.

Lemma owns_mono fl fl' k f : owns fl k f -> reg_le fl fl' -> owns fl' k f.
Proof.
  intros (n & e & Hn & Hc & Hpre) Hle. destruct (Hle n e k Hn) as (e' & Hn' & Hx).
  exists n, e'. split; [assumption|]. split; [unfold extends in Hx; eapply covers_trans; eassumption|].
  intros i [ei idi] Hi Hxi. cbn [fst].
  destruct (nth_error fl i) as [[e0 id0]|] eqn:E0.
  - destruct (Hle i e0 id0 E0) as (e0' & G & X). rewrite G in Hxi. inversion Hxi; subst.
    apply (conflict_extends_l e0 ei f); [|assumption]. apply (Hpre i (e0, idi) Hi E0).
  - apply nth_error_None in E0. assert (nth_error fl n <> None) by congruence. apply nth_error_Some in H. lia.
Qed.

(* a flow that extends an owned flow is never given to an EARLIER identifier: it goes to k exactly when it is
   compatible with what k has become, otherwise to an entry registered after k (or to none) *)
Lemma owns_extension fl k f f' : owns fl k f -> extends f f' ->
  exists n e, nth_error fl n = Some (e, k) /\
    match find_merge fl f' with
    | Some (fl', j) => (j = k /\ ~ conflict e f') \/
                       (conflict e f' /\ exists m e', (n < m)%nat /\ nth_error fl m = Some (e', j))
    | None => conflict e f'
    end.
Proof.
  intros (n & e & Hn & Hc & Hpre) Hx. exists n, e. split; [assumption|].
  assert (Hpre' : forall i x, (i < n)%nat -> nth_error fl i = Some x -> conflict (fst x) f').
  { intros i x Hi Hxi. apply (conflict_extends_r (fst x) f f'); [apply (Hpre i x Hi Hxi)|assumption]. }
  destruct (find_merge fl f') as [[fl' j]|] eqn:E.
  - destruct (find_merge_some fl f' fl' j E) as (pre & e1 & post & E1 & _ & Hall & Hn1).
    destruct (Nat.lt_trichotomy (length pre) n) as [Hlt|[Heq|Hgt]].
    + exfalso. apply Hn1. apply (Hpre' (length pre) (e1, j) Hlt). rewrite E1. apply nth_error_mid.
    + left. subst n. rewrite E1, nth_error_mid in Hn. inversion Hn; subst. split; [reflexivity|assumption].
    + right. split.
      * rewrite Forall_forall in Hall. apply (Hall (e, k)).
        rewrite E1 in Hn. rewrite nth_error_app1 in Hn by assumption. eapply nth_error_In; eassumption.
      * exists (length pre), e1. split; [assumption|]. rewrite E1. apply nth_error_mid.
  - apply find_merge_none_iff in E. rewrite Forall_forall in E. apply (E (e, k)). eapply nth_error_In; eassumption.
Qed.

(* ====================================================================== 3. one round at the State level *)
Definition regl (s : state) : list (flow * Z) := reg_flows (st_registry s).
Definition cap (s : state) : Prop := Z.of_nat (length (regl s)) <= Z.max 0 (st_max_flows s).

Lemma zseq_nth : forall n a i, (i < n)%nat -> nth_error (zseq a n) i = Some (a + Z.of_nat i).
Proof.
  induction n as [|n IH]; intros a i Hi; [lia|]. destruct i as [|i]; cbn [zseq nth_error].
  - f_equal. lia.
  - rewrite IH by lia. f_equal. lia.
Qed.

(* dense numbering: the entry at position n carries identifier n + 1 *)
Lemma dense_nth reg n e id : dense reg -> nth_error (reg_flows reg) n = Some (e, id) -> id = Z.of_nat n + 1.
Proof.
  intros [Hids _] Hn.
  assert (Hlt : (n < length (reg_flows reg))%nat) by (apply nth_error_Some; congruence).
  assert (H1 : nth_error (ids (reg_flows reg)) n = Some id) by (unfold ids; rewrite nth_error_map, Hn; reflexivity).
  rewrite Hids, zseq_nth in H1 by assumption. assert (E : 1 + Z.of_nat n = id) by congruence. lia.
Qed.

(* which identifier a round gets, as a short specification: the first registered flow it does not conflict
   with; otherwise a new identifier (the next one) if there is room; otherwise none *)
Theorem attributed_spec s r : dense (st_registry s) ->
  attributed s r =
  match first_fit (regl s) (round_flow r) with
  | Some k => Some k
  | None => if Z.of_nat (length (regl s)) <? st_max_flows s then Some (Z.of_nat (length (regl s)) + 1) else None
  end.
Proof.
  intros [_ Hn]. unfold attributed, register, register_existing, regl. rewrite first_fit_find_merge.
  destruct (find_merge (reg_flows (st_registry s)) (round_flow r)) as [[fl k]|];
    destruct (Z.of_nat (length (reg_flows (st_registry s))) <? st_max_flows s); cbn [snd]; try reflexivity.
  f_equal. lia.
Qed.

Lemma update_from_round_registry s r s' : update_from_round s r = Ok s' ->
  st_max_flows s' = st_max_flows s /\ st_max_samples s' = st_max_samples s /\
  st_round_flow_id s' = match attributed s r with Some k => k | None => st_round_flow_id s end /\
  regl s' = match find_merge (regl s) (round_flow r) with
            | Some (fl, _) => fl
            | None => if Z.of_nat (length (regl s)) <? st_max_flows s
                      then regl s ++ [(round_flow r, next_flow_id (st_registry s))] else regl s
            end.
Proof.
  intros H. unfold update_from_round in H.
  destruct (update_trace_flow s 0 r) as [s1|?|?] eqn:H1; cbn [bind] in H; try discriminate.
  destruct (update_trace_flow_registry _ _ _ _ H1) as (R1 & F1 & M1 & S1).
  rewrite R1, M1 in H. unfold attributed, regl, register, register_existing in *.
  destruct (Z.of_nat (length (reg_flows (st_registry s))) <? st_max_flows s) eqn:El.
  - destruct (find_merge (reg_flows (st_registry s)) (round_flow r)) as [[fl k]|] eqn:Ef;
      destruct (update_trace_flow_registry _ _ _ _ H) as (R2 & F2 & M2 & S2);
      cbn [with_registry st_registry st_round_flow_id st_max_flows st_max_samples reg_flows snd] in *;
      rewrite R2, F2, M2, S2; repeat split; congruence.
  - destruct (find_merge (reg_flows (st_registry s)) (round_flow r)) as [[fl k]|] eqn:Ef.
    + destruct (update_trace_flow_registry _ _ _ _ H) as (R2 & F2 & M2 & S2);
      cbn [with_registry st_registry st_round_flow_id st_max_flows st_max_samples reg_flows snd] in *;
      rewrite R2, F2, M2, S2; repeat split; congruence.
    + inversion H; subst s'. cbn [snd]. rewrite R1, F1, M1, S1. repeat split; reflexivity.
Qed.

Lemma round_step s r s' : dense (st_registry s) -> cap s -> update_from_round s r = Ok s' ->
  dense (st_registry s') /\ cap s' /\ st_max_flows s' = st_max_flows s /\ reg_le (regl s) (regl s') /\
  (forall k, attributed s r = Some k -> owns (regl s') k (round_flow r)).
Proof.
  intros Hd Hc H. destruct (update_from_round_flows s r s' Hd Hc H) as (Hd' & Hm & Hc' & Hle & _).
  split; [assumption|]. split; [exact Hc'|]. split; [assumption|]. split; [apply forall2_reg_le; exact Hle|].
  destruct (update_from_round_registry s r s' H) as (_ & _ & _ & Hreg).
  intros k Hk. rewrite (attributed_spec s r Hd), first_fit_find_merge in Hk. rewrite Hreg.
  destruct (find_merge (regl s) (round_flow r)) as [[fl j]|] eqn:Ef.
  - inversion Hk; subst j. apply (find_merge_owns _ _ _ _ Ef).
  - destruct (Z.of_nat (length (regl s)) <? st_max_flows s); [|discriminate]. inversion Hk; subst k.
    destruct Hd as [_ Hn]. fold (regl s) in Hn. rewrite Hn.
    exists (length (regl s)), (round_flow r). split.
    + rewrite nth_error_app2 by lia. rewrite Nat.sub_diag. cbn [nth_error]. do 2 f_equal. lia.
    + split; [apply covers_refl|]. intros i x Hi Hx. rewrite nth_error_app1 in Hx by assumption.
      apply find_merge_none_iff in Ef. rewrite Forall_forall in Ef. apply Ef. eapply nth_error_In; eassumption.
Qed.

(* ====================================================================== 4. whole histories *)
Theorem st_run_registry : forall rs s s', dense (st_registry s) -> cap s -> st_run s rs = Ok s' ->
  dense (st_registry s') /\ cap s' /\ st_max_flows s' = st_max_flows s /\ reg_le (regl s) (regl s').
Proof.
  induction rs as [|r t IH]; intros s s' Hd Hc H; cbn [st_run] in H.
  - inversion H; subst. split; [assumption|]. split; [assumption|]. split; [reflexivity|apply reg_le_refl].
  - destruct (update_from_round s r) as [s1|?|?] eqn:Eu; cbn [bind] in H; try discriminate.
    destruct (round_step s r s1 Hd Hc Eu) as (Hd1 & Hc1 & Hm1 & Hle1 & _).
    destruct (IH s1 s' Hd1 Hc1 H) as (Hd2 & Hc2 & Hm2 & Hle2).
    split; [assumption|]. split; [assumption|]. split; [congruence|eapply reg_le_trans; eassumption].
Qed.

(* identifiers are never reassigned, renumbered or removed: after any further history an entry sits at the same
   position under the same identifier, and what it records extends what it recorded *)
Theorem ids_never_change rs s s' e id : dense (st_registry s) -> cap s -> st_run s rs = Ok s' ->
  In (e, id) (regl s) ->
  exists e', In (e', id) (regl s') /\ extends e e' /\
    firstn (length (regl s)) (map snd (regl s')) = map snd (regl s).
Proof.
  intros Hd Hc H Hin. destruct (st_run_registry rs s s' Hd Hc H) as (_ & _ & _ & Hle).
  apply In_nth_error in Hin. destruct Hin as [n Hn]. destruct (Hle n e id Hn) as (e' & Hn' & Hx).
  exists e'. split; [eapply nth_error_In; eassumption|]. split; [assumption|].
  pose proof (reg_le_length _ _ Hle) as Hlen.
  clear -Hle Hlen. revert Hle Hlen. generalize (regl s') as b. generalize (regl s) as a.
  induction a as [|[e0 i0] a IH]; intros b Hle Hlen; [reflexivity|].
  destruct b as [|[e1 i1] b]; [cbn in Hlen; lia|]. cbn [length firstn map snd].
  destruct (Hle 0%nat e0 i0 eq_refl) as (e' & G & _). cbn in G. inversion G; subst. f_equal.
  apply IH; [|cbn in Hlen; lia]. intros i e id Hi. apply (Hle (S i) e id Hi).
Qed.

(* STABLE: once a round's flow has been given identifier k, every later round with the same flow is given k,
   whatever happened in between (new flows, merges into k or into other entries, saturation) - and such a round
   changes nothing in the registry *)
Theorem flow_id_stable s r s1 k rs s2 r' : dense (st_registry s) -> cap s ->
  update_from_round s r = Ok s1 -> attributed s r = Some k -> st_run s1 rs = Ok s2 ->
  round_flow r' = round_flow r ->
  attributed s2 r' = Some k /\
  forall s3, update_from_round s2 r' = Ok s3 -> regl s3 = regl s2 /\ st_round_flow_id s3 = k.
Proof.
  intros Hd Hc Hu Hk Hrun Hf.
  destruct (round_step s r s1 Hd Hc Hu) as (Hd1 & Hc1 & _ & _ & Hown). specialize (Hown k Hk).
  destruct (st_run_registry rs s1 s2 Hd1 Hc1 Hrun) as (Hd2 & Hc2 & _ & Hle).
  pose proof (owns_mono _ _ _ _ Hown Hle) as Hown2. rewrite <- Hf in Hown2.
  pose proof (owns_find_merge _ _ _ Hown2) as Hfm.
  assert (Ha : attributed s2 r' = Some k) by (rewrite (attributed_spec s2 r' Hd2), first_fit_find_merge, Hfm; reflexivity).
  split; [assumption|]. intros s3 H3. destruct (update_from_round_registry s2 r' s3 H3) as (_ & _ & Hid & Hreg).
  rewrite Hfm in Hreg. rewrite Ha in Hid. split; assumption.
Qed.

(* a later round whose flow EXTENDS the flow that was given k (same addresses, more of them) is never given an
   earlier identifier: it is given k exactly when it does not conflict with what entry k records by then, and
   otherwise an identifier issued after k, or none *)
Theorem extended_flow_attribution s r s1 k rs s2 r' : dense (st_registry s) -> cap s ->
  update_from_round s r = Ok s1 -> attributed s r = Some k -> st_run s1 rs = Ok s2 ->
  extends (round_flow r) (round_flow r') ->
  exists e, In (e, k) (regl s2) /\ covers e (round_flow r) /\
    match attributed s2 r' with
    | Some j => (j = k /\ ~ conflict e (round_flow r')) \/ (k < j /\ conflict e (round_flow r'))
    | None => conflict e (round_flow r')
    end.
Proof.
  intros Hd Hc Hu Hk Hrun Hx.
  destruct (round_step s r s1 Hd Hc Hu) as (Hd1 & Hc1 & _ & _ & Hown). specialize (Hown k Hk).
  destruct (st_run_registry rs s1 s2 Hd1 Hc1 Hrun) as (Hd2 & Hc2 & _ & Hle).
  pose proof (owns_mono _ _ _ _ Hown Hle) as Hown2.
  destruct (owns_extension _ _ _ _ Hown2 Hx) as (n & e & Hn & Hcase).
  assert (Hcov : covers e (round_flow r)).
  { destruct Hown2 as (n' & e' & Hn' & Hc' & _).
    pose proof (dense_nth _ _ _ _ Hd2 Hn) as E1. pose proof (dense_nth _ _ _ _ Hd2 Hn') as E2.
    assert (n' = n) by lia. subst n'. unfold regl in *. rewrite Hn in Hn'. inversion Hn'; subst. assumption. }
  exists e. split; [eapply nth_error_In; exact Hn|]. split; [assumption|].
  rewrite (attributed_spec s2 r' Hd2), first_fit_find_merge.
  destruct (find_merge (regl s2) (round_flow r')) as [[fl' j]|] eqn:Ef.
  - destruct Hcase as [[-> Hnc]|[Hcf (m & e' & Hm & Hnm)]]; [left; split; [reflexivity|assumption]|].
    right. split; [|assumption].
    pose proof (dense_nth _ _ _ _ Hd2 Hn). pose proof (dense_nth _ _ _ _ Hd2 Hnm). lia.
  - destruct (Z.of_nat (length (regl s2)) <? st_max_flows s2); [|assumption].
    right. split; [|assumption]. pose proof (dense_nth _ _ _ _ Hd2 Hn).
    assert ((n < length (regl s2))%nat) by (apply nth_error_Some; rewrite Hn; discriminate). lia.
Qed.

(* the entry of identifier id stays consistent with EVERY round that was attributed to id in the history *)
Theorem entry_covers_attributed_rounds : forall rs s s' id, dense (st_registry s) -> cap s ->
  st_run s rs = Ok s' -> id <> 0 ->
  forall r, In r (flow_rounds id s rs) -> exists e, In (e, id) (regl s') /\ covers e (round_flow r).
Proof.
  induction rs as [|r0 t IH]; intros s s' id Hd Hc H Hid r Hin; cbn [st_run flow_rounds] in *; [destruct Hin|].
  destruct (update_from_round s r0) as [s1|?|?] eqn:Eu; cbn [bind] in H; try discriminate.
  destruct (round_step s r0 s1 Hd Hc Eu) as (Hd1 & Hc1 & _ & _ & Hown).
  apply in_app_or in Hin. destruct Hin as [Hin|Hin].
  - unfold selects in Hin. replace (id =? 0) with false in Hin by lia. cbn [orb] in Hin.
    destruct (attributed s r0) as [j|] eqn:Ea; [|destruct Hin].
    destruct (j =? id) eqn:Ej; [|destruct Hin]. destruct Hin as [<-|[]]. assert (j = id) by lia. subst j.
    destruct (st_run_registry t s1 s' Hd1 Hc1 H) as (_ & _ & _ & Hle).
    destruct (owns_mono _ _ _ _ (Hown id eq_refl) Hle) as (n & e & Hn & Hcov & _).
    exists e. split; [eapply nth_error_In; exact Hn|assumption].
  - apply (IH s1 s' id Hd1 Hc1 H Hid r Hin).
Qed.

(* ---------------------------------------------------------------- CONSISTENT *)
Definition pairwise (fl : list (flow * Z)) : Prop :=
  forall i j x y, (i < j)%nat -> nth_error fl i = Some x -> nth_error fl j = Some y -> conflict (fst x) (fst y).

Lemma pairwise_grow fl fl' : pairwise fl -> reg_le fl fl' -> length fl' = length fl -> pairwise fl'.
Proof.
  intros Hp Hle Hlen i j [ex ix] [ey iy] Hij Hi Hj. cbn [fst].
  assert (Hjl : (j < length fl)%nat) by (rewrite <- Hlen; apply nth_error_Some; congruence).
  destruct (nth_error fl i) as [[e1 i1]|] eqn:E1; [|apply nth_error_None in E1; lia].
  destruct (nth_error fl j) as [[e2 i2]|] eqn:E2; [|apply nth_error_None in E2; lia].
  destruct (Hle i e1 i1 E1) as (e1' & G1 & X1). destruct (Hle j e2 i2 E2) as (e2' & G2 & X2).
  rewrite G1 in Hi. rewrite G2 in Hj. inversion Hi; inversion Hj; subst.
  apply (conflict_extends_l e1 ex ey); [|assumption]. apply (conflict_extends_r e1 e2 ey); [|assumption].
  exact (Hp i j (e1, ix) (e2, iy) Hij E1 E2).
Qed.

Lemma pairwise_append fl f id : pairwise fl -> Forall (fun x => conflict (fst x) f) fl -> pairwise (fl ++ [(f, id)]).
Proof.
  intros Hp Hall i j x y Hij Hi Hj.
  assert (Hjl : (j < length (fl ++ [(f, id)]))%nat) by (apply nth_error_Some; congruence).
  rewrite app_length in Hjl. cbn [length] in Hjl.
  rewrite nth_error_app1 in Hi by lia.
  destruct (Nat.lt_ge_cases j (length fl)) as [Hl|Hg].
  - rewrite nth_error_app1 in Hj by assumption. exact (Hp i j x y Hij Hi Hj).
  - rewrite nth_error_app2 in Hj by assumption. replace (j - length fl)%nat with 0%nat in Hj by lia.
    cbn in Hj. inversion Hj; subst y. cbn [fst]. rewrite Forall_forall in Hall. apply Hall. eapply nth_error_In; eassumption.
Qed.

Lemma round_pairwise s r s' : pairwise (regl s) -> update_from_round s r = Ok s' -> pairwise (regl s').
Proof.
  intros Hp H. destruct (update_from_round_registry s r s' H) as (_ & _ & _ & Hreg). rewrite Hreg.
  destruct (find_merge (regl s) (round_flow r)) as [[fl j]|] eqn:Ef.
  - destruct (find_merge_owns _ _ _ _ Ef) as (Hle & _ & Hlen). apply (pairwise_grow _ _ Hp Hle Hlen).
  - destruct (Z.of_nat (length (regl s)) <? st_max_flows s); [|assumption].
    apply pairwise_append; [assumption|apply find_merge_none_iff; assumption].
Qed.

Theorem st_run_pairwise : forall rs s s', pairwise (regl s) -> st_run s rs = Ok s' -> pairwise (regl s').
Proof.
  induction rs as [|r t IH]; intros s s' Hp H; cbn [st_run] in H; [inversion H; subst; assumption|].
  destruct (update_from_round s r) as [s1|?|?] eqn:Eu; cbn [bind] in H; try discriminate.
  apply (IH s1 s' (round_pairwise s r s1 Hp Eu) H).
Qed.

Lemma pairwise_distinct fl e1 id1 e2 id2 : pairwise fl -> In (e1, id1) fl -> In (e2, id2) fl -> id1 <> id2 -> conflict e1 e2.
Proof.
  intros Hp H1 H2 Hne. apply In_nth_error in H1. apply In_nth_error in H2. destruct H1 as [i Hi]. destruct H2 as [j Hj].
  destruct (Nat.lt_trichotomy i j) as [Hlt|[Heq|Hgt]].
  - exact (Hp i j _ _ Hlt Hi Hj).
  - subst j. rewrite Hi in Hj. inversion Hj. contradiction.
  - apply conflict_sym. exact (Hp j i _ _ Hgt Hj Hi).
Qed.

(* CONSISTENT, for every history from a fresh State: two different identifiers never hold compatible entries -
   some position is known in both with different addresses *)
Theorem distinct_ids_conflict rs ms mf s' e1 id1 e2 id2 : st_run (state_new ms mf) rs = Ok s' ->
  In (e1, id1) (regl s') -> In (e2, id2) (regl s') -> id1 <> id2 -> conflict e1 e2.
Proof.
  intros H. apply pairwise_distinct. apply (st_run_pairwise rs (state_new ms mf) s'); [|assumption].
  intros i j x y _ Hi. destruct i; discriminate.
Qed.

(* at the moment an identifier is created its flow conflicts with every entry that exists *)
Theorem new_id_conflicts_with_all s r s' : dense (st_registry s) -> update_from_round s r = Ok s' ->
  (length (regl s) < length (regl s'))%nat ->
  Forall (fun x => conflict (fst x) (round_flow r)) (regl s) /\
  regl s' = regl s ++ [(round_flow r, Z.of_nat (length (regl s)) + 1)] /\
  st_round_flow_id s' = Z.of_nat (length (regl s)) + 1.
Proof.
  intros Hd H Hlt. destruct (update_from_round_registry s r s' H) as (_ & _ & Hid & Hreg).
  rewrite (attributed_spec s r Hd), first_fit_find_merge in Hid.
  destruct (find_merge (regl s) (round_flow r)) as [[fl j]|] eqn:Ef.
  - destruct (find_merge_owns _ _ _ _ Ef) as (_ & _ & Hlen). rewrite Hreg in Hlt. lia.
  - destruct (Z.of_nat (length (regl s)) <? st_max_flows s); [|rewrite Hreg in Hlt; lia].
    split; [apply find_merge_none_iff; assumption|]. destruct Hd as [_ Hn]. fold (regl s) in Hn.
    split; [rewrite Hreg, Hn; do 3 f_equal; lia|assumption].
Qed.

(* ---------------------------------------------------------------- BOUNDED *)
Theorem history_bounded rs ms mf s' : st_run (state_new ms mf) rs = Ok s' ->
  Z.of_nat (length (regl s')) <= Z.max 0 mf /\ dense (st_registry s') /\
  map snd (regl s') = zseq 1 (length (regl s')).
Proof.
  intros H. destruct (st_run_registry rs (state_new ms mf) s' dense_new ltac:(unfold cap; cbn; lia) H) as (Hd & Hc & Hm & _).
  unfold cap in Hc. rewrite Hm in Hc. cbn [state_new st_max_flows] in Hc.
  split; [assumption|]. split; [assumption|]. destruct Hd as [Hids _]. exact Hids.
Qed.

Lemma reg_le_same_ids : forall a b, reg_le a b -> length b = length a -> map snd b = map snd a.
Proof.
  induction a as [|[e0 i0] a IH]; intros b Hle Hlen; [destruct b; [reflexivity|discriminate]|].
  destruct b as [|[e1 i1] b]; [discriminate|]. cbn [map snd].
  destruct (Hle 0%nat e0 i0 eq_refl) as (e' & G & _). cbn in G. inversion G; subst. f_equal.
  apply IH; [|cbn in Hlen; lia]. intros i e id Hi. apply (Hle (S i) e id Hi).
Qed.

(* what happens to a round that arrives when the registry is full, exactly: no identifier is created; if some
   registered flow does not conflict with it, the first such flow gets the round (and is extended by it);
   otherwise the round is attributed to no flow - the registry, the current-round flow id and every flow state
   except the default flow 0 are left untouched *)
Theorem saturated_round s r s' : dense (st_registry s) -> cap s ->
  st_max_flows s <= Z.of_nat (length (regl s)) -> update_from_round s r = Ok s' ->
  length (regl s') = length (regl s) /\ map snd (regl s') = map snd (regl s) /\
  match first_fit (regl s) (round_flow r) with
  | Some k => attributed s r = Some k /\ st_round_flow_id s' = k /\ owns (regl s') k (round_flow r)
  | None => attributed s r = None /\ st_registry s' = st_registry s /\ st_round_flow_id s' = st_round_flow_id s /\
            forall id, id <> 0 -> flow_or_new s' id = flow_or_new s id
  end.
Proof.
  intros Hd Hc Hsat H.
  destruct (round_step s r s' Hd Hc H) as (_ & _ & _ & Hle & Hown).
  destruct (update_from_round_registry s r s' H) as (_ & _ & Hid & Hreg).
  pose proof (attributed_spec s r Hd) as Ha. rewrite first_fit_find_merge in *.
  replace (Z.of_nat (length (regl s)) <? st_max_flows s) with false in * by lia.
  assert (Hlen : length (regl s') = length (regl s)).
  { rewrite Hreg. destruct (find_merge (regl s) (round_flow r)) as [[fl j]|] eqn:Ef; [|reflexivity].
    apply (find_merge_owns _ _ _ _ Ef). }
  split; [assumption|]. split; [apply reg_le_same_ids; assumption|].
  destruct (find_merge (regl s) (round_flow r)) as [[fl j]|] eqn:Ef.
  - rewrite Ha in Hid. split; [assumption|]. split; [assumption|]. apply Hown. assumption.
  - split; [assumption|]. rewrite Ha in Hid. split; [|split; [assumption|]].
    + destruct (round_step s r s' Hd Hc H) as ([_ Hn'] & _). destruct Hd as [_ Hn].
      unfold regl in *. destruct (st_registry s') as [n' f'], (st_registry s) as [n0 f0].
      cbn [reg_flows next_flow_id] in *. subst f'. f_equal. lia.
    + intros id Hne.
      pose proof (update_from_round_per_flow s r s' id Hd H) as [_ Hsel]. unfold selects in Hsel. rewrite Ha in Hsel.
      replace (id =? 0) with false in Hsel by lia. cbn [orb] in Hsel. exact Hsel.
Qed.

(* once the registry is full it stays exactly as long, with the same identifiers, for ever *)
Theorem saturated_forever : forall rs s s', dense (st_registry s) -> cap s ->
  st_max_flows s <= Z.of_nat (length (regl s)) -> st_run s rs = Ok s' ->
  length (regl s') = length (regl s) /\ map snd (regl s') = map snd (regl s).
Proof.
  induction rs as [|r t IH]; intros s s' Hd Hc Hsat H; cbn [st_run] in H; [inversion H; subst; split; reflexivity|].
  destruct (update_from_round s r) as [s1|?|?] eqn:Eu; cbn [bind] in H; try discriminate.
  destruct (saturated_round s r s1 Hd Hc Hsat Eu) as (Hl1 & Hi1 & _).
  destruct (round_step s r s1 Hd Hc Eu) as (Hd1 & Hc1 & Hm1 & _).
  destruct (IH s1 s' Hd1 Hc1 ltac:(rewrite Hm1, Hl1; assumption) H) as (Hl2 & Hi2).
  split; congruence.
Qed.

(* ====================================================================== 5. per-flow statistics *)
Lemma update_for_probe_round_count all u st u' : update_for_probe all u st = Ok u' ->
  fs_round_count (u_fs u') = fs_round_count (u_fs u).
Proof.
  unfold update_for_probe. destruct st as [| |p|p|c]; intros H.
  - inversion H; reflexivity.
  - inversion H; reflexivity.
  - destruct (hop_index (p_ttl p)); cbn [bind] in H; try discriminate. inversion H; reflexivity.
  - destruct (hop_index (p_ttl p)); cbn [bind] in H; try discriminate. inversion H; reflexivity.
  - destruct (hop_index (p_ttl (c_probe c))); cbn [bind] in H; try discriminate.
    destruct (c_expected c), (c_actual c); try (inversion H; reflexivity).
    destruct (nat_status_of _ _ _). inversion H; reflexivity.
Qed.

Lemma fold_probes_round_count all : forall ps u u', fold_probes all u ps = Ok u' ->
  fs_round_count (u_fs u') = fs_round_count (u_fs u).
Proof.
  induction ps as [|st ps IH]; intros u u' H; cbn [fold_probes] in H; [inversion H; reflexivity|].
  destruct (update_for_probe all u st) as [u1|?|?] eqn:E; cbn [bind] in H; try discriminate.
  rewrite (IH u1 u' H). apply (update_for_probe_round_count all u st u1 E).
Qed.

Lemma fs_apply_round_count f r f' : fs_apply f r = Ok f' -> fs_round_count f' = fs_round_count f + 1.
Proof.
  unfold fs_apply. intros H.
  destruct (fold_probes (rr_probes r) _ (rr_probes r)) as [u|?|?] eqn:E; cbn [bind] in H; try discriminate.
  inversion H; subst. rewrite (fold_probes_round_count _ _ _ _ E). reflexivity.
Qed.

Lemma fs_run_round_count : forall rs f f', fs_run f rs = Ok f' -> fs_round_count f' = fs_round_count f + Z.of_nat (length rs).
Proof.
  induction rs as [|r t IH]; intros f f' H; cbn [fs_run] in H; [inversion H; cbn; lia|].
  destruct (fs_apply f r) as [f1|?|?] eqn:E; cbn [bind] in H; try discriminate.
  rewrite (IH f1 f' H), (fs_apply_round_count f r f1 E). cbn [length]. lia.
Qed.

Lemma flow_or_new_initial ms mf id : flow_or_new (state_new ms mf) id = flow_state_new ms.
Proof. unfold flow_or_new, state_new. cbn [st_flows st_max_samples flows_get]. destruct (0 =? id); reflexivity. Qed.

(* the attribution trace of a history: the identifier each round was given, in order *)
Fixpoint attr_trace (s : state) (rs : list round_rec) : list (option Z) :=
  match rs with
  | [] => []
  | r :: t => attributed s r :: match update_from_round s r with Ok s' => attr_trace s' t | _ => [] end
  end.

Definition picked (id : Z) (x : round_rec * option Z) : bool :=
  match snd x with Some j => j =? id | None => false end.

Lemma attr_trace_length : forall rs s s', st_run s rs = Ok s' -> length (attr_trace s rs) = length rs.
Proof.
  induction rs as [|r t IH]; intros s s' H; cbn [st_run attr_trace length] in *; [reflexivity|].
  destruct (update_from_round s r) as [s1|?|?] eqn:Eu; cbn [bind] in H; try discriminate. f_equal. apply (IH s1 s' H).
Qed.

(* the rounds that go into flow id (id <> 0) are exactly the rounds whose attribution is id *)
Theorem flow_rounds_are_attributed : forall rs s s' id, st_run s rs = Ok s' -> id <> 0 ->
  flow_rounds id s rs = map fst (filter (picked id) (combine rs (attr_trace s rs))).
Proof.
  induction rs as [|r t IH]; intros s s' id H Hid; cbn [st_run flow_rounds attr_trace combine filter map] in *; [reflexivity|].
  destruct (update_from_round s r) as [s1|?|?] eqn:Eu; cbn [bind] in H; try discriminate.
  unfold selects, picked at 1. cbn [snd]. replace (id =? 0) with false by lia. cbn [orb].
  rewrite (IH s1 s' id H Hid).
  destruct (attributed s r) as [j|]; [destruct (j =? id)|]; reflexivity.
Qed.

(* each flow's round count is the number of rounds attributed to it; the default flow counts every round *)
Theorem flow_round_counts rs ms mf s' id : st_run (state_new ms mf) rs = Ok s' ->
  fs_round_count (flow_or_new s' id) = Z.of_nat (length (flow_rounds id (state_new ms mf) rs)) /\
  fs_round_count (flow_or_new s' 0) = Z.of_nat (length rs) /\
  (id <> 0 -> length (flow_rounds id (state_new ms mf) rs) =
              length (filter (fun o => match o with Some j => j =? id | None => false end) (attr_trace (state_new ms mf) rs))).
Proof.
  intros H.
  assert (F : forall j, fs_round_count (flow_or_new s' j) = Z.of_nat (length (flow_rounds j (state_new ms mf) rs))).
  { intros j. pose proof (flows_are_their_rounds rs (state_new ms mf) s' j dense_new ltac:(cbn; lia) H) as F.
    rewrite flow_or_new_initial in F. rewrite (fs_run_round_count _ _ _ F). cbn. lia. }
  split; [apply F|]. split; [rewrite F, (flow_rounds_default rs _ _ H); reflexivity|].
  intros Hid. rewrite (flow_rounds_are_attributed rs _ s' id H Hid), map_length.
  pose proof (attr_trace_length rs _ _ H) as Hl. revert Hl. generalize (attr_trace (state_new ms mf) rs) as tr.
  clear. induction rs as [|r t IH]; intros [|o tr] Hl; cbn [length] in Hl; try lia; [reflexivity|].
  cbn [combine filter]. unfold picked at 1. cbn [snd].
  destruct o as [j|]; [destruct (j =? id)|]; cbn [length]; rewrite (IH tr) by lia; reflexivity.
Qed.

(* the flow id reported for the current round is the identifier of the LAST round that was attributed
   (it goes stale, and only then, while rounds are left unattributed) *)
Definition last_some (l : list (option Z)) (d : Z) : Z :=
  fold_left (fun d o => match o with Some k => k | None => d end) l d.

Theorem round_flow_id_is_last_attributed : forall rs s s', st_run s rs = Ok s' ->
  st_round_flow_id s' = last_some (attr_trace s rs) (st_round_flow_id s).
Proof.
  induction rs as [|r t IH]; intros s s' H; cbn [st_run attr_trace] in *; [inversion H; reflexivity|].
  destruct (update_from_round s r) as [s1|?|?] eqn:Eu; cbn [bind] in H; try discriminate.
  unfold last_some. cbn [fold_left]. fold (last_some (attr_trace s1 t)).
  rewrite (IH s1 s' H). destruct (update_from_round_registry s r s1 Eu) as (_ & _ & Hid & _). rewrite Hid. reflexivity.
Qed.

(* which per-flow states exist: the map of one round *)
Lemma update_from_round_flows_map s r s' : update_from_round s r = Ok s' ->
  exists f0, fs_apply (flow_or_new s 0) r = Ok f0 /\
    match attributed s r with
    | Some k => exists fk, st_flows s' = flows_set (flows_set (st_flows s) 0 f0) k fk
    | None => st_flows s' = flows_set (st_flows s) 0 f0
    end.
Proof.
  intros H. unfold update_from_round in H.
  unfold update_trace_flow at 1 in H. fold (flow_or_new s 0) in H.
  destruct (fs_apply (flow_or_new s 0) r) as [f0|?|?] eqn:E0; cbn [bind] in H; try discriminate.
  exists f0. split; [reflexivity|]. cbn [st_registry st_max_flows] in H. unfold attributed.
  destruct (Z.of_nat (length (reg_flows (st_registry s))) <? st_max_flows s) eqn:Ecap.
  - destruct (register (st_registry s) (round_flow r)) as [reg i] eqn:Er. cbn [snd].
    unfold update_trace_flow, with_registry in H. cbn [st_flows st_max_samples st_max_flows st_registry st_round_flow_id st_error] in H.
    match type of H with context [fs_apply ?x r] => destruct (fs_apply x r) as [fi|?|?] end; cbn [bind] in H; try discriminate. injection H as <-. cbn [st_flows]. eexists; reflexivity.
  - destruct (register_existing (st_registry s) (round_flow r)) as [reg o] eqn:Er. cbn [snd]. destruct o as [i|].
    + unfold update_trace_flow, with_registry in H. cbn [st_flows st_max_samples st_max_flows st_registry st_round_flow_id st_error] in H.
      match type of H with context [fs_apply ?x r] => destruct (fs_apply x r) as [fi|?|?] end; cbn [bind] in H; try discriminate. injection H as <-. cbn [st_flows]. eexists; reflexivity.
    + injection H as <-. reflexivity.
Qed.

Lemma flows_get_set l id v j : flows_get (flows_set l id v) j = if j =? id then Some v else flows_get l j.
Proof.
  destruct (j =? id) eqn:E.
  - assert (j = id) by lia. subst j. apply flows_get_set_eq.
  - apply flows_get_set_neq. lia.
Qed.

Lemma round_flow_keys s r s' id : update_from_round s r = Ok s' ->
  (flows_get (st_flows s') id <> None <->
   flows_get (st_flows s) id <> None \/ id = 0 \/ attributed s r = Some id).
Proof.
  intros H. destruct (update_from_round_flows_map s r s' H) as (f0 & _ & Hm).
  destruct (attributed s r) as [k|].
  - destruct Hm as [fk ->]. rewrite !flows_get_set.
    destruct (id =? k) eqn:E1; [split; [intros _; right; right; f_equal; lia|discriminate]|].
    destruct (id =? 0) eqn:E2; [split; [intros _; right; left; lia|discriminate]|].
    split; [tauto|]. intros [?|[?|X]]; [assumption|lia|inversion X; lia].
  - rewrite Hm, flows_get_set. destruct (id =? 0) eqn:E2; [split; [intros _; right; left; lia|discriminate]|].
    split; [tauto|]. intros [?|[?|X]]; [assumption|lia|discriminate].
Qed.

(* per-flow states are never removed, and exist exactly for the default flow and the identifiers that were
   attributed at least one round *)
Theorem flow_keys : forall rs s s' id, st_run s rs = Ok s' ->
  (flows_get (st_flows s') id <> None <->
   flows_get (st_flows s) id <> None \/ (id = 0 /\ rs <> []) \/ In (Some id) (attr_trace s rs)).
Proof.
  induction rs as [|r t IH]; intros s s' id H; cbn [st_run attr_trace] in *.
  - inversion H; subst. split; [tauto|]. intros [?|[[_ X]|[]]]; [assumption|congruence].
  - destruct (update_from_round s r) as [s1|?|?] eqn:Eu; cbn [bind] in H; try discriminate.
    rewrite (IH s1 s' id H), (round_flow_keys s r s1 id Eu). cbn [In]. split.
    + intros [[?|[?|?]]|[[? ?]|?]]; auto. right; left; split; [assumption|discriminate].
      right; left; split; [assumption|discriminate].
    + intros [?|[[? _]|[?|?]]]; auto.
Qed.

(* the statement the property makes, in one piece: the state recorded under a non-default identifier is the fold,
   over a fresh flow state, of exactly the rounds whose attribution is that identifier (in order), and the default
   flow 0 is the fold of every round - hence round counts and every hop statistic are those of these rounds *)
Theorem per_flow_statistics rs ms mf s' id : st_run (state_new ms mf) rs = Ok s' -> id <> 0 ->
  fs_run (flow_state_new ms)
         (map fst (filter (picked id) (combine rs (attr_trace (state_new ms mf) rs)))) = Ok (flow_or_new s' id) /\
  fs_run (flow_state_new ms) rs = Ok (flow_or_new s' 0).
Proof.
  intros H Hid.
  assert (F : forall j, fs_run (flow_state_new ms) (flow_rounds j (state_new ms mf) rs) = Ok (flow_or_new s' j)).
  { intros j. pose proof (flows_are_their_rounds rs (state_new ms mf) s' j dense_new ltac:(cbn; lia) H) as F.
    rewrite flow_or_new_initial in F. exact F. }
  split.
  - rewrite <- (flow_rounds_are_attributed rs _ s' id H Hid). apply F.
  - rewrite <- (flow_rounds_default rs _ _ H) at 1. apply F.
Qed.

(* ====================================================================== 5b. a specification that never looks at the State
   The abstract registry is a plain list of flows; the identifier of an entry is its position + 1. *)
Fixpoint clashb (e f : flow) : bool :=
  match e, f with
  | FKnown a :: e', FKnown b :: f' => negb (addr_eqb a b) || clashb e' f'
  | _ :: e', _ :: f' => clashb e' f'
  | _, _ => false
  end.

Lemma clashb_iff : forall e f, clashb e f = true <-> conflict e f.
Proof.
  induction e as [|x e IH]; intros f.
  - cbn [clashb]. split; [discriminate|]. intros H. exfalso. exact (conflict_nil_l f H).
  - destruct f as [|y f].
    + destruct x; cbn [clashb]; (split; [discriminate|]); intros H; exfalso; exact (conflict_nil_r _ H).
    + destruct x as [|a], y as [|b]; cbn [clashb].
      * rewrite IH. split; [apply conflict_cons|]. intros H. apply conflict_cons_inv in H.
        destruct H as [(a & b & Hx & _)|H]; [discriminate|assumption].
      * rewrite IH. split; [apply conflict_cons|]. intros H. apply conflict_cons_inv in H.
        destruct H as [(a & b0 & Hx & _)|H]; [discriminate|assumption].
      * rewrite IH. split; [apply conflict_cons|]. intros H. apply conflict_cons_inv in H.
        destruct H as [(a0 & b & _ & Hy & _)|H]; [discriminate|assumption].
      * destruct (addr_eqb a b) eqn:E; cbn [negb orb].
        -- apply list_eqb_eq in E. subst b. rewrite IH. split; [apply conflict_cons|]. intros H.
           apply conflict_cons_inv in H. destruct H as [(a1 & b1 & Hx & Hy & Hn)|H]; [congruence|assumption].
        -- apply addr_eqb_false in E. split; [|reflexivity]. intros _. exists 0%nat, a, b. repeat split; assumption.
Qed.

Lemma clashb_check e f : clashb e f = match check e f with NoMatch => true | _ => false end.
Proof.
  destruct (clashb e f) eqn:Ec.
  - apply clashb_iff in Ec. apply check_nomatch_iff in Ec. rewrite Ec. reflexivity.
  - destruct (check e f) eqn:Ek; try reflexivity.
    apply check_nomatch_iff in Ek. apply clashb_iff in Ek. congruence.
Qed.

Fixpoint fit_pos (reg : list flow) (f : flow) : option nat :=
  match reg with
  | [] => None
  | e :: rest => if clashb e f then option_map S (fit_pos rest f) else Some 0%nat
  end.

Fixpoint set_nth {A} (n : nat) (x : A) (l : list A) : list A :=
  match l, n with
  | [], _ => []
  | _ :: t, O => x :: t
  | y :: t, S n' => y :: set_nth n' x t
  end.

Definition spec_step (maxf : Z) (reg : list flow) (f : flow) : list flow * option Z :=
  match fit_pos reg f with
  | Some n => (set_nth n (merge (nth n reg []) f) reg, Some (Z.of_nat n + 1))
  | None => if Z.of_nat (length reg) <? maxf then (reg ++ [f], Some (Z.of_nat (length reg) + 1)) else (reg, None)
  end.

Fixpoint spec_trace (maxf : Z) (reg : list flow) (fs : list flow) : list (option Z) * list flow :=
  match fs with
  | [] => ([], reg)
  | f :: t => let '(reg1, o) := spec_step maxf reg f in
              let '(os, reg2) := spec_trace maxf reg1 t in (o :: os, reg2)
  end.

Lemma find_merge_fit_pos : forall fl f,
  match find_merge fl f with
  | Some (fl', k) => exists n e, fit_pos (map fst fl) f = Some n /\ nth_error fl n = Some (e, k) /\
                       map fst fl' = set_nth n (merge (nth n (map fst fl) []) f) (map fst fl)
  | None => fit_pos (map fst fl) f = None
  end.
Proof.
  induction fl as [|[e id] rest IH]; intros f; cbn [find_merge map fst fit_pos]; [reflexivity|].
  rewrite clashb_check. destruct (check e f) eqn:Ec.
  - exists 0%nat, e. cbn [nth_error nth set_nth map fst]. repeat split.
    rewrite (covers_merge_id f e); [reflexivity|apply check_match_iff; assumption].
  - specialize (IH f). destruct (find_merge rest f) as [[r' k]|].
    + destruct IH as (n & e0 & Hp & Hn & Hm). exists (S n), e0. rewrite Hp. cbn [option_map nth_error nth set_nth map fst].
      repeat split; [assumption|]. f_equal. assumption.
    + rewrite IH. reflexivity.
  - exists 0%nat, e. cbn [nth_error nth set_nth map fst]. repeat split.
Qed.

Lemma spec_step_sim s r s1 : dense (st_registry s) -> update_from_round s r = Ok s1 ->
  spec_step (st_max_flows s) (map fst (regl s)) (round_flow r) = (map fst (regl s1), attributed s r).
Proof.
  intros Hd H. destruct (update_from_round_registry s r s1 H) as (_ & _ & _ & Hreg).
  rewrite (attributed_spec s r Hd), first_fit_find_merge. rewrite Hreg. unfold spec_step.
  pose proof (find_merge_fit_pos (regl s) (round_flow r)) as F. rewrite map_length.
  destruct (find_merge (regl s) (round_flow r)) as [[fl k]|].
  - destruct F as (n & e & Hp & Hn & Hm). rewrite Hp, Hm. do 2 f_equal.
    symmetry. apply (dense_nth _ _ _ _ Hd Hn).
  - rewrite F. destruct (Z.of_nat (length (regl s)) <? st_max_flows s); [|reflexivity].
    rewrite map_app. reflexivity.
Qed.

(* REFINEMENT: the identifiers given to the rounds of ANY history, and the flows the registry ends up holding,
   are those of the abstract first-fit registry run over the rounds' flows alone *)
Theorem attribution_refines_spec : forall rs s s', dense (st_registry s) -> cap s -> st_run s rs = Ok s' ->
  spec_trace (st_max_flows s) (map fst (regl s)) (map round_flow rs) = (attr_trace s rs, map fst (regl s')).
Proof.
  induction rs as [|r t IH]; intros s s' Hd Hc H; cbn [st_run map spec_trace attr_trace] in *.
  - inversion H; subst. reflexivity.
  - destruct (update_from_round s r) as [s1|?|?] eqn:Eu; cbn [bind] in H; try discriminate.
    rewrite (spec_step_sim s r s1 Hd Eu).
    destruct (round_step s r s1 Hd Hc Eu) as (Hd1 & Hc1 & Hm1 & _).
    rewrite <- Hm1. rewrite (IH s1 s' Hd1 Hc1 H). reflexivity.
Qed.

Corollary attribution_refines_spec_fresh rs ms mf s' : st_run (state_new ms mf) rs = Ok s' ->
  spec_trace mf [] (map round_flow rs) = (attr_trace (state_new ms mf) rs, map fst (regl s')).
Proof.
  intros H. exact (attribution_refines_spec rs (state_new ms mf) s' dense_new ltac:(unfold cap; cbn; lia) H).
Qed.

(* ====================================================================== 5c. the round's flow, position by position *)
(* the hosts of the probes of the round, in round order (None: no answer - awaited, or the send failed: F20, repaired);
   skipped probes (abandoned slots whose ttl is probed again under the next sequence) have no position - this is the
   filter_map of State::update_from_round *)
Definition sent_hosts (r : round_rec) : list (option addr) :=
  flat_map (fun st => match st with Awaited _ | Failed _ => [None] | Complete c => [Some (c_host c)] | _ => [] end) (rr_probes r).

Lemma nth_firstn_iff {A} (l : list A) : forall n k x,
  nth_error (firstn n l) k = Some x <-> (k < n)%nat /\ nth_error l k = Some x.
Proof.
  induction l as [|y l IH]; intros [|n] [|k] x; cbn [firstn nth_error]; try (split; [discriminate|intros [? ?]; try lia; discriminate]).
  - split; [intros H; split; [lia|assumption]|tauto].
  - rewrite IH. split; intros [? ?]; split; try lia; assumption.
Qed.

(* position i of the round's flow is the known address a iff the i-th probe on the wire was answered by a and
   i is below the round's path length *)
Theorem round_flow_known r i a :
  known_at (round_flow r) i a <-> (i < Z.to_nat (rr_largest_ttl r))%nat /\ nth_error (sent_hosts r) i = Some (Some a).
Proof.
  unfold known_at, round_flow, from_hops. fold (sent_hosts r). rewrite nth_error_map.
  destruct (nth_error (firstn (Z.to_nat (rr_largest_ttl r)) (sent_hosts r)) i) as [o|] eqn:E; cbn [option_map].
  - apply nth_firstn_iff in E. destruct E as [Hi Hn]. rewrite Hn. destruct o as [b|].
    + split; [intros H; inversion H; subst; split; [assumption|reflexivity]|intros [_ H]; inversion H; reflexivity].
    + split; [discriminate|intros [_ H]; discriminate].
  - split; [discriminate|]. intros [Hi Hn].
    assert (X : nth_error (firstn (Z.to_nat (rr_largest_ttl r)) (sent_hosts r)) i = Some (Some a)) by (apply nth_firstn_iff; split; assumption).
    congruence.
Qed.

(* the first clause of the property: the flow a round is attributed to agrees, position by position, with every
   address seen in that round (and is at least as long as the round's flow) *)
Theorem round_agrees_pointwise s r s' k : dense (st_registry s) -> cap s -> update_from_round s r = Ok s' ->
  attributed s r = Some k ->
  exists e, In (e, k) (regl s') /\ st_round_flow_id s' = k /\ (length (round_flow r) <= length e)%nat /\
    forall i a, (i < Z.to_nat (rr_largest_ttl r))%nat -> nth_error (sent_hosts r) i = Some (Some a) -> known_at e i a.
Proof.
  intros Hd Hc H Hk. destruct (round_step s r s' Hd Hc H) as (_ & _ & _ & _ & Hown).
  destruct (Hown k Hk) as (n & e & Hn & Hcov & _).
  destruct (update_from_round_registry s r s' H) as (_ & _ & Hid & _). rewrite Hk in Hid.
  exists e. split; [eapply nth_error_In; exact Hn|]. split; [assumption|].
  apply covers_pointwise in Hcov. destruct Hcov as [Hl Hp]. split; [assumption|].
  intros i a Hi Hs. apply Hp. apply round_flow_known. split; assumption.
Qed.

(* "position" is the index among the probes that were put on the wire, NOT ttl - 1.  A probe whose send failed
   transiently has no position, so every later hop of that round moves up by one: two rounds over the SAME path (the same
   host at every ttl that answered) are then given DIFFERENT identifiers *)
Definition host_at (r : round_rec) (t : Z) : option addr :=
  match find (fun st => match st with Complete c => p_ttl (c_probe c) =? t | _ => false end) (rr_probes r) with
  | Some (Complete c) => Some (c_host c)
  | _ => None
  end.

(* ====================================================================== 6. examples *)
Definition fh_probe (q t : Z) : probe :=
  {| p_sequence := q; p_identifier := 0; p_src_port := 0; p_dest_port := 0; p_ttl := t; p_round := 0; p_sent := 0; p_flags := 0 |}.
Definition fh_done (q t : Z) (a : addr) : pstatus :=
  Complete {| c_probe := fh_probe q t; c_host := a; c_received := 5; c_icmp := ITimeExceeded 0; c_tos := None;
              c_expected := None; c_actual := None; c_exts := None |}.
Definition fh_round (ps : list pstatus) (l : Z) : round_rec :=
  {| rr_probes := ps; rr_largest_ttl := l; rr_reason := RoundTimeLimitExceeded |}.
Definition fh_a : addr := [10;0;0;1].
Definition fh_b : addr := [10;0;0;2].
Definition fh_c : addr := [10;0;0;3].
Definition fh_d : addr := [10;0;0;4].
(* hop 1 answers, hop 2 silent / answers b / answers c;  a different first hop d *)
Definition fh_r1 := fh_round [fh_done 1 1 fh_a; Awaited (fh_probe 2 2)] 2.
Definition fh_r2 := fh_round [fh_done 1 1 fh_a; fh_done 2 2 fh_b] 2.
Definition fh_r3 := fh_round [fh_done 1 1 fh_a; fh_done 2 2 fh_c] 2.
Definition fh_r4 := fh_round [fh_done 1 1 fh_d; fh_done 2 2 fh_b] 2.
Definition fh_get (r : result state) : state := match r with Ok s => s | _ => state_new 0 0 end.

(* the unconditional reading of "a later round with an extended flow is attributed to the same identifier" is FALSE:
   round 1 sees [a, ?] -> id 1; round 2 sees [a, b] -> merged into id 1; round 3 sees [a, c], which extends [a, ?]
   but conflicts with what id 1 has become, and is given id 2 *)
Theorem extension_stability_refuted :
  exists s r s1 k rs s2 r', dense (st_registry s) /\ cap s /\
    update_from_round s r = Ok s1 /\ attributed s r = Some k /\ st_run s1 rs = Ok s2 /\
    extends (round_flow r) (round_flow r') /\ attributed s2 r' = Some (k + 1).
Proof.
  exists (state_new 10 4), fh_r1, (fh_get (update_from_round (state_new 10 4) fh_r1)), 1, [fh_r2],
         (fh_get (st_run (fh_get (update_from_round (state_new 10 4) fh_r1)) [fh_r2])), fh_r3.
  split; [apply dense_new|]. split; [unfold cap; cbn; lia|].
  split; [vm_compute; reflexivity|]. split; [vm_compute; reflexivity|]. split; [vm_compute; reflexivity|].
  split; [vm_compute; auto|vm_compute; reflexivity].
Qed.

(* a history with max_flows = 2: ids 1 and 2 are created, the third path is left unattributed, a later round of
   the first path is still attributed to id 1 *)
Example fh_history_example :
  let s0 := state_new 10 2 in
  attr_trace s0 [fh_r1; fh_r4; fh_r3; fh_r2; fh_r1] = [Some 1; Some 2; Some 1; None; Some 1] /\
  map snd (regl (fh_get (st_run s0 [fh_r1; fh_r4; fh_r3; fh_r2; fh_r1]))) = [1; 2] /\
  st_round_flow_id (fh_get (st_run s0 [fh_r1; fh_r4; fh_r3; fh_r2; fh_r1])) = 1 /\
  fs_round_count (flow_or_new (fh_get (st_run s0 [fh_r1; fh_r4; fh_r3; fh_r2; fh_r1])) 1) = 3 /\
  fs_round_count (flow_or_new (fh_get (st_run s0 [fh_r1; fh_r4; fh_r3; fh_r2; fh_r1])) 0) = 5.
Proof. vm_compute. repeat split; reflexivity. Qed.

Definition fh_r5 := fh_round [Failed (fh_probe 1 1); fh_done 2 2 fh_b] 2.

(* F20 (repaired in /repo): a probe whose send failed keeps its position as an unknown hop, so the round [send of ttl 1
   failed, b at ttl 2] over the path [a, b] is attributed to the flow of that path (before the repair it had the flow [b],
   conflicted at position 0 and was given a new identifier) *)
Theorem failed_probe_keeps_position :
  exists r1 r2, (forall t a, host_at r2 t = Some a -> host_at r1 t = Some a) /\
    attr_trace (state_new 10 4) [r1; r2] = [Some 1; Some 1] /\
    round_flow r1 = [FKnown fh_a; FKnown fh_b] /\ round_flow r2 = [FUnknown; FKnown fh_b].
Proof.
  exists fh_r2, fh_r5. split; [|vm_compute; repeat split; reflexivity].
  intros t a. unfold host_at, fh_r5, fh_r2, fh_round. cbn [rr_probes find fh_done fh_probe c_probe p_ttl c_host].
  destruct (1 =? t) eqn:E1; destruct (2 =? t) eqn:E2; try lia; intros H; try discriminate; exact H.
Qed.

Example fh_spec_example :
  fst (spec_trace 2 [] (map round_flow [fh_r1; fh_r4; fh_r3; fh_r2; fh_r1])) = [Some 1; Some 2; Some 1; None; Some 1] /\
  snd (spec_trace 2 [] (map round_flow [fh_r1; fh_r4; fh_r3; fh_r2; fh_r1])) =
    [[FKnown fh_a; FKnown fh_c]; [FKnown fh_d; FKnown fh_b]].
Proof. vm_compute. split; reflexivity. Qed.

Example fh_conflict_example : conflict [FKnown fh_a; FKnown fh_b] [FKnown fh_a; FKnown fh_c] /\
  ~ conflict [FKnown fh_a; FUnknown] [FKnown fh_a; FKnown fh_c] /\
  extends [FKnown fh_a; FUnknown] [FKnown fh_a; FKnown fh_c; FUnknown].
Proof.
  split; [exists 1%nat, fh_b, fh_c; repeat split; discriminate|]. split.
  - intros C. apply check_nomatch_iff in C. vm_compute in C. discriminate.
  - cbn. auto.
Qed.
