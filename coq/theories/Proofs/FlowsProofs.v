(* C15: the flow registry. *)
From TV Require Import Base.Result Core.Types Core.Flows.
From Coq Require Import ZifyBool.

Lemma list_eqb_eq a : forall b, list_eqb a b = true <-> a = b.
Proof.
  induction a as [|x a IH]; intros [|y b]; cbn; split; intros H; try discriminate; try reflexivity.
  - apply andb_true_iff in H. destruct H as [H1 H2]. apply Z.eqb_eq in H1. apply IH in H2. congruence.
  - inversion H; subst. apply andb_true_iff. split; [apply Z.eqb_refl|apply IH; reflexivity].
Qed.

(* [covers e f]: e is at least as long as f and agrees with f wherever f is known *)
Fixpoint covers (e f : flow) : Prop :=
  match f, e with
  | [], _ => True
  | _ :: _, [] => False
  | FKnown a :: f', FKnown b :: e' => a = b /\ covers e' f'
  | FKnown _ :: _, FUnknown :: _ => False
  | FUnknown :: f', _ :: e' => covers e' f'
  end.

(* [extends e e']: e' never contradicts or forgets what e recorded, and is at least as long *)
Definition extends (e e' : flow) : Prop := covers e' e.

Lemma covers_refl e : covers e e.
Proof. induction e as [|x e IH]; [exact I|]. destruct x; cbn; auto. Qed.

Lemma covers_trans a b c : covers a b -> covers b c -> covers a c.
Proof.
  revert a b. induction c as [|z c IH]; intros a b Hab Hbc; [destruct a; exact I|].
  destruct b as [|y b]; [destruct z; contradiction|].
  destruct a as [|x a]; [destruct y; contradiction|].
  destruct z as [|cz].
  - (* unknown in c *)
    assert (Hbc' : covers b c) by (destruct y; exact Hbc).
    assert (Hab' : covers a b) by (destruct y, x; cbn in Hab; try contradiction; try exact Hab; destruct Hab; assumption).
    cbn. destruct x; eapply IH; eassumption.
  - destruct y as [|by_]; [contradiction|]. destruct Hbc as [-> Hbc].
    destruct x as [|ax]; [contradiction|]. destruct Hab as [-> Hab].
    cbn. split; [reflexivity|eapply IH; eassumption].
Qed.

(* check_zip = Some k: no position holds two different known addresses, k = number of Unknown->Known positions *)
Lemma check_zip_some e : forall f k k', check_zip e f k = Some k' ->
  k <= k' /\
  (k' = k -> (length f <= length e)%nat -> covers e f).
Proof.
  induction e as [|x e IH]; intros f k k' H.
  - cbn in H. inversion H; subst. split; [lia|]. intros _ Hl. destruct f; [exact I|cbn in Hl; lia].
  - destruct f as [|y f]; cbn in H.
    + inversion H; subst. split; [lia|]. intros; exact I.
    + destruct x as [|a], y as [|b].
      * destruct (IH f k k' H) as [H1 H2]. split; [assumption|]. intros He Hl. cbn. apply H2; [assumption|cbn in Hl; lia].
      * destruct (IH f (k + 1) k' H) as [H1 H2]. split; [lia|]. intros He. lia.
      * destruct (IH f k k' H) as [H1 H2]. split; [assumption|]. intros He Hl. cbn. apply H2; [assumption|cbn in Hl; lia].
      * destruct (addr_eqb a b) eqn:E; [|discriminate]. apply list_eqb_eq in E. subst b.
        destruct (IH f k k' H) as [H1 H2]. split; [assumption|]. intros He Hl. cbn. split; [reflexivity|]. apply H2; [assumption|cbn in Hl; lia].
Qed.

(* no conflict (check_zip succeeds) => the merge covers both *)
Lemma merge_covers e : forall f k k', check_zip e f k = Some k' -> covers (merge e f) f /\ covers (merge e f) e.
Proof.
  induction e as [|x e IH]; intros f k k' H.
  - cbn [merge]. split; [apply covers_refl|destruct f as [|[|?] ?]; exact I].
  - destruct f as [|y f].
    + cbn [merge]. split; [exact I|apply covers_refl].
    + cbn in H. destruct x as [|a], y as [|b]; cbn [merge].
      * destruct (IH f k k' H). split; cbn; assumption.
      * destruct (IH f (k + 1) k' H). split; cbn; [split; [reflexivity|assumption]|assumption].
      * destruct (IH f k k' H). split; cbn; [assumption|split; [reflexivity|assumption]].
      * destruct (addr_eqb a b) eqn:E; [|discriminate]. apply list_eqb_eq in E. subst b.
        destruct (IH f k k' H). split; cbn; (split; [reflexivity|assumption]).
Qed.

Lemma merge_length e : forall f, length (merge e f) = Nat.max (length e) (length f).
Proof. induction e as [|x e IH]; intros [|y f]; cbn; auto. Qed.

(* the entry a matching check selects covers the flow (after the merge, if any) and extends the old entry *)
Lemma check_covers e f :
  match check e f with
  | Match => covers e f
  | MatchMerge => covers (merge e f) f /\ extends e (merge e f)
  | NoMatch => True
  end.
Proof.
  unfold check, extends. destruct (check_zip e f 0) as [k|] eqn:H; [|exact I].
  destruct ((length e <? length f)%nat || (0 <? k)) eqn:E.
  - apply (merge_covers e f 0 k H).
  - destruct (check_zip_some e f 0 k H) as [H1 H2]. apply H2; [lia|].
    apply orb_false_iff in E. destruct E as [E _]. apply Nat.ltb_ge in E. exact E.
Qed.

(* ---- registry ---- *)
Definition ids (fl : list (flow * Z)) : list Z := map snd fl.

Lemma find_merge_spec fl : forall f fl' id, find_merge fl f = Some (fl', id) ->
  ids fl' = ids fl /\ In id (ids fl) /\
  (exists e', In (e', id) fl' /\ covers e' f) /\
  Forall2 (fun old new => snd old = snd new /\ extends (fst old) (fst new)) fl fl'.
Proof.
  induction fl as [|[e i] rest IH]; intros f fl' id H; cbn in H; [discriminate|].
  pose proof (check_covers e f) as Hc.
  destruct (check e f) eqn:Ec.
  - inversion H; subst. cbn. repeat split; auto.
    + exists e. split; [left; reflexivity|assumption].
    + constructor; [split; [reflexivity|apply covers_refl]|]. clear. induction rest as [|[a b] r IH]; constructor; auto. split; [reflexivity|apply covers_refl].
  - destruct (find_merge rest f) as [[rest' id']|] eqn:Er; [|discriminate]. inversion H; subst.
    destruct (IH f rest' id Er) as (H1 & H2 & (e' & H3 & H4) & H5).
    cbn. repeat split; [f_equal; assumption|right; assumption| |].
    + exists e'. split; [right; assumption|assumption].
    + constructor; [split; [reflexivity|apply covers_refl]|assumption].
  - inversion H; subst. destruct Hc as [Hc1 Hc2]. cbn. repeat split; auto.
    + exists (merge e f). split; [left; reflexivity|assumption].
    + constructor; [split; [reflexivity|assumption]|]. clear. induction rest as [|[a b] r IH]; constructor; auto. split; [reflexivity|apply covers_refl].
Qed.

Fixpoint zseq (a : Z) (n : nat) : list Z := match n with O => [] | S n' => a :: zseq (a + 1) n' end.

Lemma zseq_snoc n : forall a, zseq a (S n) = zseq a n ++ [a + Z.of_nat n].
Proof.
  induction n as [|n IH]; intros a.
  - cbn. rewrite Z.add_0_r. reflexivity.
  - change (zseq a (S (S n))) with (a :: zseq (a + 1) (S n)). rewrite IH.
    change (zseq a (S n)) with (a :: zseq (a + 1) n). cbn [app].
    replace (a + 1 + Z.of_nat n) with (a + Z.of_nat (S n)) by lia. reflexivity.
Qed.

(* ids are issued densely from 1 in registration order *)
Definition dense (r : registry) : Prop :=
  ids (reg_flows r) = zseq 1 (length (reg_flows r)) /\ next_flow_id r = 1 + Z.of_nat (length (reg_flows r)).

Lemma dense_new : dense registry_new.
Proof. split; reflexivity. Qed.

Lemma register_spec r f r' id : dense r -> register r f = (r', id) ->
  dense r' /\
  (exists e', In (e', id) (reg_flows r') /\ covers e' f) /\
  (length (reg_flows r) <= length (reg_flows r') <= S (length (reg_flows r)))%nat /\
  Forall2 (fun old new => snd old = snd new /\ extends (fst old) (fst new))
          (reg_flows r) (firstn (length (reg_flows r)) (reg_flows r')).
Proof.
  intros [Hd1 Hd2] H. unfold register in H.
  destruct (find_merge (reg_flows r) f) as [[fl id']|] eqn:Ef.
  - inversion H; subst. destruct (find_merge_spec _ _ _ _ Ef) as (H1 & H2 & H3 & H4).
    assert (Hl : length fl = length (reg_flows r)) by (unfold ids in H1; rewrite <- (map_length snd fl), H1, map_length; reflexivity).
    cbn [reg_flows next_flow_id]. split; [|split; [|split]].
    + split; cbn [reg_flows next_flow_id]; [unfold ids in *; rewrite Hl; congruence|rewrite Hl; assumption].
    + assumption.
    + lia.
    + rewrite <- Hl, firstn_all. assumption.
  - inversion H; subst. cbn [reg_flows next_flow_id]. split; [|split; [|split]].
    + split; cbn [reg_flows next_flow_id].
      * unfold ids in *. rewrite map_app, app_length. cbn [map snd length]. rewrite Nat.add_1_r, zseq_snoc, Hd1, Hd2. reflexivity.
      * rewrite app_length. cbn [length]. lia.
    + exists f. split; [apply in_or_app; right; left; reflexivity|apply covers_refl].
    + rewrite app_length; cbn [length]; lia.
    + rewrite firstn_app, firstn_all, Nat.sub_diag. cbn [firstn]. rewrite app_nil_r.
      clear. induction (reg_flows r) as [|[a b] l IH]; constructor; auto. split; [reflexivity|apply covers_refl].
Qed.

Lemma register_existing_spec r f r' o : dense r -> register_existing r f = (r', o) ->
  dense r' /\ length (reg_flows r') = length (reg_flows r) /\
  Forall2 (fun old new => snd old = snd new /\ extends (fst old) (fst new)) (reg_flows r) (reg_flows r') /\
  match o with
  | Some id => exists e', In (e', id) (reg_flows r') /\ covers e' f
  | None => r' = r /\ find_merge (reg_flows r) f = None
  end.
Proof.
  intros [Hd1 Hd2] H. unfold register_existing in H.
  destruct (find_merge (reg_flows r) f) as [[fl id']|] eqn:Ef.
  - inversion H; subst. destruct (find_merge_spec _ _ _ _ Ef) as (H1 & H2 & H3 & H4).
    assert (Hl : length fl = length (reg_flows r)) by (unfold ids in H1; rewrite <- (map_length snd fl), H1, map_length; reflexivity).
    cbn [reg_flows next_flow_id]. split; [|split; [|split]].
    + split; cbn [reg_flows next_flow_id]; [unfold ids in *; rewrite Hl; congruence|rewrite Hl; assumption].
    + assumption.
    + assumption.
    + assumption.
  - injection H as <- <-. split; [|split; [|split]].
    + split; assumption.
    + reflexivity.
    + clear. induction (reg_flows r) as [|[a b] l IH]; constructor; auto. split; [reflexivity|apply covers_refl].
    + split; reflexivity.
Qed.

(* a saturated registry still finds (first match wins) any flow compatible with an existing entry *)
Lemma find_merge_none fl : forall f, find_merge fl f = None -> Forall (fun e => check (fst e) f = NoMatch) fl.
Proof.
  induction fl as [|[e i] rest IH]; intros f H; [constructor|]. cbn in H.
  destruct (check e f) eqn:Ec; try discriminate.
  destruct (find_merge rest f) as [[? ?]|] eqn:Er; [discriminate|]. constructor; [assumption|apply IH; assumption].
Qed.
