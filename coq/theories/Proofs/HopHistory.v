(* C05, refinement form: the hop record after ANY sequence of aggregator updates equals an independent
   recomputation from that sequence of events (counts, bounded newest-first sample history, jitter figures,
   last-probe details, per-address counts, NAT status), and the derived figures obey their laws. *)
From Coq Require Import QArith.
From TV Require Import Base.Result Core.Types Core.Flows Core.State Proofs.HopProofs Proofs.FlowsProofs.
Open Scope Z_scope.

(* one aggregator update of one hop *)
Inductive hev :=
| HC (c : pcomplete)                                (* a completed probe *)
| HU (p : probe) (failed fwd bwd : bool)             (* an awaited / failed probe, with the loss attribution *)
| HN (n : nat_status).                               (* NAT status written after a completed probe *)

Definition hop_step (ms : Z) (h : hop) (e : hev) : hop :=
  match e with
  | HC c => hop_complete ms c h
  | HU p f fw bw => hop_unanswered ms p f fw bw h
  | HN n => hop_set_nat n h
  end.
Definition hop_run_from (ms : Z) (h : hop) (es : list hev) : hop := fold_left (hop_step ms) es h.
Definition hop_run (ms : Z) (es : list hev) : hop := hop_run_from ms hop_default es.

(* ---------------------------------------------------------------- the recomputation (no reference to the code) *)
Definition ev_rtts (es : list hev) : list Z := flat_map (fun e => match e with HC c => [rtt_of c] | _ => [] end) es.
Definition ev_durs (es : list hev) : list Z :=
  flat_map (fun e => match e with HC c => [rtt_of c] | HU _ _ _ _ => [0] | HN _ => [] end) es.
Definition ev_hosts (es : list hev) : list addr := flat_map (fun e => match e with HC c => [c_host c] | _ => [] end) es.
Definition count (f : hev -> bool) (es : list hev) : Z := Z.of_nat (length (filter f es)).
Definition is_probe (e : hev) : bool := match e with HN _ => false | _ => true end.
Definition is_failed (e : hev) : bool := match e with HU _ true _ _ => true | _ => false end.
Definition is_fwd (e : hev) : bool := match e with HU _ _ true _ => true | _ => false end.
Definition is_bwd (e : hev) : bool := match e with HU _ _ _ true => true | _ => false end.
Definition last_probe (es : list hev) : option probe :=
  fold_left (fun acc e => match e with HC c => Some (c_probe c) | HU p _ _ _ => Some p | HN _ => acc end) es None.
Definition last_complete (es : list hev) : option pcomplete :=
  fold_left (fun acc e => match e with HC c => Some c | _ => acc end) es None.
Definition last_nat (es : list hev) : nat_status :=
  fold_left (fun acc e => match e with HN n => n | _ => acc end) es NatNotApplicable.
Definition jinta_step (j : Q) (x : Z) : Q := (j + (Qmax' (msq x) (1 # 2) - (j + 8) / 16))%Q.
Fixpoint acount (l : list (addr * Z)) (a : addr) : Z :=
  match l with [] => 0 | (b, n) :: r => if addr_eqb a b then n else acount r a end.

Record HopHist (ms : Z) (h : hop) (es : list hev) : Prop := {
  hh_sent : h_sent h = count is_probe es;
  hh_failed : h_failed h = count is_failed es;
  hh_fwd : h_fwd_lost h = count is_fwd es;
  hh_bwd : h_bwd_lost h = count is_bwd es;
  hh_recv : h_recv h = Z.of_nat (length (ev_rtts es));
  hh_last : h_last h = match ev_rtts es with [] => None | _ => Some (last (ev_rtts es) 0) end;
  hh_samples : 0 <= ms -> h_samples h = firstn (Z.to_nat ms) (rev (ev_durs es));
  hh_jmax : omax (h_jmax h) (jitters 0 (ev_rtts es));
  hh_jitter : h_jitter h = match ev_rtts es with [] | [_] => None | _ => Some (last (jitters 0 (ev_rtts es)) 0) end;
  hh_jinta : (h_jinta h == fold_left jinta_step (jitters 0 (ev_rtts es)) 0)%Q;
  hh_probe : match last_probe es with
             | Some p => h_ttl h = p_ttl p /\ h_last_src_port h = p_src_port p /\
                         h_last_dest_port h = p_dest_port p /\ h_last_sequence h = p_sequence p
             | None => h_ttl h = 0 /\ h_last_src_port h = 0 /\ h_last_dest_port h = 0 /\ h_last_sequence h = 0
             end;
  hh_complete : match last_complete es with
                | Some c => h_last_icmp h = Some (c_icmp c) /\ h_tos h = c_tos c /\ h_exts h = c_exts c
                | None => h_last_icmp h = None /\ h_tos h = None /\ h_exts h = None
                end;
  hh_nat : h_last_nat h = last_nat es;
  hh_addrs : forall a, acount (h_addrs h) a = Z.of_nat (length (filter (addr_eqb a) (ev_hosts es)));
  hh_nodup : NoDup (map fst (h_addrs h));
}.

(* ---------------------------------------------------------------- list facts *)
Lemma flat_map_snoc {A B} (f : A -> list B) l x : flat_map f (l ++ [x]) = flat_map f l ++ f x.
Proof. rewrite flat_map_app. cbn [flat_map]. rewrite app_nil_r. reflexivity. Qed.
Lemma count_snoc f es e : count f (es ++ [e]) = count f es + (if f e then 1 else 0).
Proof.
  unfold count. rewrite filter_app, app_length. cbn [filter]. destruct (f e); cbn [length]; lia.
Qed.
Lemma fold_left_snoc {A B} (f : A -> B -> A) l x a : fold_left f (l ++ [x]) a = f (fold_left f l a) x.
Proof. rewrite fold_left_app. reflexivity. Qed.

Lemma removelast_cons {A} (d : A) l : l <> [] -> removelast (d :: l) = d :: removelast l.
Proof. destruct l; [congruence|reflexivity]. Qed.

Lemma push_sample_firstn ms L d : 0 <= ms ->
  push_sample ms (firstn (Z.to_nat ms) L) d = firstn (Z.to_nat ms) (d :: L).
Proof.
  intros Hms. unfold push_sample. set (n := Z.to_nat ms). cbn [length].
  rewrite firstn_length.
  destruct (Nat.le_gt_cases n (length L)) as [Hle|Hgt].
  - rewrite Nat.min_l by assumption.
    replace (ms <? Z.of_nat (S n)) with true by (symmetry; apply Z.ltb_lt; unfold n; lia).
    destruct n as [|k] eqn:En.
    + reflexivity.
    + assert (Hne : firstn (S k) L <> []) by (destruct L; [cbn in Hle; lia|discriminate]).
      change (firstn (S k) (d :: L)) with (d :: firstn k L).
      rewrite removelast_cons by assumption. rewrite removelast_firstn by lia. reflexivity.
  - rewrite Nat.min_r by lia.
    replace (ms <? Z.of_nat (S (length L))) with false by (symmetry; apply Z.ltb_ge; unfold n in Hgt; lia).
    rewrite firstn_all2 by lia. symmetry. apply firstn_all2. cbn [length]. lia.
Qed.

Lemma acount_incr l x a : acount (addr_incr l x) a = acount l a + (if addr_eqb a x then 1 else 0).
Proof.
  induction l as [|[b n] r IH]; cbn [addr_incr acount].
  - destruct (addr_eqb a x); lia.
  - destruct (addr_eqb x b) eqn:Exb.
    + apply list_eqb_eq in Exb. subst b. cbn [acount]. destruct (addr_eqb a x); lia.
    + cbn [acount]. destruct (addr_eqb a b) eqn:Eab.
      * apply list_eqb_eq in Eab. subst b.
        destruct (addr_eqb a x) eqn:Eax; [|lia].
        apply list_eqb_eq in Eax. subst x. unfold addr_eqb in Exb. rewrite (proj2 (list_eqb_eq a a) eq_refl) in Exb. discriminate.
      * exact IH.
Qed.
Lemma keys_incr l x : map fst (addr_incr l x) = map fst l \/
  (map fst (addr_incr l x) = map fst l ++ [x] /\ ~ In x (map fst l)).
Proof.
  induction l as [|[b n] r IH]; cbn [addr_incr map fst].
  - right. split; [reflexivity|intros []].
  - destruct (addr_eqb x b) eqn:Exb; cbn [map fst].
    + left. reflexivity.
    + destruct IH as [IH|[IH Hn]].
      * left. rewrite IH. reflexivity.
      * right. split; [rewrite IH; reflexivity|].
        intros [Hb|Hin]; [|exact (Hn Hin)]. subst b.
        unfold addr_eqb in Exb. rewrite (proj2 (list_eqb_eq x x) eq_refl) in Exb. discriminate.
Qed.
Lemma nodup_snoc {A} (l : list A) x : NoDup l -> ~ In x l -> NoDup (l ++ [x]).
Proof.
  induction l as [|y l IH]; intros H Hn; cbn [app].
  - constructor; [intros []|constructor].
  - inversion H as [|? ? Hy Hl]; subst. constructor.
    + intro Hin. apply in_app_or in Hin. destruct Hin as [Hin|[Hin|[]]]; [contradiction|].
      subst. apply Hn. left. reflexivity.
    + apply IH; [assumption|]. intro. apply Hn. right. assumption.
Qed.
Lemma nodup_incr l x : NoDup (map fst l) -> NoDup (map fst (addr_incr l x)).
Proof.
  intros H. destruct (keys_incr l x) as [E|[E Hn]]; rewrite E; [assumption|].
  apply nodup_snoc; assumption.
Qed.

Lemma omax_snoc o l d : omax o l -> omax (opt_max o d) (l ++ [d]).
Proof.
  unfold omax, opt_max. destruct o as [b|].
  - intros [Hin Hle]. split.
    + destruct (Z.max_spec b d) as [[_ ->]|[_ ->]]; apply in_or_app; [right; left; reflexivity|left; assumption].
    + intros x Hx. apply in_app_or in Hx. destruct Hx as [Hx|[<-|[]]]; [specialize (Hle x Hx)|]; lia.
  - intros ->. cbn [app]. split; [left; reflexivity|]. intros x [<-|[]]. lia.
Qed.

Lemma Qmax'_compat a a' b : (a == a')%Q -> (Qmax' a b == Qmax' a' b)%Q.
Proof.
  intros H. unfold Qmax'. destruct (Qle_bool a b) eqn:Ea, (Qle_bool a' b) eqn:Eb; try reflexivity; try assumption.
  - apply Qle_bool_iff in Ea. rewrite H in Ea. apply Qle_bool_iff in Ea. congruence.
  - apply Qle_bool_iff in Eb. rewrite <- H in Eb. apply Qle_bool_iff in Eb. congruence.
Qed.

(* ---------------------------------------------------------------- the invariant *)
Lemma hist_default ms : HopHist ms hop_default [].
Proof.
  constructor; cbn; try reflexivity; try (repeat split; reflexivity).
  - intros _. destruct (Z.to_nat ms); reflexivity.
  - constructor.
Qed.

Lemma ev_rtts_snoc es e : ev_rtts (es ++ [e]) = ev_rtts es ++ match e with HC c => [rtt_of c] | _ => [] end.
Proof. apply flat_map_snoc. Qed.
Lemma ev_durs_snoc es e : ev_durs (es ++ [e]) = ev_durs es ++ match e with HC c => [rtt_of c] | HU _ _ _ _ => [0] | HN _ => [] end.
Proof. apply flat_map_snoc. Qed.
Lemma ev_hosts_snoc es e : ev_hosts (es ++ [e]) = ev_hosts es ++ match e with HC c => [c_host c] | _ => [] end.
Proof. apply flat_map_snoc. Qed.

Lemma hist_step msamp h es e : HopHist msamp h es -> HopHist msamp (hop_step msamp h e) (es ++ [e]).
Proof.
  intros [Hsent Hfail Hfwd Hbwd Hrecv Hlast Hsamp Hjmax Hjit Hjinta Hprobe Hcomp Hnat Haddr Hnd].
  destruct e as [c|p f fw bw|n]; cbn [hop_step].
  - (* completed probe *)
    set (x := rtt_of c).
    assert (Hd : Z.max 0 (c_received c - p_sent (c_probe c)) = x) by reflexivity.
    assert (Hjd : Z.abs (x - match h_last h with Some l => l | None => 0 end) =
                  Z.abs (x - match ev_rtts es with [] => 0 | _ => last (ev_rtts es) 0 end)).
    { rewrite Hlast. destruct (ev_rtts es); reflexivity. }
    constructor; cbn [hop_complete h_sent h_recv h_failed h_fwd_lost h_bwd_lost h_last h_samples h_jmax h_jitter h_jinta
                      h_ttl h_last_src_port h_last_dest_port h_last_sequence h_last_icmp h_tos h_exts h_last_nat h_addrs];
      rewrite ?Hd, ?count_snoc, ?ev_rtts_snoc, ?ev_durs_snoc, ?ev_hosts_snoc; fold x; cbn [is_probe is_failed is_fwd is_bwd].
    + lia.
    + lia.
    + lia.
    + lia.
    + rewrite app_length, Nat2Z.inj_add, Hrecv. reflexivity.
    + rewrite last_last. destruct (ev_rtts es ++ [x]) eqn:E; [destruct (ev_rtts es); discriminate|reflexivity].
    + intros Hms. rewrite (Hsamp Hms), push_sample_firstn by assumption. rewrite rev_app_distr. reflexivity.
    + rewrite jitters_snoc, Hjd. apply omax_snoc. assumption.
    + rewrite jitters_snoc. rewrite Hlast. destruct (ev_rtts es) as [|r rs] eqn:E.
      * reflexivity.
      * rewrite last_last. destruct rs; reflexivity.
    + rewrite jitters_snoc, fold_left_snoc, Qred_correct. unfold jinta_step at 1. rewrite <- Hjinta.
      assert (Hjms : (Qabs' (ms x - match h_last h with Some l => ms l | None => 0 end) ==
                      msq (Z.abs (x - match ev_rtts es with [] => 0 | _ :: _ => last (ev_rtts es) 0 end)%Z))%Q).
      { rewrite Hlast. destruct (ev_rtts es) as [|r0 rs].
        - rewrite <- (Qabs'_msq x 0). apply Qabs'_compat. rewrite ms_eq. unfold msq at 2. unfold Qminus.
          assert (H0 : (0 # 1000000 == 0)%Q) by reflexivity. rewrite H0. reflexivity.
        - rewrite <- Qabs'_msq. apply Qabs'_compat. rewrite !ms_eq. reflexivity. }
      rewrite (Qmax'_compat _ _ (1 # 2) Hjms). reflexivity.
    + unfold last_probe. rewrite fold_left_snoc. repeat split; reflexivity.
    + unfold last_complete. rewrite fold_left_snoc. repeat split; reflexivity.
    + unfold last_nat. rewrite fold_left_snoc. exact Hnat.
    + intros a. rewrite acount_incr, Haddr, filter_app, app_length. cbn [filter].
      destruct (addr_eqb a (c_host c)); cbn [length]; rewrite Nat2Z.inj_add; reflexivity.
    + apply nodup_incr. assumption.
  - (* awaited / failed probe *)
    constructor; cbn [hop_unanswered h_sent h_recv h_failed h_fwd_lost h_bwd_lost h_last h_samples h_jmax h_jitter h_jinta
                      h_ttl h_last_src_port h_last_dest_port h_last_sequence h_last_icmp h_tos h_exts h_last_nat h_addrs];
      rewrite ?count_snoc, ?ev_rtts_snoc, ?ev_durs_snoc, ?ev_hosts_snoc, ?app_nil_r; cbn [is_probe is_failed is_fwd is_bwd];
      try assumption.
    + lia.
    + destruct f; lia.
    + destruct fw; lia.
    + destruct bw; lia.
    + intros Hms. rewrite (Hsamp Hms), push_sample_firstn by assumption. rewrite rev_app_distr. reflexivity.
    + unfold last_probe. rewrite fold_left_snoc. repeat split; reflexivity.
    + unfold last_complete. rewrite fold_left_snoc. exact Hcomp.
    + unfold last_nat. rewrite fold_left_snoc. exact Hnat.
  - (* NAT status *)
    constructor; cbn [hop_set_nat h_sent h_recv h_failed h_fwd_lost h_bwd_lost h_last h_samples h_jmax h_jitter h_jinta
                      h_ttl h_last_src_port h_last_dest_port h_last_sequence h_last_icmp h_tos h_exts h_last_nat h_addrs];
      rewrite ?count_snoc, ?ev_rtts_snoc, ?ev_durs_snoc, ?ev_hosts_snoc, ?app_nil_r; cbn [is_probe is_failed is_fwd is_bwd];
      try assumption; try lia.
    + unfold last_probe. rewrite fold_left_snoc. exact Hprobe.
    + unfold last_complete. rewrite fold_left_snoc. exact Hcomp.
    + unfold last_nat. rewrite fold_left_snoc. reflexivity.
Qed.

Lemma hist_run_from ms : forall es h es0, HopHist ms h es0 -> HopHist ms (hop_run_from ms h es) (es0 ++ es).
Proof.
  induction es as [|e es IH]; intros h es0 H; cbn [hop_run_from fold_left].
  - rewrite app_nil_r. exact H.
  - change (fold_left (hop_step ms) es (hop_step ms h e)) with (hop_run_from ms (hop_step ms h e) es).
    replace (es0 ++ e :: es) with ((es0 ++ [e]) ++ es) by (rewrite <- app_assoc; reflexivity).
    apply IH. apply hist_step. exact H.
Qed.

Theorem hop_run_is_recomputation ms es : HopHist ms (hop_run ms es) es.
Proof. exact (hist_run_from ms es hop_default [] (hist_default ms)). Qed.

(* every hop state the aggregator can produce is hop_run of some event list with the same completed samples *)
Lemma hop_reach_events ms h rtts : hop_reach ms h rtts -> exists es, h = hop_run ms es /\ ev_rtts es = rtts.
Proof.
  induction 1 as [|h rtts c _ (es & -> & <-)|h rtts ns _ (es & -> & <-)|h rtts p failed fwd bwd _ (es & -> & <-) _ _].
  - exists []. split; reflexivity.
  - exists (es ++ [HC c]). split; [unfold hop_run, hop_run_from; rewrite fold_left_snoc; reflexivity|].
    rewrite ev_rtts_snoc. reflexivity.
  - exists (es ++ [HN ns]). split; [unfold hop_run, hop_run_from; rewrite fold_left_snoc; reflexivity|].
    rewrite ev_rtts_snoc, app_nil_r. reflexivity.
  - exists (es ++ [HU p failed fwd bwd]). split; [unfold hop_run, hop_run_from; rewrite fold_left_snoc; reflexivity|].
    rewrite ev_rtts_snoc, app_nil_r. reflexivity.
Qed.

Lemma hop_reach_recomputation ms h rtts : hop_reach ms h rtts -> exists es, ev_rtts es = rtts /\ HopHist ms h es.
Proof.
  intros H. destruct (hop_reach_events ms h rtts H) as (es & -> & E). exists es. split; [exact E|apply hop_run_is_recomputation].
Qed.

(* ---------------------------------------------------------------- derived figures *)
Local Open Scope Q_scope.
Lemma pct_of_range x sent : (0 <= x <= sent)%Z -> 0 <= pct_of x sent /\ pct_of x sent <= 100.
Proof.
  intros Hx. unfold pct_of. destruct (0 <? sent)%Z eqn:E; [|split; [apply Qle_refl|discriminate]].
  apply Z.ltb_lt in E. rewrite Qred_correct.
  assert (Hs : 0 < inject_Z sent) by (unfold Qlt, inject_Z; cbn; lia).
  assert (H0 : 0 <= inject_Z x) by (unfold Qle, inject_Z; cbn; lia).
  assert (H1 : inject_Z x <= inject_Z sent) by (unfold Qle, inject_Z; cbn; lia).
  split.
  - apply Qmult_le_0_compat; [|discriminate]. apply Qle_shift_div_l; [assumption|]. rewrite Qmult_0_l. assumption.
  - assert (Hd : inject_Z x / inject_Z sent <= 1).
    { apply Qle_shift_div_r; [assumption|]. rewrite Qmult_1_l. assumption. }
    setoid_replace 100 with (1 * 100) at 2 by reflexivity.
    apply Qmult_le_compat_r; [assumption|discriminate].
Qed.

Lemma avg_between msamp h rtts b w : HopLaws msamp h rtts -> (0 < h_recv h)%Z ->
  h_best h = Some b -> h_worst h = Some w -> msq b <= hop_avg_ms h /\ hop_avg_ms h <= msq w.
Proof.
  intros L Hn Hb Hw. destruct (laws_consequences msamp h rtts L) as (_ & _ & _ & _ & _ & F).
  destruct (F Hn) as (b' & w' & Hb' & Hw' & Hlo & Hhi). rewrite Hb in Hb'. rewrite Hw in Hw'.
  inversion Hb'; inversion Hw'; subst b' w'. clear Hb' Hw' F.
  unfold hop_avg_ms. replace (0 <? h_recv h)%Z with true by (symmetry; apply Z.ltb_lt; assumption).
  rewrite Qred_correct, ms_eq.
  assert (Hs : 0 < inject_Z (h_recv h)) by (unfold Qlt, inject_Z; cbn; lia).
  split.
  - apply Qle_shift_div_l; [assumption|]. unfold msq, Qle, Qmult, inject_Z; cbn. lia.
  - apply Qle_shift_div_r; [assumption|]. unfold msq, Qle, Qmult, inject_Z; cbn. lia.
Qed.

Lemma variance_spec h rtts : HopStats h rtts -> (1 < h_recv h)%Z ->
  hop_variance h * inject_Z (h_recv h) * inject_Z (h_recv h - 1) ==
  qsum (map (fun x => msq x * msq x) rtts) * inject_Z (h_recv h) - qsum (map msq rtts) * qsum (map msq rtts).
Proof.
  intros [_ _ _ H2 _ _] Hn. unfold hop_variance.
  replace (1 <? h_recv h)%Z with true by (symmetry; apply Z.ltb_lt; assumption).
  rewrite Qred_correct, <- H2.
  assert (Hne : ~ inject_Z (h_recv h - 1) == 0) by (unfold Qeq, inject_Z; cbn; lia).
  field. assumption.
Qed.
