(* C05: per-hop statistics - conservation laws and the incremental = direct identities. *)
From Coq Require Import QArith Qfield.
From TV Require Import Base.Result Core.Types Core.Flows Core.State.
From Coq Require Import ZifyBool Lia.
Open Scope Z_scope.

Definition asum (l : list (addr * Z)) : Z := fold_right (fun e acc => snd e + acc) 0 l.

Lemma asum_incr l a : asum (addr_incr l a) = asum l + 1.
Proof.
  induction l as [|[b n] l IH]; cbn [addr_incr asum fold_right snd]; [lia|].
  destruct (addr_eqb a b); cbn [asum fold_right snd]; fold (asum l); fold (asum (addr_incr l a)); lia.
Qed.

Lemma removelast_length {A} (l : list A) : length (removelast l) = pred (length l).
Proof. induction l as [|x [|y l] IH]; cbn in *; auto. Qed.

Lemma push_sample_length ms s d : 0 <= ms -> Z.of_nat (length s) <= ms -> Z.of_nat (length (push_sample ms s d)) <= ms.
Proof.
  intros Hms Hl. unfold push_sample. destruct (ms <? Z.of_nat (length (d :: s))) eqn:E.
  - rewrite removelast_length. cbn [length pred]. lia.
  - lia.
Qed.

(* the history of a hop: the rtts (ns) of the completed probes, oldest first *)
Definition omin (o : option Z) (l : list Z) : Prop := match o with None => l = [] | Some b => In b l /\ forall x, In x l -> b <= x end.
Definition omax (o : option Z) (l : list Z) : Prop := match o with None => l = [] | Some b => In b l /\ forall x, In x l -> x <= b end.
Definition zsum (l : list Z) : Z := fold_right Z.add 0 l.
Definition qsum (l : list Q) : Q := fold_right Qplus 0%Q l.

(* jitter samples |rtt_i - rtt_{i-1}| with rtt_0 = 0 (the convention of the code for the first sample) *)
Fixpoint jitters (prev : Z) (l : list Z) : list Z :=
  match l with [] => [] | x :: r => Z.abs (x - prev) :: jitters x r end.

Record HopLaws (ms : Z) (h : hop) (rtts : list Z) : Prop := {
  hl_recv : h_recv h = Z.of_nat (length rtts);
  hl_failed : 0 <= h_failed h;
  hl_sent : h_recv h + h_failed h <= h_sent h;
  hl_addrs : asum (h_addrs h) = h_recv h;
  hl_fwd : 0 <= h_fwd_lost h; hl_bwd : 0 <= h_bwd_lost h;
  hl_loss : h_fwd_lost h + h_bwd_lost h <= h_sent h - h_recv h - h_failed h;
  hl_samples : 0 <= ms -> Z.of_nat (length (h_samples h)) <= ms;
  hl_time : h_total_time h = zsum rtts;
  hl_best : omin (h_best h) rtts; hl_worst : omax (h_worst h) rtts;
  hl_last : h_last h = match rtts with [] => None | _ => Some (last rtts 0) end;
  hl_nonneg : Forall (fun x => 0 <= x) rtts;
}.

Lemma laws_default ms : HopLaws ms hop_default [].
Proof. constructor; cbn; try lia; try reflexivity; try constructor. Qed.

Lemma zsum_app a b : zsum (a ++ b) = zsum a + zsum b.
Proof. unfold zsum. induction a as [|x a IH]; cbn [app fold_right]; lia. Qed.

Definition rtt_of (c : pcomplete) : Z := Z.max 0 (c_received c - p_sent (c_probe c)).

Lemma laws_complete ms h rtts c : HopLaws ms h rtts -> HopLaws ms (hop_complete ms c h) (rtts ++ [rtt_of c]).
Proof.
  intros [Hr Hf Hs Ha Hfw Hbw Hl Hsm Ht Hb Hw Hla Hnn].
  constructor; cbn [hop_complete h_recv h_failed h_sent h_addrs h_fwd_lost h_bwd_lost h_samples h_total_time h_best h_worst h_last]; fold (rtt_of c).
  - rewrite app_length. cbn [length]. lia.
  - assumption.
  - lia.
  - rewrite asum_incr. lia.
  - assumption.
  - assumption.
  - lia.
  - intros H. apply push_sample_length; auto.
  - rewrite zsum_app. cbn [zsum fold_right]. lia.
  - unfold omin, opt_min in *. destruct (h_best h) as [b|].
    + destruct Hb as [Hin Hmin]. split.
      * destruct (Z.min_spec b (rtt_of c)) as [[? ->]|[? ->]]; apply in_or_app; [left; assumption|right; left; reflexivity].
      * intros x Hx. apply in_app_or in Hx. destruct Hx as [Hx|[<-|[]]]; [specialize (Hmin x Hx)|]; lia.
    + subst rtts. cbn. split; [left; reflexivity|]. intros x [<-|[]]. lia.
  - unfold omax, opt_max in *. destruct (h_worst h) as [b|].
    + destruct Hw as [Hin Hmax]. split.
      * destruct (Z.max_spec b (rtt_of c)) as [[? ->]|[? ->]]; apply in_or_app; [right; left; reflexivity|left; assumption].
      * intros x Hx. apply in_app_or in Hx. destruct Hx as [Hx|[<-|[]]]; [specialize (Hmax x Hx)|]; lia.
    + subst rtts. cbn. split; [left; reflexivity|]. intros x [<-|[]]. lia.
  - rewrite last_last. destruct (rtts ++ [rtt_of c]) eqn:E; [destruct rtts; discriminate|reflexivity].
  - apply Forall_app. split; [assumption|]. constructor; [unfold rtt_of; lia|constructor].
Qed.

Lemma laws_unanswered ms h rtts p failed fwd bwd : HopLaws ms h rtts ->
  (failed = true -> fwd = false /\ bwd = false) -> (fwd = true -> bwd = false) ->
  HopLaws ms (hop_unanswered ms p failed fwd bwd h) rtts.
Proof.
  intros [Hr Hf Hs Ha Hfw Hbw Hl Hsm Ht Hb Hw Hla Hnn] H1 H2.
  constructor; cbn [hop_unanswered h_recv h_failed h_sent h_addrs h_fwd_lost h_bwd_lost h_samples h_total_time h_best h_worst h_last];
    try assumption; try (destruct failed, fwd, bwd; try lia; (destruct (H1 eq_refl); discriminate) || (specialize (H2 eq_refl); discriminate)).
  intros H. apply push_sample_length; auto.
Qed.

(* consequences the property lists *)
Lemma laws_consequences ms h rtts : HopLaws ms h rtts ->
  h_recv h + h_failed h <= h_sent h /\ asum (h_addrs h) = h_recv h /\
  h_fwd_lost h + h_bwd_lost h <= h_sent h - h_recv h - h_failed h /\
  (0 <= ms -> Z.of_nat (length (h_samples h)) <= ms) /\
  0 <= h_sent h - h_recv h <= h_sent h /\
  (0 < h_recv h -> exists b w, h_best h = Some b /\ h_worst h = Some w /\
     b * h_recv h <= h_total_time h <= w * h_recv h).
Proof.
  intros [Hr Hf Hs Ha Hfw Hbw Hl Hsm Ht Hb Hw Hla Hnn]. repeat split; try assumption; try lia.
  intros Hpos. unfold omin, omax in *.
  destruct (h_best h) as [b|]; [|subst rtts; cbn in Hr; lia]. destruct (h_worst h) as [w|]; [|subst rtts; cbn in Hr; lia].
  exists b, w. split; [reflexivity|]. split; [reflexivity|]. rewrite Ht, Hr.
  destruct Hb as [_ Hmin]. destruct Hw as [_ Hmax]. clear -Hmin Hmax.
  induction rtts as [|x l IH]; cbn [zsum fold_right length]; [lia|]. fold (zsum l).
  assert (b * Z.of_nat (length l) <= zsum l <= w * Z.of_nat (length l)).
  { apply IH; intros y Hy; [apply Hmin|apply Hmax]; right; assumption. }
  specialize (Hmin x (or_introl eq_refl)). specialize (Hmax x (or_introl eq_refl)). lia.
Qed.

(* ---- the running statistics over exact rationals ---- *)
Definition msq (ns : Z) : Q := ns # 1000000.

Lemma ms_eq ns : (ms ns == msq ns)%Q.
Proof. unfold ms. apply Qred_correct. Qed.

Record HopStats (h : hop) (rtts : list Z) : Prop := {
  hs_n : h_recv h = Z.of_nat (length rtts);
  hs_last : h_last h = match rtts with [] => None | _ => Some (last rtts 0) end;
  hs_mean : (h_mean h * inject_Z (h_recv h) == qsum (map msq rtts))%Q;
  hs_m2 : (h_m2 h * inject_Z (h_recv h) == qsum (map (fun x => msq x * msq x) rtts) * inject_Z (h_recv h) - qsum (map msq rtts) * qsum (map msq rtts))%Q;
  hs_javg : (h_javg h * inject_Z (h_recv h) == qsum (map msq (jitters 0 rtts)))%Q;
  hs_m2zero : h_recv h = 0 -> (h_m2 h == 0)%Q;
}.

Local Open Scope Q_scope.

Lemma stats_default : HopStats hop_default [].
Proof. constructor; try reflexivity; vm_compute; reflexivity. Qed.

Lemma qsum_app a b : qsum (a ++ b) == qsum a + qsum b.
Proof.
  induction a as [|x a IH].
  - change (qsum ([] ++ b)) with (qsum b). change (qsum []) with 0. ring.
  - change (qsum ((x :: a) ++ b)) with (x + qsum (a ++ b)). change (qsum (x :: a)) with (x + qsum a). rewrite IH. ring.
Qed.

Lemma jitters_snoc l : forall prev x, jitters prev (l ++ [x]) = jitters prev l ++ [Z.abs (x - match l with [] => prev | _ => last l 0%Z end)%Z].
Proof.
  induction l as [|y l IH]; intros prev x; [reflexivity|].
  change (jitters prev ((y :: l) ++ [x])) with (Z.abs (y - prev)%Z :: jitters y (l ++ [x])).
  rewrite IH. change (jitters prev (y :: l)) with (Z.abs (y - prev)%Z :: jitters y l). cbn [app].
  destruct l as [|z l]; reflexivity.
Qed.

Lemma Qabs'_msq a b : Qabs' (msq a - msq b) == msq (Z.abs (a - b)%Z).
Proof.
  unfold Qabs', msq. destruct (Qle_bool 0 ((a # 1000000) - (b # 1000000))) eqn:E.
  - apply Qle_bool_iff in E. unfold Qle, Qminus, Qplus, Qopp in E. cbn in E.
    unfold Qeq, Qminus, Qplus, Qopp. cbn. lia.
  - assert (~ 0 <= (a # 1000000) - (b # 1000000))%Q as E' by (intros H; apply Qle_bool_iff in H; congruence).
    unfold Qle, Qminus, Qplus, Qopp in E'. cbn in E'.
    unfold Qeq, Qminus, Qplus, Qopp. cbn. lia.
Qed.

Lemma Qabs'_compat a b : a == b -> Qabs' a == Qabs' b.
Proof.
  intros H. unfold Qabs'. destruct (Qle_bool 0 a) eqn:Ea, (Qle_bool 0 b) eqn:Eb.
  - assumption.
  - apply Qle_bool_iff in Ea. rewrite H in Ea. apply Qle_bool_iff in Ea. congruence.
  - apply Qle_bool_iff in Eb. rewrite <- H in Eb. apply Qle_bool_iff in Eb. congruence.
  - rewrite H. reflexivity.
Qed.

Lemma inject_Z_succ n : inject_Z (n + 1)%Z == inject_Z n + 1.
Proof. rewrite inject_Z_plus. reflexivity. Qed.

Lemma stats_complete msamp h rtts c : HopStats h rtts -> HopStats (hop_complete msamp c h) (rtts ++ [rtt_of c]).
Proof.
  intros [Hn Hl Hm H2 Hj Hz2].
  set (x := rtt_of c). set (n := h_recv h) in *.
  assert (Hn0 : (0 <= n)%Z) by lia.
  assert (Hnq : ~ inject_Z (n + 1)%Z == 0).
  { intros E. unfold Qeq, inject_Z in E. cbn in E. lia. }
  constructor; cbn [hop_complete h_recv h_last h_mean h_m2 h_javg]; change (Z.max 0 (c_received c - p_sent (c_probe c))%Z) with x; fold n.
  - rewrite app_length. cbn [length]. lia.
  - rewrite last_last. destruct (rtts ++ [x]) eqn:E; [destruct rtts; discriminate|reflexivity].
  - rewrite Qred_correct, map_app, qsum_app. cbn [map qsum fold_right]. rewrite <- Hm, ms_eq.
    rewrite inject_Z_succ in *. field. assumption.
  - rewrite !Qred_correct, !map_app, !qsum_app. cbn [map qsum fold_right]. rewrite ms_eq.
    set (S1 := qsum (map msq rtts)) in *. set (S2 := qsum (map (fun x0 => msq x0 * msq x0) rtts)) in *.
    set (N := inject_Z n) in *. set (X := msq x).
    rewrite inject_Z_succ in *. fold N in Hnq |- *.
    (* from the hypotheses: mean*N = S1, m2*N = S2*N - S1*S1 *)
    destruct (Z.eq_dec n 0%Z) as [Hz|Hnz].
    + assert (HN : N == 0) by (unfold N; rewrite Hz; reflexivity).
      assert (Hr0 : rtts = []) by (destruct rtts; [reflexivity|cbn in Hn; lia]).
      assert (HS1 : S1 == 0) by (unfold S1; rewrite Hr0; reflexivity).
      assert (HS2 : S2 == 0) by (unfold S2; rewrite Hr0; reflexivity).
      (* the stored mean and m2 of an untouched hop are unconstrained by the products; use them symbolically *)
      rewrite HN, HS1, HS2, (Hz2 Hz). field.
    + assert (HNnz : ~ N == 0) by (unfold N; intros E; unfold Qeq, inject_Z in E; cbn in E; lia).
      assert (Hmean : h_mean h == S1 / N) by (rewrite <- Hm; field; assumption).
      assert (Hm2 : h_m2 h == S2 - S1 * S1 / N) by (apply (Qmult_inj_r _ _ N HNnz); rewrite H2; field; assumption).
      rewrite Hmean, Hm2. field. split; assumption.
  - rewrite Qred_correct, jitters_snoc, map_app, qsum_app. cbn [map qsum fold_right]. rewrite <- Hj.
    assert (Hjit : Qabs' (ms x - match h_last h with Some l => ms l | None => 0 end) ==
                   msq (Z.abs (x - match rtts with [] => 0 | _ :: _ => last rtts 0 end)%Z)).
    { rewrite Hl. destruct rtts as [|r0 rs].
      - rewrite <- (Qabs'_msq x 0%Z). apply Qabs'_compat. rewrite ms_eq. unfold msq at 2. unfold Qminus. 
        assert (H0 : (0 # 1000000) == 0) by reflexivity. rewrite H0. reflexivity.
      - rewrite <- Qabs'_msq. apply Qabs'_compat. rewrite !ms_eq. reflexivity. }
    rewrite Hjit. rewrite inject_Z_succ in *. field. assumption.
  - intros E. lia.
Qed.

Lemma stats_unanswered msamp h rtts p failed fwd bwd : HopStats h rtts -> HopStats (hop_unanswered msamp p failed fwd bwd h) rtts.
Proof. intros [Hn Hl Hm H2 Hj Hz]. constructor; cbn [hop_unanswered h_recv h_last h_mean h_m2 h_javg]; assumption. Qed.

Lemma stats_set_nat h rtts ns : HopStats h rtts -> HopStats (hop_set_nat ns h) rtts.
Proof. intros [Hn Hl Hm H2 Hj Hz]. constructor; cbn [hop_set_nat h_recv h_last h_mean h_m2 h_javg]; assumption. Qed.

Lemma laws_set_nat ms h rtts ns : HopLaws ms h rtts -> HopLaws ms (hop_set_nat ns h) rtts.
Proof. intros [? ? ? ? ? ? ? ? ? ? ? ? ?]. constructor; cbn [hop_set_nat h_recv h_failed h_sent h_addrs h_fwd_lost h_bwd_lost h_samples h_total_time h_best h_worst h_last]; assumption. Qed.

(* every state a hop can be in: the updates the aggregator applies to it, in any order and number *)
Inductive hop_reach (ms : Z) : hop -> list Z -> Prop :=
| hr_default : hop_reach ms hop_default []
| hr_complete h rtts c : hop_reach ms h rtts -> hop_reach ms (hop_complete ms c h) (rtts ++ [rtt_of c])
| hr_nat h rtts ns : hop_reach ms h rtts -> hop_reach ms (hop_set_nat ns h) rtts
| hr_unanswered h rtts p failed fwd bwd : hop_reach ms h rtts ->
    (failed = true -> fwd = false /\ bwd = false) -> (fwd = true -> bwd = false) ->
    hop_reach ms (hop_unanswered ms p failed fwd bwd h) rtts.

Lemma hop_reach_inv ms h rtts : hop_reach ms h rtts -> HopLaws ms h rtts /\ HopStats h rtts.
Proof.
  induction 1 as [|h rtts c _ [IL IS]|h rtts ns _ [IL IS]|h rtts p failed fwd bwd _ [IL IS] H1 H2].
  - split; [apply laws_default|apply stats_default].
  - split; [apply laws_complete|apply stats_complete]; assumption.
  - split; [apply laws_set_nat|apply stats_set_nat]; assumption.
  - split; [apply laws_unanswered|apply stats_unanswered]; assumption.
Qed.

(* the updates update_for_probe applies are of exactly these forms *)
Lemma update_for_probe_forms all u st u' i : update_for_probe all u st = Ok u' ->
  status_ttl st = Some (Z.of_nat i + 1)%Z ->
  forall h rtts, nth_error (fs_hops (u_fs u)) i = Some h -> hop_reach (fs_max_samples (u_fs u)) h rtts ->
  exists h' rtts', nth_error (fs_hops (u_fs u')) i = Some h' /\ hop_reach (fs_max_samples (u_fs u')) h' rtts'.
Proof.
  intros Hu Ht h rtts Hn Hr.
  assert (Hup : forall (l : list hop) f k x, nth_error l k = Some x -> nth_error (upd_hop k f l) k = Some (f x)).
  { induction l as [|y l IHl]; intros f [|k] x Hx; cbn in *; try discriminate; [inversion Hx; reflexivity|apply IHl; assumption]. }
  assert (Hidx : forall t, hop_index t = Ok i -> t = (Z.of_nat i + 1)%Z -> True) by auto.
  destruct st as [| |p|p|c]; cbn [status_ttl] in Ht; try discriminate; inversion Ht as [Ht'].
  - unfold update_for_probe in Hu. unfold hop_index in Hu. rewrite Ht' in Hu.
    destruct ((1 <=? Z.of_nat i + 1)%Z && (Z.of_nat i + 1 <=? 254)%Z); cbn [bind] in Hu; [|discriminate].
    replace (Z.to_nat (Z.of_nat i + 1 - 1)) with i in Hu by lia. inversion Hu; subst u'. cbn [u_fs fs_touch fs_hops fs_max_samples].
    eexists _, rtts. split; [apply Hup; exact Hn|]. apply hr_unanswered; auto; intros; discriminate.
  - unfold update_for_probe in Hu. unfold hop_index in Hu. rewrite Ht' in Hu.
    destruct ((1 <=? Z.of_nat i + 1)%Z && (Z.of_nat i + 1 <=? 254)%Z); cbn [bind] in Hu; [|discriminate].
    replace (Z.to_nat (Z.of_nat i + 1 - 1)) with i in Hu by lia. inversion Hu; subst u'. cbn [u_fs fs_touch fs_hops fs_max_samples].
    eexists _, rtts. split; [apply Hup; exact Hn|]. apply hr_unanswered; auto; try (intros; discriminate).
    intros E. apply andb_true_iff in E. destruct E as [E _]. destruct (u_fwd_loss u); [discriminate|reflexivity].
  - unfold update_for_probe in Hu. unfold hop_index in Hu. rewrite Ht' in Hu.
    destruct ((1 <=? Z.of_nat i + 1)%Z && (Z.of_nat i + 1 <=? 254)%Z); cbn [bind] in Hu; [|discriminate].
    replace (Z.to_nat (Z.of_nat i + 1 - 1)) with i in Hu by lia.
    destruct (c_expected c) as [e|], (c_actual c) as [a|];
      try (inversion Hu; subst u'; cbn [u_fs fs_touch fs_hops fs_max_samples]; eexists _, _; split; [apply Hup; exact Hn|apply hr_complete; exact Hr]).
    destruct (nat_status_of e a (u_prev_cksum u)) as [ns ck]. inversion Hu; subst u'. cbn [u_fs fs_touch fs_hops fs_max_samples].
    eexists _, _. split; [apply Hup; apply Hup; exact Hn|]. apply hr_nat. apply hr_complete. exact Hr.
Qed.
