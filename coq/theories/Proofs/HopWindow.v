(* C10, aggregator side: what the hop table (FlowState::hops), the target hop and the per-hop predicates
   is_target / is_in_round look like after ANY history of rounds.

   * hops never probed stay the default hop (zero counts) and are PRESENT inside the window (gap-free);
   * the view is positional: index k of hops() is the slot of ttl lowest + k, nothing above highest or below lowest;
   * target_hop is the slot of the latest round's path length; it is an element of the view, and the last one
     when the latest round reported the greatest length so far ("ends at the target");
   * is_target / is_in_round, characterised by position;
   * for round sequences of the shape the strategy publishes (ttls first, first+1, ... and a path length that does
     not exceed the farthest ttl probed so far) EVERY hop of the view carries its own ttl and exactly one hop of
     the view is the target. *)
From Coq Require Import QArith.
From TV Require Import Base.Result Core.Types Core.Flows Core.State
  Proofs.ListLemmas Proofs.FlowsProofs Proofs.StateProofs.
From Coq Require Import ZifyBool.
Open Scope Z_scope.


(* ====================================================================== 1. untouched hops *)
Lemma hop_index_ok t i : hop_index t = Ok i -> 1 <= t <= 254 /\ i = Z.to_nat (t - 1).
Proof.
  unfold hop_index. destruct ((1 <=? t) && (t <=? 254)) eqn:E; [|discriminate]. intros H. inversion H. split; [lia|reflexivity].
Qed.

Lemma update_for_probe_untouched all u st u' i : update_for_probe all u st = Ok u' ->
  (forall t, status_ttl st = Some t -> t <> Z.of_nat i + 1) ->
  nth_error (fs_hops (u_fs u')) i = nth_error (fs_hops (u_fs u)) i.
Proof.
  unfold update_for_probe. destruct st as [| |p|p|c]; cbn [status_ttl]; intros H Hne.
  - inversion H; reflexivity.
  - inversion H; reflexivity.
  - destruct (hop_index (p_ttl p)) as [j|?|?] eqn:Ej; cbn [bind] in H; try discriminate.
    apply hop_index_ok in Ej. destruct Ej as [Hr ->]. specialize (Hne _ eq_refl).
    inversion H; subst u'. cbn [u_fs fs_touch fs_hops]. apply upd_hop_neq. lia.
  - destruct (hop_index (p_ttl p)) as [j|?|?] eqn:Ej; cbn [bind] in H; try discriminate.
    apply hop_index_ok in Ej. destruct Ej as [Hr ->]. specialize (Hne _ eq_refl).
    inversion H; subst u'. cbn [u_fs fs_touch fs_hops]. apply upd_hop_neq. lia.
  - destruct (hop_index (p_ttl (c_probe c))) as [j|?|?] eqn:Ej; cbn [bind] in H; try discriminate.
    apply hop_index_ok in Ej. destruct Ej as [Hr ->]. specialize (Hne _ eq_refl).
    destruct (c_expected c), (c_actual c); try (inversion H; subst u'; cbn [u_fs fs_touch fs_hops]; apply upd_hop_neq; lia).
    destruct (nat_status_of _ _ _). inversion H; subst u'. cbn [u_fs fs_touch fs_hops].
    rewrite upd_hop_neq by lia. apply upd_hop_neq. lia.
Qed.

Lemma fold_probes_untouched all i : forall ps u u', fold_probes all u ps = Ok u' ->
  ~ In (Z.of_nat i + 1) (ttls ps) -> nth_error (fs_hops (u_fs u')) i = nth_error (fs_hops (u_fs u)) i.
Proof.
  induction ps as [|st ps IH]; intros u u' H Hn; cbn [fold_probes] in H; [inversion H; reflexivity|].
  destruct (update_for_probe all u st) as [u1|?|?] eqn:E; cbn [bind] in H; try discriminate.
  rewrite ttls_cons in Hn.
  rewrite (IH u1 u' H).
  - apply (update_for_probe_untouched all u st u1 i E). intros t Ht Heq. apply Hn. rewrite Ht. left. assumption.
  - intros Hin. apply Hn. destruct (status_ttl st); [right|]; assumption.
Qed.

Lemma fs_apply_untouched f r f' i : fs_apply f r = Ok f' -> ~ In (Z.of_nat i + 1) (ttls (rr_probes r)) ->
  nth_error (fs_hops f') i = nth_error (fs_hops f) i.
Proof.
  unfold fs_apply. intros H Hn.
  destruct (fold_probes (rr_probes r) _ (rr_probes r)) as [u|?|?] eqn:E; cbn [bind] in H; try discriminate.
  inversion H; subst. rewrite (fold_probes_untouched _ i _ _ _ E Hn). reflexivity.
Qed.

Lemma fs_run_untouched i : forall rs f f', fs_run f rs = Ok f' ->
  (forall r, In r rs -> ~ In (Z.of_nat i + 1) (ttls (rr_probes r))) ->
  nth_error (fs_hops f') i = nth_error (fs_hops f) i.
Proof.
  induction rs as [|r t IH]; intros f f' H Hn; cbn [fs_run] in H; [inversion H; reflexivity|].
  destruct (fs_apply f r) as [f1|?|?] eqn:E; cbn [bind] in H; try discriminate.
  rewrite (IH f1 f' H); [|intros r' Hr'; apply Hn; right; assumption].
  apply (fs_apply_untouched f r f1 i E). apply Hn. left; reflexivity.
Qed.

(* a ttl that no round of the history probed still has its default hop: all counters zero, no address *)
Theorem never_probed_is_default rs ms f t : fs_run (flow_state_new ms) rs = Ok f -> 1 <= t <= 254 ->
  (forall r, In r rs -> ~ In t (ttls (rr_probes r))) ->
  nth_error (fs_hops f) (Z.to_nat (t - 1)) = Some hop_default.
Proof.
  intros H Ht Hn. rewrite (fs_run_untouched (Z.to_nat (t - 1)) rs _ f H).
  - cbn [flow_state_new fs_hops]. apply nth_error_repeat. unfold MAX_TTL_N. lia.
  - intros r Hr. replace (Z.of_nat (Z.to_nat (t - 1)) + 1) with t by lia. apply Hn. assumption.
Qed.

(* ====================================================================== 2. the view, by position *)
Lemma nth_error_firstn_iff {A} (l : list A) : forall n k x,
  nth_error (firstn n l) k = Some x <-> (k < n)%nat /\ nth_error l k = Some x.
Proof.
  induction l as [|y l IH]; intros [|n] [|k] x; cbn [firstn nth_error]; try (split; [discriminate|intros [? ?]; try lia; discriminate]).
  - split; [intros H; split; [lia|assumption]|tauto].
  - rewrite IH. split; intros [? ?]; split; try lia; assumption.
Qed.

(* hops()[k] is the slot of ttl lowest + k, for lowest + k <= highest; there is nothing else in the view *)
Theorem view_nth f hs : WInv f -> fs_hops_view f = Ok hs -> forall k h,
  nth_error hs k = Some h <->
  (fs_lowest_ttl f <> 0 /\ fs_lowest_ttl f + Z.of_nat k <= fs_highest_ttl f /\
   nth_error (fs_hops f) (Z.to_nat (fs_lowest_ttl f + Z.of_nat k - 1)) = Some h).
Proof.
  intros HW Hv k h. destruct (hops_view_window f HW) as (hs' & Hv' & Hemp & Hfull & _).
  rewrite Hv in Hv'. inversion Hv'; subst hs'. clear Hv'.
  destruct HW as (_ & Hhi & HJ & _).
  destruct (Z.eq_dec (fs_lowest_ttl f) 0) as [E0|N0].
  - rewrite (Hemp (or_introl E0)). split; [destruct k; discriminate|tauto].
  - destruct (Z.eq_dec (fs_highest_ttl f) 0) as [E1|N1].
    + rewrite (Hemp (or_intror E1)). split; [destruct k; discriminate|]. intros (_ & Hle & _). lia.
    + destruct (Hfull N0 N1) as (-> & _ & _). rewrite nth_error_firstn_iff, nth_error_skipn'.
      replace (Z.to_nat (fs_lowest_ttl f - 1) + k)%nat with (Z.to_nat (fs_lowest_ttl f + Z.of_nat k - 1)) by lia.
      split; [intros [Hk Hn]; split; [assumption|split; [lia|assumption]]|].
      intros (_ & Hle & Hn). split; [lia|assumption].
Qed.

(* GAP-FREE: a ttl inside the window that was never probed is PRESENT in hops(), as the default hop *)
Theorem gap_free rs ms f hs t : Forall wf_round rs -> fs_run (flow_state_new ms) rs = Ok f -> fs_hops_view f = Ok hs ->
  fs_lowest_ttl f <> 0 -> fs_lowest_ttl f <= t <= fs_highest_ttl f ->
  (forall r, In r rs -> ~ In t (ttls (rr_probes r))) ->
  nth_error hs (Z.to_nat (t - fs_lowest_ttl f)) = Some hop_default /\
  h_sent hop_default = 0 /\ h_recv hop_default = 0 /\ h_addrs hop_default = [].
Proof.
  intros Hwf H Hv N0 Ht Hn. destruct (fs_run_window rs _ (WInv_new ms) Hwf) as (f' & H' & HW & _).
  rewrite H in H'. inversion H'; subst f'. split; [|repeat split].
  pose proof HW as (_ & Hhi & HJ & _).
  apply (view_nth f hs HW Hv). split; [assumption|]. split; [lia|].
  replace (fs_lowest_ttl f + Z.of_nat (Z.to_nat (t - fs_lowest_ttl f)) - 1) with (t - 1) by lia.
  apply (never_probed_is_default rs ms f t H); [lia|assumption].
Qed.

(* ====================================================================== 3. the target hop and the round marker *)
(* the latest round's path length is 0 or lies inside the window *)
Definition RInv (f : flow_state) : Prop :=
  0 <= fs_highest_ttl_for_round f <= fs_highest_ttl f /\
  (fs_highest_ttl_for_round f = 0 \/ (1 <= fs_lowest_ttl f <= fs_highest_ttl_for_round f)).

Lemma RInv_new ms : RInv (flow_state_new ms).
Proof. unfold RInv. cbn. split; [lia|left; reflexivity]. Qed.

Lemma fs_apply_rinv f r f' : WInv f -> wf_round r -> fs_apply f r = Ok f' -> RInv f'.
Proof.
  intros HW Hwf H. destruct (fs_apply_window f r HW Hwf) as (f1 & H1 & HW1 & Hh & Hr & _ & Hl & _).
  rewrite H in H1. inversion H1; subst f1. clear H1.
  destruct Hwf as (Hok & Hrange & Hcase). unfold RInv. rewrite Hr, Hh. split; [lia|].
  destruct Hcase as [H0|(t & Hin & Hle)]; [left; assumption|right].
  destruct HW as (_ & _ & HJ & _).
  assert (Hlo0 : 0 <= fs_lowest_ttl f) by (destruct HJ as [[-> _]|[? _]]; lia).
  pose proof (fold_lowest_spec (ttls (rr_probes r)) (fs_lowest_ttl f) Hlo0 Hok) as (S1 & S2 & S3). cbn zeta in S1, S2, S3.
  rewrite <- Hl in S1, S2, S3.
  destruct HW1 as (_ & _ & HJ1 & _).
  destruct (Z.eq_dec (fs_lowest_ttl f) 0) as [E0|N0].
  - destruct (S2 E0 ltac:(intro X; rewrite X in Hin; destruct Hin)) as [Hin' Hmin]. specialize (Hmin t Hin).
    pose proof (range_in _ _ Hok Hin'). lia.
  - destruct (S3 N0) as (Hne & _ & _ & Hmin). specialize (Hmin t Hin).
    destruct HJ1 as [[? _]|[? _]]; [contradiction|lia].
Qed.

Lemma fs_run_rinv : forall rs f f', WInv f -> RInv f -> Forall wf_round rs -> fs_run f rs = Ok f' -> WInv f' /\ RInv f'.
Proof.
  induction rs as [|r t IH]; intros f f' HW HR Hwf H; cbn [fs_run] in H; [inversion H; subst; split; assumption|].
  destruct (fs_apply f r) as [f1|?|?] eqn:E; cbn [bind] in H; try discriminate.
  destruct (fs_apply_window f r HW (Forall_inv Hwf)) as (f1' & H1 & HW1 & _). rewrite E in H1. inversion H1; subst f1'.
  apply (IH f1 f' HW1 (fs_apply_rinv f r f1 HW (Forall_inv Hwf) E) (Forall_inv_tail Hwf) H).
Qed.

(* target_hop never faults; it is the slot of the latest round's path length (slot 0 when nothing answered) *)
Theorem target_hop_slot f : WInv f -> RInv f ->
  exists h, fs_target_hop f = Ok h /\
    nth_error (fs_hops f) (Z.to_nat (fs_highest_ttl_for_round f - 1)) = Some h /\
    (h_ttl h = 0 \/ h_ttl h = Z.max 1 (fs_highest_ttl_for_round f)).
Proof.
  intros ((Hlen & Htag) & Hhi & _) [Hr _]. unfold fs_target_hop, index, MAX_TTL_N in *.
  destruct (0 <? fs_highest_ttl_for_round f) eqn:E.
  - destruct (nth_error (fs_hops f) (Z.to_nat (fs_highest_ttl_for_round f - 1))) as [h|] eqn:En;
      [|apply nth_error_None in En; lia].
    exists h. split; [reflexivity|]. split; [reflexivity|]. destruct (Htag _ _ En); [left; assumption|right; lia].
  - replace (Z.to_nat (fs_highest_ttl_for_round f - 1)) with 0%nat by lia.
    destruct (nth_error (fs_hops f) 0) as [h|] eqn:En; [|apply nth_error_None in En; lia].
    exists h. split; [reflexivity|]. split; [reflexivity|]. destruct (Htag _ _ En); [left; assumption|right; lia].
Qed.

(* ENDS AT THE TARGET: when the latest round reported a path length L > 0, target_hop is the element of hops() at
   position L - lowest, and it is the LAST element when L is the greatest length reported so far *)
Theorem target_hop_in_view f hs : WInv f -> RInv f -> fs_hops_view f = Ok hs -> 0 < fs_highest_ttl_for_round f ->
  exists h, fs_target_hop f = Ok h /\
    nth_error hs (Z.to_nat (fs_highest_ttl_for_round f - fs_lowest_ttl f)) = Some h /\
    (fs_highest_ttl_for_round f = fs_highest_ttl f -> hs <> [] /\ last hs hop_default = h).
Proof.
  intros HW HR Hv Hpos. destruct (target_hop_slot f HW HR) as (h & Ht & Hn & _).
  exists h. split; [assumption|]. destruct HR as [Hr [H0|Hlo]]; [lia|].
  assert (Hk : nth_error hs (Z.to_nat (fs_highest_ttl_for_round f - fs_lowest_ttl f)) = Some h).
  { apply (view_nth f hs HW Hv). split; [lia|]. split; [lia|].
    replace (fs_lowest_ttl f + Z.of_nat (Z.to_nat (fs_highest_ttl_for_round f - fs_lowest_ttl f)) - 1)
      with (fs_highest_ttl_for_round f - 1) by lia. assumption. }
  split; [assumption|]. intros Heq.
  destruct (hops_view_window f HW) as (hs' & Hv' & _ & Hfull & _). rewrite Hv in Hv'. inversion Hv'; subst hs'.
  destruct (Hfull ltac:(lia) ltac:(lia)) as (_ & Hlen & _).
  split; [intro X; rewrite X in Hlen; cbn in Hlen; lia|].
  assert (Hidx : Z.to_nat (fs_highest_ttl_for_round f - fs_lowest_ttl f) = (length hs - 1)%nat) by lia.
  rewrite Hidx in Hk. clear -Hk. revert Hk. generalize hop_default as d.
  induction hs as [|x [|y hs] IH]; intros d Hk; cbn [length] in Hk.
  - discriminate.
  - cbn in Hk. inversion Hk. reflexivity.
  - change (last (x :: y :: hs) d) with (last (y :: hs) d). apply IH.
    replace (S (S (length hs)) - 1)%nat with (S (length (y :: hs) - 1)) in Hk by (cbn [length]; lia). exact Hk.
Qed.

(* is_target / is_in_round of the hops of the view, by position.  A probed hop (ttl tag <> 0) at position k is the
   target iff lowest + k is the latest round's path length, and in the round iff lowest + k does not exceed it.
   A never-probed hop (tag 0) is always "in round" and is "target" exactly when the latest round reported length 0 *)
Theorem view_flags f hs k h : WInv f -> RInv f -> fs_hops_view f = Ok hs -> nth_error hs k = Some h ->
  (h_ttl h <> 0 ->
     h_ttl h = fs_lowest_ttl f + Z.of_nat k /\
     fs_is_target f h = (fs_highest_ttl_for_round f =? fs_lowest_ttl f + Z.of_nat k) /\
     fs_is_in_round f h = (fs_lowest_ttl f + Z.of_nat k <=? fs_highest_ttl_for_round f)) /\
  (h_ttl h = 0 ->
     fs_is_target f h = (fs_highest_ttl_for_round f =? 0) /\ fs_is_in_round f h = true).
Proof.
  intros HW HR Hv Hk. pose proof HW as ((_ & Htag) & _).
  apply (view_nth f hs HW Hv) in Hk. destruct Hk as (N0 & Hle & Hn).
  unfold fs_is_target, fs_is_in_round. split.
  - intros Hnz. destruct (Htag _ _ Hn) as [Hz|Hz]; [contradiction|].
    assert (E : h_ttl h = fs_lowest_ttl f + Z.of_nat k).
    { destruct HW as (_ & _ & HJ & _). rewrite Hz. lia. }
    rewrite E. repeat split; reflexivity.
  - intros ->. destruct HR as [Hr _]. split; [reflexivity|lia].
Qed.

(* no probed hop beyond the latest round's path length is the target hop or in the round *)
Corollary beyond_round_not_target f hs k h : WInv f -> RInv f -> fs_hops_view f = Ok hs -> nth_error hs k = Some h ->
  h_ttl h <> 0 -> fs_highest_ttl_for_round f < fs_lowest_ttl f + Z.of_nat k ->
  fs_is_target f h = false /\ fs_is_in_round f h = false.
Proof.
  intros HW HR Hv Hk Hnz Hlt. destruct (view_flags f hs k h HW HR Hv Hk) as [F _].
  destruct (F Hnz) as (_ & -> & ->). lia.
Qed.

(* the window never shrinks: over any further history the upper end does not decrease, and the lower end, once set,
   does not increase - so hops() after a prefix of the history is a sub-range of hops() after the whole history *)
Theorem window_monotone : forall rs f f', WInv f -> Forall wf_round rs -> fs_run f rs = Ok f' ->
  fs_highest_ttl f <= fs_highest_ttl f' /\
  (fs_lowest_ttl f <> 0 -> fs_lowest_ttl f' <> 0 /\ fs_lowest_ttl f' <= fs_lowest_ttl f).
Proof.
  induction rs as [|r t IH]; intros f f' HW Hwf H; cbn [fs_run] in H.
  - inversion H; subst. split; [lia|]. intros N; split; [assumption|lia].
  - destruct (fs_apply f r) as [f1|?|?] eqn:E; cbn [bind] in H; try discriminate.
    destruct (fs_apply_window f r HW (Forall_inv Hwf)) as (f1' & H1 & HW1 & Hh & _ & _ & Hl & _).
    rewrite E in H1. inversion H1; subst f1'.
    destruct (IH f1 f' HW1 (Forall_inv_tail Hwf) H) as [I1 I2]. split; [lia|]. intros N.
    destruct (Forall_inv Hwf) as (Hok & _).
    assert (Hlo0 : 0 <= fs_lowest_ttl f) by (destruct HW as (_ & _ & [[-> _]|[? _]] & _); lia).
    destruct (fold_lowest_spec (ttls (rr_probes r)) (fs_lowest_ttl f) Hlo0 Hok) as (_ & _ & S3). cbn zeta in S3.
    rewrite <- Hl in S3. destruct (S3 N) as (N1 & L1 & _). destruct (I2 N1) as [N2 L2]. split; [assumption|lia].
Qed.

(* ====================================================================== 4. rounds of the strategy's shape *)
Fixpoint zr (a : Z) (n : nat) : list Z := match n with O => [] | S n' => a :: zr (a + 1) n' end.

Lemma in_zr : forall n a t, In t (zr a n) <-> a <= t < a + Z.of_nat n.
Proof.
  induction n as [|n IH]; intros a t; cbn [zr In]; [lia|]. rewrite IH. lia.
Qed.

(* ttls first, first + 1, ... *)
Definition contig (ft : Z) (r : round_rec) : Prop := exists n, ttls (rr_probes r) = zr ft n.
Definition round_max (m : Z) (r : round_rec) : Z := fold_left Z.max (ttls (rr_probes r)) m.
(* the reported path length never exceeds the farthest ttl probed so far (m: farthest before this history) *)
Fixpoint covered (m : Z) (rs : list round_rec) : Prop :=
  match rs with
  | [] => True
  | r :: t => rr_largest_ttl r <= round_max m r /\ covered (round_max m r) t
  end.

Lemma fold_max_spec l : forall m, (forall t, In t l -> t <= fold_left Z.max l m) /\ m <= fold_left Z.max l m /\
  (fold_left Z.max l m = m \/ In (fold_left Z.max l m) l).
Proof.
  induction l as [|x l IH]; intros m; cbn [fold_left].
  - split; [intros t []|]. split; [lia|left; reflexivity].
  - destruct (IH (Z.max m x)) as (A & B & C). split; [|split].
    + intros t [<-|Ht]; [lia|apply A; assumption].
    + lia.
    + destruct C as [C|C]; [|right; right; assumption].
      destruct (Z.max_spec m x) as [[_ E]|[_ E]]; [right; left; rewrite C; symmetry; exact E|left; rewrite C; exact E].
Qed.

Lemma round_max_contig ft r m n : ttls (rr_probes r) = zr ft n ->
  round_max m r = if (n =? 0)%nat then m else Z.max m (ft + Z.of_nat n - 1).
Proof.
  intros E. unfold round_max. rewrite E. clear E. revert ft m.
  induction n as [|n IH]; intros ft m; [reflexivity|]. cbn [zr fold_left]. rewrite IH.
  destruct n as [|n]; cbn [Nat.eqb]; lia.
Qed.

(* every slot of first..P holds a hop tagged with its own ttl; P = farthest ttl probed so far *)
Definition Full (ft P : Z) (f : flow_state) : Prop :=
  (P = 0 -> fs_lowest_ttl f = 0) /\ (P <> 0 -> fs_lowest_ttl f = ft /\ ft <= P) /\ 0 <= P <= 254 /\
  fs_highest_ttl f <= P /\
  forall t, ft <= t <= P -> exists h, nth_error (fs_hops f) (Z.to_nat (t - 1)) = Some h /\ h_ttl h = t.

Lemma fs_apply_keeps_tags f r f' : WInv f -> wf_round r -> fs_apply f r = Ok f' ->
  forall i h, nth_error (fs_hops f) i = Some h -> h_ttl h <> 0 ->
    exists h', nth_error (fs_hops f') i = Some h' /\ h_ttl h' = h_ttl h.
Proof.
  intros (HF & _) (Hok & _) H. unfold fs_apply in H.
  match type of H with context [fold_probes _ ?u0 _] => set (u := u0) in * end.
  destruct (fold_probes_window (rr_probes r) (rr_probes r) u HF Hok) as (u' & H1 & _ & _ & _ & _ & _ & _ & K).
  rewrite H1 in H. cbn [bind] in H. inversion H; subst f'. exact K.
Qed.

Lemma fold_lowest_ge lo l : (forall t, In t l -> lo <= t) -> lo <> 0 -> fold_left update_lowest l lo = lo.
Proof.
  revert lo. induction l as [|x l IH]; intros lo Hge Hnz; [reflexivity|]. cbn [fold_left].
  assert (E : update_lowest lo x = lo).
  { unfold update_lowest. destruct (lo =? 0) eqn:E; [lia|]. specialize (Hge x (or_introl eq_refl)). lia. }
  rewrite E. apply IH; [|assumption]. intros t Ht. apply Hge. right; assumption.
Qed.

Lemma fold_lowest_contig ft n lo : 1 <= ft -> (lo = 0 \/ lo = ft) -> n <> 0%nat ->
  fold_left update_lowest (zr ft n) lo = ft.
Proof.
  intros Hft Hlo Hn. destruct n as [|n]; [congruence|]. cbn [zr fold_left].
  assert (E : update_lowest lo ft = ft) by (unfold update_lowest; destruct (lo =? 0) eqn:E; lia). rewrite E.
  apply fold_lowest_ge; [|lia]. intros t Ht. apply in_zr in Ht. lia.
Qed.

Lemma fs_apply_full ft P f r f' : 1 <= ft -> WInv f -> Full ft P f -> wf_round r -> contig ft r ->
  rr_largest_ttl r <= round_max P r -> fs_apply f r = Ok f' -> Full ft (round_max P r) f'.
Proof.
  intros Hft HW (F0 & F1 & FP & Fh & Ftag) Hwf [n Hn] Hcov H.
  destruct (fs_apply_window f r HW Hwf) as (f1 & H1 & HW1 & Hh & _ & _ & Hl & Htag).
  rewrite H in H1. inversion H1; subst f1. clear H1.
  pose proof (fs_apply_keeps_tags f r f' HW Hwf H) as Hkeep.
  pose proof (round_max_contig ft r P n Hn) as HP. rewrite HP in *.
  destruct Hwf as (Hok & _). unfold ttls_ok in Hok. rewrite Hn in Hok, Hl, Htag.
  destruct n as [|n].
  - cbn [Nat.eqb zr fold_left] in *. unfold Full. rewrite Hl, Hh.
    split; [assumption|]. split; [assumption|]. split; [assumption|]. split; [lia|].
    intros t Ht. destruct (Ftag t Ht) as (h & Hh' & Hht). destruct (Hkeep _ _ Hh' ltac:(lia)) as (h' & Hn' & Ht').
    exists h'. split; [assumption|lia].
  - cbn [Nat.eqb] in *.
    assert (Hlast : 1 <= ft + Z.of_nat (S n) - 1 <= 254).
    { rewrite Forall_forall in Hok. apply (Hok (ft + Z.of_nat (S n) - 1)). apply in_zr. lia. }
    assert (Hlo : fs_lowest_ttl f = 0 \/ fs_lowest_ttl f = ft).
    { destruct (Z.eq_dec P 0) as [E|E]; [left; apply F0; assumption|right; apply F1; assumption]. }
    rewrite (fold_lowest_contig ft (S n) _ Hft Hlo ltac:(discriminate)) in Hl.
    unfold Full. rewrite Hl, Hh.
    split; [lia|]. split; [intros _; split; [reflexivity|lia]|]. split; [lia|]. split; [lia|].
    intros t Ht. destruct (Z_le_gt_dec t (ft + Z.of_nat (S n) - 1)) as [Hle|Hgt].
    + apply Htag. apply in_zr. lia.
    + destruct (Ftag t ltac:(lia)) as (h & Hh' & Hht). destruct (Hkeep _ _ Hh' ltac:(lia)) as (h' & Hn' & Ht').
      exists h'. split; [assumption|lia].
Qed.

Lemma fs_run_full ft : 1 <= ft -> forall rs P f f', WInv f -> Full ft P f ->
  Forall wf_round rs -> Forall (contig ft) rs -> covered P rs -> fs_run f rs = Ok f' ->
  exists P', WInv f' /\ Full ft P' f'.
Proof.
  intros Hft. induction rs as [|r t IH]; intros P f f' HW HF Hwf Hct Hcov H; cbn [fs_run] in H.
  - inversion H; subst. exists P. split; assumption.
  - destruct (fs_apply f r) as [f1|?|?] eqn:E; cbn [bind] in H; try discriminate.
    destruct (fs_apply_window f r HW (Forall_inv Hwf)) as (f1' & H1 & HW1 & _). rewrite E in H1. inversion H1; subst f1'.
    cbn [covered] in Hcov. destruct Hcov as [Hc1 Hc2].
    pose proof (fs_apply_full ft P f r f1 Hft HW HF (Forall_inv Hwf) (Forall_inv Hct) Hc1 E) as HF1.
    apply (IH _ f1 f' HW1 HF1 (Forall_inv_tail Hwf) (Forall_inv_tail Hct) Hc2 H).
Qed.

Lemma Full_new ft ms : 1 <= ft -> Full ft 0 (flow_state_new ms).
Proof.
  intros Hft.
  unfold Full. cbn [flow_state_new fs_lowest_ttl fs_highest_ttl fs_hops].
  split; [reflexivity|]. split; [intros X; contradiction|]. split; [lia|]. split; [lia|]. intros t Ht. lia.
Qed.

(* for histories of the strategy's shape: every hop of hops() carries its OWN ttl (none is a never-probed default),
   the first one is first_ttl, and when the latest round reported a length L > 0 the target hop is the hop tagged L
   and it is the only hop of the view for which is_target holds *)
Theorem strategy_shaped_table ft rs ms f hs : 1 <= ft ->
  Forall wf_round rs -> Forall (contig ft) rs -> covered 0 rs ->
  fs_run (flow_state_new ms) rs = Ok f -> fs_hops_view f = Ok hs ->
  (forall k h, nth_error hs k = Some h -> h_ttl h = ft + Z.of_nat k /\ fs_lowest_ttl f = ft) /\
  (0 < fs_highest_ttl_for_round f ->
     exists h, fs_target_hop f = Ok h /\ h_ttl h = fs_highest_ttl_for_round f /\
       nth_error hs (Z.to_nat (fs_highest_ttl_for_round f - ft)) = Some h /\
       forall k h', nth_error hs k = Some h' ->
         (fs_is_target f h' = true <-> Z.of_nat k = fs_highest_ttl_for_round f - ft) /\
         (fs_is_in_round f h' = true <-> Z.of_nat k <= fs_highest_ttl_for_round f - ft)).
Proof.
  intros Hft Hwf Hct Hcov H Hv.
  destruct (fs_run_full ft Hft rs 0 _ f (WInv_new ms) (Full_new ft ms Hft) Hwf Hct Hcov H) as (P & HW & (F0 & F1 & FP & Fh & Ftag)).
  destruct (fs_run_rinv rs _ f (WInv_new ms) (RInv_new ms) Hwf H) as [_ HR].
  assert (Hown : forall k h, nth_error hs k = Some h -> h_ttl h = ft + Z.of_nat k /\ fs_lowest_ttl f = ft).
  { intros k h Hk. apply (view_nth f hs HW Hv) in Hk. destruct Hk as (N0 & Hle & Hn).
    destruct (Z.eq_dec P 0) as [E|E]; [specialize (F0 E); contradiction|]. destruct (F1 E) as [Hlo HftP].
    split; [|assumption]. rewrite Hlo in *.
    destruct (Ftag (ft + Z.of_nat k) ltac:(lia)) as (h0 & Hn0 & Ht0). rewrite Hn in Hn0. inversion Hn0; subst h0. assumption. }
  split; [assumption|]. intros Hpos.
  destruct (target_hop_in_view f hs HW HR Hv Hpos) as (h & Ht & Hk & _).
  destruct (Hown _ _ Hk) as [Htag Hlo].
  pose proof HR as [Hr [H0|Hlr]]; [lia|].
  exists h. split; [assumption|]. split; [rewrite Htag; lia|]. split; [rewrite <- Hlo; assumption|].
  intros k h' Hk'. destruct (Hown _ _ Hk') as [Htag' _].
  destruct (view_flags f hs k h' HW HR Hv Hk') as [Fl _]. destruct (Fl ltac:(lia)) as (_ & -> & ->). rewrite Hlo. lia.
Qed.

(* ====================================================================== 5. examples and a refuted reading *)
Definition hw_probe (t : Z) : probe :=
  {| p_sequence := t; p_identifier := 0; p_src_port := 0; p_dest_port := 0; p_ttl := t; p_round := 0; p_sent := 0; p_flags := 0 |}.
Definition hw_round (ts : list Z) (l : Z) : round_rec :=
  {| rr_probes := map (fun t => Awaited (hw_probe t)) ts; rr_largest_ttl := l; rr_reason := RoundTimeLimitExceeded |}.
Definition hw_get (r : result flow_state) : flow_state := match r with Ok f => f | _ => flow_state_new 0 end.
Definition hw_hops (r : result (list hop)) : list hop := match r with Ok l => l | _ => [] end.

Lemma hw_ttls l : forall ts, ttls (rr_probes (hw_round ts l)) = ts.
Proof.
  unfold hw_round. cbn [rr_probes]. induction ts as [|t ts IH]; [reflexivity|]. cbn [map]. rewrite ttls_cons.
  cbn [status_ttl hw_probe p_ttl]. f_equal. exact IH.
Qed.

Lemma hw_round_wf ts l : Forall (fun t => 1 <= t <= 254) ts -> 0 <= l <= 254 ->
  (l = 0 \/ exists t, In t ts /\ t <= l) -> wf_round (hw_round ts l).
Proof.
  intros Hts Hl Hc. unfold wf_round, ttls_ok. rewrite hw_ttls. cbn [hw_round rr_largest_ttl].
  split; [assumption|]. split; [assumption|assumption].
Qed.

(* for arbitrary (synthetic) well-formed rounds the reading "no hop beyond the latest round's path length is the
   target" is FALSE: round 1 probes ttl 1 and reports length 3, round 2 probes ttl 1 and reports length 0.
   hops() = slots 1..3; slots 2 and 3 were never probed (tag 0) and is_target answers true for them, because
   is_target compares the round's length 0 with the default tag 0.  (The strategy never publishes such a history:
   strategy_shaped_table.) *)
Theorem target_beyond_round_refuted :
  exists rs f hs k h, Forall wf_round rs /\ fs_run (flow_state_new 10) rs = Ok f /\ fs_hops_view f = Ok hs /\
    nth_error hs k = Some h /\ fs_highest_ttl_for_round f < fs_lowest_ttl f + Z.of_nat k /\ fs_is_target f h = true.
Proof.
  exists [hw_round [1] 3; hw_round [1] 0], (hw_get (fs_run (flow_state_new 10) [hw_round [1] 3; hw_round [1] 0])),
    (hw_hops (fs_hops_view (hw_get (fs_run (flow_state_new 10) [hw_round [1] 3; hw_round [1] 0])))), 1%nat, hop_default.
  split.
  { apply Forall_cons; [|apply Forall_cons; [|apply Forall_nil]].
    - apply hw_round_wf; [repeat constructor; lia|lia|right; exists 1; split; [left; reflexivity|lia]].
    - apply hw_round_wf; [repeat constructor; lia|lia|left; reflexivity]. }
  vm_compute. repeat split; reflexivity.
Qed.

Example hw_shaped_example :
  let rs := [hw_round [2;3;4] 3; hw_round [2;3] 3; hw_round [2;3;4;5] 5] in
  Forall wf_round rs /\ Forall (contig 2) rs /\ covered 0 rs /\
  map h_ttl (hw_hops (fs_hops_view (hw_get (fs_run (flow_state_new 10) rs)))) = [2;3;4;5] /\
  fs_highest_ttl_for_round (hw_get (fs_run (flow_state_new 10) rs)) = 5.
Proof.
  cbn zeta. split; [|split; [|split; [|split]]].
  - repeat (apply Forall_cons; [apply hw_round_wf; [repeat constructor; lia|lia|right; exists 2; split; [left; reflexivity|lia]]|]).
    apply Forall_nil.
  - apply Forall_cons; [exists 3%nat; reflexivity|]. apply Forall_cons; [exists 2%nat; reflexivity|].
    apply Forall_cons; [exists 4%nat; reflexivity|apply Forall_nil].
  - vm_compute. repeat split; discriminate.
  - vm_compute. reflexivity.
  - vm_compute. reflexivity.
Qed.
