(* Lemmas about the ICMP extension codec model (Packet/IcmpExt.v) against the RFC builder (Packet/Rfc4884.v). *)
From Coq Require Import ZifyBool.
From TV Require Import Base.Result Base.Bytes Packet.ByteOps Packet.Checksum Packet.IcmpExt Packet.Rfc4884.
Ltac Zify.zify_post_hook ::= Z.div_mod_to_equations.

(* ------------------------------------------------------------------------------------------ *)
(* checked slicing: when the bounds hold the result is the obvious one                         *)
(* ------------------------------------------------------------------------------------------ *)
Lemma index_lt {A} (l : list A) i : (i < length l)%nat -> exists x, index i l = Ok x.
Proof.
  intro H. unfold index. destruct (nth_error l i) eqn:E; [eauto|].
  apply nth_error_None in E. lia.
Qed.

Lemma index_app_l {A} (l r : list A) i : (i < length l)%nat -> index i (l ++ r) = index i l.
Proof. intro H. unfold index. rewrite nth_error_app1 by assumption. reflexivity. Qed.

Lemma buf_read_lt buf i : (i < length buf)%nat -> exists x, pv_buf_read i buf = Ok x.
Proof. apply index_lt. Qed.

Lemma slice_from_ok {A} (l : list A) a : (a <= length l)%nat -> slice_from a l = Ok (skipn a l).
Proof. intro H. unfold slice_from. destruct (Nat.leb_spec a (length l)); [reflexivity|lia]. Qed.

Lemma slice_ok {A} (l : list A) a b : (a <= b)%nat -> (b <= length l)%nat ->
  slice a b l = Ok (firstn (b - a) (skipn a l)).
Proof.
  intros H1 H2. unfold slice.
  destruct (Nat.leb_spec a b); [|lia]. destruct (Nat.leb_spec b (length l)); [reflexivity|lia].
Qed.

Lemma split_at_ok {A} (l : list A) n : (n <= length l)%nat -> split_at n l = Ok (firstn n l, skipn n l).
Proof. intro H. unfold split_at. destruct (Nat.leb_spec n (length l)); [reflexivity|lia]. Qed.

Lemma buf_get_u16_ok buf i : (i + 2 <= length buf)%nat ->
  exists a b, pv_buf_read i buf = Ok a /\ pv_buf_read (S i) buf = Ok b /\ buf_get_u16 i buf = Ok (a * 256 + b).
Proof.
  intro H. destruct (buf_read_lt buf i) as [a Ha]; [lia|]. destruct (buf_read_lt buf (S i)) as [b Hb]; [lia|].
  exists a, b. repeat split; try assumption.
  unfold buf_get_u16. cbn [buf_get_bytes]. rewrite Ha, Hb. cbn [bind]. unfold from_be_bytes. cbn [fold_left].
  f_equal; lia.
Qed.

Lemma skipn_app_len {A} (l r : list A) : skipn (length l) (l ++ r) = r.
Proof. rewrite skipn_app, skipn_all, Nat.sub_diag. reflexivity. Qed.

Lemma skipn_skipn_add {A} (l : list A) : forall a b, skipn a (skipn b l) = skipn (b + a) l.
Proof.
  intros a b. revert l. induction b as [|b IH]; intro l; [reflexivity|].
  destruct l; [rewrite !skipn_nil; reflexivity|]. cbn [skipn Nat.add]. apply IH.
Qed.

Lemma firstn_app_len {A} (l r : list A) : firstn (length l) (l ++ r) = l.
Proof. rewrite firstn_app, firstn_all, Nat.sub_diag. cbn. apply app_nil_r. Qed.

(* ------------------------------------------------------------------------------------------ *)
(* C14 "within": payload = a prefix, extension = a later suffix of the ICMP payload             *)
(* ------------------------------------------------------------------------------------------ *)
Lemma split_within : forall len l, exists n e,
  extension_splitter_split len l = Ok (firstn n l, e) /\ (n <= length l)%nat /\
  match e with
  | None => True
  | Some x => exists c, (n <= c)%nat /\ (c + 4 <= length l)%nat /\ x = skipn c l
  end.
Proof.
  intros len l. unfold extension_splitter_split, ICMP_ORIG_DATAGRAM_MIN_LENGTH, MIN_HEADER.
  assert (Hall : exists n e, Ok (l, @None (list Z)) = Ok (firstn n l, e) /\ (n <= length l)%nat /\
             match e with None => True | Some x => exists c, (n <= c)%nat /\ (c + 4 <= length l)%nat /\ x = skipn c l end).
  { exists (length l), None. rewrite firstn_all. auto. }
  destruct (Nat.ltb_spec (length l) len); [exact Hall|].
  destruct (Nat.ltb_spec 128 (length l)); [|exact Hall].
  destruct (Nat.ltb_spec 128 len).
  - rewrite split_at_ok by lia. cbn [bind fst snd].
    destruct (Nat.leb_spec 4 (length (skipn len l))) as [H4|H4]; [|exact Hall].
    rewrite skipn_length in H4. exists len, (Some (skipn len l)). split; [reflexivity|]. split; [lia|].
    exists len. repeat split; lia.
  - rewrite split_at_ok by lia. cbn [bind fst snd].
    destruct (Nat.leb_spec 4 (length (skipn 128 l))) as [H4|H4].
    2:{ destruct (Nat.ltb_spec 0 len); exact Hall. }
    rewrite skipn_length in H4.
    destruct (Nat.ltb_spec 0 len).
    + rewrite slice_ok by (try rewrite firstn_length; lia). cbn [bind skipn].
      rewrite Nat.sub_0_r, firstn_firstn, Nat.min_l by lia.
      exists len, (Some (skipn 128 l)). split; [reflexivity|]. split; [lia|].
      exists 128%nat. repeat split; lia.
    + exists 128%nat, (Some (skipn 128 l)). split; [reflexivity|]. split; [lia|].
      exists 128%nat. repeat split; lia.
Qed.

Lemma split_payload_extension_within : forall fam buf, (8 <= length buf)%nat ->
  exists n e,
    split_payload_extension fam buf = Ok (firstn n (skipn 8 buf), e) /\ (8 + n <= length buf)%nat /\
    match e with
    | None => True
    | Some x => exists c, (n <= c)%nat /\ (8 + c + 4 <= length buf)%nat /\ x = skipn (8 + c) buf
    end.
Proof.
  intros fam buf H. unfold split_payload_extension, icmp_error_get_length, icmp_error_min.
  destruct (buf_read_lt buf (LENGTH_OFFSET fam)) as [b Hb]; [destruct fam; cbn; lia|].
  rewrite Hb. cbn [bind]. rewrite slice_from_ok by lia. cbn [bind].
  destruct (split_within (Z.to_nat (b * length_unit fam)) (skipn 8 buf)) as (n & e & Hs & Hn & He).
  rewrite skipn_length in Hn. exists n, e. split; [exact Hs|]. split; [lia|].
  destruct e as [x|]; [|exact I].
  destruct He as (c & H1 & H2 & H3). rewrite skipn_length in H2. exists c. repeat split; try lia.
  rewrite H3, skipn_skipn_add. reflexivity.
Qed.

(* ------------------------------------------------------------------------------------------ *)
(* termination and fault freedom of the two iterators, for EVERY buffer                          *)
(* ------------------------------------------------------------------------------------------ *)
Definition suffix_inside (buf : list Z) (from : nat) (item : list Z) : Prop :=
  exists o, (from <= o)%nat /\ (o + 4 <= length buf)%nat /\ item = skipn o buf.

Lemma obj_next_spec : forall buf offset,
  extension_object_iter_next buf offset = Ok None \/
  exists len, (4 <= len)%nat /\ (offset + len <= length buf)%nat /\
              extension_object_iter_next buf offset = Ok (Some (skipn offset buf, (offset + len)%nat)).
Proof.
  intros buf offset. unfold extension_object_iter_next.
  destruct (Nat.ltb_spec (length buf) offset); [left; reflexivity|].
  rewrite slice_from_ok by lia. cbn [bind]. unfold new_view.
  destruct (Nat.leb_spec 4 (length (skipn offset buf))) as [H4|H4]; [|left; reflexivity].
  unfold extension_object_get_length.
  destruct (buf_get_u16_ok (skipn offset buf) 0) as (a & b & _ & _ & Hg); [lia|].
  rewrite Hg. cbn [bind].
  destruct (Nat.ltb_spec (Z.to_nat (a * 256 + b)) 4); [left; reflexivity|].
  destruct (Nat.ltb_spec (length (skipn offset buf)) (Z.to_nat (a * 256 + b))); [left; reflexivity|].
  cbn [orb]. right. exists (Z.to_nat (a * 256 + b)). rewrite skipn_length in *. repeat split; try lia.
Qed.

Lemma objects_collect_total : forall fuel buf offset, ((length buf - offset) / 4 + 1 <= fuel)%nat ->
  exists items, extension_object_iter_collect fuel buf offset = Ok items /\
                (length items <= (length buf - offset) / 4)%nat /\
                Forall (suffix_inside buf offset) items.
Proof.
  induction fuel as [|f IH]; intros buf offset Hf; [lia|].
  cbn [extension_object_iter_collect].
  destruct (obj_next_spec buf offset) as [Hn | (len & H4 & Hl & Hn)]; rewrite Hn; cbn [bind].
  - exists []. split; [reflexivity|]. split; [cbn; lia|constructor].
  - destruct (IH buf (offset + len)%nat) as (items & Hc & Hlen & Hall).
    { assert ((length buf - (offset + len)) / 4 + 1 <= (length buf - offset) / 4)%nat; [|lia].
      replace (length buf - offset)%nat with ((length buf - (offset + len)) + len)%nat by lia.
      pose proof (Nat.div_le_mono (length buf - (offset + len) + 4) (length buf - (offset + len) + len) 4 ltac:(lia) ltac:(lia)) as Hm.
      replace (length buf - (offset + len) + 4)%nat with (length buf - (offset + len) + 1 * 4)%nat in Hm by lia.
      rewrite Nat.div_add in Hm by lia. exact Hm. }
    rewrite Hc. cbn [bind]. exists (skipn offset buf :: items). split; [reflexivity|]. split.
    + cbn [length].
      assert ((length buf - (offset + len)) / 4 + 1 <= (length buf - offset) / 4)%nat; [|lia].
      replace (length buf - offset)%nat with ((length buf - (offset + len)) + len)%nat by lia.
      pose proof (Nat.div_le_mono (length buf - (offset + len) + 4) (length buf - (offset + len) + len) 4 ltac:(lia) ltac:(lia)) as Hm.
      replace (length buf - (offset + len) + 4)%nat with (length buf - (offset + len) + 1 * 4)%nat in Hm by lia.
      rewrite Nat.div_add in Hm by lia. exact Hm.
    + constructor.
      * exists offset. repeat split; lia.
      * eapply Forall_impl; [|exact Hall]. intros it (o & Ho1 & Ho2 & Ho3). exists o. repeat split; try lia. exact Ho3.
Qed.

Lemma objects_collect_mono : forall f buf offset items,
  extension_object_iter_collect f buf offset = Ok items ->
  forall f', (f <= f')%nat -> extension_object_iter_collect f' buf offset = Ok items.
Proof.
  induction f as [|f IH]; intros buf offset items H f' Hf; [discriminate|].
  destruct f' as [|f']; [lia|]. cbn [extension_object_iter_collect] in *.
  destruct (extension_object_iter_next buf offset) as [[[it off']|]|e|x]; cbn [bind] in *; try discriminate; [|exact H].
  destruct (extension_object_iter_collect f buf off') as [rest|e|x] eqn:E; cbn [bind] in H; try discriminate.
  rewrite (IH _ _ _ E f') by lia. exact H.
Qed.

Lemma mpls_next_spec : forall buf offset bos,
  mpls_label_stack_iter_next buf offset bos = Ok None \/
  exists b, (offset + 4 <= length buf)%nat /\
            mpls_label_stack_iter_next buf offset bos = Ok (Some (skipn offset buf, (offset + 4)%nat, b)).
Proof.
  intros buf offset bos. unfold mpls_label_stack_iter_next.
  destruct (0 <? bos); [left; reflexivity|]. cbn [orb].
  destruct (Nat.leb_spec (length buf) offset); [left; reflexivity|].
  rewrite slice_from_ok by lia. cbn [bind]. unfold new_view.
  destruct (Nat.leb_spec 4 (length (skipn offset buf))) as [H4|H4]; [|left; reflexivity].
  rewrite skipn_length in H4. unfold pv_mpls_member_get_bos.
  destruct (buf_read_lt (skipn offset buf) 2) as [b Hb]; [rewrite skipn_length; lia|].
  rewrite Hb. cbn [bind]. right. exists (pv_u8_and b 1). split; [lia|reflexivity].
Qed.

Lemma mpls_collect_total : forall fuel buf offset bos, ((length buf - offset) / 4 + 1 <= fuel)%nat ->
  exists items, mpls_label_stack_iter_collect fuel buf offset bos = Ok items /\
                (length items <= (length buf - offset) / 4)%nat /\
                Forall (suffix_inside buf offset) items.
Proof.
  induction fuel as [|f IH]; intros buf offset bos Hf; [lia|].
  cbn [mpls_label_stack_iter_collect].
  destruct (mpls_next_spec buf offset bos) as [Hn | (b & Hl & Hn)]; rewrite Hn; cbn [bind].
  - exists []. split; [reflexivity|]. split; [cbn; lia|constructor].
  - assert (Hd : ((length buf - (offset + 4)) / 4 + 1 <= (length buf - offset) / 4)%nat).
    { replace (length buf - offset)%nat with ((length buf - (offset + 4)) + 1 * 4)%nat by lia.
      rewrite Nat.div_add by lia. lia. }
    destruct (IH buf (offset + 4)%nat b) as (items & Hc & Hlen & Hall); [lia|].
    rewrite Hc. cbn [bind]. exists (skipn offset buf :: items). split; [reflexivity|]. split; [cbn [length]; lia|].
    constructor.
    + exists offset. repeat split; lia.
    + eapply Forall_impl; [|exact Hall]. intros it (o & Ho1 & Ho2 & Ho3). exists o. repeat split; try lia. exact Ho3.
Qed.

Lemma mpls_collect_mono : forall f buf offset bos items,
  mpls_label_stack_iter_collect f buf offset bos = Ok items ->
  forall f', (f <= f')%nat -> mpls_label_stack_iter_collect f' buf offset bos = Ok items.
Proof.
  induction f as [|f IH]; intros buf offset bos items H f' Hf; [discriminate|].
  destruct f' as [|f']; [lia|]. cbn [mpls_label_stack_iter_collect] in *.
  destruct (mpls_label_stack_iter_next buf offset bos) as [[[[it off'] b']|]|e|x]; cbn [bind] in *; try discriminate; [|exact H].
  destruct (mpls_label_stack_iter_collect f buf off' b') as [rest|e|x] eqn:E; cbn [bind] in H; try discriminate.
  rewrite (IH _ _ _ _ E f') by lia. exact H.
Qed.

Lemma iter_fuel_ge buf offset : ((length buf - offset) / 4 + 1 <= iter_fuel buf)%nat.
Proof.
  unfold iter_fuel. pose proof (Nat.div_le_mono (length buf - offset) (length buf) 4 ltac:(lia) ltac:(lia)). lia.
Qed.

Lemma objects_total : forall buf,
  exists items, extensions_objects buf = Ok items /\ (length items <= length buf / 4)%nat /\
                Forall (suffix_inside buf 4) items.
Proof.
  intro buf. unfold extensions_objects.
  destruct (objects_collect_total (iter_fuel buf) buf 4 (iter_fuel_ge buf 4)) as (items & H1 & H2 & H3).
  exists items. split; [exact H1|]. split; [|exact H3].
  pose proof (Nat.div_le_mono (length buf - 4) (length buf) 4 ltac:(lia) ltac:(lia)). lia.
Qed.

Lemma members_total : forall buf,
  exists items, mpls_label_stack_members buf = Ok items /\ (length items <= length buf / 4)%nat /\
                Forall (suffix_inside buf 0) items.
Proof.
  intro buf. unfold mpls_label_stack_members.
  destruct (mpls_collect_total (iter_fuel buf) buf 0 0 (iter_fuel_ge buf 0)) as (items & H1 & H2 & H3).
  exists items. split; [exact H1|]. split; [|exact H3]. rewrite Nat.sub_0_r in H2. exact H2.
Qed.

Lemma iter_fuel_enough : forall buf fuel, (iter_fuel buf <= fuel)%nat ->
  extension_object_iter_collect fuel buf 4 = extensions_objects buf /\
  mpls_label_stack_iter_collect fuel buf 0 0 = mpls_label_stack_members buf.
Proof.
  intros buf fuel Hf. split.
  - destruct (objects_total buf) as (items & H & _). rewrite H. eapply objects_collect_mono; [exact H|exact Hf].
  - destruct (members_total buf) as (items & H & _). rewrite H. eapply mpls_collect_mono; [exact H|exact Hf].
Qed.

(* ------------------------------------------------------------------------------------------ *)
(* no fault anywhere in the decoding of an extension structure, for EVERY byte list              *)
(* ------------------------------------------------------------------------------------------ *)
Lemma object_payload_ok obj : (4 <= length obj)%nat -> exists p, extension_object_payload obj = Ok p.
Proof.
  intro H. unfold extension_object_payload, extension_object_get_length.
  destruct (buf_get_u16_ok obj 0) as (a & b & _ & _ & Hg); [lia|]. rewrite Hg. cbn [bind].
  rewrite slice_ok by lia. eauto.
Qed.

Lemma member_from_ok buf : (4 <= length buf)%nat -> exists m, mpls_member_from buf = Ok m.
Proof.
  intro H. unfold mpls_member_from, pv_mpls_member_get_label, pv_mpls_member_get_exp, pv_mpls_member_get_bos, pv_mpls_member_get_ttl.
  destruct (buf_read_lt buf 0) as [a Ha]; [lia|]. destruct (buf_read_lt buf 1) as [b Hb]; [lia|].
  destruct (buf_read_lt buf 2) as [c Hc]; [lia|]. destruct (buf_read_lt buf 3) as [d Hd]; [lia|].
  rewrite Ha, Hb, Hc, Hd. cbn [bind]. eauto.
Qed.

Lemma flat_map_new_view_len min items : Forall (fun x => (min <= length x)%nat) (flat_map_new_view min items).
Proof.
  induction items as [|x t IH]; [constructor|]. cbn [flat_map_new_view]. unfold new_view.
  destruct (Nat.leb_spec min (length x)); [constructor; assumption|assumption].
Qed.

Lemma map_members_ok items : Forall (fun x => (4 <= length x)%nat) items -> exists ms, map_members items = Ok ms.
Proof.
  induction 1 as [|x t Hx _ [ms IH]]; [exists []; reflexivity|].
  cbn [map_members]. destruct (member_from_ok x Hx) as [m Hm]. rewrite Hm, IH. cbn [bind]. eauto.
Qed.

Lemma mpls_from_ok buf : exists ms, mpls_label_stack_from buf = Ok ms.
Proof.
  unfold mpls_label_stack_from. destruct (members_total buf) as (items & H & _). rewrite H. cbn [bind].
  apply map_members_ok, flat_map_new_view_len.
Qed.

Lemma extension_from_object_nofault obj : (4 <= length obj)%nat -> is_fault (extension_from_object obj) = false.
Proof.
  intro H. unfold extension_from_object, unknown_extension_from, extension_object_get_class_num, extension_object_get_class_subtype.
  destruct (buf_read_lt obj 2) as [c Hc]; [lia|]. destruct (buf_read_lt obj 3) as [s Hs]; [lia|].
  destruct (object_payload_ok obj H) as [p Hp]. rewrite Hc, Hs, Hp. cbn [bind].
  destruct (c =? 1); [|reflexivity].
  unfold new_view. destruct (4 <=? length p)%nat; [|reflexivity]. cbn [bind].
  destruct (mpls_from_ok p) as [ms Hm]. rewrite Hm. reflexivity.
Qed.

Lemma collect_extensions_nofault objs :
  Forall (fun x => (4 <= length x)%nat) objs -> is_fault (collect_extensions objs) = false.
Proof.
  induction 1 as [|o t Ho _ IH]; [reflexivity|]. cbn [collect_extensions].
  pose proof (extension_from_object_nofault o Ho) as H1.
  destruct (extension_from_object o); cbn [bind is_fault] in *; try reflexivity; try discriminate.
  destruct (collect_extensions t); cbn [bind is_fault] in *; try reflexivity; discriminate.
Qed.

Lemma extensions_try_from_nofault buf : is_fault (extensions_try_from buf) = false.
Proof.
  unfold extensions_try_from, new_view at 1.
  destruct (Nat.leb_spec 4 (length buf)) as [H|H]; [|reflexivity]. cbn [bind].
  unfold extensions_header. rewrite slice_ok by lia. cbn [bind skipn]. unfold new_view.
  rewrite Nat.sub_0_r, firstn_length, Nat.min_l by lia. cbn [Nat.leb bind].
  unfold extension_header_get_version.
  destruct (buf_read_lt (firstn 4 buf) 0) as [v Hv]; [rewrite firstn_length; lia|]. rewrite Hv. cbn [bind].
  destruct (negb _); [reflexivity|].
  destruct (objects_total buf) as (items & Hi & _). rewrite Hi. cbn [bind].
  apply collect_extensions_nofault, flat_map_new_view_len.
Qed.

Lemma nested_and_extensions_nofault pm kind fam buf : is_fault (nested_and_extensions pm kind fam buf) = false.
Proof.
  unfold nested_and_extensions, new_view, icmp_error_min.
  destruct (Nat.leb_spec 8 (length buf)) as [H|H]; [|reflexivity]. cbn [bind].
  destruct (split_payload_extension_within fam buf H) as (n & e & Hs & _ & _).
  unfold icmp_error_payload, icmp_error_extension, icmp_error_payload_raw, icmp_error_min.
  destruct pm, kind; rewrite ?Hs, ?slice_from_ok by lia; cbn [bind fst snd]; try reflexivity.
  all: unfold extension_map_try_from; destruct e as [x|]; cbn [bind]; try reflexivity.
  all: pose proof (extensions_try_from_nofault x) as Hx; destruct (extensions_try_from x); cbn [bind is_fault] in *; try reflexivity; discriminate.
Qed.

(* ------------------------------------------------------------------------------------------ *)
(* round trip, bottom-up.  Byte-local bit facts by a sweep over the 256 byte values.             *)
(* ------------------------------------------------------------------------------------------ *)
Lemma byte_sweep (P : Z -> bool) :
  forallb P (map Z.of_nat (seq 0 256)) = true -> forall b, 0 <= b < 256 -> P b = true.
Proof.
  intros H b Hb. rewrite forallb_forall in H. apply H.
  replace b with (Z.of_nat (Z.to_nat b)) by lia. apply in_map, in_seq. lia.
Qed.

Lemma exp_bits b : 0 <= b < 256 -> pv_u8_shr (pv_u8_and b 14) 1 = (b / 2) mod 8.
Proof. intro H. apply Z.eqb_eq. revert b H. apply byte_sweep. vm_compute. reflexivity. Qed.

Lemma bos_bits b : 0 <= b < 256 -> pv_u8_and b 1 = b mod 2.
Proof. intro H. apply Z.eqb_eq. revert b H. apply byte_sweep. vm_compute. reflexivity. Qed.

Lemma enc_lse_length e : length (enc_lse e) = 4%nat.
Proof. reflexivity. Qed.

Lemma stack_bytes_length st : length (flat_map enc_lse st) = (4 * length st)%nat.
Proof. induction st as [|e t IH]; [reflexivity|]. cbn [flat_map]. rewrite app_length, IH, enc_lse_length. cbn [length]. lia. Qed.

Lemma member_bos_enc e rest : lse_wf e -> pv_mpls_member_get_bos (enc_lse e ++ rest) = Ok (lse_s e).
Proof.
  intros (Hl & He & Hs & Ht). unfold pv_mpls_member_get_bos, enc_lse, pv_buf_read, index. cbn [app nth_error bind].
  rewrite bos_bits by lia. f_equal. lia.
Qed.

Lemma member_from_enc e rest : lse_wf e -> mpls_member_from (enc_lse e ++ rest) = Ok (expected_member e).
Proof.
  intros Hwf. pose proof Hwf as (Hl & He & Hs & Ht).
  unfold mpls_member_from. rewrite (member_bos_enc e rest Hwf).
  unfold pv_mpls_member_get_label, pv_mpls_member_get_exp, pv_mpls_member_get_ttl, enc_lse, pv_buf_read, index.
  cbn [app nth_error bind]. rewrite exp_bits by lia.
  unfold from_be_bytes. cbn [fold_left]. rewrite Z.shiftr_div_pow2 by lia. change (2 ^ 4) with 16.
  unfold expected_member.
  assert (H1 : ((((0 * 256 + 0) * 256 + lse_label e / 4096) * 256 + lse_label e / 16 mod 256) * 256 +
               (lse_label e mod 16 * 16 + lse_exp e * 2 + lse_s e)) / 16 = lse_label e) by lia.
  assert (H2 : (lse_label e mod 16 * 16 + lse_exp e * 2 + lse_s e) / 2 mod 8 = lse_exp e) by lia.
  rewrite H1, H2. reflexivity.
Qed.

Fixpoint stack_suffixes (st : list lse) : list (list Z) :=
  match st with
  | [] => []
  | e :: t => flat_map enc_lse (e :: t) :: (if 0 <? lse_s e then [] else stack_suffixes t)
  end.

Lemma mpls_collect_enc : forall st pre fuel, Forall lse_wf st -> (length st < fuel)%nat ->
  mpls_label_stack_iter_collect fuel (pre ++ flat_map enc_lse st) (length pre) 0 = Ok (stack_suffixes st).
Proof.
  induction st as [|e t IH]; intros pre fuel Hwf Hf; (destruct fuel as [|f]; [cbn in Hf; lia|]).
  - cbn [mpls_label_stack_iter_collect flat_map]. rewrite app_nil_r. unfold mpls_label_stack_iter_next.
    change (0 <? 0) with false. cbn [orb]. rewrite Nat.leb_refl. reflexivity.
  - inversion Hwf as [|? ? He Ht]; subst. cbn [length] in Hf.
    cbn [mpls_label_stack_iter_collect]. unfold mpls_label_stack_iter_next.
    change (0 <? 0) with false. cbn [orb].
    destruct (Nat.leb_spec (length (pre ++ flat_map enc_lse (e :: t))) (length pre)) as [Hc|_].
    { rewrite app_length, stack_bytes_length in Hc. cbn [length] in Hc. lia. }
    rewrite slice_from_ok by (rewrite app_length; lia). cbn [bind]. rewrite skipn_app_len.
    unfold new_view. destruct (Nat.leb_spec 4 (length (flat_map enc_lse (e :: t)))) as [_|Hc].
    2:{ rewrite stack_bytes_length in Hc. cbn [length] in Hc. lia. }
    cbn [flat_map]. rewrite (member_bos_enc e _ He). cbn [bind].
    destruct He as (_ & _ & Hs & _).
    assert (Hs' : lse_s e = 0 \/ lse_s e = 1) by lia. destruct Hs' as [Hs'|Hs']; rewrite Hs'.
    + specialize (IH (pre ++ enc_lse e) f Ht ltac:(lia)).
      rewrite app_length, enc_lse_length, <- app_assoc in IH. rewrite IH. cbn [bind stack_suffixes flat_map].
      rewrite Hs'. reflexivity.
    + destruct f as [|f]; [lia|]. cbn [mpls_label_stack_iter_collect]. unfold mpls_label_stack_iter_next.
      change (0 <? 1) with true. cbn [orb bind stack_suffixes flat_map]. rewrite Hs'. reflexivity.
Qed.

Lemma members_of_suffixes st : Forall lse_wf st ->
  map_members (flat_map_new_view 4 (stack_suffixes st)) = Ok (map expected_member (upto_bos st)).
Proof.
  induction 1 as [|e t He _ IH]; [reflexivity|].
  cbn [stack_suffixes flat_map_new_view upto_bos]. unfold new_view at 1.
  destruct (Nat.leb_spec 4 (length (flat_map enc_lse (e :: t)))) as [_|Hc].
  2:{ rewrite stack_bytes_length in Hc. cbn [length] in Hc. lia. }
  cbn [map_members flat_map]. rewrite (member_from_enc e _ He). cbn [bind].
  destruct (0 <? lse_s e).
  - cbn [flat_map_new_view map_members bind map]. reflexivity.
  - rewrite IH. cbn [bind map]. reflexivity.
Qed.

Lemma mpls_from_enc st : Forall lse_wf st ->
  mpls_label_stack_from (flat_map enc_lse st) = Ok (map expected_member (upto_bos st)).
Proof.
  intro H. unfold mpls_label_stack_from, mpls_label_stack_members.
  pose proof (mpls_collect_enc st [] (iter_fuel (flat_map enc_lse st)) H) as Hc. cbn [app length] in Hc.
  rewrite Hc.
  - cbn [bind]. apply members_of_suffixes, H.
  - unfold iter_fuel. rewrite stack_bytes_length, Nat.mul_comm, Nat.div_mul by lia. lia.
Qed.

(* objects *)
Lemma enc_object_length o : length (enc_object o) = (4 + length (obj_payload o))%nat.
Proof. unfold enc_object. cbn [app length]. reflexivity. Qed.

Lemma obj_len_bound o : obj_wf o -> 4 + Z.of_nat (length (obj_payload o)) <= 65535.
Proof.
  destruct o as [t st|c t p]; cbn [obj_wf obj_payload].
  - intros (_ & _ & _ & H). rewrite stack_bytes_length. lia.
  - intros (_ & _ & _ & H). exact H.
Qed.

Lemma object_length_enc o rest : obj_wf o ->
  extension_object_get_length (enc_object o ++ rest) = Ok (4 + Z.of_nat (length (obj_payload o))).
Proof.
  intro H. apply obj_len_bound in H.
  unfold extension_object_get_length, buf_get_u16, enc_object. cbn [app buf_get_bytes].
  unfold pv_buf_read, index. cbn [nth_error bind]. unfold from_be_bytes. cbn [fold_left]. f_equal. lia.
Qed.

Lemma object_payload_enc o rest : obj_wf o -> extension_object_payload (enc_object o ++ rest) = Ok (obj_payload o).
Proof.
  intro H. unfold extension_object_payload. rewrite (object_length_enc o rest H). cbn [bind].
  pose proof (obj_len_bound o H) as Hb.
  assert (Hl : length (enc_object o ++ rest) = (4 + length (obj_payload o) + length rest)%nat)
    by (rewrite app_length, enc_object_length; reflexivity).
  rewrite slice_ok by lia. f_equal. rewrite Hl.
  unfold enc_object. cbn [app skipn].
  replace (Nat.min (Nat.max (Z.to_nat (4 + Z.of_nat (length (obj_payload o)))) 4) (4 + length (obj_payload o) + length rest) - 4)%nat
    with (length (obj_payload o)) by lia.
  apply firstn_app_len.
Qed.

Fixpoint obj_suffixes (objs : list ext_object) : list (list Z) :=
  match objs with
  | [] => []
  | o :: t => ext_body (o :: t) :: obj_suffixes t
  end.

Lemma objects_collect_enc : forall objs pre fuel, Forall obj_wf objs -> (length objs < fuel)%nat ->
  extension_object_iter_collect fuel (pre ++ ext_body objs) (length pre) = Ok (obj_suffixes objs).
Proof.
  induction objs as [|o t IH]; intros pre fuel Hwf Hf; (destruct fuel as [|f]; [cbn in Hf; lia|]).
  - cbn [extension_object_iter_collect]. unfold ext_body. cbn [flat_map]. rewrite app_nil_r.
    unfold extension_object_iter_next. rewrite Nat.ltb_irrefl, slice_from_ok, skipn_all by lia. reflexivity.
  - inversion Hwf as [|? ? Ho Ht]; subst. cbn [length] in Hf.
    cbn [extension_object_iter_collect]. unfold extension_object_iter_next.
    destruct (Nat.ltb_spec (length (pre ++ ext_body (o :: t))) (length pre)) as [Hc|_].
    { rewrite app_length in Hc. lia. }
    rewrite slice_from_ok by (rewrite app_length; lia). cbn [bind]. rewrite skipn_app_len.
    unfold ext_body. cbn [flat_map]. fold (ext_body t).
    unfold new_view. destruct (Nat.leb_spec 4 (length (enc_object o ++ ext_body t))) as [_|Hc].
    2:{ rewrite app_length, enc_object_length in Hc. lia. }
    rewrite (object_length_enc o _ Ho). cbn [bind].
    pose proof (obj_len_bound o Ho) as Hb.
    destruct (Nat.ltb_spec (Z.to_nat (4 + Z.of_nat (length (obj_payload o)))) 4); [lia|].
    destruct (Nat.ltb_spec (length (enc_object o ++ ext_body t)) (Z.to_nat (4 + Z.of_nat (length (obj_payload o))))) as [Hc|_].
    { rewrite app_length, enc_object_length in Hc. lia. }
    cbn [orb].
    specialize (IH (pre ++ enc_object o) f Ht ltac:(lia)).
    rewrite app_length, enc_object_length, <- app_assoc in IH.
    replace (length pre + Z.to_nat (4 + Z.of_nat (length (obj_payload o))))%nat with (length pre + (4 + length (obj_payload o)))%nat by lia.
    cbn [bind]. rewrite IH. cbn [bind obj_suffixes]. unfold ext_body. cbn [flat_map]. reflexivity.
Qed.

Lemma extension_from_object_enc o rest : obj_wf o ->
  extension_from_object (enc_object o ++ rest) = Ok (expected_extension o).
Proof.
  intro H. unfold extension_from_object, unknown_extension_from.
  rewrite (object_payload_enc o rest H).
  unfold extension_object_get_class_num, extension_object_get_class_subtype, pv_buf_read, index, enc_object.
  cbn [app nth_error bind].
  destruct o as [t st|c t p]; cbn [obj_class obj_ctype obj_payload expected_extension] in *.
  - change (1 =? 1) with true. cbv iota. destruct H as (_ & Hne & Hst & _).
    unfold new_view. destruct (Nat.leb_spec 4 (length (flat_map enc_lse st))) as [_|Hc].
    2:{ rewrite stack_bytes_length in Hc. destruct st; [congruence|cbn [length] in Hc; lia]. }
    cbn [bind]. rewrite (mpls_from_enc st Hst). reflexivity.
  - destruct H as (_ & Hc & _). destruct (Z.eqb_spec c 1); [contradiction|]. reflexivity.
Qed.

Lemma ext_body_min_length objs : (4 * length objs <= length (ext_body objs))%nat.
Proof.
  induction objs as [|o t IH]; [cbn; lia|]. unfold ext_body in *. cbn [flat_map length].
  rewrite app_length, enc_object_length. lia.
Qed.

Lemma collect_extensions_enc objs : Forall obj_wf objs ->
  collect_extensions (flat_map_new_view 4 (obj_suffixes objs)) = Ok (map expected_extension objs).
Proof.
  induction 1 as [|o t Ho _ IH]; [reflexivity|].
  cbn [obj_suffixes flat_map_new_view]. unfold new_view at 1.
  destruct (Nat.leb_spec 4 (length (ext_body (o :: t)))) as [_|Hc].
  2:{ pose proof (ext_body_min_length (o :: t)). cbn [length] in *. lia. }
  cbn [collect_extensions]. unfold ext_body at 1. cbn [flat_map]. fold (ext_body t).
  rewrite (extension_from_object_enc o _ Ho). cbn [bind]. rewrite IH. reflexivity.
Qed.

Lemma extensions_try_from_built objs : Forall obj_wf objs ->
  extensions_try_from (ext_structure objs) = Ok (map expected_extension objs).
Proof.
  intro H. unfold ext_structure.
  set (c := checksum ([32; 0; 0; 0] ++ ext_body objs) 1).
  unfold extensions_try_from, new_view at 1. cbn [app length Nat.leb bind].
  unfold extensions_header, slice. cbn [Nat.leb length andb Nat.sub skipn firstn bind].
  unfold new_view at 1. cbn [length Nat.leb bind].
  unfold extension_header_get_version, pv_buf_read, index. cbn [nth_error bind].
  change (pv_u8_shr (pv_u8_and 32 240) 4) with 2. change (negb (2 =? ICMP_EXTENSION_VERSION)) with false. cbv iota.
  unfold extensions_objects.
  pose proof (objects_collect_enc objs [32; 0; c / 256; c mod 256]
               (iter_fuel (32 :: 0 :: c / 256 :: c mod 256 :: ext_body objs)) H) as Hc.
  cbn [app length] in Hc. rewrite Hc.
  - cbn [bind]. apply collect_extensions_enc, H.
  - unfold iter_fuel. cbn [length]. pose proof (ext_body_min_length objs) as Hm.
    pose proof (Nat.div_le_mono (4 * length objs) (S (S (S (S (length (ext_body objs)))))) 4 ltac:(lia) ltac:(lia)) as Hd.
    rewrite Nat.mul_comm, Nat.div_mul in Hd by lia. lia.
Qed.

(* ------------------------------------------------------------------------------------------ *)
(* round trip: the RFC 4884 split of a built message                                            *)
(* ------------------------------------------------------------------------------------------ *)
Lemma split_long P ext : (128 < length P)%nat -> (4 <= length ext)%nat ->
  extension_splitter_split (length P) (P ++ ext) = Ok (P, Some ext).
Proof.
  intros HP He. unfold extension_splitter_split, ICMP_ORIG_DATAGRAM_MIN_LENGTH, MIN_HEADER.
  rewrite app_length.
  destruct (Nat.ltb_spec (length P + length ext) (length P)); [lia|].
  destruct (Nat.ltb_spec 128 (length P + length ext)); [|lia].
  destruct (Nat.ltb_spec 128 (length P)); [|lia].
  rewrite split_at_ok by (rewrite app_length; lia). cbn [bind fst snd].
  rewrite skipn_app_len, firstn_app_len.
  destruct (Nat.leb_spec 4 (length ext)); [reflexivity|lia].
Qed.

Lemma split_short P z ext : (0 < length P)%nat -> length (P ++ z) = 128%nat -> (4 <= length ext)%nat ->
  extension_splitter_split (length P) ((P ++ z) ++ ext) = Ok (P, Some ext).
Proof.
  intros HP Hq He. unfold extension_splitter_split, ICMP_ORIG_DATAGRAM_MIN_LENGTH, MIN_HEADER.
  pose proof Hq as Hq'. rewrite app_length in Hq'.
  rewrite (app_length (P ++ z)), Hq.
  destruct (Nat.ltb_spec (128 + length ext) (length P)); [lia|].
  destruct (Nat.ltb_spec 128 (128 + length ext)); [|lia].
  destruct (Nat.ltb_spec 128 (length P)); [lia|].
  destruct (Nat.ltb_spec 0 (length P)); [|lia].
  rewrite split_at_ok by (rewrite app_length; lia). cbn [bind fst snd].
  rewrite <- Hq. rewrite skipn_app_len, firstn_app_len.
  destruct (Nat.leb_spec 4 (length ext)); [|lia].
  rewrite slice_ok by lia. cbn [bind skipn]. rewrite Nat.sub_0_r, firstn_app_len. reflexivity.
Qed.

Lemma split_legacy Q ext : length Q = 128%nat -> (4 <= length ext)%nat ->
  extension_splitter_split 0 (Q ++ ext) = Ok (Q, Some ext).
Proof.
  intros Hq He. unfold extension_splitter_split, ICMP_ORIG_DATAGRAM_MIN_LENGTH, MIN_HEADER.
  destruct (Nat.ltb_spec (length (Q ++ ext)) 0); [lia|].
  destruct (Nat.ltb_spec 128 (length (Q ++ ext))) as [_|Hc]; [|rewrite app_length in Hc; lia].
  destruct (Nat.ltb_spec 128 0); [lia|]. destruct (Nat.ltb_spec 0 0); [lia|].
  rewrite split_at_ok by (rewrite app_length; lia). cbn [bind fst snd].
  rewrite <- Hq. rewrite skipn_app_len, firstn_app_len.
  destruct (Nat.leb_spec 4 (length ext)); [reflexivity|lia].
Qed.

Lemma pad_to_length n l : length (pad_to n l) = Nat.max n (length l).
Proof. unfold pad_to. rewrite app_length, repeat_length. lia. Qed.

Lemma pad_word_length fam l :
  length (pad_word (word fam) l) = ((length l + word fam - 1) / word fam * word fam)%nat /\
  (length l <= length (pad_word (word fam) l))%nat.
Proof.
  unfold pad_word. rewrite pad_to_length.
  assert (Hw : (0 < word fam)%nat) by (destruct fam; cbn; lia).
  pose proof (Nat.div_mod (length l + word fam - 1) (word fam) ltac:(lia)) as Hd.
  pose proof (Nat.mod_upper_bound (length l + word fam - 1) (word fam) ltac:(lia)) as Hm.
  set (q := ((length l + word fam - 1) / word fam)%nat) in *.
  set (r := ((length l + word fam - 1) mod word fam)%nat) in *.
  assert (length l <= q * word fam)%nat by nia. split; lia.
Qed.

Lemma length_attribute_bytes fam orig :
  Z.to_nat (Z.of_nat (length (pad_word (word fam) orig) / word fam) * length_unit fam) = length (pad_word (word fam) orig).
Proof.
  destruct (pad_word_length fam orig) as [H _]. rewrite H.
  destruct fam; cbn [word length_unit]; rewrite Nat.div_mul by lia; lia.
Qed.

Lemma ext_structure_length objs : (4 <= length (ext_structure objs))%nat.
Proof. unfold ext_structure. cbn [app length]. lia. Qed.

Lemma split_built fam mode orig ext : build_wf fam mode orig -> (4 <= length ext)%nat ->
  extension_splitter_split (Z.to_nat (length_attribute fam mode orig * length_unit fam)) (quoted fam mode orig ++ ext)
  = Ok (expected_datagram fam mode orig, Some ext).
Proof.
  intros Hwf He. destruct mode; cbn [build_wf length_attribute quoted expected_datagram] in *.
  - destruct Hwf as [Hne _]. rewrite length_attribute_bytes.
    destruct (pad_word_length fam orig) as [_ Hge].
    assert (0 < length orig)%nat by (destruct orig; [congruence|cbn; lia]).
    set (P := pad_word (word fam) orig) in *.
    destruct (Nat.ltb_spec 128 (length P)).
    + unfold pad_to. replace (128 - length P)%nat with 0%nat by lia. cbn [repeat]. rewrite app_nil_r.
      apply split_long; assumption.
    + unfold pad_to. apply split_short; try lia. rewrite app_length, repeat_length. lia.
  - change (Z.to_nat (0 * length_unit fam)) with 0%nat. apply split_legacy; [|assumption].
    rewrite pad_to_length, firstn_length. lia.
Qed.

Lemma built_header fam fixed l rest : length fixed = 7%nat ->
  pv_buf_read (LENGTH_OFFSET fam) (icmp_head fam fixed l ++ rest) = Ok l /\
  slice_from 8 (icmp_head fam fixed l ++ rest) = Ok rest /\
  (8 <= length (icmp_head fam fixed l ++ rest))%nat.
Proof.
  intro H. do 8 (destruct fixed as [|? fixed]; try discriminate).
  destruct fam; unfold icmp_head, rfc4884_length_octet, LENGTH_OFFSET, pv_buf_read, index, slice_from;
    cbn [firstn skipn app nth_error length Nat.leb]; repeat split; lia.
Qed.

Lemma split_payload_extension_built fam fixed orig objs mode :
  length fixed = 7%nat -> build_wf fam mode orig ->
  split_payload_extension fam (build_message fam fixed orig objs mode)
  = Ok (expected_datagram fam mode orig, Some (ext_structure objs)).
Proof.
  intros Hf Hwf. unfold build_message, split_payload_extension, icmp_error_get_length, icmp_error_min.
  destruct (built_header fam fixed (length_attribute fam mode orig) (quoted fam mode orig ++ ext_structure objs) Hf) as (H1 & H2 & _).
  rewrite H1. cbn [bind]. rewrite H2. cbn [bind].
  apply split_built; [assumption|apply ext_structure_length].
Qed.

Lemma roundtrip_enabled fam fixed orig objs mode kind :
  length fixed = 7%nat -> build_wf fam mode orig -> Forall obj_wf objs ->
  nested_and_extensions ExtEnabled kind fam (build_message fam fixed orig objs mode)
  = Ok (expected_datagram fam mode orig, Some (map expected_extension objs)).
Proof.
  intros Hf Hwf Ho. unfold nested_and_extensions, new_view, icmp_error_min.
  destruct (built_header fam fixed (length_attribute fam mode orig) (quoted fam mode orig ++ ext_structure objs) Hf) as (_ & _ & H8).
  fold (build_message fam fixed orig objs mode) in H8.
  destruct (Nat.leb_spec 8 (length (build_message fam fixed orig objs mode))); [|lia]. cbn [bind].
  unfold icmp_error_payload, icmp_error_extension.
  rewrite (split_payload_extension_built fam fixed orig objs mode Hf Hwf). cbn [bind fst snd extension_map_try_from].
  rewrite (extensions_try_from_built objs Ho). reflexivity.
Qed.

Lemma expected_prefix_of_quoted fam mode orig :
  firstn (length (expected_datagram fam mode orig)) (quoted fam mode orig) = expected_datagram fam mode orig.
Proof.
  destruct mode; cbn [expected_datagram quoted].
  - unfold pad_to at 1. apply firstn_app_len.
  - apply firstn_all.
Qed.

Lemma roundtrip_disabled fam fixed orig objs mode kind :
  length fixed = 7%nat -> build_wf fam mode orig ->
  nested_and_extensions ExtDisabled kind fam (build_message fam fixed orig objs mode)
  = Ok (match kind with
        | KTimeExceeded => quoted fam mode orig ++ ext_structure objs
        | KDestinationUnreachable => expected_datagram fam mode orig
        end, None).
Proof.
  intros Hf Hwf. unfold nested_and_extensions, new_view, icmp_error_min.
  destruct (built_header fam fixed (length_attribute fam mode orig) (quoted fam mode orig ++ ext_structure objs) Hf) as (_ & H2 & H8).
  fold (build_message fam fixed orig objs mode) in H8, H2.
  destruct (Nat.leb_spec 8 (length (build_message fam fixed orig objs mode))); [|lia]. cbn [bind].
  destruct kind.
  - unfold icmp_error_payload_raw, icmp_error_min. rewrite H2. reflexivity.
  - unfold icmp_error_payload. rewrite (split_payload_extension_built fam fixed orig objs mode Hf Hwf). reflexivity.
Qed.

Lemma upto_bos_wellformed st : bottom_only_last st -> upto_bos st = st.
Proof.
  unfold bottom_only_last. induction st as [|e t IH]; [reflexivity|]. intro H.
  destruct t as [|e' t'].
  - cbn [upto_bos]. destruct (0 <? lse_s e); reflexivity.
  - change (removelast (e :: e' :: t')) with (e :: removelast (e' :: t')) in H.
    inversion H as [|? ? He Ht]; subst. cbn [upto_bos]. rewrite He. change (0 <? 0) with false. cbv iota.
    f_equal. apply IH, Ht.
Qed.

(* the canonical encoding of what is reported, for one MPLS object with a well-formed stack: every entry verbatim *)
Lemma expected_extension_wellformed t st : bottom_only_last st ->
  expected_extension (ObjMpls t st) = ExtMpls (map expected_member st).
Proof. intro H. cbn [expected_extension]. rewrite (upto_bos_wellformed st H). reflexivity. Qed.

Lemma expected_is_verbatim objs : Forall stacks_bottom_only_last objs ->
  map expected_extension objs = map verbatim_extension objs.
Proof.
  induction 1 as [|o t Ho _ IH]; [reflexivity|]. cbn [map]. rewrite IH. f_equal.
  destruct o as [ct st|c ct p]; [|reflexivity]. apply expected_extension_wellformed, Ho.
Qed.
