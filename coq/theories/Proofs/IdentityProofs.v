(* C02, strategy side: the fields the strategy puts into a probe (probe_data) and the way it recovers the
   sequence from the quoted fields (proto_sresp) are inverse to each other; validate accepts the quotation of
   an own probe and rejects quotations that differ in destination address or fixed port(s) or lack the marker. *)
From TV Require Import Base.Result Core.Types Core.TracerState Core.Strategy Core.Builder Proofs.StrategyInv Proofs.FlowsProofs.
From Coq Require Import ZifyBool.

(* what a standards-conforming quotation of probe p carries back, field by field (the byte-level decoding that
   produces these fields from a packet is the receive-path model) *)
Definition quoted (c : scfg) (p : probe) (tos : option Z) (expected : Z) : proto_resp :=
  match proto c with
  | Icmp => PIcmp (p_identifier p) (p_sequence p) tos
  | Udp =>
    PUdp (match multipath c, is_v6 (target_addr c) with Dublin, false => p_identifier p | _, _ => 0 end)   (* IPv4 identification *)
         (target_addr c) (p_src_port p) (p_dest_port p) tos expected
         (match multipath c with Paris => p_sequence p | _ => expected end)                                  (* UDP checksum field *)
         (match multipath c, is_v6 (target_addr c) with Dublin, true => p_sequence p - initial_sequence c | _, _ => 0 end)
         (match multipath c, is_v6 (target_addr c) with Dublin, true => true | _, _ => false end)
  | Tcp => PTcp (target_addr c) (p_src_port p) (p_dest_port p) tos
  end.

Lemma list_eqb_refl a : list_eqb a a = true.
Proof. apply list_eqb_eq. reflexivity. Qed.

Lemma check_trace_id_zero c : check_trace_id c 0 = true.
Proof. unfold check_trace_id. apply orb_true_r. Qed.
Lemma check_trace_id_self c : check_trace_id c (trace_identifier c) = true.
Proof. unfold check_trace_id. rewrite Z.eqb_refl. reflexivity. Qed.

(* the probe the strategy issues in state s *)
Lemma identity_roundtrip c s d sent t tos expected : Accept c ->
  probe_data c s = Ok d -> u16 (sequence s) -> initial_sequence c <= sequence s ->
  let p := mk_probe s d t sent in
  let q := quoted c p tos expected in
  validate c {| r_recv := 0; r_addr := []; r_proto := q |} = true /\
  exists tid tos' ex ac, proto_sresp c q = Ok (tid, p_sequence p, tos', ex, ac) /\ check_trace_id c tid = true.
Proof.
  intros HA Hd Hq Hi p q. pose proof (accept_facts c HA) as (_ & _ & Hinit & Hpd).
  subst p q. unfold quoted, validate, proto_sresp, probe_data, mk_probe, portdir_ok, validate_ports, u16 in *.
  destruct (proto c) eqn:Ep.
  - inversion Hd; subst d. cbn [r_proto p_sequence p_identifier]. split; [reflexivity|].
    eexists _, _, _, _. split; [reflexivity|apply check_trace_id_self].
  - destruct (multipath c) eqn:Em, (port_direction c) as [|sp|dp|sp dp] eqn:Epd; try discriminate; inversion Hd; subst d;
      cbn [r_proto p_sequence p_identifier p_src_port p_dest_port]; rewrite list_eqb_refl; cbn [andb];
      destruct (is_v6 (target_addr c)) eqn:Ev; cbn [bind]; rewrite ?Z.eqb_refl; cbn [andb];
      (split; [reflexivity|]); eexists _, _, _, _; (split; [|apply check_trace_id_zero]);
      first [reflexivity | (replace ((initial_sequence c + (sequence s - initial_sequence c)) mod 65536) with (sequence s) by (rewrite Z.mod_small by lia; lia); reflexivity)].
  - destruct (port_direction c) as [|sp|dp|sp dp] eqn:Epd; try discriminate; inversion Hd; subst d;
      cbn [r_proto p_sequence p_src_port p_dest_port]; rewrite list_eqb_refl, Z.eqb_refl; cbn [andb];
      (split; [reflexivity|]); eexists _, _, _, _; (split; [reflexivity|apply check_trace_id_zero]).
Qed.

(* foreign quotations: another destination, another fixed port, or a missing Dublin/IPv6 marker *)
Lemma validate_rejects_other_destination c d id da sp dp tos ex ac pl mg :
  r_proto d = PUdp id da sp dp tos ex ac pl mg -> da <> target_addr c -> validate c d = false.
Proof.
  intros Hr Hne. unfold validate. rewrite Hr.
  destruct (addr_eqb (target_addr c) da) eqn:E; [|reflexivity]. apply list_eqb_eq in E. congruence.
Qed.

Lemma validate_rejects_other_destination_tcp c d da sp dp tos :
  r_proto d = PTcp da sp dp tos -> da <> target_addr c -> validate c d = false.
Proof.
  intros Hr Hne. unfold validate. rewrite Hr.
  destruct (addr_eqb (target_addr c) da) eqn:E; [|reflexivity]. apply list_eqb_eq in E. congruence.
Qed.

Lemma validate_rejects_other_ports c sp dp :
  match port_direction c with
  | FixedSrc s => s <> sp
  | FixedDest d => d <> dp
  | FixedBoth s d => s <> sp \/ d <> dp
  | PdNone => True
  end -> validate_ports (port_direction c) sp dp = false.
Proof.
  unfold validate_ports. destruct (port_direction c) as [|s|d|s d]; intros H; try reflexivity; try lia.
Qed.

Lemma validate_requires_marker c d id da sp dp tos ex ac pl :
  multipath c = Dublin -> is_v6 (target_addr c) = true ->
  r_proto d = PUdp id da sp dp tos ex ac pl false -> validate c d = false.
Proof.
  intros Hm Hv Hr. unfold validate. rewrite Hr, Hm, Hv. rewrite andb_false_r. reflexivity.
Qed.

(* two different probes of one round are told apart: sequence recovery is injective on the quoted fields *)
Lemma quoted_sequence_injective c p1 p2 tos1 tos2 e1 e2 t1 t2 q1 q2 x1 x2 y1 y2 a1 a2 :
  proto_sresp c (quoted c p1 tos1 e1) = Ok (t1, q1, x1, y1, a1) ->
  proto_sresp c (quoted c p2 tos2 e2) = Ok (t2, q2, x2, y2, a2) ->
  quoted c p1 tos1 e1 = quoted c p2 tos2 e2 -> q1 = q2.
Proof. intros H1 H2 He. rewrite He in H1. rewrite H1 in H2. inversion H2. reflexivity. Qed.
