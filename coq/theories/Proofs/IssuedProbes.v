(* C11, the glue between the strategy and the dispatch: every probe the strategy hands to `send_probe`
   (an `ESend` event of Core/Strategy.v step) has its sequence number, identifier, ports and flags in the
   combination the tracing strategy prescribes - the hypotheses `p_flags p = ...`, `p_identifier p = p_sequence p`
   of the per-cell theorems of Props/C11.v.  Structural: no invariant of the state is needed. *)
From TV Require Import Base.Result Core.Types Core.TracerState Core.Strategy Core.Builder
  Net.Wire Net.Rfc Net.Sock Net.Dispatch6 Net.ChannelSend Net.SendSpec
  Proofs.StrategyInv Proofs.StrategyProps Proofs.ChannelSendProofs.
From Coq Require Import ZifyBool.
Ltac Zify.zify_post_hook ::= Z.div_mod_to_equations.

(* where the sequence number of a probe travels, by protocol and multipath strategy:
   ICMP - the probe carries the trace identifier (the sequence is the ICMP sequence field, written by the dispatch);
   UDP classic and TCP - one of the two ports IS the sequence;
   UDP Paris - flag PARIS_CHECKSUM (the dispatch puts the sequence into the UDP checksum);
   UDP Dublin - flag DUBLIN_IPV6_PAYLOAD_LENGTH and identifier = sequence (IPv4: the IP identification;
   IPv6: the dispatch encodes the sequence as the payload length) *)
Definition prescribed_fields (c : scfg) (p : probe) : Prop :=
  match proto c with
  | Icmp => p_identifier p = trace_identifier c /\ p_flags p = 0 /\ p_src_port p = 0 /\ p_dest_port p = 0
  | Udp =>
    match multipath c with
    | Classic => p_flags p = 0 /\ p_identifier p = 0 /\ (p_src_port p = p_sequence p \/ p_dest_port p = p_sequence p)
    | Paris => p_flags p = 1 /\ p_identifier p = 0
    | Dublin => p_flags p = 2 /\ p_identifier p = p_sequence p
    end
  | Tcp => p_flags p = 0 /\ p_identifier p = 0 /\ (p_src_port p = p_sequence p \/ p_dest_port p = p_sequence p)
  end.

(* identifier and ports fit their Rust types whenever the sequence does *)
Definition fields_in_range (p : probe) : Prop :=
  0 <= p_sequence p < 65536 ->
  0 <= p_identifier p < 65536 /\ 0 <= p_src_port p < 65536 /\ 0 <= p_dest_port p < 65536.

(* ---- every probe of an iteration is built by mk_probe from probe_data: a property of all such probes
   holds of every `ESend` event (structural, no state invariant needed) ---- *)
Section Structural.
  Variable c : scfg.
  Variable P : probe -> Prop.
  Hypothesis HP : forall s d t sent, probe_data c s = Ok d -> P (mk_probe s d t sent).

  Lemma next_probe_P s sent p s1 : next_probe c s sent = Ok (p, s1) -> P p.
  Proof.
    unfold next_probe. destruct (probe_data c s) as [d|e|f] eqn:Ed; cbn [bind]; try discriminate.
    destruct (sub16 (sequence s) (round_sequence s)); cbn [bind]; try discriminate.
    destruct (buf_set s a (Awaited (mk_probe s d (ttl s) sent))); cbn [bind]; try discriminate.
    destruct (add8 (ttl s) 1); cbn [bind]; try discriminate.
    destruct (add16 (sequence s) 1); cbn [bind]; try discriminate.
    intro H. inversion H; subst. apply HP. exact Ed.
  Qed.

  Lemma reissue_probe_P s sent p s1 : reissue_probe c s sent = Ok (p, s1) -> P p.
  Proof.
    unfold reissue_probe. destruct (sub16 (sequence s) (round_sequence s)) as [i|e|f]; cbn [bind]; try discriminate.
    destruct (sub_w i 1) as [i1|e|f]; cbn [bind]; try discriminate.
    destruct (buf_set s i1 Skipped) as [b1|e|f]; cbn [bind]; try discriminate.
    destruct (probe_data c (with_buffer s b1)) as [d|e|f] eqn:Ed; cbn [bind]; try discriminate.
    destruct (sub_w (ttl s) 1) as [t1|e|f]; cbn [bind]; try discriminate.
    destruct (buf_set (with_buffer s b1) i (Awaited (mk_probe (with_buffer s b1) d t1 sent))); cbn [bind]; try discriminate.
    destruct (add16 (sequence s) 1); cbn [bind]; try discriminate.
    intro H. inversion H; subst. apply HP. exact Ed.
  Qed.

  Lemma tcp_loop_P : forall sends s p clk last s' ev e,
    P p -> tcp_reissue_loop c s p sends clk last = Ok (s', ev, e) -> Forall P (ev_probes ev).
  Proof.
    induction sends as [|o rest IH]; intros s p clk last s' ev e Hp H; cbn [tcp_reissue_loop] in H.
    - inversion H; subst. cbn [ev_probes]. constructor; [exact Hp|constructor].
    - destruct (do_send s o) as [r|e0|f]; cbn [bind] in H; try discriminate.
      destruct r as [s2|s2|e2].
      + inversion H; subst. cbn [ev_probes]. constructor; [exact Hp|constructor].
      + destruct (round_has_capacity s2) as [cap|e0|f]; cbn [bind] in H; try discriminate.
        destruct cap.
        * destruct (reissue_probe c s2 (hd_clock clk last)) as [[p' s3]|e0|f] eqn:Er; cbn [bind] in H; try discriminate.
          destruct (tcp_reissue_loop c s3 p' rest (tl clk) (hd_clock clk last)) as [[[s4 ev4] e4]|e0|f] eqn:El;
            cbn [bind] in H; try discriminate.
          inversion H; subst. cbn [ev_probes]. constructor; [exact Hp|].
          apply (IH s3 p' _ _ _ _ _ (reissue_probe_P s2 _ p' s3 Er) El).
        * inversion H; subst. cbn [ev_probes]. constructor; [exact Hp|constructor].
      + inversion H; subst. cbn [ev_probes]. constructor; [exact Hp|constructor].
  Qed.

  Lemma send_request_P s i s' ev e : send_request c s i = Ok (s', ev, e) -> Forall P (ev_probes ev).
  Proof.
    unfold send_request. destruct (can_send c s) as [ok|e0|f]; cbn [bind]; try discriminate.
    destruct (negb ok); [intro H; inversion H; subst; constructor|].
    set (sent := hd_clock (i_clock i) (round_start s)).
    assert (Hone : forall p o, P p -> Forall P (ev_probes [ESend p o])).
    { intros p o Hp. cbn [ev_probes]. constructor; [exact Hp|constructor]. }
    assert (Hiu :
              (let* (p, s1) := next_probe c s sent in
               let o := hd_send (i_sends i) in
               let* r := do_send s1 o in
               match r with
               | SDone s2 => Ok (s2, [ESend p o], None)
               | SInUse s2 => Ok (s2, [ESend p o], Some EAddressInUse)
               | SErr e => Ok (s1, [ESend p o], Some e)
               end) = Ok (s', ev, e) -> Forall P (ev_probes ev)).
    { destruct (next_probe c s sent) as [[p s1]|e0|f] eqn:En; cbn [bind]; try discriminate.
      pose proof (next_probe_P s sent p s1 En) as Hp.
      destruct (do_send s1 (hd_send (i_sends i))) as [r|e0|f]; cbn [bind]; try discriminate.
      destruct r; intro H; inversion H; subst; apply Hone; exact Hp. }
    destruct (proto c) eqn:Ep; try exact Hiu.
    destruct (round_has_capacity s) as [cap|e0|f]; cbn [bind]; try discriminate.
    destruct (negb cap); [intro H; inversion H; subst; constructor|].
    destruct (next_probe c s sent) as [[p s1]|e0|f] eqn:En; cbn [bind]; try discriminate.
    pose proof (next_probe_P s sent p s1 En) as Hp.
    destruct (i_sends i) as [|o rest] eqn:Es.
    - intro H; inversion H; subst. apply Hone; exact Hp.
    - intro H. apply (tcp_loop_P _ _ _ _ _ _ _ _ Hp H).
  Qed.

  Lemma ev_probes_app ev1 ev2 : ev_probes (ev1 ++ ev2) = ev_probes ev1 ++ ev_probes ev2.
  Proof. induction ev1 as [|[p o|r] ev1 IH]; cbn [app ev_probes]; [reflexivity| |exact IH]. rewrite IH. reflexivity. Qed.

  Lemma step_P s i s' ev e : step c s i = Ok (s', ev, e) -> Forall P (ev_probes ev).
  Proof.
    unfold step. destruct (send_request c s i) as [[[s1 ev1] e1]|e0|f] eqn:E1; cbn [bind]; try discriminate.
    pose proof (send_request_P s i s1 ev1 e1 E1) as H1.
    destruct e1 as [e1|]; [intro H; inversion H; subst; exact H1|].
    destruct (recv_response c s1 i) as [[s2 e2]|e0|f]; cbn [bind]; try discriminate.
    destruct e2 as [e2|]; [intro H; inversion H; subst; exact H1|].
    unfold update_round. destruct (should_publish c s2 (i_update i)).
    - destruct (publish_trace s2) as [r|e0|f]; cbn [bind]; try discriminate.
      destruct (advance_round c s2 (first_ttl c) (i_advance i)) as [s3|e0|f]; cbn [bind]; try discriminate.
      intro H; inversion H; subst. rewrite ev_probes_app. cbn [ev_probes]. rewrite app_nil_r. exact H1.
    - cbn [bind]. intro H; inversion H; subst. rewrite app_nil_r. exact H1.
  Qed.
End Structural.

Lemma mk_probe_fields c s d t sent : probe_data c s = Ok d -> prescribed_fields c (mk_probe s d t sent).
Proof.
  intros Hd. unfold prescribed_fields, probe_data, FLAG_NONE, FLAG_PARIS, FLAG_DUBLIN in *.
  destruct (proto c).
  - inversion Hd; subst d. cbn. repeat split; reflexivity.
  - destruct (multipath c); destruct (port_direction c); inversion Hd; subst d; cbn;
      repeat split; try reflexivity; auto.
  - destruct (port_direction c); inversion Hd; subst d; cbn; repeat split; auto.
Qed.

Lemma mk_probe_in_range c s d t sent : cfg_wf c -> probe_data c s = Ok d -> fields_in_range (mk_probe s d t sent).
Proof.
  intros (Htid & _ & _ & _ & _ & Hpd & _) Hd. unfold fields_in_range, probe_data, round_port, Builder.u16 in *.
  destruct (proto c).
  - inversion Hd; subst d. cbn. lia.
  - destruct (multipath c); destruct (port_direction c); cbn [portdir_wf] in Hpd; unfold Builder.u16 in Hpd;
      inversion Hd; subst d; cbn; lia.
  - destruct (port_direction c); cbn [portdir_wf] in Hpd; unfold Builder.u16 in Hpd; inversion Hd; subst d; cbn; lia.
Qed.

(* every probe of every iteration carries the fields its strategy prescribes *)
Lemma issued_probe_fields_lemma c s i s' ev e :
  step c s i = Ok (s', ev, e) -> Forall (prescribed_fields c) (ev_probes ev).
Proof. apply step_P. intros s0 d t sent. apply mk_probe_fields. Qed.

(* ... and, for builder-accepted configurations and reachable states, lies in the quantifier domain of the
   dispatch theorems ([probe_wf]: ttl 1..254, every other field within its Rust type) *)
Lemma issued_probe_wf_lemma c s i s' ev e :
  Accept c -> reach c s -> step c s i = Ok (s', ev, e) -> Forall probe_wf (ev_probes ev).
Proof.
  intros HA HR Hs.
  destruct (ev_probes ev) as [|p0 l0] eqn:Eev; [constructor|]. rewrite <- Eev.
  assert (Hne : ev_probes ev <> []) by (rewrite Eev; discriminate).
  destruct (c06_send_discipline_lemma c s i s' ev e HA HR Hs Hne) as (_ & Httl & _ & Hall & _).
  destruct (c07_consecutive_lemma c s i s' ev e HA HR Hs) as (_ & Hseq).
  destruct (c07_invariant_lemma c s HA HR) as (_ & Hlo & _).
  pose proof (accept_facts c HA) as (Hft & Hmt & Hinit & _).
  pose proof (step_P c fields_in_range (fun s0 d t sent => mk_probe_in_range c s0 d t sent (proj2 HA)) s i s' ev e Hs) as Hrange.
  rewrite Forall_forall in *. intros p Hp.
  destruct (Hall p Hp) as [Hpt _].
  pose proof (Hseq (p_sequence p) (in_map p_sequence _ _ Hp)) as [Hq1 Hq2].
  assert (Hq : 0 <= p_sequence p < 65536) by lia.
  destruct (Hrange p Hp Hq) as (Hid & Hsp & Hdp).
  unfold probe_wf, SendSpec.u16. repeat split; lia.
Qed.

(* ---- two compositions: strategy -> dispatch -> wire ---- *)
(* Dublin over IPv4: the IP identification on the wire is the sequence of the probe the strategy issued *)
Lemma issued_dublin_ipv4_lemma c s i s' ev e cfg p :
  Accept c -> reach c s -> step c s i = Ok (s', ev, e) -> In p (ev_probes ev) ->
  proto c = Udp -> multipath c = Dublin ->
  cfg_v4 cfg -> cc_protocol cfg = Udp -> cc_privilege cfg = Privileged -> 28 <= cc_packet_size cfg <= 1024 ->
  exists b,
    run_send BoNetwork cfg [] p = (connect_ops false cfg ++ [SendTo b (cc_target cfg) (p_dest_port p)], Ok tt) /\
    ipv4_wellformed (cc_source cfg) (cc_target cfg) (cc_tos cfg) (p_ttl p) 17 b /\
    ip_identification (rfc791_decode b) = p_sequence p /\
    Z.of_nat (length b) = cc_packet_size cfg.
Proof.
  intros HA HR Hs Hin Hproto Hmp Hcfg Hcp Hpriv Hsz.
  pose proof (proj1 (Forall_forall _ _) (issued_probe_wf_lemma c s i s' ev e HA HR Hs) p Hin) as Hwf.
  pose proof (proj1 (Forall_forall _ _) (issued_probe_fields_lemma c s i s' ev e Hs) p Hin) as Hf.
  unfold prescribed_fields in Hf. rewrite Hproto, Hmp in Hf. destruct Hf as [Hfl Hid].
  destruct (c11_udp_ipv4_dublin_lemma cfg p Hcfg Hcp Hpriv Hsz Hwf Hfl Hid) as (b & H1 & H2 & H3 & H4 & _).
  exists b. split; [exact H1|]. split; [exact H2|]. split; [exact H3|exact H4].
Qed.

(* Paris over IPv6 (F14, repaired in the builder): the UDP checksum field on the wire is the sequence of the probe
   the strategy issued, and it is never zero *)
Lemma issued_paris_ipv6_lemma c s i s' ev e cfg p :
  Accept c -> reach c s -> step c s i = Ok (s', ev, e) -> In p (ev_probes ev) ->
  proto c = Udp -> multipath c = Paris -> is_v6 (target_addr c) = true ->
  cfg_v6 cfg -> cc_protocol cfg = Udp -> cc_privilege cfg = Privileged -> 48 <= cc_packet_size cfg <= 1024 ->
  exists u,
    run_send BoNetwork cfg [] p =
      (connect_ops true cfg ++ [SetUnicastHopsV6 (p_ttl p); SendTo u (cc_target cfg) 0], Ok tt) /\
    udp_wellformed (p_src_port p) (p_dest_port p)
      (pseudo_header_v6 (cc_source cfg) (cc_target cfg) 17 (Z.of_nat (length u))) u /\
    ud_checksum (rfc768_decode u) = p_sequence p /\
    ud_checksum (rfc768_decode u) <> 0.
Proof.
  intros HA HR Hs Hin Hproto Hmp Hv6 Hcfg Hcp Hpriv Hsz.
  pose proof (proj1 (Forall_forall _ _) (issued_probe_wf_lemma c s i s' ev e HA HR Hs) p Hin) as Hwf.
  pose proof (proj1 (Forall_forall _ _) (issued_probe_fields_lemma c s i s' ev e Hs) p Hin) as Hf.
  unfold prescribed_fields in Hf. rewrite Hproto, Hmp in Hf. destruct Hf as [Hfl _].
  pose proof (proj1 (Forall_forall _ _) (paris6_sequence_nonzero_lemma c s i s' ev e HA HR Hproto Hmp Hv6 Hs)
                (p_sequence p) (in_map p_sequence _ _ Hin)) as Hnz. cbv beta in Hnz.
  destruct (c11_udp_ipv6_paris_flag_lemma cfg p Hcfg Hcp Hpriv Hsz Hwf Hfl) as (u & H1 & H2 & H3 & _).
  exists u. split; [exact H1|]. split; [exact H2|]. split; [exact H3|]. rewrite H3. lia.
Qed.

(* ---- the remaining cells: the sequence is where the strategy prescribes it, for every probe the strategy issues ---- *)
Ltac issued_preamble HA HR Hs Hin Hwf Hf :=
  match type of Hs with step ?c ?s ?i = Ok (?s', ?ev, ?e) =>
    match type of Hin with In ?p _ =>
      pose proof (proj1 (Forall_forall _ _) (issued_probe_wf_lemma c s i s' ev e HA HR Hs) p Hin) as Hwf;
      pose proof (proj1 (Forall_forall _ _) (issued_probe_fields_lemma c s i s' ev e Hs) p Hin) as Hf;
      unfold prescribed_fields in Hf
    end
  end.

(* ICMP: echo request with the tracer's trace identifier and the probe's sequence *)
Lemma issued_icmp_ipv4_lemma c s i s' ev e cfg p :
  Accept c -> reach c s -> step c s i = Ok (s', ev, e) -> In p (ev_probes ev) -> proto c = Icmp ->
  cfg_v4 cfg -> cc_protocol cfg = Icmp -> 28 <= cc_packet_size cfg <= 1024 ->
  exists b,
    run_send BoNetwork cfg [] p = (connect_ops false cfg ++ [SendTo b (cc_target cfg) 0], Ok tt) /\
    ipv4_wellformed (cc_source cfg) (cc_target cfg) (cc_tos cfg) (p_ttl p) 1 b /\
    Z.of_nat (length b) = cc_packet_size cfg /\
    echo_wellformed 8 (trace_identifier c) (p_sequence p) (cc_payload_pattern cfg)
      (Z.to_nat (cc_packet_size cfg - 28)) [] (ip_payload (rfc791_decode b)).
Proof.
  intros HA HR Hs Hin Hproto Hcfg Hcp Hsz. issued_preamble HA HR Hs Hin Hwf Hf.
  rewrite Hproto in Hf. destruct Hf as (Hid & _).
  destruct (c11_icmp_ipv4_lemma cfg p Hcfg Hcp Hsz Hwf) as (b & H1 & H2 & H3 & H4).
  exists b. rewrite <- Hid. split; [exact H1|]. split; [exact H2|]. split; [exact H3|exact H4].
Qed.

Lemma issued_icmp_ipv6_lemma c s i s' ev e cfg p :
  Accept c -> reach c s -> step c s i = Ok (s', ev, e) -> In p (ev_probes ev) -> proto c = Icmp ->
  cfg_v6 cfg -> cc_protocol cfg = Icmp -> 48 <= cc_packet_size cfg <= 1024 ->
  exists m,
    run_send BoNetwork cfg [] p =
      (connect_ops true cfg ++ [SetUnicastHopsV6 (p_ttl p); SendTo m (cc_target cfg) 0], Ok tt) /\
    Z.of_nat (length m) + 40 = cc_packet_size cfg /\
    echo_wellformed 128 (trace_identifier c) (p_sequence p) (cc_payload_pattern cfg)
      (Z.to_nat (cc_packet_size cfg - 48))
      (pseudo_header_v6 (cc_source cfg) (cc_target cfg) 58 (Z.of_nat (length m))) m.
Proof.
  intros HA HR Hs Hin Hproto Hcfg Hcp Hsz. issued_preamble HA HR Hs Hin Hwf Hf.
  rewrite Hproto in Hf. destruct Hf as (Hid & _).
  destruct (c11_icmp_ipv6_lemma cfg p Hcfg Hcp Hsz Hwf) as (m & H1 & H2 & H3).
  exists m. rewrite <- Hid. split; [exact H1|]. split; [exact H2|exact H3].
Qed.

(* classic UDP: one of the two UDP ports on the wire is the sequence *)
Lemma issued_classic_udp_ipv4_lemma c s i s' ev e cfg p :
  Accept c -> reach c s -> step c s i = Ok (s', ev, e) -> In p (ev_probes ev) ->
  proto c = Udp -> multipath c = Classic ->
  cfg_v4 cfg -> cc_protocol cfg = Udp -> cc_privilege cfg = Privileged -> 28 <= cc_packet_size cfg <= 1024 ->
  exists b,
    run_send BoNetwork cfg [] p = (connect_ops false cfg ++ [SendTo b (cc_target cfg) (p_dest_port p)], Ok tt) /\
    ipv4_wellformed (cc_source cfg) (cc_target cfg) (cc_tos cfg) (p_ttl p) 17 b /\
    Z.of_nat (length b) = cc_packet_size cfg /\
    let u := ip_payload (rfc791_decode b) in
    udp_wellformed (p_src_port p) (p_dest_port p)
      (pseudo_header_v4 (cc_source cfg) (cc_target cfg) 17 (Z.of_nat (length u))) u /\
    (ud_source_port (rfc768_decode u) = p_sequence p \/ ud_destination_port (rfc768_decode u) = p_sequence p).
Proof.
  intros HA HR Hs Hin Hproto Hmp Hcfg Hcp Hpriv Hsz. issued_preamble HA HR Hs Hin Hwf Hf.
  rewrite Hproto, Hmp in Hf. destruct Hf as (Hfl & _ & Hport).
  destruct (c11_udp_ipv4_classic_lemma cfg p Hcfg Hcp Hpriv Hsz Hwf Hfl) as (b & H1 & H2 & _ & H4 & H5 & _).
  exists b. split; [exact H1|]. split; [exact H2|]. split; [exact H4|]. cbv zeta. split; [exact H5|].
  destruct H5 as (Hsp & Hdp & _). rewrite Hsp, Hdp. exact Hport.
Qed.

Lemma issued_classic_udp_ipv6_lemma c s i s' ev e cfg p :
  Accept c -> reach c s -> step c s i = Ok (s', ev, e) -> In p (ev_probes ev) ->
  proto c = Udp -> multipath c = Classic ->
  cfg_v6 cfg -> cc_protocol cfg = Udp -> cc_privilege cfg = Privileged -> 48 <= cc_packet_size cfg <= 1024 ->
  exists u,
    run_send BoNetwork cfg [] p =
      (connect_ops true cfg ++ [SetUnicastHopsV6 (p_ttl p); SendTo u (cc_target cfg) 0], Ok tt) /\
    udp_wellformed (p_src_port p) (p_dest_port p)
      (pseudo_header_v6 (cc_source cfg) (cc_target cfg) 17 (Z.of_nat (length u))) u /\
    ud_checksum (rfc768_decode u) <> 0 /\
    Z.of_nat (length u) + 40 = cc_packet_size cfg /\
    (ud_source_port (rfc768_decode u) = p_sequence p \/ ud_destination_port (rfc768_decode u) = p_sequence p).
Proof.
  intros HA HR Hs Hin Hproto Hmp Hcfg Hcp Hpriv Hsz. issued_preamble HA HR Hs Hin Hwf Hf.
  rewrite Hproto, Hmp in Hf. destruct Hf as (Hfl & _ & Hport).
  destruct (c11_udp_ipv6_classic_lemma cfg p Hcfg Hcp Hpriv Hsz Hwf Hfl) as (u & H1 & H2 & _ & H4 & H5).
  exists u. split; [exact H1|]. split; [exact H2|]. split; [exact H4|]. split; [exact H5|].
  destruct H2 as (Hsp & Hdp & _). rewrite Hsp, Hdp. exact Hport.
Qed.

(* Paris over IPv4: the UDP checksum field is the sequence, the datagram verifies *)
Lemma issued_paris_ipv4_lemma c s i s' ev e cfg p :
  Accept c -> reach c s -> step c s i = Ok (s', ev, e) -> In p (ev_probes ev) ->
  proto c = Udp -> multipath c = Paris ->
  cfg_v4 cfg -> cc_protocol cfg = Udp -> cc_privilege cfg = Privileged -> 28 <= cc_packet_size cfg <= 1024 ->
  exists b,
    run_send BoNetwork cfg [] p = (connect_ops false cfg ++ [SendTo b (cc_target cfg) (p_dest_port p)], Ok tt) /\
    ipv4_wellformed (cc_source cfg) (cc_target cfg) (cc_tos cfg) (p_ttl p) 17 b /\
    let u := ip_payload (rfc791_decode b) in
    udp_wellformed (p_src_port p) (p_dest_port p)
      (pseudo_header_v4 (cc_source cfg) (cc_target cfg) 17 (Z.of_nat (length u))) u /\
    ud_checksum (rfc768_decode u) = p_sequence p.
Proof.
  intros HA HR Hs Hin Hproto Hmp Hcfg Hcp Hpriv Hsz. issued_preamble HA HR Hs Hin Hwf Hf.
  rewrite Hproto, Hmp in Hf. destruct Hf as (Hfl & _).
  destruct (c11_udp_ipv4_paris_flag_lemma cfg p Hcfg Hcp Hpriv Hsz Hwf Hfl) as (b & H1 & H2 & _ & H4 & H5 & _).
  exists b. split; [exact H1|]. split; [exact H2|]. cbv zeta. split; [exact H4|exact H5].
Qed.

(* Dublin over IPv6: the UDP length on the wire encodes the sequence (8 + 6 + sequence - initial sequence) and the
   precondition of the dispatch (the payload fits the 976-octet buffer) holds for every issued probe *)
Lemma issued_dublin_ipv6_lemma c s i s' ev e cfg p :
  Accept c -> reach c s -> step c s i = Ok (s', ev, e) -> In p (ev_probes ev) ->
  proto c = Udp -> multipath c = Dublin -> is_v6 (target_addr c) = true ->
  cfg_v6 cfg -> cc_protocol cfg = Udp -> cc_privilege cfg = Privileged -> 48 <= cc_packet_size cfg <= 1024 ->
  cc_initial_sequence cfg = initial_sequence c ->
  exists u,
    run_send BoNetwork cfg [] p =
      (connect_ops true cfg ++ [SetUnicastHopsV6 (p_ttl p); SendTo u (cc_target cfg) 0], Ok tt) /\
    udp_wellformed (p_src_port p) (p_dest_port p)
      (pseudo_header_v6 (cc_source cfg) (cc_target cfg) 17 (Z.of_nat (length u))) u /\
    ud_data (rfc768_decode u) =
      MAGIC ++ repeat (cc_payload_pattern cfg) (Z.to_nat (p_sequence p - initial_sequence c)) /\
    ud_checksum (rfc768_decode u) <> 0 /\
    ud_length (rfc768_decode u) = 8 + 6 + (p_sequence p - initial_sequence c).
Proof.
  intros HA HR Hs Hin Hproto Hmp Hv6 Hcfg Hcp Hpriv Hsz Hinit. issued_preamble HA HR Hs Hin Hwf Hf.
  rewrite Hproto, Hmp in Hf. destruct Hf as (Hfl & _).
  pose proof (proj1 (Forall_forall _ _) (c07_dublin_payload_lemma c s i s' ev e HA HR Hproto Hmp Hv6 Hs)
                (p_sequence p) (in_map p_sequence _ _ Hin)) as Hfit. cbv beta in Hfit.
  assert (Hfits : dublin_v6_fits cfg p) by (unfold dublin_v6_fits; rewrite Hinit; exact Hfit).
  destruct (c11_udp_ipv6_dublin_lemma cfg p Hcfg Hcp Hpriv Hsz Hwf Hfl Hfits) as (u & H1 & H2 & H3 & H4 & H5).
  rewrite Hinit in H3, H5.
  exists u. split; [exact H1|]. split; [exact H2|]. split; [exact H3|]. split; [exact H4|].
  destruct H2 as (_ & _ & Hlen & _). rewrite Hlen. exact H5.
Qed.
