(* Lemmas for C16: layering precedence, non-interference, the fields of an accepted TrippyConfig,
   specifications of the validators, CLI acceptance versus builder acceptance. *)
From TV Require Import Base.Result Core.Types Core.TracerState Core.Strategy Core.Builder
  Tui.ConfigTypes Tui.Validate Tui.Layer Tui.LayerSpec Proofs.StrategyInv.

Ltac break_match :=
  repeat match goal with
  | |- context [match ?x with _ => _ end] =>
      match x with
      | context [match _ with _ => _ end] => fail 1
      | _ => destruct x; cbn -[Z.mul]
      end
  end.

(* ------------------------------------------------------------------ the three layering functions *)
Lemma cfg_layer_spec {T} (fst snd : option T) def :
  cfg_layer fst snd def = match fst with Some v => v | None => match snd with Some v => v | None => def end end.
Proof. destruct fst, snd; reflexivity. Qed.
Lemma cfg_layer_opt_spec {T} (fst snd : option T) :
  cfg_layer_opt fst snd = match fst with Some v => Some v | None => snd end.
Proof. destruct fst, snd; reflexivity. Qed.
Lemma cfg_layer_bool_flag_spec fst snd def :
  cfg_layer_bool_flag fst snd def = if fst then true else match snd with Some v => v | None => def end.
Proof. destruct fst, snd; reflexivity. Qed.

(* ------------------------------------------------------------------ precedence, for every option *)
Lemma layer_precedence o a f :
  norm o (lget o (layer_cfg a f)) = norm o (first_of (cli_get o a) (file_get o f) (doc_default o)).
Proof.
  destruct o; unfold norm, lget, layer_cfg, layer, cli_get, file_get, doc_default, first_of, sec, om, ov, flag, option_map,
    cfg_layer, cfg_layer_opt, cfg_layer_bool_flag, unwrap_or; cbn -[Z.mul];
  break_match; reflexivity.
Qed.

Lemma norm_id o v : o <> OTuiMaxAddrs -> norm o v = v.
Proof. intros H; destruct o; try reflexivity; congruence. Qed.

Lemma layer_precedence_plain o a f : o <> OTuiMaxAddrs ->
  lget o (layer_cfg a f) = first_of (cli_get o a) (file_get o f) (doc_default o).
Proof. intros H. pose proof (layer_precedence o a f) as P. rewrite !norm_id in P by assumption. exact P. Qed.

(* non-interference: the value of o is a function of the two entries of o alone *)
Lemma layer_independent o a a' f f' :
  cli_get o a = cli_get o a' -> file_get o f = file_get o f' ->
  norm o (lget o (layer_cfg a f)) = norm o (lget o (layer_cfg a' f')).
Proof. intros H1 H2. rewrite !layer_precedence, H1, H2. reflexivity. Qed.

(* ------------------------------------------------------------------ validators: independent characterisations *)
Lemma memZ_In x l : memZ x l = true <-> In x l.
Proof.
  induction l as [|y t IH]; cbn [memZ In]; [split; [discriminate|tauto]|].
  rewrite Bool.orb_true_iff, IH, Z.eqb_eq. split; intros [H|H]; auto.
Qed.

Lemma find_duplicates_from_nil all l :
  find_duplicates_from all l = [] <-> NoDup l /\ forall x, In x l -> ~ In x all.
Proof.
  revert all. induction l as [|x t IH]; intros all; cbn [find_duplicates_from].
  - split; [intros _; split; [constructor|intros x []]|reflexivity].
  - destruct (memZ x all) eqn:E.
    + split; [discriminate|]. intros [_ H]. apply memZ_In in E. exfalso. exact (H x (or_introl eq_refl) E).
    + rewrite IH. assert (~ In x all) as Hn by (rewrite <- memZ_In, E; discriminate).
      split.
      * intros [Hnd Hd]. split.
        -- constructor; [|assumption]. intros Hi. exact (Hd x Hi (or_introl eq_refl)).
        -- intros y [<-|Hy]; [assumption|]. intros Hy'. exact (Hd y Hy (or_intror Hy')).
      * intros [Hnd Hd]. inversion Hnd as [|? ? Hx Hnd']; subst. split; [assumption|].
        intros y Hy [<-|Hy']; [contradiction|]. exact (Hd y (or_intror Hy) Hy').
Qed.

Lemma find_duplicates_nil l : find_duplicates l = [] <-> NoDup l.
Proof. unfold find_duplicates. rewrite find_duplicates_from_nil. split; [tauto|]. intros H; split; [assumption|]. intros x _ []. Qed.

Lemma is_empty_true {A} (l : list A) : is_empty l = true <-> l = [].
Proof. destruct l; cbn; split; congruence. Qed.

(* validate_bindings: no key is bound to two commands *)
Lemma validate_bindings_spec b : validate_bindings b = true <-> NoDup b.
Proof. unfold validate_bindings. rewrite is_empty_true. apply find_duplicates_nil. Qed.

(* validate_tui_custom_columns: at least one column, no column twice *)
Lemma validate_tui_custom_columns_spec cols :
  validate_tui_custom_columns cols = true <-> cols <> [] /\ NoDup cols.
Proof.
  unfold validate_tui_custom_columns. destruct cols as [|c t]; cbn [is_empty].
  - split; [discriminate|intros [H _]; congruence].
  - destruct (is_empty (find_duplicates (c :: t))) eqn:E.
    + apply is_empty_true, find_duplicates_nil in E. split; [intros _; split; [discriminate|assumption]|reflexivity].
    + split; [discriminate|]. intros [_ H]. apply find_duplicates_nil, is_empty_true in H. congruence.
Qed.

(* TuiColumns::try_from: succeeds exactly on strings of known column codes, and keeps the string *)
Lemma TuiColumns_try_from_spec s cols :
  TuiColumns_try_from s = Some cols <-> cols = s /\ Forall (fun c => In c COLUMN_CODES) s.
Proof.
  revert cols. induction s as [|c t IH]; intros cols; cbn [TuiColumns_try_from].
  - split; [intros [= <-]; split; [reflexivity|constructor]|intros [-> _]; reflexivity].
  - unfold TuiColumn_try_from. destruct (memZ c COLUMN_CODES) eqn:E.
    + destruct (TuiColumns_try_from t) as [l|] eqn:Et.
      * destruct (proj1 (IH l) eq_refl) as [-> Hf]. apply memZ_In in E.
        split; [intros [= <-]; split; [reflexivity|constructor; assumption]|intros [-> _]; reflexivity].
      * split; [discriminate|]. intros [-> Hf]. inversion Hf as [|? ? _ Ht]; subst.
        pose proof (proj2 (IH t) (conj eq_refl Ht)) as X. discriminate X.
    + split; [discriminate|]. intros [_ Hf]. inversion Hf as [|? ? Hc _]; subst. apply memZ_In in Hc. congruence.
Qed.

Lemma validate_ttl_spec f m : validate_ttl f m = true <-> 1 <= f <= m /\ m <= 254.
Proof.
  unfold validate_ttl, MAX_TTL.
  destruct (1 <=? f) eqn:A, (f <=? 254) eqn:B, (1 <=? m) eqn:C, (m <=? 254) eqn:D, (m <? f) eqn:E; cbn;
  split; intros H; try discriminate; try reflexivity; lia.
Qed.

Lemma validate_max_inflight_spec x : validate_max_inflight x = true <-> x <> 0.
Proof. unfold validate_max_inflight. destruct (x =? 0) eqn:E; cbn; split; intros H; try discriminate; try reflexivity; lia. Qed.
Lemma validate_report_cycles_spec x : validate_report_cycles x = true <-> x <> 0.
Proof. unfold validate_report_cycles. destruct (x =? 0) eqn:E; cbn; split; intros H; try discriminate; try reflexivity; lia. Qed.
Lemma validate_round_duration_spec a b : validate_round_duration a b = true <-> a <= b.
Proof. unfold validate_round_duration. destruct (b <? a) eqn:E; cbn; split; intros H; try discriminate; try reflexivity; lia. Qed.
Lemma validate_grace_duration_spec g : validate_grace_duration g = true <-> 10000000 <= g <= 1000000000.
Proof.
  unfold validate_grace_duration, MIN_GRACE_DURATION_MS, MAX_GRACE_DURATION_MS, ms.
  destruct (g <? 10 * 1000000) eqn:A, (1000 * 1000000 <? g) eqn:B; cbn; split; intros H; try discriminate; try reflexivity; lia.
Qed.
Lemma validate_read_timeout_spec g : validate_read_timeout g = true <-> 10000000 <= g <= 100000000.
Proof.
  unfold validate_read_timeout, MIN_READ_TIMEOUT_MS, MAX_READ_TIMEOUT_MS, ms.
  destruct (g <? 10 * 1000000) eqn:A, (100 * 1000000 <? g) eqn:B; cbn; split; intros H; try discriminate; try reflexivity; lia.
Qed.
Lemma validate_tui_refresh_rate_spec g : validate_tui_refresh_rate g = true <-> 50000000 <= g <= 1000000000.
Proof.
  unfold validate_tui_refresh_rate, TUI_MIN_REFRESH_RATE_MS, TUI_MAX_REFRESH_RATE_MS, ms.
  destruct (g <? 50 * 1000000) eqn:A, (1000 * 1000000 <? g) eqn:B; cbn; split; intros H; try discriminate; try reflexivity; lia.
Qed.
Lemma validate_packet_size_spec fam p :
  validate_packet_size fam p = true <-> (match fam with Ipv4Only => 28 | _ => 48 end) <= p <= 1024.
Proof.
  unfold validate_packet_size, MIN_PACKET_SIZE_IPV4, MIN_PACKET_SIZE_IPV6, MAX_PACKET_SIZE.
  destruct fam; rewrite Bool.andb_true_iff, !Z.leb_le; tauto.
Qed.
Lemma validate_source_port_spec p : validate_source_port p = true <-> 1024 <= p.
Proof. unfold validate_source_port. destruct (p <? 1024) eqn:E; cbn; split; intros H; try discriminate; try reflexivity; lia. Qed.

(* the port rule *)
Lemma derive_port_direction_spec proto s d m pid pd :
  derive_port_direction proto s d m pid = COk pd <-> port_rule pid proto s d (derive_multipath_strategy m) pd.
Proof.
  split.
  - unfold derive_port_direction, check. intros H.
    destruct proto, s as [s|], d as [d|], m; cbn in H;
    try (destruct (validate_source_port s) eqn:V; cbn in H; [apply validate_source_port_spec in V|]);
    try discriminate; injection H as <-; cbn; try (constructor; (assumption || discriminate)).
  - intros H. inversion H; subst; unfold derive_port_direction, check; cbn.
    + destruct s, d, m; reflexivity.
    + destruct m; reflexivity.
    + destruct m; reflexivity.
    + apply validate_source_port_spec in H0. destruct m; cbn; rewrite H0; reflexivity.
    + destruct m; reflexivity.
    + destruct m; reflexivity.
    + destruct m; reflexivity.
    + apply validate_source_port_spec in H1. destruct m; cbn in *; try congruence; rewrite H1; reflexivity.
Qed.

(* ------------------------------------------------------------------ theme colours / key bindings, item by item *)
Lemma map_get_enumerate_lt {A} (f : A -> Z) k j (l : list Z) : k < j -> map_get k (enumerate_from j l) = None.
Proof.
  revert j. induction l as [|x t IH]; intros j H; cbn [enumerate_from map_get]; [reflexivity|].
  rewrite IH by lia. destruct (k =? j) eqn:E; [lia|reflexivity].
Qed.

Lemma map_get_enumerate j (l : list Z) i :
  map_get (j + Z.of_nat i) (enumerate_from j l) = nth_error l i.
Proof.
  revert j i. induction l as [|x t IH]; intros j i; cbn [enumerate_from map_get].
  - destruct i; reflexivity.
  - destruct i as [|i'].
    + rewrite Z.add_0_r. rewrite (map_get_enumerate_lt (fun x => x)) by lia. rewrite Z.eqb_refl. reflexivity.
    + replace (j + Z.of_nat (S i')) with ((j + 1) + Z.of_nat i') by lia. rewrite IH. cbn [nth_error].
      destruct (nth_error t i'); [reflexivity|]. destruct (j + 1 + Z.of_nat i' =? j) eqn:E; [lia|reflexivity].
Qed.

Lemma layer_items_from_nth j cli cfg defaults i d : nth_error defaults i = Some d ->
  nth_error (layer_items_from j cli cfg defaults) i = Some (layer_item cli cfg d (j + Z.of_nat i)).
Proof.
  revert j i. induction defaults as [|x t IH]; intros j i H; [destruct i; discriminate|].
  cbn [layer_items_from]. destruct i as [|i']; cbn [nth_error] in *.
  - injection H as <-. rewrite Z.add_0_r. reflexivity.
  - rewrite (IH (j + 1) i' H). f_equal. f_equal. lia.
Qed.

Lemma layer_items_from_length j cli cfg defaults :
  length (layer_items_from j cli cfg defaults) = length defaults.
Proof. revert j. induction defaults; intros j; cbn [layer_items_from length]; [reflexivity|]. rewrite IHdefaults. reflexivity. Qed.

(* one item: command line, else file (an absent section = no entry), else the default of that item *)
Definition item_rule (cli : list (Z * Z)) (file : option (list (Z * Z))) (d : Z) (i : nat) : Z :=
  match map_get (Z.of_nat i) cli with
  | Some v => v
  | None =>
    match file with
    | Some m => match map_get (Z.of_nat i) m with Some v => v | None => d end
    | None => d
    end
  end.

Lemma theme_item cli (file : option ConfigThemeColors) i d : nth_error TuiTheme_default i = Some d ->
  nth_error (TuiTheme_from cli (unwrap_or file ConfigThemeColors_default)) i = Some (item_rule cli file d i).
Proof.
  intros H. unfold TuiTheme_from. rewrite (layer_items_from_nth 0 _ _ _ i d H). f_equal.
  unfold layer_item, item_rule. rewrite Z.add_0_l. destruct (map_get (Z.of_nat i) cli); [reflexivity|].
  destruct file as [m|]; cbn [unwrap_or]; [reflexivity|].
  unfold ConfigThemeColors_default, enumerate.
  pose proof (map_get_enumerate 0 TuiTheme_default i) as E. rewrite Z.add_0_l in E. rewrite E, H. reflexivity.
Qed.

Lemma bindings_item cli (file : option ConfigBindings) i d : nth_error TuiBindings_default i = Some d ->
  nth_error (TuiBindings_from cli (unwrap_or file ConfigBindings_default)) i =
  Some (item_rule cli (option_map cb_items file) d i).
Proof.
  intros H. unfold TuiBindings_from. rewrite (layer_items_from_nth 0 _ _ _ i d H). f_equal.
  unfold layer_item, item_rule. rewrite Z.add_0_l. destruct (map_get (Z.of_nat i) cli); [reflexivity|].
  destruct file as [m|]; cbn [unwrap_or option_map]; [reflexivity|].
  cbn [ConfigBindings_default cb_items]. unfold enumerate.
  pose proof (map_get_enumerate 0 TuiBindings_default i) as E. rewrite Z.add_0_l in E. rewrite E, H. reflexivity.
Qed.

(* ------------------------------------------------------------------ what an accepted configuration looks like *)
Lemma check_ok b e u : check b e = COk u -> b = true.
Proof. unfold check. destruct b; [reflexivity|discriminate]. Qed.

(* everything build_config has established when it returns Ok *)
Record accepted (tz : str -> bool) (a : Args) (f : ConfigFile) (p : PlatformPrivilege) (pid : Z) (acc_L : Layered)
    (c : TrippyConfig) : Prop := {
  acc_columns : TuiColumns_try_from (l_tui_custom_columns acc_L) = Some (tc_tui_custom_columns c);
  acc_timezone : tc_tui_timezone c = l_tui_timezone acc_L /\ opt_ok (fun z => tz z = true) (l_tui_timezone acc_L);
  acc_ports : derive_port_direction (tc_protocol c) (l_source_port acc_L) (l_target_port acc_L)
                (l_multipath_strategy acc_L) pid = COk (tc_port_direction c);
  acc_privilege : validate_privilege (tc_privilege_mode c) (has_privileges p) (needs_privileges p) = true;
  acc_logging : validate_logging (tc_mode c) (tc_verbose c) = true;
  acc_strategy : validate_strategy (tc_multipath_strategy c) (l_unprivileged acc_L) = true;
  acc_protocol_strategy : validate_protocol_strategy (tc_protocol c) (tc_multipath_strategy c) = true;
  acc_multi : validate_multi (tc_mode c) (tc_protocol c) (tc_targets c) (tc_dns_resolve_all c) = true;
  acc_flows : validate_flows (tc_mode c) (tc_multipath_strategy c) = true;
  acc_ttl : validate_ttl (tc_first_ttl c) (tc_max_ttl c) = true;
  acc_max_inflight : validate_max_inflight (tc_max_inflight c) = true;
  acc_read_timeout : validate_read_timeout (tc_read_timeout c) = true;
  acc_round_duration : validate_round_duration (tc_min_round_duration c) (tc_max_round_duration c) = true;
  acc_grace_duration : validate_grace_duration (tc_grace_duration c) = true;
  acc_packet_size : validate_packet_size (tc_addr_family c) (tc_packet_size c) = true;
  acc_refresh_rate : validate_tui_refresh_rate (tc_tui_refresh_rate c) = true;
  acc_report_cycles : validate_report_cycles (tc_report_cycles c) = true;
  acc_dns : validate_dns (tc_dns_resolve_method c) (tc_dns_lookup_as_info c) = true;
  acc_geoip : validate_geoip (tc_tui_geoip_mode c) (tc_geoip_mmdb_file c) = true;
  acc_custom_columns : validate_tui_custom_columns (tc_tui_custom_columns c) = true;
  acc_bindings : validate_bindings (tc_tui_bindings c) = true;
  acc_deprecated : validate_deprecated (unwrap_or (cf_tui f) ConfigTui_default)
                     (unwrap_or (cf_bindings f) ConfigBindings_default) = true;
  (* the fields *)
  acc_fields : c = {|
    tc_targets := a_targets a;
    tc_protocol := derive_protocol (a_udp a) (a_tcp a) (a_icmp a) (l_protocol acc_L);
    tc_addr_family := derive_addr_family (a_ipv4 a) (a_ipv6 a) (l_addr_family acc_L);
    tc_first_ttl := l_first_ttl acc_L;
    tc_max_ttl := l_max_ttl acc_L;
    tc_min_round_duration := l_min_round_duration acc_L;
    tc_max_round_duration := l_max_round_duration acc_L;
    tc_grace_duration := l_grace_duration acc_L;
    tc_max_inflight := l_max_inflight acc_L;
    tc_initial_sequence := l_initial_sequence acc_L;
    tc_tos := l_tos acc_L;
    tc_icmp_extension_parse_mode := if l_icmp_extensions acc_L then ExtEnabled else ExtDisabled;
    tc_read_timeout := l_read_timeout acc_L;
    tc_packet_size := l_packet_size acc_L;
    tc_payload_pattern := l_payload_pattern acc_L;
    tc_source_addr := l_source_address acc_L;
    tc_interface := l_interface acc_L;
    tc_multipath_strategy := derive_multipath_strategy (l_multipath_strategy acc_L);
    tc_port_direction := tc_port_direction c;
    tc_dns_timeout := l_dns_timeout acc_L;
    tc_dns_ttl := l_dns_ttl acc_L;
    tc_dns_resolve_method := derive_dns_resolve_method (l_dns_resolve_method acc_L);
    tc_dns_lookup_as_info := l_dns_lookup_as_info acc_L;
    tc_max_samples := l_max_samples acc_L;
    tc_max_flows := l_max_flows acc_L;
    tc_tui_preserve_screen := l_tui_preserve_screen acc_L;
    tc_tui_refresh_rate := l_tui_refresh_rate acc_L;
    tc_tui_privacy_max_ttl := l_tui_privacy_max_ttl acc_L;
    tc_tui_address_mode := l_tui_address_mode acc_L;
    tc_tui_as_mode := l_tui_as_mode acc_L;
    tc_tui_custom_columns := tc_tui_custom_columns c;
    tc_tui_icmp_extension_mode := l_tui_icmp_extension_mode acc_L;
    tc_tui_geoip_mode := l_tui_geoip_mode acc_L;
    tc_tui_max_addrs := derive_tui_max_addrs (l_tui_max_addrs acc_L);
    tc_tui_locale := l_tui_locale acc_L;
    tc_tui_timezone := tc_tui_timezone c;
    tc_tui_theme := TuiTheme_from (a_tui_theme_colors a) (unwrap_or (cf_theme_colors f) ConfigThemeColors_default);
    tc_tui_bindings := TuiBindings_from (a_tui_key_bindings a) (unwrap_or (cf_bindings f) ConfigBindings_default);
    tc_mode := l_mode acc_L;
    tc_privilege_mode := if l_unprivileged acc_L then PmUnprivileged else PmPrivileged;
    tc_dns_resolve_all := l_dns_resolve_all acc_L;
    tc_report_cycles := l_report_cycles acc_L;
    tc_geoip_mmdb_file := l_geoip_mmdb_file acc_L;
    tc_max_rounds := derive_max_rounds (l_mode acc_L) (l_report_cycles acc_L);
    tc_verbose := a_verbose a;
    tc_log_format := l_log_format acc_L;
    tc_log_filter := l_log_filter acc_L;
    tc_log_span_events := l_log_span_events acc_L;
  |};
}.

Lemma cbind_ok {A B} (r : cres A) (k : A -> cres B) c : cbind r k = COk c -> exists x, r = COk x /\ k x = COk c.
Proof. destruct r as [x|e]; cbn; [intros H; exists x; split; [reflexivity|exact H]|discriminate]. Qed.
(* inversion of one `?` step through the lemma (destructing the bind chain directly makes Qed explode) *)
Ltac bc_step H :=
  let x := fresh "x" in let E := fresh "E" in
  apply cbind_ok in H; destruct H as (x & E & H); cbv beta in H.

Lemma build_config_accepted tz a f p pid c :
  build_config tz a f p pid = COk c -> accepted tz a f p pid (layer_cfg a f) c.
Proof.
  intros H. unfold build_config in H. cbv zeta in H.
  remember (layer_cfg a f) as L eqn:HL. clear HL.
  bc_step H. apply check_ok in E.
  bc_step H. rename x0 into cols.
  bc_step H. rename x0 into tzv.
  bc_step H. rename x0 into pd.
  do 18 (bc_step H; match goal with E' : check _ _ = COk _ |- _ => apply check_ok in E' end).
  injection H as <-.
  constructor; cbn -[derive_port_direction]; try assumption; try reflexivity.
  - destruct (TuiColumns_try_from (l_tui_custom_columns L)); [injection E0 as ->; reflexivity|discriminate].
  - destruct (l_tui_timezone L) as [z|]; cbn [opt_ok].
    + destruct (tz z) eqn:T; [injection E1 as <-; split; reflexivity|discriminate].
    + injection E1 as <-. split; [reflexivity|exact I].
Qed.

(* ------------------------------------------------------------------ effective fields *)
Lemma strategy_cfg_of_derive m : strategy_cfg_of (derive_multipath_strategy m) = m.
Proof. destruct m; reflexivity. Qed.
Lemma dns_cfg_of_derive m : dns_cfg_of (derive_dns_resolve_method m) = m.
Proof. destruct m; reflexivity. Qed.

(* every non-derived option is carried unchanged into the TrippyConfig *)
Lemma config_field o tz a f p pid c v : build_config tz a f p pid = COk c ->
  cfg_get o c = Some v -> v = lget o (layer_cfg a f).
Proof.
  intros H G. pose proof (build_config_accepted _ _ _ _ _ _ H) as A.
  remember (layer_cfg a f) as L eqn:HL. clear HL.
  destruct A as [Hc Htz _ _ _ _ _ _ _ _ _ _ _ _ _ _ _ _ _ _ _ _ Hf].
  apply TuiColumns_try_from_spec in Hc. destruct Hc as [Hc _]. destruct Htz as [Htz _].
  rewrite Hf in G. destruct o; cbn in G; try discriminate; injection G as <-;
  rewrite ?strategy_cfg_of_derive, ?dns_cfg_of_derive, ?Hc, ?Htz; try reflexivity;
  cbn [lget]; destruct (l_unprivileged L), (l_icmp_extensions L); reflexivity.
Qed.

Lemma cfg_get_derived o c : cfg_get o c = None <-> derived o = true.
Proof. destruct o; cbn; split; congruence. Qed.

(* ---- the derived fields ---- *)
Lemma derive_protocol_spec a f :
  derive_protocol (a_udp a) (a_tcp a) (a_icmp a) (l_protocol (layer_cfg a f)) =
  first_of_ (cli_protocol a) (file_protocol f) Icmp.
Proof.
  unfold cli_protocol, file_protocol, first_of_, layer_cfg, layer, cfg_layer, unwrap_or, derive_protocol, option_map;
  cbn -[Z.mul]. destruct (a_udp a), (a_tcp a), (a_icmp a); cbn; try reflexivity; break_match; reflexivity.
Qed.

Lemma derive_addr_family_spec a f :
  derive_addr_family (a_ipv4 a) (a_ipv6 a) (l_addr_family (layer_cfg a f)) =
  first_of_ (cli_family a) (file_family f) Ipv4thenIpv6.
Proof.
  unfold cli_family, file_family, first_of_, layer_cfg, layer, cfg_layer, unwrap_or, derive_addr_family, option_map, family_of_cfg;
  cbn -[Z.mul]. destruct (a_ipv4 a), (a_ipv6 a); cbn; try reflexivity; break_match; reflexivity.
Qed.

Lemma derive_tui_max_addrs_spec x :
  ov VInt (derive_tui_max_addrs x) = norm OTuiMaxAddrs (ov VInt x).
Proof. destruct x as [n|]; cbn; [destruct (0 <? n); reflexivity|reflexivity]. Qed.

(* ------------------------------------------------------------------ CLI acceptance and the builder *)
Lemma cfg_layer_pres {T} (P : T -> Prop) fst snd def :
  opt_ok P fst -> opt_ok P snd -> P def -> P (cfg_layer fst snd def).
Proof. destruct fst, snd; cbn; auto. Qed.
Lemma cfg_layer_opt_pres {T} (P : T -> Prop) fst snd :
  opt_ok P fst -> opt_ok P snd -> opt_ok P (cfg_layer_opt fst snd).
Proof. destruct fst, snd; cbn; auto. Qed.

Lemma strategy_default_in_range : strategy_in_range ConfigStrategy_default.
Proof. constructor; cbv; try exact I; try (split; [discriminate|reflexivity]); discriminate. Qed.

Lemma layered_in_range a f : args_in_range a -> file_in_range f ->
  opt_ok u16 (l_source_port (layer_cfg a f)) /\ opt_ok u16 (l_target_port (layer_cfg a f)) /\
  u16 (l_initial_sequence (layer_cfg a f)) /\ u8 (l_max_inflight (layer_cfg a f)) /\
  nonneg (l_min_round_duration (layer_cfg a f)) /\ nonneg (l_report_cycles (layer_cfg a f)).
Proof.
  intros Ha [Hs Hr].
  assert (strategy_in_range (unwrap_or (cf_strategy f) ConfigStrategy_default)) as Hst.
  { destruct (cf_strategy f); cbn in *; [assumption|apply strategy_default_in_range]. }
  destruct Ha, Hst. unfold layer_cfg, layer.
  cbn [l_source_port l_target_port l_initial_sequence l_max_inflight l_min_round_duration l_report_cycles].
  repeat split.
  - apply cfg_layer_opt_pres; assumption.
  - apply cfg_layer_opt_pres; assumption.
  - apply (cfg_layer_pres u16); try assumption; cbv; split; [discriminate|reflexivity].
  - apply (cfg_layer_pres u16); try assumption; cbv; split; [discriminate|reflexivity].
  - apply (cfg_layer_pres u8); try assumption; cbv; split; [discriminate|reflexivity].
  - apply (cfg_layer_pres u8); try assumption; cbv; split; [discriminate|reflexivity].
  - apply (cfg_layer_pres nonneg); try assumption; cbv; discriminate.
  - apply (cfg_layer_pres nonneg); try assumption; [|cbv; discriminate].
    destruct (cf_report f) as [r|]; cbn in *; [assumption|cbv; discriminate].
Qed.

Lemma port_rule_wf pid proto s d m pd : port_rule pid proto s d m pd ->
  u16 pid -> opt_ok u16 s -> opt_ok u16 d -> portdir_wf pd.
Proof. intros H Hp Hs Hd. inversion H; subst; cbn in *; unfold u16 in *; try exact I; try assumption; try lia; auto. Qed.

Lemma port_rule_portdir_ok pid proto s d m pd c : port_rule pid proto s d m pd ->
  Types.proto c = proto -> multipath c = m -> port_direction c = pd -> portdir_ok c = true.
Proof.
  intros H <- <- <-. unfold portdir_ok. inversion H as [| | | | | | |s' d' m' Hm]; subst;
  repeat match goal with E : _ = Types.proto c |- _ => rewrite <- E end;
  repeat match goal with E : _ = port_direction c |- _ => rewrite <- E end; try reflexivity.
  destruct (multipath c); [congruence|reflexivity|reflexivity].
Qed.

(* a configuration accepted by the command-line layer, seen by the builder: everything the builder checks
   holds except possibly the two checks on the initial sequence (its bound, and zero with Paris over IPv6),
   which the command-line layer does not make *)
Lemma cli_accept_builder tz a f p pid c tgt tid :
  build_config tz a f p pid = COk c -> args_in_range a -> file_in_range f -> u16 pid -> u16 tid ->
  builder_accepts (start_tracer_cfg c tgt tid) =
    (tc_initial_sequence c <=? MAX_INITIAL_SEQUENCE) && negb (paris6_zero (start_tracer_cfg c tgt tid)) /\
  cfg_wf (start_tracer_cfg c tgt tid).
Proof.
  intros H Ha [Hs Hr] Hpid Htid.
  pose proof (build_config_accepted _ _ _ _ _ _ H) as A.
  remember (layer_cfg a f) as L eqn:HL.
  destruct A as [_ _ Hports _ _ _ _ _ _ Httl Hinf _ Hrd Hgr _ _ Hrc _ _ _ _ _ Hf].
  apply derive_port_direction_spec in Hports. apply validate_ttl_spec in Httl. apply validate_max_inflight_spec in Hinf.
  apply validate_round_duration_spec in Hrd. apply validate_grace_duration_spec in Hgr. apply validate_report_cycles_spec in Hrc.
  destruct (layered_in_range a f Ha (conj Hs Hr)) as (Hsp & Htp & Hseq & Hmi & Hmin & Hcyc). rewrite <- HL in *.
  pose proof (port_rule_wf _ _ _ _ _ _ Hports Hpid Hsp Htp) as Hpw.
  pose proof (port_rule_portdir_ok _ _ _ _ _ _ (start_tracer_cfg c tgt tid) Hports) as Hpo.
  assert (tc_multipath_strategy c = derive_multipath_strategy (l_multipath_strategy L)) as Hms by (rewrite Hf; reflexivity).
  specialize (Hpo eq_refl Hms eq_refl).
  assert (tc_first_ttl c = l_first_ttl L /\ tc_max_ttl c = l_max_ttl L /\ tc_max_inflight c = l_max_inflight L /\
          tc_initial_sequence c = l_initial_sequence L /\ tc_min_round_duration c = l_min_round_duration L /\
          tc_report_cycles c = l_report_cycles L /\ tc_max_rounds c = derive_max_rounds (l_mode L) (l_report_cycles L))
    as (F1 & F2 & F3 & F4 & F5 & F6 & F7) by (rewrite Hf; cbn; repeat split).
  split.
  - unfold builder_accepts. rewrite Hpo. cbn [start_tracer_cfg first_ttl max_ttl initial_sequence]. unfold MAX_TTL.
    replace (1 <=? tc_first_ttl c) with true by (symmetry; apply Z.leb_le; lia).
    replace (tc_first_ttl c <=? 254) with true by (symmetry; apply Z.leb_le; lia).
    replace (tc_max_ttl c <=? 254) with true by (symmetry; apply Z.leb_le; lia). reflexivity.
  - unfold cfg_wf. cbn [start_tracer_cfg trace_identifier first_ttl max_ttl max_inflight initial_sequence port_direction
      grace_duration min_round_duration max_round_duration max_rounds].
    unfold u8, u16, nonneg in *. rewrite F7.
    repeat split; try lia; try assumption.
    unfold derive_max_rounds. destruct (l_mode L); try exact I; lia.
Qed.

(* ------------------------------------------------------------------ consequences used by Props/C16.v *)
Lemma config_precedence o tz a f p pid c v : build_config tz a f p pid = COk c ->
  cfg_get o c = Some v -> v = first_of (cli_get o a) (file_get o f) (doc_default o).
Proof.
  intros H G. rewrite (config_field o _ _ _ _ _ _ _ H G). apply layer_precedence_plain.
  intros ->. cbn in G. discriminate.
Qed.

Lemma config_independent o tz tz' a a' f f' p p' pid pid' c c' :
  build_config tz a f p pid = COk c -> build_config tz' a' f' p' pid' = COk c' ->
  cli_get o a = cli_get o a' -> file_get o f = file_get o f' -> cfg_get o c = cfg_get o c'.
Proof.
  intros H H' E1 E2. destruct (cfg_get o c) as [v|] eqn:G, (cfg_get o c') as [v'|] eqn:G'.
  - rewrite (config_precedence o _ _ _ _ _ _ _ H G), (config_precedence o _ _ _ _ _ _ _ H' G'), E1, E2. reflexivity.
  - apply cfg_get_derived in G'. assert (cfg_get o c = None) as X by (apply cfg_get_derived; assumption). congruence.
  - apply cfg_get_derived in G. assert (cfg_get o c' = None) as X by (apply cfg_get_derived; assumption). congruence.
  - reflexivity.
Qed.

Lemma config_protocol tz a f p pid c : build_config tz a f p pid = COk c ->
  tc_protocol c = first_of_ (cli_protocol a) (file_protocol f) Icmp.
Proof.
  intros H. destruct (build_config_accepted _ _ _ _ _ _ H) as [_ _ _ _ _ _ _ _ _ _ _ _ _ _ _ _ _ _ _ _ _ _ Hf].
  rewrite Hf. cbn [tc_protocol]. apply derive_protocol_spec.
Qed.

Lemma config_addr_family tz a f p pid c : build_config tz a f p pid = COk c ->
  tc_addr_family c = first_of_ (cli_family a) (file_family f) Ipv4thenIpv6.
Proof.
  intros H. destruct (build_config_accepted _ _ _ _ _ _ H) as [_ _ _ _ _ _ _ _ _ _ _ _ _ _ _ _ _ _ _ _ _ _ Hf].
  rewrite Hf. cbn [tc_addr_family]. apply derive_addr_family_spec.
Qed.

Lemma config_max_rounds tz a f p pid c : build_config tz a f p pid = COk c ->
  tc_max_rounds c = match tc_mode c with MTui | MStream => None | _ => Some (tc_report_cycles c) end.
Proof.
  intros H. destruct (build_config_accepted _ _ _ _ _ _ H) as [_ _ _ _ _ _ _ _ _ _ _ _ _ _ _ _ _ _ _ _ _ _ Hf].
  rewrite Hf. cbn [tc_max_rounds tc_mode tc_report_cycles]. unfold derive_max_rounds.
  destruct (l_mode (layer_cfg a f)); reflexivity.
Qed.

Lemma config_tui_max_addrs tz a f p pid c : build_config tz a f p pid = COk c ->
  ov VInt (tc_tui_max_addrs c) =
  norm OTuiMaxAddrs (first_of (cli_get OTuiMaxAddrs a) (file_get OTuiMaxAddrs f) (doc_default OTuiMaxAddrs)).
Proof.
  intros H. destruct (build_config_accepted _ _ _ _ _ _ H) as [_ _ _ _ _ _ _ _ _ _ _ _ _ _ _ _ _ _ _ _ _ _ Hf].
  rewrite Hf. cbn [tc_tui_max_addrs]. rewrite derive_tui_max_addrs_spec.
  exact (layer_precedence OTuiMaxAddrs a f).
Qed.

Lemma ov_inj (x y : option Z) : ov VInt x = ov VInt y -> x = y.
Proof. destruct x, y; cbn; congruence. Qed.

Lemma config_port_direction tz a f p pid c : build_config tz a f p pid = COk c ->
  exists src dst,
    first_of (cli_get OSourcePort a) (file_get OSourcePort f) VNone = ov VInt src /\
    first_of (cli_get OTargetPort a) (file_get OTargetPort f) VNone = ov VInt dst /\
    port_rule pid (tc_protocol c) src dst (tc_multipath_strategy c) (tc_port_direction c).
Proof.
  intros H. destruct (build_config_accepted _ _ _ _ _ _ H) as [_ _ Hp _ _ _ _ _ _ _ _ _ _ _ _ _ _ _ _ _ _ _ Hf].
  apply derive_port_direction_spec in Hp.
  exists (l_source_port (layer_cfg a f)), (l_target_port (layer_cfg a f)).
  split; [symmetry; exact (layer_precedence_plain OSourcePort a f ltac:(discriminate))|].
  split; [symmetry; exact (layer_precedence_plain OTargetPort a f ltac:(discriminate))|].
  replace (tc_multipath_strategy c) with (derive_multipath_strategy (l_multipath_strategy (layer_cfg a f)))
    by (rewrite Hf; reflexivity).
  exact Hp.
Qed.

Lemma port_rule_functional pid pr s d m x y : port_rule pid pr s d m x -> port_rule pid pr s d m y -> x = y.
Proof. intros A B. inversion A; subst; inversion B; subst; reflexivity. Qed.

Lemma config_theme tz a f p pid c i d : build_config tz a f p pid = COk c ->
  nth_error TuiTheme_default i = Some d ->
  nth_error (tc_tui_theme c) i = Some (item_rule (a_tui_theme_colors a) (cf_theme_colors f) d i).
Proof.
  intros H Hd. destruct (build_config_accepted _ _ _ _ _ _ H) as [_ _ _ _ _ _ _ _ _ _ _ _ _ _ _ _ _ _ _ _ _ _ Hf].
  rewrite Hf. cbn [tc_tui_theme]. apply theme_item. exact Hd.
Qed.

Lemma config_bindings tz a f p pid c i d : build_config tz a f p pid = COk c ->
  nth_error TuiBindings_default i = Some d ->
  nth_error (tc_tui_bindings c) i = Some (item_rule (a_tui_key_bindings a) (option_map cb_items (cf_bindings f)) d i).
Proof.
  intros H Hd. destruct (build_config_accepted _ _ _ _ _ _ H) as [_ _ _ _ _ _ _ _ _ _ _ _ _ _ _ _ _ _ _ _ _ _ Hf].
  rewrite Hf. cbn [tc_tui_bindings]. apply bindings_item. exact Hd.
Qed.

Lemma config_bindings_distinct tz a f p pid c : build_config tz a f p pid = COk c -> NoDup (tc_tui_bindings c).
Proof.
  intros H. destruct (build_config_accepted _ _ _ _ _ _ H) as [_ _ _ _ _ _ _ _ _ _ _ _ _ _ _ _ _ _ _ _ Hb _ _].
  apply validate_bindings_spec. exact Hb.
Qed.

(* an accepted command line that also respects the builder's sequence bound runs without a fault *)
Lemma cli_runs tz a f p pid c tgt tid t0 is :
  build_config tz a f p pid = COk c -> args_in_range a -> file_in_range f -> u16 pid -> u16 tid ->
  tc_initial_sequence c <= MAX_INITIAL_SEQUENCE -> paris6_zero (start_tracer_cfg c tgt tid) = false ->
  let '(ev, o, sf) := run (start_tracer_cfg c tgt tid) t0 is in forall x, o <> Faulted x.
Proof.
  intros H Ha Hf Hp Ht Hs Hz. destruct (cli_accept_builder _ _ _ _ _ _ tgt tid H Ha Hf Hp Ht) as [Hb Hw].
  assert (Accept (start_tracer_cfg c tgt tid)) as HA.
  { split; [|assumption]. rewrite Hb, Hz. cbn [negb]. rewrite Bool.andb_true_r. apply Z.leb_le. assumption. }
  pose proof (run_from_inv _ HA is _ (inv_new _ t0 HA)) as R. unfold run.
  destruct (run_from (start_tracer_cfg c tgt tid) (ts_new (start_tracer_cfg c tgt tid) t0) is) as [[ev o] sf].
  exact (proj2 R).
Qed.
