From TV Require Import Base.Result Core.TracerState.

Lemma upd_length {A} (l : list A) : forall i v, length (upd i v l) = length l.
Proof. induction l as [|x l IH]; intros [|i] v; cbn; auto. Qed.

Lemma nth_error_upd_eq {A} (l : list A) : forall i v, (i < length l)%nat -> nth_error (upd i v l) i = Some v.
Proof. induction l as [|x l IH]; intros [|i] v H; cbn in *; try lia; auto. apply IH. lia. Qed.

Lemma nth_error_upd_neq {A} (l : list A) : forall i j v, i <> j -> nth_error (upd i v l) j = nth_error l j.
Proof.
  induction l as [|x l IH]; intros [|i] [|j] v H; cbn; auto; try congruence.
Qed.

Lemma firstn_upd_ge {A} (l : list A) : forall n k v, (n <= k)%nat -> firstn n (upd k v l) = firstn n l.
Proof.
  induction l as [|x l IH]; intros [|n] [|k] v H; cbn; auto; try lia. f_equal. apply IH. lia.
Qed.

Lemma nth_error_repeat {A} (x : A) n i : (i < n)%nat -> nth_error (repeat x n) i = Some x.
Proof. revert i. induction n as [|n IH]; intros [|i] H; cbn; try lia; auto. apply IH. lia. Qed.

Lemma nth_error_firstn {A} (l : list A) : forall n i, (i < n)%nat -> nth_error (firstn n l) i = nth_error l i.
Proof. induction l as [|x l IH]; intros [|n] [|i] H; cbn; auto; try lia. apply IH. lia. Qed.

Lemma length_firstn_le {A} (l : list A) n : (n <= length l)%nat -> length (firstn n l) = n.
Proof. intros. rewrite firstn_length. lia. Qed.

Lemma nth_error_skipn' {A} (l : list A) : forall n i, nth_error (skipn n l) i = nth_error l (n + i).
Proof. induction l as [|x l IH]; intros [|n] i; cbn; auto. destruct i; reflexivity. Qed.

Lemma NoDup_app_single {A} (l : list A) x : NoDup l -> ~ In x l -> NoDup (l ++ [x]).
Proof.
  induction l as [|y l IH]; intros Hn Hx; cbn [app]; [constructor; [intros []|constructor]|].
  inversion Hn as [|? ? Hy Hn']; subst. constructor.
  - intros Hin. apply in_app_or in Hin. destruct Hin as [Hin|[Hin|[]]]; [contradiction|]. subst. apply Hx. left; reflexivity.
  - apply IH; [assumption|]. intros Hin. apply Hx. right; assumption.
Qed.
