(* C19: an address- / port-rewriting device (source NAT) on the path of a UDP/IPv4 probe, as a function on datagrams,
   with the UDP checksum updated INCREMENTALLY per RFC 1624 (eqn. 3: HC' = ~(~HC + ~m + m') for every 16-bit word
   m -> m' that changes: the two words of the source address through the pseudo header, the source port).
   Main facts: applied to a probe as dispatched the incremental update yields exactly the checksum a full
   recomputation over the rewritten datagram gives; two source addresses give the same checksum exactly when their
   16-bit word sums agree modulo 65535. *)
From TV Require Import Base.Result Base.Bytes Core.Types Packet.Checksum Net.RecvCommon Net.RfcPeer.
From TV Require Import Proofs.ChecksumProofs Proofs.RecvProofs.
From Coq Require Import ZifyBool.
Ltac Zify.zify_post_hook ::= Z.div_mod_to_equations.

(* ---- the device *)
Definition rfc1624 (hc m m' : Z) : Z := finalize_checksum ((65535 - hc) + (65535 - m) + m').

Definition word_at (d : list Z) (i : nat) : Z := nth i d 0 * 256 + nth (S i) d 0.
Definition set_word (i : nat) (v : Z) (d : list Z) : list Z := set_nth i (v / 256) (set_nth (S i) (v mod 256) d).
Definition addr_hi (a : addr) : Z := nth 0 a 0 * 256 + nth 1 a 0.
Definition addr_lo (a : addr) : Z := nth 2 a 0 * 256 + nth 3 a 0.

(* the UDP checksum after the three incremental updates *)
Definition snat4_checksum (a : addr) (sp' : Z) (d : list Z) : Z :=
  let ck1 := rfc1624 (word_at d 26) (word_at d 12) (addr_hi a) in
  let ck2 := rfc1624 ck1 (word_at d 14) (addr_lo a) in
  rfc1624 ck2 (word_at d 20) sp'.

(* source NAT of a UDP/IPv4 datagram without IP options: new source address [a], new source port [sp'] (the IP header
   checksum is updated the same way by a real device; a quotation shows whatever value the quoting router found,
   which the peer specification leaves arbitrary, so it is left alone here) *)
Definition snat4 (a : addr) (sp' : Z) (d : list Z) : list Z :=
  set_word 26 (snat4_checksum a sp' d) (set_word 20 sp' (set_word 14 (addr_lo a) (set_word 12 (addr_hi a) d))).

(* ---- one's-complement arithmetic *)
Lemma rfc1624_spec S m m' : 0 < S -> 0 < S - m + m' -> S < 4000000000 -> 0 <= m <= 65535 -> 0 <= m' <= 65535 ->
  rfc1624 (65535 - oc_norm S) m m' = 65535 - oc_norm (S - m + m').
Proof.
  intros HS HU Hb Hm Hm'. unfold rfc1624.
  pose proof (oc_norm_pos S HS) as Hn.
  rewrite finalize_spec by lia. f_equal.
  replace (65535 - (65535 - oc_norm S) + (65535 - m) + m') with (oc_norm S + 65535 - m + m') by lia.
  unfold oc_norm at 2. replace (S =? 0) with false by lia.
  unfold oc_norm. replace ((S - 1) mod 65535 + 1 + 65535 - m + m' =? 0) with false by lia.
  replace (S - m + m' =? 0) with false by lia. lia.
Qed.

Lemma oc_norm_eq_iff a b : 0 < a -> 0 < b -> (oc_norm a = oc_norm b <-> (a - b) mod 65535 = 0).
Proof.
  intros Ha Hb. unfold oc_norm. replace (a =? 0) with false by lia. replace (b =? 0) with false by lia. split; lia.
Qed.

(* ---- the sums behind the checksum of a dispatched probe *)
Lemma word_sum4 a0 a1 a2 a3 : word_sum [a0; a1; a2; a3] = (a0 * 256 + a1) + (a2 * 256 + a3).
Proof. unfold word_sum. cbn [sum_words]. change (0 =? -1) with false. change (0 + 1 =? -1) with false. cbn iota. lia. Qed.

Definition udp_sum (src dst : addr) (sp dp : Z) (payload : list Z) : Z :=
  word_sum src + word_sum dst + 17 + (8 + zlen payload) + sp + dp + (8 + zlen payload) + zsum (words payload).

Lemma bytes_udp_dgram sp dp payload : 0 <= sp < 65536 -> 0 <= dp < 65536 -> bytes payload -> zlen payload <= 996 ->
  bytes (udp_dgram sp dp 0 payload).
Proof.
  intros Hsp Hdp Hb Hl. unfold udp_dgram, be_bytes. unfold zlen in *.
  repeat (apply bytes_cons; split; [lia|]). exact Hb.
Qed.

Lemma udp_checksum_sum src dst sp dp payload :
  length src = 4%nat -> length dst = 4%nat -> bytes src -> bytes dst ->
  0 <= sp < 65536 -> 0 <= dp < 65536 -> bytes payload -> zlen payload <= 996 ->
  udp_ipv4_checksum (udp_dgram sp dp 0 payload) src dst = 65535 - oc_norm (udp_sum src dst sp dp payload).
Proof.
  intros Hs Hd Hbs Hbd Hsp Hdp Hb Hl. unfold udp_ipv4_checksum.
  pose proof (zlen_nonneg payload) as Hn.
  change 3 with (Z.of_nat 3).
  rewrite ip_checksum_value; try assumption; try lia.
  - unfold rfc1071. f_equal. f_equal. unfold pseudo_sum, udp_sum, udp_dgram, be_bytes, zlen in *.
    cbn [app put_word words length]. rewrite !zsum_cons. lia.
  - apply bytes_udp_dgram; assumption.
  - unfold udp_dgram, be_bytes, zlen in *. cbn [app length]. lia.
Qed.

Lemma udp_sum_bounds src dst sp dp payload :
  length src = 4%nat -> length dst = 4%nat -> bytes src -> bytes dst ->
  0 <= sp < 65536 -> 0 <= dp < 65536 -> bytes payload -> zlen payload <= 996 ->
  33 <= udp_sum src dst sp dp payload - word_sum src - sp /\ udp_sum src dst sp dp payload < 40000000 /\
  0 <= word_sum src <= 557048.
Proof.
  intros Hs Hd Hbs Hbd Hsp Hdp Hb Hl. unfold udp_sum.
  pose proof (word_sum_bound src Hbs ltac:(lia)). pose proof (word_sum_bound dst Hbd ltac:(lia)).
  pose proof (words_nonneg payload Hb). pose proof (zlen_nonneg payload).
  pose proof (sum_words_bound payload Hb 0 (-1)) as Hw. fold (word_sum payload) in Hw. rewrite word_sum_words in Hw.
  unfold zlen in *. lia.
Qed.

(* ---- the device applied to a probe as dispatched *)
Lemma snat4_probe s0 s1 s2 s3 d0 d1 d2 d3 a0 a1 a2 a3 sp' tos ttl hck ipid sp dp uck payload :
  0 <= a1 < 256 -> 0 <= a3 < 256 -> 
  let d := udp4_probe [s0; s1; s2; s3] [d0; d1; d2; d3] tos ttl hck ipid sp dp uck payload in
  snat4 [a0; a1; a2; a3] sp' d =
  udp4_probe [a0; a1; a2; a3] [d0; d1; d2; d3] tos ttl hck ipid sp' dp (snat4_checksum [a0; a1; a2; a3] sp' d) payload.
Proof.
  intros Ha1 Ha3 d. unfold snat4. generalize (snat4_checksum [a0; a1; a2; a3] sp' d). intros ck. unfold d.
  unfold set_word, set_nth, addr_hi, addr_lo, udp4_probe, ipv4_hdr, udp_dgram, be_bytes.
  cbn [app skipn firstn nth]. repeat f_equal; lia.
Qed.

(* the incremental updates of RFC 1624 give the checksum of the rewritten datagram *)
Theorem snat4_checksum_is_recomputed src dst a sp' tos ttl hck ipid sp dp payload :
  length src = 4%nat -> length dst = 4%nat -> length a = 4%nat -> bytes src -> bytes dst -> bytes a ->
  0 <= sp < 65536 -> 0 <= dp < 65536 -> 0 <= sp' < 65536 -> bytes payload -> zlen payload <= 996 ->
  let uck := udp_ipv4_checksum (udp_dgram sp dp 0 payload) src dst in
  snat4_checksum a sp' (udp4_probe src dst tos ttl hck ipid sp dp uck payload) =
  udp_ipv4_checksum (udp_dgram sp' dp 0 payload) a dst.
Proof.
  intros Hs Hd Ha Hbs Hbd Hba Hsp Hdp Hsp' Hb Hl uck.
  pose proof (udp_checksum_sum src dst sp dp payload Hs Hd Hbs Hbd Hsp Hdp Hb Hl) as E0. fold uck in E0.
  rewrite (udp_checksum_sum a dst sp' dp payload Ha Hd Hba Hbd Hsp' Hdp Hb Hl).
  pose proof (udp_sum_bounds src dst sp dp payload Hs Hd Hbs Hbd Hsp Hdp Hb Hl) as (B1 & B2 & B3).
  destruct src as [|s0 [|s1 [|s2 [|s3 [|? ?]]]]]; try discriminate Hs.
  destruct dst as [|d0 [|d1 [|d2 [|d3 [|? ?]]]]]; try discriminate Hd.
  destruct a as [|a0 [|a1 [|a2 [|a3 [|? ?]]]]]; try discriminate Ha.
  assert (Hs' : 0 <= s0 < 256 /\ 0 <= s1 < 256 /\ 0 <= s2 < 256 /\ 0 <= s3 < 256).
  { unfold bytes in Hbs. repeat (apply Forall_cons_iff in Hbs; destruct Hbs as [? Hbs]). auto. }
  assert (Ha' : 0 <= a0 < 256 /\ 0 <= a1 < 256 /\ 0 <= a2 < 256 /\ 0 <= a3 < 256).
  { unfold bytes in Hba. repeat (apply Forall_cons_iff in Hba; destruct Hba as [? Hba]). auto. }
  set (S0 := udp_sum [s0; s1; s2; s3] [d0; d1; d2; d3] sp dp payload) in *.
  assert (Hck : 0 <= uck < 65536).
  { rewrite E0. pose proof (oc_norm_range S0 ltac:(lia)). pose proof (oc_norm_pos S0 ltac:(lia)). lia. }
  unfold snat4_checksum, word_at, addr_hi, addr_lo.
  cbn [udp4_probe ipv4_hdr udp_dgram be_bytes app nth].
  replace (uck / 256 * 256 + uck mod 256) with uck by lia.
  replace (sp / 256 * 256 + sp mod 256) with sp by lia.
  rewrite word_sum4 in B1, B3.
  rewrite E0.
  rewrite (rfc1624_spec S0) by lia.
  rewrite (rfc1624_spec (S0 - (s0 * 256 + s1) + (a0 * 256 + a1))) by lia.
  rewrite (rfc1624_spec (S0 - (s0 * 256 + s1) + (a0 * 256 + a1) - (s2 * 256 + s3) + (a2 * 256 + a3))) by lia.
  f_equal. f_equal. unfold S0, udp_sum. rewrite !word_sum4. lia.
Qed.

(* when do two source addresses give the same checksum: exactly when their word sums agree modulo 65535 *)
Theorem udp_checksum_same_iff src a dst sp dp payload :
  length src = 4%nat -> length dst = 4%nat -> length a = 4%nat -> bytes src -> bytes dst -> bytes a ->
  0 <= sp < 65536 -> 0 <= dp < 65536 -> bytes payload -> zlen payload <= 996 ->
  (udp_ipv4_checksum (udp_dgram sp dp 0 payload) a dst = udp_ipv4_checksum (udp_dgram sp dp 0 payload) src dst
   <-> (word_sum a - word_sum src) mod 65535 = 0).
Proof.
  intros Hs Hd Ha Hbs Hbd Hba Hsp Hdp Hb Hl.
  rewrite (udp_checksum_sum a dst sp dp payload Ha Hd Hba Hbd Hsp Hdp Hb Hl).
  rewrite (udp_checksum_sum src dst sp dp payload Hs Hd Hbs Hbd Hsp Hdp Hb Hl).
  pose proof (udp_sum_bounds src dst sp dp payload Hs Hd Hbs Hbd Hsp Hdp Hb Hl) as (B1 & _ & B3).
  pose proof (udp_sum_bounds a dst sp dp payload Ha Hd Hba Hbd Hsp Hdp Hb Hl) as (C1 & _ & C3).
  pose proof (oc_norm_eq_iff (udp_sum a dst sp dp payload) (udp_sum src dst sp dp payload) ltac:(lia) ltac:(lia)) as Hiff.
  replace (udp_sum a dst sp dp payload - udp_sum src dst sp dp payload) with (word_sum a - word_sum src) in Hiff
    by (unfold udp_sum; lia).
  split; intros H; [apply Hiff; lia | apply Hiff in H; lia].
Qed.

(* ... and two source ports: exactly when the ports agree modulo 65535 (so, for real ports, when they are equal or
   are 0 and 65535) *)
Theorem udp_checksum_same_port_iff src dst sp sp' dp payload :
  length src = 4%nat -> length dst = 4%nat -> bytes src -> bytes dst ->
  0 <= sp < 65536 -> 0 <= sp' < 65536 -> 0 <= dp < 65536 -> bytes payload -> zlen payload <= 996 ->
  (udp_ipv4_checksum (udp_dgram sp' dp 0 payload) src dst = udp_ipv4_checksum (udp_dgram sp dp 0 payload) src dst
   <-> (sp' - sp) mod 65535 = 0).
Proof.
  intros Hs Hd Hbs Hbd Hsp Hsp' Hdp Hb Hl.
  rewrite (udp_checksum_sum src dst sp' dp payload Hs Hd Hbs Hbd Hsp' Hdp Hb Hl).
  rewrite (udp_checksum_sum src dst sp dp payload Hs Hd Hbs Hbd Hsp Hdp Hb Hl).
  pose proof (udp_sum_bounds src dst sp dp payload Hs Hd Hbs Hbd Hsp Hdp Hb Hl) as (B1 & _ & B3).
  pose proof (udp_sum_bounds src dst sp' dp payload Hs Hd Hbs Hbd Hsp' Hdp Hb Hl) as (C1 & _ & C3).
  pose proof (oc_norm_eq_iff (udp_sum src dst sp' dp payload) (udp_sum src dst sp dp payload) ltac:(lia) ltac:(lia)) as Hiff.
  replace (udp_sum src dst sp' dp payload - udp_sum src dst sp dp payload) with (sp' - sp) in Hiff
    by (unfold udp_sum; lia).
  split; intros H; [apply Hiff; lia | apply Hiff in H; lia].
Qed.

(* both at once: source address AND source port *)
Theorem udp_checksum_same_general_iff src a dst sp sp' dp payload :
  length src = 4%nat -> length dst = 4%nat -> length a = 4%nat -> bytes src -> bytes dst -> bytes a ->
  0 <= sp < 65536 -> 0 <= sp' < 65536 -> 0 <= dp < 65536 -> bytes payload -> zlen payload <= 996 ->
  (udp_ipv4_checksum (udp_dgram sp' dp 0 payload) a dst = udp_ipv4_checksum (udp_dgram sp dp 0 payload) src dst
   <-> (word_sum a + sp' - word_sum src - sp) mod 65535 = 0).
Proof.
  intros Hs Hd Ha Hbs Hbd Hba Hsp Hsp' Hdp Hb Hl.
  rewrite (udp_checksum_sum a dst sp' dp payload Ha Hd Hba Hbd Hsp' Hdp Hb Hl).
  rewrite (udp_checksum_sum src dst sp dp payload Hs Hd Hbs Hbd Hsp Hdp Hb Hl).
  pose proof (udp_sum_bounds src dst sp dp payload Hs Hd Hbs Hbd Hsp Hdp Hb Hl) as (B1 & _ & B3).
  pose proof (udp_sum_bounds a dst sp' dp payload Ha Hd Hba Hbd Hsp' Hdp Hb Hl) as (C1 & _ & C3).
  pose proof (oc_norm_eq_iff (udp_sum a dst sp' dp payload) (udp_sum src dst sp dp payload) ltac:(lia) ltac:(lia)) as Hiff.
  replace (udp_sum a dst sp' dp payload - udp_sum src dst sp dp payload) with (word_sum a + sp' - word_sum src - sp) in Hiff
    by (unfold udp_sum; lia).
  split; intros H; [apply Hiff; lia | apply Hiff in H; lia].
Qed.
