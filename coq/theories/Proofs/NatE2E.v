(* C19 end to end: a Dublin/IPv4 probe as issued by the strategy and dispatched by Net/Dispatch4.v, quoted by a
   conforming router, unrewritten or after a source-NAT device (Proofs/NatDevice.v), through the receive path
   (expected checksum recomputed by calc_udp_checksum) and ProtocolStrategyResponse::from, to the (expected, actual)
   pair the aggregator compares; then whole histories of rounds, two devices, and the per-flow passes. *)
From Coq Require Import QArith.
From TV Require Import Base.Result Base.Bytes Core.Types Core.TracerState Core.Strategy Core.Builder Core.Flows Core.State Packet.Checksum.
From TV Require Import Net.Sock Net.ChannelSend Net.SendSpec.
From TV Require Import Net.RecvCommon Net.Recv4 Net.Recv Net.RfcPeer Net.ProbeShape.
From TV Require Import Proofs.Dispatch4Proofs.
From TV Require Import Proofs.ChecksumProofs Proofs.StrategyInv Proofs.StrategyProps Proofs.IssuedProbes Proofs.RecvProofs Proofs.RecvRoundtrip
  Proofs.NatLink Proofs.WireShapes Proofs.WireE2E Proofs.NatDevice
  Proofs.FlowsProofs Proofs.StateProofs Proofs.FlowAttr Proofs.RoundFold Proofs.RoundNat.
From Coq Require Import ZifyBool.
Open Scope Z_scope.

(* ---------------------------------------------------------------- ProtocolStrategyResponse::from on a Dublin/IPv4 response *)
Lemma strategy_resp_dublin4 sc du now router code E id da sp dp tos ex ac plen m :
  multipath sc = Dublin -> is_v6 (target_addr sc) = false ->
  exists sr, strategy_resp sc (mk_err du (mk_resp_data now router (PUdp id da sp dp tos ex ac plen m)) code E) = Ok sr /\
    sr_trace_id sr = 0 /\ sr_sequence sr = id /\ sr_expected sr = Some ex /\ sr_actual sr = Some ac /\ sr_addr sr = router.
Proof.
  intros Hm Hv. destruct du; cbn; rewrite Hm, Hv; destruct (port_direction sc); cbn; eexists; repeat split; reflexivity.
Qed.

(* what the strategy stores when it completes the probe: exactly this pair *)
Lemma complete_keeps_checksums q sr : c_expected (complete q sr) = sr_expected sr /\ c_actual (complete q sr) = sr_actual sr.
Proof. split; reflexivity. Qed.

(* the conclusion shared by the byte-level statements: the response passes the acceptance test when [acc] holds, names
   the probe's sequence, and carries the pair (ex, ac) *)
Definition nat_answer (sc : scfg) (res : result (option response)) (p : probe) (from : addr) (ex ac : Z) (acc : bool) : Prop :=
  exists r sr, res = Ok (Some r) /\ validate sc (resp_data_of r) = acc /\ strategy_resp sc r = Ok sr /\
    check_trace_id sc (sr_trace_id sr) = true /\ sr_sequence sr = p_sequence p /\
    sr_expected sr = Some ex /\ sr_actual sr = Some ac /\ sr_addr sr = from.

(* ---------------------------------------------------------------- the dispatched probe, shared preamble *)
Lemma dublin4_dispatch sc cfg rc p :
  issued sc p -> proto sc = Udp -> multipath sc = Dublin -> same_trace sc cfg rc -> cfg_v4 cfg ->
  cc_privilege cfg = Privileged -> 28 <= cc_packet_size cfg <= 1024 ->
  let payload := repeat (cc_payload_pattern cfg) (Z.to_nat (cc_packet_size cfg - 28)) in
  let b := udp4_probe (cc_source cfg) (cc_target cfg) (cc_tos cfg) (p_ttl p) 0 (p_sequence p) (p_src_port p) (p_dest_port p)
             (udp4_wire_checksum cfg p payload) payload in
  run_send BoNetwork cfg [] p = (connect_ops false cfg ++ [SendTo b (cc_target cfg) (p_dest_port p)], Ok tt) /\
  is_v6 (target_addr sc) = false /\ bytes payload /\ zlen payload = cc_packet_size cfg - 28 /\
  0 <= p_src_port p < 65536 /\ 0 <= p_dest_port p < 65536 /\
  match port_direction sc with
  | FixedSrc s => s = p_src_port p
  | FixedDest d => d = p_dest_port p
  | FixedBoth s d => s = p_src_port p /\ d = p_dest_port p
  | PdNone => False
  end.
Proof.
  intros Hiss Hpr Hm [Ht Hp Hi Hrs Hrd Hrp Hrpat] Hcfg Hpriv Hsz payload b.
  pose proof Hcfg as (Hs & Hd & Hbs & Hbd & Htos & Hpat). unfold SendSpec.u8 in *.
  pose proof (issued_fields sc p Hiss) as Hf. unfold prescribed_fields in Hf. rewrite Hpr, Hm in Hf. destruct Hf as (Hfl & Hid).
  pose proof (issued_wf sc p Hiss) as (Httl & Hseq & Hidr & Hsp & Hdp). unfold SendSpec.u16 in *.
  destruct (issued_probe_data sc p Hiss) as (ts & Hpd & Hq).
  assert (Hfp : flag_paris p = false) by (unfold flag_paris; rewrite Hfl; reflexivity).
  split.
  { rewrite (run_send_udp4_raw cfg p Hcfg ltac:(congruence) Hpriv Hsz Hfp).
    rewrite udp4_datagram_shape by assumption. rewrite Hid. reflexivity. }
  split; [rewrite <- Ht; apply is_v6_len4; exact Hd|].
  split; [apply bytes_repeat; assumption|].
  split; [unfold payload; rewrite zlen_repeat; lia|].
  split; [assumption|]. split; [assumption|].
  unfold probe_data in Hpd. rewrite Hpr, Hm in Hpd.
  destruct (port_direction sc); try discriminate Hpd; inversion Hpd; auto.
Qed.

(* ---------------------------------------------------------------- no rewriting device *)
Theorem e2e_dublin4_unrewritten sc cfg rc p :
  issued sc p -> proto sc = Udp -> multipath sc = Dublin -> same_trace sc cfg rc -> cfg_v4 cfg ->
  cc_privilege cfg = Privileged -> 28 <= cc_packet_size cfg <= 1024 ->
  let payload := repeat (cc_payload_pattern cfg) (Z.to_nat (cc_packet_size cfg - 28)) in
  let ck := udp4_wire_checksum cfg p payload in
  exists b,
    run_send BoNetwork cfg [] p = (connect_ops false cfg ++ [SendTo b (cc_target cfg) (p_dest_port p)], Ok tt) /\
    RecvRoundtrip.u16 b 26 = ck /\
    forall now me peer, peer4_conforming me peer -> zlen (quote4 me peer b) <= 1024 ->
      nat_answer sc (recv4 rc now (quote4 me peer b)) p (q_router peer) ck ck true.
Proof.
  intros Hiss Hpr Hm Hsame Hcfg Hpriv Hsz payload ck.
  destruct (dublin4_dispatch sc cfg rc p Hiss Hpr Hm Hsame Hcfg Hpriv Hsz) as (Hrun & Hv4 & Hbp & Hlp & Hsp & Hdp & Hpd).
  fold payload in Hrun, Hbp, Hlp. fold ck in Hrun.
  destruct Hsame as [Ht Hp Hi Hrs Hrd Hrp Hrpat].
  pose proof Hcfg as (Hs & Hd & Hbs & Hbd & Htos & Hpat). unfold SendSpec.u8 in *.
  eexists. split; [exact Hrun|]. split.
  { destruct (len4 _ Hs) as (s0 & s1 & s2 & s3 & Es). destruct (len4 _ Hd) as (d0 & d1 & d2 & d3 & Ed).
    rewrite Es, Ed. unfold RecvRoundtrip.u16. cbn [udp4_probe ipv4_hdr udp_dgram be_bytes app nth].
    assert (0 <= ck < 65536) by (unfold ck, udp4_wire_checksum, udp_ipv4_checksum; apply Dispatch4Proofs.ip_checksum_range).
    apply be_join. }
  intros now me peer Hpeer Hlen.
  assert (Hrproto : rc_proto rc = Udp) by congruence.
  assert (Hrs4 : length (rc_src rc) = 4%nat) by (rewrite Hrs; exact Hs).
  assert (Hrd4 : length (rc_dest rc) = 4%nat) by (rewrite Hrd; exact Hd).
  set (k := cc_packet_size cfg - 28) in *.
  assert (Hpay : payload = repeat (rc_pattern rc) (Z.to_nat k)) by (rewrite Hrpat; reflexivity).
  assert (Hck : ck = udp_ipv4_checksum (udp_dgram (p_src_port p) (p_dest_port p) 0 (repeat (rc_pattern rc) (Z.to_nat k))) (rc_src rc) (rc_dest rc)).
  { unfold ck, udp4_wire_checksum. rewrite Hrs, Hrd, <- Hpay. reflexivity. }
  destruct (udp4_probe_split (cc_source cfg) (cc_target cfg) (cc_tos cfg) (p_ttl p) 0 (p_sequence p) (p_src_port p) (p_dest_port p) ck payload Hs Hd)
    as (A & HA & Hdg).
  assert (HEx : exists E, ext_result rc (q_ext peer) (ztake (q_n peer) (transit4 (q_transit peer)
                  (udp4_probe (cc_source cfg) (cc_target cfg) (cc_tos cfg) (p_ttl p) 0 (p_sequence p) (p_src_port p) (p_dest_port p) ck payload))) = Ok E).
  { apply (final_ext4 rc peer _ A (cc_payload_pattern cfg) (Z.to_nat k));
      [destruct Hpeer; assumption | exact Hdg | lia | lia | destruct Hpeer; lia | unfold k; lia]. }
  destruct HEx as [E HE].
  pose proof (unrewritten_probe_checksums_agree rc now me peer (cc_tos cfg) (p_ttl p) 0 (p_sequence p) (p_src_port p) (p_dest_port p) k E
                Hrproto Hrs4 Hrd4 (peer4_conforming_ok me peer Hpeer) ltac:(unfold k; lia)) as R.
  cbv zeta in R. rewrite <- Hck, <- Hpay, Hrs, Hrd in R. specialize (R Hlen HE).
  destruct (strategy_resp_dublin4 sc (is_du peer) now (q_router peer) (code_of peer) E (p_sequence p) (cc_target cfg)
              (p_src_port p) (p_dest_port p) (Some (t_tos (q_transit peer))) ck ck k false Hm Hv4)
    as (sr & Hsr & Htid & Hq & Hex & Hac & Haddr).
  eexists. exists sr. split; [exact R|]. split.
  { rewrite resp_data_mk_err. unfold validate. cbn [r_proto mk_resp_data]. rewrite Hm, Hv4, <- Ht, list_eqb_refl.
    unfold addr_eqb. destruct (port_direction sc); cbn [validate_ports]; try destruct Hpd; subst; rewrite ?Z.eqb_refl; reflexivity. }
  split; [exact Hsr|]. split; [rewrite Htid; apply check_trace_id_0|]. auto.
Qed.

(* ---------------------------------------------------------------- behind a source-NAT device *)
Theorem e2e_dublin4_rewritten sc cfg rc p a sp' :
  issued sc p -> proto sc = Udp -> multipath sc = Dublin -> same_trace sc cfg rc -> cfg_v4 cfg ->
  cc_privilege cfg = Privileged -> 28 <= cc_packet_size cfg <= 1024 ->
  length a = 4%nat -> bytes a -> 0 <= sp' < 65536 ->
  let payload := repeat (cc_payload_pattern cfg) (Z.to_nat (cc_packet_size cfg - 28)) in
  let ex := udp_ipv4_checksum (udp_dgram sp' (p_dest_port p) 0 payload) (cc_source cfg) (cc_target cfg) in
  let ac := udp_ipv4_checksum (udp_dgram sp' (p_dest_port p) 0 payload) a (cc_target cfg) in
  exists b,
    run_send BoNetwork cfg [] p = (connect_ops false cfg ++ [SendTo b (cc_target cfg) (p_dest_port p)], Ok tt) /\
    RecvRoundtrip.u16 (snat4 a sp' b) 26 = ac /\
    forall now me peer, peer4_conforming me peer -> zlen (quote4 me peer (snat4 a sp' b)) <= 1024 ->
      nat_answer sc (recv4 rc now (quote4 me peer (snat4 a sp' b))) p (q_router peer) ex ac
        (match port_direction sc with FixedDest _ => true | _ => p_src_port p =? sp' end).
Proof.
  intros Hiss Hpr Hm Hsame Hcfg Hpriv Hsz Ha Hba Hsp' payload ex ac.
  destruct (dublin4_dispatch sc cfg rc p Hiss Hpr Hm Hsame Hcfg Hpriv Hsz) as (Hrun & Hv4 & Hbp & Hlp & Hsp & Hdp & Hpd).
  fold payload in Hrun, Hbp, Hlp.
  destruct Hsame as [Ht Hp Hi Hrs Hrd Hrp Hrpat].
  pose proof Hcfg as (Hs & Hd & Hbs & Hbd & Htos & Hpat). unfold SendSpec.u8 in *.
  eexists. split; [exact Hrun|].
  (* the rewritten datagram is again a UDP probe datagram, from [a], port [sp'], with the recomputed checksum *)
  assert (Hshape : snat4 a sp' (udp4_probe (cc_source cfg) (cc_target cfg) (cc_tos cfg) (p_ttl p) 0 (p_sequence p) (p_src_port p) (p_dest_port p)
                                  (udp4_wire_checksum cfg p payload) payload) =
                   udp4_probe a (cc_target cfg) (cc_tos cfg) (p_ttl p) 0 (p_sequence p) sp' (p_dest_port p) ac payload).
  { pose proof (snat4_checksum_is_recomputed (cc_source cfg) (cc_target cfg) a sp' (cc_tos cfg) (p_ttl p) 0 (p_sequence p)
                  (p_src_port p) (p_dest_port p) payload Hs Hd Ha Hbs Hbd Hba Hsp Hdp Hsp' Hbp ltac:(lia)) as Hck.
    cbv zeta in Hck. fold (udp4_wire_checksum cfg p payload) in Hck. fold ac in Hck.
    destruct (len4 _ Hs) as (s0 & s1 & s2 & s3 & Es). destruct (len4 _ Hd) as (d0 & d1 & d2 & d3 & Ed).
    destruct (len4 _ Ha) as (a0 & a1 & a2 & a3 & Ea).
    rewrite Es, Ed, Ea in *.
    assert (Ha' : 0 <= a1 < 256 /\ 0 <= a3 < 256).
    { unfold bytes in Hba. repeat (apply Forall_cons_iff in Hba; destruct Hba as [? Hba]). auto. }
    rewrite snat4_probe by (apply Ha'). rewrite Hck. reflexivity. }
  rewrite Hshape. split.
  { destruct (len4 _ Ha) as (a0 & a1 & a2 & a3 & Ea). destruct (len4 _ Hd) as (d0 & d1 & d2 & d3 & Ed).
    rewrite Ea, Ed. unfold RecvRoundtrip.u16. cbn [udp4_probe ipv4_hdr udp_dgram be_bytes app nth].
    assert (0 <= ac < 65536) by (unfold ac, udp_ipv4_checksum; apply Dispatch4Proofs.ip_checksum_range).
    apply be_join. }
  intros now me peer Hpeer Hlen.
  assert (Hrproto : rc_proto rc = Udp) by congruence.
  assert (Hrd4 : length (rc_dest rc) = 4%nat) by (rewrite Hrd; exact Hd).
  set (k := cc_packet_size cfg - 28) in *.
  destruct (udp4_probe_split a (cc_target cfg) (cc_tos cfg) (p_ttl p) 0 (p_sequence p) sp' (p_dest_port p) ac payload Ha Hd)
    as (A & HA & Hdg).
  assert (HEx : exists E, ext_result rc (q_ext peer) (ztake (q_n peer) (transit4 (q_transit peer)
                  (udp4_probe a (cc_target cfg) (cc_tos cfg) (p_ttl p) 0 (p_sequence p) sp' (p_dest_port p) ac payload))) = Ok E).
  { apply (final_ext4 rc peer _ A (cc_payload_pattern cfg) (Z.to_nat k));
      [destruct Hpeer; assumption | exact Hdg | lia | lia | destruct Hpeer; lia | unfold k; lia]. }
  destruct HEx as [E HE].
  rewrite <- Hrd in Hlen, HE.
  destruct (decode_udp4_error_expected rc now me peer a (rc_dest rc) (cc_tos cfg) (p_ttl p) 0 (p_sequence p) sp' (p_dest_port p) ac payload E
              Hrproto Ha Hrd4 (peer4_conforming_ok me peer Hpeer) Hlen HE) as (ex' & Hex' & R).
  rewrite Hlp in Hex', R.
  rewrite (calc_udp_checksum4_spec rc sp' (p_dest_port p) k ltac:(unfold k; lia)) in Hex'.
  assert (Hexeq : ex' = ex).
  { inversion Hex' as [Hx]. unfold ex. rewrite Hrs, Hrd, Hrpat. reflexivity. }
  subst ex'. rewrite <- Hrd.
  destruct (strategy_resp_dublin4 sc (is_du peer) now (q_router peer) (code_of peer) E (p_sequence p) (rc_dest rc)
              sp' (p_dest_port p) (Some (t_tos (q_transit peer))) ex ac k false Hm Hv4)
    as (sr & Hsr & Htid & Hq & Hexp & Hac & Haddr).
  eexists. exists sr. split; [exact R|]. split.
  { rewrite resp_data_mk_err. unfold validate. cbn [r_proto mk_resp_data]. rewrite Hm, Hv4, Hrd, <- Ht, list_eqb_refl.
    unfold addr_eqb. destruct (port_direction sc); cbn [validate_ports]; try destruct Hpd; subst; rewrite ?Z.eqb_refl;
      cbn [andb]; rewrite ?andb_true_r; reflexivity. }
  split; [exact Hsr|]. split; [rewrite Htid; apply check_trace_id_0|]. auto.
Qed.

(* ================================================================ what the aggregator concludes from the pair *)
(* first responding hop of a round: Detected exactly when the quoted checksum differs from the RECOMPUTED one *)
Lemma first_hop_status ex ac : fst (nat_status_of ex ac None) = if ac =? ex then NatNotDetected else NatDetected.
Proof. rewrite nat_status_of_spec. reflexivity. Qed.
Lemma later_hop_status ex ac prev : fst (nat_status_of ex ac (Some prev)) = if ac =? prev then NatNotDetected else NatDetected.
Proof. rewrite nat_status_of_spec. reflexivity. Qed.

(* a device that rewrites the source address (and possibly the source port), first responding hop of the round beyond it:
   the recomputed checksum uses the CONFIGURED source address and the QUOTED source port, so the hop is marked
   Detected exactly when the word sums of the two addresses differ modulo 65535 - the port plays no role *)
Theorem rewrite_detected_at_first_hop_iff src a dst sp' dp payload :
  length src = 4%nat -> length dst = 4%nat -> length a = 4%nat -> bytes src -> bytes dst -> bytes a ->
  0 <= sp' < 65536 -> 0 <= dp < 65536 -> bytes payload -> zlen payload <= 996 ->
  let ex := udp_ipv4_checksum (udp_dgram sp' dp 0 payload) src dst in
  let ac := udp_ipv4_checksum (udp_dgram sp' dp 0 payload) a dst in
  (fst (nat_status_of ex ac None) = NatDetected <-> (word_sum a - word_sum src) mod 65535 <> 0).
Proof.
  intros Hs Hd Ha Hbs Hbd Hba Hsp' Hdp Hb Hl ex ac. rewrite first_hop_status.
  pose proof (udp_checksum_same_iff src a dst sp' dp payload Hs Hd Ha Hbs Hbd Hba Hsp' Hdp Hb Hl) as Hiff.
  fold ex ac in Hiff. destruct (ac =? ex) eqn:E.
  - apply Z.eqb_eq in E. split; [discriminate|]. intros H. exfalso. apply H. apply Hiff. exact E.
  - apply Z.eqb_neq in E. split; [|reflexivity]. intros _ H. apply E. apply Hiff. exact H.
Qed.

(* ... and when a hop before the device responded in the round (it quoted the checksum as sent, ck0): Detected exactly
   when address word sum + port changed modulo 65535 *)
Theorem rewrite_detected_after_responder_iff src a dst sp sp' dp payload ex :
  length src = 4%nat -> length dst = 4%nat -> length a = 4%nat -> bytes src -> bytes dst -> bytes a ->
  0 <= sp < 65536 -> 0 <= sp' < 65536 -> 0 <= dp < 65536 -> bytes payload -> zlen payload <= 996 ->
  let ck0 := udp_ipv4_checksum (udp_dgram sp dp 0 payload) src dst in
  let ac := udp_ipv4_checksum (udp_dgram sp' dp 0 payload) a dst in
  (fst (nat_status_of ex ac (Some ck0)) = NatDetected <-> (word_sum a + sp' - word_sum src - sp) mod 65535 <> 0).
Proof.
  intros Hs Hd Ha Hbs Hbd Hba Hsp Hsp' Hdp Hb Hl ck0 ac. rewrite later_hop_status.
  pose proof (udp_checksum_same_general_iff src a dst sp sp' dp payload Hs Hd Ha Hbs Hbd Hba Hsp Hsp' Hdp Hb Hl) as Hiff.
  fold ck0 ac in Hiff. destruct (ac =? ck0) eqn:E.
  - apply Z.eqb_eq in E. split; [discriminate|]. intros H. exfalso. apply H. apply Hiff. exact E.
  - apply Z.eqb_neq in E. split; [|reflexivity]. intros _ H. apply E. apply Hiff. exact H.
Qed.

(* a device that rewrites ONLY the source port, first responding hop of the round beyond it: the quoted checksum differs
   from the checksum of the probe as sent (unless the ports agree modulo 65535), but the recomputed checksum follows the
   quoted port, so expected = actual and the hop is NOT marked *)
Theorem port_only_rewrite_invisible_at_first_hop src dst sp sp' dp payload :
  length src = 4%nat -> length dst = 4%nat -> bytes src -> bytes dst ->
  0 <= sp < 65536 -> 0 <= sp' < 65536 -> 0 <= dp < 65536 -> bytes payload -> zlen payload <= 996 ->
  let sent := udp_ipv4_checksum (udp_dgram sp dp 0 payload) src dst in
  let ex := udp_ipv4_checksum (udp_dgram sp' dp 0 payload) src dst in
  let ac := udp_ipv4_checksum (udp_dgram sp' dp 0 payload) src dst in
  fst (nat_status_of ex ac None) = NatNotDetected /\ (ac <> sent <-> (sp' - sp) mod 65535 <> 0).
Proof.
  intros Hs Hd Hbs Hbd Hsp Hsp' Hdp Hb Hl sent ex ac. split.
  - rewrite first_hop_status. unfold ac, ex. rewrite Z.eqb_refl. reflexivity.
  - pose proof (udp_checksum_same_port_iff src dst sp sp' dp payload Hs Hd Hbs Hbd Hsp Hsp' Hdp Hb Hl) as Hiff.
    fold sent ac in Hiff. split; intros H X; apply H; apply Hiff; exact X.
Qed.

(* ================================================================ whole histories *)
Lemma nat_at_key_indep l t : In t (map fst l) -> forall o1 o2, nat_at l t o1 = nat_at l t o2.
Proof.
  induction l as [|x l IH]; intros Hin o1 o2; [destruct Hin|].
  unfold nat_at. cbn [fold_left]. destruct (fst x =? t) eqn:E; [reflexivity|].
  cbn [map] in Hin. destruct Hin as [Hx|Hin]; [lia|]. exact (IH Hin o1 o2).
Qed.

(* a round of a path without rewriting: every responding probe carries the same value twice *)
Definition unrewritten_round (r : round_rec) : Prop :=
  exists e0, Forall (fun ea => fst ea = e0 /\ snd ea = e0) (responders (rr_probes r)).

Lemma nat_at_unrewritten r t old : unrewritten_round r -> old <> NatDetected ->
  nat_at (round_nat (rr_probes r)) t old <> NatDetected.
Proof.
  intros (e0 & Hall) Hold. destruct (in_dec Z.eq_dec t (resp_ttls (rr_probes r))) as [Hin|Hn].
  - rewrite (round_nat_no_rewrite (rr_probes r) e0 t old Hall Hin). discriminate.
  - rewrite round_nat_silent by exact Hn. exact Hold.
Qed.

Theorem rounds_nat_unrewritten : forall rs t old, Forall unrewritten_round rs -> old <> NatDetected ->
  rounds_nat rs t old <> NatDetected.
Proof.
  induction rs as [|r rs IH]; intros t old Hall Hold; [exact Hold|].
  unfold rounds_nat. cbn [fold_left]. fold (rounds_nat rs t (nat_at (round_nat (rr_probes r)) t old)).
  apply IH; [exact (Forall_inv_tail Hall)|]. apply nat_at_unrewritten; [exact (Forall_inv Hall) | exact Hold].
Qed.

Theorem fs_run_unrewritten f rs f' : Forall unrewritten_round rs -> fs_run f rs = Ok f' ->
  (forall i h, nth_error (fs_hops f) i = Some h -> h_last_nat h <> NatDetected) ->
  forall i h, nth_error (fs_hops f') i = Some h -> h_last_nat h <> NatDetected.
Proof.
  intros Hall H Hold i h Hh. pose proof (fs_run_nat rs f f' H i) as N. rewrite Hh in N. cbn [option_map] in N.
  destruct (nth_error (fs_hops f) i) as [h0|] eqn:E0; cbn [option_map] in N; [|discriminate].
  inversion N as [N']. rewrite N'. apply rounds_nat_unrewritten; [exact Hall | exact (Hold i h0 E0)].
Qed.

Lemma flow_rounds_forall (P : round_rec -> Prop) id : forall rs s, Forall P rs -> Forall P (flow_rounds id s rs).
Proof.
  induction rs as [|r t IH]; intros s H; cbn [flow_rounds]; [constructor|].
  apply Forall_app. split.
  - destruct (selects id s r); [constructor; [exact (Forall_inv H)|constructor]|constructor].
  - destruct (update_from_round s r); [apply IH; exact (Forall_inv_tail H)|constructor|constructor].
Qed.

(* the whole aggregator, every flow, any number of rounds: a path without rewriting never shows Detected anywhere *)
Theorem st_run_unrewritten ms mf rs s' id : st_run (state_new ms mf) rs = Ok s' -> Forall unrewritten_round rs ->
  forall i h, nth_error (fs_hops (flow_or_new s' id)) i = Some h -> h_last_nat h <> NatDetected.
Proof.
  intros H Hall.
  assert (Hcap : Z.of_nat (length (reg_flows (st_registry (state_new ms mf)))) <= Z.max 0 (st_max_flows (state_new ms mf)))
    by (cbn; lia).
  pose proof (flows_are_their_rounds rs (state_new ms mf) s' id dense_new Hcap H) as R.
  rewrite flow_or_new_state_new in R.
  apply (fs_run_unrewritten (flow_state_new ms) _ _ (flow_rounds_forall _ id rs _ Hall) R).
  intros i h Hh. cbn [flow_state_new fs_hops] in Hh. apply nth_error_In, repeat_spec in Hh. subst h. discriminate.
Qed.

(* ---------------------------------------------------------------- one device: the closed form, with the expected values
   beyond the device left arbitrary (they are recomputed from the quoted, possibly rewritten, port) *)
Lemma repeat_of_forall {A} (x : A) l : Forall (fun s => s = x) l -> l = repeat x (length l).
Proof. induction 1 as [|y l Hy _ IH]; [reflexivity|]. cbn [length repeat]. rewrite Hy, <- IH. reflexivity. Qed.

Lemma nat_spec_constant a : forall l, Forall (fun ea => snd ea = a) l ->
  nat_spec (Some a) l = repeat NatNotDetected (length l).
Proof.
  induction l as [|[e x] l IH]; intros H; [reflexivity|].
  pose proof (Forall_inv H) as Hx. cbn in Hx. subst x. cbn [nat_spec length repeat nat_reference].
  rewrite Z.eqb_refl. f_equal. apply IH. exact (Forall_inv_tail H).
Qed.

(* the statuses of a segment of responding hops that all quote [a], entered with reference [ref] *)
Definition seg_status (ref a : Z) (n : nat) : list nat_status :=
  match n with O => [] | S m => (if a =? ref then NatNotDetected else NatDetected) :: repeat NatNotDetected m end.

Lemma nat_spec_segment prev a l : Forall (fun ea => snd ea = a) l ->
  nat_spec prev l = match l with [] => [] | (e, _) :: r => seg_status (nat_reference e prev) a (length l) end.
Proof.
  intros H. destruct l as [|[e x] r]; [reflexivity|].
  pose proof (Forall_inv H) as Hx. cbn in Hx. subst x. cbn [nat_spec length seg_status].
  rewrite (nat_spec_constant a r (Forall_inv_tail H)). reflexivity.
Qed.

Lemma last_in {A} (d : A) : forall l, l <> [] -> In (last l d) l.
Proof.
  induction l as [|x l IH]; intros H; [congruence|]. destruct l as [|y l]; [left; reflexivity|].
  right. apply IH. discriminate.
Qed.

Lemma carried_const e0 l : l <> [] -> Forall (fun ea : Z * Z => fst ea = e0 /\ snd ea = e0) l -> carried l = Some e0.
Proof.
  intros Hne H. unfold carried. destruct l as [|x l]; [congruence|]. f_equal.
  assert (Hl : In (last (x :: l) (0, 0)) (x :: l)) by (apply last_in; discriminate).
  rewrite Forall_forall in H. exact (proj2 (H _ Hl)).
Qed.

Lemma carried_const_snd a l : l <> [] -> Forall (fun ea : Z * Z => snd ea = a) l -> carried l = Some a.
Proof.
  intros Hne H. unfold carried. destruct l as [|x l]; [congruence|]. f_equal.
  assert (Hl : In (last (x :: l) (0, 0)) (x :: l)) by (apply last_in; discriminate).
  rewrite Forall_forall in H. exact (H _ Hl).
Qed.

(* [before]: hops in front of the device (quote e0, recompute e0); [after]: hops at or beyond it (all quote a1);
   when no hop in front of the device responds, e0 is what the first responding hop recomputes *)
Theorem nat_single_rewrite_gen before after e0 a1 : a1 <> e0 ->
  Forall (fun ea => fst ea = e0 /\ snd ea = e0) before ->
  Forall (fun ea => snd ea = a1) after ->
  (before = [] -> match after with [] => True | ea :: _ => fst ea = e0 end) ->
  nat_spec None (before ++ after) =
    repeat NatNotDetected (length before) ++
    match after with [] => [] | _ :: r => NatDetected :: repeat NatNotDetected (length r) end.
Proof.
  intros Hne Hb Ha Hfirst. rewrite nat_spec_app. f_equal.
  - pose proof (repeat_of_forall NatNotDetected _ (nat_no_rewrite before None e0 Hb (or_introl eq_refl))) as Hr.
    rewrite nat_spec_length in Hr. exact Hr.
  - rewrite (nat_spec_segment _ a1 after Ha). destruct after as [|[e x] r]; [reflexivity|].
    cbn [length seg_status]. destruct before as [|b0 bs].
    + cbn [carried nat_reference]. specialize (Hfirst eq_refl). cbn in Hfirst. subst e.
      replace (a1 =? e0) with false by lia. reflexivity.
    + rewrite (carried_const e0 (b0 :: bs) ltac:(discriminate) Hb). cbn [nat_reference].
      replace (a1 =? e0) with false by lia. reflexivity.
Qed.

(* ---------------------------------------------------------------- two devices *)
(* [before] (non-empty): hops in front of the first device; [mid]: between the two (all quote a1); [after]: beyond the
   second (all quote a2).  Each segment shows at most one mark, at its first hop, by comparison with what the previous
   segment quoted; with no responding hop between the devices the two collapse into one comparison a2 vs e0 *)
Theorem nat_two_rewrites before mid after e0 a1 a2 : before <> [] ->
  Forall (fun ea => fst ea = e0 /\ snd ea = e0) before ->
  Forall (fun ea => snd ea = a1) mid -> Forall (fun ea => snd ea = a2) after ->
  nat_spec None (before ++ mid ++ after) =
    repeat NatNotDetected (length before) ++ seg_status e0 a1 (length mid)
      ++ seg_status (match mid with [] => e0 | _ => a1 end) a2 (length after).
Proof.
  intros Hne Hb Hm Ha. rewrite nat_spec_app, nat_spec_app. f_equal; [|f_equal].
  - pose proof (repeat_of_forall NatNotDetected _ (nat_no_rewrite before None e0 Hb (or_introl eq_refl))) as Hr.
    rewrite nat_spec_length in Hr. exact Hr.
  - rewrite (carried_const e0 before Hne Hb). rewrite (nat_spec_segment _ a1 mid Hm).
    destruct mid as [|[e x] r]; reflexivity.
  - rewrite (carried_const e0 before Hne Hb). rewrite (nat_spec_segment _ a2 after Ha).
    destruct after as [|[e x] r]; [reflexivity|].
    destruct mid as [|m0 ms]; [reflexivity|].
    rewrite (carried_const_snd a1 (m0 :: ms) ltac:(discriminate) Hm). reflexivity.
Qed.

(* ---------------------------------------------------------------- one device, any number of rounds: the mark stays on one hop *)
(* a round in which the first responding probe at or beyond the (single) device sits at distance t0 *)
Definition single_nat_round (t0 : Z) (r : round_rec) : Prop :=
  NoDup (resp_ttls (rr_probes r)) /\
  exists before after e0 a1, a1 <> e0 /\ responders (rr_probes r) = before ++ after /\
    Forall (fun ea => fst ea = e0 /\ snd ea = e0) before /\ Forall (fun ea => snd ea = a1) after /\
    (before = [] -> match after with [] => True | ea :: _ => fst ea = e0 end) /\
    nth_error (resp_ttls (rr_probes r)) (length before) = Some t0.

Lemma single_nat_round_at r t0 t old : single_nat_round t0 r ->
  nat_at (round_nat (rr_probes r)) t old =
  if t =? t0 then NatDetected else if in_dec Z.eq_dec t (resp_ttls (rr_probes r)) then NatNotDetected else old.
Proof.
  intros (Hnd & before & after & e0 & a1 & Hne & Hr & Hb & Ha & Hfirst & Ht0).
  assert (Hspec := nat_single_rewrite_gen before after e0 a1 Hne Hb Ha Hfirst).
  assert (Hlen : length (resp_ttls (rr_probes r)) = (length before + length after)%nat)
    by (rewrite resp_ttls_length, Hr, app_length; reflexivity).
  assert (Hafter : after <> []).
  { intros ->. assert (Hlt : (length before < length (resp_ttls (rr_probes r)))%nat) by (apply nth_error_Some; congruence).
    cbn [length] in Hlen. lia. }
  assert (Hj : forall j x, nth_error (resp_ttls (rr_probes r)) j = Some x ->
               nat_at (round_nat (rr_probes r)) x old = if (j =? length before)%nat then NatDetected else NatNotDetected).
  { intros j x Hx. rewrite (round_nat_nth (rr_probes r) j x old Hnd Hx), Hr, Hspec.
    assert (Hlt : (j < length before + length after)%nat) by (rewrite <- Hlen; apply nth_error_Some; congruence).
    destruct after as [|a0 ar]; [congruence|]. cbn [length] in Hlt.
    destruct (Nat.eqb_spec j (length before)) as [->|Hneq].
    - rewrite app_nth2 by (rewrite repeat_length; lia). rewrite repeat_length, Nat.sub_diag. reflexivity.
    - destruct (Nat.lt_ge_cases j (length before)) as [Hl|Hl].
      + rewrite app_nth1 by (rewrite repeat_length; assumption). apply nth_repeat_lt. assumption.
      + rewrite app_nth2 by (rewrite repeat_length; lia). rewrite repeat_length.
        destruct (j - length before)%nat as [|m] eqn:Em; [lia|]. cbn [nth]. apply nth_repeat_lt. lia. }
  destruct (Z.eqb_spec t t0) as [->|Hneq].
  - rewrite (Hj _ _ Ht0), Nat.eqb_refl. reflexivity.
  - destruct (in_dec Z.eq_dec t (resp_ttls (rr_probes r))) as [Hin|Hn].
    + destruct (In_nth_error _ _ Hin) as [j Hjt]. rewrite (Hj j t Hjt).
      destruct (Nat.eqb_spec j (length before)) as [->|_]; [congruence|reflexivity].
    + apply round_nat_silent. exact Hn.
Qed.

(* after any non-empty history of such rounds: hop t0 is Detected; every other hop is never Detected (NotDetected once
   it has responded, its initial status otherwise) *)
Theorem rounds_nat_single_device : forall rs t0, Forall (single_nat_round t0) rs ->
  (rs <> [] -> forall old, rounds_nat rs t0 old = NatDetected) /\
  (forall t old, t <> t0 -> old <> NatDetected -> rounds_nat rs t old <> NatDetected).
Proof.
  intros rs t0 Hall. split.
  - intros Hne. induction rs as [|r rs IH] using rev_ind; [congruence|]. intros old.
    unfold rounds_nat. rewrite fold_left_app. cbn [fold_left].
    apply Forall_app in Hall. destruct Hall as [_ Hr]. rewrite (single_nat_round_at r t0 t0 _ (Forall_inv Hr)), Z.eqb_refl. reflexivity.
  - induction Hall as [|r rs Hr _ IH]; intros t old Hneq Hold; [exact Hold|].
    unfold rounds_nat. cbn [fold_left]. fold (rounds_nat rs t (nat_at (round_nat (rr_probes r)) t old)).
    apply IH; [exact Hneq|]. rewrite (single_nat_round_at r t0 t old Hr).
    destruct (Z.eqb_spec t t0); [congruence|]. destruct (in_dec Z.eq_dec t (resp_ttls (rr_probes r))); [discriminate|exact Hold].
Qed.

Theorem fs_run_single_device ms rs f' t0 : Forall (single_nat_round t0) rs -> rs <> [] ->
  fs_run (flow_state_new ms) rs = Ok f' ->
  forall i h, nth_error (fs_hops f') i = Some h ->
    if Z.of_nat i + 1 =? t0 then h_last_nat h = NatDetected else h_last_nat h <> NatDetected.
Proof.
  intros Hall Hne H i h Hh. pose proof (fs_run_nat rs _ f' H i) as N. rewrite Hh in N. cbn [option_map] in N.
  cbn [flow_state_new fs_hops] in N.
  destruct (nth_error (repeat hop_default MAX_TTL_N) i) as [h0|] eqn:E0; cbn [option_map] in N; [|discriminate].
  apply nth_error_In, repeat_spec in E0. subst h0. inversion N as [N']. cbn [hop_default h_last_nat] in N'.
  destruct (rounds_nat_single_device rs t0 Hall) as [HD HN].
  destruct (Z.eqb_spec (Z.of_nat i + 1) t0) as [E|E].
  - rewrite N', E. apply HD. exact Hne.
  - rewrite N'. apply HN; [exact E|discriminate].
Qed.

(* ================================================================ the per-flow passes *)
(* StateUpdater::new for one pass over one flow: the round counters are advanced, nothing is carried *)
Definition pass_start (f : flow_state) (r : round_rec) : updater :=
  {| u_fs := {| fs_max_samples := fs_max_samples f; fs_lowest_ttl := fs_lowest_ttl f;
                fs_highest_ttl := Z.max (fs_highest_ttl f) (rr_largest_ttl r);
                fs_highest_ttl_for_round := rr_largest_ttl r; fs_round := fs_round f;
                fs_round_count := fs_round_count f + 1; fs_hops := fs_hops f |};
     u_prev_cksum := None; u_fwd_loss := false |}.

(* every flow a round goes to (the default flow 0 and the flow it is attributed to) is updated by its own pass of
   fold_probes that starts with NO carried checksum and ends carrying the last quoted one; no pass sees another's carry *)
Theorem each_pass_starts_from_none s r s' id : dense (st_registry s) -> update_from_round s r = Ok s' ->
  selects id s r = true ->
  u_prev_cksum (pass_start (flow_or_new s id) r) = None /\
  exists u, fold_probes (rr_probes r) (pass_start (flow_or_new s id) r) (rr_probes r) = Ok u /\
            flow_or_new s' id = u_fs u /\ u_prev_cksum u = carried (responders (rr_probes r)).
Proof.
  intros Hd H Hsel. split; [reflexivity|].
  destruct (update_from_round_per_flow s r s' id Hd H) as [_ Hpass]. rewrite Hsel in Hpass.
  unfold fs_apply in Hpass. fold (pass_start (flow_or_new s id) r) in Hpass.
  destruct (fold_probes (rr_probes r) (pass_start (flow_or_new s id) r) (rr_probes r)) as [u|?|?] eqn:E; cbn [bind] in Hpass; try discriminate.
  exists u. split; [reflexivity|]. split; [inversion Hpass; reflexivity|].
  destruct (fold_probes_events (rr_probes r) (rr_probes r) [] _ u eq_refl E eq_refl eq_refl) as (_ & _ & Hc & _). exact Hc.
Qed.

(* hence the table of the flow a round is attributed to agrees with the default flow on every hop that responded in the round *)
Theorem flows_agree_on_round s r s' id i h h0 : dense (st_registry s) -> update_from_round s r = Ok s' ->
  selects id s r = true -> In (Z.of_nat i + 1) (resp_ttls (rr_probes r)) ->
  nth_error (fs_hops (flow_or_new s' id)) i = Some h -> nth_error (fs_hops (flow_or_new s' 0)) i = Some h0 ->
  h_last_nat h = h_last_nat h0.
Proof.
  intros Hd H Hsel Hin Hh Hh0.
  pose proof (update_from_round_nat s r s' id Hd H) as N. rewrite Hsel in N. specialize (N i). rewrite Hh in N.
  pose proof (update_from_round_nat s r s' 0 Hd H) as N0. change (selects 0 s r) with true in N0. specialize (N0 i). rewrite Hh0 in N0.
  cbn [option_map] in N, N0.
  destruct (nth_error (fs_hops (flow_or_new s id)) i) as [g|]; cbn [option_map] in N; [|discriminate].
  destruct (nth_error (fs_hops (flow_or_new s 0)) i) as [g0|]; cbn [option_map] in N0; [|discriminate].
  inversion N as [N']. inversion N0 as [N0']. rewrite N', N0'.
  apply nat_at_key_indep. rewrite round_nat_keys. exact Hin.
Qed.

(* ================================================================ concrete instances *)
Definition nat_peer : peer := {| q_router := [10; 0; 0; 9]; q_unreach := None; q_n := 28; q_transit := {| t_ttl := 1; t_tos := 0; t_ck := 4660 |};
     q_ext := XNone; q_icmp_ck := 0; q_u1 := 0; q_u2 := 0; q_u3 := 0;
     q_o_tos := 192; q_o_id := 7; q_o_flags := 0; q_o_ttl := 250; q_o_ck := 0; q_o_opts := [] |}.

Lemma nat_peer_conforming : peer4_conforming [10; 0; 0; 1] nat_peer.
Proof. constructor; cbn; try reflexivity; try lia; try exact I. Qed.

(* Dublin, fixed destination port: the source port is the per-round port, so a response with a rewritten source port
   still passes Strategy::validate *)
Definition nat_sc : scfg := {| target_addr := [10; 0; 0; 2]; proto := Udp; trace_identifier := 4660; max_rounds := Some 3;
  first_ttl := 1; max_ttl := 30; grace_duration := 0; max_inflight := 24; initial_sequence := 33434; multipath := Dublin;
  port_direction := FixedDest 33434; min_round_duration := 0; max_round_duration := 1000000 |}.
Definition nat_p : probe := {| p_sequence := 33434; p_identifier := 33434; p_src_port := 33434; p_dest_port := 33434;
  p_ttl := 1; p_round := 0; p_sent := 7; p_flags := 2 |}.

Lemma nat_issued : issued nat_sc nat_p.
Proof.
  split. { split; [reflexivity|]. unfold cfg_wf, Builder.u8, Builder.u16. cbn. unfold Builder.u16. lia. }
  exists (ts_new nat_sc 0), ex_iter. eexists. eexists. eexists.
  split; [apply reach_init|]. split; [vm_compute; reflexivity|]. left. reflexivity.
Qed.

Lemma nat_same : same_trace nat_sc ex_cfg4 ex_rc4.
Proof. constructor; reflexivity. Qed.

(* the conclusion of the three refutations / examples, for a datagram d quoted by nat_peer:
   the response is accepted, names sequence 33434, carries (ex, ac), and the quoted checksum is [ac] *)
Definition nat_outcome (d : list Z) (ex ac : Z) : Prop :=
  nat_answer nat_sc (recv4 ex_rc4 0 (quote4 [10; 0; 0; 1] nat_peer d)) nat_p [10; 0; 0; 9] ex ac true.

Ltac nat_compute := eexists; eexists; split; [vm_compute; reflexivity|]; split; [reflexivity|];
  split; [vm_compute; reflexivity|]; repeat split; reflexivity.

(* FALSE on the code: "the first responding hop is marked exactly when the checksum it quotes differs from the checksum of
   the probe as sent".  A device that rewrites only the source port (33434 -> 40000, checksum updated per RFC 1624)
   in front of the first responding hop: the hop quotes 52368, the probe left with 58934, and the hop is NOT marked,
   because calc_udp_checksum recomputes the expected value from the QUOTED port *)
Theorem port_only_rewrite_refuted :
  issued nat_sc nat_p /\ same_trace nat_sc ex_cfg4 ex_rc4 /\ peer4_conforming [10; 0; 0; 1] nat_peer /\
  exists b, run_send BoNetwork ex_cfg4 [] nat_p = (connect_ops false ex_cfg4 ++ [SendTo b [10; 0; 0; 2] 33434], Ok tt) /\
    RecvRoundtrip.u16 b 26 = 58934 /\
    RecvRoundtrip.u16 (snat4 [10; 0; 0; 1] 40000 b) 26 = 52368 /\
    nat_outcome (snat4 [10; 0; 0; 1] 40000 b) 52368 52368 /\
    fst (nat_status_of 52368 52368 None) = NatNotDetected.
Proof.
  split; [exact nat_issued|]. split; [exact nat_same|]. split; [exact nat_peer_conforming|].
  eexists. split; [vm_compute; reflexivity|]. split; [vm_compute; reflexivity|]. split; [vm_compute; reflexivity|].
  split; [|reflexivity]. unfold nat_outcome, nat_answer. nat_compute.
Qed.

(* FALSE on the code: "a single rewriting device shows NAT at the first responding hop at or beyond it".  A device that
   rewrites the source address 10.0.0.1 into 0.1.10.0 (same 16-bit word sum): the incrementally updated checksum is
   unchanged, every hop beyond it quotes 58934 = the checksum as sent = the recomputed one: no hop is ever marked,
   neither as first responding hop nor after a responding hop in front of the device *)
Theorem sum_preserving_rewrite_refuted :
  issued nat_sc nat_p /\ same_trace nat_sc ex_cfg4 ex_rc4 /\ peer4_conforming [10; 0; 0; 1] nat_peer /\
  exists b, run_send BoNetwork ex_cfg4 [] nat_p = (connect_ops false ex_cfg4 ++ [SendTo b [10; 0; 0; 2] 33434], Ok tt) /\
    RecvRoundtrip.u16 b 26 = 58934 /\
    firstn 4 (skipn 12 (snat4 [0; 1; 10; 0] 33434 b)) = [0; 1; 10; 0] /\
    nat_outcome (snat4 [0; 1; 10; 0] 33434 b) 58934 58934 /\
    fst (nat_status_of 58934 58934 None) = NatNotDetected /\ fst (nat_status_of 58934 58934 (Some 58934)) = NatNotDetected.
Proof.
  split; [exact nat_issued|]. split; [exact nat_same|]. split; [exact nat_peer_conforming|].
  eexists. split; [vm_compute; reflexivity|]. split; [vm_compute; reflexivity|]. split; [vm_compute; reflexivity|].
  split; [|split; reflexivity]. unfold nat_outcome, nat_answer. nat_compute.
Qed.

(* the ordinary case for comparison: 10.0.0.1 -> 192.0.2.1 is marked at the first responding hop *)
Example address_rewrite_example :
  exists b, run_send BoNetwork ex_cfg4 [] nat_p = (connect_ops false ex_cfg4 ++ [SendTo b [10; 0; 0; 2] 33434], Ok tt) /\
    nat_outcome b 58934 58934 /\ nat_outcome (snat4 [192; 0; 2; 1] 33434 b) 58934 11830 /\
    fst (nat_status_of 58934 11830 None) = NatDetected /\ (word_sum [192; 0; 2; 1] - word_sum [10; 0; 0; 1]) mod 65535 <> 0.
Proof.
  eexists. split; [vm_compute; reflexivity|]. split; [unfold nat_outcome, nat_answer; nat_compute|].
  split; [unfold nat_outcome, nat_answer; nat_compute|]. split; [reflexivity|]. vm_compute. discriminate.
Qed.

(* the computed-zero case: initial sequence 55267 with source port 5000 makes the UDP checksum of the first probe of round 0
   come out as 0; the dispatch transmits 0, the receive path recomputes 0: not marked *)
Definition zero_sc : scfg := {| target_addr := [10; 0; 0; 2]; proto := Udp; trace_identifier := 4660; max_rounds := Some 3;
  first_ttl := 1; max_ttl := 30; grace_duration := 0; max_inflight := 24; initial_sequence := 55267; multipath := Dublin;
  port_direction := FixedSrc 5000; min_round_duration := 0; max_round_duration := 1000000 |}.
Definition zero_cfg : chan_cfg := {| cc_privilege := Privileged; cc_protocol := Udp; cc_source := [10; 0; 0; 1]; cc_target := [10; 0; 0; 2];
  cc_packet_size := 84; cc_payload_pattern := 0; cc_initial_sequence := 55267; cc_tos := 0 |}.
Definition zero_p : probe := {| p_sequence := 55267; p_identifier := 55267; p_src_port := 5000; p_dest_port := 55267;
  p_ttl := 1; p_round := 0; p_sent := 7; p_flags := 2 |}.

Example computed_zero_example :
  issued zero_sc zero_p /\ same_trace zero_sc zero_cfg ex_rc4 /\ cfg_v4 zero_cfg /\
  udp4_wire_checksum zero_cfg zero_p (repeat 0 56) = 0 /\
  exists b, run_send BoNetwork zero_cfg [] zero_p = (connect_ops false zero_cfg ++ [SendTo b [10; 0; 0; 2] 55267], Ok tt) /\
    RecvRoundtrip.u16 b 26 = 0 /\
    nat_answer zero_sc (recv4 ex_rc4 0 (quote4 [10; 0; 0; 1] nat_peer b)) zero_p [10; 0; 0; 9] 0 0 true /\
    fst (nat_status_of 0 0 None) = NatNotDetected.
Proof.
  split.
  { split. { split; [reflexivity|]. unfold cfg_wf, Builder.u8, Builder.u16. cbn. unfold Builder.u16. lia. }
    exists (ts_new zero_sc 0), ex_iter. eexists. eexists. eexists.
    split; [apply reach_init|]. split; [vm_compute; reflexivity|]. left. reflexivity. }
  split; [constructor; reflexivity|].
  split. { unfold cfg_v4, SendSpec.u8, bytes. cbn. repeat split; try lia; repeat constructor; lia. }
  split; [vm_compute; reflexivity|].
  eexists. split; [vm_compute; reflexivity|]. split; [vm_compute; reflexivity|].
  split; [|reflexivity]. unfold nat_answer. nat_compute.
Qed.

(* within one round all Dublin probes leave with the same UDP checksum (ports are a function of the round; the IP
   identification, which differs, is not covered by it): the e0 of [unrewritten_round] / [single_nat_round] *)
Theorem same_round_same_checksum sc cfg p1 p2 payload :
  issued sc p1 -> issued sc p2 -> proto sc = Udp -> multipath sc = Dublin -> p_round p1 = p_round p2 ->
  udp4_wire_checksum cfg p1 payload = udp4_wire_checksum cfg p2 payload.
Proof.
  intros H1 H2 Hpr Hm Hr.
  pose proof (issued_round_ports sc p1 H1 Hpr ltac:(congruence)) as E1.
  pose proof (issued_round_ports sc p2 H2 Hpr ltac:(congruence)) as E2.
  rewrite Hr, <- E2 in E1. inversion E1 as [[Esp Edp]]. unfold udp4_wire_checksum. rewrite Esp, Edp. reflexivity.
Qed.

(* the mark follows the FIRST RESPONDING hop beyond the device round by round: when that hop is silent in a later round
   the next responding hop is marked too, and the earlier mark stays (hop statuses are only overwritten by a response) *)
Example mark_moves_with_loss_example :
  let pr t := {| p_sequence := 33000 + t; p_identifier := 0; p_src_port := 0; p_dest_port := 0; p_ttl := t; p_round := 0; p_sent := 0; p_flags := 0 |} in
  let c t e a := Complete {| c_probe := pr t; c_host := [10;0;0;t]; c_received := 1000; c_icmp := ITimeExceeded 0; c_tos := None; c_expected := Some e; c_actual := Some a; c_exts := None |} in
  let r1 := {| rr_probes := [c 1 7 7; c 2 7 9; c 3 7 9]; rr_largest_ttl := 3; rr_reason := RoundTimeLimitExceeded |} in
  let r2 := {| rr_probes := [c 1 7 7; Awaited (pr 2); c 3 7 9]; rr_largest_ttl := 3; rr_reason := RoundTimeLimitExceeded |} in
  single_nat_round 2 r1 /\ single_nat_round 3 r2 /\
  match fs_run (flow_state_new 10) [r1; r2] with
  | Ok f => map h_last_nat (firstn 3 (fs_hops f)) = [NatNotDetected; NatDetected; NatDetected]
  | _ => False
  end.
Proof.
  cbv zeta. split; [|split].
  - split; [cbn; repeat (constructor; [cbn; lia|]); constructor|].
    exists [(7, 7)], [(7, 9); (7, 9)], 7, 9. repeat split; try reflexivity; try lia; repeat constructor; try discriminate.
  - split; [cbn; repeat (constructor; [cbn; lia|]); constructor|].
    exists [(7, 7)], [(7, 9)], 7, 9. repeat split; try reflexivity; try lia; repeat constructor; try discriminate.
  - vm_compute. reflexivity.
Qed.
