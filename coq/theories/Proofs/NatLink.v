(* C19, the byte-level link: for a Dublin/IPv4 probe that crosses NO address- or port-rewriting device, the
   checksum the receive path recomputes from the quoted ports / length / configured pattern (expected) equals the
   checksum quoted back (actual), whatever the router did to TTL / TOS / header checksum and however much it
   quoted - so the first responding hop reports NotDetected and nothing is carried forward. *)
From TV Require Import Base.Result Base.Bytes Core.Types Packet.Checksum
  Net.RecvCommon Net.Recv4 Net.Recv Net.RfcPeer Proofs.RecvProofs Proofs.RecvRoundtrip.

(* calc_udp_checksum recomputes exactly the checksum of the UDP datagram [ports, length, pattern payload] between
   the configured addresses *)
Lemma calc_udp_checksum4_spec c sp dp k : 0 <= k <= 996 ->
  calc_udp_checksum4 c sp dp k =
  Ok (udp_ipv4_checksum (udp_dgram sp dp 0 (repeat (rc_pattern c) (Z.to_nat k))) (rc_src c) (rc_dest c)).
Proof.
  intros Hk. unfold calc_udp_checksum4, make_udp_packet4.
  replace (Z.min k 996) with k by lia.
  set (payload := repeat (rc_pattern c) (Z.to_nat k)).
  assert (Hl : zlen payload = k) by (unfold payload; rewrite zlen_repeat; lia).
  rewrite Hl. destruct (1004 <? 8 + k) eqn:E; [lia|]. cbn [bind].
  rewrite (Z.mod_small (8 + k) 65536) by lia.
  assert (Hu : be_bytes sp ++ be_bytes dp ++ be_bytes (8 + k) ++ [0; 0] ++ payload = udp_dgram sp dp 0 payload).
  { unfold udp_dgram. rewrite Hl. reflexivity. }
  rewrite Hu. set (v := udp_ipv4_checksum (udp_dgram sp dp 0 payload) (rc_src c) (rc_dest c)).
  unfold udp_dgram, be_bytes. cbn [app put_word].
  rewrite get_u16_ok; [|lia|rewrite !zlen_cons; pose proof (zlen_nonneg payload); lia].
  change (Z.to_nat 6) with 6%nat. change (Z.to_nat (6 + 1)) with 7%nat. cbn [nth].
  f_equal. pose proof (Z.div_mod v 256 ltac:(lia)). lia.
Qed.

(* decode_udp4_error, keeping what the expected checksum is *)
Lemma decode_udp4_error_expected c now me p s d tos ttl hck ipid sp dp uck payload E :
  rc_proto c = Udp -> length s = 4%nat -> length d = 4%nat -> peer4_ok me p ->
  let dg := udp4_probe s d tos ttl hck ipid sp dp uck payload in
  zlen (quote4 me p dg) <= 1024 ->
  ext_result c (q_ext p) (ztake (q_n p) (transit4 (q_transit p) dg)) = Ok E ->
  exists ex, calc_udp_checksum4 c sp dp (zlen payload) = Ok ex /\
  recv4 c now (quote4 me p dg) =
  Ok (Some (mk_err (is_du p) (mk_resp_data now (q_router p)
              (PUdp ipid d sp dp (Some (t_tos (q_transit p))) ex uck (zlen payload) false)) (code_of p) E)).
Proof.
  intros Hp Hs Hd Hpeer dg Hlen HE.
  destruct (recv4_quote4 c now me p dg E Hpeer Hlen) as (N & HR & HN & Hpre); [| exact HE |].
  { unfold dg. rewrite zlen_udp4_probe by assumption. pose proof (zlen_nonneg payload). lia. }
  destruct_addr4 s Hs. destruct_addr4 d Hd. unfold dg in Hpre. rewrite udp4_probe_prefix in Hpre.
  destruct (proto_resp4_udp c N Hp HN) as (ex & Hex & HF).
  - rewrite (nth_of_prefix N _ 28 _ Hpre) by (cbn; lia). reflexivity.
  - rewrite (nth_of_prefix N _ 28 _ Hpre) by (cbn; lia). reflexivity.
  - pose proof (zlen_nonneg payload) as Hpl.
    exists ex. split.
    + unfold u16 in Hex. rewrite !(nth_of_prefix N _ 28 _ Hpre) in Hex by (cbn; lia). cbn [nth] in Hex.
      rewrite !be_join in Hex. replace (Z.max 0 (8 + zlen payload - 8)) with (zlen payload) in Hex by lia. exact Hex.
    + rewrite HR. apply finish4_unfold. rewrite HF.
      assert (Hda : firstn 4 (skipn 16 N) = [d0; d1; d2; d3]).
      { assert (Ht : firstn 4 (skipn 16 (ztake 28 N)) = firstn 4 (skipn 16 N)).
        { unfold ztake. change (Z.to_nat 28) with (16 + 12)%nat. rewrite skipn_firstn_comm.
          replace (16 + 12 - 16)%nat with 12%nat by lia. rewrite firstn_firstn. reflexivity. }
        rewrite <- Ht, Hpre. reflexivity. }
      rewrite Hda. unfold u16. rewrite !(nth_of_prefix N _ 28 _ Hpre) by (cbn; lia). cbn [nth].
      rewrite tosv_id, !be_join.
      replace (Z.max 0 (8 + zlen payload - 8)) with (zlen payload) by lia. reflexivity.
Qed.

(* the probe as dispatched (Dublin over IPv4: source / destination as configured, pattern payload, the checksum the
   dispatch computes), quoted by a conforming router: expected = actual *)
Theorem unrewritten_probe_checksums_agree c now me p tos ttl hck ipid sp dp k E :
  rc_proto c = Udp -> length (rc_src c) = 4%nat -> length (rc_dest c) = 4%nat -> peer4_ok me p -> 0 <= k <= 996 ->
  let payload := repeat (rc_pattern c) (Z.to_nat k) in
  let uck := udp_ipv4_checksum (udp_dgram sp dp 0 payload) (rc_src c) (rc_dest c) in
  let dg := udp4_probe (rc_src c) (rc_dest c) tos ttl hck ipid sp dp uck payload in
  zlen (quote4 me p dg) <= 1024 ->
  ext_result c (q_ext p) (ztake (q_n p) (transit4 (q_transit p) dg)) = Ok E ->
  recv4 c now (quote4 me p dg) =
  Ok (Some (mk_err (is_du p) (mk_resp_data now (q_router p)
              (PUdp ipid (rc_dest c) sp dp (Some (t_tos (q_transit p))) uck uck k false)) (code_of p) E)).
Proof.
  intros Hp Hs Hd Hpeer Hk payload uck dg Hlen HE.
  assert (Hl : zlen payload = k) by (unfold payload; rewrite zlen_repeat; lia).
  destruct (decode_udp4_error_expected c now me p (rc_src c) (rc_dest c) tos ttl hck ipid sp dp uck payload E
              Hp Hs Hd Hpeer Hlen HE) as (ex & Hex & Hrecv).
  rewrite Hl in Hex, Hrecv. rewrite (calc_udp_checksum4_spec c sp dp k Hk) in Hex.
  inversion Hex as [Hx]. fold payload in Hx. fold uck in Hx. subst ex. exact Hrecv.
Qed.
